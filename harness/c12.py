"""C12: Kalman filter equals Gaussian conditioning; LinearStateSpace moments / impulse responses /
geometric sums / simulated paths / stationary distributions equal their closed forms."""
import math, warnings
import numpy as np
from common import *

IMPORTS = "From Coq Require Import Qabs.\nFrom QE Require Import Base.LinAlg Base.Gauss C12.Model."
T9 = "(1 # 1000000000)"
T7 = "(1 # 10000000)"
T12 = "(1 # 1000000000000)"
PRE = """
Definition st := (Qmat * Qmat)%type.
Definition st_close (tol : Q) (a b : st) := Qss_close tol (fst a) (fst b) && Qss_close tol (snd a) (snd b).
Definition st_eq (a b : st) := Qss_eqb (fst a) (fst b) && Qss_eqb (snd a) (snd b).
Definition ost_rel (r : st -> st -> bool) (a b : option st) :=
  match a, b with Some x, Some y => r x y | None, None => true | _, _ => false end.
Fixpoint prefixes {A} (l : list A) : list (list A) :=
  match l with [] => [] | x :: r => [x] :: map (cons x) (prefixes r) end.
Definition osome {A} (r : A -> A -> bool) (a : option A) (b : A) :=
  match a with Some x => r x b | None => false end.
(* every entry within the ABSOLUTE tolerance tol (a datum of the case: computed by the oracle from an exact
   forward error bound of the float evaluation, see meta/C12.json) *)
Definition Mabs (tol : Q) : Qmat -> Qmat -> bool :=
  list_eqb (list_eqb (fun a b : Q => Qle_bool (Qabs (a - b)) tol)).
Definition st_abs (tol : Q * Q) (a b : st) := Mabs (fst tol) (fst a) (fst b) && Mabs (snd tol) (snd a) (snd b).
Fixpoint path_abs (tols : list (Q * Q)) (a b : list (option st)) : bool :=
  match a, b with
  | [], [] => true
  | x :: a', y :: b' => ost_rel (st_abs (hd (0, 0) tols)) x y && path_abs (tl tols) a' b'
  | _, _ => false
  end.
Definition mom_abs (tol : Q) (a b : Qmat * Qmat * Qmat * Qmat) :=
  let '(a1, a2, a3, a4) := a in let '(b1, b2, b3, b4) := b in
  Mabs tol a1 b1 && Mabs tol a2 b2 && Mabs tol a3 b3 && Mabs tol a4 b4.
Fixpoint list_abs {A} (r : Q -> A -> A -> bool) (tols : list Q) (a b : list A) : bool :=
  match a, b with
  | [], [] => true
  | x :: a', y :: b' => match tols with [] => false | t :: tols' => r t x y && list_abs r tols' a' b' end
  | _, _ => false
  end.
"""
FINISH = dict(level="proof", technique_note=(
    "Coq theorems (coq/C12/Props.v) about the executable exact-rational model coq/C12/Model.v (Kalman recursion and operation "
    "sequences, LinearStateSpace routines, and the specification batch_conditional); the model is evaluated with vm_compute on the "
    "inputs the implementation ran and compared in Q within a per-case absolute tolerance = exact forward error bound of the float "
    "evaluation (conditioning of every innovation covariance / solved system computed exactly by the oracle) + 1e-12 relative floor "
    "(rule in meta/C12.json; ill-conditioned cases are counted and checked by the oracle only with that loose tolerance); "
    "'sequential = batch' is proved and additionally decided per case exactly in Q; scripted-draw simulate/replicate exact, jitted kernel "
    "bit-exact; independent Fraction oracle (joint law built from the linear maps of the primitive shocks, one exact solve; closed forms; "
    "state equations for the shocks actually drawn; caller's arrays unchanged). non-trivial = n>=2 and record length>=2 (Kalman), "
    "n>=2 and >=2 operations (sequences), n>=2 and horizon>=2 (moments/impulse/simulation), a constant state plus >=1 other state (stationary)"))


# ------------------------------------------------------------------ exact linear algebra (oracle side)
def fm(M):
    """exact Fraction matrix of a float array / nested list (Fractions are kept)"""
    if isinstance(M, np.ndarray):
        M = np.atleast_2d(M).tolist()
    return [[frac(x) for x in r] for r in M]


def mm(A, B):
    return [[sum(A[i][l] * B[l][j] for l in range(len(B))) for j in range(len(B[0]) if B else 0)] for i in range(len(A))]


def mt(A):
    return [list(r) for r in zip(*A)] if A else []


def madd(A, B):
    return [[a + b for a, b in zip(r, s)] for r, s in zip(A, B)]


def msub(A, B):
    return [[a - b for a, b in zip(r, s)] for r, s in zip(A, B)]


def mscale(c, A):
    return [[c * a for a in r] for r in A]


def ident(n):
    return [[Fraction(int(i == j)) for j in range(n)] for i in range(n)]


def zeros(r, c):
    return [[Fraction(0)] * c for _ in range(r)]


def mpow(A, p):
    R = ident(len(A))
    for _ in range(p):
        R = mm(R, A)
    return R


def fsolve(A, B):
    """exact solution of A X = B (A square) or None when A is singular"""
    n = len(A)
    M = [list(A[i]) + list(B[i]) for i in range(n)]
    for c in range(n):
        p = next((r for r in range(c, n) if M[r][c] != 0), None)
        if p is None:
            return None
        M[c], M[p] = M[p], M[c]
        pv = M[c][c]
        M[c] = [x / pv for x in M[c]]
        for r in range(n):
            if r != c and M[r][c] != 0:
                f = M[r][c]
                M[r] = [x - f * y for x, y in zip(M[r], M[c])]
    return [row[n:] for row in M]


def close(a, b, tol):
    return abs(a - b) <= tol * (1 + abs(b))


def mclose(A, B, tol):
    A = fm(A)
    return len(A) == len(B) and all(len(r) == len(s) and all(close(a, b, tol) for a, b in zip(r, s)) for r, s in zip(A, B))


def mabs(A, B, tol):
    """every entry of A within the absolute tolerance tol of B (same shapes)"""
    A = fm(A)
    return len(A) == len(B) and all(len(r) == len(s) and all(abs(a - b) <= tol for a, b in zip(r, s)) for r, s in zip(A, B))


def ninf(M):
    """infinity norm (max absolute row sum), exact"""
    return max([sum(abs(v) for v in r) for r in M] + [Fraction(0)]) if M else Fraction(0)


def mabsval(M):
    return [[abs(v) for v in r] for r in M]


def cond_inf(M):
    """exact condition number ||M|| ||M^-1|| in the infinity norm; None if singular"""
    Mi = fsolve(M, ident(len(M)))
    return None if Mi is None else ninf(M) * ninf(Mi)


U0 = 2.0 ** -52
FLOOR = 1e-12          # relative floor of every tolerance


def tolq(e, ref):
    """absolute tolerance as an exact rational: forward error bound e plus the floor FLOOR * (1 + ||ref||)"""
    return Fraction(float(e) * 1.000001 + FLOOR * (1.0 + float(ninf(ref))))


def tol_class(tol, ref):
    r = float(tol) / (1.0 + float(ninf(ref)))
    return "tol<=1e-9" if r <= 1e-9 else "tol<=1e-6" if r <= 1e-6 else "ill-conditioned(tol<=1e-2)" if r <= 1e-2 else "ill-conditioned(not compared)"


def fl(M):
    return [[float(x) for x in r] for r in M]


def qm(M):
    return qlist2([[frac(x) for x in r] for r in M])


def npm(M):
    return np.array(fl(M), dtype=float).reshape(len(M), len(M[0]) if M else 0)


# ------------------------------------------------------------------ generators (exact dyadic / rational data)
def rmat(rng, r, c, lo, hi, den, zero_p=0.0):
    return [[Fraction(0) if rng.random() < zero_p else Fraction(rng.randint(lo, hi), den) for _ in range(c)] for _ in range(r)]


def gen_A(rng, n, kind):
    """kinds: stable / unstable (eighths), fine (thirds, fifths ... rounded to 1/1024), float53 (p/q as the nearest double:
    53-bit dyadics, exact Coq evaluation is costly: used for short records only)"""
    if kind in ("fine", "float53"):
        A = [[Fraction(rng.randint(-3, 3), rng.choice([3, 5, 7, 9])) if rng.random() < 0.8 else Fraction(0) for _ in range(n)] for _ in range(n)]
    else:
        A = rmat(rng, n, n, -5, 5, 8, 0.25)
    for i in range(n):       # make the infinity norm < 1 (stable)
        while sum(abs(x) for x in A[i]) >= 1:
            A[i] = [x / 2 for x in A[i]]
    if kind == "fine":
        A = [[Fraction(round(x * 1024), 1024) for x in r] for r in A]
    if kind == "unstable":   # mildly unstable / unit root on one state
        i = rng.randrange(n)
        A[i][i] = rng.choice([Fraction(9, 8), Fraction(5, 4), Fraction(1), Fraction(-9, 8), Fraction(17, 16)])
    return A


def gen_C(rng, n, m, kind):
    C = rmat(rng, n, m, -4, 4, 4, 0.2)
    if kind == "zero":
        return zeros(n, m)
    if kind == "singular":
        how = rng.randrange(3)
        if how == 0:
            C[rng.randrange(n)] = [Fraction(0)] * m
        elif how == 1 and m >= 2:
            for i in range(n):
                C[i][m - 1] = C[i][0] * 2
        else:
            u = [Fraction(rng.randint(-2, 2), 2) for _ in range(n)]
            v = [Fraction(rng.randint(-2, 2), 2) for _ in range(m)]
            C = [[u[i] * v[j] for j in range(m)] for i in range(n)]
    return C


def gen_H(rng, k, l, kind):
    """square / triangular / symmetric kinds are k x k and non-diagonal for k >= 2 (H H' differs from H * H' elementwise)"""
    if kind in ("square", "triangular", "symmetric"):
        H = rmat(rng, k, k, -4, 4, 4, 0.0)
        for i in range(k):
            for j in range(k):
                if H[i][j] == 0:
                    H[i][j] = Fraction(3, 4)
                if kind == "triangular" and j > i:
                    H[i][j] = Fraction(0)
                if kind == "symmetric" and j > i:
                    H[i][j] = H[j][i]
        return H
    if kind == "zero":
        return zeros(k, l)
    if kind == "singular":
        u = [Fraction(rng.randint(1, 3), 2) for _ in range(k)]
        v = [Fraction(rng.randint(-2, 2) or 1, 2) for _ in range(l)]
        H = [[u[i] * v[j] for j in range(l)] for i in range(k)]
        if k == 1:
            H = zeros(k, l)
        return H
    H = rmat(rng, k, l, -4, 4, 4, 0.1)
    for i in range(min(k, l)):
        if H[i][i] == 0:
            H[i][i] = Fraction(1)
    return H


def gen_G(rng, k, n):
    G = rmat(rng, k, n, -4, 4, 4, 0.25)
    for i in range(k):
        if all(x == 0 for x in G[i]):
            G[i][rng.randrange(n)] = Fraction(1)
    return G


def gen_psd(rng, n):
    r = rng.choice([0, 1, n, n, n + 1])
    if r == 0:
        return zeros(n, n)
    B = rmat(rng, n, r, -4, 4, 4, 0.2)
    return mm(B, mt(B))


def gen_model(rng, n=None, kindA=None):
    n = n or rng.choice([1, 2, 2, 3, 3, 4])
    m = rng.choice([1, 2, 3])
    k = rng.choice([1, 1, 2, 2, 3])
    l = rng.choice([1, 2, 3])
    kindA = kindA or rng.choice(["stable", "stable", "unstable", "unstable", "fine", "fine", "float53"])
    if kindA == "float53":
        n = min(n, 2)
    kindC = rng.choice(["full", "full", "singular", "zero"])
    kindH = rng.choice(["full", "full", "singular", "zero", "square", "triangular", "symmetric"])
    if kindH in ("square", "triangular", "symmetric"):
        l = k
    d = dict(n=n, m=m, k=k, l=l, kindA=kindA, kindC=kindC, kindH=kindH,
             A=gen_A(rng, n, kindA), C=gen_C(rng, n, m, kindC), G=gen_G(rng, k, n), H=gen_H(rng, k, l, kindH),
             mu0=rmat(rng, n, 1, -8, 8, 4), S0=gen_psd(rng, n))
    return exact_floats(d)


def exact_floats(d):
    """the implementation receives floats: the exact data of a case are those floats"""
    for key in ("A", "C", "G", "H", "mu0", "S0"):
        d[key] = fm(fl(d[key]))
    return d


def model_json(d):
    return {key: (d[key] if isinstance(d[key], (int, str)) else fl(d[key])) for key in d}


def mk_lss(d, with_H=True):
    from quantecon import LinearStateSpace
    return LinearStateSpace(npm(d["A"]), npm(d["C"]), npm(d["G"]), npm(d["H"]) if with_H else None,
                            mu_0=npm(d["mu0"]), Sigma_0=npm(d["S0"]))


def dims(d):
    return "%d%%nat, %d%%nat, %d%%nat, %d%%nat" % (d["n"], d["m"], d["k"], d["l"])


# ------------------------------------------------------------------ oracle: batch Gaussian conditioning
def oracle_batch(d, ys):
    """exact moments of x_t | y_0..y_{t-1} from the joint law, assembled from the linear maps of the primitive
    shocks z = (x_0 - xh0, w_1..w_t, v_0..v_{t-1}) with covariance blockdiag(S0, I, I). None if Var(y) singular."""
    n, m, k, l = d["n"], d["m"], d["k"], d["l"]
    A, C, G, H, xh0, S0 = d["A"], d["C"], d["G"], d["H"], d["mu0"], d["S0"]
    t = len(ys)
    dz = n + t * m + t * l
    D = zeros(dz, dz)
    for i in range(n):
        for j in range(n):
            D[i][j] = S0[i][j]
    for i in range(n, dz):
        D[i][i] = Fraction(1)
    Lx = [[Fraction(int(j == i)) for j in range(dz)] for i in range(n)]       # x_0 - E x_0
    mean = [r[:] for r in xh0]
    Ly, my = [], []
    for s in range(t):
        GL = mm(G, Lx)
        for i in range(k):
            for j in range(l):
                GL[i][n + t * m + s * l + j] += H[i][j]
        Ly += GL
        my += mm(G, mean)
        Lx = mm(A, Lx)
        for i in range(n):
            for j in range(m):
                Lx[i][n + s * m + j] += C[i][j]
        mean = mm(A, mean)
    if t == 0:
        return mean, mm(mm(Lx, D), mt(Lx))
    Sxx = mm(mm(Lx, D), mt(Lx))
    Sxy = mm(mm(Lx, D), mt(Ly))
    Syy = mm(mm(Ly, D), mt(Ly))
    yv = [r for y in ys for r in y]
    Z = fsolve(Syy, [mt(Sxy)[i] + [yv[i][0] - my[i][0]] for i in range(t * k)])
    if Z is None:
        return None
    Z1 = [r[:n] for r in Z]
    Z2 = [r[n:] for r in Z]
    return madd(mean, mm(Sxy, Z2)), msub(Sxx, mm(Sxy, Z1))


def check_psd(ctx, S, inp, what, tol=None):
    """symmetric and PSD up to the absolute entry tolerance tol (an entrywise error tol moves eigenvalues by <= n tol)"""
    S = np.asarray(S, dtype=float)
    sc = 1 + np.max(np.abs(S)) if S.size else 1
    tol = 1e-11 * sc if tol is None else max(float(tol), 1e-13 * sc)
    if np.max(np.abs(S - S.T)) > 2 * tol:
        ctx.fail("kalman_cov_symmetric", what + " is not symmetric", inp, S.tolist(), None)
        return
    ev = np.linalg.eigvalsh((S + S.T) / 2)
    if ev.min() < -(len(S) + 1) * tol - 1e-13 * sc:
        ctx.fail("kalman_cov_psd", what + " is not positive semidefinite", inp, S.tolist(), float(ev.min()))


# ------------------------------------------------------------------ Kalman
def exact_ops(d, xh, S, ops):
    """Exact state after each operation (Fractions; prior_to_filtered = Gaussian conditioning of N(xh, S) on
    y = G x + H v, filtered_to_forecast = law of A x + C w) together with a first-order forward error bound
    (absolute, max norm) of the float evaluation of these formulas, driven by exactly computed norms and by
    ||F^-1||: one entry ((xh, S), e_x, e_S) per operation; None at a singular F.
    ops: list of (kind, y) with kind in 'F' (prior_to_filtered), 'T' (filtered_to_forecast), 'U' (update)."""
    A, C, G, H = d["A"], d["C"], d["G"], d["H"]
    u = U0 * 8 * max(d["n"], d["m"], d["k"], d["l"])
    R = mm(H, mt(H)); Qm = mm(C, mt(C))
    nA, nAt, nG, nGt, nR, nQ = [float(ninf(z)) for z in (A, mt(A), G, mt(G), R, Qm)]
    ex = eS = 0.0
    out = []
    for kind, y in ops:
        if kind in "FU":
            F = madd(mm(mm(G, S), mt(G)), R)
            Fi = fsolve(F, ident(d["k"]))
            if Fi is None:
                out.append(None)
                break
            E = mm(S, mt(G)); M = mm(E, Fi); inn = msub(y, mm(G, xh))
            nS, nFi, nF, nE, nM, nin, nx, ny = [float(ninf(z)) for z in (S, Fi, F, E, M, inn, xh, y)]
            eF = nG * nGt * eS + u * (nG * nS * nGt + nR)
            eFi = nFi * nFi * eF + u * nF * nFi * nFi
            eE = eS * nGt + u * nS * nGt
            eM = eE * nFi + nE * eFi + u * nE * nFi
            ein = nG * ex + u * (ny + nG * nx)
            ex = ex + eM * nin + nM * ein + u * (nx + nM * nin)
            eS = eS + eM * nG * nS + nM * nG * eS + u * (nS + nM * nG * nS)
            xh = madd(xh, mm(M, inn)); S = msub(S, mm(M, mm(G, S)))
        if kind in "TU":
            nx, nS = float(ninf(xh)), float(ninf(S))
            ex = nA * ex + u * nA * nx
            eS = nA * nAt * eS + u * (nA * nS * nAt + nQ)
            xh = mm(A, xh); S = madd(mm(mm(A, S), mt(A)), Qm)
        out.append(((xh, S), ex, eS))
    return out


def run_kalman_impl(d, ys):
    from quantecon import Kalman
    kn = Kalman(mk_lss(d), npm(d["mu0"]), npm(d["S0"]))
    out = []
    for y in ys:
        try:
            with warnings.catch_warnings():
                warnings.simplefilter("ignore")
                kn.update(npm(y))
        except np.linalg.LinAlgError:
            out.append(None)
            break
        out.append((kn.x_hat.tolist(), kn.Sigma.tolist()))
    return out


def ost_lit(s):
    return "None" if s is None else "(Some (%s, %s))" % (qm(s[0]), qm(s[1]))


def tols_lit(tols):
    return "[" + "; ".join(tup(qlit(a), qlit(b)) for a, b in tols) + "]" if tols else "(@nil (Q * Q))"


def kalman_case_lit(d, ys, impl, tols):
    return tup(dims(d), qm(d["A"]), qm(d["C"]), qm(d["G"]), qm(d["H"]), qm(d["mu0"]), qm(d["S0"]),
               "[" + "; ".join(qm(y) for y in ys) + "]", "[" + "; ".join(ost_lit(s) for s in impl) + "]", tols_lit(tols))


KAL_TYPE = "nat * nat * nat * nat * Qmat * Qmat * Qmat * Qmat * Qmat * Qmat * list Qmat * list (option st) * list (Q * Q)"
KAL_OK = ("fun c => let '(n, m, k, l, A, C, G, H, xh, S0, ys, impl, tols) := c in "
          "let path := kalman_path n m k l A C G H (xh, S0) ys in "
          "path_abs tols path impl && "
          "(if Nat.eqb (length path) (length ys) then ost_rel st_eq (last path None) (batch_conditional n m k l A C G H xh S0 ys) else true)")


def step_tolerances(steps):
    """[(tol_x, tol_S)] per step and the class of the loosest one"""
    tols, worst = [], "tol<=1e-9"
    order = ["tol<=1e-9", "tol<=1e-6", "ill-conditioned(tol<=1e-2)", "ill-conditioned(not compared)"]
    for st in steps:
        if st is None:
            break
        (xe, Se), ex, eS = st
        tx, tS = tolq(ex, xe), tolq(eS, Se)
        tols.append((tx, tS))
        for cl in (tol_class(tx, xe), tol_class(tS, Se)):
            if order.index(cl) > order.index(worst):
                worst = cl
    return tols, worst


def gen_obs(rng, k, t):
    mode = rng.randrange(4)
    if mode == 0:
        return [rmat(rng, k, 1, -8, 8, 4) for _ in range(t)]
    if mode == 1:
        return [rmat(rng, k, 1, -4000, 4000, 4) for _ in range(t)]
    if mode == 2:
        return [[[Fraction(round(rng.uniform(-3, 3) * 4096), 4096)] for _ in range(k)] for _ in range(t)]
    return [[[Fraction(0)] for _ in range(k)] if rng.random() < 0.5 else rmat(rng, k, 1, -8, 8, 4) for _ in range(t)]


BITS = {"stable": 4, "unstable": 5, "fine": 11, "float53": 53}


def coq_cost(d, t):
    """rough cost of the exact evaluation in Coq (Qred after every operation on numbers whose size grows like
    (k t)^2 n bits); cases above the tier's limit are decided by the exact Python oracle only"""
    return (d["k"] * t) ** 2 * d["n"] * BITS[d["kindA"]]


def kalman_checks(ctx, N, limit):
    cases, meta = [], []
    done = tries = 0
    while done < N and tries < 20 * N:
        tries += 1
        d = gen_model(ctx.rng)
        t = ctx.rng.choice([1, 2, 3, 4, 5, 6, 6]) if d["kindA"] != "float53" else ctx.rng.choice([1, 2, 3])
        ys = [fm(fl(y)) for y in gen_obs(ctx.rng, d["k"], t)]
        ob = oracle_batch(d, ys)
        if ob is None:
            ctx.count("kalman:regenerated_singular_F")
            continue
        done += 1
        impl = run_kalman_impl(d, ys)
        inp = dict(model_json(d), ys=[fl(y) for y in ys])
        ctx.case(("kalman", str(inp)), nontrivial=(d["n"] >= 2 and t >= 2),
                 sample={"kalman": {"n": d["n"], "k": d["k"], "t": t, "kindA": d["kindA"], "kindC": d["kindC"], "kindH": d["kindH"]},
                         "impl_x_hat": impl[-1][0] if impl and impl[-1] else None})
        ctx.count("kalman:n=%d" % d["n"]); ctx.count("kalman:k=%d" % d["k"]); ctx.count("kalman:t=%d" % t)
        ctx.count("kalman:A=" + d["kindA"]); ctx.count("kalman:C=" + d["kindC"]); ctx.count("kalman:H=" + d["kindH"])
        # tolerance: exact forward error bound of the float recursion (conditioning of every F_t enters through ||F_t^-1||)
        steps = exact_ops(d, d["mu0"], d["S0"], [("U", y) for y in ys])
        tols, cls = step_tolerances(steps)
        ctx.count("kalman:" + cls)
        # oracle: after every prefix the state equals the exact conditional law; covariance symmetric PSD
        if len(impl) != t:
            ctx.fail("kalman_raises", "update raised LinAlgError although Var(y) is non-singular", inp, None, None)
        for j, s in enumerate(impl):
            pin = dict(inp, prefix=j + 1)
            if s is None:
                ctx.fail("kalman_raises", "update raised LinAlgError although Var(y) is non-singular", pin, None, None)
                break
            exact = ob if j + 1 == t else oracle_batch(d, ys[:j + 1])
            tx, tS = tols[j]
            if tol_class(tx, exact[0]).endswith("(not compared)") or tol_class(tS, exact[1]).endswith("(not compared)"):
                break           # error bound above 1e-2 of the state's size: float result carries no information
            if not mabs(s[0], exact[0], tx) or not mabs(s[1], exact[1], tS):
                ctx.fail("kalman_conditioning", "x_hat/Sigma after the record differ from the exact conditional mean/covariance "
                         "by more than the forward error bound of the float recursion",
                         dict(pin, tol_x=float(tx), tol_Sigma=float(tS)), s, [fl(exact[0]), fl(exact[1])])
                break
            check_psd(ctx, s[1], pin, "Kalman.Sigma", tol=tS)
        if cls.startswith("ill-conditioned"):
            ctx.count("kalman:oracle_only(ill-conditioned)")
        elif coq_cost(d, t) <= limit:
            ctx.count("kalman:model_and_oracle")
            cases.append(kalman_case_lit(d, ys, impl, tols))
            meta.append((inp, impl, coq_cost(d, t)))
        else:
            ctx.count("kalman:oracle_only(cost>limit)")
    # rejected inputs: F exactly zero at the first observation (H = 0 and Sigma = 0): inv raises LinAlgError
    for _ in range(max(3, N // 16)):
        d = gen_model(ctx.rng, kindA="stable")
        d["H"] = zeros(d["k"], d["l"]); d["S0"] = zeros(d["n"], d["n"])
        ys = gen_obs(ctx.rng, d["k"], 2)
        impl = run_kalman_impl(d, ys)
        inp = dict(model_json(d), ys=[fl(y) for y in ys])
        ctx.case(("kalman_singular", str(inp)), nontrivial=False)
        ctx.count("kalman:singular_F(zero)")
        if impl != [None]:
            ctx.fail("kalman_singular_accepted", "F is exactly zero but update returned a state", inp, impl, "LinAlgError")
        cases.append(kalman_case_lit(d, ys, impl, []))
        meta.append((inp, impl, 0))
    order = sorted(range(len(cases)), key=lambda i: -meta[i][2])      # expensive cases first: better load balance
    bad = ctx.coq_check("kalman_update_and_batch", IMPORTS, KAL_TYPE, KAL_OK, [cases[i] for i in order], chunk=2, preamble=PRE)
    for i in bad:
        ctx.mismatch("C12.Model.kalman_path / batch_conditional vs Kalman.update", meta[order[i]][0], meta[order[i]][1])


def ops_checks(ctx, N, limit):
    """prior_to_filtered / filtered_to_forecast / update in any order from a freshly set prior; float, integer-dtype,
    default and aliased priors (the LinearStateSpace's own mu_0 / Sigma_0, or arrays kept by the caller). After every
    operation: the Kalman state against the model and the exact oracle, and every array owned by the caller or by the
    LinearStateSpace unchanged (values, dtype, shape)."""
    from quantecon import Kalman
    cases, meta = [], []
    done = tries = 0
    priors = ["float", "int", "alias_ss", "alias_caller_1d", "default"]
    while done < N and tries < 20 * N:
        tries += 1
        d = gen_model(ctx.rng, kindA=ctx.rng.choice(["stable", "unstable", "fine"]))
        n, k = d["n"], d["k"]
        prior = priors[done % len(priors)]
        if prior == "int":
            B = [[Fraction(ctx.rng.randint(-2, 2)) for _ in range(n)] for _ in range(n)]
            d["mu0"] = [[Fraction(ctx.rng.randint(-5, 5))] for _ in range(n)]
            d["S0"] = mm(B, mt(B))
        elif prior == "default":
            d["mu0"] = zeros(n, 1); d["S0"] = ident(n)
        nops = ctx.rng.randint(1, 5)
        kinds = ["T", "F", "U"][(done // len(priors)) % 3] + "".join(ctx.rng.choice("TFU") for _ in range(nops - 1))
        ops = [(c, None if c == "T" else fm(fl(rmat(ctx.rng, k, 1, -8, 8, 4)))) for c in kinds]
        steps = exact_ops(d, d["mu0"], d["S0"], ops)
        if any(st is None for st in steps):
            ctx.count("kalman_ops:regenerated_singular_F")
            continue
        tols, cls = step_tolerances(steps)
        if cls.endswith("(not compared)"):
            ctx.count("kalman_ops:regenerated_ill_conditioned")
            continue
        done += 1
        ss = mk_lss(d)
        if prior == "float":
            xa, Sa = npm(d["mu0"]), npm(d["S0"])
        elif prior == "int":
            xa = np.array([[int(v[0])] for v in d["mu0"]], dtype=np.int64)
            Sa = np.array([[int(v) for v in r] for r in d["S0"]], dtype=np.int64)
        elif prior == "alias_ss":
            xa, Sa = ss.mu_0, ss.Sigma_0
        elif prior == "alias_caller_1d":
            xa, Sa = np.array([float(v[0]) for v in d["mu0"]]), npm(d["S0"])
        else:
            xa = Sa = None
        kn = Kalman(ss) if prior == "default" else Kalman(ss, xa, Sa)
        yarrs = [None if y is None else (npm(y) if ctx.rng.random() < 0.5 else np.array([float(v[0]) for v in y])) for _, y in ops]
        watched = {"caller x_hat": xa, "caller Sigma": Sa, "ss.mu_0": ss.mu_0, "ss.Sigma_0": ss.Sigma_0, "ss.A": ss.A, "ss.C": ss.C,
                   "ss.G": ss.G, "ss.H": ss.H}
        watched.update({"y[%d]" % i: ya for i, ya in enumerate(yarrs)})
        watched = {name: (arr, arr.copy(), arr.dtype, arr.shape) for name, arr in watched.items() if arr is not None}
        inp = dict(model_json(d), prior=prior, ops=kinds, ys=[None if y is None else fl(y) for _, y in ops])
        ctx.case(("kalman_ops", str(inp)), nontrivial=(n >= 2 and nops >= 2))
        ctx.count("kalman_ops:prior=" + prior); ctx.count("kalman_ops:first=" + kinds[0]); ctx.count("kalman_ops:" + cls)
        impl = []
        for i, (c, _) in enumerate(ops):
            with warnings.catch_warnings():
                warnings.simplefilter("ignore")
                if c == "T":
                    kn.filtered_to_forecast()
                elif c == "F":
                    kn.prior_to_filtered(yarrs[i])
                else:
                    kn.update(yarrs[i])
            state = (np.asarray(kn.x_hat, dtype=float).tolist(), np.asarray(kn.Sigma, dtype=float).tolist())
            impl.append(state)
            sin = dict(inp, step=i + 1)
            for name, (arr, copy, dt, shp) in watched.items():
                if arr.dtype != dt or arr.shape != shp or not np.array_equal(arr, copy):
                    ctx.fail("kalman_mutates_input", "%s was modified by Kalman.%s" % (name, {"T": "filtered_to_forecast", "F": "prior_to_filtered", "U": "update"}[c]),
                             sin, arr.tolist(), copy.tolist())
                    break
            (xe, Se), _, _ = steps[i]
            tx, tS = tols[i]
            if np.asarray(kn.x_hat).shape != (n, 1) or np.asarray(kn.Sigma).shape != (n, n):
                ctx.fail("kalman_ops", "state has the wrong shape", sin, state, None)
                break
            if not mabs(state[0], xe, tx) or not mabs(state[1], Se, tS):
                ctx.fail("kalman_ops", "state after the operation sequence differs from the exact conditioning / forecast moments",
                         dict(sin, tol_x=float(tx), tol_Sigma=float(tS)), state, [fl(xe), fl(Se)])
                break
        # the model's own law must be what it was: first term of moment_sequence
        mx0, _, Sx0, _ = next(ss.moment_sequence())
        if not mabs(mx0, d["mu0"] if prior != "default" else fm(ss.mu_0), 0) or not mabs(Sx0, d["S0"] if prior != "default" else fm(ss.Sigma_0), 0):
            ctx.fail("kalman_mutates_input", "moment_sequence of the LinearStateSpace changed after filtering", inp,
                     [np.asarray(mx0).tolist(), np.asarray(Sx0).tolist()], [fl(d["mu0"]), fl(d["S0"])])
        if cls.startswith("ill-conditioned") or coq_cost(d, nops) > limit:
            ctx.count("kalman_ops:oracle_only")
            continue
        oplit = "[" + "; ".join("KForecast" if c == "T" else "(%s %s)" % ("KFilter" if c == "F" else "KUpdate", qm(y)) for c, y in ops) + "]"
        cases.append(tup(dims(d), qm(d["A"]), qm(d["C"]), qm(d["G"]), qm(d["H"]), qm(d["mu0"]), qm(d["S0"]), oplit,
                         "[" + "; ".join(ost_lit(st) for st in impl) + "]", tols_lit(tols)))
        meta.append((inp, impl, coq_cost(d, nops)))
    order = sorted(range(len(cases)), key=lambda i: -meta[i][2])
    ok = ("fun c => let '(n, m, k, l, A, C, G, H, xh, S0, ops, impl, tols) := c in "
          "path_abs tols (kalman_ops n m k l A C G H (xh, S0) ops) impl")
    bad = ctx.coq_check("kalman_operation_sequences", IMPORTS,
                        "nat * nat * nat * nat * Qmat * Qmat * Qmat * Qmat * Qmat * Qmat * list (@kop Q) * list (option st) * list (Q * Q)",
                        ok, [cases[i] for i in order], chunk=3, preamble=PRE)
    for i in bad:
        ctx.mismatch("C12.Model.kalman_ops vs Kalman.prior_to_filtered/filtered_to_forecast/update sequences", meta[order[i]][0], meta[order[i]][1])


def gen_riccati_model(rng):
    """model on which the dual Riccati equation has a stabilising solution: R = HH' positive definite, and every state
    observed when A is mildly unstable"""
    d = gen_model(rng, kindA=rng.choice(["stable", "stable", "unstable"]))
    if d["kindH"] != "full" or d["l"] < d["k"]:
        d["l"] = max(d["l"], d["k"])
        d["H"] = [[Fraction(int(i == j)) * Fraction(rng.randint(1, 4), 2) for j in range(d["l"])] for i in range(d["k"])]
    if d["kindA"] == "unstable":
        d["G"] = [[x if x != 0 else Fraction(1, 2) for x in r] for r in d["G"]]
    return d


STAT_TYPE = "nat * nat * nat * nat * Qmat * Qmat * Qmat * Qmat * Qmat * Qmat * Q * Q"
STAT_OK = ("fun c => let '(n, m, k, l, A, C, G, H, Sg, Kg, tolK, tolS) := c in "
           "osome (Mabs tolK) (stationary_K n k l A G H Sg) Kg && "
           "match update n m k l A C G H (mzero n 1, Sg) (mzero k 1) with Some a => Mabs tolS (snd a) Sg | None => false end")


def check_stationary_pair(ctx, d, S, K, inp, what):
    """oracle for a pair (Sigma_inf, K_inf) claimed for model d: fixed point of the covariance update of THIS model,
    K = A Sigma G'(G Sigma G' + R)^-1, Sigma symmetric PSD. Returns the Coq case literal (or None)."""
    Sf, A, C, G, H = fm(S), d["A"], d["C"], d["G"], d["H"]
    if len(Sf) != d["n"] or any(len(r) != d["n"] for r in Sf) or np.asarray(K).shape != (d["n"], d["k"]):
        ctx.fail("stationary_fixed_point", what + ": Sigma_infinity / K_infinity have the wrong shape for this model", inp,
                 [np.asarray(S).tolist(), np.asarray(K).tolist()], None)
        return None
    R = mm(H, mt(H)); Qm = mm(C, mt(C))
    F = madd(mm(mm(G, Sf), mt(G)), R)
    Fi = fsolve(F, ident(d["k"]))
    if Fi is None:
        ctx.fail("stationary_fixed_point", what + ": G Sigma_inf G' + R singular", inp, np.asarray(S).tolist(), None)
        return None
    M = mm(mm(Sf, mt(G)), Fi)
    Snext = madd(mm(mm(A, msub(Sf, mm(M, mm(G, Sf)))), mt(A)), Qm)
    # Sigma_infinity comes from an iteration stopped at 1e-10: residual of the fixed-point equation within 1e-7 of its size
    tolS = Fraction(1e-7 * (1.0 + float(ninf(Sf))))
    if not mabs(S, Snext, tolS):
        ctx.fail("stationary_fixed_point", what + ": Sigma_infinity is not a fixed point of the covariance update of its own model", inp,
                 np.asarray(S).tolist(), fl(Snext))
    Kex = mm(A, M)
    # K is one product and one inverse away from Sigma_infinity: forward error u ||A Sigma G'|| ||F^-1|| (1 + cond F)
    u = U0 * 8 * max(d["n"], d["k"], d["l"])
    tolK = tolq(u * float(ninf(mm(mm(A, Sf), mt(G)))) * float(ninf(Fi)) * (1.0 + float(ninf(F) * ninf(Fi))), Kex)
    ctx.count("stationary_values:K " + tol_class(tolK, Kex))
    if not mabs(K, Kex, tolK):
        ctx.fail("stationary_gain", what + ": K_infinity != A Sigma G'(G Sigma G' + R)^-1", dict(inp, tol=float(tolK)), np.asarray(K).tolist(), fl(Kex))
    check_psd(ctx, S, inp, "Sigma_infinity", tol=float(tolS))
    return tup(dims(d), qm(A), qm(C), qm(G), qm(H), qm(np.asarray(S).tolist()), qm(np.asarray(K).tolist()), qlit(tolK), qlit(tolS))


def stationary_checks(ctx, N):
    from quantecon import Kalman
    cases, meta = [], []
    tries = 0
    while len(cases) < N and tries < 10 * N:
        tries += 1
        d = gen_riccati_model(ctx.rng)
        inp = model_json(d)
        try:
            with warnings.catch_warnings():
                warnings.simplefilter("ignore")
                kn = Kalman(mk_lss(d))
                S, K = kn.stationary_values()
                S2, K2 = kn.Sigma_infinity, kn.K_infinity
        except ValueError:
            ctx.count("stationary_values:riccati_did_not_converge")
            continue
        if not (np.all(np.isfinite(S)) and np.all(np.isfinite(K))):
            ctx.count("stationary_values:nonfinite")
            continue
        ctx.case(("stationary_values", str(inp)), nontrivial=(d["n"] >= 2))
        ctx.count("stationary_values:A=" + d["kindA"])
        lit = check_stationary_pair(ctx, d, S, K, inp, "stationary_values()")
        if S2 is not S or K2 is not K:
            ctx.fail("stationary_cache", "Sigma_infinity/K_infinity properties do not return the computed values", inp, None, None)
        if lit is not None:
            cases.append(lit)
            meta.append(inp)
    bad = ctx.coq_check("kalman_stationary_values", IMPORTS, STAT_TYPE, STAT_OK, cases, chunk=max(1, len(cases) // 6), preamble=PRE)
    for i in bad:
        ctx.mismatch("C12.Model.stationary_K / update fixed point vs Kalman.stationary_values", meta[i])


def multi_object_checks(ctx, N):
    """two or three Kalman / LinearStateSpace objects with DIFFERENT models alive together, operations interleaved
    (update, stationary_values, and the lazy readers Sigma_infinity, K_infinity, stationary_coefficients,
    stationary_innovation_covar, whitener_lss): every value read from an object is checked against ITS OWN model
    (fixed-point oracle, model's stationary_K / stationary_coefficients) and against an explicit solve on a separate object."""
    from quantecon import Kalman
    pair_cases, pair_meta, coef_cases, coef_meta = [], [], [], []
    for ci in range(N):
        nobj = ctx.rng.choice([2, 2, 3])
        ds, refs = [], []
        tries = 0
        while len(ds) < nobj and tries < 40:
            tries += 1
            d = gen_riccati_model(ctx.rng)
            if ds and ctx.rng.random() < 0.5:       # same shapes as the first model, different numbers: a stale value would fit
                d2 = gen_riccati_model(ctx.rng)
                if (d2["n"], d2["k"]) != (ds[0]["n"], ds[0]["k"]):
                    continue
                d = d2
            try:
                with warnings.catch_warnings():
                    warnings.simplefilter("ignore")
                    Sr, Kr = Kalman(mk_lss(d)).stationary_values()       # explicit solve on a separate object
            except ValueError:
                continue
            if not (np.all(np.isfinite(Sr)) and np.all(np.isfinite(Kr))):
                continue
            ds.append(d); refs.append((Sr.copy(), Kr.copy()))
        if len(ds) < 2:
            continue
        nobj = len(ds)
        sss = [mk_lss(d) for d in ds]
        kns = [Kalman(ss, npm(d["mu0"]), npm(d["S0"])) for ss, d in zip(sss, ds)]
        # script: a solve on one object, then lazy reads on the others, interleaved with updates
        first = ctx.rng.randrange(nobj)
        script = [("stationary_values", first)]
        readers = ["Sigma_infinity", "K_infinity", "stationary_coefficients_ma", "stationary_coefficients_var",
                   "stationary_innovation_covar", "whitener_lss", "update", "stationary_values"]
        for o in [i for i in range(nobj) if i != first] + [ctx.rng.randrange(nobj) for _ in range(ctx.rng.randint(2, 6))]:
            script.append((ctx.rng.choice(readers[:6]) if len(script) <= nobj else ctx.rng.choice(readers), o))
        inp = {"objects": [model_json(d) for d in ds], "script": [[op, o] for op, o in script]}
        ctx.case(("multi_object", str(inp)), nontrivial=True)
        ctx.count("multi_object:objects=%d" % nobj)
        for step, (op, o) in enumerate(script):
            d, kn, (Sr, Kr) = ds[o], kns[o], refs[o]
            n, k = d["n"], d["k"]
            sin = {"object": o, "operation": op, "step": step, "model": model_json(d), "script": inp["script"],
                   "other_models": [model_json(x) for i, x in enumerate(ds) if i != o]}
            ctx.count("multi_object:" + op)
            try:
                with warnings.catch_warnings():
                    warnings.simplefilter("ignore")
                    if op == "update":
                        try:
                            kn.update(npm(fm(fl(rmat(ctx.rng, k, 1, -8, 8, 4)))))
                        except np.linalg.LinAlgError:
                            pass
                        continue
                    if op == "stationary_values":
                        S, K = kn.stationary_values()
                    elif op == "whitener_lss":
                        w = kn.whitener_lss()
                        S, K = kn.Sigma_infinity, kn.K_infinity
                        KG = np.asarray(w.A)[n:2 * n, :n]
                        if np.asarray(w.A).shape != (2 * n + d["l"], 2 * n + d["l"]) or not mabs(KG, mm(fm(np.asarray(K)), d["G"]), Fraction(1e-9 * (1.0 + float(np.max(np.abs(KG)))))):
                            ctx.fail("stationary_lazy", "whitener_lss is not built from this model's K_infinity", sin, np.asarray(w.A).tolist(), None)
                    else:
                        S, K = kn.Sigma_infinity, kn.K_infinity
                    V = kn.stationary_innovation_covar() if op == "stationary_innovation_covar" else None
                    jco = ctx.rng.randint(0, 4)
                    co = kn.stationary_coefficients(jco, "var" if op.endswith("var") else "ma") if op.startswith("stationary_coefficients") else None
            except Exception as e:       # a reader of stationary quantities must not raise on a model whose explicit solve succeeds
                ctx.fail("stationary_lazy", "%s raised %s: %s" % (op, type(e).__name__, str(e)[:200]), sin, None, None)
                continue
            # whatever route produced them, (S, K) must be THIS model's stationary pair
            lit = check_stationary_pair(ctx, d, S, K, sin, "object %d after %s" % (o, op))
            if np.asarray(S).shape == Sr.shape and (not mabs(S, fm(Sr), Fraction(1e-7 * (1.0 + float(np.max(np.abs(Sr)))))) or
                                                    not mabs(K, fm(Kr), Fraction(1e-7 * (1.0 + float(np.max(np.abs(Kr))))))):
                ctx.fail("stationary_lazy", "Sigma_infinity/K_infinity read from the object differ from an explicit solve of its own model",
                         sin, [np.asarray(S).tolist(), np.asarray(K).tolist()], [Sr.tolist(), Kr.tolist()])
            if lit is not None:
                pair_cases.append(lit); pair_meta.append(sin)
            if op.startswith("stationary_coefficients") or op == "stationary_innovation_covar":
                Kf, A, G = fm(np.asarray(K)), d["A"], d["G"]
                if np.asarray(K).shape != (n, k):
                    continue
                u = U0 * 8 * max(n, k)
                if op == "stationary_innovation_covar":
                    ex = madd(mm(mm(G, fm(np.asarray(S))), mt(G)), mm(d["H"], mt(d["H"])))
                    tol = tolq(u * 4 * float(ninf(mm(mm(mabsval(G), mabsval(fm(np.asarray(S)))), mabsval(mt(G))))), ex)
                    if not mabs(V, ex, tol):
                        ctx.fail("stationary_lazy", "stationary_innovation_covar != G Sigma_inf G' + R of its own model", sin, np.asarray(V).tolist(), fl(ex))
                    coef_cases.append(tup(dims(d), qm(A), qm(G), qm(d["H"]), qm(np.asarray(S).tolist()), qm(Kf), "0%nat", "false",
                                          "[" + qm(np.asarray(V).tolist()) + "]", qlist([tol]), "true"))
                    coef_meta.append(sin)
                    continue
                var = op.endswith("var")
                j = jco
                Pm = msub(A, mm(Kf, G)) if var else A
                P = Pm if var else ident(n)
                Pa_m = madd(mabsval(A), mm(mabsval(Kf), mabsval(G))) if var else mabsval(A)
                Pa = Pa_m if var else ident(n)
                exs = [mm(G, Kf) if var else ident(k)]
                tols = [tolq(u * 2 * float(ninf(mm(mabsval(G), mabsval(Kf)))), exs[0])]
                for i in range(1, j + 1):
                    exs.append(mm(mm(G, P), Kf))
                    tols.append(tolq(u * (i + 3) * float(ninf(mm(mm(mabsval(G), Pa), mabsval(Kf)))), exs[-1]))
                    P = mm(P, Pm); Pa = mm(Pa, Pa_m)
                if len(co) != j + 1 or any(not mabs(c_, e_, t_) for c_, e_, t_ in zip(co, exs, tols)):
                    ctx.fail("stationary_lazy", "stationary_coefficients(%d, %s) are not G P^i K of its own model" % (j, "var" if var else "ma"),
                             sin, [np.asarray(c_).tolist() for c_ in co], [fl(e_) for e_ in exs])
                else:
                    coef_cases.append(tup(dims(d), qm(A), qm(G), qm(d["H"]), qm(np.asarray(S).tolist()), qm(Kf), "%d%%nat" % j, blit(var),
                                          "[" + "; ".join(qm(np.asarray(c_).tolist()) for c_ in co) + "]", qlist(tols), "false"))
                    coef_meta.append(sin)
        # the LinearStateSpace objects are still what they were
        for o, (ss, d) in enumerate(zip(sss, ds)):
            mx0, _, Sx0, _ = next(ss.moment_sequence())
            if not (mabs(mx0, d["mu0"], 0) and mabs(Sx0, d["S0"], 0) and mabs(ss.A, d["A"], 0) and mabs(ss.G, d["G"], 0)):
                ctx.fail("kalman_mutates_input", "LinearStateSpace object changed while filtering with several objects", {"object": o, "model": model_json(d)}, None, None)
    bad = ctx.coq_check("kalman_lazy_stationary_pairs", IMPORTS, STAT_TYPE, STAT_OK, pair_cases, chunk=max(1, len(pair_cases) // 10), preamble=PRE)
    for i in bad:
        ctx.mismatch("C12.Model.stationary_K / update fixed point vs lazily read Sigma_infinity/K_infinity (several objects)", pair_meta[i])
    ok = ("fun c => let '(n, m, k, l, A, G, H, Sg, Kg, j, var, co, tols, innov) := c in "
          "if innov then list_abs Mabs tols [stationary_innovation_covar n k l G H Sg] co "
          "else list_abs Mabs tols (stationary_coefficients n k A G Kg j var) co")
    bad = ctx.coq_check("kalman_stationary_coefficients", IMPORTS,
                        "nat * nat * nat * nat * Qmat * Qmat * Qmat * Qmat * Qmat * nat * bool * list Qmat * list Q * bool", ok, coef_cases,
                        chunk=max(1, len(coef_cases) // 6), preamble=PRE)
    for i in bad:
        ctx.mismatch("C12.Model.stationary_coefficients / stationary_innovation_covar vs Kalman (several objects)", coef_meta[i])


# ------------------------------------------------------------------ LinearStateSpace: moments, impulse, geometric sums
def lss_checks(ctx, N):
    mom_cases, imp_cases, geo_cases, meta = [], [], [], []
    geo_meta, imp_meta = [], []
    for ci in range(N):
        d = gen_model(ctx.rng)
        with_H = ctx.rng.random() < 0.7
        ss = mk_lss(d, with_H)
        T = ctx.rng.choice([1, 2, 3, 4, 5, 6]) if d["kindA"] != "float53" else ctx.rng.choice([1, 2, 3])
        n, m, k, l = d["n"], d["m"], d["k"], d["l"]
        A, C, G, H, mu0, S0 = d["A"], d["C"], d["G"], d["H"], d["mu0"], d["S0"]
        inp = dict(model_json(d), with_H=with_H, T=T)
        ctx.case(("lss", str(inp)), nontrivial=(n >= 2 and T >= 2))
        ctx.count("lss:n=%d" % n); ctx.count("lss:T=%d" % T); ctx.count("lss:H=" + (d["kindH"] if with_H else "None"))
        ctx.count("lss:A=" + d["kindA"]); ctx.count("lss:C=" + d["kindC"])
        # ---- moment_sequence
        gen = ss.moment_sequence()
        seq = [next(gen) for _ in range(T)]
        Q_ = mm(C, mt(C)); R = mm(H, mt(H)) if with_H else zeros(k, k)
        # running error bound of the float recursion: the same recursion on absolute values (|A| |S| |A'| + |C||C'| ...)
        u = U0 * 8 * max(n, m, k, l)
        Aa, Ga = mabsval(A), mabsval(G)
        Qa = mm(mabsval(C), mabsval(mt(C))); Ra = mm(mabsval(H), mabsval(mt(H))) if with_H else zeros(k, k)
        mua, Sa = mabsval(mu0), mabsval(S0)
        mom_tols = []
        for t_, (mx, my, Sx, Sy) in enumerate(seq):
            At = mpow(A, t_)
            ex_mx = mm(At, mu0)
            ex_Sx = mm(mm(At, S0), mt(At))
            for j in range(t_):
                Aj = mpow(A, j)
                ex_Sx = madd(ex_Sx, mm(mm(Aj, Q_), mt(Aj)))
            ex_my, ex_Sy = mm(G, ex_mx), madd(mm(mm(G, ex_Sx), mt(G)), R)
            big = max(ninf(mua), ninf(Sa), ninf(mm(Ga, mua)), ninf(madd(mm(mm(Ga, Sa), mt(Ga)), Ra)))
            tol = Fraction(u * (2 * t_ + 3) * float(big) * 1.000001 + FLOOR * (1.0 + float(max(ninf(ex_mx), ninf(ex_Sx), ninf(ex_my), ninf(ex_Sy)))))
            mom_tols.append(tol)
            if not (mabs(mx, ex_mx, tol) and mabs(Sx, ex_Sx, tol) and mabs(my, ex_my, tol) and mabs(Sy, ex_Sy, tol)):
                ctx.fail("lss_moments", "moment_sequence term differs from A^t mu_0 / A^t S_0 A'^t + sum A^j CC' A'^j / G.. + HH'",
                         dict(inp, t=t_, tol=float(tol)), [np.asarray(z).tolist() for z in (mx, my, Sx, Sy)], [fl(ex_mx), fl(ex_my), fl(ex_Sx), fl(ex_Sy)])
                break
            mua, Sa = mm(Aa, mua), madd(mm(mm(Aa, Sa), mt(Aa)), Qa)
        mom_cases.append(tup(dims(d), qm(A), qm(C), qm(G), "(Some %s)" % qm(H) if with_H else "None", qm(mu0), qm(S0),
                             "[" + "; ".join(tup(*[qm(np.asarray(z).tolist()) for z in term]) for term in seq) + "]", qlist(mom_tols)))
        # ---- impulse_response
        j = T
        xc, yc = ss.impulse_response(j)
        if len(xc) != j + 1 or len(yc) != j + 1:
            ctx.fail("lss_impulse", "impulse_response(j) does not return j+1 coefficients", inp, [len(xc), len(yc)], j + 1)
        else:
            Ca = mabsval(C); Aia = ident(n)
            imp_tols = []
            for i in range(j + 1):
                AiC = mm(mpow(A, i), C)
                big = max(ninf(mm(Aia, Ca)), ninf(mm(Ga, mm(Aia, Ca))))
                tol = Fraction(u * (i + 3) * float(big) * 1.000001 + FLOOR * (1.0 + float(max(ninf(AiC), ninf(mm(G, AiC))))))
                imp_tols.append(tol)
                Aia = mm(Aia, Aa)
            for i in range(j + 1):
                AiC = mm(mpow(A, i), C)
                if not (mabs(xc[i], AiC, imp_tols[i]) and mabs(yc[i], mm(G, AiC), imp_tols[i])):
                    ctx.fail("lss_impulse", "coefficient i is not A^i C / G A^i C", dict(inp, i=i),
                             [np.asarray(xc[i]).tolist(), np.asarray(yc[i]).tolist()], [fl(AiC), fl(mm(G, AiC))])
                    break
        if len(xc) == j + 1 and len(yc) == j + 1:
            imp_cases.append(tup(dims(d), qm(A), qm(C), qm(G), "%d%%nat" % j,
                                 "[" + "; ".join(qm(np.asarray(z).tolist()) for z in xc) + "]",
                                 "[" + "; ".join(qm(np.asarray(z).tolist()) for z in yc) + "]", qlist(imp_tols)))
            imp_meta.append(inp)
        meta.append(inp)
        # ---- geometric_sums
        beta = frac(float(ctx.rng.choice([Fraction(1, 2), Fraction(3, 4), Fraction(15, 16), Fraction(19, 20), Fraction(1), Fraction(1, 8)])))
        xt = fm(fl(rmat(ctx.rng, n, 1, -8, 8, 4)))
        IbA = msub(ident(n), mscale(beta, A))
        exS = fsolve(IbA, xt)
        ginp = dict(inp, beta=float(beta), x_t=fl(xt))
        if exS is None:
            ctx.count("geometric_sums:singular_skipped")
        else:
            with warnings.catch_warnings():
                warnings.simplefilter("ignore")
                Sx, Sy = ss.geometric_sums(float(beta), npm(xt))
            ctx.count("geometric_sums:cases")
            # solve is backward stable: forward error u cond(I - beta A) ||S_x||; cond computed exactly
            kap = float(ninf(fsolve(IbA, ident(n))) * (1 + abs(beta) * ninf(A)))      # includes forming I - beta A
            ue = U0 * 8 * n
            exSy = mm(G, exS)
            tolx = tolq(ue * (kap + 1) * float(ninf(exS)), exS)
            toly = tolq(ue * (kap + 2) * float(ninf(exS)) * float(ninf(G)), exSy)
            cl = tol_class(tolx, exS)
            ctx.count("geometric_sums:" + cl)
            if cl.endswith("(not compared)"):
                continue
            if not mabs(Sx, exS, tolx) or not mabs(Sy, exSy, toly):
                ctx.fail("lss_geometric", "S_x != (I - beta A)^-1 x_t or S_y != G S_x", dict(ginp, tol=float(tolx)), [Sx.tolist(), Sy.tolist()], [fl(exS), fl(exSy)])
            geo_cases.append(tup(dims(d), qm(A), qm(G), qlit(beta), qm(xt), qm(Sx.tolist()), qm(Sy.tolist()), qlit(tolx), qlit(toly)))
            geo_meta.append(ginp)
    ok = ("fun c => let '(n, m, k, l, A, C, G, Ho, mu0, S0, seq, tols) := c in "
          "list_abs mom_abs tols (moment_seq n m k l A C G Ho (length seq) mu0 S0) seq")
    bad = ctx.coq_check("lss_moment_sequence", IMPORTS,
                        "nat * nat * nat * nat * Qmat * Qmat * Qmat * option Qmat * Qmat * Qmat * list (Qmat * Qmat * Qmat * Qmat) * list Q",
                        ok, mom_cases, chunk=max(1, len(mom_cases) // 8), preamble=PRE)
    for i in bad:
        ctx.mismatch("C12.Model.moment_seq vs LinearStateSpace.moment_sequence", meta[i])
    ok = ("fun c => let '(n, m, k, l, A, C, G, j, xc, yc, tols) := c in let '(mx, my) := impulse_response n m k A C G j in "
          "list_abs Mabs tols mx xc && list_abs Mabs tols my yc")
    bad = ctx.coq_check("lss_impulse_response", IMPORTS, "nat * nat * nat * nat * Qmat * Qmat * Qmat * nat * list Qmat * list Qmat * list Q",
                        ok, imp_cases, chunk=max(1, len(imp_cases) // 8), preamble=PRE)
    for i in bad:
        ctx.mismatch("C12.Model.impulse_response vs LinearStateSpace.impulse_response", imp_meta[i])
    ok = ("fun c => let '(n, m, k, l, A, G, beta, xt, Sx, Sy, tolx, toly) := c in "
          "osome (fun a b => Mabs tolx (fst a) (fst b) && Mabs toly (snd a) (snd b)) (geometric_sums n k 1 A G beta xt) (Sx, Sy)")
    bad = ctx.coq_check("lss_geometric_sums", IMPORTS, "nat * nat * nat * nat * Qmat * Qmat * Q * Qmat * Qmat * Qmat * Q * Q",
                        ok, geo_cases, chunk=max(1, len(geo_cases) // 8), preamble=PRE)
    for i in bad:
        ctx.mismatch("C12.Model.geometric_sums vs LinearStateSpace.geometric_sums", geo_meta[i])


# ------------------------------------------------------------------ simulate / replicate with the draws injected
class ScriptedRS(np.random.RandomState):
    """RandomState whose normal draws are taken from a script (and logged). _lss.py draws through
    multivariate_normal(mean, cov) and standard_normal(size) only."""
    def __init__(self, script):
        super().__init__(12345)
        self.script = list(script)
        self.log = []

    def multivariate_normal(self, mean, cov, *a, **kw):
        v = np.array(self.script.pop(0), dtype=float)
        self.log.append(("mvn", np.array(mean, dtype=float).tolist(), np.array(cov, dtype=float).tolist(), v.tolist()))
        return v

    def standard_normal(self, size=None):
        v = np.array(self.script.pop(0), dtype=float).reshape(size)
        self.log.append(("sn", tuple(size), v.tolist()))
        return v


class RecordingRS(np.random.RandomState):
    """genuine draws, recorded"""
    def __init__(self, seed):
        super().__init__(seed)
        self.log = []
        self.nested = False

    def multivariate_normal(self, mean, cov, *a, **kw):
        self.nested = True       # the legacy implementation draws through self.standard_normal
        try:
            with warnings.catch_warnings():
                warnings.simplefilter("ignore")
                v = super().multivariate_normal(mean, cov, *a, **kw)
        finally:
            self.nested = False
        self.log.append(("mvn", np.array(mean, dtype=float).tolist(), np.array(cov, dtype=float).tolist(), np.array(v).tolist()))
        return v

    def standard_normal(self, size=None):
        v = super().standard_normal(size)
        if not self.nested:
            self.log.append(("sn", tuple(size), np.array(v).tolist()))
        return v


def dyad_draw(rng, r, c, den=2, span=4):
    return [[Fraction(rng.randint(-span, span), den) for _ in range(c)] for _ in range(r)]


def oracle_path(ctx, d, with_H, x, y, x0, w, v2, inp, tol, kind, toly=None):
    """x_{t+1} = A x_t + C w_{t+1}, y_t = G x_t + H v_t for the shocks drawn (exact evaluation of the right-hand sides);
    tol / toly: absolute tolerances (0 for dyadic scripted draws)"""
    toly = tol if toly is None else toly
    A, C, G, H = d["A"], d["C"], d["G"], d["H"]
    X = fm(x); Y = fm(y)
    n, ts = d["n"], len(X[0])
    col = lambda M, t: [[M[i][t]] for i in range(len(M))]
    if not mabs(col(X, 0), [[frac(v)] for v in x0], tol):
        ctx.fail(kind, "x_0 is not the drawn initial state", inp, fl(col(X, 0)), x0)
        return
    for t in range(ts - 1):
        rhs = madd(mm(A, col(X, t)), mm(C, col(fm(w), t)))
        if not mabs(col(X, t + 1), rhs, tol):
            ctx.fail(kind, "x_{t+1} != A x_t + C w_{t+1} for the shocks drawn", dict(inp, t=t), fl(col(X, t + 1)), fl(rhs))
            return
    for t in range(ts):
        rhs = mm(G, col(X, t))
        if with_H:
            rhs = madd(rhs, mm(H, col(fm(v2), t)))
        if not mabs(col(Y, t), rhs, toly):
            ctx.fail(kind, "y_t != G x_t + H v_t for the shocks drawn", dict(inp, t=t), fl(col(Y, t)), fl(rhs))
            return


def sim_checks(ctx, N):
    sim_cases, rep_cases, sim_meta, rep_meta = [], [], [], []
    for ci in range(N):
        d = gen_model(ctx.rng, kindA=ctx.rng.choice(["stable", "unstable"]))
        with_H = ctx.rng.random() < 0.7
        n, m, k, l = d["n"], d["m"], d["k"], d["l"]
        ss = mk_lss(d, with_H)
        ts = ctx.rng.choice([1, 2, 3, 5, 6, 8])
        x0 = [Fraction(ctx.rng.randint(-8, 8), 4) for _ in range(n)]
        w = dyad_draw(ctx.rng, m, ts - 1)
        v2 = dyad_draw(ctx.rng, l, ts)
        rs = ScriptedRS([x0, w] + ([v2] if with_H else []))
        x, y = ss.simulate(ts, random_state=rs)
        inp = dict(model_json(d), with_H=with_H, ts_length=ts, x0=[float(v) for v in x0], w=fl(w), v=fl(v2))
        ctx.case(("simulate", str(inp)), nontrivial=(n >= 2 and ts >= 3))
        ctx.count("simulate:ts=%d" % ts); ctx.count("simulate:H=" + ("given" if with_H else "None"))
        if rs.script or rs.log[0][1] != [float(v[0]) for v in d["mu0"]] or rs.log[0][2] != fl(d["S0"]):
            ctx.fail("lss_simulate_draws", "simulate does not draw x_0 ~ N(mu_0, Sigma_0), w (m x ts-1), v (l x ts) in this order",
                     inp, [e[:3] if e[0] == "mvn" else e[:2] for e in rs.log], None)
        if x.shape != (n, ts) or y.shape != (k, ts):
            ctx.fail("lss_simulate_shape", "wrong shapes", inp, [x.shape, y.shape], [(n, ts), (k, ts)])
            continue
        oracle_path(ctx, d, with_H, x, y, x0, w, v2, inp, Fraction(0), "lss_simulate_dynamics")
        sim_cases.append(tup(dims(d), qm(d["A"]), qm(d["C"]), qm(d["G"]), "(Some %s)" % qm(d["H"]) if with_H else "None",
                             "%d%%nat" % ts, qlist(x0), qm(w), qm(v2), qm(x.tolist()), qm(y.tolist())))
        sim_meta.append(inp)
        # ---- replicate
        T = ctx.rng.choice([1, 2, 4, 5])
        reps = ctx.rng.choice([1, 2, 3])
        script, draws = [], []
        for _ in range(reps):
            x0r = [Fraction(ctx.rng.randint(-8, 8), 4) for _ in range(n)]
            wr = dyad_draw(ctx.rng, m, T)
            script += [x0r, wr] + ([dyad_draw(ctx.rng, l, T + 1)] if with_H else [])
            draws.append((x0r, wr))
        vfin = dyad_draw(ctx.rng, l, reps)
        rs = ScriptedRS(script + ([vfin] if with_H else []))
        xr, yr = ss.replicate(T=T, num_reps=reps, random_state=rs)
        rinp = dict(model_json(d), with_H=with_H, T=T, num_reps=reps, draws=[[[float(a) for a in x0r], fl(wr)] for x0r, wr in draws], v=fl(vfin))
        ctx.case(("replicate", str(rinp)), nontrivial=(n >= 2 and T >= 2))
        ctx.count("replicate:T=%d" % T); ctx.count("replicate:reps=%d" % reps)
        if rs.script or xr.shape != (n, reps) or yr.shape != (k, reps):
            ctx.fail("lss_replicate_draws", "replicate does not consume the expected draws / wrong shapes", rinp, [xr.shape, yr.shape], None)
            continue
        # oracle: column j is x_T of the j-th path; y = G x + H v
        for jr, (x0r, wr) in enumerate(draws):
            xc = [[v] for v in x0r]
            for t in range(T):
                xc = madd(mm(d["A"], xc), mm(d["C"], [[wr[i][t]] for i in range(m)]))
            yc = mm(d["G"], xc)
            if with_H:
                yc = madd(yc, mm(d["H"], [[vfin[i][jr]] for i in range(l)]))
            if fm(xr[:, [jr]].tolist()) != xc or fm(yr[:, [jr]].tolist()) != yc:
                ctx.fail("lss_replicate_dynamics", "replicate column is not x_T / G x_T + H v of the path driven by the shocks drawn",
                         dict(rinp, rep=jr), [xr[:, jr].tolist(), yr[:, jr].tolist()], [fl(xc), fl(yc)])
                break
        rep_cases.append(tup(dims(d), qm(d["A"]), qm(d["C"]), qm(d["G"]), "(Some %s)" % qm(d["H"]) if with_H else "None",
                             "%d%%nat" % T, "[" + "; ".join(tup(qlist(a), qm(b)) for a, b in draws) + "]", qm(vfin),
                             qm(xr.tolist()), qm(yr.tolist())))
        rep_meta.append(rinp)
    # genuine normal draws, recorded: the path must satisfy the state equations for the shocks actually drawn
    rec_cases, rec_meta = [], []
    for ci in range(max(6, N // 3)):
        d = gen_model(ctx.rng, kindA="stable")
        with_H = ctx.rng.random() < 0.7
        ss = mk_lss(d, with_H)
        ts = ctx.rng.choice([2, 4, 6])
        rs = RecordingRS(ctx.rng.randrange(2**31))
        x, y = ss.simulate(ts, random_state=rs)
        x0 = rs.log[0][3]; w = rs.log[1][2]; v2 = rs.log[2][2] if with_H else zeros(d["l"], ts)
        inp = dict(model_json(d), with_H=with_H, ts_length=ts, x0=x0, w=w, v=fl(v2) if not with_H else v2, genuine_draws=True)
        ctx.case(("simulate_rec", str(inp)), nontrivial=(d["n"] >= 2 and ts >= 3))
        ctx.count("simulate:genuine_draws")
        # error bound of the float path: the same recursion on absolute values
        u = U0 * 8 * max(d["n"], d["m"], d["k"], d["l"])
        Aa, Ca, Ga, Ha = [mabsval(d[key]) for key in ("A", "C", "G", "H")]
        xa = [[abs(frac(v))] for v in x0]
        bx = by = Fraction(0)
        for t in range(ts):
            ya = mm(Ga, xa)
            if with_H:
                ya = madd(ya, mm(Ha, [[abs(frac(v2[i][t]))] for i in range(d["l"])]))
            bx, by = max(bx, ninf(xa)), max(by, ninf(ya))
            if t < ts - 1:
                xa = madd(mm(Aa, xa), mm(Ca, [[abs(frac(w[i][t]))] for i in range(d["m"])]))
        tolx = Fraction(u * (ts + 2) * float(bx) * 1.000001 + FLOOR * (1.0 + float(bx)))
        toly = Fraction(u * (ts + 3) * float(by) * 1.000001 + FLOOR * (1.0 + float(by)))
        oracle_path(ctx, d, with_H, x, y, x0, w, v2, inp, tolx, "lss_simulate_dynamics", toly)
        rec_cases.append(tup(dims(d), qm(d["A"]), qm(d["C"]), qm(d["G"]), "(Some %s)" % qm(d["H"]) if with_H else "None",
                             "%d%%nat" % ts, qlist([frac(v) for v in x0]), qm(w), qm(v2), qm(x.tolist()), qm(y.tolist()), qlit(tolx), qlit(toly)))
        rec_meta.append(inp)
    SIMT = "nat * nat * nat * nat * Qmat * Qmat * Qmat * option Qmat * nat * list Q * Qmat * Qmat * Qmat * Qmat"
    ok = ("fun c => let '(n, m, k, l, A, C, G, Ho, ts, x0, w, v2, x, y) := c in "
          "osome st_eq (simulate n m k l A C G Ho ts x0 w v2) (x, y)")
    bad = ctx.coq_check("lss_simulate_scripted", IMPORTS, SIMT, ok, sim_cases, chunk=max(1, len(sim_cases) // 6), preamble=PRE)
    for i in bad:
        ctx.mismatch("C12.Model.simulate vs LinearStateSpace.simulate (scripted draws, exact)", sim_meta[i])
    ok = ("fun c => let '(n, m, k, l, A, C, G, Ho, ts, x0, w, v2, x, y, tolx, toly) := c in "
          "osome (st_abs (tolx, toly)) (simulate n m k l A C G Ho ts x0 w v2) (x, y)")
    bad = ctx.coq_check("lss_simulate_recorded", IMPORTS, SIMT + " * Q * Q", ok, rec_cases, chunk=max(1, len(rec_cases) // 4), preamble=PRE)
    for i in bad:
        ctx.mismatch("C12.Model.simulate vs LinearStateSpace.simulate (recorded genuine draws, running error bound)", rec_meta[i])
    ok = ("fun c => let '(n, m, k, l, A, C, G, Ho, T, draws, v, x, y) := c in "
          "osome st_eq (replicate n m k l A C G Ho T draws v) (x, y)")
    bad = ctx.coq_check("lss_replicate_scripted", IMPORTS,
                        "nat * nat * nat * nat * Qmat * Qmat * Qmat * option Qmat * nat * list (list Q * Qmat) * Qmat * Qmat * Qmat",
                        ok, rep_cases, chunk=max(1, len(rep_cases) // 6), preamble=PRE)
    for i in bad:
        ctx.mismatch("C12.Model.replicate vs LinearStateSpace.replicate (scripted draws, exact)", rep_meta[i])


def kernel_checks(ctx, N):
    """jitted simulate_linear_model, bit for bit (PrimFloat instance of the same model, source accumulation order)"""
    from quantecon._lss import simulate_linear_model
    cases, meta = [], []
    for _ in range(N):
        n = ctx.rng.choice([1, 2, 3, 4, 5])
        ts = ctx.rng.choice([1, 2, 3, 7])
        A = np.array([[ctx.rng.uniform(-1.2, 1.2) for _ in range(n)] for _ in range(n)])
        x0 = np.array([ctx.rng.gauss(0, 3) for _ in range(n)])
        v = np.array([[ctx.rng.gauss(0, 1) for _ in range(max(ts - 1, 1))] for _ in range(n)])
        x = simulate_linear_model(A, x0, v, ts)
        inp = {"function": "simulate_linear_model", "A": A.tolist(), "x0": x0.tolist(), "v": v.tolist(), "ts_length": ts}
        ctx.case(("kernel", str(inp)), nontrivial=(n >= 2 and ts >= 3))
        ctx.count("kernel:n=%d" % n)
        # oracle (float64 python evaluation in the documented order)
        ok_ = True
        for t in range(ts - 1):
            for i in range(n):
                acc = v[i, t]
                for j in range(n):
                    acc += A[i, j] * x[j, t]
                ok_ = ok_ and acc == x[i, t + 1]
        if not ok_ or not np.array_equal(x[:, 0], x0):
            ctx.fail("lss_kernel", "simulate_linear_model path does not satisfy x[:,t+1] = v[:,t] + A x[:,t] in float64", inp, x.tolist(), None)
        cases.append(tup("%d%%nat" % n, flist2(A.tolist()), flist(x0.tolist()), flist2(v.tolist()), "%d%%nat" % ts, flist2(x.tolist())))
        meta.append(inp)
    bad = ctx.coq_check("simulate_linear_model_float", IMPORTS, "nat * list (list float) * list float * list (list float) * nat * list (list float)",
                        "fun c => let '(n, A, x0, v, ts, x) := c in osome Fss_eqb (simulate_linear_model n A x0 v ts) x",
                        cases, chunk=max(1, len(cases) // 4), preamble=PRE)
    for i in bad:
        ctx.mismatch("C12.Model.simulate_linear_model (PrimFloat) vs _lss.simulate_linear_model (bit-exact)", meta[i])


# ------------------------------------------------------------------ stationary_distributions with a constant state
def gen_const_model(rng, nc_kind):
    """nc_kind: 'one' (a unit constant state at a random position), 'none', 'two' (rejected by the code)"""
    n = rng.choice([2, 3, 3, 4]) if nc_kind != "none" else rng.choice([1, 2, 3])
    d = gen_model(rng, n=n, kindA=rng.choice(["stable", "stable", "fine"]))
    n, m = d["n"], d["m"]
    if all(all(x == 0 for x in r) for r in d["C"]):
        d["C"] = gen_C(rng, n, m, "full")
    pos = []
    if nc_kind == "one":
        pos = [rng.randrange(n)]
    elif nc_kind == "two":
        pos = rng.sample(range(n), 2)
    for p in pos:
        d["A"][p] = [Fraction(int(j == p)) for j in range(n)]
        d["C"][p] = [Fraction(0)] * m
        d["mu0"][p] = [Fraction(1)]
        for j in range(n):
            d["S0"][p][j] = Fraction(0); d["S0"][j][p] = Fraction(0)
    for i in range(n):         # the other rows load on the constant; they must not be constant-like themselves
        if i not in pos:
            if pos and rng.random() < 0.8:
                d["A"][i][pos[0]] = Fraction(rng.randint(-6, 6), 4)
            if all(x == 0 for x in d["C"][i]) and d["A"][i][i] == 1:
                d["A"][i][i] = Fraction(1, 2)
    d["const_positions"] = str(sorted(pos))
    d["near"] = "none"
    return d


def add_near_constant(rng, d):
    """turn one non-constant state into an ALMOST constant one (never constant under the code's exact tests):
    diagonal 1 -+ 2^-e, the rest of the row zero or tiny, C row zero or tiny; its mu_0 entry is 1. All entries are exact
    doubles whose squares/sums are exact, so the code's float tests decide as the exact ones."""
    n, m = d["n"], d["m"]
    pos = eval(d["const_positions"])
    cand = [i for i in range(n) if i not in pos]
    if not cand:
        return d
    p = rng.choice(cand)
    e = rng.choice([17, 17, 20, 24, 30])
    how = rng.choice(["decay", "decay", "grow", "almost_row", "almost_C"])
    eps = Fraction(1, 2 ** e)
    d["A"][p] = [Fraction(0)] * n
    d["A"][p][p] = 1 + eps if how == "grow" else 1 - eps
    d["C"][p] = [Fraction(0)] * m
    if how == "almost_row" and n >= 2:
        d["A"][p][rng.choice([j for j in range(n) if j != p])] = Fraction(rng.choice([-1, 1]), 2 ** 18)
    if how == "almost_C":
        d["C"][p][rng.randrange(m)] = Fraction(rng.choice([-1, 1]), 2 ** 15)
    d["mu0"][p] = [Fraction(1)]
    for i in range(n):
        if i != p and i not in pos and rng.random() < 0.7:
            d["A"][i][p] = Fraction(rng.randint(-6, 6), 4)
    d["near"] = "%s:2^-%d" % (how, e)
    return d


def stat_lit(res):
    return "(StatOk %s)" % " ".join(qm(np.asarray(z).tolist()) for z in res)


def exact_stationary(d, with_H):
    """closed form in Fractions, independent of the Coq model: constant state (value 1) kept, the other means solve
    (I - A22) mu = A21, the other covariances solve the Lyapunov equation through the Kronecker system; returns
    (mu_x, mu_y, Sigma_x, Sigma_y, Sigma_yx, kappa) with kappa = the summed sensitivities of the two linear systems, or None"""
    n, k = d["n"], d["k"]
    A, C, G, H = d["A"], d["C"], d["G"], d["H"]
    pos = eval(d["const_positions"])
    oth = [i for i in range(n) if i not in pos]
    dd = len(oth)
    A22 = [[A[i][j] for j in oth] for i in oth]
    C2 = [C[i] for i in oth]
    CC2 = mm(C2, mt(C2)) if dd else []
    IA = msub(ident(dd), A22)
    rhs = [[A[i][pos[0]]] for i in oth] if pos else zeros(dd, 1)
    mu2 = fsolve(IA, rhs) if dd else []
    K = [[Fraction(int(r == c)) - A22[r // dd][c // dd] * A22[r % dd][c % dd] for c in range(dd * dd)] for r in range(dd * dd)]
    v = fsolve(K, [[CC2[r // dd][r % dd]] for r in range(dd * dd)]) if dd else []
    if mu2 is None or v is None:
        return None
    # sensitivity including the error of FORMING I - A22 and I - A22 (x) A22 in floats (cancellation near unit roots):
    # ||M^-1|| (1 + ||subtracted part||) instead of ||M^-1|| ||M||
    def sens(Mx, sub):
        return ninf(fsolve(Mx, ident(len(Mx)))) * (1 + sub)
    kappa = (sens(IA, ninf(A22)) + sens(K, ninf(A22) ** 2)) if dd else Fraction(2)
    mu_x = zeros(n, 1); Sx = zeros(n, n)
    for p in pos:
        mu_x[p][0] = Fraction(1)
    for a_, i in enumerate(oth):
        mu_x[i][0] = mu2[a_][0]
        for b_, j in enumerate(oth):
            Sx[i][j] = v[a_ * dd + b_][0]
    R = mm(H, mt(H)) if with_H else zeros(k, k)
    return mu_x, mm(G, mu_x), Sx, madd(mm(mm(G, Sx), mt(G)), R), mm(G, Sx), kappa


def stationary_dist_checks(ctx, N):
    cases, meta = [], []
    for ci in range(N):
        kind = ctx.rng.choice(["one", "one", "one", "none", "two"]) if ci >= 3 else ["one", "none", "two"][ci]
        d = gen_const_model(ctx.rng, kind)
        if kind != "two" and (ci % 2 == 1 or ctx.rng.random() < 0.3):
            d = add_near_constant(ctx.rng, d)
        with_H = ctx.rng.random() < 0.7
        if with_H and ctx.rng.random() < 0.6:      # square non-diagonal / triangular / symmetric H: H H' is not H * H' elementwise
            d["k"] = max(d["k"], 2); d["l"] = d["k"]
            d["G"] = gen_G(ctx.rng, d["k"], d["n"])
            d["kindH"] = ctx.rng.choice(["square", "triangular", "symmetric"])
            d["H"] = gen_H(ctx.rng, d["k"], d["l"], d["kindH"])
        d = exact_floats(d)
        ss = mk_lss(d, with_H)
        inp = dict(model_json(d), with_H=with_H)
        n, m, k, l = d["n"], d["m"], d["k"], d["l"]
        A, C, G, H = d["A"], d["C"], d["G"], d["H"]
        ctx.case(("stationary_distributions", str(inp)), nontrivial=(kind == "one" and n >= 2))
        ctx.count("stationary_distributions:const=" + kind)
        ctx.count("stationary_distributions:near_constant=" + d["near"].split(":")[0])
        ctx.count("stationary_distributions:H=" + (d["kindH"] if with_H else "None"))
        try:
            with warnings.catch_warnings():
                warnings.simplefilter("ignore")
                res = ss.stationary_distributions()
            lit = stat_lit(res)
        except ValueError:
            res, lit = "ValueError", "StatBroadcast"
        except np.linalg.LinAlgError:
            res, lit = "LinAlgError", "StatSingular"
        ctx.count("stationary_distributions:result=" + (res if isinstance(res, str) else "ok"))
        tol = Fraction(0)
        if kind == "two" and res != "ValueError":
            ctx.fail("lss_stationary_two_constants", "two constant states are expected to be rejected (broadcast error)", inp,
                     res if isinstance(res, str) else [np.asarray(z).tolist() for z in res], "ValueError")
        if kind != "two":
            ex = exact_stationary(d, with_H)
            if ex is None:
                ctx.count("stationary_distributions:singular_skipped")
                continue
            if isinstance(res, str):
                ctx.fail("lss_stationary_raises", "stationary_distributions raised on a stable model", inp, res, None)
            else:
                # both solvers are backward stable: forward error u (cond(I - A22) + cond(I - A22 (x) A22)) x size, then products by G, G'
                kappa = float(ex[5])
                size = 1.0 + max(float(ninf(z)) for z in ex[:5])
                tol = Fraction(U0 * 8 * n * n * (kappa + 1) * size * (1.0 + float(ninf(G))) * (1.0 + float(ninf(mt(G)))) + FLOOR * size)
                cl = tol_class(tol, ex[3])
                ctx.count("stationary_distributions:" + cl)
                if cl.endswith("(not compared)"):
                    continue
                names = ["mu_x", "mu_y", "Sigma_x", "Sigma_y", "Sigma_yx"]
                for nm, got, want in zip(names, res, ex[:5]):
                    if not mabs(got, want, tol):
                        ctx.fail("lss_stationary_closed_form", "%s differs from the closed form (constant kept, (I-A22)mu=A21, Lyapunov solution, G.., +HH')" % nm,
                                 dict(inp, tol=float(tol)), np.asarray(got).tolist(), fl(want))
                        break
                mu_x, mu_y, Sx, Sy, Syx = res
                fmu, fS = fm(mu_x), fm(Sx)
                tolr = tol * (1 + ninf(A)) * (1 + ninf(mt(A)))
                if not (mabs(mu_x, mm(A, fmu), tolr) and mabs(Sx, madd(mm(mm(A, fS), mt(A)), mm(C, mt(C))), tolr)):
                    ctx.fail("lss_stationary_fixed_point", "mu_x != A mu_x or Sigma_x != A Sigma_x A' + CC'", inp,
                             [mu_x.tolist(), Sx.tolist()], None)
                if np.linalg.eigvalsh(np.array(fl(ex[2]))).min() >= 0:      # the exact solution is PSD iff A22 is stable
                    check_psd(ctx, Sx, inp, "stationary Sigma_x", tol=float(tol))
        cases.append(tup(dims(d), qm(A), qm(C), qm(G), "(Some %s)" % qm(H) if with_H else "None", qm(d["mu0"]), lit, qlit(tol)))
        meta.append((inp, res if isinstance(res, str) else [np.asarray(z).tolist() for z in res]))
    pre = PRE + """
Definition stat_close (tol : Q) (a b : @stat_result Q) : bool :=
  match a, b with
  | StatOk a1 a2 a3 a4 a5, StatOk b1 b2 b3 b4 b5 =>
      Mabs tol a1 b1 && Mabs tol a2 b2 && Mabs tol a3 b3 && Mabs tol a4 b4 && Mabs tol a5 b5
  | StatBroadcast, StatBroadcast => true
  | StatSingular, StatSingular => true
  | _, _ => false
  end.
"""
    ok = ("fun c => let '(n, m, k, l, A, C, G, Ho, mu0, res, tol) := c in "
          "stat_close tol (stationary_distributions n m k l A C G Ho mu0) res")
    bad = ctx.coq_check("lss_stationary_distributions", IMPORTS,
                        "nat * nat * nat * nat * Qmat * Qmat * Qmat * option Qmat * Qmat * @stat_result Q * Q", ok, cases,
                        chunk=max(1, len(cases) // 8), preamble=pre)
    for i in bad:
        ctx.mismatch("C12.Model.stationary_distributions / partition vs LinearStateSpace.stationary_distributions", meta[i][0], meta[i][1])


# ------------------------------------------------------------------ hardening audit: dress / sequences / non-mutation / optional arguments
def _dress_array(M, how, rng):
    """M: list of rows of ints or quarter multiples; returns the same data as another container / dtype / memory layout"""
    base = np.array([[float(v) for v in r] for r in M], dtype=float).reshape(len(M), len(M[0]) if M else 0)
    if how == "list":
        return base.tolist()
    if how == "tuple":
        return tuple(tuple(r) for r in base.tolist())
    if how in ("int64", "int32"):
        return base.astype(how)
    if how == "float32":
        return base.astype(np.float32)
    if how == "F_order":
        return np.asfortranarray(base)
    if how == "view":                      # non-contiguous window of a larger array
        big = np.full((base.shape[0] * 2 + 3, base.shape[1] * 2 + 3), 99.0)
        big[1:1 + 2 * base.shape[0]:2, 2:2 + 2 * base.shape[1]:2] = base
        return big[1:1 + 2 * base.shape[0]:2, 2:2 + 2 * base.shape[1]:2]
    return base


SCALAR_DRESS = {"pyint": int, "np.int64": np.int64, "np.int32": np.int32, "np.intp": np.intp, "np.uint8": np.uint8}


def _flat(res):
    if isinstance(res, (list, tuple)):
        return [z for r in res for z in _flat(r)]
    return [np.asarray(res, dtype=float)]


def _same(a, b):
    fa, fb = _flat(a), _flat(b)
    return len(fa) == len(fb) and all(x.shape == y.shape and np.allclose(x, y, rtol=1e-12, atol=1e-12) for x, y in zip(fa, fb))


def _omit(v):
    return isinstance(v, str) and v == "omit"


def _evaluate(ctx, args, what, watch=True):
    """construct LinearStateSpace + Kalman from (possibly dressed) arguments and call every public entry point once;
    returns dict entry -> result, or None after reporting an exception (exception on a valid input = oracle failure)"""
    from quantecon import LinearStateSpace, Kalman
    a = args
    arrays = {k_: v for k_, v in a.items() if isinstance(v, np.ndarray)}
    arrays.update({"ys[%d]" % i: y for i, y in enumerate(a["ys"]) if isinstance(y, np.ndarray)})
    snap = {k_: (v, v.copy(), v.dtype, v.shape) for k_, v in arrays.items()}
    out = {}
    try:
        with warnings.catch_warnings():
            warnings.simplefilter("ignore")
            kw = {}
            if not _omit(a["H"]):
                kw["H"] = a["H"]
            if not _omit(a["mu0"]):
                kw["mu_0"] = a["mu0"]
            if not _omit(a["S0"]):
                kw["Sigma_0"] = a["S0"]
            ss = LinearStateSpace(a["A"], a["C"], a["G"], **kw)
            g1 = ss.moment_sequence()
            t0, t1 = next(g1), next(g1)
            g2 = ss.moment_sequence()          # a second generator started while the first is half consumed
            r0 = next(g2)
            t2 = next(g1)
            out["moment_sequence"] = [t0, t1, t2]
            out["moment_sequence_restarted"] = [r0, next(g2)]
            out["impulse_response"] = ss.impulse_response(a["j"]) if not _omit(a["j"]) else ss.impulse_response()
            out["geometric_sums"] = ss.geometric_sums(a["beta"], a["xt"])
            out["simulate"] = ss.simulate(a["ts"], random_state=a["seed"]) if not _omit(a["ts"]) else ss.simulate(random_state=a["seed"])
            if _omit(a["T"]):
                out["replicate"] = ss.replicate(random_state=a["seed"])
            else:
                out["replicate"] = ss.replicate(a["T"], a["reps"], random_state=a["seed"])
            s1 = ss.stationary_distributions()
            s1 = [np.array(z, copy=True) for z in s1]
            out["stationary_distributions"] = s1
            out["stationary_distributions_again"] = ss.stationary_distributions()
            out["moment_sequence_after"] = next(ss.moment_sequence())
            if not _omit(a["H"]) and a["H"] is not None and a.get("kalman", True):
                kn = Kalman(ss, a["xh"], a["Sg"]) if not _omit(a["xh"]) else Kalman(ss)
                states = []
                for y in a["ys"]:
                    kn.update(y)
                    states.append((np.array(kn.x_hat, dtype=float), np.array(kn.Sigma, dtype=float)))
                out["kalman_update"] = states
                out["stationary_values"] = kn.stationary_values()
                out["lazy"] = (kn.Sigma_infinity, kn.K_infinity, kn.stationary_innovation_covar())
                out["stationary_coefficients"] = kn.stationary_coefficients(a["j"] if not _omit(a["j"]) else 5, "ma") + kn.stationary_coefficients(2, coeff_type="var")
                kn.set_state(None if _omit(a["xh"]) else a["xh"], None if _omit(a["xh"]) else a["Sg"])      # re-assign the prior, filter again
                for y in a["ys"]:
                    kn.prior_to_filtered(y); kn.filtered_to_forecast()
                out["kalman_after_set_state"] = (np.array(kn.x_hat, dtype=float), np.array(kn.Sigma, dtype=float))
    except Exception as e:
        ctx.fail("c12_exception", "%s: %s raised on a valid input: %s" % (what, type(e).__name__, str(e)[:200]), {"dress": what, "args": jsonable({k_: (v.tolist() if isinstance(v, np.ndarray) else v) for k_, v in a.items() if k_ != "seed"})}, None, None)
        return None
    if watch:
        for name, (arr, copy, dt, shp) in snap.items():
            if arr.dtype != dt or arr.shape != shp or not np.array_equal(arr, copy):
                ctx.fail("lss_mutates_input", "argument %s was modified (%s)" % (name, what), {"dress": what, "argument": name}, arr.tolist(), copy.tolist())
    return out


def dress_checks(ctx, N):
    """Every public entry point of LinearStateSpace / Kalman with its arguments in other containers, dtypes, layouts and
    NumPy scalar types, optional arguments omitted / explicit / falsy-but-valid, scalar (n = k = 1) models, H = None vs zeros,
    numpy-int horizons and seeds: results must equal the canonical float64 / Python-int call; no argument is modified;
    no exception on a valid input; documented ValueErrors are raised."""
    from quantecon import LinearStateSpace, Kalman
    rng = ctx.rng
    for ci in range(N):
        quarter = ci % 2 == 1
        scalar_model = ci % 3 == 2
        n = 1 if scalar_model else rng.choice([2, 3])
        m = 1 if scalar_model else rng.choice([1, 2])
        k = 1 if scalar_model else rng.choice([1, 2])
        den = 4 if quarter else 1
        # strictly lower triangular A (plus, for quarter data, a stable diagonal): I - A and the Lyapunov system are non-singular
        A = [[Fraction(rng.randint(-2, 2), den) if j < i else Fraction(0) for j in range(n)] for i in range(n)]
        if quarter:
            for i in range(n):
                A[i][i] = Fraction(rng.randint(-2, 2), 4)
        C = rmat(rng, n, m, -2, 2, den)
        G = gen_G(rng, k, n) if quarter else [[Fraction(rng.choice([-2, -1, 1, 2])) for _ in range(n)] for _ in range(k)]
        H = [[(Fraction(rng.choice([1, 2]), 1) if i == j else Fraction(rng.randint(-1, 1), den) if j < i else Fraction(0)) for j in range(k)] for i in range(k)]
        mu0 = rmat(rng, n, 1, -3, 3, den)
        B = rmat(rng, n, n, -2, 2, den if quarter else 1)
        S0 = mm(B, mt(B))
        ys = [rmat(rng, k, 1, -4, 4, den) for _ in range(2)]
        xt = rmat(rng, n, 1, -3, 3, den)
        seed = rng.randrange(0, 200)
        canon = dict(A=npm(A), C=npm(C), G=npm(G), H=npm(H), mu0=npm(mu0), S0=npm(S0), xh=npm(mu0), Sg=npm(S0),
                     ys=[npm(y) for y in ys], xt=npm(xt), j=3, beta=0.5, ts=4, T=2, reps=3, seed=seed)
        ref = _evaluate(ctx, canon, "canonical float64")
        ctx.case(("dress", ci, str(fl(A)), seed), nontrivial=(n >= 2))
        ctx.count("dress:base=" + ("quarters" if quarter else "integers") + (",scalar_model" if scalar_model else ""))
        if ref is None:
            continue
        info = {"A": fl(A), "C": fl(C), "G": fl(G), "H": fl(H), "mu0": fl(mu0), "S0": fl(S0), "ys": [fl(y) for y in ys], "x_t": fl(xt), "seed": seed}

        def compare(what, args, keys=None, against=None):
            ctx.count("dress:" + what)
            res = _evaluate(ctx, args, what)
            if res is None:
                return None
            tgt = against or ref
            for key in (keys or tgt.keys()):
                if key in tgt and (key not in res or not _same(res[key], tgt[key])):
                    ctx.fail("c12_dress", "%s differs from the canonical float64 / Python-int call when arguments are given as %s" % (key, what),
                             dict(info, dress=what, entry=key), [z.tolist() for z in _flat(res.get(key, []))][:6], [z.tolist() for z in _flat(tgt[key])][:6])
                    break
            return res
        # ---- canonical oracle (cheap closed forms): restart of the generator, repeated stationary_distributions, first moments
        if not _same(ref["moment_sequence_restarted"], ref["moment_sequence"][:2]) or not _same(ref["moment_sequence_after"], ref["moment_sequence"][0]):
            ctx.fail("lss_moment_restart", "a restarted moment_sequence generator does not start again from (mu_0, Sigma_0)", info, None, None)
        ctx.count("seq:moment_sequence_restarted")
        if not _same(ref["stationary_distributions_again"], ref["stationary_distributions"]):
            ctx.fail("lss_stationary_repeat", "a second stationary_distributions() call returns different moments", info, None, None)
        ctx.count("seq:stationary_distributions_twice")
        ex_m = [mm(mpow(A, t_), mu0) for t_ in range(3)]
        if not all(mabs(ref["moment_sequence"][t_][0], ex_m[t_], Fraction(1, 10**12) * (1 + ninf(ex_m[t_]))) for t_ in range(3)):
            ctx.fail("lss_moments", "moment_sequence means are not A^t mu_0", info, None, fl(ex_m[2]))
        # ---- class 1: containers / dtypes / layouts of every array argument
        hows = ["list", "tuple", "float32", "F_order", "view"] + ([] if quarter else ["int64", "int32"])
        for how in hows:
            args = dict(canon)
            for key in ("A", "C", "G", "H", "mu0", "S0", "xh", "Sg", "xt"):
                args[key] = _dress_array(locals()[{"xh": "mu0", "Sg": "S0"}.get(key, key)] if key not in ("xt",) else xt, how, rng)
            args["ys"] = [_dress_array(y, how, rng) for y in ys]
            compare("arrays:" + how, args)
        # 1-d forms: mu_0, x_hat, x_t, y as flat vectors / lists
        args = dict(canon, mu0=[float(v[0]) for v in mu0], xh=np.array([float(v[0]) for v in mu0]), ys=[[float(v[0]) for v in y] for y in ys])
        compare("arrays:1d_vectors", args, keys=[k_ for k_ in ref if k_ != "geometric_sums"])
        if n == 1:      # scalar model: every argument a Python / NumPy scalar; C as a 1-d list
            for nm, cast in [("pyfloat", float), ("np.float64", np.float64), ("np.float32", np.float32)] + ([] if quarter else [("pyint", int), ("np.int64", np.int64), ("np.int32", np.int32)]):
                sc = lambda M: cast(float(M[0][0]))
                args = dict(canon, A=sc(A), C=[float(v) for v in C[0]] if nm == "pyfloat" else (sc(C) if m == 1 else npm(C)), G=sc(G), H=sc(H), mu0=sc(mu0), S0=sc(S0),
                            xh=sc(mu0), Sg=sc(S0), ys=[sc(y) for y in ys], xt=sc(xt))
                compare("scalars:" + nm, args, keys=[k_ for k_ in ref if k_ != "geometric_sums"])
        # ---- integer-like arguments (ts_length, T, num_reps, j) and seeds as NumPy ints; beta as float types
        for nm, cast in SCALAR_DRESS.items():
            if nm != "pyint":
                compare("ints:" + nm, dict(canon, j=cast(3), ts=cast(4), T=cast(2), reps=cast(3)))
                compare("seed:" + nm, dict(canon, seed=cast(seed)))
        compare("seed:RandomState_instance", dict(canon, seed=np.random.RandomState(seed)), keys=["simulate"])
        for nm, cast in [("np.float64", np.float64), ("np.float32", np.float32)]:
            compare("beta:" + nm, dict(canon, beta=cast(0.5)), keys=["geometric_sums"])
        # ---- optional arguments: omitted vs explicit default vs falsy-but-valid
        zero_ref = _evaluate(ctx, dict(canon, mu0=np.zeros((n, 1)), S0=np.zeros((n, n))), "explicit zero mu_0/Sigma_0")
        if zero_ref is not None:
            compare("optional:mu_0,Sigma_0 omitted", dict(canon, mu0="omit", S0="omit"), against=zero_ref,
                    keys=["moment_sequence", "simulate", "replicate", "stationary_distributions"])
            compare("optional:mu_0,Sigma_0=None", dict(canon, mu0=None, S0=None), against=zero_ref,
                    keys=["moment_sequence", "simulate", "replicate", "stationary_distributions"])
            if n == 1:
                compare("optional:falsy mu_0=0,Sigma_0=0.0", dict(canon, mu0=0, S0=0.0), against=zero_ref,
                        keys=["moment_sequence", "simulate", "replicate", "stationary_distributions"])
        kz_ref = _evaluate(ctx, dict(canon, xh=np.zeros((n, 1)), Sg=np.zeros((n, n))), "explicit zero prior")
        if kz_ref is not None and n == 1:
            compare("optional:falsy x_hat=0,Sigma=0.0", dict(canon, xh=0, Sg=0.0), against=kz_ref, keys=["kalman_update", "kalman_after_set_state"])
        kd_ref = _evaluate(ctx, dict(canon, xh=np.zeros((n, 1)), Sg=np.eye(n)), "explicit default prior")
        if kd_ref is not None:
            compare("optional:x_hat,Sigma omitted", dict(canon, xh="omit", Sg="omit"), against=kd_ref, keys=["kalman_update", "kalman_after_set_state"])
        noH_ref = _evaluate(ctx, dict(canon, H=npm(zeros(k, k)), kalman=False), "H = zeros")
        if noH_ref is not None:
            compare("optional:H=None vs zeros", dict(canon, H=None), against=noH_ref,
                    keys=["moment_sequence", "impulse_response", "geometric_sums", "stationary_distributions"])
            compare("optional:H omitted vs zeros", dict(canon, H="omit"), against=noH_ref,
                    keys=["moment_sequence", "impulse_response", "geometric_sums", "stationary_distributions"])
        d5 = _evaluate(ctx, dict(canon, j=5, ts=100, T=10, reps=100), "explicit defaults j=5, ts_length=100, T=10, num_reps=100")
        if d5 is not None:
            compare("optional:j,ts_length,T,num_reps omitted", dict(canon, j="omit", ts="omit", T="omit"), against=d5,
                    keys=["impulse_response", "simulate", "replicate"])
        compare("optional:seed=0 (falsy)", dict(canon, seed=0), against=_evaluate(ctx, dict(canon, seed=np.random.RandomState(0)), "RandomState(0)"), keys=["simulate"])
        # ---- degenerate sizes: one period, T = 0 / 1, one repetition, j = 0, beta = 0
        for nm, over in [("ts_length=1", dict(ts=1)), ("T=1,num_reps=1", dict(T=1, reps=1)), ("T=0", dict(T=0)), ("j=0", dict(j=0)), ("beta=0(int)", dict(beta=0))]:
            ctx.count("degenerate:" + nm)
            res = _evaluate(ctx, dict(canon, **over), nm)
            if res is None:
                continue
            x, y = res["simulate"]
            xr, yr = res["replicate"]
            T_, reps_ = over.get("T", 2), over.get("reps", 3)
            bad = None
            if nm == "ts_length=1" and (x.shape != (n, 1) or y.shape != (k, 1)):
                bad = "simulate(ts_length=1) shapes"
            if xr.shape != (n, reps_) or yr.shape != (k, reps_):
                bad = "replicate shapes"
            if nm == "j=0" and (len(res["impulse_response"][0]) != 1 or not _same(res["impulse_response"][0][0], npm(C))):
                bad = "impulse_response(0) is not ([C], [G C])"
            if nm.startswith("beta=0") and not _same(res["geometric_sums"][0], npm(xt)):
                bad = "geometric_sums(0, x_t) is not x_t"
            if bad:
                ctx.fail("c12_degenerate", bad, dict(info, case=nm), None, None)
        # replicate(T): column j is x_T of a path of length T+1 driven by the same stream (Generator and RandomState seeds)
        for nm, mk in [("RandomState", lambda: np.random.RandomState(seed)), ("Generator", lambda: np.random.default_rng(seed))]:
            ctx.count("seed:" + nm + "_replayed")
            try:
                ss = LinearStateSpace(npm(A), npm(C), npm(G), npm(H), mu_0=npm(mu0), Sigma_0=npm(S0))
                x, y = ss.simulate(5, random_state=mk())
                r2 = mk()
                x0 = r2.multivariate_normal(npm(mu0).flatten(), npm(S0))
                w = r2.standard_normal((m, 4)); v2 = r2.standard_normal((k, 5))
            except Exception as e:
                ctx.fail("c12_exception", "simulate with a %s raised %s" % (nm, type(e).__name__), dict(info, random_state=nm), None, None)
                continue
            dd = dict(n=n, m=m, k=k, l=k, A=A, C=C, G=G, H=H)
            oracle_path(ctx, dd, True, x, y, x0.tolist(), w.tolist(), v2.tolist(), dict(info, random_state=nm), Fraction(1, 10**9) * (1 + Fraction(float(np.max(np.abs(x))))),
                        "lss_simulate_dynamics", Fraction(1, 10**9) * (1 + Fraction(float(np.max(np.abs(y))))))
        # ---- class 6: documented ValueErrors
        for nm, f in [("non-square A", lambda: LinearStateSpace(np.ones((2, 3)), np.ones((2, 1)), np.ones((1, 2)))),
                      ("C rows != n", lambda: LinearStateSpace(np.eye(2), np.ones((3, 1)), np.ones((1, 2)))),
                      ("G columns != n", lambda: LinearStateSpace(np.eye(2), np.ones((2, 1)), np.ones((1, 3)))),
                      ("1-d C for n>1", lambda: LinearStateSpace(np.eye(2), [1.0, 2.0], np.ones((1, 2)))),
                      ("unknown coeff_type", lambda: Kalman(LinearStateSpace(npm(A), npm(C), npm(G), npm(H))).stationary_coefficients(2, "arma"))]:
            ctx.count("error:" + nm)
            try:
                f()
                ctx.fail("c12_error_expected", "no ValueError for " + nm, {"case": nm}, "returned", "ValueError")
            except ValueError:
                pass
            except Exception as e:
                ctx.fail("c12_error_expected", "%s instead of ValueError for %s" % (type(e).__name__, nm), {"case": nm}, type(e).__name__, "ValueError")


def run(ctx):
    thorough = ctx.tier == "thorough"
    ctx.proofs(["C12/Props.v", "C12/PropsTie.v"])
    np.seterr(all="ignore")
    kalman_checks(ctx, 500 if thorough else 80, 12000 if thorough else 2000)
    ops_checks(ctx, 300 if thorough else 45, 12000 if thorough else 3000)
    stationary_checks(ctx, 120 if thorough else 24)
    multi_object_checks(ctx, 80 if thorough else 10)
    lss_checks(ctx, 400 if thorough else 64)
    sim_checks(ctx, 300 if thorough else 48)
    kernel_checks(ctx, 400 if thorough else 80)
    stationary_dist_checks(ctx, 240 if thorough else 40)
    dress_checks(ctx, 36 if thorough else 6)


def replay(data):
    """Re-run the first recorded failing input against the current implementation and print the oracle's verdict."""
    first = data.get("first") or (data.get("mismatches") or [{}])[0]
    print("replay:", json.dumps(first)[:3000])
    inp = first.get("input", {})
    if not isinstance(inp, dict) or "A" not in inp:
        return 0
    d = {key: (fm(inp[key]) if key in ("A", "C", "G", "H", "mu0", "S0") else inp[key]) for key in inp}
    A, C, G, H = d["A"], d["C"], d["G"], d["H"]
    if "ys" in inp:
        ys = [fm(y) for y in inp["ys"]]
        impl = run_kalman_impl(d, ys)
        for j, s in enumerate(impl):
            ex = oracle_batch(d, ys[:j + 1])
            print("after %d observations: impl x_hat=%s Sigma=%s" % (j + 1, s and s[0], s and s[1]))
            print("   exact conditional mean=%s cov=%s" % (ex and fl(ex[0]), ex and fl(ex[1])))
            if s is not None and ex is not None:
                steps = exact_ops(d, d["mu0"], d["S0"], [("U", y) for y in ys[:j + 1]])
                tols, cls = step_tolerances(steps)
                print("   forward error bound (x_hat, Sigma): %.3g %.3g [%s]; agrees within it: %s"
                      % (float(tols[j][0]), float(tols[j][1]), cls, mabs(s[0], ex[0], tols[j][0]) and mabs(s[1], ex[1], tols[j][1])))
    elif "ts_length" in inp and "x0" in inp:
        with_H = inp.get("with_H", True)
        rs = ScriptedRS([inp["x0"], inp["w"]] + ([inp["v"]] if with_H else []))
        x, y = mk_lss(d, with_H).simulate(inp["ts_length"], random_state=rs)
        print("impl x =", x.tolist(), "y =", y.tolist())
        X = fm(x)
        for t in range(inp["ts_length"] - 1):
            rhs = madd(mm(A, [[X[i][t]] for i in range(d["n"])]), mm(C, [[frac(inp["w"][i][t])] for i in range(d["m"])]))
            print("   t=%d: x_{t+1} == A x_t + C w_{t+1}:" % t, [[X[i][t + 1]] for i in range(d["n"])] == rhs)
        Y = fm(y)
        for t in range(inp["ts_length"]):
            rhs = mm(G, [[X[i][t]] for i in range(d["n"])])
            if with_H:
                rhs = madd(rhs, mm(H, [[frac(inp["v"][i][t])] for i in range(d["l"])]))
            print("   t=%d: y_t == G x_t + H v_t:" % t, [[Y[i][t]] for i in range(d["k"])] == rhs)
    elif "beta" in inp:
        ss = mk_lss(d, inp.get("with_H", True))
        Sx, Sy = ss.geometric_sums(inp["beta"], npm(fm(inp["x_t"])))
        ex = fsolve(msub(ident(d["n"]), mscale(frac(inp["beta"]), A)), fm(inp["x_t"]))
        print("impl S_x =", Sx.tolist(), "exact (I - beta A)^-1 x_t =", ex and fl(ex))
    elif "const_positions" in inp:
        ss = mk_lss(d, inp.get("with_H", True))
        try:
            res = ss.stationary_distributions()
            mu_x, Sx = res[0], res[2]
            print("impl mu_x =", mu_x.tolist(), "A mu_x =", fl(mm(A, fm(mu_x))))
            print("impl Sigma_x =", Sx.tolist(), "A Sigma_x A' + CC' =", fl(madd(mm(mm(A, fm(Sx)), mt(A)), mm(C, mt(C)))))
        except Exception as e:
            print("impl raised", type(e).__name__, e)
    elif "T" in inp and "with_H" in inp and "num_reps" not in inp:
        ss = mk_lss(d, inp["with_H"])
        gen = ss.moment_sequence()
        for t_ in range(inp["T"]):
            mx, my, Sx, Sy = next(gen)
            At = mpow(A, t_)
            print("t=%d impl mu_x=%s closed form A^t mu_0=%s" % (t_, mx.tolist(), fl(mm(At, d["mu0"]))))
        xc, yc = ss.impulse_response(inp["T"])
        for i in range(len(xc)):
            print("impulse %d: impl %s closed form A^i C = %s" % (i, np.asarray(xc[i]).tolist(), fl(mm(mpow(A, i), C))))
    return 0

"""C14: game objects keep one payoff convention across all views (profile array, g[a], players'
payoff arrays with own action first and opponents in cyclic order, reconstruction, delete_action,
polymatrix and GAM conversions); payoff_vector / best_response / is_best_response / is_nash /
is_dominated agree with their definitions; no call changes stored payoffs (observed); the GAM writer
formats numbers so that they read back exactly (observed)."""
import itertools, os, tempfile, warnings
import numpy as np
from common import *

IMPORTS = "From QE Require Import C14.Model."
IMPORTS_DOM = "From Coq Require Import Qabs.\nFrom QE Require Import Gen.Consts C14.Model C14.Dominated.\nFrom QE Require C04.Model C04.Proofs C04.ProofsMM2."
FINISH = dict(level="proof", technique_note=(
    "Coq theorems (coq/C14/Props.v) about the executable model coq/C14/Model.v (arrays as shape + flat list, "
    "axis rotations, reductions); model evaluated by vm_compute inside Coq on the inputs AND outputs of the "
    "implementation (all views after every call of a call sequence, payoff vectors / best responses / is_nash for all "
    "pure and random dyadic mixed profiles); independent Fraction oracle recomputes every view and expectation from the "
    "payoff data the game was built from; domination decided by exact weak-duality certificates; non-mutation and GAM "
    "number formatting are observed only. non-trivial = game with >= 2 players, not all action counts equal "
    "or a mixed opponent, and at least two actions for some player"))

PRE = """
Definition arr_close (tol : Q) (a b : arr Q) : bool :=
  nats_eq (shape a) (shape b) && Qs_close tol (adata a) (adata b).
Fixpoint all2 {A B} (f : A -> B -> bool) (a : list A) (b : list B) : bool :=
  match a, b with [], [] => true | x :: a', y :: b' => f x y && all2 f a' b' | _, _ => false end.
Definition istate := option (list (arr Q) * arr Q * list (list Q)).
Definition state_ok (tol : Q) (m : option (game Q)) (s : istate) : bool :=
  match m, s with
  | None, None => true
  | Some g, Some (ps, prof, items) =>
      all2 (arr_close tol) g ps && arr_close tol (profile_of_players 0 g) prof &&
      Qss_close tol (map (nfg_getitem 0 g) (indices (nums_actions g))) items
  | _, _ => false
  end.
Definition seq_ok (c : Q * option (game Q) * list (op Q) * list istate) : bool :=
  let '(tol, init, ops, states) := c in
  match states with
  | [] => false
  | s0 :: rest => state_ok tol init s0 &&
      match init with
      | Some g => all2 (state_ok tol) (run_ops g ops) rest
      | None => match rest with [] => true | _ => false end
      end
  end.
Definition gam_ok (c : game Q * (nat * list nat * list Q)) : bool :=
  let '(g, (n, nums, pay)) := c in
  let '(n', nums', pay') := gam_dump 0 g in
  (n =? n')%nat && nats_eq nums nums' && Qs_eqb pay pay'.
Definition pv_ok (c : arr Q * list (list (action Q) * list Q)) : bool :=
  let '(P, l) := c in forallb (fun x => Qs_eqb (adata (payoff_vector P (fst x))) (snd x)) l.
Definition br_ok (c : arr Q * list (list (action Q) * option (list Q) * Q * list nat * nat)) : bool :=
  let '(P, l) := c in
  forallb (fun x => let '(acts, pert, tol, brs, br) := x in
                    nats_eq (best_responses P acts pert tol) brs && (best_response P acts pert tol =? br)%nat) l.
Definition ibr_ok (c : arr Q * list (action Q * list (action Q) * Q * bool)) : bool :=
  let '(P, l) := c in
  forallb (fun x => let '(own, acts, tol, r) := x in Bool.eqb (is_best_response P own acts tol) r) l.
Definition nash_ok (c : game Q * list (list (action Q) * Q * bool)) : bool :=
  let '(g, l) := c in forallb (fun x => let '(prof, tol, r) := x in Bool.eqb (is_nash g prof tol) r) l.
Definition dom_ok (c : arr Q * Q * list bool) : bool :=
  let '(P, tol, rs) := c in
  let nopp := (length (shape P) - 1)%nat in
  all2 (fun a r => if (nopp =? 0)%nat then Bool.eqb (is_dominated_0 P a tol) r
                   else implb (dominated_by_pure P a (tol + (1 # 100000000))) r && implb (never_worse_somewhere P a (tol - (1 # 100000000))) (negb r))
       (seq 0 (hd 0%nat (shape P))) rs.
"""

PRE_DOM = """
Definition optsQ : @C04.Model.PivOptions Q := {| C04.Model.fea_tol := lp_FEA_TOL; C04.Model.tol_piv := lp_TOL_PIV; C04.Model.tol_ratio_diff := lp_TOL_RATIO_DIFF |}.
Definition big_iter : nat := Z.to_nat 1000000.
Definition dom_value (o : @C04.Model.PivOptions Q) (P : arr Q) (a : nat) : Q :=
  let '(v, _, _) := C04.Model.minmax (hd 0%nat (shape P) - 1) (size (tl (shape P))) (diff_game P a) big_iter o in v.
Fixpoint all2 {A B} (f : A -> B -> bool) (a : list A) (b : list B) : bool :=
  match a, b with [], [] => true | x :: a', y :: b' => f x y && all2 f a' b' | _, _ => false end.
(* is_dominated (minmax route, tolerances of the source) against the implementation; a value within 1e-9 of tol is
   borderline for the floating-point code and not compared *)
Definition domv_ok (c : arr Q * Q * list bool) : bool :=
  let '(P, tol, rs) := c in
  all2 (fun a r => if ((length (shape P) - 1 =? 0) || (hd 0 (shape P) - 1 =? 0))%nat then Bool.eqb (is_dominated P a tol big_iter optsQ) r
                   else if Qle_bool (Qabs (dom_value optsQ P a - tol)) (1 # 1000000000) then true
                   else Bool.eqb (is_dominated P a tol big_iter optsQ) r) (seq 0 (hd 0%nat (shape P))) rs.
Definition dom_border (c : arr Q * Q * list bool) : bool :=
  let '(P, tol, rs) := c in
  if ((length (shape P) - 1 =? 0) || (hd 0 (shape P) - 1 =? 0))%nat then true
  else forallb (fun a => negb (Qle_bool (Qabs (dom_value optsQ P a - tol)) (1 # 1000000000))) (seq 0 (hd 0%nat (shape P))).
(* hypothesis of C14_dominated_spec measured: the tolerance-0 run of minmax ends with inner status 0 and gives the same verdict *)
Definition dom_thm (c : arr Q * Q * list bool) : bool :=
  let '(P, tol, rs) := c in
  if ((length (shape P) - 1 =? 0) || (hd 0 (shape P) - 1 =? 0))%nat then true
  else forallb (fun a => (C04.ProofsMM2.minmax_inner_status (hd 0%nat (shape P) - 1) (size (tl (shape P))) (diff_game P a) big_iter =? 0)%nat &&
                         Bool.eqb (is_dominated P a tol big_iter C04.Proofs.opts0) (is_dominated P a tol big_iter optsQ))
               (seq 0 (hd 0%nat (shape P))).
"""


# ------------------------------------------------------------------ literals
def arrlit(a):
    a = np.asarray(a)
    return "(%s, %s)" % (natlist(a.shape), qlist([fin(x) for x in a.ravel(order="C").tolist()]))


def gamelit(arrs):
    return "[" + "; ".join(arrlit(a) for a in arrs) + "]"


def actlit(a):
    if isinstance(a, (int, np.integer)):
        return "(Pure %d%%nat)" % int(a)
    return "(Mixed %s)" % qlist([frac(x) for x in np.asarray(a).tolist()])


def actslit(acts):
    return "[" + "; ".join(actlit(a) for a in acts) + "]" if acts else "(@nil (action Q))"


def optlit(x, f, ty):
    return "(@None (%s))" % ty if x is None else "(Some %s)" % f(x)


def clist(items, ty):
    items = list(items)
    return "[" + "; ".join(items) + "]" if items else "(@nil (%s))" % ty


# ------------------------------------------------------------------ observation helpers
class Watch:
    """snapshots of every stored payoff array of the watched objects; check() reports a change"""

    def __init__(self, ctx):
        self.ctx = ctx
        self.n = 0

    def call(self, label, arrays, fn, info=None):
        snaps = [np.array(a, copy=True) for a in arrays]
        try:
            return fn()
        finally:
            self.n += 1
            for k, (a, s) in enumerate(zip(arrays, snaps)):
                if a.shape != s.shape or not np.array_equal(a, s):
                    self.ctx.fail("mutation", "%s changed a stored payoff array" % label,
                                  {"call": label, "array": k, "info": info, "before": s.tolist()}, np.asarray(a).tolist(), s.tolist())


class BadOutput(Exception):
    pass


def fin(x):
    """exact Fraction of a finite number; anything else is a malformed output (never rendered into a .v file)"""
    try:
        xf = float(x)
    except Exception:
        raise BadOutput("not a number: %r" % (x,))
    if xf != xf or xf in (math.inf, -math.inf):
        raise BadOutput("not finite: %r" % (x,))
    return frac(x)


def nat_in(x, bound, what="index"):
    """x as a Python int with 0 <= x < bound, else BadOutput"""
    if isinstance(x, (bool, np.bool_)) or not isinstance(x, (int, np.integer)):
        if not (isinstance(x, np.ndarray) and x.ndim == 0 and np.issubdtype(x.dtype, np.integer)):
            raise BadOutput("%s is not an integer: %r" % (what, x))
    xi = int(x)
    if not 0 <= xi < bound:
        raise BadOutput("%s out of range [0,%d): %r" % (what, bound, x))
    return xi


def nat_vec(v, bound, what="indices"):
    a = np.asarray(v)
    if a.ndim != 1 or (a.size and not np.issubdtype(a.dtype, np.integer)):
        raise BadOutput("%s is not a 1-d integer array: %r" % (what, v))
    return [nat_in(x, bound, what) for x in a.tolist()]


def is_pure(a):
    return isinstance(a, (int, np.integer)) and not isinstance(a, (bool, np.bool_))


INT_DRESS = [int, np.int64, np.int32, np.intp, np.int16, np.uint8]


def dress_action(rng, a):
    """the same pure action as another integer type (NumPy integer scalars as produced by argmax / array indexing)"""
    return rng.choice(INT_DRESS)(a) if is_pure(a) else a


def dress_profile(rng, prof):
    """the same profile with pure actions as NumPy integers and the container as tuple / list / integer array"""
    prof = [dress_action(rng, a) for a in prof]
    if all(is_pure(a) for a in prof):
        mode = rng.randrange(4)
        if mode == 0:
            return np.array([int(a) for a in prof], dtype=rng.choice([np.int64, np.int32, np.intp]))
        if mode == 1:
            return list(prof)
    return tuple(prof) if rng.random() < 0.7 else list(prof)


def game_arrays(g):
    return [p.payoff_array for p in g.players]


def dyadic_simplex(rng, n, den=8):
    """probability vector with entries in multiples of 1/den (some zeros)"""
    cuts = sorted(rng.randrange(0, den + 1) for _ in range(n - 1))
    parts = [b - a for a, b in zip([0] + cuts, cuts + [den])]
    rng.shuffle(parts)
    return np.array(parts, dtype=float) / den


def rand_payoffs(rng, shape, kind):
    n = int(np.prod(shape))
    if kind == "int":
        v = np.array([rng.randrange(-4, 5) for _ in range(n)], dtype=np.int64)
    elif kind == "dyadic":
        v = np.array([rng.randrange(-24, 25) / 8.0 for _ in range(n)])
    else:  # generic doubles needing 17 significant digits
        v = np.array([rng.choice([rng.uniform(-5, 5), rng.random() / 3, 0.1 * rng.randrange(1, 30), 1e-5 * rng.random(),
                                  1e6 * rng.random() / 7]) for _ in range(n)])
    return v.reshape(shape)


def state_of(g):
    """all views of a game as the implementation reports them"""
    N = g.N
    items = []
    for a in np.ndindex(*g.nums_actions):
        v = g[a] if N > 1 else [g[int(a[0])]]
        if np.shape(v) != (N,):
            raise BadOutput("g[%r] has shape %r" % (a, np.shape(v)))
        items.append([fin(x) for x in np.asarray(v).tolist()])
    return ([np.array(p.payoff_array) for p in g.players], np.array(g.payoff_profile_array), items)


def statelit(s):
    if s is None:
        return "(@None (list (arr Q) * arr Q * list (list Q)))"
    ps, prof, items = s
    return "(Some (%s, %s, %s))" % (gamelit(ps), arrlit(prof), qlist2(items))


# exact expectation from the data the game was built from (independent of the model)
def exp_payoffs(data, N, nums, i, opp):
    """vector over own actions k of E u_i(k, opp); opp = actions of players i+1,...,i-1 (cyclic), pure or mixed"""
    others = [(i + 1 + j) % N for j in range(N - 1)]
    ws = []
    for j, pl in enumerate(others):
        a = opp[j]
        if isinstance(a, (int, np.integer)):
            ws.append([Fraction(1) if b == a else Fraction(0) for b in range(nums[pl])])
        else:
            ws.append([frac(x) for x in np.asarray(a).tolist()])
    out = []
    for k in range(nums[i]):
        tot = Fraction(0)
        for b in itertools.product(*[range(nums[pl]) for pl in others]):
            w = Fraction(1)
            for j in range(N - 1):
                w *= ws[j][b[j]]
            if w == 0:
                continue
            prof = [0] * N
            prof[i] = k
            for j, pl in enumerate(others):
                prof[pl] = b[j]
            tot += w * frac(data[tuple(prof) + (i,)])
        out.append(tot)
    return out



# ------------------------------------------------------------------ hardening helpers (dress / state / options / errors)
def make_probes(rng, nums):
    """fixed arguments with which every form of the same game is interrogated"""
    N = len(nums)
    probes = {"profiles": [tuple(int(x) for x in a) for a in np.ndindex(*nums)][:40], "opps": []}
    for i in range(N):
        others = [(i + 1 + j) % N for j in range(N - 1)]
        lst = [tuple(rng.randrange(nums[pl]) for pl in others) for _ in range(3)]
        if N >= 2:
            lst.append(tuple(dyadic_simplex(rng, nums[pl]) for pl in others))
            lst.append(tuple(dyadic_simplex(rng, nums[pl]) if rng.random() < 0.5 else rng.randrange(nums[pl]) for pl in others))
        probes["opps"].append(lst)
    return probes


def summarize(g, probes, with_dom=True):
    """everything the public API reports about a game, as plain Python numbers (canonical for comparison)"""
    N = g.N
    out = {"N": N, "nums": tuple(int(k) for k in g.nums_actions),
           "profile_array": np.asarray(g.payoff_profile_array, dtype=float).tolist(),
           "getitem": [np.asarray(g[a] if N > 1 else [g[int(a[0])]], dtype=float).tolist() for a in probes["profiles"]],
           "is_nash": [bool(g.is_nash(a)) for a in probes["profiles"]],
           "is_nash_tol1": [bool(g.is_nash(a, tol=1.0)) for a in probes["profiles"][:10]]}
    per = []
    for i, p in enumerate(g.players):
        rec = {"num_actions": int(p.num_actions), "num_opponents": int(p.num_opponents)}
        for j, opp in enumerate(probes["opps"][i]):
            arg = None if N == 1 else (opp[0] if N == 2 else opp)
            rec["pv%d" % j] = np.asarray(p.payoff_vector(arg), dtype=float).tolist()
            rec["br%d" % j] = int(p.best_response(arg))
            rec["brs%d" % j] = [int(k) for k in p.best_response(arg, tie_breaking=False, tol=0.5)]
            rec["ibr%d" % j] = [bool(p.is_best_response(k, arg)) for k in range(p.num_actions)]
        if with_dom:
            rec["dominated"] = [int(k) for k in p.dominated_actions()]
        per.append(rec)
    out["players"] = per
    return out


def first_diff(a, b, path=""):
    if isinstance(a, dict) and isinstance(b, dict):
        for k in a:
            if k not in b:
                return path + "/" + str(k)
            d = first_diff(a[k], b[k], path + "/" + str(k))
            if d:
                return d
        return None
    if isinstance(a, (list, tuple)) and isinstance(b, (list, tuple)):
        if len(a) != len(b):
            return path + " (length)"
        for k, (x, y) in enumerate(zip(a, b)):
            d = first_diff(x, y, path + "[%d]" % k)
            if d:
                return d
        return None
    return None if a == b else path


ARRAY_DRESS = ["list", "tuple", "int64", "int32", "float32", "F-order", "view", "rows-of-larger"]


def dress_array(a, how):
    """the same integer-valued array in another container / dtype / memory layout"""
    a = np.asarray(a)
    if how == "list":
        return a.tolist()
    if how == "tuple":
        def tt(x):
            return tuple(tt(y) for y in x) if isinstance(x, list) else x
        return tt(a.tolist())
    if how in ("int64", "int32", "float32"):
        return a.astype(how)
    if how == "F-order":
        return np.asfortranarray(a.astype(float))
    if how == "view":                      # every second entry along the first axis of a larger array
        big = np.zeros((2 * a.shape[0],) + a.shape[1:])
        big[::2] = a
        big[1::2] = -77
        return big[::2]
    big = np.full((a.shape[0] + 2,) + a.shape[1:], 55.0)      # rows of a larger array
    big[1:-1] = a
    return big[1:-1]


def expect_error(ctx, label, exc_types, fn, info=None):
    """a documented error: anything else (no error, another exception type) is reported"""
    ctx.count("expected_error:" + label)
    try:
        r = fn()
    except exc_types:
        return
    except Exception as e:
        ctx.fail("wrong_exception", "%s raised %r instead of %s" % (label, e, "/".join(t.__name__ for t in exc_types)), {"call": label, "info": info}, repr(e), None)
        return
    ctx.fail("missing_exception", "%s did not raise %s" % (label, "/".join(t.__name__ for t in exc_types)), {"call": label, "info": info}, repr(r)[:200], None)


class Keeper:
    """result aliasing across calls: keep returned arrays with an immediate deep copy, re-check them after later calls,
    scribble over them and see that nothing else changes"""

    def __init__(self, ctx, info):
        self.ctx, self.info, self.kept = ctx, info, []

    def keep(self, label, arr):
        if isinstance(arr, np.ndarray):
            self.kept.append((label, arr, arr.copy()))
            self.ctx.count("alias:kept:" + label)
        return arr

    def recheck(self, when):
        for label, arr, cp in self.kept:
            if arr.shape != cp.shape or not np.array_equal(arr, cp):
                self.ctx.fail("result_overwritten_by_later_call", "the array returned by %s changed after %s" % (label, when),
                              dict(self.info, result=label, after=when), np.asarray(arr).tolist(), cp.tolist())

    def scribble(self, label=None):
        n = 0
        for lab, arr, cp in self.kept:
            if (label is None or lab == label) and arr.flags.writeable:
                arr[...] = -31337
                n += 1
        self.kept = [(lab, arr, arr.copy()) for lab, arr, cp in self.kept]
        self.ctx.count("alias:scribbled", n)

    def no_share(self, label, a, b, what):
        if isinstance(a, np.ndarray) and isinstance(b, np.ndarray) and a.size and b.size and np.shares_memory(a, b):
            self.ctx.fail("result_aliases_internal_state", "%s shares memory with %s" % (label, what), dict(self.info, result=label, shares_with=what), None, None)
            return False
        return True


SHAPES_QUICK = [(1,), (3,), (2, 2), (2, 3), (3, 2), (1, 4), (3, 1), (1, 1), (5, 4), (2, 3, 4), (3, 2, 2), (4, 2, 3), (1, 3, 2),
                (2, 3, 1), (2, 3, 2, 3), (3, 2, 1, 2)]
SHAPES_MORE = [(5,), (3, 5), (5, 5), (4, 1), (2, 2, 2), (5, 3, 2), (3, 4, 5), (2, 2, 3, 4), (3, 2, 4, 2), (2, 1, 2, 3),
               (4, 3, 2, 5), (5, 4, 3, 5), (5, 5, 5, 5)]



def warm_up(ctx):
    """compile (or load from the shared on-disk Numba cache) every jitted kernel this check uses before the measurements;
    the cache directory is shared with concurrently running checks, so a cache-file race (OSError) is retried here instead
    of surfacing later as a spurious exception of the function under test"""
    import time as _time
    from quantecon.game_theory import Player
    from quantecon.optimize import minmax

    def tries(f):
        for attempt in range(6):
            try:
                return f()
            except OSError as e:
                ctx.count("numba_cache_race_retried:%s" % type(e).__name__)
                _time.sleep(0.4 * (attempt + 1))
        return f()
    tries(lambda: minmax(np.array([[1.0, -1.0], [-1.0, 1.0]])))
    tries(lambda: minmax(np.array([[1, -1], [-1, 1]], dtype=np.int64)))
    tries(lambda: Player(np.array([[1.0, 2.0], [2.0, 1.0], [0.0, 0.0]])).dominated_actions())
    tries(lambda: Player(np.array([[1, 2], [2, 1], [0, 0]])).dominated_actions())


def run(ctx):
    import quantecon.game_theory as gt
    from quantecon.game_theory import Player, NormalFormGame, PolymatrixGame
    from quantecon.game_theory.game_converters import GAMReader, GAMWriter, to_gam, from_gam
    thorough = ctx.tier == "thorough"
    rng = ctx.rng
    import time as _tt
    _p0 = _tt.time()
    ctx.proofs()
    ctx.count("time_s:proof build (shared lock + make + Props)", int(_tt.time() - _p0))
    warm_up(ctx)
    W = Watch(ctx)
    TOL = frac(Player([1.0, 2.0]).tol)          # default tolerance of the code, read at run time
    ctx.notes.append("Player.tol read from the implementation: %r" % float(TOL))
    shapes = SHAPES_QUICK + (SHAPES_MORE if thorough else [])
    kinds = ["int", "dyadic", "generic"]

    def nontriv(nums, mixed=False):
        return len(nums) >= 2 and max(nums) >= 2 and (len(set(nums)) > 1 or mixed)

    # ============================================================ 1. call sequences: every view after every call
    seq_cases, seq_meta = [], []
    gam_cases, gam_meta = [], []
    nseq = 260 if thorough else 70
    for si in range(nseq):
        nums = list(rng.choice(shapes if si >= len(shapes) else [shapes[si]]))
        if np.prod(nums) > 130 and not thorough:
            nums = [min(n, 3) for n in nums]
        N = len(nums)
        kind = rng.choice(kinds)
        init_kind = rng.choice(["profile", "profile", "players", "zeros", "poly"] + (["symmetric"] if N == 2 else []))
        if N == 1 and init_kind == "poly":
            init_kind = "players"
        tol = Fraction(0)
        ref = None        # reference payoff data (exact) for the independent oracle: dict profile -> list of Fractions
        try_poly = False
        if init_kind == "profile":
            data = rand_payoffs(rng, tuple(nums) + (N,), kind)
            g = NormalFormGame(data)
            init = "players_of_profile 0 %s" % arrlit(data)
            ref = {a: [frac(x) for x in data[a].tolist()] for a in np.ndindex(*nums)}
        elif init_kind == "players":
            data = rand_payoffs(rng, tuple(nums) + (N,), kind)
            arrs = [np.ascontiguousarray(np.transpose(data[..., i], tuple(range(i, N)) + tuple(range(i)))) for i in range(N)]
            g = NormalFormGame([Player(a) for a in arrs])
            init = "nfg_of_players %s" % gamelit(arrs)
            ref = {a: [frac(x) for x in data[a].tolist()] for a in np.ndindex(*nums)}
        elif init_kind == "zeros":
            g = NormalFormGame(tuple(nums))
            init = "Some (nfg_zeros 0 %s)" % natlist(nums)
            ref = {a: [Fraction(0)] * N for a in np.ndindex(*nums)}
            kind = "dyadic"
        elif init_kind == "symmetric":
            n = max(nums[0], 2)
            nums = [n, n]
            m = rand_payoffs(rng, (n, n), kind)
            m_snapshot = m.copy()
            g = NormalFormGame(m)
            init = "Some (nfg_symmetric %s)" % arrlit(m)
            ref = {a: [frac(m[a[0], a[1]]), frac(m[a[1], a[0]])] for a in np.ndindex(n, n)}
        else:  # poly: PolymatrixGame(dict).to_nfg()
            kindp = rng.choice(["int", "dyadic"])
            pm = {(p, q): rand_payoffs(rng, (nums[p], nums[q]), kindp).astype(float) for p in range(N) for q in range(N) if p != q}
            pg = PolymatrixGame(pm, nums_actions=nums) if rng.random() < 0.5 else PolymatrixGame(pm)
            g = W.call("PolymatrixGame.to_nfg", list(pg.polymatrix.values()), lambda: pg.to_nfg())
            init = "poly_to_nfg %s %s" % (natlist(nums), pmlit(pm, nums))
            ref = {a: [sum(frac(pm[(p, q)][a[p], a[q]]) for q in range(N) if q != p) for p in range(N)] for a in np.ndindex(*nums)}
            kind = "dyadic"
        ctx.count("seq_init:" + init_kind)
        ctx.count("seq_N:%d" % N)
        try:
            states = [state_of(g)]
        except Exception as e:
            ctx.fail("raises", "reading g[a] / payoff_profile_array of a freshly built game raised %r" % (e,), {"init": init_kind, "nums": nums, "ops": []}, repr(e), None)
            continue
        oracle_views(ctx, g, ref, {"init": init_kind, "nums": nums, "ops": []}, Fraction(0))
        ops_lit, ops_desc = [], []
        nops = rng.randrange(0, 5)
        cur_nums = list(g.nums_actions)
        for oi in range(nops):
            choices = ["set", "set", "del", "gam", "players", "profile"]
            if N >= 2:
                choices.append("poly")
            if rng.random() < 0.06:
                choices = ["baddel"]
            o = rng.choice(choices)
            if init_kind == "symmetric" and oi == 0:
                o = "set"          # __setitem__ directly on a game built from a square matrix
            g2 = None
            if o == "set":
                a = tuple(rng.randrange(n) for n in cur_nums)
                isint = np.issubdtype(g.dtype, np.integer)
                v = [rng.randrange(-9, 10) if isint else rng.choice([rng.randrange(-24, 25) / 8.0, rng.uniform(-3, 3)]) for _ in range(N)]
                def f():
                    if N == 1:
                        g[int(a[0])] = v[0]
                    else:
                        g[a] = v
                f()
                g2 = g
                if init_kind == "symmetric":
                    changed = [list(b) for b in np.ndindex(*cur_nums) if b != a and [frac(x) for x in np.asarray(g[b]).tolist()] != ref[b]]
                    if changed or not np.array_equal(m, m_snapshot):
                        ctx.fail("setitem_symmetric_aliasing", "g[a] = v on a game built from a square matrix changed another profile or the caller's matrix",
                                 {"constructor": "symmetric_matrix", "matrix": m_snapshot, "profile": list(a), "value": v},
                                 {"other_profiles_changed": changed[:4], "caller_matrix_changed": not np.array_equal(m, m_snapshot)}, "only profile a changes")
                ops_lit.append("OSet %s %s" % (natlist(a), qlist([frac(x) for x in v])))
                ops_desc.append(["set", list(a), v])
                ref[a] = [frac(x) for x in v]
            elif o in ("del", "baddel"):
                if o == "del":
                    j = rng.randrange(N)
                    pidx = j if rng.random() < 0.6 else j - N
                    k = rng.randrange(cur_nums[j])
                else:
                    pidx = rng.choice([N, -N - 1, N + 1, 0])
                    k = cur_nums[0] if pidx == 0 else 0
                ops_lit.append("ODel %s %d%%nat" % (zlit(pidx), k))
                ops_desc.append(["delete_action", pidx, k])
                try:
                    g2 = W.call("NormalFormGame.delete_action", game_arrays(g), lambda: g.delete_action(pidx, k), ops_desc)
                except (ValueError, IndexError) as e:
                    g2 = None
                    ctx.count("seq_rejected:" + type(e).__name__)
                    if o == "del" and cur_nums[pidx % N] >= 2:
                        ctx.fail("delete_action_rejected", "delete_action raised on a valid player index / action that leaves every player an action: %r" % (e,),
                                 {"init": init_kind, "nums": nums, "ops": ops_desc}, repr(e), "a game without that action")
                if g2 is not None and o == "baddel":
                    ctx.fail("delete_action_accepts_invalid", "delete_action accepted an out-of-range player index or action", {"init": init_kind, "nums": nums, "ops": ops_desc}, list(g2.nums_actions), "ValueError/IndexError")
                if g2 is not None:
                    j = pidx % N
                    ref = {tuple(a[:j]) + ((a[j] if a[j] < k else a[j] - 1),) + tuple(a[j + 1:]): v for a, v in ref.items() if a[j] != k}
            elif o == "gam":
                s = W.call("to_gam", game_arrays(g), lambda: to_gam(g), ops_desc)
                try:
                    toks = s.split()
                    n_ = nat_in(int(toks[0]), 100, "N")
                    nums_ = [nat_in(int(t), 10**6, "action count") for t in toks[1:1 + n_]]
                    pay = [Fraction(t) if "." not in t and "e" not in t.lower() else fin(float(t)) for t in toks[1 + n_:]]
                    gam_cases.append(tup(gamelit(game_arrays(g)), tup("%d%%nat" % n_, natlist(nums_), qlist(pay))))
                    gam_meta.append({"nums": list(cur_nums), "string": s[:200]})
                except Exception as e:
                    ctx.fail("gam_tokens_unreadable", "to_gam wrote something that is not 'N, action counts, numbers': %r" % (e,),
                             {"init": init_kind, "nums": nums, "ops": ops_desc, "string": s[:300]}, repr(e), None)
                ops_lit.append("OGam")
                ops_desc.append(["gam"])
                try:
                    if rng.random() < 0.5:
                        g2 = GAMReader.from_string(s)
                    else:
                        with tempfile.TemporaryDirectory() as td:
                            path = os.path.join(td, "g.gam")
                            W.call("to_gam(file)", game_arrays(g), lambda: to_gam(g, path), ops_desc)
                            g2 = from_gam(path)
                except Exception as e:
                    ctx.fail("gam_roundtrip_raises", "from_gam(to_gam(g)) raised %r" % (e,), {"init": init_kind, "nums": nums, "ops": ops_desc, "string": s[:300]}, repr(e), "the same game")
                    g2 = None
            elif o == "players":
                g2 = W.call("NormalFormGame(players)", game_arrays(g), lambda: NormalFormGame(list(g.players)), ops_desc)
                ops_lit.append("OPlayers")
                ops_desc.append(["players"])
            elif o == "profile":
                g2 = W.call("NormalFormGame(profile_array)", game_arrays(g), lambda: NormalFormGame(g.payoff_profile_array), ops_desc)
                ops_lit.append("OProfile")
                ops_desc.append(["profile"])
            else:  # poly round trip; from_nf's least-squares result is an input of the model
                polyok = is_polymatrix_exact(ref, cur_nums)
                with warnings.catch_warnings():
                    warnings.simplefilter("ignore")
                    try:
                        pg = W.call("PolymatrixGame.from_nf", game_arrays(g), lambda: PolymatrixGame.from_nf(g, is_polymatrix=polyok), ops_desc)
                    except AssertionError:
                        ctx.fail("from_nf_rejects_polymatrix", "from_nf asserts on an exactly polymatrix game", {"ops": ops_desc, "nums": cur_nums}, None, None)
                        break
                g2 = pg.to_nfg()
                ops_lit.append("OPoly %s" % pmlit(pg.polymatrix, cur_nums))
                ops_desc.append(["poly", polyok])
                tol = Fraction(1, 10**9)
                if not polyok:   # least-squares approximation of a non-polymatrix game: new reference = the sums
                    ref = {a: [sum(frac(pg.polymatrix[(p, q)][a[p], a[q]]) for q in range(N) if q != p) for p in range(N)] for a in np.ndindex(*cur_nums)}
                ctx.count("seq_poly:" + ("polymatrix" if polyok else "approximation"))
            ctx.count("seq_op:" + o)
            if g2 is None:
                states.append(None)
                break
            g = g2
            cur_nums = list(g.nums_actions)
            try:
                states.append(state_of(g))
            except Exception as e:
                ctx.fail("raises", "reading g[a] / payoff_profile_array raised %r" % (e,), {"init": init_kind, "nums": nums, "ops": ops_desc}, repr(e), None)
                states = None
                break
            oracle_views(ctx, g, ref, {"init": init_kind, "nums": nums, "ops": ops_desc}, tol)
        if states is None:
            continue
        seq_cases.append(tup(qlit(tol), "(" + init + ")", clist(ops_lit, "op Q"), "[" + "; ".join(statelit(s) for s in states) + "]"))
        seq_meta.append({"init": init_kind, "nums": nums, "kind": kind, "ops": ops_desc})
        ctx.case(("seq", si, init_kind, tuple(nums), repr(ops_desc)), nontrivial=nontriv(nums) or (N >= 2 and max(nums) >= 2 and len(ops_desc) > 0),
                 sample={"sequence": ops_desc, "init": init_kind, "nums": nums})
    bad = ctx.coq_check("call_sequences", IMPORTS, "Q * option (game Q) * list (op Q) * list istate", "seq_ok", seq_cases,
                        chunk=max(1, len(seq_cases) // 14), preamble=PRE)
    for i in bad:
        ctx.mismatch("C14.Model.run_ops (construct/__setitem__/delete_action/GAM/polymatrix; all views) vs NormalFormGame", seq_meta[i])
    bad = ctx.coq_check("gam_dump_tokens", IMPORTS, "game Q * (nat * list nat * list Q)", "gam_ok", gam_cases, chunk=40, preamble=PRE)
    for i in bad:
        ctx.mismatch("C14.Model.gam_dump vs GAMWriter._dump (token order)", gam_meta[i])

    # ============================================================ 2. payoff_vector, best responses, is_nash
    pv_cases, pv_meta, br_cases, br_meta, ibr_cases, ibr_meta, nash_cases, nash_meta = [], [], [], [], [], [], [], []
    game_list = []
    for nums in shapes:
        if np.prod(nums) > 150 and not thorough:
            continue
        for kind in (["int", "dyadic"] if (thorough or len(nums) <= 3) else [rng.choice(["int", "dyadic"])]):
            game_list.append((nums, kind))
    for nums, kind in game_list:
        N = len(nums)
        data = rand_payoffs(rng, tuple(nums) + (N,), kind)
        if kind == "int" and rng.random() < 0.5:      # more ties
            data = data // 3
        g = NormalFormGame(data)
        GA = game_arrays(g)
        ctx.count("pv_game:N=%d" % N)
        big = np.prod(nums) > 150
        for i, p in enumerate(g.players):
            others = [(i + 1 + j) % N for j in range(N - 1)]
            opps = []
            pure_profiles = list(itertools.product(*[range(nums[pl]) for pl in others]))
            if big:
                pure_profiles = rng.sample(pure_profiles, 12)
            opps += [tuple(int(x) for x in b) for b in pure_profiles]
            if N >= 2:
                for _ in range(6 if not big else 3):
                    opps.append(tuple(dyadic_simplex(rng, nums[pl]) if rng.random() < 0.7 else rng.randrange(nums[pl]) for pl in others))
            pvl, brl, ibrl = [], [], []
            for opp in opps:
                # the call receives the profile in a random integer dress (Python int, NumPy integer scalars, list / tuple /
                # integer array); the model and the oracle see the plain profile
                dressed = dress_profile(rng, opp) if N >= 3 else opp
                arg = None if N == 1 else (dress_action(rng, opp[0]) if N == 2 else dressed)
                dress = "none" if N == 1 else (type(arg).__name__ if N == 2 else type(dressed).__name__ + ":" + ",".join(type(a).__name__ for a in dressed))
                ctx.count("action_dress:" + (dress if N <= 2 else dress.split(":")[0]))
                mixed = any(not isinstance(a, int) for a in opp)
                try:
                    pv = W.call("Player.payoff_vector", GA, lambda: p.payoff_vector(arg))
                    if np.shape(pv) != (nums[i],):
                        raise BadOutput("payoff_vector has shape %r" % (np.shape(pv),))
                    pvq = [fin(x) for x in np.asarray(pv).tolist()]
                except Exception as e:
                    ctx.fail("raises", "payoff_vector raised / returned a malformed value on a valid opponent profile: %r" % (e,),
                             {"data": data, "player": i, "opponents": opp, "passed_as": dress}, repr(e), "a vector of length %d" % nums[i])
                    continue
                exp = exp_payoffs(data, N, nums, i, opp)
                ident = ("pv", tuple(nums), kind, i, repr(opp))
                ctx.case(ident, nontrivial=nontriv(nums, mixed), sample={"payoff_vector": {"nums": nums, "player": i, "opponents": opp}, "impl": pv})
                if pvq != exp:
                    ctx.fail("payoff_vector", "payoff_vector is not the expected payoff of each own action",
                             {"data": data, "player": i, "opponents": opp, "passed_as": dress}, pv, exp)
                pvl.append(tup(actslit(opp), qlist(pvq)))
                # best responses
                for tolv in (None, 0.0, 0.5, 1.0) if not big else (None, 1.0):
                    pert = None
                    if rng.random() < 0.3:
                        pert = np.array([rng.randrange(-8, 9) / 8.0 for _ in range(nums[i])])
                    try:
                        brs = W.call("Player.best_response(tie_breaking=False)", GA,
                                     lambda: p.best_response(arg, tie_breaking=False, tol=tolv, payoff_perturbation=pert))
                        br = W.call("Player.best_response", GA, lambda: p.best_response(arg, tol=tolv, payoff_perturbation=pert))
                        brs = nat_vec(brs, nums[i], "best_response(tie_breaking=False)")
                        br = nat_in(br, nums[i], "best_response")
                    except Exception as e:
                        ctx.fail("raises", "best_response raised / returned a malformed value on valid arguments (tol >= 0): %r" % (e,),
                                 {"data": data, "player": i, "opponents": opp, "passed_as": dress, "tol": tolv, "perturbation": pert}, repr(e), "a best response")
                        continue
                    tq = TOL if tolv is None else frac(tolv)
                    vals = [e + (frac(pert[k]) if pert is not None else 0) for k, e in enumerate(exp)]
                    ebrs = [k for k in range(nums[i]) if vals[k] >= max(vals) - tq]
                    ctx.case(("br",) + ident + (tolv, repr(pert)), nontrivial=nontriv(nums, mixed))
                    if [int(x) for x in brs] != ebrs or int(br) != ebrs[0]:
                        ctx.fail("best_response", "best_response(s) differ from the definition (tol, smallest index)",
                                 {"data": data, "player": i, "opponents": opp, "tol": tolv, "perturbation": pert}, [brs, br], ebrs)
                    if len(ebrs) > 1:
                        ctx.count("br:ties")
                    # tie_breaking='random': for several seeds the answer must lie in the tol-best-response set
                    if len(ebrs) > 1 or rng.random() < 0.15:
                        for seed in range(6 if len(ebrs) > 1 else 2):
                            rsd = np.random.RandomState(seed) if seed % 2 else np.random.default_rng(seed)
                            try:
                                rb = W.call("Player.best_response(tie_breaking='random')", GA,
                                            lambda: p.best_response(arg, tie_breaking="random", tol=tolv, payoff_perturbation=pert, random_state=rsd))
                                rb = nat_in(rb, nums[i], "best_response(tie_breaking='random')")
                            except Exception as e:
                                ctx.fail("raises", "best_response(tie_breaking='random') raised / returned a malformed value: %r" % (e,),
                                         {"data": data, "player": i, "opponents": opp, "tol": tolv, "perturbation": pert, "seed": seed}, repr(e), ebrs)
                                continue
                            ctx.count("br_random:calls")
                            if rb not in ebrs:
                                ctx.fail("best_response_random", "best_response(tie_breaking='random') returned an action outside the tol-best-response set",
                                         {"data": data, "player": i, "opponents": opp, "tol": tolv, "perturbation": pert, "seed": seed}, rb, ebrs)
                    brl.append(tup(actslit(opp), optlit(pert, lambda e: qlist([frac(x) for x in e.tolist()]), "list Q"), qlit(tq),
                                   natlist(brs), "%d%%nat" % int(br)))
                    owns = list(range(nums[i])) + [dyadic_simplex(rng, nums[i])]
                    for own in owns if not big else owns[-2:]:
                        own_arg = dress_action(rng, own)
                        try:
                            r = W.call("Player.is_best_response", GA, lambda: p.is_best_response(own_arg, arg, tol=tolv))
                            if not isinstance(r, (bool, np.bool_)):
                                raise BadOutput("is_best_response returned %r" % (r,))
                            r = bool(r)
                        except Exception as e:
                            ctx.fail("raises", "is_best_response raised on valid arguments: %r" % (e,), {"data": data, "player": i, "own": own, "opponents": opp, "tol": tolv}, repr(e), None)
                            continue
                        val = exp[own] if isinstance(own, int) else sum(frac(x) * e for x, e in zip(own.tolist(), exp))
                        er = val >= max(exp) - tq
                        if r != er:
                            ctx.fail("is_best_response", "is_best_response differs from the definition",
                                     {"data": data, "player": i, "own": own, "opponents": opp, "tol": tolv}, r, er)
                        ibrl.append(tup(actlit(own), actslit(opp), qlit(tq), blit(r)))
            pv_cases.append(tup(arrlit(p.payoff_array), clist(pvl, "list (action Q) * list Q"))); pv_meta.append({"data": data, "player": i})
            br_cases.append(tup(arrlit(p.payoff_array), clist(brl, "list (action Q) * option (list Q) * Q * list nat * nat"))); br_meta.append({"data": data, "player": i})
            ibr_cases.append(tup(arrlit(p.payoff_array), clist(ibrl, "action Q * list (action Q) * Q * bool"))); ibr_meta.append({"data": data, "player": i})
        # is_nash on all pure profiles and random mixed ones
        profs = [tuple(int(x) for x in a) for a in np.ndindex(*nums)]
        if big:
            profs = rng.sample(profs, 30)
        for _ in range(10 if not big else 4):
            profs.append(tuple(dyadic_simplex(rng, n) if rng.random() < 0.7 else rng.randrange(n) for n in nums))
        nl = []
        for prof in profs:
            for tolv in (None, 1.0):
                prof_arg = dress_profile(rng, prof) if N >= 2 else (dress_action(rng, prof[0]),)
                try:
                    r = W.call("NormalFormGame.is_nash", GA, lambda: g.is_nash(prof_arg, tol=tolv))
                    if not isinstance(r, (bool, np.bool_)):
                        raise BadOutput("is_nash returned %r" % (r,))
                    r = bool(r)
                except Exception as e:
                    ctx.fail("raises", "is_nash raised on a valid profile: %r" % (e,), {"data": data, "profile": prof, "tol": tolv}, repr(e), None)
                    continue
                tq = TOL if tolv is None else frac(tolv)
                er = True
                for i in range(N):
                    opp = tuple(prof[(i + 1 + j) % N] for j in range(N - 1))
                    exp = exp_payoffs(data, N, nums, i, opp)
                    own = prof[i]
                    val = exp[own] if isinstance(own, int) else sum(frac(x) * e for x, e in zip(own.tolist(), exp))
                    if not val >= max(exp) - tq:
                        er = False
                mixed = any(not isinstance(a, int) for a in prof)
                ctx.case(("nash", tuple(nums), kind, repr(prof), tolv), nontrivial=nontriv(nums, mixed))
                ctx.count("is_nash:%s" % r)
                if r != er:
                    ctx.fail("is_nash", "is_nash differs from the best-response definition", {"data": data, "profile": prof, "tol": tolv}, r, er)
                nl.append(tup(actslit(prof), qlit(tq), blit(r)))
        nash_cases.append(tup(gamelit(GA), clist(nl, "list (action Q) * Q * bool"))); nash_meta.append({"data": data})
    for name, ctype, okf, cases, meta, what in [
            ("payoff_vector", "arr Q * list (list (action Q) * list Q)", "pv_ok", pv_cases, pv_meta, "payoff_vector"),
            ("best_response", "arr Q * list (list (action Q) * option (list Q) * Q * list nat * nat)", "br_ok", br_cases, br_meta, "best_response(s)"),
            ("is_best_response", "arr Q * list (action Q * list (action Q) * Q * bool)", "ibr_ok", ibr_cases, ibr_meta, "is_best_response"),
            ("is_nash", "game Q * list (list (action Q) * Q * bool)", "nash_ok", nash_cases, nash_meta, "is_nash")]:
        bad = ctx.coq_check(name, IMPORTS, ctype, okf, cases, chunk=max(1, len(cases) // 12), preamble=PRE)
        for i in bad:
            ctx.mismatch("C14.Model.%s vs normal_form_game.%s" % (name, what), meta[i])

    # ============================================================ 2b. explicit tolerances x near ties (oracle only)
    # payoffs that differ by 0, 1e-9, 5e-9, 1e-8, 2e-8 (exact binary64 values) and tolerances given explicitly, including
    # the exact tolerances 0 and 0.0: the verdict must use the tolerance actually passed
    DELTAS = [0.0, 1e-9, 5e-9, 1e-8, 2e-8, 0.0, 1.0]
    TOLS = [0, 0.0, 1e-12, 1e-8, 1e-3, None]
    EPS_B = Fraction(1, 10**15)

    def tolq(t):
        return TOL if t is None else frac(t)

    def within(vals, k, tq):
        """exact verdict 'vals[k] >= max - tol', None when it is within rounding of the threshold"""
        gap = vals[k] - (max(vals) - tq)
        return None if (gap != 0 and abs(gap) < EPS_B) else gap >= 0
    for it in range(60 if thorough else 24):
        N = rng.choice([1, 2, 2, 3])
        nums = [rng.randrange(2, 5)] + [rng.randrange(1, 4) for _ in range(N - 1)]
        base = rng.choice([0.0, 0.0, 1.0, -2.0])
        data = np.array([base - rng.choice(DELTAS) for _ in range(int(np.prod(nums)) * N)]).reshape(tuple(nums) + (N,))
        g = NormalFormGame(data)
        GA = game_arrays(g)
        ctx.count("near_tie_game:N=%d" % N)
        for i, p in enumerate(g.players):
            others = [(i + 1 + j) % N for j in range(N - 1)]
            for opp in itertools.product(*[range(nums[pl]) for pl in others]):
                arg = None if N == 1 else (opp[0] if N == 2 else opp)
                vals = exp_payoffs(data, N, nums, i, opp)
                for tolv in TOLS:
                    tq = tolq(tolv)
                    verd = [within(vals, k, tq) for k in range(nums[i])]
                    if None in verd:
                        ctx.count("near_tie:borderline (skipped)")
                        continue
                    ebrs = [k for k in range(nums[i]) if verd[k]]
                    info = {"data": data, "player": i, "opponents": opp, "tol": repr(tolv)}
                    ctx.case(("near_tie_br", it, i, opp, repr(tolv)), nontrivial=(len(set(vals)) > 1))
                    ctx.count("near_tie_tol:%r" % (tolv,))
                    try:
                        brs = nat_vec(W.call("Player.best_response(tie_breaking=False)", GA, lambda: p.best_response(arg, tie_breaking=False, tol=tolv)), nums[i])
                        br = nat_in(W.call("Player.best_response", GA, lambda: p.best_response(arg, tol=tolv)), nums[i])
                        ibr = [bool(W.call("Player.is_best_response", GA, lambda: p.is_best_response(k, arg, tol=tolv))) for k in range(nums[i])]
                    except Exception as e:
                        ctx.fail("raises", "best_response / is_best_response raised or returned a malformed value: %r" % (e,), info, repr(e), ebrs)
                        continue
                    if brs != ebrs or br != ebrs[0]:
                        ctx.fail("best_response_tolerance", "best_response(s) with an explicit tolerance and nearly tied payoffs differ from the definition with the tolerance passed",
                                 info, [brs, br], ebrs)
                    if ibr != [bool(v) for v in verd]:
                        ctx.fail("is_best_response_tolerance", "is_best_response with an explicit tolerance and nearly tied payoffs differs from the definition", info, ibr, verd)
        for prof in itertools.product(*[range(k) for k in nums]):
            for tolv in TOLS:
                tq = tolq(tolv)
                er = True
                for i in range(N):
                    opp = tuple(prof[(i + 1 + j) % N] for j in range(N - 1))
                    v = within(exp_payoffs(data, N, nums, i, opp), prof[i], tq)
                    er = None if (v is None or er is None) else (er and v)
                if er is None:
                    continue
                try:
                    r = bool(W.call("NormalFormGame.is_nash", GA, lambda: g.is_nash(prof, tol=tolv)))
                except Exception as e:
                    ctx.fail("raises", "is_nash raised: %r" % (e,), {"data": data, "profile": prof, "tol": repr(tolv)}, repr(e), er)
                    continue
                ctx.case(("near_tie_nash", it, prof, repr(tolv)), nontrivial=(N >= 2))
                if r != er:
                    ctx.fail("is_nash_tolerance", "is_nash with an explicit tolerance and nearly tied payoffs differs from the definition with the tolerance passed",
                             {"data": data, "profile": prof, "tol": repr(tolv)}, r, er)
    # domination margins 0, 1e-9, 5e-9, 1e-8, 2e-8: action 0 is beaten by action 1 by exactly delta against every opponent
    # profile, every further action is worse by at least 1 (so the value of the difference game is exactly delta)
    for it in range(40 if thorough else 16):
        nopp = rng.choice([0, 1, 1, 2])
        n0 = rng.randrange(2, 5)
        oshp = tuple(rng.randrange(1, 4) for _ in range(nopp))
        delta = rng.choice([0.0, 1e-9, 5e-9, 1e-8, 2e-8])
        row0 = np.array([rng.randrange(-3, 4) for _ in range(int(np.prod(oshp)))], dtype=float).reshape(oshp) if nopp else np.array(float(rng.randrange(-3, 4)))
        if rng.random() < 0.5:
            row0 = row0 * 0.0
        rows_ = [row0, row0 + delta] + [row0 - rng.randrange(1, 4) for _ in range(n0 - 2)]
        P = np.stack(rows_, axis=0)
        marg = min(frac(x) - frac(y) for x, y in zip(np.ravel(P[1]).tolist(), np.ravel(P[0]).tolist()))
        mx = max(frac(x) - frac(y) for x, y in zip(np.ravel(P[1]).tolist(), np.ravel(P[0]).tolist()))
        pl = Player(P)
        for tolv in TOLS:
            tq = tolq(tolv)
            if abs(marg - tq) <= Fraction(1, 10**9) * Fraction(1, 10):
                ctx.count("near_margin:threshold-tie (skipped)")
                continue
            exp0 = marg > tq
            for method in (None, "highs"):
                try:
                    with warnings.catch_warnings():
                        warnings.simplefilter("ignore")
                        r0 = bool(W.call("Player.is_dominated", [pl.payoff_array], lambda: pl.is_dominated(0, tol=tolv, method=method)))
                        da = [int(a) for a in W.call("Player.dominated_actions", [pl.payoff_array], lambda: pl.dominated_actions(tol=tolv, method=method))]
                except Exception as e:
                    ctx.fail("raises", "is_dominated / dominated_actions raised: %r" % (e,), {"payoff_array": P, "tol": repr(tolv), "method": method}, repr(e), exp0)
                    continue
                ctx.case(("near_margin", it, repr(tolv), method), nontrivial=(nopp >= 1))
                ctx.count("near_margin:%s" % ("dominated" if exp0 else "not dominated"))
                if method == "highs" and 0 < marg <= Fraction(1, 10**7) and tq < marg:
                    continue    # HiGHS' own feasibility tolerance (1e-7) exceeds these margins: only the minmax route is judged
                if r0 != exp0 or ((0 in da) != exp0):
                    ctx.fail("is_dominated_tolerance", "is_dominated / dominated_actions with an explicit tolerance and a domination margin near it differ from the definition with the tolerance passed",
                             {"payoff_array": P, "action": 0, "tol": repr(tolv), "method": method, "margin": float(marg)}, [r0, da], exp0)

    # ---- Player.random_choice(actions): a member of `actions` (also when they are not the leading block)
    for _ in range(60 if thorough else 25):
        n = rng.randrange(2, 6)
        pl = Player(rand_payoffs(rng, (n, rng.randrange(1, 4)), "int"))
        acts = sorted(rng.sample(range(n), rng.randrange(1, n + 1)))
        acts_arg = rng.choice([list, tuple, np.array])(acts)
        for seed in range(4):
            rsd = np.random.RandomState(seed) if seed % 2 else np.random.default_rng(seed)
            try:
                c = nat_in(pl.random_choice(actions=acts_arg, random_state=rsd), n, "random_choice(actions)")
                c0 = nat_in(pl.random_choice(random_state=rsd), n, "random_choice()")
            except Exception as e:
                ctx.fail("raises", "random_choice raised / returned a malformed value: %r" % (e,), {"num_actions": n, "actions": acts, "seed": seed}, repr(e), acts)
                continue
            ctx.case(("random_choice", n, tuple(acts), seed), nontrivial=(acts != list(range(len(acts)))))
            ctx.count("random_choice:" + ("leading block" if acts == list(range(len(acts))) else "non-leading actions"))
            if c not in acts:
                ctx.fail("random_choice", "random_choice(actions) returned an action that is not in `actions`", {"num_actions": n, "actions": acts, "seed": seed}, c, acts)

    # ============================================================ 3. domination
    dom_cases, dom_meta = [], []
    ndom = 120 if thorough else 45
    for di in range(ndom):
        nopp = rng.choice([0, 1, 1, 2, 2, 3])
        shp = tuple(rng.randrange(1, 6) for _ in range(nopp + 1))
        if np.prod(shp) > 130 and not thorough:
            shp = tuple(min(s, 3) for s in shp)
        kind = rng.choice(["int", "small", "dyadic"])
        if kind == "small":
            P = np.array([rng.randrange(-1, 2) for _ in range(int(np.prod(shp)))], dtype=float).reshape(shp)
        else:
            P = rand_payoffs(rng, shp, kind).astype(np.int64 if (kind == "int" and di % 7 == 0) else float)
        if shp[0] >= 3 and rng.random() < 0.4:     # plant an action dominated only by a mixture
            P = P.astype(float)
            P[0] = (P[1] + P[2]) / 2 - rng.choice([0.5, 0.0, -0.5, 0.125])
        pl = Player(P)
        methods = [None, "highs"] + (["simplex", "highs-ds"] if thorough or di % 3 == 0 else [])
        for tolv in (None, 0.25):
            tq = TOL if tolv is None else frac(tolv)
            res0 = None
            for method in methods:
                with warnings.catch_warnings():
                    warnings.simplefilter("ignore")
                    rs = [bool(W.call("Player.is_dominated", [pl.payoff_array], lambda: pl.is_dominated(a, tol=tolv, method=method))) for a in range(shp[0])]
                    da = W.call("Player.dominated_actions", [pl.payoff_array], lambda: pl.dominated_actions(tol=tolv, method=method))
                ctx.case(("dom", shp, kind, di, tolv, method), nontrivial=(nopp >= 1 and shp[0] >= 2), sample={"is_dominated": {"payoff_array": P, "tol": tolv, "method": method}, "impl": rs})
                if [int(a) for a in da] != [a for a in range(shp[0]) if rs[a]]:
                    ctx.fail("dominated_actions", "dominated_actions is not the list of actions with is_dominated", {"payoff_array": P, "tol": tolv, "method": method}, da, rs)
                for a in range(shp[0]):
                    verdict = dominated_oracle(P, a, tq)
                    ctx.count("dominated:%s" % verdict)
                    if verdict == "threshold-tie":
                        continue
                    if verdict is not None and verdict != rs[a]:
                        ctx.fail("is_dominated", "is_dominated differs from the definition (exists a mixed action doing better by more than tol against every opponent profile)",
                                 {"payoff_array": P, "action": a, "tol": tolv, "method": method}, rs[a], verdict)
                if res0 is None:
                    res0 = rs
                    dom_cases.append(tup(arrlit(P), qlit(tq), clist([blit(r) for r in rs], "bool")))
                    dom_meta.append({"payoff_array": P, "tol": tolv})
    bad = ctx.coq_check("is_dominated_bounds", IMPORTS, "arr Q * Q * list bool", "dom_ok", dom_cases, chunk=30, preamble=PRE)
    for i in bad:
        ctx.mismatch("C14.Model.is_dominated_0/dominated_by_pure/never_worse_somewhere vs Player.is_dominated", dom_meta[i])
    ch = max(1, len(dom_cases) // 14)
    bad = ctx.coq_check("is_dominated_minmax", IMPORTS_DOM, "arr Q * Q * list bool", "domv_ok", dom_cases, chunk=ch, preamble=PRE_DOM)
    for i in bad:
        ctx.mismatch("C14.Dominated.is_dominated (difference game + C04 minmax model, exact arithmetic) vs Player.is_dominated(method=None)", dom_meta[i])
    nb = ctx.coq_check("is_dominated_separated", IMPORTS_DOM, "arr Q * Q * list bool", "dom_border", dom_cases, chunk=ch, preamble=PRE_DOM)
    ctx.corr["is_dominated_separated"]["mismatches"] = 0
    ctx.count("dominated:arrays with a game value within 1e-9 of tol (not compared)", len(nb))
    nt = ctx.coq_check("is_dominated_theorem_hypothesis", IMPORTS_DOM, "arr Q * Q * list bool", "dom_thm", dom_cases, chunk=ch, preamble=PRE_DOM)
    ctx.corr["is_dominated_theorem_hypothesis"]["mismatches"] = 0
    ctx.count("dominated:arrays where the tolerance-0 minmax run does not end with status 0 or changes the verdict", len(nt))
    if nt:
        ctx.notes.append("C14_dominated_spec hypothesis (inner status 0) not met / verdict differs at tolerance 0 on: %s" % [jsonable(dom_meta[i]) for i in nt[:3]])

    # ============================================================ 6. hardening: dress, state, aliasing, options, errors (oracle only)
    hshapes = [(3,), (2, 3), (3, 1), (2, 3, 2), (1, 2, 3), (2, 2, 2, 2)] + ([(4, 3), (3, 2, 4), (2, 1, 3, 2), (5,)] if thorough else [])
    for nums in hshapes:
        N = len(nums)
        data = rand_payoffs(rng, tuple(nums) + (N,), "int").astype(float)
        probes = make_probes(rng, nums)
        canon_g = NormalFormGame(data.copy())
        try:
            canon = summarize(canon_g, probes)
        except Exception as e:
            ctx.fail("raises", "a public method raised on a valid game: %r" % (e,), {"data": data}, repr(e), None)
            continue
        # ---- class 1: the same game from other containers / dtypes / memory layouts
        arrs = [np.ascontiguousarray(np.transpose(data[..., i], tuple(range(i, N)) + tuple(range(i)))) for i in range(N)]
        for how in ARRAY_DRESS:
            for route in ("profile_array", "players"):
                ctx.count("dress:payoffs:%s" % how)
                try:
                    if route == "profile_array":
                        src = dress_array(data, how)
                        snap = np.array(src, dtype=float)
                        g2 = NormalFormGame(src)
                    else:
                        srcs = [dress_array(a, how) for a in arrs]
                        snap = [np.array(x, dtype=float) for x in srcs]
                        g2 = NormalFormGame([Player(x) for x in srcs])
                    got = summarize(g2, probes)
                except Exception as e:
                    ctx.fail("raises", "building / querying the game from payoffs given as %s (%s) raised %r" % (how, route, e), {"data": data, "dress": how, "route": route}, repr(e), None)
                    continue
                ctx.case(("dress_payoffs", tuple(nums), how, route), nontrivial=(N >= 2))
                d = first_diff(canon, got)
                if d:
                    ctx.fail("dress_payoffs", "the game built from payoffs given as %s (%s) answers differently from the float64 C-ordered one at %s" % (how, route, d),
                             {"data": data, "dress": how, "route": route, "where": d}, None, None)
                now = np.array(src, dtype=float) if route == "profile_array" else [np.array(x, dtype=float) for x in srcs]
                same = np.array_equal(now, snap) if route == "profile_array" else all(np.array_equal(x, y) for x, y in zip(now, snap))
                if not same:
                    ctx.fail("mutation", "querying a game changed the caller's payoff data (%s, %s)" % (how, route), {"call": "summarize", "dress": how, "route": route, "data": data}, None, None)
        # mixed actions / perturbations in other forms
        for i, pl in enumerate(canon_g.players):
            if N == 1:
                continue
            opp = probes["opps"][i][3]
            ref_pv = np.asarray(pl.payoff_vector(opp[0] if N == 2 else opp), dtype=float).tolist()
            pert = np.array([rng.randrange(-8, 9) / 8.0 for _ in range(nums[i])])
            ref_br = int(pl.best_response(opp[0] if N == 2 else opp, payoff_perturbation=pert))
            for how in ("list", "tuple", "float32", "view"):
                ctx.count("dress:mixed_action:%s" % how)
                dr = [dress_array(a, how) if how != "float32" else np.asarray(a, dtype=np.float32) for a in opp]
                snap = [np.array(x, dtype=float) for x in dr]
                arg = dr[0] if N == 2 else rng.choice([tuple, list])(dr)
                try:
                    pv = np.asarray(pl.payoff_vector(arg), dtype=float).tolist()
                    br = int(pl.best_response(arg, payoff_perturbation=dress_array(pert, how) if how != "float32" else pert.astype(np.float32)))
                except Exception as e:
                    ctx.fail("raises", "payoff_vector / best_response raised with mixed actions given as %s: %r" % (how, e), {"data": data, "player": i, "dress": how}, repr(e), ref_pv)
                    continue
                if pv != ref_pv or br != ref_br:
                    ctx.fail("dress_mixed_action", "mixed opponent actions / perturbation given as %s change the answer" % how, {"data": data, "player": i, "opponents": opp, "dress": how}, [pv, br], [ref_pv, ref_br])
                if not all(np.array_equal(np.array(x, dtype=float), y) for x, y in zip(dr, snap)):
                    ctx.fail("mutation", "payoff_vector / best_response changed the caller's mixed action", {"call": "payoff_vector", "dress": how, "data": data}, None, None)
        # ---- class 2: two games alive, modified in turn; after every step each must equal a FRESH game built from its data
        gA = NormalFormGame(data.copy())
        dataB = rand_payoffs(rng, tuple(nums) + (N,), "int").astype(float)
        gB = NormalFormGame(dataB.copy())
        curA, curB = data.copy(), dataB.copy()
        for step in range(4):
            which = rng.choice(["A", "B"])
            gX, cur = (gA, curA) if which == "A" else (gB, curB)
            a = tuple(rng.randrange(k) for k in nums)
            v = [float(rng.randrange(-9, 10)) for _ in range(N)]
            op = rng.choice(["set", "query", "write_returned"])
            ctx.count("seq:%s" % op)
            try:
                if op == "set":
                    if N == 1:
                        gX[a[0]] = v[0]
                    else:
                        gX[a] = v
                    cur[a] = v
                elif op == "write_returned":      # results handed out must not be live views of the game
                    ppa = gX.payoff_profile_array
                    ppa[...] = -12345.0
                    if N > 1:
                        item = gX[a]
                        item[...] = 999.0
                else:
                    summarize(gX, probes, with_dom=False)
                for name, gY, curY in (("A", gA, curA), ("B", gB, curB)):
                    d = first_diff(summarize(NormalFormGame(curY.copy()), probes, with_dom=False), summarize(gY, probes, with_dom=False))
                    if d:
                        ctx.fail("stale_state", "after '%s' on game %s, game %s answers differently from a fresh game built from its current payoffs at %s" % (op, which, name, d),
                                 {"data_A": data, "data_B": dataB, "step": step, "op": op, "profile": list(a), "value": v, "where": d}, None, None)
            except Exception as e:
                ctx.fail("raises", "a call sequence on two live games raised %r" % (e,), {"data_A": data, "data_B": dataB, "op": op}, repr(e), None)
            ctx.case(("seq_two_games", tuple(nums), step, op, which), nontrivial=(N >= 2))
        # ---- class 4: optional arguments omitted / explicit default / falsy-but-valid
        for i, pl in enumerate(canon_g.players):
            opp = probes["opps"][i][0]
            arg = None if N == 1 else (opp[0] if N == 2 else opp)
            zeros = np.zeros(nums[i])
            variants = {
                "best_response": [lambda: pl.best_response(arg), lambda: pl.best_response(arg, tie_breaking="smallest", payoff_perturbation=None, tol=None, random_state=None),
                                  lambda: pl.best_response(arg, tol=pl.tol), lambda: pl.best_response(arg, payoff_perturbation=zeros), lambda: pl.best_response(arg, payoff_perturbation=zeros.tolist()),
                                  lambda: pl.best_response(opponents_actions=arg)],
                "best_responses": [lambda: pl.best_response(arg, tie_breaking=False).tolist(), lambda: pl.best_response(arg, False, None, None).tolist(), lambda: pl.best_response(arg, tie_breaking=False, tol=pl.tol).tolist()],
                "is_best_response": [lambda: bool(pl.is_best_response(0, arg)), lambda: bool(pl.is_best_response(0, arg, None)), lambda: bool(pl.is_best_response(0, arg, tol=pl.tol)), lambda: bool(pl.is_best_response(own_action=0, opponents_actions=arg))],
                "is_dominated": [lambda: bool(pl.is_dominated(0)), lambda: bool(pl.is_dominated(0, tol=None, method=None)), lambda: bool(pl.is_dominated(0, tol=pl.tol)), lambda: bool(pl.is_dominated(action=0))],
                "dominated_actions": [lambda: list(pl.dominated_actions()), lambda: list(pl.dominated_actions(tol=None, method=None)), lambda: list(pl.dominated_actions(tol=pl.tol))],
                "delete_action": [lambda: pl.delete_action(0).payoff_array.tolist(), lambda: pl.delete_action(0, 0).payoff_array.tolist(), lambda: pl.delete_action(action=0, player_idx=0).payoff_array.tolist(),
                                  lambda: pl.delete_action(np.int64(0), np.int32(0)).payoff_array.tolist()] if nums[i] >= 2 else [],
            }
            for name, fns in variants.items():
                res = []
                for f in fns:
                    try:
                        res.append(f())
                    except Exception as e:
                        res.append("raised %r" % (e,))
                ctx.count("optional:%s" % name, len(fns))
                if any(r != res[0] for r in res[1:]) or (res and isinstance(res[0], str)):
                    ctx.fail("optional_argument", "%s: omitted / explicit default / equivalent arguments give different answers" % name, {"data": data, "player": i, "opponents": opp, "call": name}, res, None)
        prof = probes["profiles"][0]
        nres = [bool(canon_g.is_nash(prof)), bool(canon_g.is_nash(prof, None)), bool(canon_g.is_nash(prof, tol=canon_g.players[0].tol)), bool(canon_g.is_nash(action_profile=prof, tol=None))]
        gres = [to_gam(canon_g), to_gam(canon_g, None), to_gam(canon_g, file_path=None)]
        cres = [np.asarray(NormalFormGame(data).payoff_profile_array).tolist(), np.asarray(NormalFormGame(data, dtype=None).payoff_profile_array).tolist()]
        ctx.count("optional:is_nash/to_gam/constructor", 9)
        if len(set(nres)) != 1 or len(set(gres)) != 1 or cres[0] != cres[1]:
            ctx.fail("optional_argument", "is_nash / to_gam / NormalFormGame: omitted vs explicit default arguments differ", {"data": data}, [nres, gres[:1]], None)
        # tie_breaking='random': forms of random_state; equal seeds (Python int / NumPy ints) give equal answers
        for i, pl in enumerate(canon_g.players):
            opp = probes["opps"][i][0]
            arg = None if N == 1 else (opp[0] if N == 2 else opp)
            best = [int(k) for k in pl.best_response(arg, tie_breaking=False, tol=2.0)]
            outs = {}
            for form, mk in (("int", lambda: 7), ("np.int64", lambda: np.int64(7)), ("np.int32", lambda: np.int32(7)), ("RandomState", lambda: np.random.RandomState(7)),
                             ("Generator", lambda: np.random.default_rng(7)), ("None", lambda: None)):
                ctx.count("random_state:%s" % form)
                try:
                    outs[form] = [int(pl.best_response(arg, tie_breaking="random", tol=2.0, random_state=mk())) for _ in range(3)]
                except Exception as e:
                    ctx.fail("raises", "best_response(tie_breaking='random', random_state=%s) raised %r" % (form, e), {"data": data, "player": i, "random_state": form}, repr(e), best)
                    continue
                if any(k not in best for k in outs[form]):
                    ctx.fail("best_response_random", "best_response(tie_breaking='random') returned an action outside the tol-best-response set", {"data": data, "player": i, "random_state": form, "tol": 2.0}, outs[form], best)
            if "int" in outs and (outs.get("np.int64", outs["int"]) != outs["int"] or outs.get("np.int32", outs["int"]) != outs["int"] or outs.get("RandomState", outs["int"])[0] != outs["int"][0]):
                ctx.fail("random_state_forms", "the same seed given as Python int / NumPy int / RandomState(seed) gives different draws", {"data": data, "player": i}, outs, None)
    # ---- class 6: documented errors
    sq = np.arange(6.0).reshape(2, 3)
    g23 = NormalFormGame(np.zeros((2, 3, 2)))
    g1 = NormalFormGame([Player([1.0, 2.0, 3.0])])
    for label, excs, fn in [
            ("Player(scalar)", (ValueError,), lambda: Player(3.0)),
            ("Player(empty)", (ValueError,), lambda: Player(np.zeros((0, 2)))),
            ("NormalFormGame(non-square matrix)", (ValueError,), lambda: NormalFormGame(sq)),
            ("NormalFormGame(profile array, last axis != N)", (ValueError,), lambda: NormalFormGame(np.zeros((2, 3, 3)))),
            ("NormalFormGame(players with inconsistent shapes)", (ValueError,), lambda: NormalFormGame([Player(np.zeros((2, 3))), Player(np.zeros((2, 2)))])),
            ("NormalFormGame(players with different dtypes)", (ValueError,), lambda: NormalFormGame([Player(np.zeros((2, 2))), Player(np.zeros((2, 2), dtype=int))])),
            ("NormalFormGame(action count 0)", (ValueError,), lambda: NormalFormGame((2, 0))),
            ("g[profile of wrong length]", (IndexError,), lambda: g23[(0, 1, 0)]),
            ("g[non-sequence]", (TypeError,), lambda: g23[1]),
            ("1-player g[tuple]", (TypeError,), lambda: g1[(0,)]),
            ("g[a] = value of wrong length", (ValueError,), lambda: g23.__setitem__((0, 1), [1.0, 2.0, 3.0])),
            ("g[a] = scalar", (TypeError,), lambda: g23.__setitem__((0, 1), 1.0)),
            ("best_response(tie_breaking='largest')", (ValueError,), lambda: g23.players[0].best_response(0, tie_breaking="largest")),
            ("is_dominated(method='nosuchmethod')", (ValueError,), lambda: g23.players[0].is_dominated(0, method="nosuchmethod")),
            ("delete_action of the only action", (ValueError,), lambda: NormalFormGame(np.zeros((1, 2, 2))).delete_action(0, 0)),
            ("delete_action(player out of range)", (ValueError, IndexError), lambda: g23.delete_action(2, 0)),
            ("delete_action(action out of range)", (IndexError,), lambda: g23.delete_action(0, 2))]:
        expect_error(ctx, label, excs, fn)

    # ============================================================ 7. result aliasing across calls (oracle only)
    def expect_game(g, exp, tolq_, what, info):
        """every view of g shows the expected profile array exp (exact, or within tolq_)"""
        try:
            got = np.asarray(g.payoff_profile_array, dtype=float)
            okv = got.shape == exp.shape and (np.array_equal(got, exp) if tolq_ == 0 else np.allclose(got, exp, atol=tolq_, rtol=0))
            for i, pl in enumerate(g.players):
                N_ = g.N
                okv = okv and np.allclose(np.transpose(np.asarray(pl.payoff_array, dtype=float), tuple(range(N_ - i, N_)) + tuple(range(N_ - i))), exp[..., i], atol=tolq_, rtol=0)
        except Exception as e:
            got, okv = repr(e), False
        if not okv:
            ctx.fail("result_aliases_internal_state", what, info, got if isinstance(got, str) else got.tolist(), exp.tolist())
        return okv
    ashapes = [(3,), (2, 2), (3, 2), (1, 3), (2, 1), (2, 3, 2), (1, 2, 2)] + ([(4, 4), (2, 2, 2, 2), (3, 1, 2)] if thorough else [])
    for nums in ashapes:
        N = len(nums)
        data = rand_payoffs(rng, tuple(nums) + (N,), "int").astype(float)
        info = {"data": data, "nums": list(nums)}
        g = NormalFormGame(data.copy())
        K = Keeper(ctx, info)
        ctx.case(("alias", tuple(nums), repr(data.tolist())), nontrivial=(N >= 2))
        try:
            stored = [p.payoff_array for p in g.players]
            # payoff_profile_array, g[a]
            ppa1 = K.keep("payoff_profile_array", g.payoff_profile_array)
            ppa2 = K.keep("payoff_profile_array", g.payoff_profile_array)
            K.no_share("payoff_profile_array", ppa1, ppa2, "the array returned by the previous call")
            for st in stored:
                K.no_share("payoff_profile_array", ppa1, st, "a stored payoff array")
            profs = [tuple(rng.randrange(k) for k in nums) for _ in range(3)]
            items = [K.keep("g[a]", np.asarray(g[a] if N > 1 else g[a[0]])) for a in profs]
            for it_ in items:
                for st in stored:
                    K.no_share("g[a]", it_, st, "a stored payoff array") if it_.ndim else None
            # payoff_vector / best_response arrays for players with opponents (for a player WITHOUT opponents payoff_vector
            # returns the stored array itself: existing documented-by-code behaviour, recorded, not scribbled)
            for i, pl in enumerate(g.players):
                if N == 1:
                    ctx.count("alias_documented:payoff_vector of a 0-opponent player is the stored payoff_array")
                    continue
                others = [(i + 1 + j) % N for j in range(N - 1)]
                for rep in range(3):           # same shapes, different inputs
                    opp = tuple(dyadic_simplex(rng, nums[q]) if rep % 2 else rng.randrange(nums[q]) for q in others)
                    arg = opp[0] if N == 2 else opp
                    pv = K.keep("payoff_vector", pl.payoff_vector(arg))
                    brs = K.keep("best_response(tie_breaking=False)", pl.best_response(arg, tie_breaking=False))
                    for st in stored:
                        K.no_share("payoff_vector", pv, st, "a stored payoff array")
                    K.recheck("a later payoff_vector / best_response call")
            K.recheck("all queries")
            K.scribble()
            expect_game(g, data, 0, "overwriting arrays returned by payoff_profile_array / g[a] / payoff_vector / best_response changed the game", info)
            expect_game(NormalFormGame(data.copy()), data, 0, "a fresh game is wrong after results of another game were overwritten", info)
            # delete_action: the new game owns its arrays
            j = max(range(N), key=lambda q: nums[q])
            if nums[j] >= 2:
                g2 = g.delete_action(j, 0)
                exp2 = np.delete(data, 0, axis=j)
                for a2 in game_arrays(g2):
                    for st in stored:
                        K.no_share("delete_action", a2, st, "a payoff array of the original game")
                    a2[...] = -4242.0
                expect_game(g, data, 0, "overwriting the payoff arrays of the game returned by delete_action changed the original game", info)
                expect_game(g.delete_action(j, 0), exp2, 0, "delete_action is wrong after an earlier result was overwritten", info)
                p2 = g.players[j].delete_action(0)
                K.no_share("Player.delete_action", p2.payoff_array, stored[j], "the stored payoff array")
            # documented sharing, recorded only
            gs = NormalFormGame(list(g.players))
            if all(a is b for a, b in zip(gs.players, g.players)):
                ctx.count("alias_documented:NormalFormGame(players) shares the Player objects")
            base = np.zeros(tuple(nums[:1]) + tuple(nums[1:]))
            if np.shares_memory(Player(base).payoff_array, base):
                ctx.count("alias_documented:Player(C-contiguous ndarray) does not copy")
            # GAM round trip: players of the parsed game own separate data
            s_ = to_gam(g)
            gg = GAMReader.from_string(s_)
            ga = game_arrays(gg)
            for x in range(len(ga)):
                for y in range(x + 1, len(ga)):
                    K.no_share("from_gam", ga[x], ga[y], "another player's payoff array of the same parsed game")
            ga[0][...] = -99
            expect_game(GAMReader.from_string(s_), data, 0, "from_gam is wrong after the arrays of an earlier parse were overwritten", info)
            if N >= 2:
                exp_rest = np.asarray(gg.payoff_profile_array, dtype=float)[..., 1:]
                if not np.array_equal(exp_rest, data[..., 1:]):
                    ctx.fail("result_aliases_internal_state", "overwriting player 0's array of a parsed GAM game changed another player's payoffs", info, exp_rest.tolist(), data[..., 1:].tolist())
            expect_game(g, data, 0, "to_gam / from_gam changed the game", info)
        except Exception as e:
            ctx.fail("raises", "the aliasing probe hit an exception on a valid game: %r" % (e,), info, repr(e), None)
        # ---- polymatrix: from_nf -> to_nfg -> __setitem__ / scribble -> to_nfg
        if N < 2:
            continue
        try:
            pm0 = {(p_, q_): rand_payoffs(rng, (nums[p_], nums[q_]), "int").astype(float) for p_ in range(N) for q_ in range(N) if p_ != q_}
            pm0_snap = {k: v.copy() for k, v in pm0.items()}
            expP = np.zeros(tuple(nums) + (N,))
            for a in np.ndindex(*nums):
                for p_ in range(N):
                    expP[a + (p_,)] = sum(pm0[(p_, q_)][a[p_], a[q_]] for q_ in range(N) if q_ != p_)
            pinfo = {"polymatrix": {"%d,%d" % k: v for k, v in pm0_snap.items()}, "nums": list(nums)}
            for route in ("PolymatrixGame(dict)", "from_nf"):
                ctx.count("alias:polymatrix:" + route)
                K.info = dict(pinfo, route=route)
                if route == "from_nf":
                    src = NormalFormGame(expP.copy())
                    with warnings.catch_warnings():
                        warnings.simplefilter("ignore")
                        pmg = PolymatrixGame.from_nf(src)
                    for k, M in pmg.polymatrix.items():
                        for st in game_arrays(src):
                            K.no_share("from_nf", M, st, "a payoff array of the game it was built from")
                    tolp = 1e-9
                else:
                    pmg = PolymatrixGame(pm0, nums_actions=nums)
                    tolp = 0
                snap = {k: v.copy() for k, v in pmg.polymatrix.items()}
                h1 = pmg.to_nfg()
                h1b = pmg.to_nfg()
                for x in game_arrays(h1):
                    for k, M in pmg.polymatrix.items():
                        K.no_share("to_nfg", x, M, "pm.polymatrix[%r]" % (k,))
                    for y in game_arrays(h1b):
                        K.no_share("to_nfg", x, y, "a payoff array of the game returned by another to_nfg() call")
                expect_game(h1, expP, tolp, "to_nfg does not return the sums of the head-to-head payoffs", dict(pinfo, route=route))
                a = tuple(rng.randrange(k) for k in nums)
                h1[a] = [123.0 + q_ for q_ in range(N)]            # the caller edits the game it was given ...
                for x in game_arrays(h1b):
                    x[...] = -555.0                                 # ... and scribbles over another one
                if any(not np.array_equal(pmg.polymatrix[k], snap[k]) for k in snap):
                    ctx.fail("result_aliases_internal_state", "editing a game returned by to_nfg() (route %s) changed pm.polymatrix" % route, dict(pinfo, route=route, profile=list(a)), None, None)
                if any(not np.array_equal(pm0[k], pm0_snap[k]) for k in pm0):
                    ctx.fail("mutation", "PolymatrixGame changed the caller's matrices", dict(pinfo, call="PolymatrixGame", route=route), None, None)
                expect_game(pmg.to_nfg(), expP, tolp, "to_nfg() after editing the games returned by earlier to_nfg() calls (route %s) no longer returns the original payoffs" % route,
                            dict(pinfo, route=route, profile=list(a)))
                if route == "from_nf":
                    expect_game(src, expP, 0, "from_nf -> to_nfg -> __setitem__ changed the game from_nf was given", dict(pinfo, route=route))
        except AssertionError:
            ctx.count("alias:polymatrix:from_nf assertion (least squares noise)")
        except Exception as e:
            ctx.fail("raises", "the polymatrix aliasing probe hit an exception: %r" % (e,), {"nums": list(nums)}, repr(e), None)

    # ============================================================ 4. non-mutation around dynamics objects (observed only)
    from scipy.stats import norm
    # every position of a one-action player, one-player games (a transposed view of such an array is already contiguous,
    # so copy-avoiding helpers return the stored array itself), plus ordinary shapes
    dyn_shapes = [(2, 2), (3, 2), (2, 3, 2), (3,), (1,), (3, 1), (1, 4), (1, 1), (3, 1, 1), (1, 2, 3), (2, 1, 3), (2, 3, 1),
                  (1, 1, 2), (2, 2, 1, 2), (1, 3, 1, 1)]
    dyn_shapes += [tuple(rng.choice([1, 1, 2, 3, 4]) for _ in range(rng.randrange(1, 5))) for _ in range(25 if thorough else 4)]

    def quiet(label, arrays, fn, info):
        """watched call whose own exceptions (unsupported degenerate sizes) are only counted"""
        try:
            return W.call(label, arrays, fn, info)
        except Exception as e:
            ctx.count("dynamics_call_raised:%s:%s" % (label.split("(")[0], type(e).__name__))
            return None
    for nums in dyn_shapes:
        nums = list(nums)
        N = len(nums)
        data = rand_payoffs(rng, tuple(nums) + (N,), rng.choice(["int", "dyadic"]))
        if rng.random() < 0.7:
            data = data.astype(float)
        g = NormalFormGame(data)
        ctx.count("dynamics_game:" + ("one-player" if N == 1 else "has one-action player" if 1 in nums else "ordinary"))
        GA = game_arrays(g)
        rs = np.random.RandomState(rng.randrange(2**31))
        info = {"nums": nums}
        ld = quiet("LogitDynamics(g)", GA, lambda: gt.LogitDynamics(g, beta=rng.choice([0.5, 1.0, 4.0])), info)
        if ld is not None:
            quiet("LogitDynamics.play", GA, lambda: ld.play(num_reps=3, random_state=rs), info)
            quiet("LogitDynamics.time_series", GA, lambda: ld.time_series(4, random_state=rs), info)
        fp = quiet("FictitiousPlay(g)", GA, lambda: gt.FictitiousPlay(g), info)
        if fp is not None:
            quiet("FictitiousPlay.play", GA, lambda: fp.play(num_reps=3, random_state=rs), info)
            quiet("FictitiousPlay.time_series", GA, lambda: fp.time_series(3, random_state=rs), info)
        sfp = quiet("StochasticFictitiousPlay(g)", GA, lambda: gt.StochasticFictitiousPlay(g, distribution=norm()), info)
        if sfp is not None:
            quiet("StochasticFictitiousPlay.play", GA, lambda: sfp.play(num_reps=3, random_state=rs), info)
        # the other watched calls on the same (possibly degenerate) game
        prof0 = tuple(rng.randrange(k) for k in nums)
        quiet("NormalFormGame.is_nash", GA, lambda: g.is_nash(prof0), info)
        quiet("to_gam", GA, lambda: to_gam(g), info)
        quiet("payoff_profile_array", GA, lambda: g.payoff_profile_array, info)
        for i, pl in enumerate(g.players):
            opp = tuple(prof0[(i + 1 + j) % N] for j in range(N - 1))
            arg = None if N == 1 else (opp[0] if N == 2 else opp)
            quiet("Player.payoff_vector", GA, lambda: pl.payoff_vector(arg), info)
            quiet("Player.best_response(payoff_perturbation)", GA,
                  lambda: pl.best_response(arg, payoff_perturbation=np.array([rng.randrange(-8, 9) / 8.0 for _ in range(nums[i])])), info)
            quiet("Player.is_dominated", GA, lambda: pl.is_dominated(prof0[i]), info)
        jdel = rng.randrange(N)
        quiet("NormalFormGame.delete_action", GA, lambda: g.delete_action(jdel, prof0[jdel]), info)
        if N >= 2:
            quiet("PolymatrixGame.from_nf", GA, lambda: PolymatrixGame.from_nf(g, is_polymatrix=False), info)
        n = rng.randrange(1, 5)
        A = rand_payoffs(rng, (n, n), "dyadic")
        for cls, kw in [(gt.BRD, {}), (gt.KMR, {"epsilon": 0.3}), (gt.SamplingBRD, {"k": 2})]:
            dyn = quiet(cls.__name__ + "(A, N)", [A], lambda: cls(A, 4, **kw), {"A": A})
            if dyn is not None:
                quiet(cls.__name__ + ".play/time_series", [A, dyn.player.payoff_array],
                      lambda: (dyn.play(0, np.array([2] + [0] * (n - 2) + [2]) if n > 1 else np.array([4]), random_state=rs),
                               dyn.time_series(4, random_state=rs)), {"A": A})
        adj = np.array([[0, 1, 1], [1, 0, 1], [1, 1, 0]])
        li = quiet("LocalInteraction(A, adj)", [A], lambda: gt.LocalInteraction(A, adj), {"A": A})
        if li is not None:
            quiet("LocalInteraction.play/time_series", [A] + [p.payoff_array for p in li.players],
                  lambda: (li.play(num_reps=2), li.time_series(3, random_state=rs)), {"A": A})
        ctx.case(("dynamics", tuple(nums), repr(data.tolist())), nontrivial=True)
    # best_response with payoff_perturbation for players with 0, 1, 2 opponents
    for _ in range(30 if thorough else 12):
        nopp = rng.randrange(0, 3)
        shp = tuple(rng.randrange(1, 5) for _ in range(nopp + 1))
        for dt in (float, np.int64):
            P = rand_payoffs(rng, shp, "int").astype(dt)
            pl = Player(P)
            opp = None if nopp == 0 else (rng.randrange(shp[1]) if nopp == 1 else tuple(
                (dyadic_simplex(rng, s) if rng.random() < 0.5 else rng.randrange(s)) for s in shp[1:]))
            for pert in (np.array([rng.randrange(-8, 9) / 8.0 for _ in range(shp[0])]), np.array([rng.randrange(-3, 4) for _ in range(shp[0])])):
                W.call("Player.best_response(payoff_perturbation)", [pl.payoff_array],
                       lambda: pl.best_response(opp, payoff_perturbation=pert), {"num_opponents": nopp, "dtype": str(np.dtype(dt)), "payoff_array": P})
            ctx.case(("br_pert", nopp, shp, str(dt), repr(P.tolist())), nontrivial=True)
    ctx.count("non_mutation_calls_watched", W.n)

    # ============================================================ 5. GAM number formatting (observed only)
    fmt_games = []
    hard = [0.1 + 0.2, 1 / 3, 2 / 3, 1e-5 / 3, 1e20 / 7, -1.1234567890123457, 5e-324, 1.7976931348623157e308, 123456.78901234567, 1.0, -0.0, 1e16, 1e-7]
    for nums in [(2, 2), (2, 3, 2), (3, 1, 2, 2)] + ([(4, 5, 3)] if thorough else []):
        N = len(nums)
        d = np.array([rng.choice(hard + [rng.uniform(-1, 1), rng.random() * 1e-3]) for _ in range(int(np.prod(nums)) * N)]).reshape(tuple(nums) + (N,))
        fmt_games.append(("17-digit floats", NormalFormGame(d)))
    for nums in [(40, 30), (11, 10, 10), (5, 5, 5, 5)] + ([(1001, 1), (34, 31)] if thorough else []):
        N = len(nums)
        n = int(np.prod(nums)) * N
        fmt_games.append((">1000 entries, floats", NormalFormGame((np.arange(n) / 7.0 - 3).reshape(tuple(nums) + (N,)))))
        fmt_games.append((">1000 entries, ints", NormalFormGame((np.arange(n) * 7919 % 2003 - 1000).reshape(tuple(nums) + (N,)))))
    fmt_games.append(("large ints", NormalFormGame(np.array([[[2**40 + 1, -2**53 - 1], [7, 123456789012]], [[0, -1], [99999999, 2**62]]]))))
    for label, g in fmt_games:
        GA = game_arrays(g)
        ref = np.array(g.payoff_profile_array)
        info = {"format": label, "nums_actions": list(g.nums_actions)}
        ctx.case(("gam_format", label, tuple(g.nums_actions)), nontrivial=True)
        ctx.count("gam_format:" + label)
        for via in ("string", "file"):
            try:
                if via == "string":
                    s = W.call("to_gam", GA, lambda: to_gam(g), info)
                    g2 = GAMReader.from_string(s)
                else:
                    with tempfile.TemporaryDirectory() as td:
                        path = os.path.join(td, "g.gam")
                        W.call("to_gam(file)", GA, lambda: GAMWriter.to_file(g, path), info)
                        g2 = from_gam(path)
                back = np.array(g2.payoff_profile_array)
                okb = back.shape == ref.shape and np.array_equal(back, ref) and (np.signbit(back.astype(float)) == np.signbit(ref.astype(float))).all()
            except Exception as e:
                back, okb = repr(e), False
            if not okb:
                bad_at = None
                if isinstance(back, np.ndarray) and back.shape == ref.shape:
                    w = np.argwhere(back != ref)
                    bad_at = {"profile": w[0].tolist(), "written": repr(ref[tuple(w[0])]), "read": repr(back[tuple(w[0])])} if len(w) else None
                ctx.fail("gam_number_format", "to_gam/from_gam does not restore the payoffs exactly (%s, via %s)" % (label, via),
                         dict(info, via=via, payoffs=ref.tolist() if ref.size <= 64 else "arange-based, see harness"), bad_at if bad_at else back, "identical payoffs")


def pmlit(pm, nums):
    """polymatrix dict -> list (list (arr Q)), entry [p][q]; diagonal entries are dummies"""
    N = len(nums)
    rows = []
    for p in range(N):
        rows.append("[" + "; ".join(arrlit(np.asarray(pm[(p, q)])[:nums[p], :nums[q]]) if p != q else "(@nil nat, @nil Q)" for q in range(N)) + "]")
    return "[" + "; ".join(rows) + "]"


def is_polymatrix_exact(ref, nums):
    """exact test: u_p(a) is a sum of functions of (a_p, a_q): all mixed second differences in two opponents vanish"""
    N = len(nums)
    if N <= 2:
        return True
    for p in range(N):
        others = [q for q in range(N) if q != p]
        for a in ref:
            for q1, q2 in itertools.combinations(others, 2):
                if a[q1] == 0 or a[q2] == 0:
                    continue
                b = list(a); b[q1] = 0
                c = list(a); c[q2] = 0
                e = list(a); e[q1] = 0; e[q2] = 0
                if ref[a][p] - ref[tuple(b)][p] - ref[tuple(c)][p] + ref[tuple(e)][p] != 0:
                    return False
    return True


def oracle_views(ctx, g, ref, desc, tol):
    """independent check: every view of g shows the reference payoffs (dict profile -> payoffs per player)"""
    N = g.N
    nums = tuple(g.nums_actions)
    prof = g.payoff_profile_array

    def close(x, y):
        x = frac(x)
        return x == y if tol == 0 else abs(x - y) <= tol * (1 + abs(y))
    if set(ref.keys()) != set(np.ndindex(*nums)) or prof.shape != nums + (N,):
        ctx.fail("views", "set of action profiles differs from the reference", dict(desc, nums_now=list(nums)), list(prof.shape), sorted(ref.keys())[:5])
        return
    for a in np.ndindex(*nums):
        item = g[a] if N > 1 else [g[int(a[0])]]
        # the same profile given as NumPy integers / list / integer array must read the same payoffs
        alt_key = dress_profile(ctx.rng, a) if N > 1 else dress_action(ctx.rng, a[0])
        try:
            alt = g[alt_key] if N > 1 else [g[alt_key]]
            same = np.shape(alt) == (N,) and all(frac(x) == frac(y) for x, y in zip(np.asarray(alt).tolist(), np.asarray(item).tolist()))
        except Exception as e:
            alt, same = repr(e), False
        if not same:
            ctx.fail("getitem_integer_types", "g[profile] with the profile given as %s differs from g[tuple of ints]" % type(alt_key).__name__,
                     dict(desc, profile=list(a), passed_as=type(alt_key).__name__), alt, item)
            return
        for i in range(N):
            rot = tuple(a[i:]) + tuple(a[:i])
            views = {"payoff_profile_array": prof[a][i], "g[a]": item[i], "players[i].payoff_array": g.players[i].payoff_array[rot],
                     "payoff_arrays[i]": g.payoff_arrays[i][rot]}
            for name, v in views.items():
                if not close(v, ref[a][i]):
                    ctx.fail("views", "view %s shows a different payoff than the game was given" % name,
                             dict(desc, profile=list(a), player=i, view=name), v, ref[a][i])
                    return


def dominated_oracle(P, a, tol):
    """exact verdict by weak-duality certificates: True if some mixed action over the other actions beats action a by
    more than tol against every opponent profile, False if some opponent mixture caps every other action's advantage at
    <= tol, None if the float LP solutions do not certify either (counted)."""
    from scipy.optimize import linprog
    P = np.asarray(P)
    n = P.shape[0]
    if P.ndim == 1:
        gap = max(frac(x) for x in P.tolist()) - frac(P[a]) - tol
        if gap != 0 and abs(gap) <= Fraction(1, 10**9) * (1 + max(abs(frac(x)) for x in P.tolist())):   # gap == 0: one exact float addition, no rounding
            return "threshold-tie"
        return bool(gap > 0)
    if n == 1:
        return False
    M = P.reshape(n, -1)
    D = [[frac(M[k, j]) - frac(M[a, j]) for j in range(M.shape[1])] for k in range(n) if k != a]
    m, w = len(D), M.shape[1]
    Df = np.array([[float(x) for x in r] for r in D])
    # primal: max v s.t. sigma'D_j >= v
    res = linprog(np.r_[np.zeros(m), -1.0], A_ub=np.c_[-Df.T, np.ones(w)], b_ub=np.zeros(w), A_eq=np.r_[np.ones(m), 0.0][None, :], b_eq=[1.0],
                  bounds=[(0, None)] * m + [(None, None)], method="highs")
    lo = hi = None
    if res.success:
        s = [max(frac(x), 0) for x in res.x[:m]]
        tot = sum(s)
        if tot > 0:
            # snap to small denominators when possible (exact optimum of integer games), else keep the float vertex
            for cand in ([Fraction(x / tot).limit_denominator(10**6) for x in s], [x / tot for x in s]):
                if sum(cand) == 1:
                    v = min(sum(cand[k] * D[k][j] for k in range(m)) for j in range(w))
                    lo = v if lo is None else max(lo, v)
    res2 = linprog(np.r_[np.zeros(w), 1.0], A_ub=np.c_[Df, -np.ones(m)], b_ub=np.zeros(m), A_eq=np.r_[np.ones(w), 0.0][None, :], b_eq=[1.0],
                   bounds=[(0, None)] * w + [(None, None)], method="highs")
    if res2.success:
        y = [max(frac(x), 0) for x in res2.x[:w]]
        tot = sum(y)
        if tot > 0:
            for cand in ([Fraction(x / tot).limit_denominator(10**6) for x in y], [x / tot for x in y]):
                if sum(cand) == 1:
                    v = max(sum(D[k][j] * cand[j] for j in range(w)) for k in range(m))
                    hi = v if hi is None else min(hi, v)
    # threshold tie: the exact value of the difference game is within 1e-9 (relative to the payoff scale) of tol; the
    # floating-point value returned by minmax / linprog may fall on either side: not judged
    eps = Fraction(1, 10**9) * (1 + max(abs(frac(x)) for x in P.ravel().tolist()))
    if (lo is not None and abs(lo - tol) <= eps) or (hi is not None and abs(hi - tol) <= eps):
        return "threshold-tie"
    if lo is not None and lo > tol:
        return True
    if hi is not None and hi <= tol:
        return False
    return None


def replay(data):
    from quantecon.game_theory import Player, NormalFormGame
    first = data.get("first") or (data.get("mismatches") or [{}])[0]
    print("replay:", json.dumps(first)[:3000])
    inp = first.get("input", {})
    try:
        if "payoff_array" in inp and "action" in inp:
            P = np.array(inp["payoff_array"])
            r = Player(P).is_dominated(inp["action"], tol=inp.get("tol"), method=inp.get("method"))
            print("is_dominated ->", r, "; exact verdict:", dominated_oracle(P, inp["action"], frac(inp["tol"]) if inp.get("tol") is not None else frac(1e-8)))
        elif "data" in inp and "player" in inp and "opponents" in inp:
            d = np.array(inp["data"]); N = d.ndim - 1
            g = NormalFormGame(d)
            opp = [o if isinstance(o, int) else np.array(o) for o in inp["opponents"]]
            arg = None if N == 1 else (opp[0] if N == 2 else tuple(opp))
            print("payoff_vector ->", g.players[inp["player"]].payoff_vector(arg), "; expected:",
                  [float(x) for x in exp_payoffs(d, N, list(d.shape[:-1]), inp["player"], opp)])
        elif "call" in inp:
            print("mutation of a stored payoff array was observed around:", inp["call"])
    except Exception as e:
        print("replay could not re-run the input:", repr(e))
    return 0

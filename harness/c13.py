"""C13: AR(1) discretisations (tauchen, rouwenhorst) and chain estimation (estimate_mc, fit_discrete_mc)
match their defining formulas."""
import math, warnings, itertools
import numpy as np
from common import *

IMPORTS = "From QE Require Import C16.Model C13.Model."
PRE = """
Definition oQ_eqb (a b : option Q) : bool :=
  match a, b with None, None => true | Some x, Some y => Qeq_bool x y | _, _ => false end.
Definition cell_eqb (a b : cell) : bool := oQ_eqb (fst a) (fst b) && oQ_eqb (snd a) (snd b).
Definition cells_eqb := list_eqb (list_eqb cell_eqb).
"""
FINISH = dict(level="proof", technique_note=(
    "Coq theorems (coq/C13/Props.v) about the executable exact-rational model coq/C13/Model.v (tauchen with the normal cdf "
    "as a Section variable); model evaluated by vm_compute on the implementation's inputs: Rouwenhorst matrix and grid (1e-12), "
    "Tauchen cdf arguments exactly (Phi = 0.5 erfc(-x/sqrt 2) evaluated by the harness on them, 1e-13), estimate_mc / "
    "fit_discrete_mc states exactly and P to 1e-15; independent numpy/mpmath oracle on the implementation's output. "
    "non-trivial = n>=3 / sequences with >=2 distinct states"))

T12 = "(1 # 1000000000000)"
T15 = "(1 # 1000000000000000)"
PYTH = [(3, 5), (4, 5), (5, 13), (12, 13), (7, 25), (24, 25), (8, 17), (15, 17)]


def draw_ar1(rng):
    """rho Pythagorean rational of either sign (or 0); sigma with rational stationary std; mu rational"""
    if rng.random() < 0.12:
        rho = Fraction(0); root = Fraction(1)
    else:
        a, c = rng.choice(PYTH)
        rho = Fraction(a, c) * rng.choice([1, -1])
        root = Fraction(int(round(math.sqrt(c * c - a * a))), c)      # sqrt(1-rho^2), rational
    std_y = Fraction(rng.randrange(1, 41), rng.choice([1, 2, 4, 8, 10]))
    sigma = std_y * root
    mu = Fraction(rng.randrange(-40, 41), rng.choice([1, 2, 4, 5]))
    return rho, sigma, std_y, mu


def phi_float(x):
    return 0.5 * math.erfc(-x / math.sqrt(2))


# ------------------------------------------------------------------ hardening helpers: dress / non-mutation / optional arguments
def snapshot(v):
    if isinstance(v, np.ndarray):
        return np.array(v, copy=True)
    if isinstance(v, (list, tuple)):
        return type(v)(snapshot(x) for x in v)
    return v


def unchanged(v, snap):
    if isinstance(v, np.ndarray):
        return v.dtype == snap.dtype and v.shape == snap.shape and bool(np.array_equal(v, snap))
    if isinstance(v, (list, tuple)):
        return type(v) == type(snap) and len(v) == len(snap) and all(unchanged(a, b) for a, b in zip(v, snap))
    return v == snap


def mc_pair(mc):
    return (np.asarray(mc.P, dtype=float), np.asarray(mc.state_values, dtype=float))


def dress_call(ctx, fname, form, fn, ref, inputs, tol=1e-12, detail=None):
    """fn() -> MarkovChain; must not raise, must equal the canonical call `ref` = (P, state_values), must leave inputs unchanged
    and must not return memory shared with an input"""
    ctx.count("dress:" + form); ctx.count("dress_fn:" + fname)
    inp = {"function": fname, "dress": form, "detail": jsonable(detail)}
    ctx.case(("dress", fname, form, json.dumps(jsonable(detail), sort_keys=True)), nontrivial=True)
    snaps = [snapshot(v) for v in inputs]
    try:
        with warnings.catch_warnings():
            warnings.simplefilter("ignore")
            P, sv = mc_pair(no_cache_race(fn))
    except Exception as e:      # noqa
        ctx.fail("raises_on_admissible_input", "%s raised %s on %s: %s" % (fname, type(e).__name__, form, str(e)[:150]), inp, type(e).__name__, "a value")
        return None
    if P.shape != ref[0].shape or sv.shape != ref[1].shape or not np.allclose(P, ref[0], rtol=tol, atol=tol) or not np.allclose(sv, ref[1], rtol=tol, atol=tol * (1 + np.max(np.abs(ref[1])))):
        ctx.fail("dress_result", "%s with %s differs from the canonical call" % (fname, form), inp, [P.ravel()[:4].tolist(), sv.ravel()[:4].tolist()],
                 [ref[0].ravel()[:4].tolist(), ref[1].ravel()[:4].tolist()])
    if not all(unchanged(v, s) for v, s in zip(inputs, snaps)):
        ctx.fail("input_mutated", "%s modified an argument (%s)" % (fname, form), inp, None, None)
    def arrays(v):
        return [v] if isinstance(v, np.ndarray) else ([a for x in v for a in arrays(x)] if isinstance(v, (list, tuple)) else [])
    if any(np.shares_memory(P, a) or np.shares_memory(sv, a) for v in inputs for a in arrays(v)):
        ctx.fail("result_aliases_input", "%s returned memory shared with an argument" % fname, inp, None, None)
    return (P, sv)


# ------------------------------------------------------------------ result aliasing across calls (keep-and-recheck / scribble / shares_memory)
def _arrays_of(r):
    """all ndarrays reachable from a result: arrays, tuples/lists of arrays, MarkovChain-like objects (P, state_values)"""
    if isinstance(r, np.ndarray):
        return [r]
    if isinstance(r, (tuple, list)):
        return [a for x in r for a in _arrays_of(x)]
    if hasattr(r, "P") and hasattr(r, "state_values"):
        return [a for a in (r.P, r.state_values) if isinstance(a, np.ndarray)]
    return []


def _same(a, b):
    return a.shape == b.shape and bool(np.array_equal(a, b, equal_nan=True) if a.dtype.kind not in "fc" else np.allclose(a, b, rtol=1e-13, atol=1e-300, equal_nan=True))


def alias_probe(ctx, fname, label, call, others=(), make=None, guards=(), inp=None):
    """call(obj) -> result; make() -> fresh object with equal parameters (None for plain functions); others: closures making LATER calls with
    the same shapes but different inputs (buffers are usually cached per shape); guards: closures returning arrays (attributes / arguments)
    that must be unchanged and must not share memory with results."""
    inp = dict(inp or {}, function=fname, aliasing=label)
    ctx.count("alias:" + fname); ctx.case(("alias", fname, label, json.dumps(jsonable(inp), sort_keys=True)[:300]), nontrivial=True)
    try:
        with warnings.catch_warnings():
            warnings.simplefilter("ignore")
            call_, make_ = call, make
            call = lambda o: no_cache_race(lambda: call_(o))
            if make_:
                make = lambda: no_cache_race(make_)
            obj = make() if make else None
            g0 = [np.array(g(obj), copy=True) for g in guards]
            r1 = _arrays_of(call(obj)); c1 = [np.array(a, copy=True) for a in r1]
            for oc in others:
                oc(obj)
            r2 = _arrays_of(call(obj))
            if not (len(r1) == len(r2) and all(_same(a, c) for a, c in zip(r2, c1))):
                ctx.fail("result_changes_on_repeat", "%s (%s): a repeated call returns different values" % (fname, label), inp, [a.ravel()[:4].tolist() for a in r2][:2], [a.ravel()[:4].tolist() for a in c1][:2])
            if not all(_same(a, c) for a, c in zip(r1, c1)):
                ctx.fail("result_overwritten_by_later_call", "%s (%s): an array returned earlier was changed by later calls" % (fname, label), inp,
                         [a.ravel()[:4].tolist() for a in r1][:2], [a.ravel()[:4].tolist() for a in c1][:2])
            if any(np.shares_memory(a, b) for a in r1 for b in r2):
                ctx.fail("results_alias_each_other", "%s (%s): results of two calls share memory" % (fname, label), inp, None, None)
            garr = [g(obj) for g in guards]
            if any(isinstance(g, np.ndarray) and np.shares_memory(a, g) for a in r1 + r2 for g in garr):
                ctx.fail("result_aliases_internal_state", "%s (%s): a result shares memory with an argument / stored attribute" % (fname, label), inp, None, None)
            # scribble over everything that was returned, then ask again (same object and a fresh one)
            for a in r1 + r2:
                if a.flags.writeable:
                    a[...] = (-7 if a.dtype.kind in "iu" else -12345.678)
            if not all(_same(np.asarray(g(obj)), s) for g, s in zip(guards, g0)):
                ctx.fail("result_aliases_internal_state", "%s (%s): editing a returned array in place changed an argument / stored attribute" % (fname, label), inp, None, None)
            r3 = _arrays_of(call(obj))
            r4 = _arrays_of(call(make())) if make else r3
            for tag, rr in (("the same object", r3), ("a fresh object with equal parameters", r4)):
                if not (len(rr) == len(c1) and all(_same(a, c) for a, c in zip(rr, c1))):
                    ctx.fail("result_aliases_internal_state", "%s (%s): after the caller edited a returned array in place, a later call on %s returns corrupted values" % (fname, label, tag),
                             inp, [a.ravel()[:4].tolist() for a in rr][:2], [a.ravel()[:4].tolist() for a in c1][:2])
    except Exception as e:      # noqa
        ctx.fail("raises_on_admissible_input", "%s (%s) raised %s during the aliasing probe: %s" % (fname, label, type(e).__name__, str(e)[:150]), inp, type(e).__name__, "a value")


def no_cache_race(fn, tries=4):
    """The numba on-disk cache (NUMBA_CACHE_DIR) is shared by concurrently running checks; a transient OSError raised while numba reads or
    writes its index there is infrastructure noise, not behaviour of the implementation: retry; a persistent OSError is still raised."""
    import time as _t
    for k in range(tries):
        try:
            return fn()
        except OSError as e:
            if k == tries - 1 or "numba" not in str(e).lower():
                raise
            _t.sleep(0.5 * (k + 1))


def guarded(ctx, inp, fn):
    """run the implementation; an exception on an admissible input is itself a violation"""
    try:
        return no_cache_race(fn)
    except Exception as e:       # noqa
        ctx.fail("raises_on_admissible_input", "%s raised %s: %s" % (inp.get("function"), type(e).__name__, str(e)[:200]), inp, type(e).__name__, "a value")
        return None


def run(ctx):
    from quantecon.markov.approximation import rouwenhorst, tauchen
    from quantecon.markov.estimate import estimate_mc, fit_discrete_mc
    import mpmath
    mpmath.mp.dps = 40
    thorough = ctx.tier == "thorough"
    rng = ctx.rng
    ctx.proofs()
    warnings.simplefilter("ignore")

    # ================= rouwenhorst
    ns = list(range(2, 10)) + [39, 40] + [rng.randrange(2, 41) for _ in range(120 if thorough else 30)] + [5, 5, 5, 9, 9]   # repeated n with other parameters: stale per-n caches
    cases, meta, fcases, fmeta = [], [], [], []
    for n in ns:
        rho, sigma, std_y, mu = draw_ar1(rng)
        inp = {"function": "rouwenhorst", "n": n, "rho": str(rho), "sigma": str(sigma), "mu": str(mu)}
        mc = guarded(ctx, inp, lambda: rouwenhorst(n, float(rho), float(sigma), float(mu)))
        if mc is None:
            continue
        P = np.asarray(mc.P); y = np.asarray(mc.state_values, float)
        ctx.count("rouw:n=%s" % ("2" if n == 2 else "3-9" if n < 10 else "10-40")); ctx.count("rouw:rho" + ("<0" if rho < 0 else "=0" if rho == 0 else ">0"))
        ctx.case(("rouw", n, str(rho), str(sigma), str(mu)), nontrivial=(n >= 3), sample={"rouwenhorst": inp, "grid": y[:3].tolist()})
        # ---- oracle (floats, scale-aware tolerances)
        r, s, m = float(rho), float(sigma), float(mu)
        sc = 1 + abs(m / (1 - r)) + float(std_y) * math.sqrt(n - 1)
        if P.shape != (n, n) or y.shape != (n,) or P.min() < 0 or np.max(np.abs(P.sum(1) - 1)) > 1e-12:
            ctx.fail("rouwenhorst_stochastic", "not an n x n stochastic matrix", inp, P.sum(1).tolist(), None)
            continue
        psi = float(std_y) * math.sqrt(n - 1)
        grid = np.array([-psi + 2 * psi * i / (n - 1) for i in range(n)]) + m / (1 - r)
        if np.max(np.abs(y - grid)) > 1e-12 * sc:
            ctx.fail("rouwenhorst_grid", "grid is not evenly spaced +-sd*sqrt(n-1) around mu/(1-rho)", inp, y.tolist()[:6], grid.tolist()[:6])
        cm = P @ y
        if np.max(np.abs(cm - (m + r * y))) > 1e-11 * sc:
            ctx.fail("rouwenhorst_cond_mean", "conditional mean != mu + rho*y_i", inp, cm.tolist()[:6], (m + r * y).tolist()[:6])
        cv = np.array([np.dot(P[i], (y - cm[i]) ** 2) for i in range(n)])
        if np.max(np.abs(cv - s * s)) > 1e-10 * (sc * sc):
            ctx.fail("rouwenhorst_cond_var", "conditional variance != sigma^2", inp, cv.tolist()[:6], s * s)
        pi = np.array([math.comb(n - 1, j) for j in range(n)], float) / 2.0 ** (n - 1)
        if np.max(np.abs(pi @ P - pi)) > 1e-13:
            ctx.fail("rouwenhorst_stationary", "Binomial(n-1,1/2) is not stationary", inp, (pi @ P)[:6].tolist(), pi[:6].tolist())
        um = float(np.dot(pi, y)); uv = float(np.dot(pi, (y - um) ** 2))
        if abs(um - m / (1 - r)) > 1e-11 * sc or abs(uv - s * s / (1 - r * r)) > 1e-10 * sc * sc:
            ctx.fail("rouwenhorst_uncond", "unconditional mean/variance != mu/(1-rho), sigma^2/(1-rho^2)", inp, [um, uv], [m / (1 - r), s * s / (1 - r * r)])
        # ---- correspondence: psi as the code computes it (a float square root) is an input of the model
        psi_f = math.sqrt(float(sigma) ** 2 / (1 - float(rho) ** 2)) * float(np.sqrt(n - 1))
        fcases.append(tup("%d%%nat" % n, flit(float(rho)) + "%float", flit(psi_f) + "%float", flit(float(mu)) + "%float", flist2(P.tolist()), flist(y.tolist())))
        fmeta.append(inp)
        if n <= 9:      # exact-rational instance (the one the theorems are about); larger n only through the float instance
            cases.append(tup("%d%%nat" % n, qlit(rho), qlit(frac(psi_f)), qlit(mu), qlist2([[frac(v) for v in row] for row in P]), qlist([frac(v) for v in y])))
            meta.append(inp)
    ok = ("fun c => let '(n, rho, psi, mu, P, y) := c in match rouwenhorst n rho psi mu with "
          "Some (Pm, ym) => Fss_eqb Pm P && Fs_eqb ym y | None => false end")
    bad = ctx.coq_check("rouwenhorst_float_bitexact", IMPORTS, "nat * float * float * float * list (list float) * list float", ok, fcases, chunk=4, preamble=PRE)
    for i in bad:
        ctx.mismatch("C13.Model.rouwenhorst at NumF (bit-exact) vs approximation.rouwenhorst", fmeta[i])
    ok = ("fun c => let '(n, rho, psi, mu, P, y) := c in match rouwenhorst n rho psi mu with "
          "Some (Pm, ym) => Qss_close %s Pm P && Qs_close %s ym y | None => false end" % (T12, T12))
    bad = ctx.coq_check("rouwenhorst_exact", IMPORTS, "nat * Q * Q * Q * list (list Q) * list Q", ok, cases, chunk=3, preamble=PRE)
    for i in bad:
        ctx.mismatch("C13.Model.rouwenhorst at NumQ (recursive matrix, grid) vs approximation.rouwenhorst", meta[i])
    for n in (0, 1):
        try:
            rouwenhorst(n, 0.5, 1.0); raised = False
        except Exception:
            raised = True
        ctx.case(("rouw_bad", n), nontrivial=False); ctx.count("rouw:n<2")
        if not raised:
            ctx.fail("rouwenhorst_rejects", "n < 2 accepted", {"function": "rouwenhorst", "n": n}, "value", "exception")

    # ================= tauchen
    ns = list(range(2, 8)) + [39, 40] + [rng.randrange(2, 41) for _ in range(90 if thorough else 22)] + [5, 5, 5, 9, 9]
    cases, meta = [], []
    for n in ns:
        rho, sigma, std_y, mu = draw_ar1(rng)
        n_std = rng.randrange(1, 6)
        inp = {"function": "tauchen", "n": n, "rho": str(rho), "sigma": str(sigma), "mu": str(mu), "n_std": n_std}
        mc = guarded(ctx, inp, lambda: tauchen(n, float(rho), float(sigma), float(mu), n_std))
        if mc is None:
            continue
        P = np.asarray(mc.P); y = np.asarray(mc.state_values, float)
        ctx.count("tauchen:n_std=%d" % n_std); ctx.count("tauchen:rho" + ("<0" if rho < 0 else "=0" if rho == 0 else ">0"))
        ctx.case(("tauchen", n, str(rho), str(sigma), str(mu), n_std), nontrivial=(n >= 3), sample={"tauchen": inp, "P00": float(P[0, 0])})
        if P.shape != (n, n) or y.shape != (n,) or P.min() < 0 or P.max() > 1 or np.max(np.abs(P.sum(1) - 1)) > 1e-12:
            ctx.fail("tauchen_stochastic", "not an n x n stochastic matrix", inp, P.sum(1).tolist()[:6], None)
            continue
        # harness-side cdf arguments (exact rationals, centred coordinates); Coq checks they equal the model's
        x_max = n_std * std_y
        step = 2 * x_max / (n - 1)
        x = [-x_max + i * step for i in range(n)]
        half = step / 2
        args = [[(None if j == 0 else (x[j] - rho * x[i] - half) / sigma, None if j == n - 1 else (x[j] - rho * x[i] + half) / sigma)
                 for j in range(n)] for i in range(n)]
        centre = mu / (1 - rho)
        sc = 1 + abs(float(centre)) + float(x_max)
        if any(abs(frac(y[i]) - (x[i] + centre)) > Fraction(1, 10**12) * frac(sc) for i in range(n)):
            ctx.fail("tauchen_grid", "grid is not n_std stationary std around mu/(1-rho), evenly spaced", inp, y.tolist()[:6], [float(v + centre) for v in x[:6]])
        worst = 0.0
        for i in range(n):
            for j in range(n):
                lo, up = args[i][j]
                pm = (1.0 if up is None else phi_float(float(up))) - (0.0 if lo is None else phi_float(float(lo)))
                worst = max(worst, abs(pm - P[i, j]))
        if worst > 1e-13:
            ctx.mismatch("C13.Model.tauchen_args + Phi=0.5*erfc(-x/sqrt2) vs approximation.tauchen", inp, None, None, note="max abs diff %g" % worst)
        # oracle: cell probabilities with mpmath in centred coordinates (subset of rows for large n)
        rows = range(n) if n <= 12 else sorted(set([0, 1, n // 2, n - 2, n - 1] + [rng.randrange(n) for _ in range(3)]))
        mp = mpmath.mpf
        def q2mp(f):
            return mp(f.numerator) / mp(f.denominator)
        for i in rows:
            for j in range(n):
                z = x[j] - rho * x[i]
                up = mp(1) if j == n - 1 else mpmath.ncdf(q2mp((z + half) / sigma))
                lo = mp(0) if j == 0 else mpmath.ncdf(q2mp((z - half) / sigma))
                if abs(float(up - lo) - P[i, j]) > 1e-13:
                    ctx.fail("tauchen_cell", "P[i,j] is not the Gaussian probability of cell j given x_i", dict(inp, i=i, j=j), float(P[i, j]), float(up - lo))
                    break
        def ol(v):
            return "None" if v is None else "(Some %s)" % qlit(v)
        cases.append(tup("%d%%nat" % n, qlit(rho), qlit(sigma), qlit(std_y), qlit(Fraction(n_std)), qlit(mu),
                         "[" + "; ".join("[" + "; ".join(tup(ol(lo), ol(up)) for lo, up in row) + "]" for row in args) + "]",
                         qlist([frac(v) for v in y])))
        meta.append(inp)
    ok = ("fun c => let '(n, rho, sigma, std_y, n_std, mu, args, st) := c in "
          "cells_eqb (tauchen_args n rho sigma std_y n_std) args && Qs_close %s (tauchen_states n rho std_y n_std mu) st" % T12)
    bad = ctx.coq_check("tauchen_args", IMPORTS, "nat * Q * Q * Q * Q * Q * list (list cell) * list Q", ok, cases, chunk=3, preamble=PRE)
    for i in bad:
        ctx.mismatch("C13.Model.tauchen_args (vs the cdf arguments the harness evaluated) / tauchen_states vs approximation.tauchen state_values", meta[i])

    # ================= estimate_mc
    cases, meta = [], []
    for it in range(260 if thorough else 80):
        T = rng.choice([2, 3, 200, rng.randrange(2, 201), rng.randrange(2, 40)])
        kind = rng.randrange(4)
        k = rng.choice([1, 2, 3, 5, 8])
        if kind == 0:       # integers (possibly negative, gaps)
            alphabet = rng.sample(range(-20, 21), k)
            X = [rng.choice(alphabet) for _ in range(T)]
        elif kind == 1:     # floats
            alphabet = rng.sample([v / 8.0 for v in range(-40, 41)] + [0.1, 0.2, 0.3, 1e-3, 2.5e6], k)
            X = [rng.choice(alphabet) for _ in range(T)]
        elif kind == 2:     # persistent chain on integers
            X = [0]
            for _ in range(T - 1):
                X.append(X[-1] if rng.random() < 0.7 else rng.randrange(k))
        else:               # multi-dimensional
            d = rng.choice([2, 3])
            alphabet = [tuple(rng.choice([0, 1, 2, -1, 0.5]) for _ in range(d)) for _ in range(k)]
            X = [list(rng.choice(alphabet)) for _ in range(T)]
        X[-1] = X[rng.randrange(T - 1)] if kind != 3 else list(X[rng.randrange(T - 1)])      # every occurring state is left at least once
        arr = np.array(X)
        inp = {"function": "estimate_mc", "X": X}
        mc = guarded(ctx, inp, lambda: estimate_mc(arr))
        if mc is None:
            continue
        P = np.asarray(mc.P); sv = np.asarray(mc.state_values)
        rowsX = [tuple(v) if kind == 3 else (v,) for v in X]
        states = sorted(set(rowsX))
        ctx.count("est:" + ["int", "float", "persistent", "multidim"][kind]); ctx.count("est:states=%d" % len(states))
        ctx.case(("est", tuple(rowsX)), nontrivial=(len(states) >= 2), sample={"estimate_mc": X[:8], "T": T})
        # oracle: direct counting
        cnt = {}
        for a, b in zip(rowsX[:-1], rowsX[1:]):
            cnt[(a, b)] = cnt.get((a, b), 0) + 1
        out = {s: sum(cnt.get((s, t), 0) for t in states) for s in states}
        svl = [tuple(r) if kind == 3 else (r,) for r in sv.tolist()]
        if svl != [tuple(float(v) for v in s) for s in states] and svl != list(states):
            ctx.fail("estimate_states", "state_values are not the sorted distinct observations", inp, sv.tolist()[:8], [list(s) for s in states][:8])
        elif P.shape != (len(states), len(states)) or any(abs(P[i, j] - cnt.get((s, t), 0) / out[s]) > 1e-15 for i, s in enumerate(states) for j, t in enumerate(states)):
            ctx.fail("estimate_P", "P[i,j] != transitions(i->j)/transitions out of i", inp, P.tolist()[:4], None)
        cases.append(tup(qlist2([[frac(v) for v in r] for r in rowsX]), qlist2([[frac(v) for v in (r if kind == 3 else [r])] for r in sv.tolist()]),
                         qlist2([[frac(v) for v in row] for row in P])))
        meta.append(inp)
    ok = ("fun c => let '(X, sv, P) := c in let '(st, idx, Pm) := estimate_mc X in Qss_eqb st sv && Qss_close %s Pm P" % T15)
    bad = ctx.coq_check("estimate_mc", IMPORTS, "list (list Q) * list (list Q) * list (list Q)", ok, cases, chunk=6, preamble=PRE)
    for i in bad:
        ctx.mismatch("C13.Model.estimate_mc vs markov.estimate.estimate_mc", meta[i])
    # a state that is never left: the row is 0/0 and the MarkovChain constructor must reject it
    for X in ([0, 1, 0, 2], [1.5, 1.5, 3.0]):
        ctx.case(("est_bad", tuple(X)), nontrivial=False); ctx.count("est:last_state_never_left")
        try:
            estimate_mc(X); raised = False
        except Exception:
            raised = True
        if not raised:
            ctx.fail("estimate_rejects", "sequence whose last state is never left was accepted", {"function": "estimate_mc", "X": X}, "value", "exception")

    # ================= fit_discrete_mc
    cases, meta = [], []
    for it in range(160 if thorough else 50):
        d = rng.choice([1, 2, 2, 3])
        grids = [sorted(rng.sample(range(-16, 17), rng.randrange(1, 5))) for _ in range(d)]
        grids = [[v / 4.0 for v in g] for g in grids]
        # integer-dtype observations (int64 / int32 arrays, nested lists of Python ints) on float grids WITHOUT integer points:
        # the grids must keep their own (float) dtype in the nearest-point search
        xkind = rng.choice(["float", "float", "float", "int64", "int32", "pyint"]) if it >= 3 else ["int64", "int32", "pyint"][it]
        if xkind != "float":
            grids = [sorted(rng.sample([v / 4.0 for v in range(-16, 17) if v % 4], rng.randrange(1, 5))) for _ in range(d)]
        T = rng.choice([2, 3, 200, rng.randrange(2, 201), rng.randrange(2, 30)])
        X = []
        for t in range(T):
            pt = []
            for g in grids:
                mode = rng.randrange(5)
                if xkind != "float":
                    pt.append(rng.randrange(-5, 6))
                elif mode == 0:
                    pt.append(rng.choice(g))
                elif mode == 1 and len(g) > 1:
                    i = rng.randrange(len(g) - 1); pt.append((g[i] + g[i + 1]) / 2)      # exact midpoint: tie -> lower
                elif mode == 2:
                    pt.append(g[0] - rng.randrange(0, 3) / 8.0)
                elif mode == 3:
                    pt.append(g[-1] + rng.randrange(0, 3) / 8.0)
                else:
                    pt.append(rng.randrange(-160, 161) / 32.0)
            X.append(pt)
        X[-1] = list(X[rng.randrange(T - 1)])
        for order in "CF":
            inp = {"function": "fit_discrete_mc", "X": X, "grids": grids, "order": order, "x_dtype": xkind}
            Xarg = (np.array(X) if xkind == "float" else np.array(X, dtype=np.int64) if xkind == "int64" else np.array(X, dtype=np.int32) if xkind == "int32"
                    else [[int(v) for v in pt] for pt in X])
            ctx.count("fit:x_dtype=" + xkind)
            mc = guarded(ctx, inp, lambda: fit_discrete_mc(Xarg, tuple(np.array(g) for g in grids), order=order))
            if mc is None:
                continue
            P = np.asarray(mc.P); sv = np.asarray(mc.state_values, float)
            # oracle: own nearest-point discretisation (ties to the lower neighbour), own product enumeration, direct counting
            def near(g, v):
                best = 0
                for i in range(1, len(g)):
                    if abs(frac(g[i]) - frac(v)) < abs(frac(g[best]) - frac(v)):
                        best = i
                return best
            pts = [tuple(g[near(g, v)] for g, v in zip(grids, pt)) for pt in X]
            if order == "C":
                prod = [tuple(t) for t in itertools.product(*grids)]
            else:
                prod = [tuple(t[::-1]) for t in itertools.product(*grids[::-1])]
            seq_idx = [prod.index(p) for p in pts]
            visited = sorted(set(seq_idx))
            cnt = {}
            for a, b in zip(seq_idx[:-1], seq_idx[1:]):
                cnt[(a, b)] = cnt.get((a, b), 0) + 1
            ctx.count("fit:order=" + order); ctx.count("fit:d=%d" % d)
            ctx.case(("fit", tuple(map(tuple, X)), tuple(map(tuple, grids)), order), nontrivial=(len(visited) >= 2),
                     sample={"fit_discrete_mc": {"grids": grids, "order": order, "T": T}, "states": sv.tolist()[:4]})
            if sv.tolist() != [list(prod[i]) for i in visited]:
                ctx.fail("fit_states", "state values are not the visited product-grid points in enumeration order", inp, sv.tolist()[:6], [list(prod[i]) for i in visited][:6])
            elif any(abs(P[a, b] - cnt.get((i, j), 0) / sum(cnt.get((i, l), 0) for l in visited)) > 1e-15
                     for a, i in enumerate(visited) for b, j in enumerate(visited)):
                ctx.fail("fit_P", "P is not estimate_mc of the nearest-grid-point sequence", inp, P.tolist()[:4], None)
            cases.append(tup(blit(order == "F"), qlist2([[frac(v) for v in g] for g in grids]), qlist2([[frac(v) for v in pt] for pt in X]),
                             qlist2([[frac(v) for v in r] for r in sv.tolist()]), qlist2([[frac(v) for v in row] for row in P])))
            meta.append(inp)
    ok = ("fun c => let '(f, grids, X, sv, P) := c in let '(st, Pm) := fit_discrete_mc f grids X in Qss_eqb st sv && Qss_close %s Pm P" % T15)
    bad = ctx.coq_check("fit_discrete_mc", IMPORTS, "bool * list (list Q) * list (list Q) * list (list Q) * list (list Q)", ok, cases, chunk=8, preamble=PRE)
    for i in bad:
        ctx.mismatch("C13.Model.fit_discrete_mc (C16 nearest index + estimate_mc) vs markov.estimate.fit_discrete_mc", meta[i])

    # ================= generic float parameters (non-Pythagorean rho, rho next to +-1, tiny / large sigma): float oracle for tauchen,
    # bit-exact float model + float oracle for rouwenhorst is in the loop above (Pythagorean); here the cells are recomputed in floats
    for it in range(40 if thorough else 14):
        n = rng.choice([2, 3, 7, 25])
        rho = rng.choice([1 - 1e-6, -1 + 1e-6, 0.99, -0.99, rng.uniform(-0.95, 0.95), 0.0])
        sigma = rng.choice([1e-3, 1.0, 100.0, rng.uniform(0.01, 10)])
        mu = rng.choice([0.0, -3.5, rng.uniform(-5, 5)])
        n_std = rng.randrange(1, 6)
        inp = {"function": "tauchen", "n": n, "rho": rho, "sigma": sigma, "mu": mu, "n_std": n_std, "generic_float": True}
        ctx.count("tauchen:generic_float"); ctx.case(("tauchen_f", n, rho, sigma, mu, n_std), nontrivial=True)
        mc = guarded(ctx, inp, lambda: tauchen(n, rho, sigma, mu, n_std))
        if mc is not None:
            P, y = mc_pair(mc)
            std = math.sqrt(sigma ** 2 / (1 - rho ** 2)); xm = n_std * std
            x = [-xm + i * (2 * xm / (n - 1)) for i in range(n)]; hs = xm / (n - 1)
            E = np.array([[(1.0 if j == n - 1 else phi_float((x[j] - rho * x[i] + hs) / sigma)) - (0.0 if j == 0 else phi_float((x[j] - rho * x[i] - hs) / sigma))
                           for j in range(n)] for i in range(n)])
            sc = 1 + abs(mu / (1 - rho)) + xm
            if P.shape != (n, n) or np.max(np.abs(P - E)) > 1e-9 or np.max(np.abs(y - (np.array(x) + mu / (1 - rho)))) > 1e-11 * sc:
                ctx.fail("tauchen_cell", "P / grid differ from the Gaussian cell probabilities / evenly spaced grid (generic float parameters)", inp,
                         [P.ravel()[:4].tolist(), y[:3].tolist()], [E.ravel()[:4].tolist(), (np.array(x) + mu / (1 - rho))[:3].tolist()])
        inp = {"function": "rouwenhorst", "n": n, "rho": rho, "sigma": sigma, "mu": mu, "generic_float": True}
        ctx.count("rouw:generic_float"); ctx.case(("rouw_f", n, rho, sigma, mu), nontrivial=True)
        mc = guarded(ctx, inp, lambda: rouwenhorst(n, rho, sigma, mu))
        if mc is not None:
            P, y = mc_pair(mc)
            sd = math.sqrt(sigma ** 2 / (1 - rho ** 2)); psi = sd * math.sqrt(n - 1)
            sc = 1 + abs(mu / (1 - rho)) + psi
            grid = np.array([-psi + 2 * psi * i / (n - 1) for i in range(n)]) + mu / (1 - rho)
            cm = P @ y
            cv = np.array([np.dot(P[i], (y - cm[i]) ** 2) for i in range(n)])
            if (P.shape != (n, n) or P.min() < 0 or np.max(np.abs(P.sum(1) - 1)) > 1e-12 or np.max(np.abs(y - grid)) > 1e-11 * sc
                    or np.max(np.abs(cm - (mu + rho * y))) > 1e-9 * sc or np.max(np.abs(cv - sigma ** 2)) > 1e-7 * sc * sc):
                ctx.fail("rouwenhorst_cond_mean", "matrix/grid/conditional moments wrong for generic float parameters", inp, [y[:3].tolist(), cm[:3].tolist(), cv[:3].tolist()],
                         [grid[:3].tolist(), (mu + rho * y)[:3].tolist(), sigma ** 2])

    # ================= hardening: dress of scalar arguments, optional arguments omitted / explicit default / falsy, containers, non-mutation
    F32 = 2e-5          # NumPy float32 scalars are processed in single precision by NumPy itself
    ints = (("int", int), ("np.int64", np.int64), ("np.int32", np.int32), ("np.intp", np.intp), ("np.uint8", np.uint8))
    for (n, rho, sigma, mu, n_std) in [(5, 0.5, 2.0, 1.0, 3), (2, -0.25, 1.0, 0.0, 1), (9, 0.0, 3.0, -2.0, 2)]:
        t_ref = mc_pair(tauchen(n, rho, sigma, mu, n_std))
        r_ref = mc_pair(rouwenhorst(n, rho, sigma, mu))
        for iname, iconv in ints:
            dress_call(ctx, "tauchen", "n,n_std:" + iname, lambda: tauchen(iconv(n), rho, sigma, mu, iconv(n_std)), t_ref, [], detail=[n, rho, sigma, mu, n_std])
            if iname != "np.uint8":     # np.sqrt(np.uint8(n-1)) is a float16 in NumPy: 8-bit n is not an admissible dress for rouwenhorst
                dress_call(ctx, "rouwenhorst", "n:" + iname, lambda: rouwenhorst(iconv(n), rho, sigma, mu), r_ref, [], detail=[n, rho, sigma, mu])
        for fname_, fconv, tol in (("np.float64", np.float64, 1e-12), ("np.float32", np.float32, F32), ("0-d array", np.array, 1e-12)):
            dress_call(ctx, "tauchen", "rho,sigma,mu:" + fname_, lambda: tauchen(n, fconv(rho), fconv(sigma), fconv(mu), n_std), t_ref, [], tol=tol, detail=[n, rho, sigma, mu, n_std])
            dress_call(ctx, "rouwenhorst", "rho,sigma,mu:" + fname_, lambda: rouwenhorst(n, fconv(rho), fconv(sigma), fconv(mu)), r_ref, [], tol=tol, detail=[n, rho, sigma, mu])
        if all(float(v) == int(v) for v in (sigma, mu)):
            rr = int(rho) if float(rho) == int(rho) else rho
            dress_call(ctx, "tauchen", "sigma,mu:int", lambda: tauchen(n, rr, int(sigma), int(mu), n_std), t_ref, [], detail=[n, rho, sigma, mu, n_std])
            dress_call(ctx, "rouwenhorst", "sigma,mu:int", lambda: rouwenhorst(n, rr, int(sigma), int(mu)), r_ref, [], detail=[n, rho, sigma, mu])
        dress_call(ctx, "tauchen", "n_std:float", lambda: tauchen(n, rho, sigma, mu, float(n_std)), t_ref, [], detail=[n, rho, sigma, mu, n_std])
        dress_call(ctx, "tauchen", "keywords", lambda: tauchen(n=n, rho=rho, sigma=sigma, mu=mu, n_std=n_std), t_ref, [], detail=[n, rho, sigma, mu, n_std])
        dress_call(ctx, "rouwenhorst", "keywords", lambda: rouwenhorst(n=n, rho=rho, sigma=sigma, mu=mu), r_ref, [], detail=[n, rho, sigma, mu])
        # optional arguments: omitted vs explicit default vs falsy-but-valid
        t3 = mc_pair(tauchen(n, rho, sigma, mu, 3)); t0 = mc_pair(tauchen(n, rho, sigma, 0.0, n_std)); r0 = mc_pair(rouwenhorst(n, rho, sigma, 0.0))
        dress_call(ctx, "tauchen", "n_std_omitted", lambda: tauchen(n, rho, sigma, mu), t3, [], detail=[n, rho, sigma, mu])
        dress_call(ctx, "tauchen", "mu_omitted", lambda: tauchen(n, rho, sigma, n_std=n_std), t0, [], detail=[n, rho, sigma, n_std])
        dress_call(ctx, "tauchen", "mu=0(int)", lambda: tauchen(n, rho, sigma, 0, n_std), t0, [], detail=[n, rho, sigma, n_std])
        dress_call(ctx, "tauchen", "mu,n_std_omitted", lambda: tauchen(n, rho, sigma), mc_pair(tauchen(n, rho, sigma, 0.0, 3)), [], detail=[n, rho, sigma])
        dress_call(ctx, "rouwenhorst", "mu_omitted", lambda: rouwenhorst(n, rho, sigma), r0, [], detail=[n, rho, sigma])
        dress_call(ctx, "rouwenhorst", "mu=0(int)", lambda: rouwenhorst(n, rho, sigma, 0), r0, [], detail=[n, rho, sigma])
    dress_call(ctx, "tauchen", "rho=0(int)", lambda: tauchen(4, 0, 2.0, 1.0, 2), mc_pair(tauchen(4, 0.0, 2.0, 1.0, 2)), [])
    dress_call(ctx, "rouwenhorst", "rho=0(int)", lambda: rouwenhorst(4, 0, 2.0, 1.0), mc_pair(rouwenhorst(4, 0.0, 2.0, 1.0)), [])
    # results of successive calls must not alias / disturb each other (module-level buffers)
    m1 = tauchen(6, 0.5, 1.0, 0.0, 3); P1 = np.array(m1.P, copy=True); s1 = np.array(m1.state_values, copy=True)
    m2 = tauchen(6, -0.5, 2.0, 1.0, 2); m3 = rouwenhorst(6, 0.5, 1.0); P3 = np.array(m3.P, copy=True); m4 = rouwenhorst(6, -0.25, 2.0, 1.0)
    ctx.count("alias:results_kept_alive", 2)
    if (np.shares_memory(m1.P, m2.P) or np.shares_memory(m3.P, m4.P) or not np.array_equal(m1.P, P1) or not np.array_equal(m1.state_values, s1) or not np.array_equal(m3.P, P3)):
        ctx.fail("result_changed_later", "a MarkovChain returned earlier was changed by / shares memory with a later call", {"function": "tauchen/rouwenhorst"}, None, None)

    # -- estimate_mc: containers, dtypes, layouts (object arrays are rejected by MarkovChain itself: not an admissible dress)
    for rep in range(3 if thorough else 2):
        T = rng.choice([2, 9, 30])
        X = [rng.randrange(0, 4) for _ in range(T)]; X[-1] = X[rng.randrange(T - 1)]
        ref = mc_pair(estimate_mc(np.array(X, dtype=np.float64)))
        dbl = np.repeat(np.array(X, dtype=np.int64), 2); dbl[1::2] = 77
        big = np.full((T, 3), 55, dtype=np.int64); big[:, 2] = X
        forms = {"list": list(X), "tuple": tuple(X), "int64": np.array(X, np.int64), "int32": np.array(X, np.int32), "uint8": np.array(X, np.uint8),
                 "float32": np.array(X, np.float32), "strided": dbl[::2], "column_of_2d": big[:, 2], "negstride": np.array(X[::-1])[::-1], "list_float": [float(v) for v in X]}
        for form, v in forms.items():
            dress_call(ctx, "estimate_mc", form, lambda: estimate_mc(v), ref, [v], detail=X)
        d = rng.choice([2, 3])
        X2 = [[rng.randrange(0, 3) for _ in range(d)] for _ in range(T)]; X2[-1] = list(X2[rng.randrange(T - 1)])
        ref2 = mc_pair(estimate_mc(np.array(X2, dtype=np.float64)))
        wide = np.full((T, d + 2), 9, dtype=np.int64); wide[:, 1:d + 1] = X2
        forms2 = {"nested_list": [list(r) for r in X2], "tuple_of_tuples": tuple(tuple(r) for r in X2), "int32_2d": np.array(X2, np.int32), "float32_2d": np.array(X2, np.float32),
                  "F_order": np.asfortranarray(np.array(X2, np.float64)), "columns_of_wider": wide[:, 1:d + 1], "every_other_row": np.repeat(np.array(X2), 2, axis=0)[::2]}
        for form, v in forms2.items():
            dress_call(ctx, "estimate_mc", form, lambda: estimate_mc(v), ref2, [v], detail=X2)
        # -- fit_discrete_mc: X and grids as lists / tuples / int / float32 arrays / views, one-point grids, order omitted vs 'C'
        grids = [sorted(rng.sample(range(-4, 5), rng.choice([1, 2, 3]))) for _ in range(d)]
        if rep == 0:
            grids[0] = [grids[0][0]]                   # a one-point grid
        Xf = [[rng.randrange(-10, 11) / 2.0 for _ in range(d)] for _ in range(T)]; Xf[-1] = list(Xf[rng.randrange(T - 1)])
        Xa = np.array(Xf, dtype=np.float64); ga = tuple(np.array(g, dtype=np.float64) for g in grids)
        for order in "CF":
            reff = mc_pair(fit_discrete_mc(Xa, ga, order=order))
            widef = np.full((T, d + 1), 0.25); widef[:, :d] = Xf
            gforms = {"tuple_of_float_arrays": ga, "list_of_float_arrays": list(ga), "list_of_lists": [[float(v) for v in g] for g in grids], "tuple_of_tuples": tuple(tuple(float(v) for v in g) for g in grids),
                      "int_lists": [list(g) for g in grids], "int64_arrays": tuple(np.array(g, np.int64) for g in grids), "float32_arrays": tuple(np.array(g, np.float32) for g in grids),
                      "strided_arrays": tuple(np.repeat(np.array(g, np.float64), 2)[::2] for g in grids)}
            xforms = {"float64": Xa, "nested_list": [list(r) for r in Xf], "float32": Xa.astype(np.float32), "F_order": np.asfortranarray(Xa), "columns_of_wider": widef[:, :d]}
            for gname, gv in gforms.items():
                if gname == "strided_arrays" and any(len(g) == 1 for g in grids):
                    # a length-1 view is contiguous: the tuple of grids would mix array layouts, which numba's runtime indexing of
                    # `nodes[i]` in _cartesian_nearest_indices rejects with a TypingError on the unchanged tree (reported; C16 territory)
                    ctx.count("dress:skipped_mixed_layout_grids")
                    continue
                dress_call(ctx, "fit_discrete_mc", "grids:" + gname + "/order=" + order, lambda: fit_discrete_mc(Xa, gv, order=order), reff, [Xa, gv], detail=[Xf, grids, order])
            for xname, xv in xforms.items():
                dress_call(ctx, "fit_discrete_mc", "X:" + xname + "/order=" + order, lambda: fit_discrete_mc(xv, ga, order=order), reff, [xv, ga], detail=[Xf, grids, order])
            if order == "C":
                dress_call(ctx, "fit_discrete_mc", "order_omitted", lambda: fit_discrete_mc(Xa, ga), reff, [Xa, ga], detail=[Xf, grids])
                dress_call(ctx, "fit_discrete_mc", "order_positional", lambda: fit_discrete_mc(Xa, ga, "C"), reff, [Xa, ga], detail=[Xf, grids])

    # ================= result aliasing across calls: MarkovChain.P / state_values of every entry point
    for rep in range(5 if thorough else 3):
        n = rng.choice([2, 5, 11]); rho, rho2 = rng.choice([0.5, -0.25, 0.9]), rng.choice([0.3, -0.6])
        alias_probe(ctx, "tauchen", "same n, other parameters in between", lambda o: tauchen(n, rho, 1.5, 0.5, 2), others=[lambda o: tauchen(n, rho2, 0.7, -1.0, 3)],
                    inp={"n": n, "rho": rho, "sigma": 1.5, "mu": 0.5, "n_std": 2})
        alias_probe(ctx, "rouwenhorst", "same n, other parameters in between", lambda o: rouwenhorst(n, rho, 1.5, 0.5), others=[lambda o: rouwenhorst(n, rho2, 0.7, -1.0)],
                    inp={"n": n, "rho": rho, "sigma": 1.5, "mu": 0.5})
        T = rng.choice([6, 25])
        Xa = np.array([rng.randrange(0, 3) for _ in range(T)] + [0, 1, 2, 0]); Xb = np.array([rng.randrange(0, 3) for _ in range(T)] + [2, 1, 0, 2])
        alias_probe(ctx, "estimate_mc", "same length, other sequence in between", lambda o: estimate_mc(Xa), others=[lambda o: estimate_mc(Xb)], guards=[lambda o: Xa], inp={"X": Xa.tolist()})
        X2a = np.array([[rng.randrange(0, 2), rng.randrange(0, 2)] for _ in range(T)] + [[0, 0], [1, 1], [0, 0]], dtype=float)
        alias_probe(ctx, "estimate_mc", "2-d", lambda o: estimate_mc(X2a), others=[lambda o: estimate_mc(np.concatenate([X2a[:T][::-1], X2a[T:]]))], guards=[lambda o: X2a], inp={"X": X2a.tolist()})
        g = (np.array([0.0, 1.0, 2.0]), np.array([-1.0, 1.0]))
        Xf = np.array([[rng.randrange(-2, 7) / 2.0, rng.randrange(-4, 5) / 2.0] for _ in range(T)]); Xf[-1] = Xf[0]
        Xg = np.array([[rng.randrange(-2, 7) / 2.0, rng.randrange(-4, 5) / 2.0] for _ in range(T)]); Xg[-1] = Xg[0]
        for order in "CF":
            alias_probe(ctx, "fit_discrete_mc", "order=" + order, lambda o: fit_discrete_mc(Xf, g, order=order), others=[lambda o: fit_discrete_mc(Xg, g, order=order)],
                        guards=[lambda o: Xf, lambda o: g[0], lambda o: g[1]], inp={"X": Xf.tolist(), "grids": [x.tolist() for x in g], "order": order})


def replay(data):
    """Re-run the first recorded failing input against the current implementation and print the oracle's verdict."""
    from quantecon.markov.approximation import rouwenhorst, tauchen
    from quantecon.markov.estimate import estimate_mc, fit_discrete_mc
    warnings.simplefilter("ignore")
    first = data.get("first") or (data.get("mismatches") or [{}])[0]
    print("replay:", json.dumps(first)[:1500])
    inp = first.get("input", {})
    fn = inp.get("function")
    if fn in ("rouwenhorst", "tauchen"):
        n = inp["n"]; rho = float(Fraction(inp["rho"])); sigma = float(Fraction(inp["sigma"])); mu = float(Fraction(inp["mu"]))
        if fn == "rouwenhorst":
            mc = rouwenhorst(n, rho, sigma, mu)
            P, y = mc.P, mc.state_values
            cm = P @ y
            cv = np.array([np.dot(P[i], (y - cm[i]) ** 2) for i in range(n)])
            print("grid centre", float((y[0] + y[-1]) / 2), "expected mu/(1-rho) =", mu / (1 - rho))
            print("max |cond mean - (mu + rho y)| =", float(np.max(np.abs(cm - (mu + rho * y)))), " max |cond var - sigma^2| =", float(np.max(np.abs(cv - sigma ** 2))))
            print("row sums", P.sum(1)[:5])
        else:
            n_std = inp["n_std"]
            mc = tauchen(n, rho, sigma, mu, n_std)
            P, y = mc.P, mc.state_values
            std = math.sqrt(sigma ** 2 / (1 - rho ** 2)); x = np.linspace(-n_std * std, n_std * std, n); h = (x[1] - x[0]) / 2
            E = np.array([[(1 if j == n - 1 else phi_float((x[j] - rho * x[i] + h) / sigma)) - (0 if j == 0 else phi_float((x[j] - rho * x[i] - h) / sigma))
                           for j in range(n)] for i in range(n)])
            print("max |P - Gaussian cell probability| =", float(np.max(np.abs(P - E))), " max |grid - expected| =", float(np.max(np.abs(y - (x + mu / (1 - rho))))))
    elif fn == "estimate_mc":
        try:
            mc = estimate_mc(np.array(inp["X"])); print("states", mc.state_values.tolist()[:10]); print("P", mc.P.tolist()[:5])
        except Exception as e:
            print("raised", type(e).__name__, e)
    elif fn == "fit_discrete_mc":
        mc = fit_discrete_mc(np.array(inp["X"]), tuple(np.array(g) for g in inp["grids"]), order=inp["order"])
        print("states", np.asarray(mc.state_values).tolist()[:10]); print("P", mc.P.tolist()[:5])
    return 0

"""Entry point: ./check Cxx [--tier quick|thorough] [--replay path]

The check itself runs in a child process; this supervisor enforces a wall-clock
limit so that an implementation that no longer terminates (e.g. a mutated pivoting
loop spinning up to max_iter=10**6) is reported as a violation instead of hanging
the check: the property is then no longer shown to hold for the code."""
import sys, os, importlib, argparse, json, traceback, subprocess, time
sys.path.insert(0, os.path.dirname(os.path.abspath(__file__)))
import common

LIMITS = {"quick": int(os.environ.get("VERIF_QUICK_LIMIT_S", "1500")),
          "thorough": int(os.environ.get("VERIF_THOROUGH_LIMIT_S", "14400"))}


def child(a, prop, tier):
    mod = importlib.import_module(prop.lower())
    ctx = common.Ctx(prop, tier, a.seed)
    try:
        mod.run(ctx)
    except Exception as e:  # machinery failure: never silently pass
        traceback.print_exc()
        ctx.obligations.append({"name": "harness ran to completion", "ok": False, "detail": repr(e)[:500]})
    sys.exit(ctx.finish(**getattr(mod, "FINISH", {})))


def main():
    ap = argparse.ArgumentParser()
    ap.add_argument("prop")
    ap.add_argument("--tier", default=os.environ.get("VERIF_TIER", "quick"))
    ap.add_argument("--replay", default=None)
    ap.add_argument("--seed", default=None)
    ap.add_argument("--child", action="store_true")
    a = ap.parse_args()
    prop = a.prop.upper()
    tier = a.tier if a.tier in ("quick", "thorough") else "quick"
    if a.replay:
        mod = importlib.import_module(prop.lower())
        data = json.load(open(a.replay))
        sys.exit(mod.replay(data))
    if a.child:
        child(a, prop, tier)
    t0 = time.time()
    cmd = [sys.executable, "-u", os.path.abspath(__file__), prop, "--tier", tier, "--child"]
    if a.seed is not None:
        cmd += ["--seed", str(a.seed)]
    p = subprocess.Popen(cmd)
    try:
        rc = p.wait(timeout=LIMITS[tier])
    except subprocess.TimeoutExpired:
        p.kill()
        p.wait()
        subprocess.run(["pkill", "-KILL", "-P", str(p.pid)], stderr=subprocess.DEVNULL)
        seed = int(a.seed if a.seed is not None else os.environ.get("VERIF_SEED", "20260930"))
        os.makedirs(os.path.join(common.VERIF, "replays"), exist_ok=True)
        path = os.path.join(common.VERIF, "replays", "%s_%s_%d_timeout.json" % (prop, tier, seed))
        json.dump({"property": prop, "kind": "check-did-not-terminate", "seed": seed, "tier": tier,
                   "no_longer_checks": ["the %s-tier check of %s did not finish within %d s on this tree "
                                        "(an implementation call or a proof build no longer terminates in time)" % (tier, prop, LIMITS[tier])]},
                  open(path, "w"), indent=1)
        ev = {"property_id": prop, "tier": tier, "seed": seed, "level": "proof",
              "coverage": {"obligations": 1, "discharged": 0, "checker_cmd": "./check %s --tier %s" % (prop, tier),
                           "trusted_base": [], "evaluations": 1, "distinct_nontrivial": 0,
                           "explanation": "check killed by the supervisor after %d s" % LIMITS[tier]},
              "assumptions": [], "wall_s": round(time.time() - t0, 1), "violations": 1}
        json.dump(ev, open(os.path.join(common.VERIF, "evidence", prop + ".json"), "w"), indent=1)
        print("VIOLATION property=%s replay=%s no-failing-input-found" % (prop, path))
        sys.exit(1)
    sys.exit(rc)


if __name__ == "__main__":
    main()

"""Entry point: ./check Cxx [--tier quick|thorough] [--replay path]"""
import sys, os, importlib, argparse, json, traceback
sys.path.insert(0, os.path.dirname(os.path.abspath(__file__)))
import common


def main():
    ap = argparse.ArgumentParser()
    ap.add_argument("prop")
    ap.add_argument("--tier", default=os.environ.get("VERIF_TIER", "quick"))
    ap.add_argument("--replay", default=None)
    ap.add_argument("--seed", default=None)
    a = ap.parse_args()
    prop = a.prop.upper()
    mod = importlib.import_module(prop.lower())
    if a.replay:
        data = json.load(open(a.replay))
        sys.exit(mod.replay(data))
    ctx = common.Ctx(prop, a.tier if a.tier in ("quick", "thorough") else "quick", a.seed)
    try:
        mod.run(ctx)
    except Exception as e:  # machinery failure: never silently pass
        traceback.print_exc()
        ctx.obligations.append({"name": "harness ran to completion", "ok": False, "detail": repr(e)[:500]})
    sys.exit(ctx.finish(**getattr(mod, "FINISH", {})))


if __name__ == "__main__":
    main()

"""C16: grid and combinatorial enumerations are exact bijections in the stated order.

All jitted kernels that read or write arrays through computed indices (simplex_grid, next_k_array,
k_array_rank_jit, cartesian/_repeat_1d, _cartesian_index, _cartesian_nearest_indices) are executed in a second
interpreter under NUMBA_BOUNDSCHECK=1 (an out-of-bounds access is an IndexError instead of heap corruption; a hard
crash of that interpreter is attributed to the job it was running).  comb_jit (scalar arithmetic) runs in-process."""
import sys, os, json, itertools, math, subprocess, tempfile, shutil
import numpy as np
from common import *

IMPORTS = "From QE Require Import C16.Model."
INTP_MAX = 2**63 - 1
FINISH = dict(level="proof", technique_note=(
    "Coq theorems (coq/C16/Props.v) about the executable model coq/C16/Model.v; model tied to /repo by "
    "evaluating it with vm_compute on the same inputs as the implementation (exhaustive small scopes + selected huge "
    "arguments; array kernels run under NUMBA_BOUNDSCHECK=1 in a second interpreter); independent itertools/math.comb "
    "oracle on the implementation's output. non-trivial = distinct input with a non-degenerate answer (k>=2 for comb, "
    ">=2 rows for grids)"))


# ------------------------------------------------------------------ implementation calls (worker side)
FORMS_ALL = ["list", "tuple", "nd", "nd32", "row2d", "strided"]
FORMS_ND = ["nd", "nd32", "row2d", "strided"]


def mk(v, form, dt=np.int64, dt32=np.int32):
    """The vector v in the given argument form; returns (object, base array or None).  row2d / strided are views
    (a row of a 2-d array, a non-contiguous slice) whose base is filled with the guard value 7 elsewhere."""
    if form == "list":
        return list(v), None
    if form == "tuple":
        return tuple(v), None
    if form == "nd":
        return np.array(v, dtype=dt), None
    if form == "nd32":
        return np.array(v, dtype=dt32), None
    if form == "row2d":
        M = np.full((3, len(v)), 7, dtype=dt)
        M[1] = v
        return M[1], M
    B = np.full(2 * len(v) + 1, 7, dtype=dt)
    B[1:2 * len(v):2] = v
    return B[1:2 * len(v):2], B


def snap(o, base=None):
    return (o.copy() if isinstance(o, np.ndarray) else o if isinstance(o, tuple) else list(o),
            None if base is None else base.copy())


def unchanged(o, base, s):
    if isinstance(o, np.ndarray):
        if o.dtype != s[0].dtype or not np.array_equal(o, s[0]):
            return False
    elif o != s[0]:
        return False
    return base is None or np.array_equal(base, s[1])


def guards_ok(base, form):
    if base is None:
        return True
    return bool((base[0] == 7).all() and (base[2] == 7).all()) if form == "row2d" else bool((base[0::2] == 7).all())


def impl_job(kind, arg, form="nd"):
    """Canonical call + the same call with every array argument in the form `form`; snapshots of every array
    argument around every call.  The returned dict has a list "problems" (argument modified, result depends on the
    argument form, repeated call differs)."""
    from quantecon.util.combinatorics import next_k_array, k_array_rank, k_array_rank_jit
    from quantecon._gridtools import (simplex_grid, simplex_index, num_compositions, num_compositions_jit,
                                      cartesian, mlinspace, cartesian_nearest_index, _cartesian_index)
    problems = []
    fnd = form if form in FORMS_ND else FORMS_ND[len(str(arg)) % 4]      # jitted kernels take ndarrays only

    def watch(fname, f, objs, *rest, **kw):
        """call f(*objs-in-place, *rest) with snapshots; objs = [(obj, base)]"""
        ss = [snap(o, b) for o, b in objs]
        r = f(*[o for o, _ in objs], *rest, **kw)
        for (o, b), s0 in zip(objs, ss):
            if not unchanged(o, b, s0):
                problems.append("%s modified its argument (%s %s): %s -> %s" % (
                    fname, type(o).__name__, getattr(o, "dtype", ""), np.asarray(s0[0]).tolist(), np.asarray(o).tolist()))
        return r

    if kind == "simplex":
        m, n = arg
        g = simplex_grid(m, n)
        g0 = g.copy()
        # sweep simplex_index twice over the SAME ndarray rows of the grid, then look at the grid again
        idx1 = [int(simplex_index(g[i], m, n)) for i in range(len(g))]
        idx2 = [int(simplex_index(g[i], m, n)) for i in range(len(g))]
        if not np.array_equal(g, g0):
            problems.append("simplex_index modified rows of the ndarray returned by simplex_grid")
        if idx1 != idx2:
            bad = next(i for i in range(len(g)) if idx1[i] != idx2[i])
            problems.append("second simplex_index lookup of grid row %d gives %d, first gave %d" % (bad, idx2[bad], idx1[bad]))
        for i, r in enumerate(g0.tolist()):
            o, b = mk(r, form)
            v = int(watch("simplex_index", lambda x: simplex_index(x, m, n), [(o, b)]))
            v2 = int(simplex_index(o, m, n))
            if v != idx1[i] or v2 != v:
                problems.append("simplex_index(%s as %s) = %d then %d, grid-row lookup gave %d" % (r, form, v, v2, idx1[i]))
        return {"rows": g0.tolist(), "rows_after": g.tolist(), "idxs": idx1, "idxs2": idx2,
                "L": int(num_compositions(m, n)), "Lj": int(num_compositions_jit(m, n)), "problems": problems[:5]}
    if kind == "walk":
        n, k = arg
        a = np.arange(k)
        walk, ranks, ranks_jit = [], [], []
        while a[-1] < n:
            cur = [int(x) for x in a]
            walk.append(cur)
            ranks.append(int(watch("k_array_rank", k_array_rank, [(a, None)])))
            ranks_jit.append(int(watch("k_array_rank_jit", k_array_rank_jit, [(a, None)])))
            o, b = mk(cur, form)
            v = int(watch("k_array_rank", k_array_rank, [(o, b)]))
            o2, b2 = mk(cur, fnd)
            vj = int(watch("k_array_rank_jit", k_array_rank_jit, [(o2, b2)]))
            if v != ranks[-1] or vj != ranks_jit[-1]:
                problems.append("rank of %s depends on the argument form (%s/%s): %d/%d vs %d/%d" % (cur, form, fnd, v, vj, ranks[-1], ranks_jit[-1]))
            r = next_k_array(a)
            if r is not a:
                problems.append("next_k_array does not return its (in-place updated) argument")
            if len(walk) > 2000:
                break
        return {"walk": walk, "ranks": ranks, "ranks_jit": ranks_jit, "problems": problems[:5]}
    if kind == "nkstep":
        if fnd == "nd32" and max(arg) >= 2**31 - 1:
            fnd = "strided"
        arr = np.array(arg, dtype=np.int64)
        rj = int(watch("k_array_rank_jit", k_array_rank_jit, [(arr, None)]))
        nxt = [int(x) for x in next_k_array(arr.copy())]
        o, b = mk(arg, fnd)
        rjv = int(watch("k_array_rank_jit", k_array_rank_jit, [(o, b)]))
        small = all(x < 2**15 for x in arg)          # int32 arguments: only compared where no int32 effect is possible
        if rjv != rj and (fnd != "nd32" or small):
            problems.append("k_array_rank_jit(%s as %s) = %d, as int64 array %d" % (arg, fnd, rjv, rj))
        r = next_k_array(o)
        if r is not o:
            problems.append("next_k_array does not return its (in-place updated) argument")
        if [int(x) for x in o] != nxt or not guards_ok(b, fnd):
            problems.append("next_k_array on %s as %s gives %s (cells outside the view intact: %s), on an int64 array %s" % (
                arg, fnd, [int(x) for x in o], guards_ok(b, fnd), nxt))
        return {"rj": rj, "nxt": nxt, "problems": problems[:5]}
    if kind == "cartesian":
        nodes, order = arg
        objs = [(np.array(p), None) for p in nodes]
        out = watch("cartesian", lambda *ns: cartesian(list(ns), order=order), objs)
        rows = [[int(x) for x in r] for r in out]
        vobjs = [mk(p, form) for p in nodes]
        cont = tuple if form == "tuple" else list
        out2 = watch("cartesian", lambda *ns: cartesian(cont(ns), order=order), vobjs)
        if [[int(x) for x in r] for r in out2] != rows:
            problems.append("cartesian depends on the argument form %s" % form)
        return {"rows": rows, "problems": problems[:5]}
    if kind == "mlinspace":
        a, b, nums, order = arg
        rows = watch("mlinspace", lambda *t: mlinspace(*t, order=order), [(list(a), None), (list(b), None), (list(nums), None)]).tolist()
        fab = "row2d" if form == "nd32" and any(float(np.float32(v)) != float(v) for v in list(a) + list(b)) else form
        vobjs = [mk(a, fab, np.float64, np.float32), mk(b, fab, np.float64, np.float32), mk(nums, form)]
        rows2 = watch("mlinspace", lambda *t: mlinspace(*t, order=order), vobjs).tolist()
        if rows2 != rows:
            problems.append("mlinspace depends on the argument form %s" % form)
        return {"rows": rows, "problems": problems[:5]}
    if kind == "cindex":
        ind, nums = arg
        idx = int(watch("_cartesian_index", _cartesian_index, [(np.array(ind, dtype=np.intp), None), (np.array(nums, dtype=np.intp), None)]))
        f2 = "row2d" if fnd == "nd32" else fnd
        idx2 = int(watch("_cartesian_index", _cartesian_index, [mk(ind, f2, np.intp), mk(nums, f2, np.intp)]))
        if idx2 != idx:
            problems.append("_cartesian_index depends on the argument form %s: %d vs %d" % (f2, idx2, idx))
        return {"idx": idx, "problems": problems[:5]}
    if kind == "nearest":
        nodes, x, order = arg
        objs = [(np.array(x), None)] + [(np.array(g), None) for g in nodes]
        call = lambda xx, *ns: cartesian_nearest_index(xx, tuple(ns), order=order)
        idx = int(watch("cartesian_nearest_index", call, objs))
        idx_again = int(watch("cartesian_nearest_index", call, objs))
        # (a tuple mixing contiguous and non-contiguous node arrays is a heterogeneous Numba tuple, which the kernel's
        #  nodes[i] cannot index: a 1-point slice is contiguous, so strided nodes are used only when all have >= 2 points)
        nform = "nd" if form == "strided" and any(len(g) < 2 for g in nodes) else form
        vobjs = [mk(x, form, np.float64, np.float32)] + [mk(g, nform, np.float64, np.float32) for g in nodes]
        idx2 = int(watch("cartesian_nearest_index", call, vobjs))
        if idx2 != idx or idx_again != idx:
            problems.append("cartesian_nearest_index depends on the argument form %s / repeated call: %d, %d vs %d" % (form, idx2, idx_again, idx))
        return {"idx": idx, "problems": problems[:5]}
    if kind == "nearest_typed":
        # query and grids in explicit Python/NumPy types; batch = several points as a 2-d array / list of lists
        nodes, nkinds, pts, xkind, batch, order = arg
        def typed(v, kd):
            if kd in ("pylist", "pytuple"):
                conv = (lambda t: int(t) if float(t).is_integer() and kd_int else float(t))
                return [conv(t) for t in v] if kd == "pylist" else tuple(conv(t) for t in v)
            return np.array(v, dtype={"int32": np.int32, "int64": np.int64, "float64": np.float64, "float32": np.float32}[kd])
        gs = []
        for g, kd in zip(nodes, nkinds):
            kd_int = kd.endswith("_int")
            gs.append(typed(g, kd.replace("_int", "")))
        kd_int = xkind.endswith("_int")
        xk = xkind.replace("_int", "")
        if batch:
            X = [list(typed(p, "pylist")) for p in pts] if xk in ("pylist", "pytuple") else typed(pts, xk)
            if xk == "pytuple":
                X = tuple(tuple(r) for r in X)
            out = watch("cartesian_nearest_index", lambda xx, *ns: cartesian_nearest_index(xx, tuple(ns), order=order), [(X, None)] + [(g, None) for g in gs])
            return {"idx": [int(v) for v in out], "problems": problems[:5]}
        res = []
        for p in pts:
            res.append(int(watch("cartesian_nearest_index", lambda xx, *ns: cartesian_nearest_index(xx, tuple(ns), order=order),
                                 [(typed(p, xk), None)] + [(g, None) for g in gs])))
        return {"idx": res, "problems": problems[:5]}
    raise ValueError(kind)


def worker(fin, fout):
    jobs = json.load(open(fin))
    with open(fout, "a") as f:
        for kind, arg, form in jobs:
            try:
                r = ["ok", impl_job(kind, arg, form)]
            except Exception as e:            # IndexError under NUMBA_BOUNDSCHECK, ValueError ...
                r = ["err", "%s: %s (argument form %s)" % (type(e).__name__, str(e)[:200], form)]
            f.write(json.dumps(r) + "\n")
            f.flush()
    return 0


def start_jobs(ctx, jobs, skip=0, tag=0):
    env = dict(os.environ, NUMBA_BOUNDSCHECK="1", NUMBA_CACHE_DIR=os.path.join(VERIF, ".cache", "numba_boundscheck"))
    fin, fout = os.path.join(ctx.jobdir, "in%d.json" % tag), os.path.join(ctx.jobdir, "out%d.jsonl" % tag)
    json.dump(jobs[skip:], open(fin, "w"))
    open(fout, "w").close()
    p = subprocess.Popen([sys.executable, os.path.abspath(__file__), "--worker", fin, fout], env=env,
                         stdout=subprocess.PIPE, stderr=subprocess.STDOUT)
    return p, fout


def collect_jobs(ctx, jobs, started):
    """Collect the second interpreter (NUMBA_BOUNDSCHECK=1); a hard crash is attributed to the job being run and the
    interpreter is restarted behind it.  One ["ok", result] / ["err", text] / ["crash", text] per job."""
    results, restarts = [], 0
    p, fout = started
    while True:
        try:
            out, _ = p.communicate(timeout=1500)
            rc, out = p.returncode, out.decode("utf-8", "replace")
        except subprocess.TimeoutExpired:
            p.kill()
            rc, out = -9, "timeout"
        results += [json.loads(l) for l in open(fout) if l.strip()]
        if len(results) >= len(jobs) or restarts >= 8:
            break
        results.append(["crash", "interpreter died (rc=%s): %s" % (rc, out[-300:])])
        restarts += 1
        if len(results) >= len(jobs):
            break
        p, fout = start_jobs(ctx, jobs, skip=len(results), tag=restarts)
    ok = len(results) == len(jobs)
    ctx.obligations.append({"name": "NUMBA_BOUNDSCHECK=1 interpreter processed every job", "ok": ok,
                            "detail": "%d jobs, %d restarts" % (len(jobs), restarts)})
    while len(results) < len(jobs):
        results.append(["crash", "not run"])
    return results


def bad_result(ctx, kind, inp, res):
    """An exception or crash of the implementation on a valid input is a violation with that input."""
    if res[0] == "ok":
        return False
    ctx.fail(kind + "_raises", "implementation raised / crashed on a valid input: " + res[1][:200], inp, res[1][:300], None)
    ctx.count("impl_error:" + kind)
    return True


def run(ctx):
    from quantecon.util.numba import comb_jit
    thorough = ctx.tier == "thorough"
    rng = ctx.rng

    # ================= inputs of the array kernels (generated first, executed in the second interpreter)
    jobs = []
    nmax = 10 if thorough else 8
    walk_in = [(n, k) for n in range(1, nmax + 1) for k in range(1, n + 1)]
    jobs += [("walk", list(t)) for t in walk_in]
    step_in = []
    for _ in range(300 if thorough else 120):
        k = rng.randrange(1, 7)
        top = rng.choice([12, 60, 2**20, 2**40])
        a = sorted(rng.sample(range(top), k))
        if rng.random() < 0.5:   # plant a run at the start so the inner loop executes
            r = rng.randrange(1, k + 1)
            a = list(range(a[0], a[0] + r)) + [x + a[0] + r + 1 for x in a[r:]]
            a = sorted(set(a))
        step_in.append(a)
    for k in range(1, 7):         # full runs (every position is reset) and a gap behind a run of each length
        for s in (0, 1, 5):
            step_in.append(list(range(s, s + k)))
            for r in range(1, k):
                step_in.append(list(range(s, s + r)) + [s + r + 1 + j * 2 for j in range(k - r)])
    jobs += [("nkstep", a) for a in step_in]
    mmax, nmax2 = (6, 8) if thorough else (5, 6)
    simplex_in = [(m, n) for m in range(1, mmax + 1) for n in range(0, nmax2 + 1)]
    jobs += [("simplex", list(t)) for t in simplex_in]
    dmax, pmax = (4, 5) if thorough else (3, 4)
    shapes_all = [s for d in range(1, dmax + 1) for s in itertools.product(range(1, pmax + 1), repeat=d)]
    if not thorough:
        shapes_all = [s for s in shapes_all if rng.random() < 0.6 or len(s) <= 2]
    cart_in = []
    for shp in shapes_all:
        nodes = [sorted(rng.sample(range(-20, 21), s)) for s in shp]
        for order in "CF":
            cart_in.append((nodes, order))
    jobs += [("cartesian", [nodes, order]) for nodes, order in cart_in]
    ml_in = []
    for _ in range(20):
        d = rng.randrange(1, 4)
        nums = [rng.choice([1, 2, 3, 5]) for _ in range(d)]
        a = [rng.randrange(-4, 4) for _ in range(d)]
        b = [a[i] + (nums[i] - 1) * rng.choice([1, 2, 4]) if nums[i] > 1 else a[i] for i in range(d)]
        for order in "CF":
            ml_in.append((a, b, nums, order))
    for _ in range(30 if thorough else 12):      # arbitrary binary64 endpoints (increasing and decreasing), n = 1 included
        d = rng.randrange(1, 4)
        nums = [rng.choice([1, 2, 3, 4, 6, 7]) for _ in range(d)]
        a = [rng.uniform(-5, 5) for _ in range(d)]
        b = [a[i] + rng.choice([-1, 1]) * rng.uniform(0.1, 3) for i in range(d)]
        ml_in.append((a, b, nums, rng.choice("CF")))
    jobs += [("mlinspace", list(t)) for t in ml_in]
    ci_in = []
    for _ in range(400 if thorough else 150):
        d = rng.randrange(1, 6)
        nums = [rng.choice([1, 2, 3, 4, 7]) for _ in range(d)]
        mode = rng.randrange(4)
        ind = [0 if mode == 0 else (n - 1 if mode == 1 else rng.randrange(n)) for n in nums]
        ci_in.append((ind, nums))
    jobs += [("cindex", [ind, nums]) for ind, nums in ci_in]
    near_in = []
    for _ in range(700 if thorough else 250):
        d = rng.randrange(1, 5 if thorough else 4)
        nodes = []
        for _i in range(d):
            s = rng.randrange(1, 6)
            pts = sorted(rng.sample(range(-16, 17), s))
            nodes.append([p / 4.0 for p in pts])
        x = []
        for g in nodes:
            mode = rng.randrange(5)
            if mode == 0:
                x.append(rng.choice(g))
            elif mode == 1 and len(g) > 1:
                i = rng.randrange(len(g) - 1)
                x.append((g[i] + g[i + 1]) / 2)           # exactly on a midpoint
            elif mode == 2:
                x.append(g[0] - rng.randrange(0, 3) / 8.0)
            elif mode == 3:
                x.append(g[-1] + rng.randrange(0, 3) / 8.0)
            else:
                x.append(rng.randrange(-160, 161) / 32.0)
        for order in "CF":
            near_in.append((nodes, x, order))
    jobs += [("nearest", [nodes, x, order]) for nodes, x, order in near_in]
    # typed queries: integer-typed points (Python ints, int32/int64 arrays; single point and 2-d batch) against float
    # grids with non-integer (dyadic: float arithmetic exact) values, float points against integer-typed grids, mixed grids
    import random as _random
    rng2 = _random.Random(ctx.seed * 7919 + 16)
    typed_in = []
    for t in range(240 if thorough else 90):
        d = rng2.randrange(1, 4)
        scen = t % 3                       # 0: int query / float grids, 1: float query / int grids, 2: mixed grids
        nodes, nkinds = [], []
        for i in range(d):
            npts = rng2.randrange(1, 6)
            as_int = (scen == 1) or (scen == 2 and i % 2 == 0)
            if as_int:
                nodes.append(sorted(rng2.sample(range(-9, 10), npts)))
                nkinds.append(rng2.choice(["int64", "int32", "pylist_int"]))
            else:
                g = sorted(rng2.sample([q for q in range(-40, 41) if q % 8 != 0], npts))    # eighths, none an integer
                nodes.append([q / 8.0 for q in g])
                nkinds.append(rng2.choice(["float64", "float64", "pylist", "float32"]))
        if scen == 1:
            xkind = rng2.choice(["float64", "pylist", "pytuple", "float32"])
            pts = [[rng2.randrange(-80, 81) / 8.0 for _ in range(d)] for _ in range(3)]
            pts.append([(g[0] + g[-1]) / 2.0 for g in nodes])
        else:
            xkind = rng2.choice(["pytuple_int", "pylist_int", "int32", "int64"])
            pts = [[rng2.randrange(-6, 7) for _ in range(d)] for _ in range(3)]
            pts.append([int(round(g[len(g) // 2])) for g in nodes])
        typed_in.append((nodes, nkinds, pts, xkind, bool(t % 2), rng2.choice("CF")))
    jobs += [("nearest_typed", list(t)) for t in typed_in]
    jobs = [(kind, arg, FORMS_ALL[j % len(FORMS_ALL)]) for j, (kind, arg) in enumerate(jobs)]   # rotating argument form
    ctx.jobdir = tempfile.mkdtemp(prefix="c16_", dir=ctx.work)
    started = start_jobs(ctx, jobs)          # runs while the proofs are being checked

    ctx.proofs(["C16/Props.v", "C16/PropsTie.v"])

    # ================= comb_jit (in-process)
    Ns = list(range(0, 71 if thorough else 48))
    pairs = [(N, k) for N in Ns for k in range(-1, N + 2)]
    huge = [2**31 - 1, 2**31, 2**32 + 5, 3037000499, 3037000500, 2**40, 2**62, 2**62 + 12345, INTP_MAX - 1, INTP_MAX]
    for N in huge:
        for k in [0, 1, 2, 3, 4, 5, 7, 20, 33, 34, N - 3, N - 2, N - 1, N]:
            pairs.append((N, k))
    for _ in range(400 if thorough else 150):
        N = rng.choice([rng.randrange(60, 200), rng.randrange(200, 5000), rng.randrange(2**20, 2**50)])
        k = rng.choice([rng.randrange(0, 40), N - rng.randrange(0, 40)])
        pairs.append((N, max(-1, k)))
    pairs = sorted(set(pairs))
    cases = []
    for N, k in pairs:
        r = int(comb_jit(N, k))
        cases.append(tup(zlit(N), zlit(k), zlit(r)))
        ctx.case(("comb", N, k), nontrivial=(2 <= k <= N - 2), sample={"comb_jit": [N, k], "impl": r})
        ctx.count("comb_jit:" + ("zero" if r == 0 else "nonzero"))
        # oracle: exact binomial, or 0 exactly when out of range / some product of the multiplicative formula overflows
        if N < 0 or k < 0 or k > N:
            exp_ok = (r == 0)
        else:
            c = math.comb(N, k)
            t = min(k, N - k)
            overflow = (k >= 2 and N == INTP_MAX) or (k >= 2 and any(math.comb(N, j - 1) * (N + 1 - j) > INTP_MAX for j in range(1, min(t, 70) + 1)))
            exp_ok = (r == c) or (r == 0 and overflow)
            if c <= INTP_MAX and not overflow and r != c:
                exp_ok = False
        if not exp_ok:
            ctx.fail("comb_jit_value", "comb_jit returns neither the exact binomial nor a justified 0", {"N": N, "k": k}, r, None)
    bad = ctx.coq_check("comb_jit", IMPORTS, "Z * Z * Z", "fun c => let '(N, k, r) := c in Z.eqb (comb_jit N k) r", cases)
    for i in bad:
        N, k = pairs[i]
        ctx.mismatch("C16.Model.comb_jit vs util.numba.comb_jit", {"N": N, "k": k}, int(comb_jit(N, k)),
                     ctx.coq_eval(IMPORTS, "comb_jit %s %s" % (zlit(N), zlit(k))))

    results = collect_jobs(ctx, jobs, started)
    shutil.rmtree(ctx.jobdir, ignore_errors=True)
    by_kind = {}
    for (kind, arg, form), res in zip(jobs, results):
        by_kind.setdefault(kind, []).append(res)
        ctx.count("argform:" + form)
        # argument handling: no array argument is modified, the result does not depend on the argument form
        # (list / tuple / int64 / int32 / row of a 2-d array / non-contiguous slice) nor on a repeated call
        for pr in (res[1].get("problems", []) if res[0] == "ok" else []):
            ctx.fail("argument_handling", pr, {"function": kind, "args": arg, "form": form}, pr, None)

    # ================= next_k_array walk + ranks
    cases, meta = [], []
    for (n, k), res in zip(walk_in, by_kind["walk"]):
        if bad_result(ctx, "next_k_array_walk", {"n": n, "k": k}, res):
            continue
        walk, ranks, ranks_jit = res[1]["walk"], res[1]["ranks"], res[1]["ranks_jit"]
        cases.append(tup(zlit(n), zlit(k), zlist2(walk), zlist(ranks), zlist(ranks_jit)))
        meta.append((n, k))
        ctx.case(("walk", n, k), nontrivial=(len(walk) >= 2), sample={"next_k_array walk": [n, k], "first": walk[:3]})
        ctx.count("walk:len=%d" % min(len(walk), 50) if len(walk) < 5 else "walk:len>=5")
        # oracle: all k-subsets exactly once, in colexicographic (combinatorial number system) order
        exp = sorted(itertools.combinations(range(n), k), key=lambda t: t[::-1])
        if [tuple(w) for w in walk] != exp:
            ctx.fail("next_k_array_walk", "walk is not all k-subsets once in colex order", {"n": n, "k": k}, walk[:10], exp[:10])
        if ranks != list(range(len(exp))) or ranks_jit != ranks:
            ctx.fail("k_array_rank", "rank is not the position in the walk", {"n": n, "k": k}, [ranks[:10], ranks_jit[:10]], None)
    ok = ("fun c => let '(n, k, walk, ranks, ranksj) := c in "
          "let w := k_walk (S (length walk)) n (zrange k) in "
          "Zss_eqb w walk && Zs_eqb (map k_array_rank w) ranks && Zs_eqb (map k_array_rank_jit w) ranksj")
    bad = ctx.coq_check("k_walk", IMPORTS, "Z * Z * list (list Z) * list Z * list Z", ok, cases, chunk=8)
    for i in bad:
        ctx.mismatch("C16.Model.k_walk/k_array_rank vs combinatorics.next_k_array/k_array_rank(_jit)", {"n": meta[i][0], "k": meta[i][1]})
    # single steps from arbitrary increasing arrays with large entries (ranks through comb_jit incl. overflow -> 0)
    cases, meta = [], []
    exact_rank = lambda v: sum(math.comb(v[i], i + 1) for i in range(len(v)))
    for a, res in zip(step_in, by_kind["nkstep"]):
        if bad_result(ctx, "next_k_array_step", {"a": a}, res):
            continue
        k = len(a)
        rj, nxt = res[1]["rj"], res[1]["nxt"]
        cases.append(tup(zlist(a), zlist(nxt), zlit(rj)))
        meta.append(a)
        ctx.case(("nk_step", tuple(a)), nontrivial=(k >= 2))
        ctx.count("nk_step:reset_prefix=%d" % next(i for i in range(k) if i + 1 == k or a[i] + 1 != a[i + 1]))
        # oracle (the theorem itself, in exact integers): strictly increasing, non-negative, rank + 1
        if sorted(nxt) != nxt or len(set(nxt)) != k or len(nxt) != k or nxt[0] < 0:
            ctx.fail("next_k_array_step", "successor not strictly increasing", {"a": a}, nxt, None)
        elif exact_rank(nxt) != exact_rank(a) + 1:
            ctx.fail("next_k_array_step", "rank(successor) != rank + 1", {"a": a}, nxt, None)
        # jitted rank: exact whenever every binomial term is far below the overflow threshold
        if all(a[i] < 2**20 for i in range(k)) and all(math.comb(a[i], i + 1) * (a[i] + 1) < INTP_MAX for i in range(1, k)) and rj != exact_rank(a):
            ctx.fail("k_array_rank", "k_array_rank_jit differs from the exact rank although no product overflows", {"a": a}, rj, exact_rank(a))
    bad = ctx.coq_check("next_k_array_step", IMPORTS, "list Z * list Z * Z",
                        "fun c => let '(a, nxt, rj) := c in Zs_eqb (next_k_array a) nxt && Z.eqb (k_array_rank_jit a) rj", cases)
    for i in bad:
        ctx.mismatch("C16.Model.next_k_array/k_array_rank_jit (single step)", {"a": meta[i]})

    # ================= simplex grid
    cases, meta = [], []
    for (m, n), res in zip(simplex_in, by_kind["simplex"]):
        if bad_result(ctx, "simplex_grid", {"m": m, "n": n}, res):
            continue
        rows, idxs, L, Lj = res[1]["rows"], res[1]["idxs"], res[1]["L"], res[1]["Lj"]
        cases.append(tup(zlit(m), zlit(n), zlist2(rows), zlist(idxs), zlit(L), zlit(Lj)))
        meta.append((m, n))
        ctx.case(("simplex", m, n), nontrivial=(len(rows) >= 2), sample={"simplex_grid": [m, n], "rows": rows[:4]})
        exp = sorted(c for c in itertools.product(range(n + 1), repeat=m) if sum(c) == n)
        if [tuple(r) for r in rows] != exp:
            ctx.fail("simplex_grid", "not all compositions once in lexicographic order", {"m": m, "n": n}, rows[:10], exp[:10])
        if [tuple(r) for r in res[1]["rows_after"]] != exp or res[1]["idxs2"] != list(range(len(exp))):
            ctx.fail("simplex_index_repeat", "after two simplex_index sweeps over the rows of simplex_grid(m,n) the grid / the second lookups are wrong",
                     {"m": m, "n": n}, [res[1]["rows_after"][:10], res[1]["idxs2"][:10]], exp[:10])
        if idxs != list(range(len(exp))) or L != len(exp) or Lj != len(exp):
            ctx.fail("simplex_index", "simplex_index/num_compositions not inverse/length", {"m": m, "n": n}, [idxs[:10], L, Lj], len(exp))
    ok = ("fun c => let '(m, n, rows, idxs, L, Lj) := c in "
          "opt_eqb Zss_eqb (simplex_grid m n) (Some rows) && Zs_eqb (map (fun x => simplex_index x m n) rows) idxs "
          "&& Z.eqb (num_compositions m n) L && Z.eqb (num_compositions_jit m n) Lj")
    bad = ctx.coq_check("simplex_grid", IMPORTS, "Z * Z * list (list Z) * list Z * Z * Z", ok, cases, chunk=6)
    for i in bad:
        ctx.mismatch("C16.Model.simplex_grid/simplex_index vs _gridtools", {"m": meta[i][0], "n": meta[i][1]})

    # ================= cartesian / mlinspace / _cartesian_index
    cases, meta = [], []
    for (nodes, order), res in zip(cart_in, by_kind["cartesian"]):
        shp = tuple(len(g) for g in nodes)
        if bad_result(ctx, "cartesian", {"nodes": nodes, "order": order}, res):
            continue
        rows = res[1]["rows"]
        cases.append(tup(blit(order == "F"), zlist2(nodes), zlist2(rows)))
        meta.append((shp, order))
        ctx.case(("cartesian", shp, order, tuple(map(tuple, nodes))), nontrivial=(len(rows) >= 2))
        if order == "C":
            exp = [list(t) for t in itertools.product(*nodes)]
        else:
            exp = [list(t[::-1]) for t in itertools.product(*nodes[::-1])]
        if rows != exp:
            ctx.fail("cartesian", "not the full product grid in %s order" % order, {"nodes": nodes, "order": order}, rows[:8], exp[:8])
    bad = ctx.coq_check("cartesian", IMPORTS, "bool * list (list Z) * list (list Z)",
                        "fun c => let '(f, nodes, rows) := c in Zss_eqb (cartesian 0%Z f nodes) rows", cases, chunk=40)
    for i in bad:
        ctx.mismatch("C16.Model.cartesian vs _gridtools.cartesian", {"shape": meta[i][0], "order": meta[i][1]})
    # mlinspace = cartesian of linspace nodes.  Oracle: exact rational nodes a + j(b-a)/(n-1) (dyadic data: equality;
    # arbitrary floats: 1e-12 relative, endpoints exact).  Correspondence: the float instance of the model bit-exactly
    # on every case, the Q instance on the dyadic cases.
    fcases, fmeta, qcases, qmeta = [], [], [], []
    for (a, b, nums, order), res in zip(ml_in, by_kind["mlinspace"]):
        inp = {"a": a, "b": b, "nums": nums, "order": order}
        if bad_result(ctx, "mlinspace", inp, res):
            continue
        d = len(nums)
        rows = res[1]["rows"]
        dyadic = all(float(v).is_integer() for v in list(a) + list(b))
        nodes = [[frac(a[i]) + (frac(b[i]) - frac(a[i])) * j / (nums[i] - 1) if nums[i] > 1 else frac(a[i]) for j in range(nums[i])] for i in range(d)]
        exp = [list(t) for t in itertools.product(*nodes)] if order == "C" else [list(t[::-1]) for t in itertools.product(*nodes[::-1])]
        ctx.case(("mlinspace", tuple(a), tuple(b), tuple(nums), order), nontrivial=(len(exp) >= 2))
        ctx.count("mlinspace:" + ("dyadic" if dyadic else "binary64"))
        good = len(rows) == len(exp) and all(len(r) == d for r in rows)
        if good and dyadic:
            good = [[frac(v) for v in r] for r in rows] == exp
        elif good:
            good = all(abs(frac(v) - e) <= Fraction(1, 10**12) * (1 + abs(e)) for r, er in zip(rows, exp) for v, e in zip(r, er))
            ends = [{float(a[i])} | ({float(b[i])} if nums[i] > 1 else set()) for i in range(d)]
            good = good and all(ends[i] <= {r[i] for r in rows} for i in range(d))
        if not good:
            ctx.fail("mlinspace", "mlinspace is not the product grid of the linspace nodes", inp, rows[:8], [[float(v) for v in r] for r in exp[:8]])
        fcases.append(tup(blit(order == "F"), flist(a), flist(b), zlist(nums), flist2(rows)))
        fmeta.append(inp)
        if dyadic:
            qcases.append(tup(blit(order == "F"), qlist([frac(v) for v in a]), qlist([frac(v) for v in b]), zlist(nums), qlist2([[frac(v) for v in r] for r in rows])))
            qmeta.append(inp)
    IMP2 = "From QE Require Import C16.Model C16.Model2."
    bad = ctx.coq_check("mlinspace_float", IMP2, "bool * list float * list float * list Z * list (list float)",
                        "fun c => let '(f, a, b, nums, rows) := c in Fss_eqb (mlinspace f a b nums) rows", fcases, chunk=30)
    for i in bad:
        ctx.mismatch("C16.Model2.mlinspace (binary64 instance, bit-exact) vs _gridtools.mlinspace", fmeta[i])
    bad = ctx.coq_check("mlinspace_Q", IMP2, "bool * list Q * list Q * list Z * list (list Q)",
                        "fun c => let '(f, a, b, nums, rows) := c in Qss_eqb (mlinspace f a b nums) rows", qcases, chunk=30)
    for i in bad:
        ctx.mismatch("C16.Model2.mlinspace (Q instance) vs _gridtools.mlinspace on dyadic data", qmeta[i])
    # _cartesian_index directly: mixed-radix value (oracle: numpy's own ravel_multi_index, C order)
    cases, meta = [], []
    for (ind, nums), res in zip(ci_in, by_kind["cindex"]):
        if bad_result(ctx, "cartesian_index", {"indices": ind, "nums": nums}, res):
            continue
        idx = res[1]["idx"]
        cases.append(tup(zlist(ind), zlist(nums), zlit(idx)))
        meta.append((ind, nums))
        ctx.case(("cindex", tuple(ind), tuple(nums)), nontrivial=(len(nums) >= 2 and max(nums) >= 2))
        exp = int(np.ravel_multi_index(tuple(ind), tuple(nums)))
        if idx != exp:
            ctx.fail("cartesian_index", "_cartesian_index is not the mixed-radix number of the index vector", {"indices": ind, "nums": nums}, idx, exp)
    bad = ctx.coq_check("cartesian_index", IMPORTS, "list Z * list Z * Z",
                        "fun c => let '(ind, nums, idx) := c in Z.eqb (cartesian_index ind nums) idx", cases)
    for i in bad:
        ctx.mismatch("C16.Model.cartesian_index vs _gridtools._cartesian_index", {"indices": meta[i][0], "nums": meta[i][1]})

    # ================= cartesian_nearest_index (dyadic data: float arithmetic exact, model runs over Q)
    cases, meta = [], []
    ties = 0
    for (nodes, x, order), res in zip(near_in, by_kind["nearest"]):
        inp = {"nodes": nodes, "x": x, "order": order}
        if bad_result(ctx, "nearest_index", inp, res):
            continue
        idx = res[1]["idx"]
        cases.append(tup(blit(order == "F"), qlist2(nodes), qlist(x), zlit(idx)))
        meta.append((nodes, x, order))
        ctx.case(("nearest", tuple(map(tuple, nodes)), tuple(x), order), nontrivial=(max(len(g) for g in nodes) >= 2),
                 sample={"nearest": inp, "impl": idx})
        grid = (list(itertools.product(*nodes)) if order == "C" else [t[::-1] for t in itertools.product(*nodes[::-1])])
        if not (0 <= idx < len(grid)):
            ctx.fail("nearest_index_range", "index outside the grid", inp, idx, None)
            continue
        dist = [sum((frac(p) - frac(q)) ** 2 for p, q in zip(row, x)) for row in grid]
        if dist[idx] != min(dist):
            ctx.fail("nearest_index", "returned grid point is not at minimum distance", inp, idx, dist.index(min(dist)))
            continue
        # documented tie rule: among equidistant nodes of a coordinate the lower one
        low = tuple(min(range(len(g)), key=lambda j: (abs(frac(g[j]) - frac(xi)), j)) for g, xi in zip(nodes, x))
        tie = any(sum(1 for gj in g if abs(frac(gj) - frac(xi)) == min(abs(frac(t) - frac(xi)) for t in g)) > 1 for g, xi in zip(nodes, x))
        ties += tie
        want = tuple(g[j] for g, j in zip(nodes, low))
        if tuple(grid[idx]) != want:
            ctx.fail("nearest_index_tie", "equidistant nodes: not resolved to the lower neighbour", inp, idx, grid.index(want))
    ctx.count("nearest:cases_with_tie", ties)
    bad = ctx.coq_check("cartesian_nearest_index", IMPORTS, "bool * list (list Q) * list Q * Z",
                        "fun c => let '(f, nodes, x, idx) := c in Z.eqb (cartesian_nearest_index f nodes x) idx", cases, chunk=150)
    for i in bad:
        nodes, x, order = meta[i]
        ctx.mismatch("C16.Model.cartesian_nearest_index vs _gridtools.cartesian_nearest_index", {"nodes": nodes, "x": x, "order": order})

    # ---- typed queries / typed grids: same exact oracle, same model (values are dyadic, so Q = binary64 here)
    cases, meta = [], []
    for (nodes, nkinds, pts, xkind, batch, order), res in zip(typed_in, by_kind["nearest_typed"]):
        base = {"nodes": nodes, "node_types": nkinds, "x": pts, "x_type": xkind, "batch": batch, "order": order}
        if bad_result(ctx, "nearest_index", base, res):
            continue
        ctx.count("nearest_typed:x=%s%s" % (xkind, "/batch" if batch else ""))
        grid = (list(itertools.product(*nodes)) if order == "C" else [t[::-1] for t in itertools.product(*nodes[::-1])])
        if len(res[1]["idx"]) != len(pts):
            ctx.fail("nearest_index_range", "one index per query point expected", base, res[1]["idx"], None)
            continue
        for x, idx in zip(pts, res[1]["idx"]):
            inp = dict(base, x=x)
            ctx.case(("nearest_typed", tuple(map(tuple, nodes)), tuple(nkinds), tuple(x), xkind, batch, order), nontrivial=(max(len(g) for g in nodes) >= 2))
            cases.append(tup(blit(order == "F"), qlist2([[frac(v) for v in g] for g in nodes]), qlist([frac(v) for v in x]), zlit(idx)))
            meta.append(inp)
            if not (0 <= idx < len(grid)):
                ctx.fail("nearest_index_range", "index outside the grid", inp, idx, None)
                continue
            dist = [sum((frac(p) - frac(q)) ** 2 for p, q in zip(row, x)) for row in grid]
            if dist[idx] != min(dist):
                ctx.fail("nearest_index", "returned grid point is not at minimum distance (typed query/grid)", inp, idx, dist.index(min(dist)))
                continue
            low = tuple(min(range(len(g)), key=lambda j: (abs(frac(g[j]) - frac(xi)), j)) for g, xi in zip(nodes, x))
            want = tuple(g[j] for g, j in zip(nodes, low))
            if tuple(grid[idx]) != want:
                ctx.fail("nearest_index_tie", "equidistant nodes: not resolved to the lower neighbour", inp, idx, grid.index(want))
    bad = ctx.coq_check("cartesian_nearest_index_typed", IMPORTS, "bool * list (list Q) * list Q * Z",
                        "fun c => let '(f, nodes, x, idx) := c in Z.eqb (cartesian_nearest_index f nodes x) idx", cases, chunk=150)
    for i in bad:
        ctx.mismatch("C16.Model.cartesian_nearest_index vs _gridtools.cartesian_nearest_index (typed query/grid)", meta[i])


def replay(data):
    """Re-run the first recorded failing input against the current implementation and print what the oracle compares."""
    first = data.get("first") or (data.get("mismatches") or [{}])[0]
    print("replay:", json.dumps(first)[:2000])
    inp = first.get("input", {})
    try:
        if "function" in inp:
            r = impl_job(inp["function"], inp["args"], inp.get("form", "nd"))
            print("argument handling of %s%s with argument form %s:" % (inp["function"], inp["args"], inp.get("form")), r["problems"] or "no problem")
        elif "N" in inp and "k" in inp:
            from quantecon.util.numba import comb_jit
            print("comb_jit(%d,%d) = %d; math.comb = %s" % (inp["N"], inp["k"], comb_jit(inp["N"], inp["k"]),
                  math.comb(inp["N"], inp["k"]) if 0 <= inp["k"] <= inp["N"] else 0))
        elif "m" in inp and "n" in inp:
            r = impl_job("simplex", [inp["m"], inp["n"]])
            exp = sorted(c for c in itertools.product(range(inp["n"] + 1), repeat=inp["m"]) if sum(c) == inp["n"])
            print("simplex_grid rows:", r["rows"][:12], "\nexpected (lexicographic):", exp[:12], "\nsimplex_index:", r["idxs"][:12],
                  "\nsecond sweep over the same rows:", r["idxs2"][:12], "\ngrid afterwards:", r["rows_after"][:12], r["problems"])
        elif "n" in inp and "k" in inp:
            r = impl_job("walk", [inp["n"], inp["k"]])
            exp = sorted(itertools.combinations(range(inp["n"]), inp["k"]), key=lambda t: t[::-1])
            print("walk:", r["walk"][:12], "\nexpected (colex):", exp[:12], "\nranks:", r["ranks"][:12], r["ranks_jit"][:12])
        elif "indices" in inp:
            r = impl_job("cindex", [inp["indices"], inp["nums"]])
            print("_cartesian_index =", r["idx"], "ravel_multi_index =", int(np.ravel_multi_index(tuple(inp["indices"]), tuple(inp["nums"]))))
        elif "x_type" in inp:
            r = impl_job("nearest_typed", [inp["nodes"], inp["node_types"], [inp["x"]], inp["x_type"], inp["batch"], inp["order"]])
            print("cartesian_nearest_index (x as %s, grids as %s) =" % (inp["x_type"], inp["node_types"]), r["idx"], " expected:", first.get("expected"))
        elif "x" in inp and "nodes" in inp:
            r = impl_job("nearest", [inp["nodes"], inp["x"], inp["order"]])
            print("cartesian_nearest_index =", r["idx"], " expected:", first.get("expected"))
        elif "nodes" in inp:
            r = impl_job("cartesian", [inp["nodes"], inp["order"]])
            print("cartesian rows:", r["rows"][:12])
        elif "nums" in inp:
            r = impl_job("mlinspace", [inp["a"], inp["b"], inp["nums"], inp["order"]])
            print("mlinspace rows:", r["rows"][:12])
        elif "a" in inp:
            r = impl_job("nkstep", inp["a"])
            print("next_k_array(%s) = %s, k_array_rank_jit = %d, exact rank = %d" % (
                inp["a"], r["nxt"], r["rj"], sum(math.comb(v, i + 1) for i, v in enumerate(inp["a"]))))
    except Exception as e:
        print("implementation raised:", repr(e))
    return 0


if __name__ == "__main__" and len(sys.argv) >= 4 and sys.argv[1] == "--worker":
    sys.exit(worker(sys.argv[2], sys.argv[3]))

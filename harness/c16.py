"""C16: grid and combinatorial enumerations are exact bijections in the stated order."""
import itertools, math
import numpy as np
from common import *

IMPORTS = "From QE Require Import C16.Model."
INTP_MAX = 2**63 - 1
FINISH = dict(level="proof", technique_note=(
    "Coq theorems (coq/C16/Props.v) about the executable model coq/C16/Model.v; model tied to /repo by "
    "evaluating it with vm_compute on the same inputs as the implementation (exhaustive small scopes + selected huge "
    "arguments); independent itertools/math.comb oracle on the implementation's output. non-trivial = distinct input "
    "with a non-degenerate answer (k>=2 for comb, >=2 rows for grids)"))


def run(ctx):
    from quantecon.util.numba import comb_jit
    from quantecon.util.combinatorics import next_k_array, k_array_rank, k_array_rank_jit
    from quantecon._gridtools import (simplex_grid, simplex_index, num_compositions, num_compositions_jit,
                                      cartesian, mlinspace, cartesian_nearest_index, _cartesian_index)
    thorough = ctx.tier == "thorough"
    ctx.proofs(["C16/Props.v", "C16/PropsTie.v"])

    # ---------------- comb_jit
    Ns = list(range(0, 71 if thorough else 48))
    pairs = [(N, k) for N in Ns for k in range(-1, N + 2)]
    huge = [2**31 - 1, 2**31, 2**32 + 5, 3037000499, 3037000500, 2**40, 2**62, 2**62 + 12345, INTP_MAX - 1, INTP_MAX]
    for N in huge:
        for k in [0, 1, 2, 3, 4, 5, 7, 20, 33, 34, N - 3, N - 2, N - 1, N]:
            pairs.append((N, k))
    for _ in range(400 if thorough else 150):
        N = ctx.rng.choice([ctx.rng.randrange(60, 200), ctx.rng.randrange(200, 5000), ctx.rng.randrange(2**20, 2**50)])
        k = ctx.rng.choice([ctx.rng.randrange(0, 40), N - ctx.rng.randrange(0, 40)])
        pairs.append((N, max(-1, k)))
    pairs = sorted(set(pairs))
    cases = []
    for N, k in pairs:
        r = int(comb_jit(N, k))
        cases.append(tup(zlit(N), zlit(k), zlit(r)) )
        ctx.case(("comb", N, k), nontrivial=(2 <= k <= N - 2), sample={"comb_jit": [N, k], "impl": r})
        ctx.count("comb_jit:" + ("zero" if r == 0 else "nonzero"))
        # oracle: exact binomial, or 0 exactly when out of range / some product of the multiplicative formula overflows
        if N < 0 or k < 0 or k > N:
            exp_ok = (r == 0)
        else:
            c = math.comb(N, k)
            t = min(k, N - k)
            overflow = (k >= 2 and N == INTP_MAX) or (k >= 2 and any(math.comb(N, j - 1) * (N + 1 - j) > INTP_MAX for j in range(1, min(t, 70) + 1)))
            exp_ok = (r == c) or (r == 0 and overflow)
            if c <= INTP_MAX and not overflow and r != c:
                exp_ok = False
        if not exp_ok:
            ctx.fail("comb_jit_value", "comb_jit returns neither the exact binomial nor a justified 0", {"N": N, "k": k}, r, None)
    bad = ctx.coq_check("comb_jit", IMPORTS, "Z * Z * Z", "fun c => let '(N, k, r) := c in Z.eqb (comb_jit N k) r", cases)
    for i in bad:
        N, k = pairs[i]
        ctx.mismatch("C16.Model.comb_jit vs util.numba.comb_jit", {"N": N, "k": k}, int(comb_jit(N, k)),
                     ctx.coq_eval(IMPORTS, "comb_jit %s %s" % (zlit(N), zlit(k))))

    # ---------------- next_k_array walk + ranks
    nmax = 10 if thorough else 8
    cases, meta = [], []
    for n in range(1, nmax + 1):
        for k in range(1, n + 1):
            a = np.arange(k)
            walk, ranks, ranks_jit = [], [], []
            while a[-1] < n:
                walk.append([int(x) for x in a])
                ranks.append(int(k_array_rank(a)))
                ranks_jit.append(int(k_array_rank_jit(a)))
                next_k_array(a)
                if len(walk) > 2000:
                    break
            cases.append(tup(zlit(n), zlit(k), zlist2(walk), zlist(ranks), zlist(ranks_jit)))
            meta.append((n, k))
            ctx.case(("walk", n, k), nontrivial=(len(walk) >= 2), sample={"next_k_array walk": [n, k], "first": walk[:3]})
            ctx.count("walk:len=%d" % min(len(walk), 50) if len(walk) < 5 else "walk:len>=5")
            # oracle: all k-subsets exactly once, in colexicographic (combinatorial number system) order
            exp = sorted(itertools.combinations(range(n), k), key=lambda t: t[::-1])
            if [tuple(w) for w in walk] != exp:
                ctx.fail("next_k_array_walk", "walk is not all k-subsets once in colex order", {"n": n, "k": k}, walk[:10], exp[:10])
            if ranks != list(range(len(exp))) or ranks_jit != ranks:
                ctx.fail("k_array_rank", "rank is not the position in the walk", {"n": n, "k": k}, [ranks[:10], ranks_jit[:10]], None)
    ok = ("fun c => let '(n, k, walk, ranks, ranksj) := c in "
          "let w := k_walk (S (length walk)) n (zrange k) in "
          "Zss_eqb w walk && Zs_eqb (map k_array_rank w) ranks && Zs_eqb (map k_array_rank_jit w) ranksj")
    bad = ctx.coq_check("k_walk", IMPORTS, "Z * Z * list (list Z) * list Z * list Z", ok, cases, chunk=8)
    for i in bad:
        ctx.mismatch("C16.Model.k_walk/k_array_rank vs combinatorics.next_k_array/k_array_rank(_jit)", {"n": meta[i][0], "k": meta[i][1]})
    # single steps from arbitrary increasing arrays with large entries (ranks through comb_jit incl. overflow -> 0)
    cases, meta = [], []
    for _ in range(300 if thorough else 120):
        k = ctx.rng.randrange(1, 7)
        top = ctx.rng.choice([12, 60, 2**20, 2**40])
        a = sorted(ctx.rng.sample(range(top), k))
        if ctx.rng.random() < 0.5:   # plant a run at the start so the inner loop executes
            r = ctx.rng.randrange(1, k + 1)
            a = list(range(a[0], a[0] + r)) + [x + a[0] + r + 1 for x in a[r:]]
            a = sorted(set(a))
            k = len(a)
        arr = np.array(a, dtype=np.int64)
        rj = int(k_array_rank_jit(arr))
        nxt = [int(x) for x in next_k_array(arr.copy())]
        cases.append(tup(zlist(a), zlist(nxt), zlit(rj)))
        meta.append(a)
        ctx.case(("nk_step", tuple(a)), nontrivial=(k >= 2))
        exact_rank = sum(math.comb(a[i], i + 1) for i in range(k))
        if exact_rank <= INTP_MAX and all(math.comb(a[i], i + 1) <= INTP_MAX for i in range(k)):
            pass  # jitted rank may legitimately contain 0 terms on overflow; checked against the model only
        if sorted(nxt) != nxt or len(set(nxt)) != k:
            ctx.fail("next_k_array_step", "successor not strictly increasing", {"a": a}, nxt, None)
    bad = ctx.coq_check("next_k_array_step", IMPORTS, "list Z * list Z * Z",
                        "fun c => let '(a, nxt, rj) := c in Zs_eqb (next_k_array a) nxt && Z.eqb (k_array_rank_jit a) rj", cases)
    for i in bad:
        ctx.mismatch("C16.Model.next_k_array/k_array_rank_jit (single step)", {"a": meta[i]})

    # ---------------- simplex grid
    mmax, nmax2 = (6, 8) if thorough else (5, 6)
    cases, meta = [], []
    for m in range(1, mmax + 1):
        for n in range(0, nmax2 + 1):
            g = simplex_grid(m, n)
            rows = [[int(x) for x in r] for r in g]
            idxs = [int(simplex_index(np.array(r), m, n)) for r in rows]
            L = int(num_compositions(m, n)); Lj = int(num_compositions_jit(m, n))
            cases.append(tup(zlit(m), zlit(n), zlist2(rows), zlist(idxs), zlit(L), zlit(Lj)))
            meta.append((m, n))
            ctx.case(("simplex", m, n), nontrivial=(len(rows) >= 2), sample={"simplex_grid": [m, n], "rows": rows[:4]})
            exp = sorted(c for c in itertools.product(range(n + 1), repeat=m) if sum(c) == n)
            if [tuple(r) for r in rows] != exp:
                ctx.fail("simplex_grid", "not all compositions once in lexicographic order", {"m": m, "n": n}, rows[:10], exp[:10])
            if idxs != list(range(len(exp))) or L != len(exp) or Lj != len(exp):
                ctx.fail("simplex_index", "simplex_index/num_compositions not inverse/length", {"m": m, "n": n}, [idxs[:10], L, Lj], len(exp))
    ok = ("fun c => let '(m, n, rows, idxs, L, Lj) := c in "
          "opt_eqb Zss_eqb (simplex_grid m n) (Some rows) && Zs_eqb (map (fun x => simplex_index x m n) rows) idxs "
          "&& Z.eqb (num_compositions m n) L && Z.eqb (num_compositions_jit m n) Lj")
    bad = ctx.coq_check("simplex_grid", IMPORTS, "Z * Z * list (list Z) * list Z * Z * Z", ok, cases, chunk=6)
    for i in bad:
        ctx.mismatch("C16.Model.simplex_grid/simplex_index vs _gridtools", {"m": meta[i][0], "n": meta[i][1]})

    # ---------------- cartesian / mlinspace / _cartesian_index
    dmax, pmax = (4, 5) if thorough else (3, 4)
    shapes_all = [s for d in range(1, dmax + 1) for s in itertools.product(range(1, pmax + 1), repeat=d)]
    if not thorough:
        shapes_all = [s for s in shapes_all if ctx.rng.random() < 0.6 or len(s) <= 2]
    cases, meta = [], []
    for shp in shapes_all:
        nodes = []
        base = 0
        for s in shp:
            pts = sorted(ctx.rng.sample(range(-20, 21), s))
            nodes.append(pts)
        for order in "CF":
            out = cartesian([np.array(p) for p in nodes], order=order)
            rows = [[int(x) for x in r] for r in out]
            cases.append(tup(blit(order == "F"), zlist2(nodes), zlist2(rows)))
            meta.append((shp, order))
            ctx.case(("cartesian", shp, order, tuple(map(tuple, nodes))), nontrivial=(len(rows) >= 2))
            if order == "C":
                exp = [list(t) for t in itertools.product(*nodes)]
            else:
                exp = [list(t[::-1]) for t in itertools.product(*nodes[::-1])]
            if rows != exp:
                ctx.fail("cartesian", "not the full product grid in %s order" % order, {"nodes": nodes, "order": order}, rows[:8], exp[:8])
    bad = ctx.coq_check("cartesian", IMPORTS, "bool * list (list Z) * list (list Z)",
                        "fun c => let '(f, nodes, rows) := c in Zss_eqb (cartesian 0%Z f nodes) rows", cases, chunk=40)
    for i in bad:
        ctx.mismatch("C16.Model.cartesian vs _gridtools.cartesian", {"shape": meta[i][0], "order": meta[i][1]})
    # mlinspace is cartesian of linspace nodes: check shape/order on dyadic data through the oracle only
    for _ in range(20):
        d = ctx.rng.randrange(1, 4)
        nums = [ctx.rng.choice([1, 2, 3, 5]) for _ in range(d)]
        a = [ctx.rng.randrange(-4, 4) for _ in range(d)]
        b = [a[i] + (nums[i] - 1) * ctx.rng.choice([1, 2, 4]) if nums[i] > 1 else a[i] for i in range(d)]
        for order in "CF":
            out = mlinspace(a, b, nums, order=order)
            nodes = [[a[i] + (b[i] - a[i]) * j / (nums[i] - 1) if nums[i] > 1 else a[i] for j in range(nums[i])] for i in range(d)]
            exp = [list(t) for t in itertools.product(*nodes)] if order == "C" else [list(t[::-1]) for t in itertools.product(*nodes[::-1])]
            ctx.case(("mlinspace", tuple(a), tuple(b), tuple(nums), order), nontrivial=True)
            if out.tolist() != exp:
                ctx.fail("mlinspace", "mlinspace is not the product grid", {"a": a, "b": b, "nums": nums, "order": order}, out.tolist()[:8], exp[:8])

    # ---------------- cartesian_nearest_index (dyadic data: float arithmetic exact, model runs over Q)
    cases, meta = [], []
    for _ in range(700 if thorough else 250):
        d = ctx.rng.randrange(1, 5 if thorough else 4)
        nodes = []
        for _i in range(d):
            s = ctx.rng.randrange(1, 6)
            pts = sorted(ctx.rng.sample(range(-16, 17), s))
            nodes.append([p / 4.0 for p in pts])
        x = []
        for g in nodes:
            mode = ctx.rng.randrange(5)
            if mode == 0:
                x.append(ctx.rng.choice(g))
            elif mode == 1 and len(g) > 1:
                i = ctx.rng.randrange(len(g) - 1)
                x.append((g[i] + g[i + 1]) / 2)           # exactly on a midpoint
            elif mode == 2:
                x.append(g[0] - ctx.rng.randrange(0, 3) / 8.0)
            elif mode == 3:
                x.append(g[-1] + ctx.rng.randrange(0, 3) / 8.0)
            else:
                x.append(ctx.rng.randrange(-160, 161) / 32.0)
        for order in "CF":
            idx = int(cartesian_nearest_index(np.array(x), tuple(np.array(g) for g in nodes), order=order))
            cases.append(tup(blit(order == "F"), qlist2(nodes), qlist(x), zlit(idx)))
            meta.append((nodes, x, order))
            ctx.case(("nearest", tuple(map(tuple, nodes)), tuple(x), order), nontrivial=(max(len(g) for g in nodes) >= 2),
                     sample={"nearest": {"nodes": nodes, "x": x, "order": order}, "impl": idx})
            grid = cartesian([np.array(g) for g in nodes], order=order)
            if not (0 <= idx < len(grid)):
                ctx.fail("nearest_index_range", "index outside the grid", {"nodes": nodes, "x": x, "order": order}, idx, None)
                continue
            dist = [sum((frac(p) - frac(q)) ** 2 for p, q in zip(row, x)) for row in grid.tolist()]
            if dist[idx] != min(dist):
                ctx.fail("nearest_index", "returned grid point is not at minimum distance", {"nodes": nodes, "x": x, "order": order}, idx, dist.index(min(dist)))
    bad = ctx.coq_check("cartesian_nearest_index", IMPORTS, "bool * list (list Q) * list Q * Z",
                        "fun c => let '(f, nodes, x, idx) := c in Z.eqb (cartesian_nearest_index f nodes x) idx", cases, chunk=150)
    for i in bad:
        nodes, x, order = meta[i]
        ctx.mismatch("C16.Model.cartesian_nearest_index vs _gridtools.cartesian_nearest_index", {"nodes": nodes, "x": x, "order": order})


def replay(data):
    """Re-run the first recorded failing input against the current implementation."""
    from quantecon.util.numba import comb_jit
    first = data.get("first") or (data.get("mismatches") or [{}])[0]
    print("replay:", json.dumps(first)[:2000])
    inp = first.get("input", {})
    if "N" in inp and "k" in inp:
        print("comb_jit(%d,%d) = %d; math.comb = %s" % (inp["N"], inp["k"], comb_jit(inp["N"], inp["k"]),
              math.comb(inp["N"], inp["k"]) if 0 <= inp["k"] <= inp["N"] else 0))
    return 0

"""C07: LQ control - returned (P, F, d) is the optimal value and policy of the problem.

Correspondence: coq/C07/Model.v (update_values, the backward recursion, the policy list popped from
the end, compute_sequence as a function of the shocks, stationary_values through the C06 doubling model)
evaluated in Coq (NumQ exactly on small horizons, NumF on all) against quantecon.LQ on the same data.
Oracle (independent of the model): exact T-period quadratic programme solved as one linear system in
Fractions, cost of the returned policy by direct summation (mpmath 50 digits), perturbed linear rules,
fixed point of the update, closed-loop policy evaluation; derived solvers RBLQ / nnash / LQMarkov."""
import sys, inspect, math, time
import numpy as np
import mpmath as mp
from common import *

IMPORTS = "From QE Require Import Base.LinAlg Base.Gauss C06.Model C07.Model."
FINISH = dict(level="proof", technique_note=(
    "Coq theorems (coq/C07/Props.v) about the executable model coq/C07/Model.v (generic over Num; NumQ proved, NumF run); "
    "model tied to /repo by vm_compute on the inputs of every implementation call (1e-9; stationary values 1e-8); independent "
    "oracle: exact finite-horizon QP in Fractions, direct summation of the cost of the returned policy in mpmath, perturbed rules, "
    "fixed point, RBLQ/nnash/LQMarkov cross-checks. non-trivial = horizon T>=2 (finite) / Riccati loop ran >=2 iterations "
    "(stationary) / derived-solver case on a system with n>=1 that converged"))

mp.mp.dps = 50
TOL = 1e-9        # finite-horizon correspondence and oracle (relative to 1 + |value|)
TOL_ST = 1e-8     # stationary values (the Riccati loop itself stops at 1e-10 absolute)


# ------------------------------------------------------------------ literals / small exact algebra
def zl(n):
    return "(%d)%%Z" % int(n)


def f1(x):
    return flit(x) + "%float"


def F_(n, d=1):
    return Fraction(n, d)


def fl(M):
    return [[float(x) for x in row] for row in M]


def npf(M):
    return np.array(fl(M), dtype=float)


def fmat3(Ms):
    Ms = list(Ms)
    return "[" + "; ".join(flist2(M) for M in Ms) + "]" if Ms else "(@nil (list (list float)))"


def qmat3(Ms):
    Ms = list(Ms)
    return "[" + "; ".join(qlist2(M) for M in Ms) + "]" if Ms else "(@nil (list (list Q)))"


def fr2(M):
    return [[frac(x) for x in row] for row in np.atleast_2d(M).tolist()]


def mmul(X, Y):
    return [[sum(X[i][l] * Y[l][j] for l in range(len(Y))) for j in range(len(Y[0]))] for i in range(len(X))]


def mtr(X):
    return [list(r) for r in zip(*X)]


def madd(X, Y, c=1):
    return [[X[i][j] + c * Y[i][j] for j in range(len(X[0]))] for i in range(len(X))]


def mscale(c, X):
    return [[c * x for x in row] for row in X]


def zeros(r, c):
    return [[Fraction(0)] * c for _ in range(r)]


def fsolve(Amat, b):
    """exact Gaussian elimination (Fractions); b is a list of right-hand-side columns stacked as a matrix"""
    n = len(Amat)
    M = [list(Amat[i]) + list(b[i]) for i in range(n)]
    for c in range(n):
        p = next((r for r in range(c, n) if M[r][c] != 0), None)
        if p is None:
            raise ZeroDivisionError("singular")
        M[c], M[p] = M[p], M[c]
        piv = M[c][c]
        M[c] = [x / piv for x in M[c]]
        for r in range(n):
            if r != c and M[r][c] != 0:
                f = M[r][c]
                M[r] = [x - f * y for x, y in zip(M[r], M[c])]
    return [row[n:] for row in M]


def rnd_frac(rng, lo=-4, hi=4, dens=(1, 1, 2, 2, 3, 4, 5, 8)):
    return Fraction(rng.randint(lo, hi), rng.choice(dens))


def rnd_mat(rng, r, c, **kw):
    return [[rnd_frac(rng, **kw) for _ in range(c)] for _ in range(r)]


def spec_radius(M):
    M = np.atleast_2d(np.array(M, dtype=float))
    return float(max(abs(np.linalg.eigvals(M)))) if M.size else 0.0


def scale_to_radius(A, target):
    rho = spec_radius(fl(A))
    if rho < 1e-9:
        return A
    s = Fraction(max(1, round(target / rho * 64)), 64)
    return [[x * s for x in row] for row in A]


def mpm(M):
    M = np.atleast_2d(np.array(M, dtype=float))
    return mp.matrix([[mp.mpf(float(x)) for x in row] for row in M])


def mpq(M):
    return mp.matrix([[mp.mpf(x.numerator) / mp.mpf(x.denominator) for x in row] for row in M])


def mpmax(M):
    return max([abs(M[i, j]) for i in range(M.rows) for j in range(M.cols)] + [mp.mpf(0)])


def pbh_margin(A, M, rows=True):
    A = np.array(A, dtype=float); M = np.array(M, dtype=float)
    out = np.inf
    for lam in np.linalg.eigvals(A):
        if abs(lam) >= 0.98:
            W = A - lam * np.eye(A.shape[0])
            S = np.vstack([W, M]) if rows else np.hstack([W, M])
            out = min(out, np.linalg.svd(S, compute_uv=False)[-1])
    return out


class Scripted(np.random.RandomState):
    """RandomState whose standard_normal returns a scripted array (and records how it was asked)"""
    def __init__(self, script):
        super().__init__(0)
        self.script = np.array(script, dtype=float)
        self.calls = []

    def standard_normal(self, size=None):
        self.calls.append(size)
        return self.script.reshape(size).copy()


def riccati_hook(fn):
    """run fn(); report gamma / loop counter of the solve_discrete_riccati(doubling) call it makes"""
    rec = {}

    def prof(frame, event, arg):
        if event == "return" and frame.f_code.co_name == "solve_discrete_riccati":
            loc = frame.f_locals
            if "gamma" in loc: rec["gamma"] = loc["gamma"]
            if "i" in loc: rec["i"] = loc["i"]
    sys.setprofile(prof)
    try:
        out = fn()
    finally:
        sys.setprofile(None)
    return out, rec


# ------------------------------------------------------------------ generator
def gen_lq(rng, n, k, j, cross, noise, radius=None, stationary=False):
    """rational LQ data; [[R, N'],[N, Q]] = W'W + diag(0, eps I): stage cost PSD, Q > 0"""
    for _ in range(200):
        A = scale_to_radius(rnd_mat(rng, n, n), radius if radius else rng.choice([0.3, 0.7, 0.95, 1.1, 1.3]))
        B = rnd_mat(rng, n, k, lo=-3, hi=3)
        rank = rng.randint(1, n + k)
        W = rnd_mat(rng, rank, n + k, lo=-3, hi=3, dens=(1, 1, 2, 2, 4))
        if not cross:
            for r in W:
                if rng.random() < 0.5:
                    for c in range(n, n + k): r[c] = Fraction(0)
                else:
                    for c in range(n): r[c] = Fraction(0)
        G = mmul(mtr(W), W)
        R = [row[:n] for row in G[:n]]
        N = [row[:n] for row in G[n:]]
        Q = [row[n:] for row in G[n:]]
        eps = rng.choice([F_(1, 4), F_(1, 2), F_(1), F_(2)])
        for i in range(k):
            Q[i][i] += eps
        C = rnd_mat(rng, n, j, lo=-2, hi=2, dens=(1, 2, 4)) if noise else None
        beta = rng.choice([F_(1), F_(1), F_(19, 20), F_(9, 10), F_(3, 4), F_(1, 2)])
        if stationary and noise and beta == 1:
            beta = F_(19, 20)
        V = rnd_mat(rng, rng.randint(1, n), n, lo=-2, hi=2, dens=(1, 2))
        Rf = mmul(mtr(V), V)
        if np.linalg.cond(npf(Q)) > 1e4:
            continue
        if stationary:
            sb = math.sqrt(float(beta))
            An, Bn, Qn, Rn, Nn = npf(A) * sb, npf(B) * sb, npf(Q), npf(R), npf(N)
            Ab = An - Bn @ np.linalg.solve(Qn, Nn)
            Rb = Rn - Nn.T @ np.linalg.solve(Qn, Nn); Rb = (Rb + Rb.T) / 2
            w, Vv = np.linalg.eigh(Rb)
            if w.min() < -1e-9:
                continue
            Cd = (Vv * np.sqrt(np.clip(w, 0, None))).T
            if pbh_margin(An, Bn, rows=False) < 5e-2 or pbh_margin(Ab, Cd, rows=True) < 5e-2:
                continue
        return dict(n=n, k=k, j=j if noise else 1, A=A, B=B, Q=Q, R=R, N=N, C=C, beta=beta, Rf=Rf, cross=cross, noise=noise)
    return None


def make_lq(qe, p, T=None, passN=True):
    C = None if p["C"] is None else npf(p["C"])
    N = npf(p["N"]) if (passN or any(x != 0 for r in p["N"] for x in r)) else None
    if T is None:
        return qe.LQ(npf(p["Q"]), npf(p["R"]), npf(p["A"]), npf(p["B"]), C=C, N=N, beta=float(p["beta"]))
    return qe.LQ(npf(p["Q"]), npf(p["R"]), npf(p["A"]), npf(p["B"]), C=C, N=N, beta=float(p["beta"]), T=T, Rf=npf(p["Rf"]))


def Cmat(p):
    return p["C"] if p["C"] is not None else zeros(p["n"], 1)


def coq_params_f(p):
    return [natlit(p["n"]), natlit(p["k"]), natlit(p["j"]), f1(float(p["beta"])), flist2(fl(p["Q"])), flist2(fl(p["R"])),
            flist2(fl(p["A"])), flist2(fl(p["B"])), flist2(fl(Cmat(p))), flist2(fl(p["N"]))]


def coq_params_q(p):
    return [natlit(p["n"]), natlit(p["k"]), natlit(p["j"]), qlit(p["beta"]), qlist2(p["Q"]), qlist2(p["R"]),
            qlist2(p["A"]), qlist2(p["B"]), qlist2(Cmat(p)), qlist2(p["N"])]


PTY_F = "nat * nat * nat * float * list (list float) * list (list float) * list (list float) * list (list float) * list (list float) * list (list float)"
PTY_Q = PTY_F.replace("float", "Q")
PLET = "let '(n, k, j, beta, Q, R, A, B, C, N) := p in "


def pinput(p, **extra):
    d = {key: p[key] for key in ("n", "k", "j", "A", "B", "Q", "R", "N", "C", "beta", "Rf")}
    d.update(extra)
    return d


# ------------------------------------------------------------------ oracles
def qp_exact(p, T, x0):
    """min over u_0..u_{T-1} of sum_t beta^t (x'Rx + u'Qu + 2u'Nx) + beta^T x_T'Rf x_T, x_{t+1} = A x_t + B u_t,
    as ONE linear system H U = -g in exact Fractions (no Riccati recursion). Returns (J*, [u_0..u_{T-1}])."""
    n, k, A, B, Q, R, N, beta, Rf = p["n"], p["k"], p["A"], p["B"], p["Q"], p["R"], p["N"], p["beta"], p["Rf"]
    # X = Sx x0 + Su U  (X stacks x_0..x_T)
    pw = [[[F_(int(a == b)) for b in range(n)] for a in range(n)]]
    for t in range(T):
        pw.append(mmul(A, pw[-1]))
    Sx = [row for t in range(T + 1) for row in pw[t]]
    Su = zeros((T + 1) * n, T * k)
    for t in range(1, T + 1):
        for s in range(t):
            blk = mmul(pw[t - 1 - s], B)
            for a in range(n):
                for b in range(k):
                    Su[t * n + a][s * k + b] = blk[a][b]
    Rbar = zeros((T + 1) * n, (T + 1) * n)
    Qbar = zeros(T * k, T * k)
    Nbar = zeros(T * k, (T + 1) * n)
    bt = F_(1)
    for t in range(T + 1):
        blk = R if t < T else Rf
        for a in range(n):
            for b in range(n):
                Rbar[t * n + a][t * n + b] = bt * blk[a][b]
        if t < T:
            for a in range(k):
                for b in range(k):
                    Qbar[t * k + a][t * k + b] = bt * Q[a][b]
                for b in range(n):
                    Nbar[t * k + a][t * n + b] = bt * N[a][b]
        bt *= beta
    x0c = [[x] for x in x0]
    RS = mmul(Rbar, Su)
    NS = mmul(Nbar, Su)
    H = madd(madd(mmul(mtr(Su), RS), Qbar), madd(NS, mtr(NS)))
    Sx0 = mmul(Sx, x0c)
    g = madd(mmul(mtr(Su), mmul(Rbar, Sx0)), mmul(Nbar, Sx0))
    c = mmul(mtr(Sx0), mmul(Rbar, Sx0))[0][0]
    U = fsolve(H, mscale(-1, g))
    J = c + mmul(mtr(g), U)[0][0]
    us = [[U[t * k + a][0] for a in range(k)] for t in range(T)]
    return J, us


def policy_cost_finite(p, Fs, x0, with_noise=True):
    """expected cost of u_t = -F_t x_t (F_t given in time order) by direct summation (mpmath):
    second moments S_0 = x0 x0', S_{t+1} = (A-BF_t) S_t (A-BF_t)' + CC'."""
    A, B, Q, R, N, Rf = [mpq(p[key]) for key in ("A", "B", "Q", "R", "N", "Rf")]
    C = mpq(Cmat(p)) if with_noise else mp.zeros(p["n"], 1)
    beta = mp.mpf(p["beta"].numerator) / p["beta"].denominator
    x = mp.matrix([[mp.mpf(v.numerator) / v.denominator] for v in x0])
    S = x * x.T
    total, bt = mp.mpf(0), mp.mpf(1)
    tr = lambda M: sum(M[i, i] for i in range(M.rows))
    for Ft in Fs:
        Fm = Ft if isinstance(Ft, mp.matrix) else mpm(Ft)
        M = R + Fm.T * Q * Fm - Fm.T * N - N.T * Fm
        total += bt * tr(M * S)
        Acl = A - B * Fm
        S = Acl * S * Acl.T + C * C.T
        bt *= beta
    total += bt * tr(Rf * S)
    return total


def stationary_policy_value(p, Fm):
    """P_F with x'P_F x = sum_t beta^t cost under u = -F x (deterministic), from the linear system
    P_F = M + beta Acl' P_F Acl (mpmath); None if sqrt(beta) Acl is not stable."""
    A, B, Q, R, N = [mpq(p[key]) for key in ("A", "B", "Q", "R", "N")]
    n = p["n"]
    beta = mp.mpf(p["beta"].numerator) / p["beta"].denominator
    Acl = A - B * Fm
    ev = [Acl[0, 0]] if n == 1 else mp.eig(Acl, left=False, right=False)
    rho = max(abs(e) for e in ev) * mp.sqrt(beta)
    if rho >= 1:
        return None, float(rho)
    M = R + Fm.T * Q * Fm - Fm.T * N - N.T * Fm
    # vec(P) - beta (Acl' kron Acl') vec(P) = vec(M); index (a,b) -> a*n+b ; (Acl' P Acl)_{ab} = sum_{cd} Acl_{ca} P_{cd} Acl_{db}
    L = mp.zeros(n * n, n * n)
    for a in range(n):
        for b in range(n):
            for c in range(n):
                for d in range(n):
                    L[a * n + b, c * n + d] = (1 if (a == c and b == d) else 0) - beta * Acl[c, a] * Acl[d, b]
    rhs = mp.matrix([M[a, b] for a in range(n) for b in range(n)])
    sol = mp.lu_solve(L, rhs)
    P = mp.matrix(n, n)
    for a in range(n):
        for b in range(n):
            P[a, b] = sol[a * n + b]
    return P, float(rho)



def lq_update_rate(p, P):
    """spectral radius of the Jacobian (central differences over ALL n*n directions) at P of the unsymmetrised map
    P -> R - S2'S1^-1 S2 + beta A'PA that LQ.update_values iterates.  In the antisymmetric directions the map is
    E -> beta [A'E(A+BF) - F'B'E(A-BF)], which can expand although the symmetric part contracts; rounding asymmetry
    of size eps is then multiplied by this factor at every update."""
    A, B, Q, R, N = [npf(p[k_]) for k_ in ("A", "B", "Q", "R", "N")]
    beta = float(p["beta"]); n = p["n"]

    def f(X):
        S2 = beta * B.T @ X @ A + N
        return R - S2.T @ np.linalg.solve(Q + beta * B.T @ X @ B, S2) + beta * A.T @ X @ A
    P = np.array(P, dtype=float)
    h = 1e-5 * max(1.0, float(np.max(np.abs(P))))
    J = np.zeros((n * n, n * n))
    for a in range(n):
        for b in range(n):
            E = np.zeros((n, n)); E[a, b] = h
            J[:, a * n + b] = ((f(P + E) - f(P - E)) / (2 * h)).ravel()
    return float(np.max(np.abs(np.linalg.eigvals(J))))


def amp_tol(p, P_before, base):
    """forward-error tolerance of T unsymmetrised updates: base, or 100 eps times the product of the per-step
    amplification factors max(1, rho(J_t)) when that is larger (conditioning-aware, derived from the recursion itself)"""
    amp = 1.0
    for P in P_before:
        amp *= max(1.0, lq_update_rate(p, P))
    return max(base, min(1e-3, 100 * 2.2e-16 * amp)), amp

# ------------------------------------------------------------------ main
def run(ctx):
    import quantecon as qe
    import quantecon._matrix_eqn as me
    thorough = ctx.tier == "thorough"
    ctx.proofs()
    rng = ctx.rng
    worst = {}

    def seen(key, val):
        worst[key] = max(worst.get(key, 0.0), float(val))
    ricc_tol = float(inspect.signature(me.solve_discrete_riccati).parameters["tolerance"].default)
    ricc_maxit = int(inspect.signature(me.solve_discrete_riccati).parameters["max_iter"].default)
    PRE = ("Definition VTOL : float := %s.\nDefinition STOL : float := %s.\nDefinition QTOL : Q := (1 # 1000000000).\n"
           "Definition RTOL : float := %s.\nDefinition RMAX : Z := %s.\n" % (f1(TOL), f1(TOL_ST), f1(ricc_tol), zl(ricc_maxit)))

    # ================================================================ finite horizon
    n_fin = 400 if thorough else 60
    rec_f, rec_q, sim_f, sim_q = [], [], [], []
    meta_rf, meta_rq, meta_sf, meta_sq = [], [], [], []
    for t in range(n_fin):
        n, k = rng.randint(1, 4), rng.randint(1, 3)
        noise = rng.random() < 0.6
        cross = rng.random() < 0.6
        j = rng.randint(1, 2)
        p = gen_lq(rng, n, k, j, cross, noise)
        if p is None:
            continue
        T = rng.choice([1, 2, 3, 4, 5, 6, 8, 10, 12])
        if n <= 2 and k <= 2 and rng.random() < 0.5:
            T = rng.choice([1, 2, 3])          # small horizons: also run by the exact Q instance
        scalar_style = (n == 1 and k == 1 and rng.random() < 0.5)
        lq = make_lq(qe, p, T=T, passN=rng.random() < 0.5)
        inp = pinput(p, fn="LQ.update_values", T=T)
        ctx.count("finite:n=%d,k=%d" % (n, k)); ctx.count("finite:T=%d" % T)
        ctx.count("finite:cross=%s" % cross); ctx.count("finite:noise=%s" % noise); ctx.count("finite:beta=%s" % p["beta"])
        # ---- implementation: T updates
        Fs, Ps, ds = [], [], []
        try:
            for s in range(T):
                lq.update_values()
                Fs.append(np.array(lq.F)); Ps.append(np.array(lq.P)); ds.append(float(lq.d))
        except Exception as e:
            ctx.fail("lq_update_raises", "update_values raises on a regular problem", inp, repr(e), None)
            continue
        tolc, amp = amp_tol(p, [npf(p["Rf"])] + Ps[:-1], TOL)
        ctx.count("finite:rounding_amplification=%s" % ("<=1e3" if amp <= 1e3 else "<=1e6" if amp <= 1e6 else ">1e6 (tolerance widened to 100 eps x amplification)"))
        ctx.case(("finite", T, str(p)), nontrivial=(T >= 2),
                 sample={"LQ": {key: (fl(p[key]) if isinstance(p[key], list) else str(p[key])) for key in ("A", "B", "Q", "R", "N", "beta")}, "T": T, "impl_P0": Ps[-1].tolist(), "impl_d0": ds[-1]})
        rec_f.append(tup(tup(*coq_params_f(p)), natlit(T), flist2(fl(p["Rf"])), fmat3(Fi.tolist() for Fi in Fs), flist2(Ps[-1].tolist()), f1(ds[-1]), f1(tolc)))
        meta_rf.append(inp)
        small = (n <= 2 and k <= 2 and T <= 3) or (n == 1 and k == 1 and T <= 5)
        if small and len(rec_q) < (40 if thorough else 14):
            rec_q.append(tup(tup(*coq_params_q(p)), natlit(T), qlist2(p["Rf"]), qmat3(fr2(Fi) for Fi in Fs), qlist2(fr2(Ps[-1])), qlit(frac(ds[-1]))))
            meta_rq.append(inp)
        # ---- compute_sequence with scripted shocks
        ts_choice = rng.choice([None, None, T, max(1, T - 2), T + 3])
        Te = T if not ts_choice else min(ts_choice, T)
        jj = p["j"]
        zero_w = rng.random() < 0.3
        script = [[0.0 if zero_w else rng.randint(-8, 8) / 4.0 for _ in range(Te + 1)] for _ in range(jj)]
        x0 = [rnd_frac(rng) for _ in range(n)]
        if all(v == 0 for v in x0):
            x0[0] = F_(1)
        rs = Scripted(script)
        lq2 = make_lq(qe, p, T=T)
        try:
            xp, up, wp = lq2.compute_sequence(np.array([float(v) for v in x0]), ts_length=ts_choice, random_state=rs)
        except Exception as e:
            ctx.fail("lq_compute_sequence_raises", "compute_sequence raises", pinput(p, fn="LQ.compute_sequence", T=T, ts_length=ts_choice, x0=x0), repr(e), None)
            continue
        inp2 = pinput(p, fn="LQ.compute_sequence", T=T, ts_length=ts_choice, x0=x0, w=script)
        ctx.count("sequence:ts_length=%s" % ("None" if ts_choice is None else ("<T" if ts_choice < T else ("=T" if ts_choice == T else ">T"))))
        ctx.case(("sequence", T, ts_choice, str(p), str(x0), str(script)), nontrivial=(Te >= 2))
        if xp.shape != (n, Te + 1) or up.shape != (k, Te) or rs.calls != [(jj, Te + 1)] or not np.array_equal(wp, np.array(script)):
            ctx.fail("lq_sequence_shape", "compute_sequence: wrong shapes / shocks not drawn as one (j, T+1) standard_normal array",
                     inp2, [list(xp.shape), list(up.shape), [list(c) if c else c for c in rs.calls]], [[n, Te + 1], [k, Te], [[jj, Te + 1]]])
            continue
        ws = [[script[a][s] for a in range(jj)] for s in range(1, Te + 1)]
        sim_f.append(tup(tup(*coq_params_f(p)), natlit(Te), flist2(fl(p["Rf"])), flist([float(v) for v in x0]), flist2(ws),
                         flist2(xp.T.tolist()), flist2(up.T.tolist()), f1(amp_tol(p, [npf(p["Rf"])] + [np.array(P_) for P_ in Ps[:max(Te - 1, 0)]], TOL)[0])))
        meta_sf.append(inp2)
        if small and Te <= 3 and len(sim_q) < (30 if thorough else 10):
            sim_q.append(tup(tup(*coq_params_q(p)), natlit(Te), qlist2(p["Rf"]), qlist(x0), qlist2([[frac(v) for v in w] for w in ws]),
                             qlist2(fr2(xp.T)), qlist2(fr2(up.T))))
            meta_sq.append(inp2)
        # ---- oracle 1: paths obey the law of motion with the time-t policy of the Te-horizon problem
        lq3 = make_lq(qe, p, T=Te)
        FsTe = []
        for s in range(Te):
            lq3.update_values(); FsTe.append(np.array(lq3.F))
        F_time = FsTe[::-1]            # F_time[t] is the optimal policy of period t (computed last-first)
        An, Bn, Cn = npf(p["A"]), npf(p["B"]), npf(Cmat(p))
        okdyn = True
        for s in range(Te):
            u_exp = -F_time[s] @ xp[:, s]
            x_exp = An @ xp[:, s] + Bn @ up[:, s] + Cn @ np.array(script)[:, s + 1]
            sc = 1 + np.max(np.abs(xp[:, s + 1])) + np.max(np.abs(up[:, s]))
            seen("sequence_dynamics", max(np.max(np.abs(up[:, s] - u_exp)), np.max(np.abs(xp[:, s + 1] - x_exp))) / sc / TOL)
            if np.max(np.abs(up[:, s] - u_exp)) > TOL * sc or np.max(np.abs(xp[:, s + 1] - x_exp)) > TOL * sc:
                okdyn = False
        if not okdyn or np.max(np.abs(xp[:, 0] - np.array([float(v) for v in x0]))) > 0:
            ctx.fail("lq_sequence_dynamics", "path violates x_{t+1} = A x_t + B u_t + C w_{t+1}, u_t = -F_t x_t (F_t = policy of period t)",
                     inp2, {"x_path": xp.tolist(), "u_path": up.tolist()}, None)
        # ---- oracle 2: exact T-period QP (Fractions) vs x0'P_0 x0 and vs the deterministic path of the returned policies
        if T * k <= (36 if thorough else 24) and (thorough or rng.random() < 0.7):
            Jstar, ustar = qp_exact(p, T, x0)
            xv = np.array([float(v) for v in x0])
            val = float(xv @ Ps[-1] @ xv)
            seen("qp_value", abs(val - float(Jstar)) / (1 + abs(float(Jstar))) / tolc)
            if abs(val - float(Jstar)) > tolc * (1 + abs(float(Jstar))):
                ctx.fail("lq_finite_value", "x0'P_0 x0 after T updates is not the minimum of the T-period quadratic programme", pinput(p, fn="LQ.update_values", T=T, x0=x0), val, float(Jstar))
            # controls generated by the returned policies without noise
            x = xv.copy(); dev = 0.0
            for s in range(T):
                u = -Fs[T - 1 - s] @ x
                dev = max(dev, float(np.max(np.abs(u - np.array([float(v) for v in ustar[s]]))) / (1 + np.max(np.abs(u)))))
                x = An @ x + Bn @ u
            seen("qp_controls", dev / max(1e-8, 10 * tolc))
            if dev > max(1e-8, 10 * tolc):
                ctx.fail("lq_finite_policy", "controls of the returned policies differ from the minimiser of the T-period programme", pinput(p, fn="LQ.update_values", T=T, x0=x0), None, fl(ustar))
            ctx.count("finite:qp_checked")
            # cost of the returned policy by direct summation, without and with noise; perturbed rules are not better
            Ft = [Fs[T - 1 - s] for s in range(T)]
            cdet = policy_cost_finite(p, Ft, x0, with_noise=False)
            seen("policy_cost_det", abs(float(cdet) - float(Jstar)) / (1 + abs(float(Jstar))) / tolc)
            if abs(float(cdet) - float(Jstar)) > tolc * (1 + abs(float(Jstar))):
                ctx.fail("lq_finite_policy_cost", "cost actually generated by the returned policies is not the minimum", pinput(p, fn="LQ.update_values", T=T, x0=x0), float(cdet), float(Jstar))
            cnoise = policy_cost_finite(p, Ft, x0, with_noise=True)
            seen("policy_cost_noise", abs(float(cnoise) - (val + ds[-1])) / (1 + abs(float(cnoise))) / tolc)
            if abs(float(cnoise) - (val + ds[-1])) > tolc * (1 + abs(float(cnoise))):
                ctx.fail("lq_finite_d", "x0'P_0 x0 + d_0 is not the expected cost generated by the returned policies under noise", pinput(p, fn="LQ.update_values", T=T, x0=x0), val + ds[-1], float(cnoise))
            for _ in range(2):
                Fp = [f + np.array([[rng.randint(-2, 2) / 8.0 for _ in range(n)] for _ in range(k)]) for f in Ft]
                cp = policy_cost_finite(p, Fp, x0, with_noise=False)
                if float(cp) < float(Jstar) - tolc * (1 + abs(float(Jstar))):
                    ctx.fail("lq_finite_better_rule", "a perturbed linear rule has lower cost than the returned value", pinput(p, fn="LQ.update_values", T=T, x0=x0), float(cp), float(Jstar))

    dtype_forms(ctx, qe, thorough, rec_f, meta_rf)
    okrec = ("fun c => let '(p, T, Rf, Fs, P, d%s) := c in " + PLET +
             "match lq_recursion n k j beta Q R A B C N T Rf %s [] with "
             "| Some (pols, P', d') => list_all2 (%s) pols Fs && %s P' P && %s d' d | None => false end")
    bad = ctx.coq_check("lq_recursion_float", IMPORTS, "(%s) * nat * list (list float) * list (list (list float)) * list (list float) * float * float" % PTY_F,
                        okrec % (", tol", "0%float", "Fss_close tol", "Fss_close tol", "Fclose tol"), rec_f, chunk=6, preamble=PRE)
    for i in bad:
        ctx.mismatch("C07.Model.lq_recursion/update_values (NumF) vs LQ.update_values iterated", meta_rf[i])
    bad = ctx.coq_check("lq_recursion_Q", IMPORTS, "(%s) * nat * list (list Q) * list (list (list Q)) * list (list Q) * Q" % PTY_Q,
                        okrec % ("", "0%Q", "Qss_close QTOL", "Qss_close QTOL", "Qclose QTOL"), rec_q, chunk=2, preamble=PRE)
    for i in bad:
        ctx.mismatch("C07.Model.lq_recursion/update_values (NumQ, exact) vs LQ.update_values iterated", meta_rq[i])
    oksim = ("fun c => let '(p, T, Rf, x0, ws, X, U%s) := c in " + PLET +
             "match compute_sequence_finite n k j beta Q R A B C N T Rf x0 ws with "
             "| Some (xs, us) => %s xs X && %s us U | None => false end")
    bad = ctx.coq_check("compute_sequence_float", IMPORTS, "(%s) * nat * list (list float) * list float * list (list float) * list (list float) * list (list float) * float" % PTY_F,
                        oksim % (", tol", "Fss_close tol", "Fss_close tol"), sim_f, chunk=6, preamble=PRE)
    for i in bad:
        ctx.mismatch("C07.Model.compute_sequence_finite (NumF) vs LQ.compute_sequence (scripted shocks)", meta_sf[i])
    bad = ctx.coq_check("compute_sequence_Q", IMPORTS, "(%s) * nat * list (list Q) * list Q * list (list Q) * list (list Q) * list (list Q)" % PTY_Q,
                        oksim % ("", "Qss_close QTOL", "Qss_close QTOL"), sim_q, chunk=2, preamble=PRE)
    for i in bad:
        ctx.mismatch("C07.Model.compute_sequence_finite (NumQ, exact) vs LQ.compute_sequence (scripted shocks)", meta_sq[i])

    # ---- malformed / rejected inputs
    for t in range(6):
        n, k = rng.randint(1, 3), rng.randint(1, 2)
        p = gen_lq(rng, n, k, 1, True, True)
        if p is None:
            continue
        ctx.case(("reject", str(p)), nontrivial=False); ctx.count("malformed:beta=1,T=None,C!=0")
        p1 = dict(p, beta=F_(1))
        if all(v == 0 for r in p1["C"] for v in r):
            continue
        try:
            make_lq(qe, p1)
            ctx.fail("lq_accepts_divergent", "LQ(beta=1, T=None, C != 0) accepted: the discounted noise cost is infinite", pinput(p1, fn="LQ.__init__"), "accepted", "ValueError")
        except ValueError:
            pass
    sing = []
    for t in range(4):   # S1 = Q + beta B'PB exactly singular: LinAlgError <-> model None
        n, k = rng.randint(1, 3), rng.randint(1, 2)
        p = gen_lq(rng, n, k, 1, False, False)
        if p is None:
            continue
        p = dict(p, Q=zeros(k, k), Rf=zeros(n, n), N=zeros(k, n))
        ctx.case(("singular", str(p)), nontrivial=False); ctx.count("malformed:singular_S1")
        lq = make_lq(qe, p, T=2)
        try:
            lq.update_values(); st = "ok"
        except np.linalg.LinAlgError:
            st = "LinAlgError"
        sing.append(tup(tup(*coq_params_f(p)), flist2(fl(p["Rf"])), blit(st == "ok")))
    bad = ctx.coq_check("update_values_singular", IMPORTS, "(%s) * list (list float) * bool" % PTY_F,
                        "fun c => let '(p, Rf, okf) := c in " + PLET + "match update_values n k j beta Q R A B C N Rf 0%float with Some _ => okf | None => negb okf end",
                        sing, chunk=10, preamble=PRE)
    for i in bad:
        ctx.mismatch("C07.Model.update_values error status (singular S1) vs LQ.update_values", {"case": i})

    # ================================================================ stationary values
    n_st = 300 if thorough else 45
    st_cases, st_meta, seq_cases, seq_meta = [], [], [], []
    for t in range(n_st):
        n, k = rng.randint(1, 4), rng.randint(1, 3)
        noise, cross = rng.random() < 0.6, rng.random() < 0.6
        p = gen_lq(rng, n, k, rng.randint(1, 4), cross, noise, stationary=True)
        if p is None:
            ctx.count("stationary:generator_gave_up"); continue
        inp = pinput(p, fn="LQ.stationary_values")
        lq = make_lq(qe, p, passN=rng.random() < 0.5)
        try:
            (P, Fm, d), rec = riccati_hook(lambda: lq.stationary_values())
            P, Fm, d = np.array(P), np.array(Fm), float(d)
        except Exception as e:
            ctx.fail("lq_stationary_raises", "stationary_values raises on a stabilisable/detectable problem", inp, repr(e), None)
            continue
        its = (rec.get("i") or 1) - 1
        ctx.count("stationary:n=%d,k=%d" % (n, k)); ctx.count("stationary:beta=%s" % p["beta"]); ctx.count("stationary:cross=%s" % cross)
        ctx.count("stationary:noise=%s" % noise); ctx.count("stationary:A=%s" % ("unstable" if spec_radius(fl(p["A"])) >= 1 else "stable"))
        ctx.case(("stationary", str(p)), nontrivial=(its >= 2), sample=None)
        gamma = rec.get("gamma")
        if gamma is not None:
            sb = float(np.sqrt(float(p["beta"])))
            st_cases.append(tup(tup(*coq_params_f(p)), f1(gamma), f1(sb), flist2(P.tolist()), flist2(Fm.tolist()), f1(d)))
            st_meta.append(dict(inp, gamma=gamma))
        else:
            ctx.count("stationary:gamma_not_observed")
        # ---- oracle
        scP = 1 + float(np.max(np.abs(P)))
        try:
            Pq, Fq, dq = make_lq(qe, p).stationary_values(method="qz")
            dev = max(np.max(np.abs(Pq - P)) / scP, np.max(np.abs(Fq - Fm)) / (1 + np.max(np.abs(Fm))), abs(dq - d) / (1 + abs(d)))
            seen("stationary_methods", dev / 1e-7)
            if dev > 1e-7:
                ctx.fail("lq_stationary_methods", "stationary_values: doubling and qz disagree", inp, [P.tolist(), np.array(Pq).tolist()], "relative difference %.3g" % dev)
        except Exception as e:
            ctx.fail("lq_stationary_raises", "stationary_values(method='qz') raises", dict(inp, method="qz"), repr(e), None)
        PF, rho = stationary_policy_value(p, mpm(Fm))
        if PF is None:
            ctx.fail("lq_stationary_unstable", "returned stationary rule does not give finite discounted cost (sqrt(beta) rho(A-BF) >= 1)", inp, Fm.tolist(), "rho = %.6g" % rho)
            continue
        dv = float(mpmax(PF - mpm(P))) / scP
        seen("stationary_policy_value", dv / TOL_ST)
        if dv > TOL_ST:
            ctx.fail("lq_stationary_policy_value", "x'Px is not the discounted cost generated by u = -Fx", inp, P.tolist(), [[float(PF[a, b]) for b in range(n)] for a in range(n)])
        beta = float(p["beta"])
        Cm = mpq(Cmat(p))
        if p["beta"] != 1:
            dexp = float(mp.mpf(beta) / (1 - mp.mpf(beta)) * sum((Cm.T * PF * Cm)[a, a] for a in range(Cm.cols)))
        else:
            dexp = 0.0
        seen("stationary_d", abs(dexp - d) / (1 + abs(dexp)) / TOL_ST)
        if abs(dexp - d) > TOL_ST * (1 + abs(dexp)):
            ctx.fail("lq_stationary_d", "d is not the discounted noise cost beta/(1-beta) tr(C'PC)", inp, d, dexp)
        # fixed point of the finite-horizon update (independent formula, mpmath) and of the implementation's own update
        A_, B_, Q_, R_, N_ = [mpq(p[key]) for key in ("A", "B", "Q", "R", "N")]
        Pm = mpm(P); b_ = mp.mpf(p["beta"].numerator) / p["beta"].denominator
        S1 = Q_ + b_ * B_.T * Pm * B_; S2 = b_ * B_.T * Pm * A_ + N_
        Fexp = mp.inverse(S1) * S2
        Pnext = R_ - S2.T * Fexp + b_ * A_.T * Pm * A_
        fp = max(float(mpmax(Pnext - Pm)) / scP, float(mpmax(Fexp - mpm(Fm))) / (1 + float(np.max(np.abs(Fm)))))
        seen("stationary_fixed_point", fp / TOL_ST)
        if fp > TOL_ST:
            ctx.fail("lq_stationary_fixed_point", "(P, F) is not a fixed point of the one-step update", inp, P.tolist(), [[float(Pnext[a, b]) for b in range(n)] for a in range(n)])
        lq.update_values()
        fp2 = max(np.max(np.abs(lq.P - P)) / scP, abs(lq.d - d) / (1 + abs(d)), np.max(np.abs(lq.F - Fm)) / (1 + np.max(np.abs(Fm))))
        seen("stationary_fixed_point_impl", fp2 / TOL_ST)
        if fp2 > TOL_ST:
            ctx.fail("lq_stationary_fixed_point", "update_values moves the stationary (P, d, F)", dict(inp, via="update_values"), [lq.P.tolist(), float(lq.d)], [P.tolist(), d])
        # no other linear rule is better: P_{F+D} - P_F is positive semidefinite for stabilising perturbations
        for _ in range(3):
            D = np.array([[rng.randint(-2, 2) / rng.choice([4.0, 8.0, 16.0]) for _ in range(n)] for _ in range(k)])
            PG, rho2 = stationary_policy_value(p, mpm(Fm + D))
            if PG is None:
                ctx.count("stationary:perturbation_unstable"); continue
            ev = mp.eigsy(((PG - PF) + (PG - PF).T) / 2, eigvals_only=True)
            mn = float(min(ev[a] for a in range(len(ev)))) / scP
            ctx.count("stationary:perturbation_checked")
            if mn < -TOL_ST:
                ctx.fail("lq_stationary_better_rule", "a perturbed linear rule has lower discounted cost from some initial state", dict(inp, D=D.tolist()), Fm.tolist(), "min eig of P_pert - P = %.3g" % mn)
        # infinite-horizon simulation uses the stationary F in every period
        if rng.random() < 0.5:
            L = rng.randint(1, 6)
            jj = p["j"]
            script = [[rng.randint(-8, 8) / 4.0 for _ in range(L + 1)] for _ in range(jj)]
            x0 = [rnd_frac(rng) for _ in range(n)]
            rs = Scripted(script)
            xp, up, wp = lq.compute_sequence(np.array([float(v) for v in x0]), ts_length=L, random_state=rs)
            ws = [[script[a][s] for a in range(jj)] for s in range(1, L + 1)]
            seq_cases.append(tup(tup(*coq_params_f(p)), natlit(L), flist2(np.array(lq.F).tolist()), flist([float(v) for v in x0]), flist2(ws),
                                 flist2(xp.T.tolist()), flist2(up.T.tolist())))
            seq_meta.append(pinput(p, fn="LQ.compute_sequence", T=None, ts_length=L, x0=x0, w=script))
            ctx.case(("sequence_inf", L, str(p), str(x0), str(script)), nontrivial=(L >= 2)); ctx.count("sequence:infinite_horizon")
    okst = ("fun c => let '(p, gamma, sb, P, F, d) := c in " + PLET +
            "match stationary_values n k j beta Q R A B C N RTOL RMAX gamma sb with "
            "| Some (P', F', d') => PrimFloat.eqb (PrimFloat.sqrt beta) sb && Fss_close STOL P' P && Fss_close STOL F' F && Fclose STOL d' d | None => false end")
    bad = ctx.coq_check("stationary_values_float", IMPORTS, "(%s) * float * float * list (list float) * list (list float) * float" % PTY_F,
                        okst, st_cases, chunk=4, preamble=PRE)
    for i in bad:
        ctx.mismatch("C07.Model.stationary_values (NumF, through C06 doubling model) vs LQ.stationary_values", st_meta[i])
    okseq = ("fun c => let '(p, T, F, x0, ws, X, U) := c in " + PLET +
             "match compute_sequence_stationary n k j A B C T F x0 ws with "
             "| Some (xs, us) => Fss_close VTOL xs X && Fss_close VTOL us U | None => false end")
    bad = ctx.coq_check("compute_sequence_stationary_float", IMPORTS, "(%s) * nat * list (list float) * list float * list (list float) * list (list float) * list (list float)" % PTY_F,
                        okseq, seq_cases, chunk=8, preamble=PRE)
    for i in bad:
        ctx.mismatch("C07.Model.compute_sequence_stationary (NumF) vs LQ.compute_sequence (T=None)", seq_meta[i])

    # ================================================================ operation sequences on one object
    object_sequences(ctx, qe, thorough, PRE)
    # ================================================================ derived solvers (oracle only)
    derived_checks(ctx, thorough)
    derived_correspondence(ctx, thorough, PRE)
    harden_c07(ctx, qe, thorough)
    ctx.notes.append("largest observed/tolerance ratios: %s" % json.dumps({k_: round(v, 6) for k_, v in worst.items()}))
    ctx.trusted += ["mpmath (50 digits) / fractions.Fraction oracle arithmetic",
                    "scripted numpy RandomState subclass for standard_normal; Riccati gamma observed through a sys.setprofile return hook"]


# ====================================================================== dtype / argument forms
INT_FORMS = ("int64", "int32", "list", "float32")


def as_form(M, form):
    """integer-valued matrix (list of lists) in the requested argument form"""
    ints = [[int(x) for x in row] for row in M]
    if form == "int64":
        return np.array(ints, dtype=np.int64)
    if form == "int32":
        return np.array(ints, dtype=np.int32)
    if form == "list":
        return ints
    if form == "float32":
        return np.array(ints, dtype=np.float32)
    if form == "scalar":
        return ints[0][0]
    return np.array(ints, dtype=float)


def gen_lq_int(rng, n, k, j):
    """integer-valued LQ data; stage cost [[R, N'],[N, Q]] = W'W + diag(0, eps I)"""
    for _ in range(300):
        A = [[Fraction(rng.randint(-1, 1)) for _ in range(n)] for _ in range(n)]
        if rng.random() < 0.4:      # nilpotent (stable) A
            A = [[A[a][b] if b > a else Fraction(0) for b in range(n)] for a in range(n)]
        B = [[Fraction(rng.randint(-2, 2)) for _ in range(k)] for _ in range(n)]
        W = [[Fraction(rng.randint(-2, 2)) for _ in range(n + k)] for _ in range(rng.randint(1, n + k))]
        G = mmul(mtr(W), W)
        R = [row[:n] for row in G[:n]]; N = [row[:n] for row in G[n:]]; Q = [row[n:] for row in G[n:]]
        for i in range(k):
            Q[i][i] += rng.choice([1, 2])
        for i in range(n):
            R[i][i] += 1               # R > 0: detectable whatever A is
        C = [[Fraction(rng.randint(-1, 1)) for _ in range(j)] for _ in range(n)]
        V = [[Fraction(rng.randint(-1, 1)) for _ in range(n)] for _ in range(n)]
        Rf = mmul(mtr(V), V)
        if np.linalg.cond(npf(Q)) > 1e3 or spec_radius(fl(A)) > 1.8 or pbh_margin(npf(A), npf(B), rows=False) < 1e-1:
            continue
        Rb = npf(R) - npf(N).T @ np.linalg.solve(npf(Q), npf(N))
        if np.min(np.linalg.eigvalsh((Rb + Rb.T) / 2)) < 0.2:
            continue
        return dict(n=n, k=k, j=j, A=A, B=B, Q=Q, R=R, N=N, C=C, Rf=Rf, beta=Fraction(9, 10), cross=True, noise=True)
    return None


def _devs(a, b):
    a = [np.atleast_1d(np.asarray(x, dtype=float)) for x in a]; b = [np.atleast_1d(np.asarray(x, dtype=float)) for x in b]
    return max((float(np.max(np.abs(x - y)) / (1 + np.max(np.abs(y)))) if x.shape == y.shape else float("inf")) for x, y in zip(a, b))


def dtype_forms(ctx, qe, thorough, rec_f, meta_rf):
    """every matrix argument of LQ, LQMarkov, RBLQ, nnash passed as int64/int32 arrays, nested lists of Python ints,
    float32 arrays (integer-valued data): results must equal those of the float64 call (and, for LQ, the model)."""
    import warnings
    rng = ctx.rng
    pick = lambda: rng.choice(INT_FORMS + ("float64",))     # noqa
    with warnings.catch_warnings():
        warnings.simplefilter("ignore")
        for t in range(40 if thorough else 12):
            n, k, j = rng.randint(1, 3), rng.randint(1, 2), rng.randint(1, 2)
            p = gen_lq_int(rng, n, k, j)
            if p is None:
                continue
            names = ("Q", "R", "A", "B", "C", "N", "Rf")
            forms = {nm: pick() for nm in names}
            if all(f == "float64" for f in forms.values()):
                forms["R"] = "int64"
            if n == 1 and k == 1 and j == 1 and rng.random() < 0.3:
                forms = {nm: "scalar" for nm in names}
            arg = {nm: as_form(p[nm], forms[nm]) for nm in names}
            T = rng.randint(1, 6)
            beta_arg = rng.choice([1, 0.9, 0.9, np.float32(0.5)]); p = dict(p, beta=Fraction(float(beta_arg)).limit_denominator(100))
            # a float32 argument (beta included: np.sqrt(beta) is then rounded to single precision) makes numpy compute in float32
            tolf = 1e-5 if ("float32" in forms.values() or isinstance(beta_arg, np.float32)) else 1e-9
            inp = pinput(p, fn="LQ (argument forms)", T=T, forms=forms, beta_form=type(beta_arg).__name__)
            ctx.count("forms:LQ"); ctx.case(("forms_lq", str(p), str(forms), T), nontrivial=True)
            try:
                # ---- finite horizon: T updates and a simulated path from an integer x0 given as a list
                ref = make_lq(qe, p, T=T)
                lqv = qe.LQ(arg["Q"], arg["R"], arg["A"], arg["B"], C=arg["C"], N=arg["N"], beta=beta_arg, T=T, Rf=arg["Rf"])
                got, exp = [], []
                for s_ in range(T):
                    ref.update_values(); lqv.update_values()
                    exp += [ref.F, ref.P, ref.d]; got += [lqv.F, lqv.P, lqv.d]
                Fs_v = [np.array(got[3 * s_]) for s_ in range(T)]
                x0 = [rng.randint(-3, 3) for _ in range(n)]
                script = [[rng.randint(-2, 2) for _ in range(T + 1)] for _ in range(j)]
                a1 = make_lq(qe, p, T=T).compute_sequence(np.array(x0, dtype=float), random_state=Scripted(script))
                a2 = qe.LQ(arg["Q"], arg["R"], arg["A"], arg["B"], C=arg["C"], N=arg["N"], beta=beta_arg, T=T, Rf=arg["Rf"]).compute_sequence(
                    x0 if n > 1 else x0[0], random_state=Scripted(script))
                exp += list(a1[:2]); got += list(a2[:2])
                dev = _devs(got, exp)
                if dev > tolf:
                    ctx.fail("lq_dtype_forms", "LQ with argument forms %s differs from the float64 call by %.3g" % (forms, dev), inp, None, None)
                if "float32" not in forms.values() and not isinstance(beta_arg, np.float32):
                    rec_f.append(tup(tup(*coq_params_f(p)), natlit(T), flist2(fl(p["Rf"])), fmat3(Fi.tolist() for Fi in Fs_v),
                                     flist2(np.array(got[3 * T - 2]).tolist()), f1(float(got[3 * T - 1])),
                                     f1(amp_tol(p, [npf(p["Rf"])] + [np.array(got[3 * s_ + 1]) for s_ in range(T - 1)], TOL)[0])))
                    meta_rf.append(inp)
                # ---- stationary values (both methods) when beta < 1
                if float(beta_arg) < 1:
                    for method in ("doubling", "qz"):
                        r1 = make_lq(qe, p).stationary_values(method=method)
                        r2 = qe.LQ(arg["Q"], arg["R"], arg["A"], arg["B"], C=arg["C"], N=arg["N"], beta=beta_arg).stationary_values(method=method)
                        dev = _devs(r2, r1)
                        if dev > max(tolf, 1e-8):
                            ctx.fail("lq_dtype_forms", "LQ.stationary_values(%s) with argument forms %s differs from the float64 call by %.3g" % (method, forms, dev), dict(inp, method=method), None, None)
            except Exception as e:     # noqa
                ctx.fail("lq_dtype_forms", "LQ with argument forms %s raises" % forms, inp, repr(e), None)

        # ---- LQMarkov
        for t in range(16 if thorough else 5):
            m, n, k, j = rng.choice((1, 2, 3)), rng.randint(1, 3), rng.randint(1, 2), rng.randint(1, 2)
            regs = [gen_lq_int(rng, n, k, j) for _ in range(m)]
            if any(r is None for r in regs):
                continue
            Pi = _gen_Pi(rng, m)
            form = pick() if rng.random() < 0.7 else "int64"
            inp = {"fn": "LQMarkov (argument forms)", "m": m, "Pi": Pi, "regimes": [{nm: r[nm] for nm in ("Q", "R", "A", "B", "C", "N")} for r in regs], "form": form, "beta": "9/10"}
            ctx.count("forms:LQMarkov"); ctx.case(("forms_lqmarkov", str(inp)), nontrivial=True)
            mk = lambda f: qe.LQMarkov(_f(Pi), *[[as_form(r[nm], f) for r in regs] for nm in ("Q", "R", "A", "B")],        # noqa
                                       Cs=[as_form(r["C"], f) for r in regs], Ns=[as_form(r["N"], f) for r in regs], beta=0.9).stationary_values()
            try:
                r1 = mk("float64")
            except Exception:     # noqa
                ctx.count("forms:LQMarkov_float64_run_raised"); continue
            try:
                dev = _devs(mk(form), r1)
                if dev > (1e-5 if form == "float32" else 1e-9):
                    ctx.fail("lqmarkov_dtype_forms", "LQMarkov with %s arguments differs from the float64 call by %.3g" % (form, dev), inp, None, None)
            except Exception as e:     # noqa
                ctx.fail("lqmarkov_dtype_forms", "LQMarkov with %s arguments raises" % form, inp, repr(e), None)

        # ---- RBLQ: robust_rule, robust_rule_simple without and with P_init
        for t in range(30 if thorough else 10):
            n, k, j = rng.randint(1, 3), rng.randint(1, 2), rng.randint(1, 2)
            p = gen_lq_int(rng, n, k, j)
            if p is None or all(v == 0 for r in p["C"] for v in r):
                continue
            try:
                P0 = make_lq(qe, dict(p, N=zeros(k, n), C=None)).stationary_values()[0]
            except Exception:     # noqa
                continue
            theta = int(50 * (1 + np.max(np.linalg.eigvalsh(npf(p["C"]).T @ P0 @ npf(p["C"])))))
            names = ("Q", "R", "A", "B", "C")
            forms = {nm: pick() for nm in names}
            if rng.random() < 0.5:
                forms["R"] = rng.choice(("int64", "int32"))
            th = rng.choice([theta, float(theta)])
            fref = qe.RBLQ(*[npf(p[nm]) for nm in names], 0.9, float(theta))
            try:
                e0 = fref.robust_rule(); e1 = fref.robust_rule_simple()
                if _devs(e1, e0) > 1e-6:
                    ctx.count("forms:RBLQ_skipped(simple iteration not contracting)"); continue
            except Exception:     # noqa
                ctx.count("forms:RBLQ_float64_run_raised"); continue
            inp = {"fn": "RBLQ (argument forms)", "Q": p["Q"], "R": p["R"], "A": p["A"], "B": p["B"], "C": p["C"], "beta": "9/10", "theta": theta,
                   "forms": forms, "theta_form": type(th).__name__}
            ctx.count("forms:RBLQ"); ctx.case(("forms_rblq", str(inp)), nontrivial=True)
            tolf = 1e-5 if "float32" in forms.values() else 1e-9
            try:
                rb = qe.RBLQ(*[as_form(p[nm], forms[nm]) for nm in names], 0.9, th)
                g0 = rb.robust_rule(); g1 = rb.robust_rule_simple()
                pin = rng.choice(INT_FORMS + ("float64",))
                g2 = rb.robust_rule_simple(P_init=np.asarray(as_form(zeros(n, n), pin)))
                for nm, got, exp in (("robust_rule", g0, e0), ("robust_rule_simple()", g1, e1), ("robust_rule_simple(P_init=%s zeros)" % pin, g2, e1)):
                    dev = _devs(got, exp)
                    if dev > (max(tolf, 1e-5) if "P_init=float32" in nm else tolf):
                        ctx.fail("rblq_dtype_forms", "RBLQ.%s with argument forms %s differs from the float64 call by %.3g" % (nm, forms, dev), dict(inp, call=nm), [np.asarray(x).tolist() for x in got], [np.asarray(x).tolist() for x in exp])
                if _devs(g1, g0) > 1e-6:
                    ctx.fail("rblq_methods_disagree", "robust_rule and robust_rule_simple disagree for argument forms %s" % forms, dict(inp, fn="RBLQ.robust_rule_simple"), [np.asarray(x).tolist() for x in g1], [np.asarray(x).tolist() for x in g0])
            except Exception as e:     # noqa
                ctx.fail("rblq_dtype_forms", "RBLQ with argument forms %s raises" % forms, inp, repr(e), None)

        # ---- nnash
        for t in range(24 if thorough else 8):
            n, k1, k2 = rng.randint(1, 3), rng.randint(1, 2), rng.randint(1, 2)
            p1, p2 = gen_lq_int(rng, n, k1, 1), gen_lq_int(rng, n, k2, 1)
            if p1 is None or p2 is None:
                continue
            Z = lambda r, c: [[Fraction(rng.randint(-1, 1)) for _ in range(c)] for _ in range(r)]     # noqa
            S1 = mmul(mtr(Z(k2, k2)), Z(k2, k2)); S1 = mmul(mtr(S1), S1); S2 = mmul(mtr(Z(k1, k1)), Z(k1, k1)); S2 = mmul(mtr(S2), S2)
            mats = (p1["A"], p1["B"], p2["B"], p1["R"], p2["R"], p1["Q"], p2["Q"], S1, S2, mtr(p1["N"]), mtr(p2["N"]), Z(k2, k1), Z(k1, k2))
            forms = [pick() for _ in mats]
            try:
                e = qe.nnash(*[npf(M) for M in mats], beta=0.9)
            except Exception:     # noqa
                ctx.count("forms:nnash_float64_run_raised"); continue
            inp = dict(zip(_NNASH_NAMES, mats)); inp.update({"fn": "nnash (argument forms)", "beta": "9/10", "forms": forms})
            ctx.count("forms:nnash"); ctx.case(("forms_nnash", str(inp)), nontrivial=True)
            try:
                gnn = qe.nnash(*[as_form(M, f) for M, f in zip(mats, forms)], beta=0.9)
                dev = _devs(gnn, e)
                if dev > (1e-5 if "float32" in forms else 1e-9):
                    ctx.fail("nnash_dtype_forms", "nnash with argument forms %s differs from the float64 call by %.3g" % (forms, dev), inp, [np.asarray(x).tolist() for x in gnn], [np.asarray(x).tolist() for x in e])
            except Exception as ex:     # noqa
                ctx.fail("nnash_dtype_forms", "nnash with argument forms %s raises" % forms, inp, repr(ex), None)


# ------------------------------------------------------------------ hardening audit helpers (classes 1-6 of the audit)
ARRAY_DRESS = ("list", "tuple", "int64", "int32", "float32", "float64", "noncontig", "fortran", "rowslice")
SCALAR_DRESS = ("int", "float", "np.int64", "np.int32", "np.intp", "np.uint8", "np.float64", "np.float32")


def dress_array(M, form):
    """integer-valued matrix in one of the audit's array 'dresses'"""
    ints = [[int(x) for x in row] for row in M]
    r_, c_ = len(ints), len(ints[0])
    if form == "list":
        return ints
    if form == "tuple":
        return tuple(tuple(row) for row in ints)
    if form in ("int64", "int32", "float32", "float64"):
        return np.array(ints, dtype=form)
    if form == "noncontig":
        big = np.full((2 * r_, 2 * c_), 7.0); big[::2, ::2] = ints
        return big[::2, ::2]
    if form == "fortran":
        return np.asfortranarray(np.array(ints, dtype=float))
    if form == "rowslice":
        big = np.full((r_ + 2, c_), -3.0); big[1:1 + r_, :] = ints
        return big[1:1 + r_, :]
    raise KeyError(form)


def dress_scalar(v, form):
    return {"int": int, "float": float, "np.int64": np.int64, "np.int32": np.int32, "np.intp": np.intp, "np.uint8": np.uint8,
            "np.float64": np.float64, "np.float32": np.float32}[form](v)


def _snap(x):
    return x.copy() if isinstance(x, np.ndarray) else np.array(x, dtype=object if isinstance(x, str) else None).copy() if isinstance(x, (list, tuple)) else x


def _same(a, b):
    try:
        return bool(np.array_equal(np.asarray(a), np.asarray(b)))
    except Exception:
        return a is b


def _arrays(out):
    if isinstance(out, np.ndarray):
        return [out]
    if isinstance(out, (tuple, list)):
        return [o for x in out for o in _arrays(x)]
    return []


def checked_call(ctx, kind, fn, args, inp):
    """call fn(); an exception, a mutated argument or a result sharing memory with an argument is an oracle failure"""
    snaps = {k_: _snap(v) for k_, v in args.items()}
    try:
        out = fn()
    except Exception as e:     # noqa
        ctx.fail(kind + "_raises", "raises on a valid input", inp, repr(e), None)
        return None
    for k_, v in args.items():
        if not _same(v, snaps[k_]):
            ctx.fail(kind + "_mutates_argument", "argument %s is modified by the call" % k_, dict(inp, argument=k_), jsonable(v), jsonable(snaps[k_]))
    for o in _arrays(out):
        for k_, v in args.items():
            if isinstance(v, np.ndarray) and np.shares_memory(o, v):
                ctx.fail(kind + "_aliases_argument", "result shares memory with argument %s" % k_, dict(inp, argument=k_), None, None)
    return out



def _dev(got, exp):
    ga, ea = _flat(got), _flat(exp)
    if len(ga) != len(ea):
        return float("inf")
    return max([(float(np.max(np.abs(x - y)) / (1 + np.max(np.abs(y)))) if x.shape == y.shape else float("inf")) for x, y in zip(ga, ea)] + [0.0])


def _flat(out):
    if isinstance(out, (tuple, list)):
        return [o for x in out for o in _flat(x)]
    return [np.atleast_1d(np.asarray(out, dtype=float))]


def _lq_run(lq, T, x0, seed, ts=None, stationary=True):
    """a fixed battery of calls on an LQ object; returns everything it produced (copies)"""
    out = []
    if T:
        for _ in range(int(T)):
            lq.update_values(); out += [np.array(lq.F), np.array(lq.P), float(lq.d)]
        xp, up, wp = lq.compute_sequence(x0, ts_length=ts, random_state=seed)
        out += [xp.copy(), up.copy(), wp.copy(), np.array(lq.P), float(lq.d)]
    elif stationary:
        P, F, d = lq.stationary_values(); out += [np.array(P), np.array(F), float(d)]
        xp, up, wp = lq.compute_sequence(x0, ts_length=ts if ts else 4, random_state=seed)
        out += [xp.copy(), up.copy(), wp.copy()]
    return out


def harden_c07(ctx, qe, thorough):
    import warnings
    rng = ctx.rng
    mat_names = ("Q", "R", "A", "B", "C", "N", "Rf")
    fa = lambda M: np.array(fl(M))     # noqa

    def fresh_lq(p, T, beta):
        return qe.LQ(fa(p["Q"]), fa(p["R"]), fa(p["A"]), fa(p["B"]), C=fa(p["C"]), N=fa(p["N"]), beta=beta, T=T, Rf=fa(p["Rf"]) if T else None)
    with warnings.catch_warnings():
        warnings.simplefilter("ignore")
        # ===================================================== LQ: dress of every argument, non-mutation, seeds
        for t in range(24 if thorough else 8):
            n, k, j = rng.randint(1, 3), rng.randint(1, 2), rng.randint(1, 2)
            p = gen_lq_int(rng, n, k, j)
            if p is None:
                continue
            finite = rng.random() < 0.6
            T = rng.randint(1, 4) if finite else None
            bval = rng.choice([1, 0.5]) if finite else 0.5
            x0 = [rng.randint(-3, 3) for _ in range(n)]
            try:
                ref = _lq_run(fresh_lq(p, T, float(bval)), T, np.array(x0, dtype=float), 7)
            except Exception as e:     # noqa
                ctx.fail("lq_raises", "canonical float64 LQ battery raises", pinput(dict(p, beta=Fraction(bval).limit_denominator(10)), fn="LQ (hardening)", T=T), repr(e), None); continue
            for v in range(3):
                forms = {nm: rng.choice(ARRAY_DRESS) for nm in mat_names}
                args = {nm: dress_array(p[nm], forms[nm]) for nm in mat_names}
                fb = rng.choice(("int", "np.int64", "np.int32", "np.intp", "np.uint8", "float", "np.float64") if bval == 1 else ("float", "np.float64", "np.float32"))
                fT = rng.choice(("int", "np.int64", "np.int32", "np.intp", "np.uint8"))
                fs = rng.choice(("int", "np.int64", "np.int32", "np.intp", "np.uint8"))
                fx = rng.choice(("list", "tuple", "int64", "float64", "noncontig1d"))
                xa = {"list": list(x0), "tuple": tuple(x0), "int64": np.array(x0, dtype=np.int64), "float64": np.array(x0, dtype=float),
                      "noncontig1d": np.array([[v_, 9] for v_ in x0], dtype=float)[:, 0]}[fx]
                args["x0"] = xa
                inp = pinput(dict(p, beta=Fraction(bval).limit_denominator(10)), fn="LQ (hardening: dress)", T=T, dress=forms, beta_dress=fb, T_dress=fT, seed_dress=fs, x0_dress=fx)
                for f_ in list(forms.values()) + ["beta=" + fb, "T=" + fT, "seed=" + fs, "x0=" + fx]:
                    ctx.count("dress:%s" % f_)
                ctx.case(("h_lq", str(p), str(forms), fb, fT, fs, fx, T), nontrivial=True)

                def go():
                    lq = qe.LQ(args["Q"], args["R"], args["A"], args["B"], C=args["C"], N=args["N"], beta=dress_scalar(bval, fb),
                               T=dress_scalar(T, fT) if T else None, Rf=args["Rf"] if T else None)
                    return _lq_run(lq, T, xa, dress_scalar(7, fs))
                got = checked_call(ctx, "lq", go, args, inp)
                if got is None:
                    continue
                d_ = _dev(got, ref)
                if d_ > (1e-5 if ("float32" in forms.values() or fb == "np.float32") else 1e-9):
                    ctx.fail("lq_dress", "LQ battery (updates, compute_sequence / stationary_values) differs from the canonical float64 objects by %.3g" % d_, inp, None, None)
            # ---- optional arguments: omitted vs explicit default vs None vs zeros
            pz = dict(p, N=zeros(k, n), C=zeros(n, 1), j=1)
            try:
                refz = _lq_run(qe.LQ(fa(pz["Q"]), fa(pz["R"]), fa(pz["A"]), fa(pz["B"]), C=fa(pz["C"]), N=fa(pz["N"]), beta=1 if finite else 0.5, T=T, Rf=fa(pz["Rf"]) if T else None),
                               T, np.array(x0, dtype=float), 7)
                for cm in ("omitted", "None", "zeros"):
                    for nm_ in ("omitted", "None", "zeros"):
                        if rng.random() < 0.5:
                            continue
                        kw = {}
                        if cm != "omitted": kw["C"] = None if cm == "None" else np.zeros((n, 1))
                        if nm_ != "omitted": kw["N"] = None if nm_ == "None" else np.zeros((k, n))
                        if not finite or rng.random() < 0.5: kw["beta"] = 1 if finite else 0.5
                        if T: kw["T"] = T; kw["Rf"] = fa(pz["Rf"])
                        ctx.count("optional:C=%s" % cm); ctx.count("optional:N=%s" % nm_); ctx.count("optional:beta=%s" % ("explicit" if "beta" in kw else "omitted"))
                        if not finite and "beta" not in kw:
                            continue
                        got = _lq_run(qe.LQ(fa(pz["Q"]), fa(pz["R"]), fa(pz["A"]), fa(pz["B"]), **kw), T, np.array(x0, dtype=float), 7)
                        if _dev(got, refz) > 1e-9:
                            ctx.fail("lq_optional_arguments", "LQ with C %s / N %s differs from the call with explicit zero matrices" % (cm, nm_),
                                     pinput(pz, fn="LQ (hardening: optional)", T=T, C_mode=cm, N_mode=nm_), None, None)
                if not finite:
                    a_ = fresh_lq(p, None, 0.5).stationary_values(); b_ = fresh_lq(p, None, 0.5).stationary_values(method="doubling")
                    ctx.count("optional:method=explicit")
                    if _dev(b_, a_) > 0:
                        ctx.fail("lq_optional_arguments", "stationary_values(method='doubling') differs from stationary_values()", pinput(p, fn="LQ.stationary_values"), None, None)
            except Exception as e:     # noqa
                ctx.fail("lq_raises", "LQ with optional arguments omitted/None/zeros raises", pinput(pz, fn="LQ (hardening: optional)", T=T), repr(e), None)

        # ===================================================== LQ: several objects alive, attribute re-assignment
        for t in range(18 if thorough else 6):
            n, k, j = rng.randint(1, 3), rng.randint(1, 2), rng.randint(1, 2)
            p1, p2 = gen_lq_int(rng, n, k, j), gen_lq_int(rng, n, k, j)
            if p1 is None or p2 is None:
                continue
            finite = rng.random() < 0.6
            T1, T2 = (rng.randint(1, 4), rng.randint(1, 4)) if finite else (None, None)
            b1, b2 = (1.0, 0.5) if finite else (0.5, 0.75)
            x0 = np.array([rng.randint(-3, 3) for _ in range(n)], dtype=float)
            inp = {"fn": "LQ (hardening: objects)", "p1": {nm: p1[nm] for nm in mat_names}, "p2": {nm: p2[nm] for nm in mat_names}, "T1": T1, "T2": T2, "beta1": b1, "beta2": b2}
            ctx.case(("h_lq_objects", str(inp)), nontrivial=True)
            try:
                r1, r2 = _lq_run(fresh_lq(p1, T1, b1), T1, x0, 5), _lq_run(fresh_lq(p2, T2, b2), T2, x0, 5)
                # two objects alive at once, calls interleaved
                o1, o2 = fresh_lq(p1, T1, b1), fresh_lq(p2, T2, b2)
                g1, g2 = [], []
                if finite:
                    for s_ in range(max(T1, T2)):
                        if s_ < T1: o1.update_values(); g1 += [np.array(o1.F), np.array(o1.P), float(o1.d)]
                        if s_ < T2: o2.update_values(); g2 += [np.array(o2.F), np.array(o2.P), float(o2.d)]
                    a1 = o1.compute_sequence(x0, random_state=5); a2 = o2.compute_sequence(x0, random_state=5)
                    g1 += [a1[0], a1[1], a1[2], np.array(o1.P), float(o1.d)]; g2 += [a2[0], a2[1], a2[2], np.array(o2.P), float(o2.d)]
                else:
                    s1 = o1.stationary_values(); s2 = o2.stationary_values()
                    a1 = o1.compute_sequence(x0, ts_length=4, random_state=5); a2 = o2.compute_sequence(x0, ts_length=4, random_state=5)
                    g1 = list(s1) + list(a1); g2 = list(s2) + list(a2)
                ctx.count("seq:two_objects_interleaved")
                if max(_dev(g1, r1), _dev(g2, r2)) > 1e-12:
                    ctx.fail("lq_objects_interfere", "two LQ objects alive at once: interleaved calls differ from the same calls on separate fresh objects", inp, None, None)
                # attribute re-assignment: o1 gets all of p2's data, then must behave as a fresh object built from it
                for nm in ("Q", "R", "A", "B", "C", "N"):
                    setattr(o1, nm, fa(p2[nm]))
                o1.beta = b2
                if finite:
                    o1.Rf = fa(p2["Rf"]); o1.T = T2
                    a = o1.compute_sequence(x0, random_state=5)
                    got = [a[0], a[1], a[2], np.array(o1.P), float(o1.d)]; exp = r2[-5:]
                else:
                    s_ = o1.stationary_values(); a = o1.compute_sequence(x0, ts_length=4, random_state=5)
                    got = list(s_) + list(a); exp = r2
                ctx.count("seq:reassign_all_attributes")
                if _dev(got, exp) > 1e-12:
                    ctx.fail("lq_stale_state", "after re-assigning Q,R,A,B,C,N,beta%s the object does not behave as a fresh object built from the current data" % (",Rf,T" if finite else ""), inp, None, None)
            except Exception as e:     # noqa
                ctx.fail("lq_raises", "LQ object sequence raises", inp, repr(e), None)

        # ===================================================== degenerate LQ problems
        for t in range(10 if thorough else 4):
            n, k = rng.randint(1, 2), 1
            p = gen_lq_int(rng, n, k, 1)
            if p is None:
                continue
            which = ("A=0", "Rf=0,x0=0,T=1", "beta=1-1e-6", "n=k=j=1")[t % 4]
            ctx.count("degenerate:LQ_%s" % which); ctx.case(("h_lq_deg", which, str(p)), nontrivial=True)
            inp = pinput(p, fn="LQ (hardening: degenerate %s)" % which)
            try:
                if which == "A=0":
                    pA = dict(p, A=zeros(n, n))
                    P, F, d = fresh_lq(pA, None, 0.5).stationary_values()
                    # with A = 0 next period's state is B u + C w: P = R - N'(Q + .5 B'PB)^-1 N solved by the update itself
                    Fx, Px, dx = exact_update(dict(pA, beta=Fraction(1, 2)), fr2(P), frac(float(d)))
                    if max(_rel_f(P, fl(Px)), _rel_f(F, fl(Fx))) > 1e-8:
                        ctx.fail("lq_degenerate", "A = 0: stationary (P, F) is not a fixed point of the exact update", inp, np.array(P).tolist(), fl(Px))
                elif which == "Rf=0,x0=0,T=1":
                    lq = qe.LQ(fa(p["Q"]), fa(p["R"]), fa(p["A"]), fa(p["B"]), C=np.zeros((n, 1)), N=fa(p["N"]), beta=1, T=1, Rf=np.zeros((n, n)))
                    xp, up, wp = lq.compute_sequence(np.zeros(n), random_state=1)
                    if np.max(np.abs(xp)) > 0 or np.max(np.abs(up)) > 0:
                        ctx.fail("lq_degenerate", "x0 = 0, C = 0: the path must stay at 0", inp, xp.tolist(), 0)
                    Fx, Px, dx = exact_update(dict(p, beta=Fraction(1), C=None), zeros(n, n), Fraction(0))
                    if max(_rel_f(lq.P, fl(Px)), _rel_f(lq.F, fl(Fx))) > 1e-9:
                        ctx.fail("lq_degenerate", "T = 1, Rf = 0: (P, F) is not the one-step solution", inp, np.array(lq.P).tolist(), fl(Px))
                elif which == "beta=1-1e-6":
                    b_ = 1 - 1e-6
                    P, F, d = fresh_lq(p, None, b_).stationary_values()
                    Cn = npf(p["C"]); dexp = b_ / (1 - b_) * float(np.trace(Cn.T @ P @ Cn))
                    P1, F1, d1 = fresh_lq(p, None, b_).stationary_values(method="qz")
                    if abs(d - dexp) > 1e-6 * (1 + abs(dexp)) or _dev((P1, F1), (P, F)) > 1e-6:
                        ctx.fail("lq_degenerate", "beta = 1 - 1e-6: d is not beta/(1-beta) tr(C'PC) or the two methods disagree", inp, [float(d), np.array(P).tolist()], dexp)
                else:
                    p1_ = gen_lq_int(rng, 1, 1, 1)
                    if p1_ is not None:
                        sc = {nm: int(p1_[nm][0][0]) for nm in mat_names}
                        a_ = qe.LQ(sc["Q"], sc["R"], sc["A"], sc["B"], C=sc["C"], N=sc["N"], beta=0.5).stationary_values()
                        b_ = fresh_lq(p1_, None, 0.5).stationary_values()
                        if _dev(a_, b_) > 1e-9:
                            ctx.fail("lq_degenerate", "scalar arguments: differs from the 1x1 matrix call", pinput(p1_, fn="LQ scalars"), None, None)
            except Exception as e:     # noqa
                ctx.fail("lq_raises", "degenerate LQ problem (%s) raises" % which, inp, repr(e), None)

        # ===================================================== LQMarkov objects
        for t in range(12 if thorough else 4):
            m, n, k, j = rng.choice((1, 2, 2)), rng.randint(1, 2), 1, rng.randint(1, 2)
            regs = [gen_lq_int(rng, n, k, j) for _ in range(m)]
            if any(r is None for r in regs):
                continue
            Pi = _gen_Pi(rng, m)
            inp = {"fn": "LQMarkov (hardening)", "m": m, "Pi": Pi, "regimes": [{nm: r[nm] for nm in mat_names[:6]} for r in regs]}
            ctx.case(("h_lqmarkov", str(inp)), nontrivial=True)
            L = lambda nm, dress="float64": [dress_array(r[nm], dress) for r in regs]     # noqa

            def mkobj(beta=0.9, dress="float64", pid="float64", **kw):
                Pia = {"float64": _f(Pi), "list": _f(Pi).tolist(), "tuple": tuple(map(tuple, _f(Pi).tolist())), "fortran": np.asfortranarray(_f(Pi))}[pid]
                return qe.LQMarkov(Pia, L("Q", dress), L("R", dress), L("A", dress), L("B", dress), beta=beta, **kw)
            try:
                x0 = np.array([rng.randint(-2, 2) for _ in range(n)], dtype=float)
                full = dict(Cs=L("C"), Ns=L("N"))
                o = mkobj(**full); ref = o.stationary_values(); ref = [np.array(x) for x in ref]
                again = o.stationary_values(); ctx.count("seq:lqmarkov_repeat")
                s1 = o.compute_sequence(x0, ts_length=5, random_state=3); s2 = o.compute_sequence(x0, ts_length=5, random_state=np.int64(3))
                s3 = mkobj(**full).compute_sequence(x0, ts_length=5, random_state=3)
                if _dev(again, ref) > 0 or _dev(s2, s1) > 0 or _dev(s3, s1) > 1e-12:
                    ctx.fail("lqmarkov_stale_state", "repeated stationary_values / compute_sequence on one object differ from a fresh object", inp, None, None)
                dress, pid = rng.choice(ARRAY_DRESS), rng.choice(("list", "tuple", "fortran"))
                ctx.count("dress:%s" % dress); ctx.count("dress:Pi=%s" % pid)
                argsM = {"Q0": L("Q", dress)[0], "A0": L("A", dress)[0]}
                got = checked_call(ctx, "lqmarkov", lambda: qe.LQMarkov(_f(Pi).tolist() if pid == "list" else (tuple(map(tuple, _f(Pi).tolist())) if pid == "tuple" else np.asfortranarray(_f(Pi))),
                                   [argsM["Q0"]] + L("Q", dress)[1:], L("R", dress), [argsM["A0"]] + L("A", dress)[1:], L("B", dress), Cs=L("C", dress), Ns=L("N", dress), beta=np.float64(0.9)).stationary_values(max_iter=np.int64(1000)), argsM, dict(inp, dress=dress))
                if got is not None and _dev(got, ref) > (1e-5 if dress == "float32" else 1e-9):
                    ctx.fail("lqmarkov_dress", "LQMarkov with %s arguments differs from the canonical call" % dress, dict(inp, dress=dress), None, None)
                # optional Cs / Ns: omitted vs None vs explicit zeros
                zc = [np.zeros((n, 1)) for _ in regs]; zn = [np.zeros((k, n)) for _ in regs]
                r0 = mkobj(Cs=zc, Ns=zn).stationary_values()
                for kw in ({}, {"Cs": None}, {"Ns": None}, {"Cs": None, "Ns": None}):
                    ctx.count("optional:LQMarkov_%s" % ("+".join(sorted(kw)) or "omitted"))
                    if _dev(mkobj(**kw).stationary_values(), r0) > 1e-12:
                        ctx.fail("lqmarkov_optional_arguments", "LQMarkov with Cs/Ns omitted or None differs from explicit zero matrices", dict(inp, kwargs=sorted(kw)), None, None)
                # attribute re-assignment and two objects alive
                o2 = mkobj(beta=0.5, **full); o.beta = 0.5; ctx.count("seq:lqmarkov_reassign_beta")
                a_, b_ = o.stationary_values(), o2.stationary_values()
                if _dev(a_, b_) > 1e-12:
                    ctx.fail("lqmarkov_stale_state", "after beta is re-assigned the object differs from a fresh object", inp, None, None)
            except Exception as e:     # noqa
                if "Convergence failed" in str(e):
                    ctx.count("lqmarkov:noconv"); continue
                ctx.fail("lqmarkov_raises", "LQMarkov hardening battery raises", inp, repr(e), None)

        # ===================================================== RBLQ objects
        for t in range(15 if thorough else 5):
            n, k, j = rng.randint(1, 3), rng.randint(1, 2), rng.randint(1, 2)
            p = gen_lq_int(rng, n, k, j)
            if p is None or all(v == 0 for r in p["C"] for v in r):
                continue
            names = ("Q", "R", "A", "B", "C")
            try:
                P0 = fresh_lq(dict(p, N=zeros(k, n)), None, 0.9).stationary_values()[0]
            except Exception:     # noqa
                continue
            theta = int(50 * (1 + np.max(np.linalg.eigvalsh(npf(p["C"]).T @ P0 @ npf(p["C"])))))
            inp = {"fn": "RBLQ (hardening)", "Q": p["Q"], "R": p["R"], "A": p["A"], "B": p["B"], "C": p["C"], "beta": "9/10", "theta": theta}
            ctx.case(("h_rblq", str(inp)), nontrivial=True)
            mk = lambda th=float(theta), b=0.9: qe.RBLQ(*[fa(p[nm]) for nm in names], b, th)     # noqa
            try:
                e0 = mk().robust_rule(); e1 = mk().robust_rule_simple()
                if _dev(e1, e0) > 1e-6:
                    ctx.count("forms:RBLQ_skipped(simple iteration not contracting)"); continue
                forms = {nm: rng.choice(ARRAY_DRESS) for nm in names}
                args = {nm: dress_array(p[nm], forms[nm]) for nm in names}
                fth = rng.choice(("int", "float", "np.int64", "np.int32", "np.intp", "np.float64")); fbt = rng.choice(("float", "np.float64"))
                for f_ in list(forms.values()) + ["theta=" + fth, "beta=" + fbt]:
                    ctx.count("dress:%s" % f_)
                tolf = 1e-5 if "float32" in forms.values() else 1e-9

                def go():
                    rb = qe.RBLQ(*[args[nm] for nm in names], dress_scalar(0.9, fbt), dress_scalar(theta, fth))
                    out = [rb.robust_rule(), rb.robust_rule(method="doubling"), rb.robust_rule_simple(), rb.robust_rule_simple(P_init=None),
                           rb.robust_rule_simple(P_init=np.zeros((n, n)), max_iter=np.int64(80), tol=np.float64(1e-8)), rb.robust_rule(), rb.robust_rule(method="qz")]
                    Pm = np.array(e0[2]); keep = Pm.copy()
                    out.append(rb.d_operator(Pm)); out.append(rb.b_operator(Pm))
                    if not np.array_equal(Pm, keep):
                        raise AssertionError("d_operator/b_operator modify their argument P")
                    out.append(rb.K_to_F(np.array(e0[1])))
                    return out
                got = checked_call(ctx, "rblq", go, args, dict(inp, dress=forms))
                ctx.count("optional:RBLQ_method/P_init/max_iter/tol"); ctx.count("seq:rblq_repeat")
                if got is not None:
                    rbf = mk(); Pm = np.array(e0[2])
                    exp = [e0, e0, e1, e1, e1, e0, rbf.robust_rule(method="qz"), rbf.d_operator(Pm), rbf.b_operator(Pm), rbf.K_to_F(np.array(e0[1]))]
                    for ix, (g_, x_) in enumerate(zip(got, exp)):
                        if _dev(g_, x_) > (max(tolf, 1e-7) if ix == 6 else tolf):
                            ctx.fail("rblq_dress", "RBLQ call #%d of the battery (dress %s) differs from the canonical float64 object by %.3g" % (ix, forms, _dev(g_, x_)), dict(inp, dress=forms, call=ix), None, None)
                # two objects alive + attribute re-assignment
                ra, rbb = mk(), mk(th=float(4 * theta), b=0.8)
                x1 = ra.robust_rule(); y1 = rbb.robust_rule(); x2 = ra.robust_rule_simple(); y2 = rbb.robust_rule_simple()
                ctx.count("seq:two_objects_interleaved")
                if _dev(x1, e0) > 1e-12 or _dev(y1, mk(th=float(4 * theta), b=0.8).robust_rule()) > 1e-12:
                    ctx.fail("rblq_objects_interfere", "two RBLQ objects alive at once interfere", inp, None, None)
                ra.theta = float(4 * theta); ra.beta = 0.8; ctx.count("seq:rblq_reassign_theta_beta")
                if _dev(ra.robust_rule(), y1) > 1e-12 or _dev(ra.robust_rule_simple(), y2) > 1e-12:
                    ctx.fail("rblq_stale_state", "after theta, beta are re-assigned the object differs from a fresh object", inp, None, None)
                # degenerate: C = 0 -> D(P) = P, the robust rule IS the LQ rule
                if t % 2 == 0:
                    ctx.count("degenerate:RBLQ_C=0")
                    inpz = dict(inp, C=zeros(n, j), note="C replaced by the zero matrix")
                    rz = qe.RBLQ(fa(p["Q"]), fa(p["R"]), fa(p["A"]), fa(p["B"]), np.zeros((n, j)), 0.9, float(theta))
                    Fz, Kz, Pz = rz.robust_rule()
                    Pl, Fl, dl = qe.LQ(fa(p["Q"]), fa(p["R"]), fa(p["A"]), fa(p["B"]), beta=0.9).stationary_values()
                    if _dev((Fz, Pz), (Fl, Pl)) > 1e-8 or np.max(np.abs(Kz)) > 1e-12:
                        ctx.fail("rblq_degenerate", "C = 0: robust_rule must return the ordinary LQ rule and K = 0", inpz, [np.array(Fz).tolist(), np.array(Kz).tolist()], np.array(Fl).tolist())
                    # robust_rule_simple iterates the UNSYMMETRISED map P -> B(D(P)); where its Jacobian at the solution is not
                    # a contraction (antisymmetric directions, unstable A) rounding asymmetry grows and the routine diverges or
                    # raises on the pinned tree: compared only where the map contracts, otherwise counted
                    rate = _simple_iteration_rate(fa(p["Q"]), fa(p["R"]), fa(p["A"]), fa(p["B"]), np.zeros((n, j)), 0.9, float(theta), np.array(Pl))
                    if rate < 1 and rate ** 80 * (1 + float(np.max(np.abs(Pl)))) < 1e-8:     # 80 = the routine's own iteration cap
                        Fs, Ks, Ps = rz.robust_rule_simple()
                        if _dev((Fs, Ps), (Fl, Pl)) > 1e-6:
                            ctx.fail("rblq_degenerate", "C = 0 and a contracting simple iteration: robust_rule_simple must return the ordinary LQ rule", inpz, np.array(Fs).tolist(), np.array(Fl).tolist())
                    else:
                        ctx.count("rblq:simple_iteration=not contracting at C=0 (comparison skipped)")
            except Exception as e:     # noqa
                ctx.fail("rblq_raises", "RBLQ hardening battery raises", inp, repr(e), None)

        # ===================================================== nnash
        for t in range(15 if thorough else 5):
            n, k1, k2 = rng.randint(1, 2), 1, rng.randint(1, 2)
            if t % 3 == 0:
                n, k1, k2 = 1, 1, 1; ctx.count("degenerate:nnash_n=k1=k2=1")
            p1, p2 = gen_lq_int(rng, n, k1, 1), gen_lq_int(rng, n, k2, 1)
            if p1 is None or p2 is None:
                continue
            Z = lambda r, c: [[Fraction(0)] * c for _ in range(r)]     # noqa
            mats = (p1["A"], p1["B"], p2["B"], p1["R"], p2["R"], p1["Q"], p2["Q"], Z(k2, k2), Z(k1, k1), mtr(p1["N"]), mtr(p2["N"]), Z(k2, k1), Z(k1, k2))
            inp = dict(zip(_NNASH_NAMES, mats)); inp.update({"fn": "nnash (hardening)", "beta": "9/10"})
            try:
                e = qe.nnash(*[npf(M) for M in mats], beta=0.9)
            except Exception:     # noqa
                ctx.count("forms:nnash_float64_run_raised"); continue
            ctx.case(("h_nnash", str(inp)), nontrivial=True)
            forms = [rng.choice(ARRAY_DRESS) for _ in mats]
            args = {nm: dress_array(M, f_) for nm, M, f_ in zip(_NNASH_NAMES, mats, forms)}
            fbt = rng.choice(("float", "np.float64")); fmi = rng.choice(("int", "np.int64", "np.int32", "np.intp"))
            for f_ in forms + ["beta=" + fbt, "max_iter=" + fmi]:
                ctx.count("dress:%s" % f_)
            got = checked_call(ctx, "nnash", lambda: qe.nnash(*[args[nm] for nm in _NNASH_NAMES], beta=dress_scalar(0.9, fbt), tol=1e-8, max_iter=dress_scalar(1000, fmi)), args, dict(inp, dress=forms))
            ctx.count("optional:nnash_tol/max_iter_explicit")
            if got is not None and _dev(got, e) > (1e-5 if "float32" in forms else 1e-9):
                ctx.fail("nnash_dress", "nnash with dressed arguments differs from the canonical float64 call by %.3g" % _dev(got, e), dict(inp, dress=forms), None, None)
            try:
                b1 = qe.nnash(*[npf(M) for M in mats]); b2 = qe.nnash(*[npf(M) for M in mats], beta=1.0)
                ctx.count("optional:nnash_beta_omitted")
                if _dev(b1, b2) > 0:
                    ctx.fail("nnash_optional_arguments", "nnash with beta omitted differs from beta=1.0", inp, None, None)
            except Exception:     # noqa  (beta = 1: the sweep need not converge)
                ctx.count("nnash:noconv")


# ====================================================================== operation sequences on ONE LQ object
def exact_update(p, P, d):
    """one update_values step in exact Fractions (independent of the Coq model): returns (F, P', d')"""
    A, B, Q, R, N, beta = p["A"], p["B"], p["Q"], p["R"], p["N"], p["beta"]
    C = Cmat(p)
    S1 = madd(Q, mscale(beta, mmul(mtr(B), mmul(P, B))))
    S2 = madd(mscale(beta, mmul(mtr(B), mmul(P, A))), N)
    F = fsolve(S1, S2)
    Pn = madd(madd(R, mmul(mtr(S2), F), -1), mscale(beta, mmul(mtr(A), mmul(P, A))))
    PCC = mmul(P, mmul(C, mtr(C)))
    dn = beta * (d + sum(PCC[i][i] for i in range(len(PCC))))
    return F, Pn, dn


def exact_horizon(p, T, Rf):
    """exact finite-horizon rules of THIS (T, Rf): ([F_0..F_{T-1}] in time order, P_0, d_0)"""
    P, d, Fs = Rf, Fraction(0), []
    for _ in range(T):
        F, P, d = exact_update(p, P, d)
        Fs.append(F)
    return Fs[::-1], P, d


def _rel_f(a, b):
    a = np.atleast_1d(np.array(a, dtype=float)); b = np.atleast_1d(np.array(b, dtype=float))
    return float(np.max(np.abs(a - b)) / (1 + np.max(np.abs(b)))) if a.shape == b.shape else float("inf")


def object_sequences(ctx, qe, thorough, PRE):
    """construct one LQ object, then 2-4 of {compute_sequence, update_values, stationary_values}; after every operation
    compare the object's (P, d) and the paths with (a) the Coq model folded over the same operations and (b) an exact
    Fraction oracle of what THIS object's (T, Rf) prescribes (state must not leak from one call to the next)."""
    rng = ctx.rng
    cases, meta = [], []
    n_obj = 90 if thorough else 28
    for t in range(n_obj):
        finite = rng.random() < 0.65
        n, k = rng.randint(1, 3), rng.randint(1, 2)
        noise = rng.random() < 0.7
        nops = rng.randint(2, 4)
        if finite:
            kinds = [rng.choice(["seq", "seq", "update", "stationary" if rng.random() < 0.4 else "seq"]) for _ in range(nops)]
            if "seq" not in kinds[1:]:
                kinds[-1] = "seq"            # a compute_sequence AFTER other operations is the point
        else:
            kinds = [rng.choice(["stationary", "seq"])] + [rng.choice(["seq", "seq", "update", "stationary"]) for _ in range(nops - 1)]
            if kinds.count("seq") < 2:
                kinds += ["seq"]
        need_st = (not finite) or ("stationary" in kinds)
        p = gen_lq(rng, n, k, rng.randint(1, 3), rng.random() < 0.5, noise, stationary=need_st,
                   radius=rng.choice([0.5, 0.9, 1.1]) if need_st else None)
        if p is None:
            continue
        T = rng.randint(1, 5) if finite else None
        lq = make_lq(qe, p, T=T)
        jj = p["j"]
        ops_desc, coq_ops, exps = [], [], []
        Pex, dex = (p["Rf"], Fraction(0)) if finite else (None, None)
        gamma, sb = 1.0, float(np.sqrt(float(p["beta"])))
        ok_case, uses_st = True, False
        inp_base = pinput(p, fn="LQ object: operation sequence", T=T)
        for oi, kd in enumerate(kinds):
            here = dict(inp_base, ops=ops_desc + [kd], failing_op=oi)
            try:
                if kd == "update":
                    lq.update_values()
                    Fx, Pex, dex = exact_update(p, Pex, dex)
                    coq_ops.append("OpUpdate"); ops_desc.append("update_values()")
                    exps.append((np.array(lq.P), float(lq.d), [], []))
                    dev = max(_rel_f(lq.P, fl(Pex)), _rel_f(lq.d, float(dex)), _rel_f(lq.F, fl(Fx)))
                    if dev > TOL_ST:
                        ctx.fail("lq_object_state", "update_values: (P, d, F) is not the update of the object's previous (P, d)", here, [np.array(lq.P).tolist(), float(lq.d)], [fl(Pex), float(dex)])
                elif kd == "stationary":
                    (res), rec = riccati_hook(lambda: lq.stationary_values())
                    gamma = rec.get("gamma", gamma); uses_st = True
                    coq_ops.append("OpStationary"); ops_desc.append("stationary_values()")
                    exps.append((np.array(lq.P), float(lq.d), [], []))
                    Pex, dex = fr2(lq.P), frac(float(lq.d))
                    Fx, P2, d2 = exact_update(p, Pex, dex)
                    dev = max(_rel_f(lq.P, fl(P2)), _rel_f(lq.d, float(d2)), _rel_f(lq.F, fl(Fx)))
                    if dev > TOL_ST:
                        ctx.fail("lq_object_state", "stationary_values leaves a (P, d, F) on the object that is not a fixed point of the update", here, [np.array(lq.P).tolist(), float(lq.d)], [fl(P2), float(d2)])
                else:
                    x0 = [rnd_frac(rng) for _ in range(n)]
                    if finite:
                        ts = rng.choice([None, None, T, max(1, T - 1), T + 2]); Te = T if not ts else min(ts, T)
                    else:
                        ts = rng.randint(1, 5); Te = ts
                    script = [[rng.randint(-8, 8) / 4.0 for _ in range(Te + 1)] for _ in range(jj)]
                    first_inf = (not finite) and lq.P is None
                    if first_inf:
                        (out), rec = riccati_hook(lambda: lq.compute_sequence(np.array([float(v) for v in x0]), ts_length=ts, random_state=Scripted(script)))
                        gamma = rec.get("gamma", gamma); uses_st = True
                        Pex, dex = fr2(lq.P), frac(float(lq.d))
                    else:
                        out = lq.compute_sequence(np.array([float(v) for v in x0]), ts_length=ts, random_state=Scripted(script))
                    xp, up, wp = out
                    ws = [[script[a][s_] for a in range(jj)] for s_ in range(1, Te + 1)]
                    coq_ops.append("OpSequence %s %s %s" % (natlit(Te), flist([float(v) for v in x0]), flist2(ws)))
                    ops_desc.append("compute_sequence(x0=%s, ts_length=%s)" % ([str(v) for v in x0], ts))
                    exps.append((np.array(lq.P), float(lq.d), xp.T.tolist(), up.T.tolist()))
                    here = dict(here, ops=ops_desc, x0=x0, w=script, ts_length=ts)
                    # ---- oracle: rules and state THIS object prescribes
                    if finite:
                        Ft, Pex, dex = exact_horizon(p, Te, p["Rf"])
                        Ft = [npf(F_) for F_ in Ft]
                    else:
                        Ft = [np.array(lq.F)] * Te
                    An, Bn, Cn = npf(p["A"]), npf(p["B"]), npf(Cmat(p))
                    bad = xp.shape != (n, Te + 1) or up.shape != (k, Te)
                    worst_dev = 0.0
                    if not bad:
                        for s_ in range(Te):
                            sc = 1 + np.max(np.abs(xp[:, s_ + 1])) + np.max(np.abs(up[:, s_]))
                            worst_dev = max(worst_dev, np.max(np.abs(up[:, s_] + Ft[s_] @ xp[:, s_])) / sc,
                                            np.max(np.abs(xp[:, s_ + 1] - (An @ xp[:, s_] + Bn @ up[:, s_] + Cn @ np.array(script)[:, s_ + 1]))) / sc)
                    if bad or worst_dev > TOL_ST or np.max(np.abs(xp[:, 0] - np.array([float(v) for v in x0]))) > 0:
                        ctx.fail("lq_object_sequence", "compute_sequence on a used object: u_t = -F_t x_t fails for the rules of this object's own (T, Rf) / dynamics violated",
                                 here, {"x_path": xp.tolist(), "u_path": up.tolist()}, {"F_t": [F_.tolist() for F_ in Ft]})
                    dev = max(_rel_f(lq.P, fl(Pex)), _rel_f(lq.d, float(dex)))
                    if dev > TOL_ST:
                        ctx.fail("lq_object_state", "compute_sequence leaves a (P, d) on the object that is not (P_0, d_0) of its own horizon", here,
                                 [np.array(lq.P).tolist(), float(lq.d)], [fl(Pex), float(dex)])
            except Exception as e:     # noqa
                ctx.fail("lq_object_raises", "operation %d (%s) raises" % (oi, kd), here, repr(e), None)
                ok_case = False
                break
        ctx.count("object:%s" % ("finite" if finite else "infinite")); ctx.count("object:ops=%s" % ",".join(k_[:3] for k_ in kinds))
        ctx.case(("object", finite, T, str(p), str(ops_desc)), nontrivial=True)
        if not ok_case:
            continue
        tolname = "STOL" if uses_st else "VTOL"
        exp_l = "[" + "; ".join(tup(flist2(np.atleast_2d(P_).tolist()), f1(d_), flist2(X_) if X_ else "(@nil (list float))",
                                     flist2(U_) if U_ else "(@nil (list float))") for (P_, d_, X_, U_) in exps) + "]"
        cases.append(tup(tup(*coq_params_f(p)), ("(Some %s)" % flist2(fl(p["Rf"]))) if finite else "(@None (list (list float)))",
                         f1(gamma), f1(sb), tolname, "[" + "; ".join(coq_ops) + "]", exp_l))
        meta.append(dict(inp_base, ops=ops_desc))
    pre = PRE + ("Fixpoint all2h {A B} (p : A -> B -> bool) (a : list A) (b : list B) : bool :=\n"
                 "  match a, b with [], [] => true | x :: a', y :: b' => p x y && all2h p a' b' | _, _ => false end.\n")
    ok = ("fun c => let '(p, hor, gamma, sb, tol, ops, exps) := c in " + PLET +
          "match lq_run n k j beta Q R A B C N hor RTOL RMAX gamma sb (hor, 0%float, None) ops with "
          "| Some res => all2h (fun (r : lq_state * lq_out) (e : list (list float) * float * list (list float) * list (list float)) => "
          "    let '(st, out) := r in let '(P', d', _) := st in let '(Pe, de, X, U) := e in "
          "    match P' with Some P1 => Fss_close tol P1 Pe && Fclose tol d' de | None => false end && "
          "    match out with OutPaths xs us => Fss_close tol xs X && Fss_close tol us U | OutNone => true end) res exps "
          "| None => false end")
    ty = "(%s) * option (list (list float)) * float * float * float * list lq_op * list (list (list float) * float * list (list float) * list (list float))" % PTY_F
    bad = ctx.coq_check("lq_object_operations_float", IMPORTS, ty, ok, cases, chunk=4, preamble=pre)
    for i in bad:
        ctx.mismatch("C07.Model.lq_run (fold of lq_apply over the operations, NumF) vs the same calls on one LQ object", meta[i])


# ====================================================================== derived solvers: RBLQ, nnash, LQMarkov (oracle only)

import json
import time
from fractions import Fraction

import numpy as np

# ------------------------------------------------------------------ tolerances
# all relative: max|impl - expected| / (1 + max|expected|)   (calibrated, see __main__)
TOL_RBLQ_METHODS = 1e-6      # robust_rule vs robust_rule_simple (simple stops at 1e-8 on P)
TOL_RBLQ_FIXED_POINT = 1e-10 # robust Bellman residual of robust_rule's (F, K, P)
TOL_RBLQ_OWN_ITER = 1e-8     # robust_rule's P vs own robust Bellman iteration (numpy) from P = 0
TOL_RBLQ_THETA_LAST = 1e-5   # distance to ordinary LQ at the largest theta
TOL_RBLQ_THETA_FLOOR = 1e-10  # below this the distance is rounding noise: no decrease required
TOL_RBLQ_MAPS = 1e-7         # F_to_K / K_to_F at the robust solution
TOL_NNASH = 3e-5             # nnash stops at 1e-8 on the change of F; slow sweeps leave up to 1e-6
TOL_LQMARKOV = 1e-7          # Riccati system iterated to 1e-10
THETA_GRID = (10 ** 3, 10 ** 5, 10 ** 7, 10 ** 9)   # multiples of the problem scale s
SIMPLE_RATE_MAX = 0.9         # robust_rule_simple compared only if beta rho(A-BF+CK)^2 is below this
NNASH_CLOSED_LOOP_MAX = 0.95  # nnash compared only if sqrt(beta)(A - B1F1 - B2F2) has radius below this
# kinds that fail on the pinned tree because of genuine defects found while calibrating
FINDING_KINDS = ("nnash_premature_stop",)

CORR = {"rblq": [], "nnash": [], "lqmarkov": []}   # problems of the derived checks, re-used by the correspondence
WORST = {}   # kind -> worst observed/tolerance ratio seen in the last derived_checks run


def _track(kind, ratio):
    ratio = float(ratio)
    if not (ratio == ratio):
        ratio = float("inf")
    if ratio > WORST.get(kind, 0.0):
        WORST[kind] = ratio
    return ratio


# ------------------------------------------------------------------ small helpers
def _f(M):
    """Fraction matrix (list of lists) -> float ndarray (2-d)"""
    return np.array([[float(x) for x in row] for row in M], dtype=float)


def _rel(impl, expected):
    impl = np.asarray(impl, dtype=float)
    expected = np.asarray(expected, dtype=float)
    if impl.shape != expected.shape:
        return float("inf")
    if impl.size == 0:
        return 0.0
    if not np.all(np.isfinite(impl)):
        return float("inf")
    return float(np.max(np.abs(impl - expected)) / (1.0 + np.max(np.abs(expected))))


def _lst(x):
    return np.asarray(x, dtype=float).tolist()


def _fr(rng, bound, den):
    return Fraction(rng.randint(-bound * den, bound * den), den)


def _mat(rng, r, c, bound=1, dens=(1, 2, 4), zero_p=0.15):
    out = []
    for _ in range(r):
        row = []
        for _ in range(c):
            if rng.random() < zero_p:
                row.append(Fraction(0))
            else:
                row.append(_fr(rng, bound, rng.choice(dens)))
        out.append(row)
    return out


def _mul(X, Y):
    return [[sum((X[i][l] * Y[l][j] for l in range(len(Y))), Fraction(0)) for j in range(len(Y[0]))]
            for i in range(len(X))]


def _tr(X):
    if not X:
        return []
    return [[X[i][j] for i in range(len(X))] for j in range(len(X[0]))]


def _add_diag(X, e):
    return [[X[i][j] + (e if i == j else 0) for j in range(len(X))] for i in range(len(X))]


def _gram(rng, rows, n, bound=1, dens=(1, 2)):
    """W'W with W rows x n (exact rational PSD matrix of rank <= rows)"""
    if rows == 0:
        return [[Fraction(0)] * n for _ in range(n)]
    W = _mat(rng, rows, n, bound, dens, zero_p=0.1)
    return _mul(_tr(W), W)


def _spectral_radius(Af):
    return float(np.max(np.abs(np.linalg.eigvals(Af)))) if Af.size else 0.0


def _gen_A(rng, n, lo=0.3, hi=1.2):
    """rational A whose spectral radius is (close to) a target drawn from [lo, hi]"""
    if hi > 1 and rng.random() < 0.3:
        lo = 1.0                               # make sure unstable A is well represented
    target = lo + (hi - lo) * rng.random()
    for _ in range(50):
        M = _mat(rng, n, n, 2, (1, 2), zero_p=0.2)
        rho = _spectral_radius(_f(M))
        if rho > 0.2:
            break
    else:
        M = [[Fraction(int(i == j)) for j in range(n)] for i in range(n)]
        rho = 1.0
    s = Fraction(target / rho).limit_denominator(16)
    if s == 0:
        s = Fraction(1, 16)
    A = [[x * s for x in row] for row in M]
    return A, _spectral_radius(_f(A))


def _controllable(Af, Bf):
    n = Af.shape[0]
    blocks, X = [], Bf
    for _ in range(n):
        blocks.append(X)
        X = Af @ X
    sv = np.linalg.svd(np.hstack(blocks), compute_uv=False)
    return sv[min(n, len(sv)) - 1] > 1e-3 * max(1.0, sv[0]) if len(sv) >= n else False


def _gen_B(rng, A, n, k):
    """generic rational B with (A, B) controllable; None when none is found for this A"""
    Af = _f(A)
    for _ in range(20):
        B = _mat(rng, n, k, 1, (1, 2), zero_p=0.1)
        if _controllable(Af, _f(B)):
            return B
    return None


def _gen_AB(rng, n, ks, lo=0.3, hi=1.2):
    """A with spectral radius in [lo, hi] and one controllable B per entry of ks"""
    while True:
        A, rho = _gen_A(rng, n, lo, hi)
        Bs = [_gen_B(rng, A, n, k) for k in ks]
        if all(B is not None for B in Bs):
            return A, rho, Bs


def _gen_cost(rng, n, k, rho, with_N, allow_singular=True):
    """(Q, R, N, singular): joint cost [[R, N'], [N, Q]] = Z'Z + diag(0, eps I) is PSD;
    R = W'W is singular sometimes (only for clearly stable A, where the PSD Riccati
    solution is unique without a detectability assumption)."""
    eps = rng.choice((Fraction(1, 2), Fraction(1), Fraction(2)))
    singular = allow_singular and n >= 2 and rho < 0.9 and rng.random() < 0.35
    rows = rng.randint(1, n - 1) if singular else n + rng.randint(0, 1)
    W = _mat(rng, rows, n, 1, (1, 2), zero_p=0.1) if rows else []
    V = _mat(rng, rows, k, 1, (1, 2), zero_p=0.1) if rows else []
    if rows:
        R = _mul(_tr(W), W)
        Q = _add_diag(_mul(_tr(V), V), eps)
        N = _mul(_tr(V), W)
    else:
        R = [[Fraction(0)] * n for _ in range(n)]
        Q = _add_diag([[Fraction(0)] * k for _ in range(k)], eps)
        N = [[Fraction(0)] * n for _ in range(k)]
    if not with_N:
        N = None
        if rng.random() < 0.5:           # independent V when there is no cross term
            Q = _add_diag(_gram(rng, k, k), eps)
    if not singular:
        Rf = _f(R)
        eff = Rf if N is None else Rf - _f(N).T @ np.linalg.solve(_f(Q), _f(N))
        if np.min(np.linalg.eigvalsh((eff + eff.T) / 2)) < 0.05:
            R = _add_diag(R, Fraction(1, 4))
    else:
        singular = np.linalg.matrix_rank(_f(R)) < n
    return Q, R, N, singular


def _riccati_iter(Q, R, A, B, beta, N=None, iters=20000, tol=1e-13):
    """own value iteration for the ordinary LQ Riccati equation (numpy), from P = 0"""
    n = A.shape[0]
    if N is None:
        N = np.zeros((B.shape[1], n))
    P = np.zeros((n, n))
    for _ in range(iters):
        S1 = Q + beta * B.T @ P @ B
        S2 = beta * B.T @ P @ A + N
        Pn = R - S2.T @ np.linalg.solve(S1, S2) + beta * A.T @ P @ A
        Pn = (Pn + Pn.T) / 2
        if not np.all(np.isfinite(Pn)) or np.max(np.abs(Pn)) > 1e9:
            return None
        if np.max(np.abs(Pn - P)) <= tol * (1 + np.max(np.abs(Pn))):
            return Pn
        P = Pn
    return None


def _robust_iter(Q, R, A, B, C, beta, theta, iters=20000, tol=1e-13):
    """own iteration P <- B(D(P)) of the robust Bellman operator from P = 0 (numpy).
    Returns the limit, or None when theta I - C'PC stops being positive definite, the
    iterates blow up or the iteration does not settle (theta at or below the breakdown point)."""
    n, j = A.shape[0], C.shape[1]
    P = np.zeros((n, n))
    for _ in range(iters):
        T = theta * np.eye(j) - C.T @ P @ C
        if np.min(np.linalg.eigvalsh((T + T.T) / 2)) <= 0:
            return None
        PC = P @ C
        D = P + PC @ np.linalg.solve(T, PC.T)
        S2 = beta * B.T @ D @ A
        Pn = R - S2.T @ np.linalg.solve(Q + beta * B.T @ D @ B, S2) + beta * A.T @ D @ A
        Pn = (Pn + Pn.T) / 2
        if not np.all(np.isfinite(Pn)) or np.max(np.abs(Pn)) > 1e9:
            return None
        if np.max(np.abs(Pn - P)) <= tol * (1 + np.max(np.abs(Pn))):
            return Pn
        P = Pn
    return None


def _simple_iteration_rate(Q, R, A, B, C, beta, theta, P):
    """spectral radius of the Jacobian (central differences, all n*n directions including the
    non-symmetric ones) at P of the *unsymmetrised* map P -> B(D(P)) that robust_rule_simple
    iterates.  robust_rule_simple can only be expected to stop near the solution when this is
    well below 1: in the antisymmetric directions the map is E -> beta ((I-L)G)'E((I+L)G)-like and
    can be expanding although the symmetric part contracts; rounding asymmetry then grows."""
    n, j = A.shape[0], C.shape[1]

    def f(X):
        S1 = X @ C
        D = X + S1 @ np.linalg.solve(theta * np.eye(j) - C.T @ S1, S1.T)
        S2 = beta * B.T @ D @ A
        return R - S2.T @ np.linalg.solve(Q + beta * B.T @ D @ B, S2) + beta * A.T @ D @ A

    h = 1e-5 * max(1.0, float(np.max(np.abs(P))))
    J = np.zeros((n * n, n * n))
    for a in range(n):
        for b in range(n):
            E = np.zeros((n, n))
            E[a, b] = h
            J[:, a * n + b] = ((f(P + E) - f(P - E)) / (2 * h)).ravel()
    return float(np.max(np.abs(np.linalg.eigvals(J))))


_BETAS = (Fraction(1), Fraction(19, 20), Fraction(9, 10))


def _gen_beta(rng, allow_one=True):
    r = rng.random()
    if r < 0.6:
        b = rng.choice(_BETAS)
    else:
        b = Fraction(rng.randint(16, 40), 40)      # 0.4 .. 1.0
    if b >= 1 and not allow_one:
        b = Fraction(19, 20)
    return b


# ------------------------------------------------------------------ (a) RBLQ
def _rblq_fixed_point_residual(Q, R, A, B, C, beta, theta, F, K, P):
    """independent numpy evaluation of the robust Bellman fixed point; returns
    (rel residual P, rel residual F, rel residual K, min eig of theta I - C'PC)"""
    j = C.shape[1]
    T = theta * np.eye(j) - C.T @ P @ C
    mineig = float(np.min(np.linalg.eigvalsh((T + T.T) / 2)))
    PC = P @ C
    D = P + PC @ np.linalg.solve(T, PC.T)
    BDA = beta * B.T @ D @ A
    S = Q + beta * B.T @ D @ B
    Fexp = np.linalg.solve(S, BDA)
    Pexp = R - BDA.T @ Fexp + beta * A.T @ D @ A
    Kexp = np.linalg.solve(T, PC.T @ (A - B @ Fexp))
    return _rel(P, Pexp), _rel(F, Fexp), _rel(K, Kexp), mineig, Fexp, Kexp, Pexp


def _check_rblq(ctx, qe, rng, idx):
    n = rng.choice((1, 2, 2, 3, 3, 4))
    k = rng.choice((1, 1, 2, 2, 3))
    j = (1, 2, 1, 3)[idx % 4]
    A, rho, (B,) = _gen_AB(rng, n, (k,))
    Q, R, _, singular = _gen_cost(rng, n, k, rho, with_N=False)
    while True:
        C = _mat(rng, n, j, 1, (2, 4), zero_p=0.2)
        if any(x != 0 for row in C for x in row):
            break
    beta = _gen_beta(rng)
    Qf, Rf, Af, Bf, Cf, bf = _f(Q), _f(R), _f(A), _f(B), _f(C), float(beta)

    # problem scale (own Riccati iteration, not quantecon): theta must exceed lambda_max(C'PC)
    P0 = _riccati_iter(Qf, Rf, Af, Bf, bf)
    if P0 is None:
        ctx.count("rblq:skipped(ordinary LQ iteration did not settle)")
        return
    s = Fraction(max(1, int(np.ceil(np.max(np.linalg.eigvalsh(Cf.T @ P0 @ Cf))))))
    mult = rng.choice((2, 5, 20, 100))
    theta = s * mult
    # a valid, well conditioned robust problem needs theta above the breakdown point: decided with the
    # own iteration, keeping lambda_max(C'PC) <= 0.7 theta at the robust P and the worst-case closed loop
    # sqrt(beta)(A - BF + CK) inside radius 0.95; theta is doubled until that holds
    Pown = None
    for _ in range(12):
        Pown = _robust_iter(Qf, Rf, Af, Bf, Cf, bf, float(theta))
        if Pown is not None:
            lam = float(np.max(np.linalg.eigvalsh(Cf.T @ Pown @ Cf)))
            if lam <= 0.7 * float(theta):
                _fp = _rblq_fixed_point_residual(Qf, Rf, Af, Bf, Cf, bf, float(theta), Pown[:0], Pown[:0], Pown)
                Fo, Ko = _fp[4], _fp[5]
                rho_wc = _spectral_radius(np.sqrt(bf) * (Af - Bf @ Fo + Cf @ Ko))
                if rho_wc <= 0.95:
                    break
        Pown = None
        theta = theta * 2
    if Pown is None:
        ctx.count("rblq:no_valid_theta")
        return
    ratio = float(theta) / max(lam, 1e-300)
    ctx.count("rblq:theta/lmax(C'PC)%s" % ("<3" if ratio < 3 else "<10" if ratio < 10 else "<100" if ratio < 100 else ">=100"))

    ctx.count("rblq:n=%d,k=%d" % (n, k))
    ctx.count("rblq:j=%d" % j)
    ctx.count("rblq:beta=%s" % ("1" if beta == 1 else "<1"))
    ctx.count("rblq:R=%s" % ("singular" if singular else "pd"))
    ctx.count("rblq:rho(A)%s1" % ("<" if rho < 1 else ">="))
    inp = {"fn": "RBLQ", "Q": Q, "R": R, "A": A, "B": B, "C": C, "beta": beta, "theta": theta}
    CORR["rblq"].append((n, k, j, Q, R, A, B, C, beta, theta))
    ctx.case(("rblq", Q, R, A, B, C, beta, theta), nontrivial=True,
             sample={"fn": "RBLQ", "n": n, "k": k, "j": j, "beta": beta, "theta": theta, "A": A})

    def build(th):
        return qe.RBLQ(Qf, Rf, Af, Bf, Cf, bf, float(th))

    # ---- robust_rule at the main theta
    try:
        rb = build(theta)
        F, K, P = rb.robust_rule()
        F, K, P = np.asarray(F, float), np.asarray(K, float), np.asarray(P, float)
    except Exception as e:          # noqa
        ctx.fail("rblq_raises", "RBLQ.robust_rule raised %s: %s" % (type(e).__name__, e),
                 dict(inp, fn="RBLQ.robust_rule"), repr(e), "a solution (F, K, P)")
        return

    # ---- independent fixed point check
    rP, rF, rK, mineig, Fexp, Kexp, Pexp = _rblq_fixed_point_residual(Qf, Rf, Af, Bf, Cf, bf, float(theta), F, K, P)
    if not mineig > 0:
        ctx.count("rblq:breakdown")      # theta below the breakdown point: nothing is claimed
        return
    worst = max(rP, rF, rK)
    down = _rel(P, Pown)
    if _track("rblq_fixed_point(own iteration)", down / TOL_RBLQ_OWN_ITER) > 1:
        ctx.fail("rblq_fixed_point",
                 "robust_rule's P differs from the limit of the robust Bellman iteration from 0 (numpy): rel %.3g" % down,
                 dict(inp, fn="RBLQ.robust_rule"), {"F": _lst(F), "K": _lst(K), "P": _lst(P)}, {"P": _lst(Pown)})
    if _track("rblq_fixed_point", worst / TOL_RBLQ_FIXED_POINT) > 1:
        ctx.fail("rblq_fixed_point",
                 "robust_rule's (F,K,P) violates the robust Bellman fixed point: rel residuals P %.3g F %.3g K %.3g"
                 % (rP, rF, rK), dict(inp, fn="RBLQ.robust_rule"),
                 {"F": _lst(F), "K": _lst(K), "P": _lst(P)},
                 {"F": _lst(Fexp), "K": _lst(Kexp), "P": _lst(Pexp)})

    # ---- robust_rule_simple agrees (default tol; iteration cap lifted so that the stop is the tol).
    # robust_rule_simple iterates the unsymmetrised map P -> B(D(P)).  On symmetric perturbations that
    # map contracts at r_sym = beta rho(A-BF+CK)^2, but for unstable A it often *expands* antisymmetric
    # ones (rate r_all > 1, computed independently below), so rounding asymmetry grows like r_all^N.
    # The comparison is made only where the iteration reaches its 1e-8 stop (about N sweeps) long
    # before that noise matters; elsewhere robust_rule_simple diverges or raises on the pinned tree.
    r_sym = rho_wc ** 2
    r_all = _simple_iteration_rate(Qf, Rf, Af, Bf, Cf, bf, float(theta), Pown)
    scale = 1.0 + float(np.max(np.abs(Pown)))
    sweeps = 20 + 1.5 * np.log(1e-8 / scale) / np.log(max(r_sym, 1e-3))
    noise = 2e-16 * scale * max(r_all, 1.0) ** sweeps
    stable = r_sym < SIMPLE_RATE_MAX and noise < 1e-10
    ctx.count("rblq:simple_iteration=%s" % ("contracting" if r_all < 1 and stable else
                                            "antisymmetric-expanding,compared" if stable else
                                            "unstable or slow (methods check skipped)"))
    Fs = None
    if stable:
        try:
            Fs, Ks, Ps = rb.robust_rule_simple(max_iter=5000)
        except Exception as e:          # noqa
            ctx.fail("rblq_raises", "RBLQ.robust_rule_simple raised %s: %s" % (type(e).__name__, e),
                     dict(inp, fn="RBLQ.robust_rule_simple"), repr(e), "a solution (F, K, P)")
    if Fs is not None:
        dF, dK, dP = _rel(Fs, F), _rel(Ks, K), _rel(Ps, P)
        if _track("rblq_methods_disagree", max(dF, dK, dP) / TOL_RBLQ_METHODS) > 1:
            ctx.fail("rblq_methods_disagree",
                     "robust_rule and robust_rule_simple differ: rel F %.3g K %.3g P %.3g" % (dF, dK, dP),
                     dict(inp, fn="RBLQ.robust_rule_simple"),
                     {"F": _lst(Fs), "K": _lst(Ks), "P": _lst(Ps)},
                     {"F": _lst(F), "K": _lst(K), "P": _lst(P)})

    # ---- F_to_K and K_to_F are inverse maps at the robust solution
    multishock = j >= 2
    if multishock:
        # RBLQ.F_to_K is not named by property C07; on the pinned tree it raises for j >= 2 shocks
        # (scalar beta*theta used as the control-cost matrix of a j-control problem): recorded as an observation only
        try:
            K2, P2 = rb.F_to_K(F)
            if max(_rel(np.asarray(K2, float), K), _rel(np.asarray(P2, float), P)) > TOL_RBLQ_MAPS:
                ctx.count("observation:rblq_F_to_K_multishock_differs")
            else:
                ctx.count("observation:rblq_F_to_K_multishock_ok")
        except Exception:          # noqa
            ctx.count("observation:rblq_F_to_K_multishock_valueerror")
    else:
        kind = "rblq_F_K_maps"
        try:
            K2, P2 = rb.F_to_K(F)
            K2, P2 = np.asarray(K2, float), np.asarray(P2, float)
            dK, dP = _rel(K2, K), _rel(P2, P)
            if _track(kind, max(dK, dP) / TOL_RBLQ_MAPS) > 1:
                ctx.fail(kind, "F_to_K(F) differs from robust_rule's (K, P): rel K %.3g P %.3g" % (dK, dP),
                         dict(inp, fn="RBLQ.F_to_K", F=_lst(F)), {"K": _lst(K2), "P": _lst(P2)},
                         {"K": _lst(K), "P": _lst(P)})
        except Exception as e:          # noqa
            ctx.fail("rblq_raises", "RBLQ.F_to_K raised %s: %s (j=%d shocks)" % (type(e).__name__, e, j),
                     dict(inp, fn="RBLQ.F_to_K", F=_lst(F)), repr(e), {"K": _lst(K), "P": _lst(P)})
    try:
        F2, P3 = rb.K_to_F(K)
        F2, P3 = np.asarray(F2, float), np.asarray(P3, float)
        dF, dP = _rel(F2, F), _rel(P3, P)
        if _track("rblq_F_K_maps", max(dF, dP) / TOL_RBLQ_MAPS) > 1:
            ctx.fail("rblq_F_K_maps", "K_to_F(K) differs from robust_rule's (F, P): rel F %.3g P %.3g" % (dF, dP),
                     dict(inp, fn="RBLQ.K_to_F", K=_lst(K)), {"F": _lst(F2), "P": _lst(P3)},
                     {"F": _lst(F), "P": _lst(P)})
    except Exception as e:          # noqa
        ctx.fail("rblq_raises", "RBLQ.K_to_F raised %s: %s" % (type(e).__name__, e),
                 dict(inp, fn="RBLQ.K_to_F", K=_lst(K)), repr(e), {"F": _lst(F), "P": _lst(P)})

    # ---- theta -> infinity: ordinary LQ (reference: LQ.stationary_values; P, F do not depend on C)
    try:
        if beta < 1:
            lq = qe.LQ(Qf, Rf, Af, Bf, Cf, beta=bf)
        else:
            lq = qe.LQ(Qf, Rf, Af, Bf, beta=bf)      # LQ refuses C != 0 with beta = 1
        Plq, Flq, _d = lq.stationary_values()
        Plq, Flq = np.asarray(Plq, float), np.asarray(Flq, float)
    except Exception as e:          # noqa
        ctx.fail("rblq_raises", "reference LQ.stationary_values raised %s: %s" % (type(e).__name__, e),
                 dict(inp, fn="LQ.stationary_values"), repr(e), "a solution (P, F, d)")
        return
    dists = []
    for g in THETA_GRID:
        th = s * g
        try:
            Fg, Kg, Pg = build(th).robust_rule()
        except Exception as e:          # noqa
            ctx.fail("rblq_raises", "RBLQ.robust_rule raised %s: %s at theta=%s" % (type(e).__name__, e, th),
                     dict(inp, fn="RBLQ.robust_rule", theta=th), repr(e), "a solution (F, K, P)")
            return
        dists.append(max(_rel(Fg, Flq), _rel(Pg, Plq)))
    bad = None
    for i in range(1, len(dists)):
        if dists[i] < TOL_RBLQ_THETA_FLOOR:
            continue
        ratio = dists[i] / dists[i - 1] if dists[i - 1] > 0 else float("inf")
        if _track("rblq_theta_limit(decrease)", ratio) >= 1:
            bad = "distance to LQ does not decrease from theta=%s to theta=%s" % (s * THETA_GRID[i - 1], s * THETA_GRID[i])
    if _track("rblq_theta_limit(last)", dists[-1] / TOL_RBLQ_THETA_LAST) > 1:
        bad = "distance to LQ at theta=%s is %.3g" % (s * THETA_GRID[-1], dists[-1])
    if bad:
        ctx.fail("rblq_theta_limit", bad + "; distances over theta grid %s: %s" % ([str(s * g) for g in THETA_GRID], dists),
                 dict(inp, fn="RBLQ.robust_rule", theta_grid=[s * g for g in THETA_GRID]),
                 {"distances": dists}, {"F": _lst(Flq), "P": _lst(Plq)})


# ------------------------------------------------------------------ (b) nnash
def _check_nnash(ctx, qe, rng, idx):
    n = rng.choice((1, 2, 2, 3, 3))
    k1 = rng.choice((1, 1, 2))
    k2 = rng.choice((1, 1, 2))
    cross = idx % 3 != 0
    beta = _BETAS[(idx // 3) % 3]
    # nnash stops as soon as F1, F2 do not move in one sweep.  When B_i'R_iA = 0 (the control
    # reaches the costly states only after two periods) the first two sweeps both give the
    # myopic rule and the routine stops there although P_i is still changing (see
    # _probe_nnash_premature_stop).  The random games keep away from that structure.
    while True:
        A, rho, (B1, B2) = _gen_AB(rng, n, (k1, k2), 0.3, 1.1)
        Q1, R1, _, sing1 = _gen_cost(rng, n, k1, rho, with_N=False)
        Q2, R2, _, sing2 = _gen_cost(rng, n, k2, rho, with_N=False)
        if (np.max(np.abs(_f(B1).T @ _f(R1) @ _f(A))) > 1e-9
                and np.max(np.abs(_f(B2).T @ _f(R2) @ _f(A))) > 1e-9):
            break
        ctx.count("nnash:redrawn(delayed control)")
    if cross:
        sm = (4, 8)
        S1 = [[x / 2 for x in row] for row in _gram(rng, k2, k2)]        # (k2, k2), PSD
        S2 = [[x / 2 for x in row] for row in _gram(rng, k1, k1)]        # (k1, k1), PSD
        W1 = _mat(rng, n, k1, 1, sm, zero_p=0.2)
        W2 = _mat(rng, n, k2, 1, sm, zero_p=0.2)
        M1 = _mat(rng, k2, k1, 1, sm, zero_p=0.1)
        M2 = _mat(rng, k1, k2, 1, sm, zero_p=0.1)
    else:
        Z = lambda r, c: [[Fraction(0)] * c for _ in range(r)]           # noqa
        S1, S2, W1, W2, M1, M2 = Z(k2, k2), Z(k1, k1), Z(n, k1), Z(n, k2), Z(k2, k1), Z(k1, k2)

    mats = (A, B1, B2, R1, R2, Q1, Q2, S1, S2, W1, W2, M1, M2)
    ctx.count("nnash:n=%d,k1=%d,k2=%d" % (n, k1, k2))
    ctx.count("nnash:cross=%s" % ("yes" if cross else "no"))
    ctx.count("nnash:beta=%s" % beta)
    ctx.count("nnash:R=%s" % ("singular" if (sing1 or sing2) else "pd"))
    ctx.count("nnash:rho(A)%s1" % ("<" if rho < 1 else ">="))
    ctx.case(("nnash", beta) + mats, nontrivial=True,
             sample={"fn": "nnash", "n": n, "k1": k1, "k2": k2, "beta": beta, "cross": cross, "A": A})
    CORR["nnash"].append((n, k1, k2, mats, beta))
    _nnash_solve_and_verify(ctx, qe, mats, beta, "nnash_best_response")


_NNASH_NAMES = ("A", "B1", "B2", "R1", "R2", "Q1", "Q2", "S1", "S2", "W1", "W2", "M1", "M2")


def _nnash_solve_and_verify(ctx, qe, mats, beta, kind):
    """run nnash on the rational game `mats` and check each player's rule against the stationary
    LQ best response to the other player's rule (reference: LQ.stationary_values)"""
    inp = dict(zip(_NNASH_NAMES, mats))
    inp.update({"fn": "nnash", "beta": beta})
    if kind == "nnash_premature_stop":
        inp["probe"] = "delayed_control"
    fl = [_f(M) for M in mats]
    Af, B1f, B2f, R1f, R2f, Q1f, Q2f, S1f, S2f, W1f, W2f, M1f, M2f = fl
    bf = float(beta)
    n, k1, k2 = Af.shape[0], B1f.shape[1], B2f.shape[1]
    try:
        F1, F2, P1, P2 = qe.nnash(Af, B1f, B2f, R1f, R2f, Q1f, Q2f, S1f, S2f, W1f, W2f, M1f, M2f, beta=bf)
    except ValueError as e:          # (LinAlgError is a ValueError)
        if "No convergence" in str(e):
            ctx.count("nnash:noconv")
            return
        if "ingular" in str(e) or "infs or NaNs" in str(e):
            ctx.count("nnash:diverged")      # the sweep is not a contraction: iterates blew up
            return
        ctx.fail("nnash_raises", "nnash raised ValueError: %s" % e, inp, repr(e), "an equilibrium (F1,F2,P1,P2)")
        return
    except Exception as e:          # noqa
        ctx.fail("nnash_raises", "nnash raised %s: %s" % (type(e).__name__, e), inp, repr(e),
                 "an equilibrium (F1,F2,P1,P2)")
        return
    F1, F2, P1, P2 = [np.asarray(x, float) for x in (F1, F2, P1, P2)]
    if F1.shape != (k1, n) or F2.shape != (k2, n) or P1.shape != (n, n) or P2.shape != (n, n):
        ctx.fail(kind, "wrong output shapes", inp,
                 {"F1": _lst(F1), "F2": _lst(F2), "P1": _lst(P1), "P2": _lst(P2)}, "shapes (k1,n),(k2,n),(n,n),(n,n)")
        return
    ctx.count("nnash:converged")
    # the stop is on the change of F in one sweep; with a slowly contracting equilibrium closed loop
    # the distance to the limit is 1e-8 r/(1-r) with r near 1: nothing is claimed then
    rho_cl = _spectral_radius(np.sqrt(bf) * (Af - B1f @ F1 - B2f @ F2))
    if not rho_cl < NNASH_CLOSED_LOOP_MAX:
        ctx.count("nnash:slow(closed loop radius >= %g, skipped)" % NNASH_CLOSED_LOOP_MAX)
        return

    for who, (Fo, Fi, Pi, Ri, Si, Qi, Bi, Bo, Wi, Mi) in (
            ("1", (F2, F1, P1, R1f, S1f, Q1f, B1f, B2f, W1f, M1f)),
            ("2", (F1, F2, P2, R2f, S2f, Q2f, B2f, B1f, W2f, M2f))):
        Rbr = Ri + Fo.T @ Si @ Fo
        Abr = Af - Bo @ Fo
        Nbr = (Wi - Fo.T @ Mi).T
        try:
            Pbr, Fbr, _d = qe.LQ(Qi, Rbr, Abr, Bi, N=Nbr, beta=bf).stationary_values()
        except Exception as e:          # noqa
            ctx.fail("nnash_raises", "reference LQ.stationary_values for player %s's best response raised %s: %s"
                     % (who, type(e).__name__, e),
                     dict(inp, fn="LQ.stationary_values", F_other=_lst(Fo)), repr(e), "a solution (P, F, d)")
            continue
        dF, dP = _rel(Fi, Fbr), _rel(Pi, Pbr)
        if _track(kind, max(dF, dP) / TOL_NNASH) > 1:
            ctx.fail(kind,
                     "player %s: (F,P) is not the stationary LQ best response to the other player's rule: rel F %.3g P %.3g"
                     % (who, dF, dP), inp,
                     {"F1": _lst(F1), "F2": _lst(F2), "P1": _lst(P1), "P2": _lst(P2)},
                     {"player": who, "F": _lst(Fbr), "P": _lst(Pbr)})


def _probe_nnash_premature_stop(ctx, qe):
    """deterministic witness: both controls move x1 only, both players pay for x2 = (x1 + x2)/2 lagged.
    Sweep 1 (P=0) and sweep 2 (P=R, B'R=0) both give F=0, so nnash returns F=0 after two sweeps,
    although the stationary best response to F_other=0 is not 0."""
    H = Fraction(1, 2)
    Z = lambda r, c: [[Fraction(0)] * c for _ in range(r)]           # noqa
    A = [[H, Fraction(0)], [H, H]]
    B = [[Fraction(1)], [Fraction(0)]]
    R = [[Fraction(0), Fraction(0)], [Fraction(0), Fraction(1)]]
    Q = [[Fraction(1)]]
    mats = (A, B, B, R, R, Q, Q, Z(1, 1), Z(1, 1), Z(2, 1), Z(2, 1), Z(1, 1), Z(1, 1))
    beta = Fraction(19, 20)
    ctx.count("nnash:probe=premature_stop")
    ctx.case(("nnash", beta) + mats, nontrivial=True)
    _nnash_solve_and_verify(ctx, qe, mats, beta, "nnash_premature_stop")


# ------------------------------------------------------------------ (c) LQMarkov
def _gen_Pi(rng, m):
    rows = []
    for _ in range(m):
        while True:
            w = [rng.choice((0, 1, 1, 2, 3, 5)) for _ in range(m)]
            if sum(w) > 0:
                break
        rows.append([Fraction(x, sum(w)) for x in w])
    return rows


def _check_lqmarkov(ctx, qe, rng, idx):
    m = (1, 2, 3)[idx % 3]
    n = rng.choice((1, 2, 3, 4))
    k = rng.choice((1, 2, 3))
    with_N, with_C = ((True, True), (True, False), (False, True), (False, False), (True, True))[idx % 5]
    beta = rng.choice((Fraction(19, 20), Fraction(9, 10), Fraction(4, 5), Fraction(1, 2),
                       Fraction(rng.randint(20, 39), 40)))
    A, rho, (B,) = _gen_AB(rng, n, (k,))
    Q, R, N, singular = _gen_cost(rng, n, k, rho, with_N=with_N, allow_singular=not with_N)
    jdim = rng.choice((1, 2))
    C = _mat(rng, n, jdim, 1, (1, 2, 4), zero_p=0.2) if with_C else None
    Pi = _gen_Pi(rng, m)
    Qf, Rf, Af, Bf, bf = _f(Q), _f(R), _f(A), _f(B), float(beta)
    Nf = _f(N) if with_N else None
    Cf = _f(C) if with_C else None
    Pif = _f(Pi)

    inp = {"fn": "LQMarkov.stationary_values", "m": m, "Pi": Pi, "Q": Q, "R": R, "A": A, "B": B,
           "C": C, "N": N, "beta": beta}
    ctx.count("lqmarkov:m=%d" % m)
    ctx.count("lqmarkov:n=%d,k=%d" % (n, k))
    ctx.count("lqmarkov:N=%s,C=%s" % ("yes" if with_N else "no", "yes" if with_C else "no"))
    ctx.count("lqmarkov:R=%s" % ("singular" if singular else "pd"))
    ctx.count("lqmarkov:rho(A)%s1" % ("<" if rho < 1 else ">="))
    ctx.case(("lqmarkov", m, Pi, Q, R, A, B, C, N, beta), nontrivial=True,
             sample={"fn": "LQMarkov", "m": m, "n": n, "k": k, "beta": beta, "Pi": Pi, "N": N})

    CORR["lqmarkov"].append((m, n, k, jdim if with_C else 1, Pi, [(Q, R, A, B, C, N)] * m, beta))
    rep = lambda X: None if X is None else [X.copy() for _ in range(m)]     # noqa
    try:
        Ps, ds, Fs = qe.LQMarkov(Pif, rep(Qf), rep(Rf), rep(Af), rep(Bf), Cs=rep(Cf), Ns=rep(Nf),
                                 beta=bf).stationary_values()
    except ValueError as e:
        if "Convergence failed" in str(e):
            ctx.count("lqmarkov:noconv")
            return
        ctx.fail("lqmarkov_raises", "LQMarkov.stationary_values raised ValueError: %s" % e, inp, repr(e),
                 "a solution (Ps, ds, Fs)")
        return
    except Exception as e:          # noqa
        ctx.fail("lqmarkov_raises", "LQMarkov.stationary_values raised %s: %s" % (type(e).__name__, e), inp,
                 repr(e), "a solution (Ps, ds, Fs)")
        return
    try:
        P, F, d = qe.LQ(Qf, Rf, Af, Bf, C=Cf, N=Nf, beta=bf).stationary_values()
    except Exception as e:          # noqa
        ctx.fail("lqmarkov_raises", "reference LQ.stationary_values raised %s: %s" % (type(e).__name__, e),
                 dict(inp, fn="LQ.stationary_values"), repr(e), "a solution (P, F, d)")
        return
    Ps, ds, Fs = np.asarray(Ps, float), np.asarray(ds, float), np.asarray(Fs, float)
    if Ps.shape != (m, n, n) or Fs.shape != (m, k, n) or ds.shape != (m,):
        ctx.fail("lqmarkov_identical_regimes", "wrong output shapes %s %s %s" % (Ps.shape, ds.shape, Fs.shape),
                 inp, {"Ps": _lst(Ps), "ds": _lst(ds), "Fs": _lst(Fs)}, {"P": _lst(P), "F": _lst(F), "d": float(d)})
        return
    worst, where = 0.0, ""
    for i in range(m):
        for nm, got, exp in (("P", Ps[i], P), ("F", Fs[i], F), ("d", np.array([ds[i]]), np.array([float(d)]))):
            r = _rel(got, exp)
            if r >= worst:
                worst, where = r, "%ss[%d]" % (nm, i)
    if _track("lqmarkov_identical_regimes", worst / TOL_LQMARKOV) > 1:
        ctx.fail("lqmarkov_identical_regimes",
                 "identical regimes: %s differs from the LQ solution by %.3g (relative)" % (where, worst), inp,
                 {"Ps": _lst(Ps), "ds": _lst(ds), "Fs": _lst(Fs)}, {"P": _lst(P), "F": _lst(F), "d": float(d)})


# ------------------------------------------------------------------ entry point
def derived_checks(ctx, thorough):
    import warnings
    import quantecon as qe
    WORST.clear()
    for v_ in CORR.values():
        del v_[:]
    rng = ctx.rng
    scale = 4 if thorough else 1
    with warnings.catch_warnings():
        warnings.simplefilter("ignore")
        with np.errstate(all="ignore"):
            for i in range(12 * scale):
                _check_rblq(ctx, qe, rng, i)
            for i in range(25 * scale):
                _check_nnash(ctx, qe, rng, i)
            _probe_nnash_premature_stop(ctx, qe)   # known finding D17 (kind nnash_premature_stop, probe delayed_control)
            for i in range(25 * scale):
                _check_lqmarkov(ctx, qe, rng, i)
    ctx.notes.append("derived solvers, largest observed/tolerance ratios: %s" % json.dumps({k_: (round(v, 6) if v == v and v != float("inf") else str(v)) for k_, v in WORST.items()}))


# ====================================================================== derived solvers: correspondence with coq/C07/ModelDerived.v
IMPORTS_D = "From QE Require Import Base.LinAlg Base.Gauss C06.Model C07.Model C07.ModelDerived."


def _local_hook(fn, funcname, names):
    """run fn(); return (result or exception, locals `names` of the frame of `funcname` at its return event)"""
    rec = {}

    def prof(frame, event, arg):
        if event == "return" and frame.f_code.co_name == funcname:
            for nm in names:
                if nm in frame.f_locals:
                    v = frame.f_locals[nm]
                    rec[nm] = np.array(v, dtype=float).copy() if isinstance(v, np.ndarray) else v
    sys.setprofile(prof)
    try:
        try:
            out = fn()
        except Exception as e:     # noqa
            out = e
    finally:
        sys.setprofile(None)
    return out, rec


def _zero(r, c):
    return [[Fraction(0)] * c for _ in range(r)]


def derived_correspondence(ctx, thorough, PRE):
    import warnings
    import quantecon as qe
    import quantecon._matrix_eqn as me
    rng = ctx.rng
    f3 = lambda Ms: "[" + "; ".join(flist2(np.atleast_2d(M).tolist()) for M in Ms) + "]"
    with warnings.catch_warnings():
        warnings.simplefilter("ignore")
        # ---------------- LQMarkov: Riccati system + Fs + ds (identical regimes from the oracle part + heterogeneous regimes)
        probs = list(CORR["lqmarkov"])[: (16 if thorough else 5)]
        for t in range(24 if thorough else 8):
            m = rng.choice((2, 2, 3)); n = rng.choice((1, 2, 3)); k = rng.choice((1, 2)); jd = rng.choice((1, 2))
            regs = []
            for i in range(m):
                A, rho, (B,) = _gen_AB(rng, n, (k,), 0.3, 0.9)
                Q, R, N, _s = _gen_cost(rng, n, k, rho, with_N=rng.random() < 0.6, allow_singular=False)
                C = _mat(rng, n, jd, 1, (1, 2, 4), zero_p=0.2)
                regs.append((Q, R, A, B, C, N))
            probs.append((m, n, k, jd, _gen_Pi(rng, m), regs, rng.choice((Fraction(9, 10), Fraction(3, 4), Fraction(1, 2)))))
        cases, meta = [], []
        mk_tol = float(inspect.signature(me.solve_discrete_riccati_system).parameters["tolerance"].default)
        mk_max = int(inspect.signature(qe.LQMarkov.stationary_values).parameters["max_iter"].default)
        for (m, n, k, jd, Pi, regs, beta) in probs:
            Qs = [_f(r[0]) for r in regs]; Rs = [_f(r[1]) for r in regs]; As = [_f(r[2]) for r in regs]; Bs = [_f(r[3]) for r in regs]
            Cs = [_f(r[4]) if r[4] is not None else np.zeros((n, jd)) for r in regs]
            Ns = [_f(r[5]) if r[5] is not None else np.zeros((k, n)) for r in regs]
            hetero = any(r != regs[0] for r in regs)
            out, rec = _local_hook(lambda: qe.LQMarkov(_f(Pi), Qs, Rs, As, Bs, Cs=Cs, Ns=Ns, beta=float(beta)).stationary_values(),
                                   "solve_discrete_riccati_system", ("iteration",))
            its = rec.get("iteration", 10 ** 9)
            ctx.count("corr_lqmarkov:%s" % ("heterogeneous" if hetero else "identical"))
            if isinstance(out, Exception) or its > 160:
                ctx.count("corr_lqmarkov:skipped(%s)" % ("raised" if isinstance(out, Exception) else "slow"))
                continue
            Ps, ds, Fs = out
            ctx.case(("corr_lqmarkov", m, str(Pi), str(regs), str(beta)), nontrivial=True)
            cases.append(tup(natlit(m), natlit(n), natlit(k), natlit(jd), f1(float(beta)), flist2(_f(Pi).tolist()),
                             f3(As), f3(Bs), f3(Cs), f3(Qs), f3(Rs), f3(Ns), f3(Ps), f3(Fs), flist([float(x) for x in ds])))
            meta.append({"fn": "LQMarkov.stationary_values", "m": m, "Pi": Pi, "regimes": regs, "beta": beta})
        pre = PRE + "Definition MKTOL : float := %s.\nDefinition MKMAX : Z := %s.\n" % (f1(mk_tol), zl(mk_max))
        ok = ("fun c => let '(m, n, k, jj, beta, Pi, As, Bs, Cs, Qs, Rs, Ns, Ps, Fs, ds) := c in "
              "match solve_discrete_riccati_system m n k beta Pi As Bs Qs Rs Ns MKTOL MKMAX with "
              "| MkOk _ Ps' => list_all2 (Fss_close STOL) Ps' Ps && "
              "   match otab m (mk_F m n k beta Pi As Bs Qs Ns Ps'), mk_ds m n jj beta Pi Cs Ps' with "
              "   | Some Fs', Some ds' => list_all2 (Fss_close STOL) Fs' Fs && Fs_close STOL ds' ds | _, _ => false end "
              "| _ => false end")
        ty = ("nat * nat * nat * nat * float * list (list float) * list (list (list float)) * list (list (list float)) * list (list (list float)) * "
              "list (list (list float)) * list (list (list float)) * list (list (list float)) * list (list (list float)) * list (list (list float)) * list float")
        bad = ctx.coq_check("lqmarkov_float", IMPORTS_D, ty, ok, cases, chunk=1, preamble=pre)
        for i in bad:
            ctx.mismatch("C07.ModelDerived.solve_discrete_riccati_system/mk_F/mk_ds (NumF) vs LQMarkov.stationary_values", meta[i])

        # ---------------- nnash: sweep iterates 1..3 (frame locals at the ValueError) and the converged result
        cases, meta, full, fmeta = [], [], [], []
        for (n, k1, k2, mats, beta) in list(CORR["nnash"])[: (40 if thorough else 12)]:
            fm = [_f(M) for M in mats]
            sb = np.sqrt(float(beta))
            scaled = [sb * fm[0], sb * fm[1], sb * fm[2]] + fm[3:]
            lits = [flist2(np.atleast_2d(M).tolist()) for M in scaled]
            base = {"fn": "nnash", "beta": beta}
            base.update(dict(zip(_NNASH_NAMES, mats)))
            for it in (1, 2, 3):
                out, rec = _local_hook(lambda: qe.nnash(*fm, beta=float(beta), max_iter=it), "nnash", ("F1", "F2", "P1", "P2"))
                if not all(nm in rec for nm in ("F1", "F2", "P1", "P2")) or not all(np.all(np.isfinite(rec[nm])) for nm in rec):
                    ctx.count("corr_nnash:iterate_not_observed"); continue
                cases.append(tup(natlit(n), natlit(k1), natlit(k2), *lits, natlit(it),
                                 *[flist2(np.atleast_2d(rec[nm]).tolist()) for nm in ("F1", "F2", "P1", "P2")]))
                meta.append(dict(base, max_iter=it))
                ctx.case(("corr_nnash", it, str(mats), str(beta)), nontrivial=True); ctx.count("corr_nnash:sweeps=%d" % it)
            try:
                (res), rec = _local_hook(lambda: qe.nnash(*fm, beta=float(beta)), "nnash", ("it",))
                if isinstance(res, Exception):
                    raise res
                F1, F2, P1, P2 = res
            except Exception:     # noqa
                ctx.count("corr_nnash:full_run_raised"); continue
            # the sweep is not a contraction in general: on some games the iterates first blow up by orders of magnitude and
            # come back (a chaotic transient that amplifies rounding); the loop is compared only where the path stays bounded
            blow = False
            for it in sorted({5, 10, 20, max(1, int(rec.get("it", 0)) // 2)}):
                if it >= int(rec.get("it", 0)):
                    continue
                _o, r_ = _local_hook(lambda: qe.nnash(*fm, beta=float(beta), max_iter=it), "nnash", ("F1", "F2"))
                if any(nm in r_ and not np.max(np.abs(r_[nm])) <= 20 * (1 + max(np.max(np.abs(F1)), np.max(np.abs(F2)))) for nm in ("F1", "F2")):
                    blow = True
            if blow:
                ctx.count("corr_nnash:transient_blowup(loop comparison skipped)"); continue
            inf1 = flist2([[math.inf] * n for _ in range(k1)]); inf2 = flist2([[math.inf] * n for _ in range(k2)])
            full.append(tup(natlit(n), natlit(k1), natlit(k2), *lits, inf1, inf2,
                            *[flist2(np.atleast_2d(M).tolist()) for M in (F1, F2, P1, P2)]))
            fmeta.append(base)
            ctx.case(("corr_nnash_full", str(mats), str(beta)), nontrivial=True); ctx.count("corr_nnash:converged_run")
        M13 = " * ".join(["list (list float)"] * 13)
        nn_pre = pre + ("Fixpoint nn_iter (it n k1 k2 : nat) (A B1 B2 R1 R2 Q1 Q2 S1 S2 W1 W2 M1 M2 F1 F2 P1 P2 : list (list float)) :=\n"
                        "  match it with O => Some (F1, F2, P1, P2) | S i => match nnash_sweep n k1 k2 A B1 B2 R1 R2 Q1 Q2 S1 S2 W1 W2 M1 M2 P1 P2 with\n"
                        "    | Some (a, b, c, d) => nn_iter i n k1 k2 A B1 B2 R1 R2 Q1 Q2 S1 S2 W1 W2 M1 M2 a b c d | None => None end end.\n"
                        "Definition NNTOL : float := %s.\n" % f1(float(inspect.signature(qe.nnash).parameters["tol"].default)))
        ok = ("fun c => let '(n, k1, k2, A, B1, B2, R1, R2, Q1, Q2, S1, S2, W1, W2, M1, M2, it, F1, F2, P1, P2) := c in "
              "match nn_iter it n k1 k2 A B1 B2 R1 R2 Q1 Q2 S1 S2 W1 W2 M1 M2 [] [] (mzero n n) (mzero n n) with "
              "| Some (a, b, c', d) => Fss_close VTOL a F1 && Fss_close VTOL b F2 && Fss_close VTOL c' P1 && Fss_close VTOL d P2 | None => false end")
        bad = ctx.coq_check("nnash_sweeps_float", IMPORTS_D, "nat * nat * nat * %s * nat * list (list float) * list (list float) * list (list float) * list (list float)" % M13,
                            ok, cases, chunk=6, preamble=nn_pre)
        for i in bad:
            ctx.mismatch("C07.ModelDerived.nnash_sweep iterated (NumF) vs nnash frame locals after max_iter sweeps", meta[i])
        ok = ("fun c => let '(n, k1, k2, A, B1, B2, R1, R2, Q1, Q2, S1, S2, W1, W2, M1, M2, I1, I2, F1, F2, P1, P2) := c in "
              "match nnash_loop n k1 k2 A B1 B2 R1 R2 Q1 Q2 S1 S2 W1 W2 M1 M2 1000 NNTOL I1 I2 (mzero n n) (mzero n n) with "
              "| Some (Some (a, b, c', d)) => Fss_close (0x1p-20)%float a F1 && Fss_close (0x1p-20)%float b F2 && Fss_close (0x1p-20)%float c' P1 && Fss_close (0x1p-20)%float d P2 | _ => false end")
        bad = ctx.coq_check("nnash_loop_float", IMPORTS_D, "nat * nat * nat * %s * list (list float) * list (list float) * list (list float) * list (list float) * list (list float) * list (list float)" % M13,
                            ok, full, chunk=3, preamble=nn_pre)
        for i in bad:
            ctx.mismatch("C07.ModelDerived.nnash_loop (NumF, 1e-6) vs nnash", fmeta[i])

        # ---------------- RBLQ: d_operator, b_operator, robust_rule
        ops, opmeta, rr, rrmeta = [], [], [], []
        for (n, k, j, Q, R, A, B, C, beta, theta) in list(CORR["rblq"])[: (40 if thorough else 12)]:
            Qf, Rf, Af, Bf, Cf = _f(Q), _f(R), _f(A), _f(B), _f(C)
            rb = qe.RBLQ(Qf, Rf, Af, Bf, Cf, float(beta), float(theta))
            base = {"fn": "RBLQ", "Q": Q, "R": R, "A": A, "B": B, "C": C, "beta": beta, "theta": theta}
            par = [natlit(n), natlit(k), natlit(j), f1(float(beta)), f1(float(theta))] + [flist2(M.tolist()) for M in (Qf, Rf, Af, Bf, Cf)]
            for t in range(2):
                V = np.array([[rng.randint(-4, 4) / 4.0 for _ in range(n)] for _ in range(n)])
                P = V.T @ V * (0.25 if t else 1.0)
                try:
                    dP = rb.d_operator(P); Fb, Pb = rb.b_operator(P)
                except Exception:     # noqa
                    ctx.count("corr_rblq:operator_raised"); continue
                ops.append(tup(*par, flist2(P.tolist()), flist2(dP.tolist()), flist2(Fb.tolist()), flist2(Pb.tolist())))
                opmeta.append(dict(base, P=P.tolist()))
                ctx.case(("corr_rblq_ops", str(base), str(P.tolist())), nontrivial=True); ctx.count("corr_rblq:operators")
            (res), rec = riccati_hook(lambda: rb.robust_rule())
            if "gamma" not in rec:
                ctx.count("corr_rblq:gamma_not_observed"); continue
            Fr, Kr, Pr = res
            rr.append(tup(*par, f1(rec["gamma"]), f1(float(np.sqrt(float(beta)))), flist2(np.atleast_2d(Fr).tolist()),
                          flist2(np.atleast_2d(Kr).tolist()), flist2(np.atleast_2d(Pr).tolist())))
            rrmeta.append(dict(base, gamma=rec["gamma"]))
            ctx.case(("corr_rblq_rule", str(base)), nontrivial=True); ctx.count("corr_rblq:robust_rule")
        P5 = "nat * nat * nat * float * float * " + " * ".join(["list (list float)"] * 5)
        ok = ("fun c => let '(n, k, j, beta, theta, Q, R, A, B, C, P, dP, Fb, Pb) := c in "
              "match d_operator n j theta C P, b_operator n k beta Q R A B P with "
              "| Some d, Some (F, P') => Fss_close VTOL d dP && Fss_close VTOL F Fb && Fss_close VTOL P' Pb | _, _ => false end")
        bad = ctx.coq_check("rblq_operators_float", IMPORTS_D, P5 + " * list (list float) * list (list float) * list (list float) * list (list float)", ok, ops, chunk=8, preamble=pre)
        for i in bad:
            ctx.mismatch("C07.ModelDerived.d_operator/b_operator (NumF) vs RBLQ.d_operator/b_operator", opmeta[i])
        ok = ("fun c => let '(n, k, j, beta, theta, Q, R, A, B, C, gamma, sb, F, K, P) := c in "
              "match robust_rule n k j beta theta Q R A B C RTOL RMAX gamma sb with "
              "| Some (F', K', P') => Fss_close STOL F' F && Fss_close STOL K' K && Fss_close STOL P' P | None => false end")
        bad = ctx.coq_check("rblq_robust_rule_float", IMPORTS_D, P5 + " * float * float * list (list float) * list (list float) * list (list float)", ok, rr, chunk=3, preamble=pre)
        for i in bad:
            ctx.mismatch("C07.ModelDerived.robust_rule (NumF, stacked LQ through the C06 doubling model) vs RBLQ.robust_rule", rrmeta[i])


def replay(data):
    import quantecon as qe
    first = data.get("first") or (data.get("mismatches") or [{}])[0]
    print("replay:", json.dumps(first)[:3000])
    inp = first.get("input", {})
    if not all(key in inp for key in ("A", "B", "Q", "R")):
        return 0
    conv = lambda M: None if M is None else [[Fraction(x) if isinstance(x, str) else Fraction(x) for x in row] for row in M]
    p = {key: conv(inp.get(key)) for key in ("A", "B", "Q", "R", "N", "C", "Rf")}
    p.update(n=inp["n"], k=inp["k"], j=inp["j"], beta=Fraction(str(inp["beta"])))
    T = inp.get("T")
    if "ops" in inp and T:
        # state leak demonstration: two compute_sequence calls on one finite-horizon object must leave the same (P, d)
        lqo = make_lq(qe, p, T=T)
        x0 = np.ones(p["n"])
        _Ft, Pex, dex = exact_horizon(p, T, p["Rf"])
        for call in (1, 2):
            lqo.compute_sequence(x0, random_state=Scripted(np.zeros((p["j"], T + 1))))
            print("after compute_sequence call %d: P =" % call, np.array(lqo.P).tolist(), "d =", float(lqo.d),
                  "| exact (P_0, d_0) of this (T, Rf):", fl(Pex), float(dex))
        return 0
    if T:
        lq = make_lq(qe, p, T=T)
        for s in range(T):
            lq.update_values()
        print("after %d updates: P =" % T, lq.P.tolist(), "d =", lq.d)
        if "x0" in inp and T * p["k"] <= 36:
            x0 = [Fraction(x) if isinstance(x, str) else Fraction(x) for x in inp["x0"]]
            J, us = qp_exact(p, T, x0)
            xv = np.array([float(v) for v in x0])
            print("x0'P x0 =", float(xv @ lq.P @ xv), " exact QP minimum =", float(J))
    else:
        P, F, d = make_lq(qe, p).stationary_values()
        PF, rho = stationary_policy_value(p, mpm(F))
        print("stationary P =", P.tolist(), "F =", F.tolist(), "d =", d, "closed-loop sqrt(beta)*rho =", rho)
        if PF is not None:
            print("policy value differs from P by", float(mpmax(PF - mpm(P))))
    return 0

"""C17: root finders and maximisers honour their tolerance and status contracts.

Correspondence: the PrimFloat instance of coq/C17/Model.v is evaluated (vm_compute) on the inputs the Numba
kernels ran and compared BIT-EXACTLY (root, function_calls, iterations, converged / kind of raise).  Objectives
are expression trees; the jitted Python objective and the Coq term are generated from the same tree.
Oracle (independent, plain Python): sign change of the objective within xtol+rtol|r| of a converged root,
raise on same-sign end points, converged flag against an independent re-run of the textbook iteration,
brent_max result inside [a,b], fval=f(xf), within tolerance of the maximiser of concave objectives,
nelder_mead result inside bounds / fun=f(x) / not below best initial vertex / maximiser of concave quadratics."""
import math, os
import numpy as np
from common import *

IMPORTS = "From QE Require Import C17.Model."
FINISH = dict(level="proof", technique_note=(
    "Coq theorems (coq/C17/Props.v) about the executable generic model coq/C17/Model.v (Q instance for exact "
    "theorems, every NumX instance for flag theorems); the PrimFloat instance of the same text is evaluated with "
    "vm_compute on the inputs the Numba kernels ran and compared bit-exactly; independent Python oracle on the "
    "implementation's output. non-trivial = the iteration loop ran at least twice (iterations >= 2) or, for "
    "brent_max, at least 3 function evaluations; nelder_mead: nit >= 2"))

# ---------------------------------------------------------------- expression trees
X = ("x",)
def P(i): return ("p", i)
def C(v): return ("c", float(v))
def ADD(a, b): return ("+", a, b)
def SUB(a, b): return ("-", a, b)
def MUL(a, b): return ("*", a, b)
def DIV(a, b): return ("/", a, b)
def NEG(a): return ("neg", a)


def to_py(t):
    k = t[0]
    if k == "x": return "x"
    if k == "p": return "p%d" % t[1]
    if k == "c": return repr(t[1])
    if k == "neg": return "(-%s)" % to_py(t[1])
    return "(%s %s %s)" % (to_py(t[1]), k, to_py(t[2]))


def to_coq(t):
    k = t[0]
    if k == "x": return "EX"
    if k == "p": return "(EP %d)" % t[1]
    if k == "c": return "(EC %s%%float)" % flit(t[1])
    if k == "neg": return "(ENeg %s)" % to_coq(t[1])
    return "(%s %s %s)" % ({"+": "EAdd", "-": "ESub", "*": "EMul", "/": "EDiv"}[k], to_coq(t[1]), to_coq(t[2]))


def ev_frac(t, ps, x):
    """exact value of the mathematical function (Fractions); None on division by zero"""
    k = t[0]
    if k == "x": return x
    if k == "p": return ps[t[1]]
    if k == "c": return Fraction(t[1])
    if k == "neg":
        v = ev_frac(t[1], ps, x)
        return None if v is None else -v
    a, b = ev_frac(t[1], ps, x), ev_frac(t[2], ps, x)
    if a is None or b is None: return None
    if k == "+": return a + b
    if k == "-": return a - b
    if k == "*": return a * b
    return None if b == 0 else a / b


def horner(cs):  # cs = [c0, c1, ...] trees, value ((c_n x + c_{n-1}) x + ...) + c0
    e = cs[-1]
    for c in reversed(cs[:-1]):
        e = ADD(MUL(e, X), c)
    return e


TREES = {
    # 0: rational  (((p3 x + p2) x + p1) x + p0) / (p5 x + p4)
    0: (6, DIV(horner([P(0), P(1), P(2), P(3)]), ADD(MUL(P(5), X), P(4)))),
    # 1: factored cubic  ((p3 (x - p0)) (x - p1)) (x - p2)
    1: (4, MUL(MUL(MUL(P(3), SUB(X, P(0))), SUB(X, P(1))), SUB(X, P(2)))),
    # 2,3,4: cubic in Horner form and its first and second derivative
    2: (4, horner([P(0), P(1), P(2), P(3)])),
    3: (4, horner([P(1), MUL(C(2), P(2)), MUL(C(3), P(3))])),
    4: (4, ADD(MUL(MUL(C(6), P(3)), X), MUL(C(2), P(2)))),
    # 5: concave objective for brent_max  p2 - (p1 d) d - (((p3 d) d) d) d + p4 x, d = x - p0
    5: (5, ADD(SUB(SUB(P(2), MUL(MUL(P(1), SUB(X, P(0))), SUB(X, P(0)))),
                   MUL(MUL(MUL(MUL(P(3), SUB(X, P(0))), SUB(X, P(0))), SUB(X, P(0))), SUB(X, P(0)))),
               MUL(P(4), X))),
    # 6: unimodal, not concave:  p1 / (1 + (x-p0)(x-p0))
    6: (2, DIV(P(1), ADD(C(1), MUL(SUB(X, P(0)), SUB(X, P(0)))))),
}
PREAMBLE = ("Definition tree (i : nat) : expr float :=\n  match i with\n" +
            "".join("  | %d%%nat => %s\n" % (i, to_coq(t)) for i, (_, t) in sorted(TREES.items())) +
            "  | _ => EX\n  end.\n"
            "Definition obj (i : nat) (ps : list float) : float -> float := eeval (tree i) ps.\n"
            "Definition out_eqb (o : outcome float) (e : Z * float * Z * Z * bool) : bool :=\n"
            "  let '(code, r, fc, it, cv) := e in\n"
            "  match o with\n"
            "  | Res r' fc' it' cv' => Z.eqb code 0%Z && PrimFloat.eqb r' r && Z.eqb fc' fc && Z.eqb it' it && Bool.eqb cv' cv\n"
            "  | ErrArg => Z.eqb code 1%Z | ErrSign => Z.eqb code 2%Z | ErrNoConv => Z.eqb code 3%Z\n"
            "  | ErrZeroDiv => Z.eqb code 4%Z\n"
            "  end.\n"
            "Definition bm_eqb (o : @bm_outcome float) (e : Z * float * float * Z * Z) : bool :=\n"
            "  let '(code, x, fv, st, n) := e in\n"
            "  match o with\n"
            "  | BMRes x' fv' st' n' => Z.eqb code 0%Z && PrimFloat.eqb x' x && PrimFloat.eqb fv' fv && Z.eqb st' st && Z.eqb n' n\n"
            "  | BMErr => Z.eqb code 1%Z | BMFuel => false\n"
            "  end.\n")

def V_(i): return ("v", i)


def quad_tree(n):
    """k - sum_{i<=j} (a_ij * d_i) * d_j, d_i = x[i] - c_i; params: c_0..c_{n-1}, k, a_ij (i<=j, row-major)"""
    d = [SUB(V_(i), P(i)) for i in range(n)]
    acc, q = None, n + 1
    for i in range(n):
        for j in range(i, n):
            t = MUL(MUL(P(q), d[i]), d[j]); q += 1
            acc = t if acc is None else ADD(acc, t)
    return (q, SUB(P(n), acc))


_x0, _x1 = V_(0), V_(1)
VTREES = {10: quad_tree(1), 11: quad_tree(2), 12: quad_tree(3),
          # 13: negative Rosenbrock  -((1-x0)(1-x0) + p0 (x1 - x0 x0)(x1 - x0 x0))
          13: (1, NEG(ADD(MUL(SUB(C(1), _x0), SUB(C(1), _x0)),
                          MUL(MUL(P(0), SUB(_x1, MUL(_x0, _x0))), SUB(_x1, MUL(_x0, _x0))))))}


def vto_py(t):
    k = t[0]
    if k == "v": return "x[%d]" % t[1]
    if k == "p": return "p%d" % t[1]
    if k == "c": return repr(t[1])
    if k == "neg": return "(-%s)" % vto_py(t[1])
    return "(%s %s %s)" % (vto_py(t[1]), k, vto_py(t[2]))


def vto_coq(t):
    k = t[0]
    if k == "v": return "(EV %d)" % t[1]
    if k == "p": return "(EP %d)" % t[1]
    if k == "c": return "(EC %s%%float)" % flit(t[1])
    if k == "neg": return "(ENeg %s)" % vto_coq(t[1])
    return "(%s %s %s)" % ({"+": "EAdd", "-": "ESub", "*": "EMul", "/": "EDiv"}[k], vto_coq(t[1]), vto_coq(t[2]))


def ev_frac_v(t, ps, xs):
    k = t[0]
    if k == "v": return xs[t[1]]
    if k == "p": return ps[t[1]]
    if k == "c": return Fraction(t[1])
    if k == "neg": return -ev_frac_v(t[1], ps, xs)
    a, b = ev_frac_v(t[1], ps, xs), ev_frac_v(t[2], ps, xs)
    return a + b if k == "+" else a - b if k == "-" else a * b if k == "*" else a / b


VPREAMBLE = ("Definition vtree (i : nat) : expr float :=\n  match i with\n" +
             "".join("  | %d%%nat => %s\n" % (i, vto_coq(t)) for i, (_, t) in sorted(VTREES.items())) +
             "  | _ => EX\n  end.\n"
             "Definition vobj (i : nat) (ps : list float) : list float -> float := eevalv (vtree i) ps.\n")
_VFUNCS = {}


def vfuncs(i):
    if i not in _VFUNCS:
        from numba import njit
        npar, t = VTREES[i]
        src = "def f(x, %s):\n    return %s\n" % (", ".join("p%d" % k for k in range(npar)), vto_py(t))
        ns = {}
        exec(src, ns)
        _VFUNCS[i] = (ns["f"], njit(ns["f"]))
    return _VFUNCS[i]


_FUNCS = {}


def funcs(i):
    """(python function, jitted function) generated from tree i"""
    if i not in _FUNCS:
        from numba import njit
        npar, t = TREES[i]
        src = "def f(x, %s):\n    return %s\n" % (", ".join("p%d" % k for k in range(npar)), to_py(t))
        ns = {}
        exec(src, ns)
        _FUNCS[i] = (ns["f"], njit(ns["f"]))
    return _FUNCS[i]


UNEXPECTED = []


def call(fn, *a, **kw):
    """run a root finder; encode the outcome as (code, root, funcalls, iterations, converged)"""
    try:
        r = fn(*a, **kw)
        return (0, float(r.root), int(r.function_calls), int(r.iterations), bool(r.converged))
    except ValueError as e:
        return (2 if "different signs" in str(e) else 1, 0.0, 0, 0, False)
    except RuntimeError:
        return (3, 0.0, 0, 0, False)
    except ZeroDivisionError:      # Numba's Python error model: float division by 0.0 raises
        return (4, 0.0, 0, 0, False)
    except Exception as e:         # anything else on a valid call is an oracle failure, not a harness crash
        UNEXPECTED.append(repr(e)[:300])
        return (9, 0.0, 0, 0, False)


def fl(x):
    return flit(x) + "%float"


def zl(n):
    return zlit(n) + "%Z"


def enc(o):
    return tup(zl(o[0]), fl(o[1]), zl(o[2]), zl(o[3]), blit(o[4]))


def sgn(v):
    return (v > 0) - (v < 0)


def pow2(rng, lo, hi):
    return math.ldexp(1.0, rng.randrange(lo, hi + 1))


def sign_change_near(F, ps, r, tol, lo, hi):
    """independent oracle: is there a sign change (or zero) of the float objective F within tol of r, inside [lo,hi]?
    tol is an exact Fraction; scanned points: r, r +- tol*k/32, the interval ends if close enough."""
    fr = Fraction(r)
    pts = {r}
    for k in range(1, 33):
        for s in (-1, 1):
            p = float(fr + s * tol * k / 32)
            p = min(max(p, lo), hi)
            if abs(Fraction(p) - fr) <= tol:
                pts.add(p)
    for p in (lo, hi):
        if abs(Fraction(p) - fr) <= tol:
            pts.add(p)
    signs = set()
    for p in pts:
        v = F(p, *ps)
        if v != v:
            continue
        signs.add(sgn(v))
    return 0 in signs or (1 in signs and -1 in signs)


# ---------------------------------------------------------------- generators
def gen_bracket_case(rng, underflow=False):
    """returns (family, params, a, b, info) with a sign change / end-point root / same signs as drawn"""
    mode = rng.choice(["interior", "interior", "interior", "endpoint", "samesign", "huge", "tiny", "multi", "rational",
                       "rational", "reversed", "exact_tol", "large", "large"] if not underflow else ["interior", "samesign", "multi", "reversed"])
    fam = 1
    scale = 1.0
    if mode == "huge":
        scale = pow2(rng, 60, 300)
    elif mode == "tiny":
        scale = pow2(rng, -300, -60)
    if mode == "large":          # simple roots of magnitude 1e3 .. 1e6, both signs, absolute default-size tolerances
        scale = float(rng.randrange(1000, 1000001))
    r1 = rng.randrange(-64, 65) / 16.0
    if mode == "large" and abs(r1) < 0.5:
        r1 = rng.choice([-1.0, 1.0, -2.5, 3.0])
    if mode == "multi":   # three roots, odd number inside the bracket or all inside
        r2 = r1 + rng.randrange(1, 40) / 8.0
        r3 = r2 + rng.randrange(1, 40) / 8.0
    else:                 # other two roots outside the bracket, far away
        r2 = r1 + 50.0 + rng.randrange(0, 100)
        r3 = r1 - 50.0 - rng.randrange(0, 100)
    wl = rng.choice([0.25, 1.0, 3.0, 10.0, 17.5])
    wr = rng.choice([0.125, 1.0, 2.0, 7.0, 30.0])
    a, b = r1 - wl, r1 + wr
    if mode == "multi":
        a, b = r1 - wl, rng.choice([r2 - 0.0625, r3 + wr])
        if b == r2 - 0.0625 and b <= r1:
            b = r1 + 0.03125
    if mode == "endpoint":
        if rng.random() < 0.5: a = r1
        else: b = r1
        if rng.random() < 0.15: a, b = r1, r2   # both end points are roots
    if mode == "samesign":
        a = r1 + rng.choice([0.5, 2.0]); b = a + wr
    if mode == "reversed":
        a, b = b, a
    if mode == "exact_tol":   # dyadic bracket of width 2^j around a non-dyadic root: |dm| hits a power-of-two xtol exactly
        r1 = r1 + rng.choice([0.3, 0.1, -0.7])
        a = math.floor(r1) - rng.choice([0.0, 1.0, 3.0]); b = a + rng.choice([2.0, 4.0, 8.0, 16.0])
        while not (a < r1 < b): b += 4.0
    s = rng.choice([1.0, -1.0]) * pow2(rng, -3, 3)
    if mode == "large" and rng.random() < 0.7:
        # cubic s (x - r)(x^2 + c) expanded in floats with a non-dyadic root of magnitude 1e3..1e6 (either sign): the objective is
        # (almost) never exactly 0, so convergence has to come from the width test |sbis| < delta
        r_ = rng.choice([-1, 1]) * rng.uniform(1e3, 1e6); c_ = rng.choice([1.0, 100.0, 1e6]); s_ = rng.choice([1.0, -1.0]) * pow2(rng, -40, -20)
        ps = (-s_ * r_ * c_, s_ * c_, -s_ * r_, s_, 1.0, 0.0)
        w_ = rng.choice([10.0, 1000.0, 0.5 * abs(r_)])
        a, b = r_ - w_ * rng.choice([0.3, 1.0]), r_ + w_
        if sgn(funcs(0)[0](a, *ps)) * sgn(funcs(0)[0](b, *ps)) < 0:
            return 0, ps, a, b, mode
    if mode in ("rational",):
        fam = 0
        # numerator s (x - r1)(x^2 + c) expanded with dyadic data (exact coefficients), denominator positive on [a,b]
        c = rng.randrange(1, 9) / 4.0
        c0, c1, c2, c3 = -s * r1 * c, s * c, -s * r1, s
        if rng.random() < 0.5:
            d1 = rng.choice([0.5, 0.25, -0.25]); d0 = abs(d1) * (max(abs(a), abs(b)) + rng.choice([1.0, 3.0]))
        else:
            d1, d0 = 0.0, rng.choice([1.0, 2.0, 0.5])
        ps = (c0, c1, c2, c3, d0, d1)
        if rng.random() < 0.3:   # irrational root: perturb the constant term
            ps = (c0 + rng.choice([0.1, -0.3, 0.7]), c1, c2, c3, d0, d1)
            if sgn(funcs(0)[0](a, *ps)) * sgn(funcs(0)[0](b, *ps)) > 0:
                ps = (c0, c1, c2, c3, d0, d1)
        return fam, ps, a, b, mode
    # scale the x-axis; p3 keeps function values of moderate size so that no product over/underflows
    k = math.frexp(scale)[1] - 1
    p3 = s * (math.ldexp(1.0, -3 * k) if not underflow else math.ldexp(1.0, rng.choice([-700, -620, -560]) - 3 * k))
    ps = (r1 * scale, r2 * scale, r3 * scale, p3)
    return fam, ps, a * scale, b * scale, mode


def tolerances(rng, scale_hint):
    xtol = rng.choice([1e-12, 2e-12, 1e-10, 1e-8, 1e-6, 1e-4, 1e-2])
    rtol = rng.choice([4 * np.finfo(float).eps] * 3 + [1e-10, 1e-6])
    maxiter = rng.choice([100] * 4 + [1, 2, 3, 5, 8, 20, 50])
    disp = rng.random() < 0.5
    return float(xtol), float(rtol), maxiter, disp


def run(ctx):
    from quantecon.optimize import root_finding as RF
    from quantecon.optimize.scalar_maximization import brent_max
    from quantecon.optimize.nelder_mead import nelder_mead
    thorough = ctx.tier == "thorough"
    rng = ctx.rng
    # float witnesses (Findings): Print Assumptions lists the PrimFloat primitives unqualified because Props.v imports PrimFloat
    ctx.proofs(["C17/Props.v", "C17/PropsConsts.v", "C17/PropsTie.v"], extra_axioms=("float", "add", "sub", "mul", "div", "opp", "abs", "ltb", "leb", "eqb", "sqrt"))
    ctx.trusted.append("float objective: jitted function and Coq term generated from the same expression tree "
                       "(harness/c17.py TREES); Numba/LLVM assumed not to reorder/contract float operations "
                       "(checked: jitted objective == python objective on every reported root)")
    c4 = 0.0001

    # ================================================================ bisect / brentq
    # "underflow" stream: function values so small that products of two of them underflow to (-)0.0 (the sign tests
    # of the pinned code were products: finding repaired by /repo commit 8b50f2a; reported again if it returns)
    streams = [("main", 4000 if thorough else 210), ("underflow", 500 if thorough else 40)]
    for solver_name in ("bisect", "brentq"):
        solver = getattr(RF, solver_name)
        cases, meta = [], []
        # "abs_tie" stream (brentq): |f(a)| == |f(b)| exactly with a full-mantissa slope, so that the secant step equals the
        # bisection step up to one rounding: separates `abs(fcur) < abs(fpre)` from `<=` (which is otherwise equivalent)
        for stream, count in streams + ([("abs_tie", 1500 if thorough else 220)] if solver_name == "brentq" else []):
            for _ in range(count):
                if stream == "abs_tie":
                    F0 = funcs(0)[0]
                    while True:
                        c1 = rng.uniform(0.5, 2.0) * rng.choice([1, -1]); r_ = rng.randrange(-32, 33) / 8.0
                        w_ = rng.choice([0.5, 1.0, 3.0, 0.375, 5.0])
                        ps = (-c1 * r_, c1, 0.0, 0.0, 1.0, 0.0); a, b = r_ - w_, r_ + w_
                        if F0(a, *ps) == -F0(b, *ps) and F0(a, *ps) != 0:
                            break
                    fam, mode = 0, "abs_tie"
                else:
                    fam, ps, a, b, mode = gen_bracket_case(rng, underflow=(stream == "underflow"))
                xtol, rtol, maxiter, disp = tolerances(rng, 1.0)
                if stream == "abs_tie":
                    xtol, rtol, maxiter = 2e-12, float(4 * np.finfo(float).eps), 100
                if mode in ("huge", "tiny"):
                    xtol = xtol * max(abs(a), abs(b), 1e-300) if rng.random() < 0.7 else xtol
                if mode == "exact_tol":
                    xtol, rtol = pow2(rng, -20, -2), 0.0
                    if rng.random() < 0.4: xtol = abs(b - a) * rng.choice([1.0, 0.5, 0.25])   # |sbis| == delta at some pass
                if rng.random() < 0.03: xtol = rng.choice([0.0, -1e-3])
                if rng.random() < 0.03: maxiter = rng.choice([0, -1])
                F, J = funcs(fam)
                out = call(solver, J, a, b, args=tuple(ps), xtol=xtol, rtol=rtol, maxiter=maxiter, disp=disp)
                cases.append(tup("%d%%nat" % fam, flist(ps), tup(fl(a), fl(b), fl(xtol), fl(rtol)),
                                 zl(maxiter), blit(disp), enc(out)))
                inp = {"solver": solver_name, "family": fam, "params": list(ps), "a": a, "b": b, "xtol": xtol,
                       "rtol": rtol, "maxiter": maxiter, "disp": disp, "mode": mode}
                if stream == "underflow":
                    inp["underflow_product"] = True
                meta.append((inp, out))
                ctx.case((solver_name, fam, ps, a, b, xtol, rtol, maxiter, disp), nontrivial=(out[0] == 0 and out[3] >= 2),
                         sample={"call": inp, "impl": out})
                ctx.count("%s:mode=%s" % (solver_name, mode))
                ctx.count("%s:outcome=%s" % (solver_name, ["result", "ValueError(arg)", "ValueError(sign)", "RuntimeError", "ZeroDivisionError"][out[0]]
                                              + ("" if out[0] else (",converged" if out[4] else ",not-converged"))))
                # ---------------- oracle
                kind_sfx = "rootfind_sign_product_underflow" if stream == "underflow" else None
                fa, fb = F(a, *ps), F(b, *ps)
                argerr = xtol <= 0 or maxiter < 1
                if argerr:
                    if out[0] != 1:
                        ctx.fail(kind_sfx or "rootfind_arg_check", "xtol<=0 or maxiter<1 not rejected", inp, out, "ValueError")
                    continue
                same = sgn(fa) * sgn(fb) > 0
                if same != (out[0] == 2):
                    ctx.fail(kind_sfx or "rootfind_same_sign_raise", "ValueError iff f(a), f(b) have the same strict sign",
                             inp, out, {"fa": fa, "fb": fb})
                    continue
                if out[0] == 4:
                    zi = dict(inp, zero_division=True)
                    ctx.fail("brentq_zero_division_underflow" if stream == "underflow" else "rootfind_zero_division",
                             "ZeroDivisionError on a bracket with a sign change", zi, out, "a root or converged=False/RuntimeError")
                    continue
                if (out[0] == 3 or (out[0] == 0 and not out[4])) and maxiter == 100 and xtol >= 1e-12 and rtol >= 4 * np.finfo(float).eps \
                        and stream != "underflow":
                    # exhausting 100 iterations is legitimate only if SciPy's own routine does so too (e.g. multiple roots)
                    import scipy.optimize as so
                    try:
                        _r0, rr = getattr(so, solver_name)(F, a, b, args=tuple(ps), xtol=xtol, rtol=rtol, maxiter=maxiter,
                                                           full_output=True, disp=False)
                        sp_conv = bool(rr.converged)
                    except Exception:
                        sp_conv = False
                    if sp_conv:
                        ctx.fail("rootfind_no_convergence_simple_root", "no convergence within maxiter=100 on a valid bracket although "
                                 "scipy.optimize.%s converges with the same xtol/rtol/maxiter (root %r, %d iterations)" % (solver_name, _r0, rr.iterations),
                                 inp, out, {"scipy_root": _r0, "scipy_iterations": int(rr.iterations)})
                        continue
                if out[0] == 3 and not disp:
                    ctx.fail(kind_sfx or "rootfind_disp", "RuntimeError although disp=False", inp, out, None)
                if out[0] == 0:
                    code, r, fc, it, cv = out
                    if not cv and disp:
                        ctx.fail(kind_sfx or "rootfind_disp", "converged=False returned although disp=True", inp, out, None)
                    if cv:
                        if J(r, *ps) != F(r, *ps):
                            ctx.notes.append("jitted objective != python objective at %r" % (r,))
                        tol = (Fraction(xtol) + Fraction(rtol) * abs(Fraction(r))) * (1 + Fraction(1, 10**9))
                        lo, hi = min(a, b), max(a, b)
                        if not (lo <= r <= hi):
                            ctx.fail(kind_sfx or "rootfind_root_outside_bracket", "root outside [a,b]", inp, out, None)
                        elif not sign_change_near(F, ps, r, tol, lo, hi):
                            ctx.fail(kind_sfx or "rootfind_no_sign_change_near_root",
                                     "converged=True but no sign change of f within xtol+rtol|r| of the returned root",
                                     inp, out, {"tol": float(tol)})
                        if it > maxiter:
                            ctx.fail(kind_sfx or "rootfind_iterations", "iterations > maxiter", inp, out, None)
        ok = ("fun c => let '(fam, ps, (a, b, xtol, rtol), mi, disp, e) := c in "
              "out_eqb (%s (obj fam ps) a b xtol rtol mi disp) e" % solver_name)
        bad = ctx.coq_check(solver_name, IMPORTS, "nat * list float * (float * float * float * float) * Z * bool * (Z * float * Z * Z * bool)",
                            ok, cases, chunk=60, preamble=PREAMBLE)
        for i in bad:
            inp, out = meta[i]
            ctx.mismatch("C17.Model.%s (PrimFloat instance) vs root_finding.%s" % (solver_name, solver_name), inp, out,
                         ctx.coq_eval(IMPORTS, "%s (obj %d%%nat %s) %s %s %s %s %s %s" % (
                             solver_name, inp["family"], flist(inp["params"]), fl(inp["a"]), fl(inp["b"]),
                             fl(inp["xtol"]), fl(inp["rtol"]), zl(inp["maxiter"]), blit(inp["disp"])), preamble=PREAMBLE))

    # ================================================================ bisect / brentq, transcendental objectives (oracle only)
    # simple irrational roots of magnitude 1e3..1e6 (both signs): the objective is never exactly 0, so the routines can stop
    # only through their width test; SciPy's own routines with the same tolerances are the reference for "must converge"
    import scipy.optimize as so
    from numba import njit as _njit

    @_njit
    def t_exp(x, r, k, c):
        return math.exp(k * (x - r)) - c

    @_njit
    def t_sin(x, r, k, c):
        return (x - r) + 0.5 * math.sin(k * (x - r)) - c
    for solver_name in ("bisect", "brentq"):
        solver = getattr(RF, solver_name)
        for _ in range(250 if thorough else 45):
            J = rng.choice([t_exp, t_sin]); Fp = J.py_func
            r_ = rng.choice([-1, 1]) * rng.uniform(1e3, 1e6)
            k_ = rng.choice([1.0, 0.01, 1e-4]); c_ = rng.choice([0.7, 1.3, 0.1]) if J is t_exp else rng.choice([0.1, -0.3])
            w_ = rng.choice([1.0, 30.0, 300.0]) / (k_ if J is t_exp else 1.0)
            a, b = r_ - w_, r_ + w_
            xtol = rng.choice([2e-12, 2e-12, 1e-12, 1e-9, 1e-6]); rtol = float(4 * np.finfo(float).eps); maxiter = 100
            ps = (r_, k_, c_)
            if sgn(Fp(a, *ps)) * sgn(Fp(b, *ps)) >= 0:
                continue
            out = call(solver, J, a, b, args=ps, xtol=xtol, rtol=rtol, maxiter=maxiter, disp=False)
            inp = {"solver": solver_name, "objective": "exp(k(x-r))-c" if J is t_exp else "(x-r)+0.5sin(k(x-r))-c", "params": list(ps),
                   "a": a, "b": b, "xtol": xtol, "rtol": rtol, "maxiter": maxiter, "disp": False, "mode": "transcendental"}
            ctx.case((solver_name, "transc", ps, a, b, xtol), nontrivial=(out[0] == 0 and out[3] >= 2), sample={"call": inp, "impl": out})
            ctx.count("%s:mode=transcendental(oracle only):%s" % (solver_name, "converged" if (out[0] == 0 and out[4]) else "not-converged"))
            if out[0] == 0 and out[4]:
                # stated slack: + 4 ulp(|r|): at |x| ~ 1e6 and rtol = 4 eps the tolerance itself is ~8 ulps and the rounding of xa + dm in the
                # last passes moves the bracket by an ulp or two (SciPy's routines behave identically; float error analysis is not modelled)
                tol = (Fraction(xtol) + Fraction(rtol) * abs(Fraction(out[1]))) * (1 + Fraction(1, 10**9)) + 4 * Fraction(math.ulp(out[1]))
                # sign change of the CONTINUOUS function (50-digit mpmath): at |x| ~ 1e6 the tolerance is a few ulps and the float
                # objective is noisy at that scale, so its own sign pattern is not the reference here
                import mpmath
                mpmath.mp.dps = 50

                def g_true(x_):
                    d_ = mpmath.mpf(k_) * (mpmath.mpf(x_) - mpmath.mpf(r_))
                    return (mpmath.e ** d_ - mpmath.mpf(c_)) if J is t_exp else ((mpmath.mpf(x_) - mpmath.mpf(r_)) + mpmath.mpf(0.5) * mpmath.sin(d_) - mpmath.mpf(c_))
                lo_, hi_ = mpmath.mpf(out[1]) - mpmath.mpf(float(tol)), mpmath.mpf(out[1]) + mpmath.mpf(float(tol))
                true_change = mpmath.sign(g_true(max(lo_, mpmath.mpf(a)))) * mpmath.sign(g_true(min(hi_, mpmath.mpf(b)))) <= 0
                if not (a <= out[1] <= b) or not (true_change or sign_change_near(Fp, ps, out[1], tol, a, b)):
                    ctx.fail("rootfind_no_sign_change_near_root", "converged=True but no sign change of f within xtol+rtol|r| of the returned root",
                             inp, out, {"tol": float(tol)})
            else:
                try:
                    _r0, rr = getattr(so, solver_name)(Fp, a, b, args=ps, xtol=xtol, rtol=rtol, maxiter=maxiter, full_output=True, disp=False)
                    sp_conv = bool(rr.converged)
                except Exception:
                    sp_conv = False
                if sp_conv or out[0] != 0:
                    ctx.fail("rootfind_no_convergence_simple_root", "no convergence within maxiter=100 on a valid bracket with a simple root although "
                             "scipy.optimize.%s converges with the same xtol/rtol/maxiter" % solver_name, inp, out,
                             {"scipy_root": _r0 if sp_conv else None})

    # ================================================================ newton / halley / secant
    F2, J2 = funcs(2); F3, J3 = funcs(3); F4, J4 = funcs(4)

    def newton_ref(kind, ps, x0, tol, maxiter):
        """independent textbook iteration: returns (fired, p) where fired = stopping criterion met within maxiter passes"""
        f = lambda x: F2(x, *ps); fp = lambda x: F3(x, *ps); fpp = lambda x: F4(x, *ps)
        if kind == "secant":
            p0 = x0; p1 = x0 * (1 + 1e-4) + (1e-4 if x0 >= 0 else -1e-4)
            q0, q1 = f(p0), f(p1)
            for _k in range(maxiter):
                if q1 == q0: return True, (p1 + p0) / 2.0
                p = p1 - q1 * (p1 - p0) / (q1 - q0)
                if abs(p - p1) < tol: return True, p
                p0, q0, p1, q1 = p1, q1, p, f(p)
            return False, p1
        p0 = x0
        for _k in range(maxiter):
            v = f(p0)
            if v == 0: return True, p0
            d = fp(p0)
            if d == 0: return False, p0
            step = v / d
            if kind == "halley":
                den = 1.0 - 0.5 * step * fpp(p0) / d
                if den == 0: return "zerodiv", p0
                step = step / den
            p = p0 - step
            if abs(p - p0) < tol: return True, p
            p0 = p
        return False, p0

    for kind in ("newton", "halley", "secant"):
        cases, meta = [], []
        for _ in range(3000 if thorough else 180):
            mode = rng.choice(["basin", "basin", "basin", "random", "flat", "exactroot", "fewiter", "special_start", "special_start"])
            s = rng.choice([1.0, -1.0]) * pow2(rng, -2, 2)
            r1 = rng.randrange(-48, 49) / 8.0
            c = rng.randrange(1, 17) / 4.0
            ps = (-s * r1 * c, s * c, -s * r1, s)            # s (x - r1)(x^2 + c): single simple real root r1
            x0 = r1 + rng.choice([-1, 1]) * rng.choice([0.001, 0.03125, 0.1, 0.25])
            root_known = r1
            if mode == "random":
                ps = tuple(float(rng.randrange(-20, 21)) / 4.0 for _k in range(4)); root_known = None
                x0 = rng.randrange(-40, 41) / 8.0
            elif mode == "flat":      # derivative exactly zero at the start / constant function
                ps = (rng.choice([1.0, -2.0, 0.0]), 0.0, rng.choice([1.0, 0.0]), 0.0); x0 = 0.0; root_known = None
            elif mode == "exactroot":
                x0 = r1
            elif mode == "special_start":   # starts at which a perturbation of the start can cancel: -1, 0, 1, -1e-4/(1+1e-4)
                x0 = rng.choice([-1.0, -1.0, 0.0, 1.0, -1e-4 / (1 + 1e-4)])
                r1 = x0 + rng.choice([-1, 1]) * rng.choice([0.03125, 0.125, 0.25])
                ps = (-s * r1 * c, s * c, -s * r1, s); root_known = r1
            if kind == "halley" and rng.random() < 0.04:   # f = x^2 + 3 at x0 = 1: Halley denominator exactly 0
                ps = (3.0, 0.0, 1.0, 0.0); x0 = 1.0; root_known = None; mode = "zerodiv"
            tol = rng.choice([1.48e-8, 1e-10, 1e-6, 1e-3, 1e-12])
            maxiter = rng.choice([50, 50, 50, 1, 2, 3, 4, 10]) if mode != "fewiter" else rng.choice([1, 2, 3])
            disp = rng.random() < 0.5
            if rng.random() < 0.03: tol = rng.choice([0.0, -1.0])
            if rng.random() < 0.03: maxiter = 0
            x0 = float(x0)
            if kind == "newton":
                out = call(RF.newton, J2, x0, J3, args=ps, tol=tol, maxiter=maxiter, disp=disp)
                coq = "newton (obj 2 ps) (obj 3 ps) tol x0 mi disp"
            elif kind == "halley":
                out = call(RF.newton_halley, J2, x0, J3, J4, args=ps, tol=tol, maxiter=maxiter, disp=disp)
                coq = "newton_halley (obj 2 ps) (obj 3 ps) (obj 4 ps) tol x0 mi disp"
            else:
                out = call(RF.newton_secant, J2, x0, args=ps, tol=tol, maxiter=maxiter, disp=disp)
                coq = "newton_secant (obj 2 ps) tol %s x0 mi disp" % fl(c4)
            cases.append(tup(flist(ps), fl(x0), fl(tol), zl(maxiter), blit(disp), enc(out)))
            inp = {"solver": kind, "params": list(ps), "x0": x0, "tol": tol, "maxiter": maxiter, "disp": disp, "mode": mode}
            meta.append((inp, out, coq))
            ctx.case((kind, ps, x0, tol, maxiter, disp), nontrivial=(out[0] == 0 and out[3] >= 2), sample={"call": inp, "impl": out})
            ctx.count("%s:mode=%s" % (kind, mode))
            ctx.count("%s:outcome=%s" % (kind, ["result", "ValueError", "ValueError", "RuntimeError", "ZeroDivisionError"][out[0]]
                                          + ("" if out[0] else (",converged" if out[4] else ",not-converged"))))
            # ---------------- oracle
            if tol <= 0 or maxiter < 1:
                if out[0] != 1:
                    ctx.fail("newton_arg_check", "tol<=0 or maxiter<1 not rejected", inp, out, "ValueError")
                continue
            fired, pref = newton_ref(kind, ps, x0, tol, maxiter)
            if out[0] == 1 or out[0] == 2:
                ctx.fail("newton_spurious_valueerror", "ValueError on valid arguments", inp, out, None)
            elif out[0] == 4 or fired == "zerodiv":
                # exact zero denominator of the Halley correction: explicit error outcome, not a property violation
                if not (out[0] == 4 and fired == "zerodiv"):
                    ctx.fail("newton_zero_division", "ZeroDivisionError iff the Halley denominator is exactly 0", inp, out, fired)
                ctx.count("%s:zero-division" % kind)
            elif out[0] == 3:
                if fired or not disp:
                    ctx.fail("newton_flag", "RuntimeError although the stopping criterion fired or disp=False", inp, out, fired)
            else:
                code, r, fc, it, cv = out
                if cv != fired:
                    ctx.fail("newton_flag", "converged flag differs from 'stopping criterion fired within maxiter passes'",
                             inp, out, {"criterion_fired": fired})
                if not cv and disp:
                    ctx.fail("newton_flag", "converged=False returned although disp=True", inp, out, None)
                if cv and root_known is not None and mode in ("basin", "exactroot", "special_start") and \
                        abs(Fraction(r) - Fraction(root_known)) > max(Fraction(tol), Fraction(1, 10**6) * (1 + abs(Fraction(root_known)))):
                    ctx.fail("newton_family_false_convergence", "converged=True from a start in the basin of the only (simple) real root, "
                             "but the returned root is not within max(tol, 1e-6*(1+|r*|)) of it", inp, out, root_known)
                elif cv and root_known is not None and mode in ("basin", "exactroot", "special_start"):
                    # simple root, start in its basin: within the requested accuracy
                    if abs(Fraction(r) - Fraction(root_known)) > Fraction(tol):
                        ctx.fail("newton_accuracy", "converged from a start in the basin of a simple root but |root - r*| > tol",
                                 inp, out, root_known)
        ok = "fun c => let '(ps, x0, tol, mi, disp, e) := c in out_eqb (%s) e"
        # the three solvers share the case type; one coq_check per solver
        bad = ctx.coq_check(kind, IMPORTS, "list float * float * float * Z * bool * (Z * float * Z * Z * bool)",
                            ok % meta[0][2], cases, chunk=80, preamble=PREAMBLE)
        for i in bad:
            inp, out, coq = meta[i]
            ctx.mismatch("C17.Model.%s (PrimFloat instance) vs root_finding" % kind, inp, out)

    # ================================================================ brent_max
    sqrt_eps = float(np.sqrt(2.2e-16)); golden = float(0.5 * (3.0 - np.sqrt(5.0)))
    cases, meta = [], []
    for _ in range(4000 if thorough else 220):
        mode = rng.choice(["interior", "interior", "interior", "boundary", "linear", "quartic", "mixed", "bump", "badargs"])
        fam = 5
        m = rng.randrange(-80, 81) / 16.0
        a = m - rng.choice([0.25, 1.0, 3.0, 12.0]); b = m + rng.choice([0.5, 1.0, 2.0, 20.0])
        p1 = pow2(rng, -3, 4); p3 = 0.0; p2 = 0.0; p4 = 0.0
        if mode == "boundary":
            if rng.random() < 0.5: a = m + rng.choice([0.0, 0.5, 3.0]); b = a + rng.choice([1.0, 4.0])
            else: b = m - rng.choice([0.0, 0.5, 3.0]); a = b - rng.choice([1.0, 4.0])
        elif mode == "linear":
            p1 = 0.0; p4 = rng.choice([1.0, -1.0, 0.25, -8.0])
        elif mode == "quartic":
            p3 = pow2(rng, -3, 2); p1 = rng.choice([0.0, 1.0])
        elif mode == "mixed":
            p2 = rng.randrange(-40, 41) / 4.0; p4 = rng.randrange(-8, 9) / 4.0; p3 = rng.choice([0.0, 0.5])
        ps = (m, p1, p2, p3, p4)
        if mode == "bump":
            fam = 6; ps = (m, pow2(rng, -2, 3))
        if rng.random() < 0.12:   # shift everything far from the origin (sqrt_eps*|xf| term matters)
            sh = rng.choice([1000.0, -4096.0, 65536.0])
            a, b, ps = a + sh, b + sh, (ps[0] + sh,) + tuple(ps[1:])
        xtol = rng.choice([1e-5, 1e-5, 1e-8, 1e-6, 1e-3, 1e-2, 1e-12])
        maxiter = rng.choice([500, 500, 500, 1, 2, 3, 5, 10, 25])
        if mode == "badargs":
            a, b = rng.choice([(b, a), (a, a), (float("inf"), b), (a, float("inf")), (float("-inf"), b)])
        F, J = funcs(fam)
        try:
            xf, fval, info = brent_max(J, a, b, args=ps, xtol=xtol, maxiter=maxiter)
            out = (0, float(xf), float(fval), int(info[0]), int(info[1]))
        except ValueError:
            out = (1, 0.0, 0.0, 0, 0)
        cases.append(tup("%d%%nat" % fam, flist(ps), fl(a), fl(b), fl(xtol), zl(maxiter),
                         tup(zl(out[0]), fl(out[1]), fl(out[2]), zl(out[3]), zl(out[4]))))
        inp = {"solver": "brent_max", "family": fam, "params": list(ps), "a": a, "b": b, "xtol": xtol, "maxiter": maxiter, "mode": mode}
        meta.append((inp, out))
        ctx.case(("brent_max", fam, ps, a, b, xtol, maxiter), nontrivial=(out[0] == 0 and out[4] >= 3), sample={"call": inp, "impl": out})
        ctx.count("brent_max:mode=%s" % mode)
        ctx.count("brent_max:" + ("ValueError" if out[0] else "status=%d" % out[3]))
        # ---------------- oracle
        bad_args = not (math.isfinite(a) and math.isfinite(b) and a < b)
        if bad_args != (out[0] == 1):
            ctx.fail("brent_max_arg_check", "ValueError iff a,b not finite or not a<b", inp, out, None)
            continue
        if out[0] == 1:
            continue
        _, xf, fval, st, num = out
        if not (a <= xf <= b):
            ctx.fail("brent_max_outside", "xf outside [a,b]", inp, out, None)
            continue
        if fval != F(xf, *ps):
            ctx.fail("brent_max_fval", "fval != f(xf)", inp, out, F(xf, *ps))
        if (st == 1) != (num >= maxiter) and not (st == 0 and num == 1):
            ctx.fail("brent_max_status", "status_flag=1 iff maxiter evaluations were used", inp, out, None)
        if st not in (0, 1) or (maxiter >= 2 and num > maxiter):
            ctx.fail("brent_max_status", "status/num out of range", inp, out, None)
        if st == 0 and mode in ("interior", "boundary", "linear", "quartic", "bump"):
            # maximiser of the unimodal objective on [a,b]: clip(m) (linear: an end point)
            if mode == "linear":
                xstar = Fraction(b) if ps[4] > 0 else Fraction(a)
            else:
                xstar = min(max(Fraction(ps[0]), Fraction(a)), Fraction(b))
            bound = Fraction(xtol) + 2 * Fraction(sqrt_eps) * abs(Fraction(xf))
            # accepted as well: xf attains the maximal value of the objective as given (floats can be flat around the
            # maximiser: 1 + d*d == 1 for |d| < 1e-8), i.e. it IS a maximiser of the function the routine was called with
            attains = fval >= F(float(xstar), *ps)
            if abs(Fraction(xf) - xstar) > bound and not attains:
                ctx.fail("brent_max_accuracy", "status 0 but |xf - maximiser| > xtol + 2*sqrt_eps*|xf|", inp, out,
                         {"maximiser": float(xstar), "bound": float(bound)})
    ok = ("fun c => let '(fam, ps, a, b, xtol, mi, e) := c in "
          "bm_eqb (brent_max (obj fam ps) %s %s a b xtol mi) e" % (fl(sqrt_eps), fl(golden)))
    bad = ctx.coq_check("brent_max", IMPORTS, "nat * list float * float * float * float * Z * (Z * float * float * Z * Z)",
                        ok, cases, chunk=60, preamble=PREAMBLE)
    for i in bad:
        inp, out = meta[i]
        ctx.mismatch("C17.Model.brent_max (PrimFloat instance) vs scalar_maximization.brent_max", inp, out)

    # ================================================================ nelder_mead
    import re, inspect
    nm_src = inspect.getsource(__import__("quantecon.optimize.nelder_mead", fromlist=["x"])._initialize_simplex.py_func)
    nonzdelt = float(re.search(r"nonzdelt\s*=\s*([0-9.eE+-]+)", nm_src).group(1))
    zdelt = float(re.search(r"\bzdelt\s*=\s*([0-9.eE+-]+)", nm_src).group(1))
    NM_PRE = PREAMBLE + VPREAMBLE + (
        "Definition nm_eqb (o : nm_outcome float) (e : Z * list float * bool * float * bool * Z * list (list float)) : bool :=\n"
        "  let '(code, x, isinf, nf, suc, nit, V) := e in\n"
        "  match o with\n"
        "  | NMRes x' nf' suc' nit' V' => Z.eqb code 0%Z && Fs_eqb x' x && Bool.eqb suc' suc && Z.eqb nit' nit && Fss_eqb V' V &&\n"
        "      match nf' with PInf => isinf | Fin v => negb isinf && PrimFloat.eqb v nf end\n"
        "  | NMErr => Z.eqb code 1%Z | NMFuel => false end.\n")
    cases, meta = [], []
    nm_count = 800 if thorough else 70
    for case_no in range(nm_count + 3):
        n = rng.randrange(1, 4)
        L = np.array([[rng.randrange(-4, 5) / 4.0 if j < i else (rng.randrange(2, 9) / 4.0 if j == i else 0.0)
                       for j in range(n)] for i in range(n)])
        A = L @ L.T                        # positive definite, dyadic entries
        c = np.array([rng.randrange(-16, 17) / 4.0 for _k in range(n)])
        k0 = rng.randrange(-8, 9) / 2.0
        x0 = c + np.array([rng.choice([-1, 1]) * rng.choice([0.25, 1.0, 2.5]) for _k in range(n)])
        mode = rng.choice(["free", "free", "inactive", "active", "active", "fewiter", "rosenbrock", "zero_start", "badbounds", "degenerate", "near_bound", "near_bound", "near_bound"])
        if case_no < (200 if thorough else 30):
            mode = "near_bound"      # dedicated stream: shrink-heavy starts next to a bound (see below)
        if mode == "degenerate":     # concave but flat in some direction: exact ties f_r == f_best occur (separates >= from >)
            n = rng.choice([2, 3])
            dg = [rng.choice([0.0, 1.0, 0.5, 2.0]) for _k in range(n)]
            if all(v == 0.0 for v in dg): dg[0] = 1.0
            A = np.diag(dg)
            c = np.array([rng.randrange(-16, 17) / 4.0 for _k in range(n)]); k0 = 0.0
            x0 = c + np.array([rng.choice([-1, 1]) * rng.choice([0.25, 1.0, 2.5, 0.0]) for _k in range(n)])
        bounds = np.array([[], []]).T
        if mode in ("inactive", "active", "fewiter", "badbounds"):
            lo = np.minimum(x0, c) - 1.0; hi = np.maximum(x0, c) + 1.0 + 0.06 * np.abs(x0)
            if mode == "active":
                for j in range(n):
                    if rng.random() < 0.6:
                        if x0[j] > c[j]: lo[j] = c[j] + rng.choice([0.125, 0.5, 0.9]) * (x0[j] - c[j])
                        else: hi[j] = c[j] - rng.choice([0.125, 0.5, 0.9]) * (c[j] - x0[j])
                lo = np.minimum(lo, x0); hi = np.maximum(hi, x0 * 1.0)
                if rng.random() < 0.3: hi = x0 + rng.choice([0.01, 0.1]) + 0.05 * np.abs(x0)   # tight box: shrink steps occur
            if mode == "badbounds":
                if rng.random() < 0.5: lo[0], hi[0] = hi[0], lo[0]       # lower bound above upper bound
                else: lo = x0 + 0.5; hi = x0 + 3.0                       # start outside the bounds: all vertices get +inf
            bounds = np.column_stack([lo, hi])
        if mode == "zero_start":
            x0 = x0.copy(); x0[rng.randrange(n)] = 0.0
        if mode == "near_bound":     # x0 within 5% of the upper (or lower) bound in >= 2 coordinates: vertices x0_i*1.05 are infeasible,
            n = rng.choice([2, 2, 3])    # the run starts with shrink passes; the maximiser is interior
            L = np.array([[rng.randrange(-4, 5) / 4.0 if j < i else (rng.randrange(2, 9) / 4.0 if j == i else 0.0) for j in range(n)] for i in range(n)])
            A = L @ L.T
            upper = rng.random() < 0.6
            hi = np.array([rng.choice([1.0, 1.0, 2.0, 0.5]) for _k in range(n)]); lo = -np.array([rng.choice([1.0, 2.0, 5.0]) for _k in range(n)])
            if not upper: lo, hi = -hi, -lo
            c = np.array([rng.randrange(-12, 13) / 16.0 * min(abs(lo[k_]), abs(hi[k_])) for k_ in range(n)]); k0 = rng.randrange(-8, 9) / 2.0
            edge = hi if upper else lo
            x0 = np.array([edge[k_] * (1 - rng.choice([0.0, 0.01, 0.04])) if (k_ < 2 or rng.random() < 0.5) else c[k_] + 0.25 for k_ in range(n)])
            bounds = np.column_stack([lo, hi])
        max_iter = rng.choice([1000, 1000, 3, 10]) if mode != "fewiter" else rng.choice([0, 1, 2, 5])
        if case_no == nm_count:      # the recorded witness of finding D12, verbatim
            n = 1; A = np.array([[0.5625]]); c = np.array([0.0]); k0 = -1.0; x0 = np.array([-2.5])
            mode = "free"; bounds = np.array([[], []]).T; max_iter = 1000
        if case_no == nm_count + 1:  # the recorded witness of finding D18 (collapse onto inactive bounds), verbatim
            n = 3; A = np.array([[0.5625, 0.5625, 0.0], [0.5625, 0.8125, 0.5], [0.0, 0.5, 1.5625]])
            c = np.array([-2.75, -3.5, -0.75]); k0 = -2.0; x0 = np.array([-2.5, -1.0, 1.75])
            mode = "inactive"; bounds = np.array([[-3.75, -1.35], [-4.5, 0.06], [-1.75, 2.855]]); max_iter = 1000
        if case_no == nm_count + 2:  # witness of the repaired shrink-order finding (commit 2738fce), verbatim: must now pass
            n = 3; A = np.array([[4.0, -1.0, 0.0], [-1.0, 0.5, 0.125], [0.0, 0.125, 1.625]])
            c = np.array([-1.25, 1.5, 1.0]); k0 = 0.0; x0 = np.array([-2.25, -1.0, 2.0])
            mode = "active"; bounds = np.array([[-2.26, -2.15], [-2.0, 1.56], [0.0, 3.12]]); max_iter = 1000
        if mode == "rosenbrock":     # non-concave objective: correspondence + generic oracle checks only (shrink steps occur)
            n = 2; fam = 13; ps = (float(rng.choice([1, 10, 100])),)
            x0 = np.array([rng.randrange(-30, 31) / 8.0, rng.randrange(-30, 31) / 8.0])
            if rng.random() < 0.5:
                bounds = np.column_stack([x0 - rng.choice([0.1, 0.5, 2.0]), x0 + rng.choice([0.1, 0.5, 2.0]) + 0.06 * np.abs(x0)])
        else:
            fam = 9 + n
            ps = tuple(float(v) for v in c) + (float(k0),) + tuple(float(A[i, j]) * (1.0 if i == j else 2.0) for i in range(n) for j in range(i, n))
        Fv, Jv = vfuncs(fam)
        try:
            res = nelder_mead(Jv, x0.copy(), bounds=bounds, args=ps, max_iter=max_iter)
            x = np.array(res.x, dtype=float); fun = float(res.fun)
            out = (0, x.tolist(), fun == -math.inf, -fun if fun != -math.inf else 0.0, bool(res.success), int(res.nit),
                   np.array(res.final_simplex, dtype=float).tolist())
        except ValueError:
            res = None
            out = (1, [], False, 0.0, False, 0, [])
        blist = "[" + "; ".join(tup(fl(b_[0]), fl(b_[1])) for b_ in bounds.tolist()) + "]" if bounds.shape[0] else "(@nil (float * float))"
        cases.append(tup("%d%%nat" % fam, flist(ps), blist, flist(x0.tolist()), zl(max_iter),
                         tup(zl(out[0]), flist(out[1]), blit(out[2]), fl(out[3]), blit(out[4]), zl(out[5]), flist2(out[6]))))
        inp = {"solver": "nelder_mead", "family": fam, "params": list(ps), "A": A.tolist(), "c": c.tolist(), "k": k0, "x0": x0.tolist(),
               "bounds": bounds.tolist(), "max_iter": max_iter, "mode": mode}
        meta.append((inp, out))
        ctx.case(("nelder_mead", fam, ps, x0.tolist(), bounds.tolist(), max_iter), nontrivial=(out[0] == 0 and out[5] >= 2),
                 sample={"call": inp, "impl": {"x": out[1], "fun": -out[3], "success": out[4], "nit": out[5]}})
        ctx.count("nelder_mead:mode=%s" % mode); ctx.count("nelder_mead:%s" % ("ValueError" if out[0] else "success=%s" % out[4]))
        bad_b = bounds.shape[0] > 0 and bool(np.any(bounds[:, 0] > bounds[:, 1]))
        if bad_b != (out[0] == 1):
            ctx.fail("nelder_mead_bounds_check", "ValueError iff some lower bound exceeds its upper bound", inp, out[:1], None)
            continue
        if out[0] == 1:
            continue

        def qexact(xx):
            return ev_frac_v(VTREES[fam][1], [F_(v) for v in ps], [F_(float(u)) for u in xx])
        inside = lambda xx: bounds.shape[0] == 0 or bool(np.all(bounds[:, 0] <= xx) and np.all(xx <= bounds[:, 1]))
        impl = {"x": x.tolist(), "fun": fun, "success": bool(res.success), "nit": int(res.nit)}
        verts = [x0.copy() for _k in range(n + 1)]          # initial simplex as the code builds it
        for i in range(n):
            verts[i + 1][i] = verts[i + 1][i] * (1 + nonzdelt) if verts[i + 1][i] != 0.0 else zdelt
        if not any(inside(v) for v in verts):
            if fun != -math.inf:
                ctx.fail("nelder_mead_fun", "no initial vertex inside the bounds but fun is not -inf", inp, impl, None)
            continue
        if not inside(x):
            ctx.fail("nelder_mead_outside_bounds", "returned vertex outside the bounds", inp, impl, None)
            continue
        if abs(Fraction(fun) - qexact(x)) > Fraction(1, 10**9) * (1 + abs(qexact(x))):
            ctx.fail("nelder_mead_fun", "fun != f(x) (1e-9 relative)", inp, impl, float(qexact(x)))
        best0 = max([qexact(v) for v in verts if inside(v)], default=None)
        if best0 is not None and qexact(x) < best0 - Fraction(1, 10**12) * (1 + abs(best0)):
            ctx.fail("nelder_mead_below_initial", "returned value below the best vertex of the initial simplex", inp, impl, float(best0))
        fvals = [qexact(v) for v in np.array(res.final_simplex, dtype=float) if inside(v)]
        if fvals and max(fvals) > qexact(x) + Fraction(1, 10**12) * (1 + abs(qexact(x))):
            # observation, not part of C17's statement: after a shrink pass that produces a vertex better than the best one the
            # order array is no longer sorted (only sort_ind[1:] is re-ranked); see C17_nelder_mead_sorted_refuted
            ctx.count("nelder_mead:returned-vertex-not-best-of-final-simplex(observation)")
        if res.success and int(res.nit) >= max_iter + 1:
            ctx.fail("nelder_mead_nit", "nit > max_iter", inp, impl, None)
        if bounds.shape[0] and mode != "rosenbrock":
            st_ = {}
            rx_, rneg_ = nm_reference(Fv, x0.tolist(), bounds.tolist(), ps, nonzdelt, zdelt, max_iter, repaired=True, stats=st_)
            ctx.count("nelder_mead:shrink-passes(reference run)", st_.get("shrinks", 0))
            ctx.count("nelder_mead:shrink-passes-where-the-worst-vertex-changes", st_.get("shrinks_worst_changed", 0))
            if st_.get("shrinks_worst_changed"): ctx.count("nelder_mead:runs-with-a-worst-changing-shrink")
            # the documented algorithm (plain re-run with the order array handled as documented) is the yardstick: a result worse than its
            # result by > 1e-6 is a defect of the implementation, whatever the known weaknesses (D12, D18) of the algorithm itself are
            if rneg_ != math.inf and qexact(x) < F_(-rneg_) - Fraction(1, 10**6):
                ctx.fail("nelder_mead_worse_than_reference", "result worse by > 1e-6 than the plain re-run of the documented iteration "
                         "(reference: x=%r fun=%r)" % (rx_, -rneg_), dict(inp, reference_shrinks=st_), impl, {"x": rx_, "fun": -rneg_})
                continue
        if res.success and mode in ("free", "inactive", "zero_start", "near_bound") and max_iter >= 1000:
            # nelder_mead stops on a function-value spread < tol_f = 1e-10; it carries no accuracy guarantee, so "equal to the
            # maximiser" is checked as: value gap f* - f(x) <= 1e-6 and |x - c|_inf <= 1e-3 (stated, fixed tolerances)
            err = max(abs(float(x[i]) - float(c[i])) for i in range(n))
            gap = Fraction(k0) - qexact(x)
            if err > 1e-3 or gap > Fraction(1, 10**6):
                fs = np.array(res.final_simplex, dtype=float)
                vals = [qexact(v) for v in fs]
                diam = max(float(np.max(np.abs(u - v))) for u in fs for v in fs)
                if max(vals) - min(vals) < Fraction(1e-10) and diam > 1e-3:
                    # all vertex values tie on a large simplex: term_f fires although the simplex has not contracted
                    ctx.fail("nelder_mead_success_on_value_tie",
                             "success=True at a non-maximiser: all vertex values tie (term_f) on a simplex of diameter > 1e-3",
                             dict(inp, value_tie=True), impl, c.tolist())
                elif bounds.shape[0] and any(min(abs(x[i] - bounds[i, 0]), abs(bounds[i, 1] - x[i])) <= 1e-2 * (bounds[i, 1] - bounds[i, 0])
                                             for i in range(n)):
                    # the +inf penalty made the simplex collapse onto a bound face although the maximiser is strictly inside
                    ctx.fail("nelder_mead_bounds_collapse",
                             "success=True far from the interior maximiser: simplex collapsed onto a face of (inactive) bounds",
                             dict(inp, bounds_collapse=True), impl, c.tolist())
                else:
                    ctx.fail("nelder_mead_maximiser", "success=True but result is not the maximiser of the concave quadratic (value gap 1e-6, distance 1e-3)",
                             inp, impl, c.tolist())
        if res.success and mode == "active" and max_iter >= 1000:
            # active bounds: the routine must at least do as well as the same algorithm with the shrink step's order array
            # kept a permutation (reference run); a gap > 1e-6 is attributed to the shrink-order line
            rx, rneg = nm_reference(Fv, x0.tolist(), bounds.tolist(), ps, nonzdelt, zdelt, max_iter, repaired=True)
            if rneg != math.inf and qexact(x) < F_(-rneg) - Fraction(1, 10**6):
                ctx.fail("nelder_mead_shrink_order", "success=True with active bounds, beaten by > 1e-6 by the run whose shrink step keeps "
                         "sort_ind a permutation", dict(inp, shrink_order=True), impl, {"x": rx, "fun": -rneg})
    ok = ("fun c => let '(fam, ps, b, x0, mi, e) := c in "
          "nm_eqb (nelder_mead (vobj fam ps) b nm_core_rho_f nm_core_chi_f nm_core_gamma_f nm_core_sigma_f %s %s x0 nm_tol_f_f nm_tol_x_f mi) e"
          % (fl(nonzdelt), fl(zdelt)))
    bad = ctx.coq_check("nelder_mead", IMPORTS + "\nFrom QE Require Import Gen.Consts.",
                        "nat * list float * list (float * float) * list float * Z * (Z * list float * bool * float * bool * Z * list (list float))",
                        ok, cases, chunk=12, preamble=NM_PRE)
    for i_ in bad:
        inp, out = meta[i_]
        ctx.mismatch("C17.Model.nelder_mead (PrimFloat instance) vs nelder_mead.nelder_mead", inp, out)

    # ================================================================ hardening audit: dress, optional arguments, boundaries,
    # non-mutation, interleaving, exceptions (classes 1-6 of the audit; class 2 "state" does not apply: no objects with state)
    from numba.core.errors import TypingError
    _t_h = time.time()

    def hcall(fn, *a, **kw):
        """('ok', canonical tuple) | ('err', exception class name) for the documented raises | ('unsupported', ..) when Numba cannot
        type the argument (expected on the unchanged tree) | ('exc', repr) for anything else"""
        try:
            r = fn(*a, **kw)
            if hasattr(r, "final_simplex"):
                return ("ok", (np.asarray(r.x, dtype=float).tolist(), float(r.fun), bool(r.success), int(r.nit),
                               np.asarray(r.final_simplex, dtype=float).tolist()))
            if hasattr(r, "root"):
                return ("ok", (float(r.root), int(r.function_calls), int(r.iterations), bool(r.converged)))
            return ("ok", (float(r[0]), float(r[1]), int(r[2][0]), int(r[2][1])))
        except (ValueError, RuntimeError, ZeroDivisionError) as e:
            return ("err", type(e).__name__)
        except TypingError:
            return ("unsupported", "TypingError")
        except TypeError as e:
            return ("unsupported", "TypeError") if "reflect" in str(e) or "type" in str(e).lower() else ("exc", repr(e)[:200])
        except Exception as e:
            return ("exc", repr(e)[:200])

    def hcheck(cls, label, canon, got, inp):
        ctx.case(("harden", cls, label, json.dumps(jsonable(inp), sort_keys=True)), nontrivial=(got[0] == "ok"))
        ctx.count("%s:%s%s" % (cls, label, "" if got[0] == "ok" else ":" + got[0]))
        if got[0] == "exc":
            ctx.fail("unexpected_exception", "exception on a valid call (%s %s): %s" % (cls, label, got[1]), inp, got, canon)
        elif got[0] == "unsupported":
            pass                                      # Numba cannot type this argument: expected error, not a failure
        elif got != canon:
            ctx.fail("harden_result_differs", "%s %s: result differs from the canonical float64/int call" % (cls, label), inp, got, canon)

    F2, J2 = funcs(2); F3, J3 = funcs(3); F4, J4 = funcs(4); F5, J5 = funcs(5)
    ps = (-5.0, -2.0, 0.0, 1.0)                       # x^3 - 2x - 5, root 2.0945...
    scal_int = [("int", int), ("np.int64", np.int64), ("np.int32", np.int32), ("np.intp", np.intp), ("np.uint8", np.uint8)]
    scal_flt = [("float", float), ("np.float64", np.float64), ("np.float32", np.float32)]
    pick = (lambda l, k: l) if thorough else (lambda l, k: [l[(ctx.seed + k) % len(l)]])
    for sname, solver in (("bisect", RF.bisect), ("brentq", RF.brentq)):
        canon = hcall(solver, J2, 2.0, 3.0, args=ps)
        for lab, cv in pick(scal_int + scal_flt, 0):
            hcheck("dress", "%s:a,b=%s" % (sname, lab), canon, hcall(solver, J2, cv(2), cv(3), args=ps), {"solver": sname, "a": 2, "b": 3, "dress": lab})
        for lab, cv in pick(scal_int, 1):
            hcheck("dress", "%s:maxiter=%s" % (sname, lab), canon, hcall(solver, J2, 2.0, 3.0, args=ps, maxiter=cv(100)), {"solver": sname, "maxiter": lab})
            hcheck("dress", "%s:args=%s" % (sname, lab), canon, hcall(solver, J2, 2.0, 3.0, args=tuple(cv(int(abs(v))) * (1 if v >= 0 else -1) if lab != "np.uint8" else float(v) for v in ps)),
                   {"solver": sname, "args": lab})
        c32 = hcall(solver, J2, 2.0, 3.0, args=ps, xtol=float(np.float32(1e-6)), rtol=float(np.float32(1e-9)))
        hcheck("dress", "%s:xtol,rtol=np.float32" % sname, c32, hcall(solver, J2, 2.0, 3.0, args=ps, xtol=np.float32(1e-6), rtol=np.float32(1e-9)), {"solver": sname, "xtol": "float32"})
        hcheck("dress", "%s:args=np.float32" % sname, canon, hcall(solver, J2, 2.0, 3.0, args=tuple(np.float32(v) for v in ps)), {"solver": sname, "args": "float32"})
        # optional arguments: omitted == explicit defaults == disp variants (a converging call)
        hcheck("optional", "%s:explicit-defaults" % sname, canon, hcall(solver, J2, 2.0, 3.0, args=ps, xtol=RF._xtol, rtol=RF._rtol, maxiter=RF._iter, disp=True), {"solver": sname})
        hcheck("optional", "%s:disp=False" % sname, canon, hcall(solver, J2, 2.0, 3.0, args=ps, disp=False), {"solver": sname, "disp": False})
        hcheck("optional", "%s:rtol=0.0(falsy)" % sname, hcall(solver, J2, 2.0, 3.0, args=ps, xtol=1e-3, rtol=1e-300),
               hcall(solver, J2, 2.0, 3.0, args=ps, xtol=1e-3, rtol=0.0), {"solver": sname, "rtol": 0.0, "xtol": 1e-3})
        # boundaries: maxiter = 1 with disp False/True, zero-width bracket at a root / not at a root, root at an end point
        hcheck("boundary", "%s:maxiter=1,disp=False" % sname, ("ok", (0.0, 3 if sname == "bisect" else 3, 0, False)) if False else hcall(solver, J2, 2.0, 3.0, args=ps, maxiter=1, disp=False),
               hcall(solver, J2, 2, 3, args=ps, maxiter=np.int64(1), disp=False), {"solver": sname, "maxiter": 1})
        hcheck("boundary", "%s:maxiter=1,disp=True->RuntimeError" % sname, ("err", "RuntimeError"), hcall(solver, J2, 2.0, 3.0, args=ps, maxiter=1), {"solver": sname, "maxiter": 1, "disp": True})
        hcheck("boundary", "%s:a==b not a root->ValueError" % sname, ("err", "ValueError"), hcall(solver, J2, 2.0, 2.0, args=ps), {"solver": sname, "a": 2.0, "b": 2.0})
        hcheck("boundary", "%s:a==b at a root" % sname, ("ok", (1.0, 2, 0, True)), hcall(solver, J2, 1.0, 1.0, args=(-1.0, 0.0, 0.0, 1.0)), {"solver": sname, "a": 1.0, "b": 1.0, "params": [-1, 0, 0, 1]})
        hcheck("boundary", "%s:xtol=0->ValueError" % sname, ("err", "ValueError"), hcall(solver, J2, 2.0, 3.0, args=ps, xtol=0), {"solver": sname, "xtol": 0})
        # interleaving: problem A, problem B, problem A again
        a1 = hcall(solver, J2, 2.0, 3.0, args=ps); hcall(solver, funcs(1)[1], -1.0, 2.5, args=(1.0, 50.0, -50.0, 1.0)); a2 = hcall(solver, J2, 2.0, 3.0, args=ps)
        hcheck("seq", "%s:A,B,A" % sname, a1, a2, {"solver": sname})
    newt = (("newton", lambda x0, **k: RF.newton(J2, x0, J3, args=ps, **k)), ("newton_halley", lambda x0, **k: RF.newton_halley(J2, x0, J3, J4, args=ps, **k)),
            ("newton_secant", lambda x0, **k: RF.newton_secant(J2, x0, args=ps, **k)))
    for sname, run_ in newt:
        canon = hcall(run_, 2.0)
        for lab, cv in pick(scal_int + scal_flt, 2):
            hcheck("dress", "%s:x0=%s" % (sname, lab), canon, hcall(run_, cv(2)), {"solver": sname, "x0": 2, "dress": lab})
        for lab, cv in pick(scal_int, 3):
            hcheck("dress", "%s:maxiter=%s" % (sname, lab), canon, hcall(run_, 2.0, maxiter=cv(50)), {"solver": sname, "maxiter": lab})
        hcheck("dress", "%s:tol=np.float32" % sname, hcall(run_, 2.0, tol=float(np.float32(1e-6))), hcall(run_, 2.0, tol=np.float32(1e-6)), {"solver": sname, "tol": "float32"})
        hcheck("optional", "%s:explicit-defaults" % sname, canon, hcall(run_, 2.0, tol=1.48e-8, maxiter=50, disp=True), {"solver": sname})
        hcheck("optional", "%s:disp=False" % sname, canon, hcall(run_, 2.0, disp=False), {"solver": sname})
        hcheck("boundary", "%s:maxiter=1,disp=True->RuntimeError" % sname, ("err", "RuntimeError"), hcall(run_, 2.0, maxiter=1), {"solver": sname, "maxiter": 1})
        hcheck("boundary", "%s:tol=0->ValueError" % sname, ("err", "ValueError"), hcall(run_, 2.0, tol=0), {"solver": sname, "tol": 0})
        hcheck("boundary", "%s:maxiter=0->ValueError" % sname, ("err", "ValueError"), hcall(run_, 2.0, maxiter=0), {"solver": sname, "maxiter": 0})
        hcheck("seq", "%s:A,B,A" % sname, canon, (hcall(run_, 3.0), hcall(run_, 2.0))[1], {"solver": sname})
    bps = (1.0, 2.0, 0.0, 0.0, 0.0)                    # -(2 (x-1)) (x-1)
    canon = hcall(brent_max, J5, 0.0, 3.0, args=bps)
    for lab, cv in pick(scal_int + scal_flt, 4):
        hcheck("dress", "brent_max:a,b=%s" % lab, canon, hcall(brent_max, J5, cv(0), cv(3), args=bps), {"solver": "brent_max", "a": 0, "b": 3, "dress": lab})
    for lab, cv in pick(scal_int, 5):
        hcheck("dress", "brent_max:maxiter=%s" % lab, hcall(brent_max, J5, 0.0, 3.0, args=bps, maxiter=200), hcall(brent_max, J5, 0.0, 3.0, args=bps, maxiter=cv(200)),
               {"solver": "brent_max", "maxiter": lab})
    hcheck("dress", "brent_max:xtol=np.float32", hcall(brent_max, J5, 0.0, 3.0, args=bps, xtol=float(np.float32(1e-4))),
           hcall(brent_max, J5, 0.0, 3.0, args=bps, xtol=np.float32(1e-4)), {"solver": "brent_max", "xtol": "float32"})
    hcheck("optional", "brent_max:explicit-defaults", canon, hcall(brent_max, J5, 0.0, 3.0, args=bps, xtol=1e-5, maxiter=500), {"solver": "brent_max"})
    hcheck("boundary", "brent_max:a==b->ValueError", ("err", "ValueError"), hcall(brent_max, J5, 1.0, 1.0, args=bps), {"solver": "brent_max", "a": 1.0, "b": 1.0})
    hcheck("boundary", "brent_max:maxiter=0", hcall(brent_max, J5, 0.0, 3.0, args=bps, maxiter=1), hcall(brent_max, J5, 0.0, 3.0, args=bps, maxiter=0), {"solver": "brent_max", "maxiter": 0})
    # ---- nelder_mead (every new argument type costs a Numba compilation of the whole routine: few types in the quick tier)
    ctx.notes.append("hardening: scalar routines %.1fs" % (time.time() - _t_h))
    Fq, Jq = vfuncs(11)
    qps = (1.0, -2.0, 0.5, 2.0, 1.0, 3.0)             # 0.5 - (2 d0 d0 + d0 d1 + 3 d1 d1), d = x - (1,-2)
    x0c = np.array([3.0, 1.0]); bc = np.column_stack([np.array([-4.0, -6.0]), np.array([5.0, 4.0])])   # same layout as the main stream: no recompilation
    canon = hcall(nelder_mead, Jq, x0c.copy(), args=qps, max_iter=1000)   # every distinct set of supplied keywords is a Numba compilation
    hcheck("optional", "nelder_mead:max_iter omitted", canon, hcall(nelder_mead, Jq, x0c.copy(), args=qps), {"solver": "nelder_mead", "max_iter": "omitted"})
    canon_b = hcall(nelder_mead, Jq, x0c.copy(), bounds=bc.copy(), args=qps, max_iter=1000)
    x0s, bs = x0c.copy(), bc.copy()
    r1 = nelder_mead(Jq, x0s, bounds=bs, args=qps, max_iter=1000); r2 = nelder_mead(Jq, x0s, bounds=bs, args=qps, max_iter=1000)
    ctx.case(("harden", "alias", "nelder_mead"), nontrivial=True); ctx.count("alias:nelder_mead:x0,bounds unchanged; results not aliased")
    if not (np.array_equal(x0s, x0c) and np.array_equal(bs, bc)):
        ctx.fail("argument_mutated", "nelder_mead changed x0 or bounds", {"solver": "nelder_mead", "x0": x0c.tolist()}, [x0s.tolist(), bs.tolist()], None)
    if np.shares_memory(r1.x, x0s) or np.shares_memory(r1.x, r2.x) or np.shares_memory(r1.final_simplex, r2.final_simplex) or not np.array_equal(r1.x, r2.x):
        ctx.fail("result_aliased", "nelder_mead results alias the input / each other or differ between identical calls", {"solver": "nelder_mead"}, None, None)
    hcheck("optional", "nelder_mead:explicit-defaults", canon, hcall(nelder_mead, Jq, x0c.copy(), args=qps, tol_f=1e-10, tol_x=1e-10, max_iter=1000), {"solver": "nelder_mead"})
    if thorough:
        hcheck("optional", "nelder_mead:bounds=explicit empty (0,2) array", canon, hcall(nelder_mead, Jq, x0c.copy(), bounds=np.array([[], []]).T, args=qps), {"solver": "nelder_mead", "bounds": "empty"})
    g0 = hcall(nelder_mead, Jq, x0c.copy(), args=qps, tol_f=0.0, tol_x=0.0, max_iter=300)
    ctx.case(("harden", "optional", "nelder_mead tol=0"), nontrivial=True); ctx.count("optional:nelder_mead:tol_f=tol_x=0.0(falsy)")
    if g0[0] != "ok" or g0[1][3] != 300 or g0[1][2]:
        ctx.fail("falsy_tolerance_replaced", "nelder_mead with tol_f=tol_x=0.0, max_iter=300 on a strictly concave quadratic must run 300 passes (the default tolerances stop after about 100) and report success=False",
                 {"solver": "nelder_mead", "tol_f": 0.0, "tol_x": 0.0, "max_iter": 300}, g0, None)
    hcheck("boundary", "nelder_mead:max_iter=0", ("ok", (x0c.tolist(), float(Fq(x0c, *qps)), False, 0)), tuple([hcall(nelder_mead, Jq, x0c.copy(), args=qps, max_iter=0)[0]]) +
           (hcall(nelder_mead, Jq, x0c.copy(), args=qps, max_iter=0)[1][:4],), {"solver": "nelder_mead", "max_iter": 0})
    ctx.notes.append("hardening: nelder_mead before dress %.1fs" % (time.time() - _t_h))
    hcheck("dress", "nelder_mead:x0=list", canon, hcall(nelder_mead, Jq, [3.0, 1.0], args=qps, max_iter=1000), {"solver": "nelder_mead", "x0": "list"})
    hcheck("dress", "nelder_mead:x0=int64 array,bounds=int64 array", canon_b, hcall(nelder_mead, Jq, np.array([3, 1]), bounds=np.array([[-4, 5], [-6, 4]]), args=qps, max_iter=1000),
           {"solver": "nelder_mead", "x0": "int64 array", "bounds": "int64 array"})
    if thorough:
        hcheck("dress", "nelder_mead:x0=float32 array", canon, hcall(nelder_mead, Jq, np.array([3, 1], dtype=np.float32), args=qps), {"solver": "nelder_mead", "x0": "float32"})
        hcheck("dress", "nelder_mead:x0=non-contiguous view", canon, hcall(nelder_mead, Jq, np.array([[3.0, 9.0], [1.0, 9.0]])[:, 0], args=qps), {"solver": "nelder_mead", "x0": "view"})
        hcheck("dress", "nelder_mead:bounds=F-ordered", canon_b, hcall(nelder_mead, Jq, x0c.copy(), bounds=np.asfortranarray(bc), args=qps), {"solver": "nelder_mead", "bounds": "F"})
        hcheck("dress", "nelder_mead:bounds=list", canon_b, hcall(nelder_mead, Jq, x0c.copy(), bounds=[[-4.0, 5.0], [-6.0, 4.0]], args=qps), {"solver": "nelder_mead", "bounds": "list"})
        hcheck("dress", "nelder_mead:max_iter=np.int32", canon, hcall(nelder_mead, Jq, x0c.copy(), args=qps, max_iter=np.int32(1000)), {"solver": "nelder_mead", "max_iter": "int32"})
        hcheck("dress", "nelder_mead:args=int", hcall(nelder_mead, Jq, x0c.copy(), args=(1.0, -2.0, 1.0, 2.0, 1.0, 3.0)), hcall(nelder_mead, Jq, x0c.copy(), args=(1, -2, 1, 2, 1, 3)), {"solver": "nelder_mead", "args": "int"})
    hcheck("seq", "nelder_mead:A,B,A", canon, (hcall(nelder_mead, Jq, np.array([0.0, 0.0]), args=qps, max_iter=1000), hcall(nelder_mead, Jq, x0c.copy(), args=qps, max_iter=1000))[1], {"solver": "nelder_mead"})
    # exceptions captured by call() anywhere above
    for msg in UNEXPECTED[:20]:
        ctx.fail("unexpected_exception", "exception on a generated call: " + msg, {"exception": msg}, msg, None)
    ctx.count("exceptions:unexpected", len(UNEXPECTED)) if UNEXPECTED else None
    ctx.notes.append("hardening section wall time %.1fs" % (time.time() - _t_h))


def F_(x):
    return Fraction(float(x))


def nm_reference(fun, x0, bounds, args, nonzdelt, zdelt, max_iter, repaired, tol_f=1e-10, tol_x=1e-10, rho=1.0, chi=2.0, gam=0.5, sig=0.5, stats=None):
    """plain-Python run of the Nelder-Mead iteration; repaired=True keeps the order array a permutation in the shrink step.
    Used only to attribute an oracle failure to the shrink-order line. Returns (x, neg_fun)."""
    INF = math.inf
    n = len(x0)
    V = [list(x0) for _ in range(n + 1)]
    for i in range(n):
        V[i + 1][i] = V[i + 1][i] * (1 + nonzdelt) if V[i + 1][i] != 0.0 else zdelt
    inb = lambda x: len(bounds) == 0 or (all(bounds[i][0] <= x[i] for i in range(n)) and all(x[i] <= bounds[i][1] for i in range(n)))
    nb = lambda x: -fun(x, *args) if inb(x) else INF

    def argsort(vals):
        idx = list(range(len(vals)))
        for i in range(1, len(idx)):
            k = idx[i]; j = i
            while j > 0 and vals[k] < vals[idx[j - 1]]:
                idx[j] = idx[j - 1]; j -= 1
            idx[j] = k
        return idx
    fv = [nb(v) for v in V]; si = argsort(fv); LV = 1.0; nit = 0
    xbar = [sum(V[i][j] for i in si[:n]) / n for j in range(n)]
    while True:
        b, w = si[0], si[n]
        if LV < tol_x or fv[w] - fv[b] < tol_f or nit >= max_iter:
            break
        shrink = False
        xr = [xbar[j] + rho * (xbar[j] - V[w][j]) for j in range(n)]; fr = nb(xr)
        if fr >= fv[b] and fr < fv[si[n - 1]]:
            V[w] = xr; LV *= rho
        elif fr < fv[b]:
            xe = [xbar[j] + chi * (xr[j] - xbar[j]) for j in range(n)]
            if nb(xe) < fr: V[w] = xe; LV *= rho * chi
            else: V[w] = xr; LV *= rho
        else:
            t = [gam * (xr[j] - xbar[j]) for j in range(n)]
            if fr < fv[w]: xc = [xbar[j] + t[j] for j in range(n)]; u = rho * gam
            else: xc = [xbar[j] - t[j] for j in range(n)]; u = gam
            if nb(xc) < min(fr, fv[w]):
                V[w] = xc; LV *= u
            else:
                shrink = True
                for i in si[1:]:
                    V[i] = [V[b][j] + sig * (V[i][j] - V[b][j]) for j in range(n)]; fv[i] = nb(V[i])
                perm = argsort([fv[i] for i in si[1:]]); old = si[1:]
                si[1:] = [old[p_] for p_ in perm] if repaired else [p_ + 1 for p_ in perm]
                if stats is not None:
                    stats["shrinks"] = stats.get("shrinks", 0) + 1
                    if si[n] != w:
                        stats["shrinks_worst_changed"] = stats.get("shrinks_worst_changed", 0) + 1
                xbar = [V[b][j] + sig * (xbar[j] - V[b][j]) + (V[w][j] - V[si[n]][j]) / n for j in range(n)]
                LV *= sig ** n
        if not shrink:
            fv[w] = nb(V[w])
            for i, j in enumerate(list(si)):
                if fv[w] < fv[j]:
                    si[i + 1:] = si[i:-1]; si[i] = w
                    break
            xbar = [xbar[j] + (V[w][j] - V[si[n]][j]) / n for j in range(n)]
        nit += 1
    return V[si[0]], fv[si[0]]


def replay(data):
    """Re-run the first recorded failing input against the current implementation and print the oracle's view."""
    from quantecon.optimize import root_finding as RF
    from quantecon.optimize.scalar_maximization import brent_max
    first = data.get("first") or (data.get("mismatches") or [{}])[0]
    print("replay:", json.dumps(first)[:3000])
    inp = first.get("input", {})
    s = inp.get("solver")
    try:
        if s in ("bisect", "brentq"):
            F, J = funcs(inp["family"]); ps = tuple(inp["params"])
            out = call(getattr(RF, s), J, inp["a"], inp["b"], args=ps, xtol=inp["xtol"], rtol=inp["rtol"],
                       maxiter=inp["maxiter"], disp=inp["disp"])
            print("implementation now:", out, " f(a)=%r f(b)=%r" % (F(inp["a"], *ps), F(inp["b"], *ps)))
            if out[0] == 0 and out[4]:
                tol = Fraction(inp["xtol"]) + Fraction(inp["rtol"]) * abs(Fraction(out[1]))
                print("sign change within tolerance of the root:", sign_change_near(F, ps, out[1], tol, min(inp["a"], inp["b"]), max(inp["a"], inp["b"])))
        elif s in ("newton", "halley", "secant"):
            ps = tuple(inp["params"]); J2 = funcs(2)[1]; J3 = funcs(3)[1]; J4 = funcs(4)[1]
            kw = dict(args=ps, tol=inp["tol"], maxiter=inp["maxiter"], disp=inp["disp"])
            out = (call(RF.newton, J2, inp["x0"], J3, **kw) if s == "newton" else
                   call(RF.newton_halley, J2, inp["x0"], J3, J4, **kw) if s == "halley" else
                   call(RF.newton_secant, J2, inp["x0"], **kw))
            print("implementation now:", out)
        elif s == "brent_max":
            F, J = funcs(inp["family"]); ps = tuple(inp["params"])
            print("implementation now:", brent_max(J, inp["a"], inp["b"], args=ps, xtol=inp["xtol"], maxiter=inp["maxiter"]))
        elif s == "nelder_mead":
            from numba import njit
            from quantecon.optimize.nelder_mead import nelder_mead

            @njit
            def quad(x, A, c, k):
                d = x - c
                t = 0.0
                for i in range(d.size):
                    for j in range(d.size):
                        t += d[i] * A[i, j] * d[j]
                return k - t
            b = np.array(inp["bounds"], dtype=float) if inp["bounds"] else np.array([[], []]).T
            res = nelder_mead(quad, np.array(inp["x0"], dtype=float), bounds=b,
                              args=(np.array(inp["A"]), np.array(inp["c"]), float(inp["k"])), max_iter=inp["max_iter"])
            print("implementation now: x=%s fun=%r success=%s nit=%d; maximiser of the quadratic: %s" %
                  (res.x.tolist(), float(res.fun), bool(res.success), int(res.nit), inp["c"]))
    except Exception as e:
        print("implementation raised:", repr(e))
    return 0

"""C15: approximate solvers deliver the accuracy they report.

Correspondence: (a) compute_fixed_point(method='iteration') against the PrimFloat instance of coq/C15/Model.v with
the operator an affine map evaluated in a fixed operation order (returned point bit-exact, number of T calls,
warning); (b) _is_epsilon_nash and _best_response_selection of mclennan_tourky.py against the Q instance on integer
games and dyadic profiles (float arithmetic exact there).
Oracle (independent, Fractions): residual of every returned point of compute_fixed_point (both methods) unless a
warning was issued, distance to the true fixed point of affine contractions; epsilon-Nash test of every converged
mclennan_tourky output; Nash test of every converged polym_lcp_solver output from every starting pure profile."""
import itertools, math, warnings
import numpy as np
from common import *

IMPORTS = "From QE Require Import C15.Model."
FINISH = dict(level="proof", technique_note=(
    "Coq theorems (coq/C15/Props.v) about the executable model coq/C15/Model.v; model tied to /repo by evaluating it "
    "with vm_compute on the inputs the implementation ran (iteration method: PrimFloat instance, bit-exact; "
    "McLennan-Tourky predicate and best-response selection: Q instance on exact data); independent Fraction oracle on "
    "the implementation's output. non-trivial = at least 2 applications of T (fixed point), games with >= 2 actions "
    "for every player (game solvers)"))
PRE = ("Definition fp_eqb (o : fp_outcome (list float)) (e : Z * list float * Z * bool) : bool :=\n"
       "  let '(code, v, it, w) := e in\n"
       "  match o with\n"
       "  | FPRes v' it' w' => Z.eqb code 0%Z && Fs_eqb v' v && Z.eqb it' it && Bool.eqb w' w\n"
       "  | FPErr => Z.eqb code 1%Z | FPFuel => false end.\n"
       "Definition NQ := NumQ.\n"
       "Definition fclose (a b : float) : bool := PrimFloat.leb (PrimFloat.abs (a - b)) (0x1p-30 * (1 + PrimFloat.abs b))%float.\n"
       "Definition ig_eqb (o : option (list float * bool * Z)) (e : Z * list float * bool * Z) : bool :=\n"
       "  let '(code, v, cv, it) := e in\n"
       "  match o with\n"
       "  | Some (v', cv', it') => Z.eqb code 0%Z && list_eqb fclose v' v && Bool.eqb cv' cv && Z.eqb it' it\n"
       "  | None => Z.eqb code 1%Z end.\n")


def fl(x):
    return flit(x) + "%float"


def zl(n):
    return zlit(n) + "%Z"


def F(x):
    return Fraction(float(x))


def solve_exact(A, b):
    """solve (I - A) x = b over Fractions (Gauss-Jordan); None if singular"""
    n = len(b)
    M = [[(1 if i == j else 0) - Fraction(A[i][j]) for j in range(n)] + [Fraction(b[i])] for i in range(n)]
    for c in range(n):
        p = next((r for r in range(c, n) if M[r][c] != 0), None)
        if p is None:
            return None
        M[c], M[p] = M[p], M[c]
        piv = M[c][c]
        M[c] = [x / piv for x in M[c]]
        for r in range(n):
            if r != c and M[r][c] != 0:
                f = M[r][c]
                M[r] = [x - f * y for x, y in zip(M[r], M[c])]
    return [M[i][n] for i in range(n)]


class Styled:
    """wraps a pure map `base`: what the operator hands back is a fresh array, ONE reused internal buffer, or a view of internal
    state (all allowed by the API); the oracle always re-evaluates with the pure `base`"""
    def __init__(self, base, style):
        self.base, self.style, self.buf, self.state = base, style, None, None

    def __call__(self, v, *a, **k):
        raw = self.base(v, *a, **k)
        out = np.asarray(raw, dtype=float)
        if out.ndim == 0:
            return raw                      # scalar v: the `v = new_v` path of the iteration method
        if self.style == "fresh":
            return out
        if self.style == "buffer":
            if self.buf is None or self.buf.shape != out.shape:
                self.buf = np.empty_like(out)
            self.buf[...] = out
            return self.buf
        if self.state is None or self.state.shape[0] != out.shape[0] + 2:
            self.state = np.zeros(out.shape[0] + 2)
        self.state[1:-1] = out
        return self.state[1:-1]


class Counted:
    def __init__(self, fn):
        self.fn, self.n = fn, 0

    def __call__(self, v, *a, **k):
        self.n += 1
        self.last = np.array(v, dtype=float, copy=True)     # v_k of the last application
        return self.fn(v, *a, **k)


def run_fp(T, v0, tol, max_iter, method):
    """returns (code, v_list, calls, warned); code 1 = ValueError"""
    from quantecon import compute_fixed_point
    Tc = Counted(T)
    with warnings.catch_warnings(record=True) as w:
        warnings.simplefilter("always")
        try:
            v = compute_fixed_point(Tc, v0, error_tol=tol, max_iter=max_iter, verbose=1, print_skip=5, method=method)
        except ValueError:
            return 1, [], 0, False, None
    warned = any(issubclass(x.category, RuntimeWarning) and "max_iter attained" in str(x.message) for x in w)
    vl = [float(x) for x in np.array(np.atleast_1d(np.asarray(v, dtype=float)), copy=True)]
    # residual the code itself measured at the last application: max|T(v_k) - v_k| with v = T(v_k) returned
    last = [F(x) for x in np.atleast_1d(Tc.last)] if method == "iteration" else None
    rk = max(abs(F(a) - b) for a, b in zip(vl, last)) if last is not None and len(last) == len(vl) else None
    return 0, vl, Tc.n, warned, rk


# generic games (payoffs k/997) found offline (seed search over 400 random 3/4-player games) on which polym_lcp_solver back-tracks and the finishing pair
# flips basis membership during the later stage: all starting pure profiles of each are run in every tier
POLYM_CORPUS = json.loads('[{"nums":[2,4,3,4],"den":997,"pm":{"0,1":[[2492,-920,2066,-2676],[3329,2297,-4974,-745]],"0,2":[[2243,4468,173],[4584,1196,-231]],"0,3":[[4242,2459,903,-3802],[-3740,3197,3210,-3078]],"1,0":[[-1775,2579],[-3005,436],[1445,-4166],[1307,930]],"1,2":[[3748,-4208,-945],[-4781,2772,-1984],[2380,-1928,-3647],[-2251,-1337,-1570]],"1,3":[[-1944,-1169,-1547,1514],[3857,25,-4627,825],[3575,4764,1731,4119],[2764,-4707,-2015,-1765]],"2,0":[[-1630,4780],[-1690,4354],[4945,-1987]],"2,1":[[273,-1784,1457,90],[-1371,604,2696,1751],[-3801,1905,3097,183]],"2,3":[[1790,-4160,2088,550],[-3917,491,-3927,4454],[2015,-576,4057,3415]],"3,0":[[1184,3617],[1561,2134],[43,-344],[-4627,4476]],"3,1":[[696,4557,657,2298],[4216,-4817,-4292,-4907],[3566,3134,1431,-1371],[4566,-835,4276,2621]],"3,2":[[-1164,3297,4369],[2087,-331,-385],[2064,-1579,-4887],[4153,3663,-2055]]}},{"nums":[3,2,2,4],"den":997,"pm":{"0,1":[[807,-1231],[369,-2672],[-2929,898]],"0,2":[[-2496,1493],[-2556,2566],[-148,4301]],"0,3":[[-2018,-1127,400,-1083],[932,440,-4301,924],[1096,-1954,426,2679]],"1,0":[[-783,4965,-3337],[2521,3552,-2207]],"1,2":[[1077,1762],[3919,3652]],"1,3":[[-4177,2646,1545,-3716],[-4632,646,-532,815]],"2,0":[[-551,286,-2887],[-3940,2548,-3566]],"2,1":[[3509,-3533],[927,2553]],"2,3":[[793,-2379,3684,34],[-3986,-3354,-672,2407]],"3,0":[[939,3437,1750],[-530,376,-2497],[3120,-2397,3611],[3498,-85,-3154]],"3,1":[[1471,3389],[-2806,225],[1564,-1210],[-3560,1551]],"3,2":[[-3876,1028],[-2782,-4543],[-592,-2058],[246,2396]]}},{"nums":[3,2,3,4],"den":997,"pm":{"0,1":[[3162,912],[4344,32],[-2860,3800]],"0,2":[[-4512,-1462,-1514],[3262,-421,-1944],[-424,-3856,-3035]],"0,3":[[-359,2058,2454,333],[2620,-4600,-764,-1531],[-4181,108,2155,-4592]],"1,0":[[2884,2525,-1737],[-568,-3644,4543]],"1,2":[[-2694,991,-3072],[-1165,956,-654]],"1,3":[[3755,134,-4261,-2500],[4370,4308,-956,-359]],"2,0":[[4919,3007,-1674],[-4371,1780,-4961],[-4564,-1817,1955]],"2,1":[[-3302,-2802],[-2545,-2174],[-2274,-4886]],"2,3":[[-1020,1734,-972,-4729],[-447,1258,-2457,-2713],[3527,-2569,3925,3916]],"3,0":[[-3887,-1607,1549],[-4767,-4015,-3347],[809,-2075,2822],[-2759,3276,1490]],"3,1":[[-4187,4248],[-4508,3691],[624,-2529],[-4058,-434]],"3,2":[[1134,-1648,3624],[-978,18,1839],[1854,1763,-3096],[-1928,-1248,-1574]]}},{"nums":[3,4,3,3],"den":997,"pm":{"0,1":[[15,-3107,2551,4255],[-184,-733,-263,1254],[2832,2976,-2979,-4747]],"0,2":[[3519,-1090,-4436],[-1104,2475,4504],[969,4558,4971]],"0,3":[[928,-1200,1560],[-1481,-1835,1297],[3688,-1096,-3971]],"1,0":[[156,4506,3158],[4873,-1360,3166],[-163,-1648,-2231],[-1005,4340,785]],"1,2":[[4517,-2581,-323],[-1203,-38,-5],[3695,-747,4891],[-1690,-860,2108]],"1,3":[[-1581,-655,-2749],[-4484,-78,1761],[2001,3827,1171],[1542,-403,-1255]],"2,0":[[-2743,3756,4104],[3863,2613,3119],[3347,-1523,-4404]],"2,1":[[2581,-4779,-3221,-2038],[-3128,-2412,-4206,126],[3143,-2606,4459,-3197]],"2,3":[[-4330,4721,2395],[-4114,3467,-3378],[-926,4013,4673]],"3,0":[[-3472,-4570,-500],[4011,-1571,-4525],[-9,-4630,3614]],"3,1":[[1981,635,-1058,3878],[2060,-3157,4943,1972],[1514,-1141,3503,-2855]],"3,2":[[2429,-3752,-2424],[413,3429,-1956],[4406,-904,-324]]}},{"nums":[4,4,2,4],"den":997,"pm":{"0,1":[[4674,1493,3349,-3995],[-4909,-2168,-3314,26],[-1473,-1562,72,4104],[2321,-2313,-4533,-987]],"0,2":[[-2073,1102],[-1759,-1134],[-1577,3378],[-252,-2994]],"0,3":[[-3291,-4044,2329,-1890],[2761,4447,-3358,3659],[-3421,-2171,-1930,-516],[-666,-3697,4141,3755]],"1,0":[[-3817,4432,-456,1432],[2265,-3162,-4873,91],[4577,1681,-3196,-2572],[-4824,-4152,1095,-2093]],"1,2":[[-2374,2274],[-424,491],[-4253,3843],[2407,1038]],"1,3":[[3709,-1936,2507,3536],[-1550,1625,832,-1679],[1324,4701,-4335,2899],[-518,-4674,3593,-4834]],"2,0":[[-1916,-1222,700,-2387],[1857,-2781,-2601,644]],"2,1":[[2979,-1932,-76,-2696],[865,-1061,768,4897]],"2,3":[[1776,-1531,-1673,4153],[502,3315,4223,3917]],"3,0":[[-1133,-2641,-2215,2850],[3676,-1707,-2950,-4089],[-1978,1586,-3670,2687],[-3671,4492,2644,1400]],"3,1":[[-2764,4387,486,-2190],[-4115,-4359,-216,575],[2130,1079,-2111,-4046],[3444,-3301,1767,-4491]],"3,2":[[-2467,-640],[4369,-2804],[-667,-2447],[-4189,-829]]}}]')


# a game whose payoffs k/997 are pairwise different but on which player 0's two actions tie EXACTLY against the starting profiles
# below (numerator sums 1709+3266-3007 = 2377-4219+3810): a degenerate path; binary64 sees a 1e-16 gap, cycles. Regression case for
# the non-degeneracy certificate (the runs are counted as excluded, never as failures and never as passes)
POLYM_DEGENERATE = json.loads('{"nums":[2,4,4,3],"den":997,"pm":{"0,1":[[1523,1709,-3819,-4621],[-2314,2377,4724,2234]],"0,2":[[3266,-3368,4916,-2881],[-4219,4181,-605,-1884]],"0,3":[[-392,-254,-3007],[-1467,-1647,3810]],"1,0":[[351,-1572],[-2148,3253],[-4829,-3562],[-4212,-4700]],"1,2":[[1981,-3227,3028,3404],[-61,2475,4433,-2345],[2186,1496,-2503,2061],[3842,-1681,-2942,-997]],"1,3":[[-2846,3058,727],[-2258,405,711],[-4610,1764,-1913],[-1535,-3363,-2778]],"2,0":[[-2681,2710],[3585,-544],[1918,3722],[1856,2804]],"2,1":[[3350,-4771,-2191,-2489],[3627,2076,1304,-4342],[1807,-556,-384,3956],[3883,4340,4547,2088]],"2,3":[[-3989,-3874,-1848],[-1587,-3699,-104],[-2941,3317,-2040],[-2054,885,-3927]],"3,0":[[-2947,1501],[2421,1464],[-4247,4838]],"3,1":[[725,-676,-3374,-4709],[818,2552,-845,-1248],[2379,274,-3854,-4638]],"3,2":[[-4706,-995,4134,-1524],[378,4909,-1743,-3067],[-1691,4256,2290,-1173]]},"starts":[[0,1,0,2],[1,1,0,2]]}')


def game_digest(nums, pm):
    import hashlib
    txt = json.dumps([list(nums), sorted((list(k), [[repr(float(x)) for x in r] for r in np.asarray(v).tolist()]) for k, v in pm.items())])
    return hashlib.sha1(txt.encode()).hexdigest()


def polym_exact_certificate(pm, nums, start, max_iter=400):
    """exact-rational replay (Fractions of the binary64 payoffs, tolerances 0) of polym_lcp_solver's pivot path.
    Returns (converged, pivots, exact_ties, min_gap): min_gap = smallest relative gap between the two smallest ratios over all
    minimum-ratio tests of the path. A path with an exact tie or min_gap < 1e-9 is degenerate: binary64 cannot resolve it."""
    Fr = Fraction
    N = len(nums); total = sum(nums); n = total + N
    off = [sum(nums[:p]) for p in range(N + 1)]
    pcm = Fr(max(float(np.max(M_)) for M_ in pm.values())) + 2
    M = [[Fr(0)] * n for _ in range(n)]
    for p in range(N):
        for p2 in range(N):
            if p2 != p:
                for a in range(nums[p]):
                    for c in range(nums[p2]):
                        M[off[p] + a][off[p2] + c] = pcm - Fr(float(pm[(p, p2)][a][c]))
        for a in range(nums[p]):
            M[off[p] + a][total + p] = Fr(-1); M[total + p][off[p] + a] = Fr(1)
    tab = [[Fr(int(i == j)) for j in range(n)] + [-M[i][j] for j in range(n)] + [Fr(0) if i < total else Fr(-1)] for i in range(n)]
    basis = list(range(n))

    def pivoting(pc, pr):
        pe = tab[pr][pc]; tab[pr] = [x / pe for x in tab[pr]]
        for i in range(n):
            if i != pr and tab[i][pc] != 0:
                m = tab[i][pc]; tab[i] = [x - y * m for x, y in zip(tab[i], tab[pr])]
    ties = 0; min_gap = None
    for p in range(N):
        pivoting(n + off[p] + start[p], total + p); basis[total + p] = n + off[p] + start[p]
    it = 0; p = 0; retro = False
    while p < N:
        fv = total + n + p; fx = n + off[p] + start[p]; fy = fx - n
        pc = fv if not retro else (fx if fy in basis else fy); retro = False
        while True:
            if it == max_iter:
                return False, it, ties, min_gap
            it += 1
            cand = sorted((tab[i][-1] / tab[i][pc], i) for i in range(n) if tab[i][pc] > 0)
            if not cand:
                return False, it, ties, min_gap
            if len(cand) > 1:
                gap = (cand[1][0] - cand[0][0]) / max(1, abs(cand[0][0]))
                ties += (gap == 0); min_gap = gap if min_gap is None else min(min_gap, gap)
            # lexicographic rule on exact ties (never needed on a non-degenerate path)
            best = [i for r_, i in cand if r_ == cand[0][0]]
            r = best[0]
            for j in range(n):
                if len(best) == 1: break
                if j == pc: continue
                vals = [(tab[i][j] / tab[i][pc], i) for i in best]; mn = min(v_ for v_, _i in vals)
                best = [i for v_, i in vals if v_ == mn]
            r = best[0]
            pivoting(pc, r); lv = basis[r]; basis[r] = pc
            if lv == fx or lv == fy: p += 1; break
            elif lv == fv:
                if p == 0: return False, it, ties, min_gap
                p -= 1; retro = True; break
            elif lv < n: pc = lv + n
            else: pc = lv - n
    return True, it, ties, min_gap


def _pl_pivoting(*a):
    from quantecon.optimize.pivoting import _pivoting
    return _pivoting(*a)


def _pl_lex(*a):
    from quantecon.optimize.pivoting import _lex_min_ratio_test
    return _lex_min_ratio_test(*a)


def polym_trace(pm, nums, start, max_iter=2000):
    """re-run of the outer loop with quantecon's own kernels; returns (backtracks, flips, converged, num_iter)"""
    N = len(nums); total = sum(nums); n = total + N
    mx = max(np.max(M) for M in pm.values()); pcm = mx + 2.0
    M = np.zeros((n, n))
    off = [sum(nums[:p]) for p in range(N + 1)]
    for p in range(N):
        for p2 in range(N):
            if p2 != p: M[off[p]:off[p+1], off[p2]:off[p2+1]] = pcm - pm[(p, p2)]
        M[off[p]:off[p+1], total + p] = -1.0
        M[total + p, off[p]:off[p+1]] = 1.0
    q = np.hstack([np.zeros(total), -np.ones(N)])
    tab = np.hstack([np.eye(n), -M, q.reshape(-1, 1)]); basis = np.arange(n)
    for p in range(N):
        row = total + p; col = n + off[p] + start[p]
        _pl_pivoting(tab, col, row); basis[row] = col
    argmins = np.empty(n + N, dtype=np.int_)
    it = 0; p = 0; retro = False; conv = True; back = 0; flips = 0; left = {}
    while p < N and conv:
        fv = total + n + p; fx = n + off[p] + start[p]; fy = fx - n
        if not retro: pc = fv
        else:
            pc = fx if fy in basis else fy
            if p in left and left[p] != pc: flips += 1
        retro = False
        while True:
            if it == max_iter: conv = False; break
            it += 1
            _, r = _pl_lex(tab, pc, 0, argmins)
            _pl_pivoting(tab, pc, r)
            lv = basis[r]; basis[r] = pc
            if lv == fx or lv == fy: left[p] = lv; p += 1; break
            elif lv == fv: p -= 1; retro = True; back += 1; break
            elif lv < n: pc = lv + n
            else: pc = lv - n
    return back, flips, conv, it


def dress(rng, prof):
    """integer dress of a profile of pure actions / mixed-action arrays: the same profile with its pure actions given as Python
    ints or NumPy integer scalars of several widths, in a tuple, a list or (all pure) one integer ndarray. Returns (dressed, label)."""
    kind = rng.choice(["int", "int64", "int32", "intp", "uint8", "ndarray", "list-int64", "unravel"])
    pure = all(not hasattr(a, "__len__") for a in prof)
    conv = {"int": int, "int64": np.int64, "int32": np.int32, "intp": np.intp, "uint8": np.uint8}.get(kind, np.int64)
    if kind == "ndarray" and pure:
        return np.array([int(a) for a in prof]), "ndarray"
    if kind == "unravel" and pure:
        return np.unravel_index(0, (1,) * len(prof))[:0] + tuple(np.int64(a) for a in prof), "tuple-of-np.int64(unravel-like)"
    out = [a if hasattr(a, "__len__") else conv(a) for a in prof]
    return (list(out) if kind.startswith("list") else tuple(out)), ("list:" if kind.startswith("list") else "tuple:") + conv.__name__


def run(ctx):
    import quantecon as qe
    from quantecon.game_theory import NormalFormGame, Player, mclennan_tourky, PolymatrixGame, polym_lcp_solver
    from quantecon.game_theory.mclennan_tourky import _is_epsilon_nash, _best_response_selection
    thorough = ctx.tier == "thorough"
    rng = ctx.rng
    ctx.proofs(["C15/Props.v", "C04/PropsTie.v"])

    # ================================================================ compute_fixed_point, iteration: correspondence
    def mk_affine(A, b):
        n = len(b)

        def T(v):
            v = np.atleast_1d(v)
            out = np.empty(n)
            for i in range(n):
                s = A[i][0] * v[0]
                for j in range(1, n):
                    s = s + A[i][j] * v[j]
                out[i] = s + b[i]
            return out
        return T

    cases, meta = [], []
    ig_cases, ig_meta = [], []
    for _ in range(5000 if thorough else 320):
        n = rng.randrange(1, 5)
        kind = rng.choice(["contraction", "contraction", "contraction", "stochastic", "expanding", "rational", "exact_tol"])
        if kind == "contraction" or kind == "rational":
            den = 16 if kind == "contraction" else rng.choice([3, 7, 10])
            L = rng.choice([2, 4, 8, 12, 15]) / 16.0
            A = []
            for i in range(n):
                w = [rng.randrange(-8, 9) for _j in range(n)]
                s = sum(abs(x) for x in w) or 1
                A.append([x / s * L if kind == "contraction" else (x / den) * L / max(1.0, s / den) for x in w])
        elif kind == "stochastic":   # row sums 1, entries >= 0: non-expansive in the sup norm, modulus exactly 1
            A = []
            for i in range(n):
                w = [rng.randrange(0, 5) for _j in range(n)]
                if sum(w) == 0: w[i] = 1
                A.append([x / sum(w) for x in w])
        elif kind == "exact_tol":   # halving map on dyadic data: the error hits a power-of-two tolerance exactly
            A = [[0.5 if i == j else 0.0 for j in range(n)] for i in range(n)]
        else:
            A = [[rng.choice([0.0, 1.5, -2.0, 1.0]) if i == j else rng.choice([0.0, 0.25]) for j in range(n)] for i in range(n)]
        b = [0.0] * n if kind == "stochastic" else [rng.randrange(-16, 17) / 4.0 for _i in range(n)]
        v0 = [rng.randrange(-40, 41) / 8.0 for _i in range(n)]
        tol = rng.choice([1e-3, 1e-3, 1e-6, 1e-10, 0.5, 1e-2])
        max_iter = rng.choice([50, 50, 200, 1, 2, 3, 10])
        if kind == "exact_tol":
            b = [0.0] * n; v0 = [float(rng.choice([1, 2, 4, -8, 16])) for _i in range(n)]
            tol = math.ldexp(1.0, -rng.randrange(1, 12)); max_iter = 50
        if rng.random() < 0.03: max_iter = 0
        style = rng.choice(["fresh", "buffer", "view"])
        T = Styled(mk_affine(A, b), style)
        ctx.count("fp_affine:returns=%s" % style)
        code, v, calls, warned, rk = run_fp(T, np.array(v0, dtype=float), tol, max_iter, "iteration")
        cases.append(tup(flist2(A), flist(b), flist(v0), fl(tol), zl(max_iter), tup(zl(code), flist(v), zl(calls), blit(warned))))
        inp = {"method": "iteration", "map": "affine", "kind": kind, "A": A, "b": b, "v0": v0, "error_tol": tol, "max_iter": max_iter, "returns": style}
        meta.append((inp, (code, v, calls, warned)))
        ctx.case(("fp_iter", kind, A, b, v0, tol, max_iter), nontrivial=(code == 0 and calls >= 2), sample={"call": inp, "impl": [v, calls, warned]})
        ctx.count("fp_iteration:%s:%s" % (kind, "ValueError" if code else ("warned" if warned else "converged")))
        if kind in ("contraction", "stochastic", "rational") and max_iter <= 50 and len(ig_cases) < (900 if thorough else 120):
            # imitation-game method on the same map: returned point (2^-30 relative), converged (from the warning), T calls = 2*iterate
            c2, v2, calls2, warned2, _rk = run_fp(T, np.array(v0, dtype=float), tol, max_iter, "imitation_game")
            ig_cases.append(tup(flist2(A), flist(b), flist(v0), fl(tol), zl(max_iter),
                                tup(zl(c2), flist(v2), blit(not warned2), zl(calls2 // 2))))
            ig_meta.append((dict(inp, method="imitation_game"), (c2, v2, calls2, warned2)))
            ctx.case(("fp_ig_affine", kind, A, b, v0, tol, max_iter), nontrivial=(c2 == 0 and calls2 >= 4))
            ctx.count("fp_imitation_game:affine:%s" % ("ValueError" if c2 else ("warned" if warned2 else "converged")))
            if c2 == 0 and not warned2:
                vq2 = [F(x) for x in v2]
                Tv2 = [sum(F(A[i][j]) * vq2[j] for j in range(n)) + F(b[i]) for i in range(n)]
                if max(abs(x - y) for x, y in zip(Tv2, vq2)) > F(tol) * (1 + Fraction(1, 10**9)) + Fraction(1, 10**13) * (1 + max(abs(x) for x in vq2)):
                    ctx.fail("fp_imitation_game_residual", "returned point has residual > error_tol without a warning",
                             dict(inp, method="imitation_game"), {"v": v2}, tol)
        if code:
            if max_iter >= 1:
                ctx.fail("fp_valueerror", "ValueError on valid arguments", inp, None, None)
            continue
        # ---------------- oracle: exact residual at the returned point, exact T
        vq = [F(x) for x in v]
        Tv = [sum(F(A[i][j]) * vq[j] for j in range(n)) + F(b[i]) for i in range(n)]
        resid = max(abs(x - y) for x, y in zip(Tv, vq))
        Lnorm = max(sum(abs(F(A[i][j])) for j in range(n)) for i in range(n))
        slack = F(tol) * (1 + Fraction(1, 10**9)) + Fraction(1, 10**13) * (1 + max(abs(x) for x in vq))
        if not warned and resid > slack:
            # D7 class only: T is expansive AND the code's own test legitimately passed at v_k (T expanded the pair v_k, v)
            if Lnorm > 1 and rk is not None and rk <= F(tol):
                ctx.fail("fp_iteration_residual_expansive", "returned point has residual > error_tol without a warning (expansive operator)",
                         dict(inp, expansive=True), {"v": v, "residual": float(resid)}, tol)
            else:
                ctx.fail("fp_iteration_residual", "returned point has residual > error_tol without a warning", inp,
                         {"v": v, "residual": float(resid)}, tol)
        if not warned and Lnorm < 1:
            vs = solve_exact(A, b)
            d = max(abs(x - y) for x, y in zip(vq, vs))
            if d > slack / (1 - Lnorm):
                ctx.fail("fp_contraction_distance", "distance to the fixed point > error_tol/(1-modulus)", inp,
                         {"v": v, "dist": float(d)}, float(F(tol) / (1 - Lnorm)))
        if warned and calls != max_iter:
            ctx.fail("fp_warning", "warning issued before max_iter applications of T", inp, {"calls": calls}, max_iter)
    ok = ("fun c => let '(A, b, v0, tol, mi, e) := c in "
          "fp_eqb (compute_fixed_point (affine A b) (supdist PrimFloat.abs) v0 tol mi) e")
    bad = ctx.coq_check("compute_fixed_point_iteration", IMPORTS,
                        "list (list float) * list float * list float * float * Z * (Z * list float * Z * bool)", ok, cases,
                        chunk=40, preamble=PRE)
    for i in bad:
        inp, out = meta[i]
        ctx.mismatch("C15.Model.compute_fixed_point (PrimFloat instance, affine T) vs _compute_fp.compute_fixed_point", inp, out)
    IMPORTS2 = IMPORTS + "\nFrom QE Require Import Gen.Consts."
    ok = ("fun c => let '(A, b, v0, tol, mi, e) := c in "
          "ig_eqb (compute_fixed_point_igm piv_TOL_PIV_f piv_TOL_RATIO_DIFF_f PrimFloat.abs (affine A b) v0 tol mi) e")
    bad = ctx.coq_check("compute_fixed_point_imitation_game", IMPORTS2,
                        "list (list float) * list float * list float * float * Z * (Z * list float * bool * Z)", ok, ig_cases,
                        chunk=10, preamble=PRE)
    for i in bad:
        inp, out = ig_meta[i]
        ctx.mismatch("C15.Model.compute_fixed_point_igm (PrimFloat instance, affine T) vs _compute_fp.compute_fixed_point(method='imitation_game')", inp, out)

    # ================================================================ compute_fixed_point: oracle on other maps, both methods
    def maps(n):
        """(name, T, exact residual function, in-domain start generator, non_expansive?)"""
        c = np.array([rng.randrange(1, 8) / 8.0 for _ in range(n)])
        out = []
        out.append(("half_plus_c", lambda v: 0.5 * np.asarray(v) + c, lambda v: [F(0.5) * x + F(ci) for x, ci in zip(v, c)], True, False))
        out.append(("dbl_cap(expansive)", lambda v: np.minimum(2.0 * np.asarray(v), 1.0), lambda v: [min(2 * x, Fraction(1)) for x in v], False, True))
        out.append(("avg_with_mean", lambda v: 0.5 * np.asarray(v) + 0.5 * np.mean(v), None, True, False))
        # Brouwer map of the box [0,1]^n: x -> clip(c + M(x - 1/2)) with a small rotation-like M
        out.append(("box_clip_affine", lambda v: np.clip(c + 0.75 * (np.roll(np.asarray(v), 1) - 0.5), 0.0, 1.0), None, None, False))
        # Brouwer map of the simplex: x -> (x + max(0, g - mean g)) / sum  with g = payoff against x of a random matrix
        M = np.array([[rng.randrange(-4, 5) / 4.0 for _ in range(n)] for _ in range(n)])

        def nash_map(v):
            v = np.asarray(v, dtype=float)
            g = M @ v
            gain = np.maximum(0.0, g - v @ g)
            return (v + gain) / (1.0 + gain.sum())
        out.append(("simplex_nash_map", nash_map, None, None, False))
        return out

    for _ in range(800 if thorough else 70):
        n = rng.randrange(1, 5)
        for name, T, Texact, nonexp, expansive in maps(n):
            if name == "simplex_nash_map":
                w = [rng.randrange(1, 9) for _i in range(n)]
                v0 = np.array([x / sum(w) for x in w])
            else:
                v0 = np.array([rng.randrange(0, 9) / 8.0 for _i in range(n)]) if "box" in name or "cap" in name else \
                    np.array([rng.randrange(-40, 41) / 8.0 for _i in range(n)])
            if expansive:
                v0 = np.array([rng.choice([9e-4, 7e-4, 3e-4, 0.3, 0.0009]) for _i in range(n)])
            Tbase = T
            for method in ("iteration", "imitation_game"):
                tol = rng.choice([1e-3, 1e-3, 1e-5, 1e-8])
                max_iter = rng.choice([50, 50, 200, 5, 1])
                v0c = float(v0[0]) if (n == 1 and rng.random() < 0.5 and method == "iteration" and name in ("half_plus_c", "dbl_cap(expansive)")) else v0.copy()
                # what the operator returns: a fresh array, one reused buffer, or a view of internal state; the oracle below
                # evaluates the residual with the PURE map Tbase
                style = "fresh" if np.isscalar(v0c) else rng.choice(["fresh", "buffer", "buffer", "view"])
                T = Styled(Tbase, style)
                code, v, calls, warned, rk = run_fp(T, v0c, tol, max_iter, method)
                T = Tbase
                ctx.count("fp_%s:returns=%s%s" % (method, style, ",scalar v" if np.isscalar(v0c) else ""))
                inp = {"method": method, "map": name, "n": n, "v0": v0.tolist(), "error_tol": tol, "max_iter": max_iter, "returns": style}
                ctx.case(("fp_other", name, method, v0.tolist(), tol, max_iter), nontrivial=(calls >= 2), sample={"call": inp, "impl": [v, calls, warned]})
                ctx.count("fp_%s:%s:%s" % (method, name, "warned" if warned else "converged"))
                if code:
                    ctx.fail("fp_valueerror", "ValueError on valid arguments", inp, None, None)
                    continue
                va = np.array(v)
                if Texact is not None:
                    vq = [F(x) for x in v]
                    resid = max(abs(x - y) for x, y in zip(Texact(vq), vq))
                else:
                    resid = F(np.max(np.abs(np.asarray(T(va), dtype=float) - va)))
                slack = F(tol) * (1 + Fraction(1, 10**9)) + Fraction(1, 10**13)
                if not warned and resid > slack:
                    # D7 class: the map is not known to be non-expansive, the code's own test max|T(v_k)-v_k| <= tol passed,
                    # and T expanded the pair (v_k, T v_k): the returned T(v_k) has a larger residual
                    if (expansive or nonexp is None) and method == "iteration" and rk is not None and rk <= F(tol):
                        ctx.fail("fp_iteration_residual_expansive", "returned point has residual > error_tol without a warning (expansive operator)",
                                 dict(inp, expansive=True), {"v": v, "residual": float(resid)}, tol)
                    else:
                        ctx.fail("fp_%s_residual" % method, "returned point has residual > error_tol without a warning", inp,
                                 {"v": v, "residual": float(resid)}, tol)
    # the recorded witness of finding D7, verbatim
    code, v, calls, warned, rk = run_fp(lambda x: min(2.0 * x, 1.0), 9e-4, 1e-3, 50, "iteration")
    ctx.case(("fp_D7",), nontrivial=False)
    if not warned and abs(min(2 * F(v[0]), 1) - F(v[0])) > F(1e-3):
        ctx.fail("fp_iteration_residual_expansive", "T(x)=min(2x,1), v0=9e-4, tol=1e-3: returned point has residual > tol, no warning",
                 {"expansive": True, "map": "min(2x,1)", "v0": 9e-4, "error_tol": 1e-3}, {"v": v, "calls": calls}, 1e-3)

    # ================================================================ McLennan-Tourky
    def rand_game(N, maxa):
        nums = [rng.randrange(2, maxa + 1) for _ in range(N)]
        style = rng.choice(["int", "int", "rational", "coordination"])
        shape = tuple(nums) + (N,)
        arr = np.zeros(shape)
        for prof in itertools.product(*[range(n) for n in nums]):
            for i in range(N):
                if style == "int": arr[prof + (i,)] = rng.randrange(-6, 7)
                elif style == "rational": arr[prof + (i,)] = rng.randrange(-12, 13) / rng.choice([3.0, 4.0, 7.0])
                else: arr[prof + (i,)] = float(len(set(prof)) == 1) * (1 + prof[0]) + rng.randrange(0, 2) * 0.25
        return nums, arr, style

    def exact_deviation_gains(arr, nums, prof):
        """independent: for each player the gain of each pure deviation, by explicit summation over opponents' pure profiles"""
        N = len(nums)
        gains = []
        for i in range(N):
            u = [Fraction(0)] * nums[i]
            for p in itertools.product(*[range(n) for n in nums]):
                w = Fraction(1)
                for j in range(N):
                    if j != i:
                        w *= prof[j][p[j]]
                if w == 0:
                    continue
                u[p[i]] += w * F(arr[p + (i,)])
            cur = sum(prof[i][a] * u[a] for a in range(nums[i]))
            gains.append([ua - cur for ua in u])
        return gains

    n_games = 150 if thorough else 14
    mt_cases, mt_meta = [], []
    for N in (2, 3, 4):
        for _ in range(n_games):
            nums, arr, style = rand_game(N, 4 if N < 4 else 3)
            g = NormalFormGame(arr)
            inits = [tuple(rng.randrange(n) for n in nums) for _k in range(2)] + [None]
            w = [[rng.randrange(1, 6) for _a in range(n)] for n in nums]
            inits.append(tuple(np.array([x / sum(ws) for x in ws]) for ws in w))
            # pure actions for some players, mixed-action arrays for the others
            inits.append(tuple((rng.randrange(nums[i]) if rng.random() < 0.5 else inits[-1][i]) for i in range(N)))
            for init in inits:
                for eps in (1e-2, 1e-3, 1e-4):
                    init_call, dlabel = (None, "default") if init is None else dress(rng, init)
                    ctx.count("mclennan_tourky:init-dress=%s" % dlabel)
                    NE, res = mclennan_tourky(g, init=init_call, epsilon=eps, max_iter=rng.choice([200, 200, 10, 25]), full_output=True)
                    if int(res.num_iter) <= 25 and len(mt_cases) < (600 if thorough else 90):
                        flats = [[float(v) for v in g.players[i].payoff_array.ravel()] for i in range(N)]
                        ini = (0,) * N if init is None else init
                        x_init = []
                        for i_, a_ in enumerate(ini):
                            x_init += ([1.0 if k_ == a_ else 0.0 for k_ in range(nums[i_])] if not hasattr(a_, "__len__") else [float(v) for v in a_])
                        mt_cases.append(tup(flist2(flats), natlist(nums), flist(x_init), fl(eps), fl(float(g.players[0].tol)), zl(int(res.max_iter)),
                                            tup(zl(0), flist([float(v) for a_ in NE for v in a_]), blit(bool(res.converged)), zl(int(res.num_iter)))))
                        mt_meta.append(({"solver": "mclennan_tourky", "nums_actions": nums, "payoffs": arr.tolist(), "epsilon": eps,
                                         "init": x_init, "max_iter": int(res.max_iter)},
                                        ([x.tolist() for x in NE], bool(res.converged), int(res.num_iter))))
                    inp = {"solver": "mclennan_tourky", "nums_actions": nums, "payoffs": arr.tolist(), "epsilon": eps,
                           "init": None if init is None else [x.tolist() if hasattr(x, "tolist") else x for x in init], "init_dress": dlabel,
                           "max_iter": int(res.max_iter)}
                    ctx.case(("mt", nums, arr.tolist(), str(inp["init"]), eps, int(res.max_iter)), nontrivial=True,
                             sample={"call": {k: inp[k] for k in ("nums_actions", "epsilon", "init")}, "impl": [[x.tolist() for x in NE], bool(res.converged), int(res.num_iter)]})
                    ctx.count("mclennan_tourky:N=%d:%s" % (N, "converged" if res.converged else "not-converged"))
                    ctx.count("mclennan_tourky:init=%s" % ("default" if init is None else "mixed" if all(hasattr(a, "tolist") for a in init)
                                                           else "pure" if not any(hasattr(a, "tolist") for a in init) else "pure+mixed"))
                    if not res.converged:
                        continue
                    prof = [[F(x) for x in a] for a in NE]
                    okp = all(all(x >= -Fraction(1, 10**12) for x in a) and abs(sum(a) - 1) <= Fraction(1, 10**9) for a in prof)
                    if not okp:
                        ctx.fail("mt_not_probability_vectors", "converged profile is not made of probability vectors", inp, [x.tolist() for x in NE], None)
                        continue
                    gains = exact_deviation_gains(arr, nums, prof)
                    worst = max(max(gi) for gi in gains)
                    if worst > F(eps) * (1 + Fraction(1, 10**9)) + Fraction(1, 10**12):
                        ctx.fail("mt_not_epsilon_nash", "converged=True but some pure deviation gains more than epsilon", inp,
                                 {"NE": [x.tolist() for x in NE], "max_gain": float(worst)}, eps)

    ok = ("fun c => let '(g, nums, x0, eps, brtol, mi, e) := c in "
          "ig_eqb (mclennan_tourky piv_TOL_PIV_f piv_TOL_RATIO_DIFF_f g nums x0 eps brtol mi) e")
    bad = ctx.coq_check("mclennan_tourky", IMPORTS2, "list (list float) * list nat * list float * float * float * Z * (Z * list float * bool * Z)",
                        ok, mt_cases, chunk=8, preamble=PRE)
    for i in bad:
        inp, out = mt_meta[i]
        ctx.mismatch("C15.Model.mclennan_tourky (PrimFloat instance) vs mclennan_tourky.mclennan_tourky", inp, out)

    # ---------------- correspondence of the predicate and of the best-response selection (Q instance, exact data)
    cases, meta = [], []
    for _ in range(2000 if thorough else 150):
        N = rng.choice([2, 2, 3, 3, 4])
        nums = [rng.randrange(1 if rng.random() < 0.1 else 2, (5 if N < 4 else 4)) for _ in range(N)]
        arr = np.zeros(tuple(nums) + (N,))
        for prof in itertools.product(*[range(n) for n in nums]):
            for i in range(N):
                arr[prof + (i,)] = rng.randrange(-6, 7) if rng.random() < 0.8 else rng.randrange(-6, 7) / 4.0
        g = NormalFormGame(arr)
        indptr = np.concatenate([[0], np.cumsum(nums)])
        for _k in range(3):
            xs = []
            for n in nums:
                mode = rng.randrange(3)
                if mode == 0:
                    a = [0] * n; a[rng.randrange(n)] = 8
                else:
                    cuts = sorted(rng.randrange(0, 9) for _c in range(n - 1))
                    a = [b_ - a_ for a_, b_ in zip([0] + cuts, cuts + [8])]
                xs += [x / 8.0 for x in a]
            x = np.array(xs)
            eps = rng.choice([1e-2, 1e-3, 1e-4, 0.25, 0.5, 1.0, 0.0, 2.0, 4.0, 8.0])
            isn = bool(_is_epsilon_nash(x, g, eps, indptr))
            brs = [float(v) for v in _best_response_selection(x, g, indptr)]
            flats = [[F(v) for v in g.players[i].payoff_array.ravel()] for i in range(N)]
            br_tol = float(g.players[0].tol)
            cases.append(tup(qlist2(flats), natlist(nums), qlist([F(v) for v in xs]), qlit(F(eps)), qlit(F(br_tol)), blit(isn), qlist([F(v) for v in brs])))
            inp = {"nums_actions": nums, "payoffs": arr.tolist(), "x": xs, "epsilon": eps}
            meta.append((inp, (isn, brs)))
            ctx.case(("mt_pred", nums, arr.tolist(), xs, eps), nontrivial=(min(nums) >= 2), sample={"call": {"nums": nums, "x": xs, "eps": eps}, "impl": [isn, brs]})
            ctx.count("is_epsilon_nash:%s" % isn)
            # oracle for the predicate itself: independent deviation gains
            gains = exact_deviation_gains(arr, nums, [[F(v) for v in xs[indptr[i]:indptr[i + 1]]] for i in range(N)])
            exp = all(max(gi) <= F(eps) for gi in gains)
            if exp != isn:
                ctx.fail("mt_predicate", "_is_epsilon_nash differs from 'no pure deviation gains more than epsilon'", inp, isn, exp)
    ok = ("fun c => let '(g, nums, x, eps, brtol, isn, brs) := c in "
          "Bool.eqb (@is_epsilon_nash Q NQ g nums x eps) isn && Qs_eqb (@best_response_selection Q NQ g nums x brtol) brs")
    bad = ctx.coq_check("mt_predicate_and_selection", IMPORTS, "list (list Q) * list nat * list Q * Q * Q * bool * list Q", ok, cases,
                        chunk=40, preamble=PRE)
    for i in bad:
        inp, out = meta[i]
        ctx.mismatch("C15.Model.is_epsilon_nash/best_response_selection (Q instance) vs mclennan_tourky._is_epsilon_nash/_best_response_selection", inp, out)

    # ================================================================ polym_lcp_solver
    pl_all = []
    games = [(g["nums"], {tuple(int(t) for t in k.split(",")): np.array(v, dtype=float) / float(g["den"]) for k, v in g["pm"].items()}, "corpus")
             for g in POLYM_CORPUS]
    for _ in range(300 if thorough else 22):
        N = rng.choice([2, 3, 3, 4, 4, 4])
        nums = [rng.randrange(2, 5) for _ in range(N)]
        # generic payoffs (k/997, k in +-5000): integer games with tied entries are degenerate and the solver may cycle on them
        # payoff-range families (the cost shift high + LOW_AVOIDER must make every cost positive whatever the range is)
        fam = rng.choice(["mixed", "mixed", "positive_large", "positive_large", "negative", "tiny_range", "huge_range", "positive_small"])
        shift, scale = {"mixed": (0.0, 1.0), "positive_large": (100.0 + rng.randrange(0, 400), 1.0), "negative": (-60.0 - rng.randrange(0, 400), 1.0),
                        "tiny_range": (rng.choice([0.0, 50.0, -7.0]), 1e-4), "huge_range": (rng.choice([0.0, 3e6, -3e6]), 1e5),
                        "positive_small": (8.0, 1.0)}[fam]
        pm = {(i, j): np.array([[shift + scale * rng.randrange(-5000, 5001) / 997.0 for _c in range(nums[j])] for _r in range(nums[i])])
              for i in range(N) for j in range(N) if i != j}
        games.append((nums, pm, "random:" + fam))
    gd_ = POLYM_DEGENERATE
    games.append((gd_["nums"], {tuple(int(t) for t in k.split(",")): np.array(v, dtype=float) / float(gd_["den"]) for k, v in gd_["pm"].items()},
                  "degenerate-regression"))
    PL_MAX = 2000
    for nums, pm, origin in games:
        N = len(nums)
        pg = PolymatrixGame(pm)
        digest = game_digest(nums, pm)
        for start in (itertools.product(*[range(n) for n in nums]) if origin != "degenerate-regression" else [tuple(s_) for s_ in gd_["starts"]]):
            back, flips, tconv, tit = polym_trace(pm, nums, start, PL_MAX)   # same kernels, instrumented outer loop
            inp = {"solver": "polym_lcp_solver", "nums_actions": nums, "polymatrix": {"%d,%d" % k: v.tolist() for k, v in pm.items()},
                   "start": list(start), "max_iter": PL_MAX, "origin": origin, "backtracks": back, "flipped_pair": flips, "game_digest": digest}
            try:
                start_call, dlabel = dress(rng, start)
                ctx.count("polym_lcp_solver:start-dress=%s" % dlabel)
                NE, res = polym_lcp_solver(pg, starting_player_actions=start_call, max_iter=PL_MAX, full_output=True)
            except Exception as e:
                ctx.case(("polym", nums, inp["polymatrix"], start), nontrivial=True)
                ctx.count("polym_lcp_solver:exception")
                ctx.fail("polym_exception", "polym_lcp_solver raised %r on a generic polymatrix game (the documented algorithm converges in %d pivots)"
                         % (e, tit), inp, repr(e), tit)
                continue
            ctx.case(("polym", nums, inp["polymatrix"], start), nontrivial=True,
                     sample={"call": {"nums": nums, "start": list(start)}, "impl": [[x.tolist() for x in NE], bool(res.converged), int(res.num_iter)]})
            ctx.count("polym_lcp_solver:N=%d:%s" % (N, "converged" if res.converged else "not-converged"))
            ctx.count("polym_lcp_solver:runs")
            ctx.count("polym_lcp_solver:payoffs=%s" % origin)
            if back: ctx.count("polym_lcp_solver:runs-that-backtrack")
            if flips: ctx.count("polym_lcp_solver:backtrack-with-flipped-finishing-pair")
            pl_all.append((2 if flips else 1 if back else 0, nums, start, pm, NE, res))
            if not res.converged:
                # non-degeneracy certificate: exact-rational replay of the pivot path on the binary64 payoffs. Convergence is required only
                # on paths that binary64 can resolve: no exact tie and relative gap >= 1e-9 in every minimum-ratio test of the exact path
                xc, xit, xties, xgap = polym_exact_certificate(pm, nums, start)
                if xties or (xgap is not None and xgap < Fraction(1, 10**9)):
                    ctx.count("polym_lcp_solver:excluded:degenerate path (exact tie or ratio gap < 1e-9)")
                    pl_all.pop()
                    continue
                ctx.fail("polym_no_convergence", "polym_lcp_solver did not converge within %d pivots on a generic polymatrix game although the exact-rational "
                         "replay of its pivot path is non-degenerate (min ratio gap %.3g) and converges=%s in %d pivots"
                         % (PL_MAX, float(xgap) if xgap is not None else float("inf"), xc, xit), inp, int(res.num_iter), xit)
                continue
            prof = [[F(x) for x in a] for a in NE]
            if not all(all(x >= -Fraction(1, 10**9) for x in a) and abs(sum(a) - 1) <= Fraction(1, 10**9) for a in prof):
                ctx.fail("polym_not_probability_vectors", "converged profile is not made of probability vectors", inp, [x.tolist() for x in NE], None)
                continue
            worst = Fraction(0)
            for i in range(N):
                u = [sum(sum(F(pm[(i, j)][a][c]) * prof[j][c] for c in range(nums[j])) for j in range(N) if j != i) for a in range(nums[i])]
                cur = sum(prof[i][a] * u[a] for a in range(nums[i]))
                worst = max(worst, max(u) - cur)
            # stated tolerance: 1e-8 absolute + 1e-12 relative to the largest payoff magnitude (float rounding of the LCP solve)
            if worst > Fraction(1, 10**8) + Fraction(1, 10**12) * F(max(float(np.max(np.abs(M_))) for M_ in pm.values())):
                ctx.fail("polym_not_nash", "converged=True but the profile is not a Nash equilibrium of the polymatrix game (1e-8 + 1e-12*max|payoff|)", inp,
                         {"NE": [x.tolist() for x in NE], "max_gain": float(worst)}, None)
    # model correspondence: every run with a flipped finishing pair, then back-tracking runs, then plain runs
    caps = {2: 400 if thorough else 90, 1: 1200 if thorough else 110, 0: 600 if thorough else 50}
    pl_cases, pl_meta = [], []
    order = list(range(len(pl_all)))
    rng.shuffle(order)            # so that the capped classes sample every payoff-range family, not only the corpus
    for cls, nums, start, pm, NE, res in [pl_all[i_] for i_ in order]:
        if caps[cls] <= 0:
            continue
        caps[cls] -= 1
        N = len(nums)
        pms = "[" + "; ".join("[" + "; ".join(("(@nil (list float))" if i == j else flist2(pm[(i, j)].tolist())) for j in range(N)) + "]"
                              for i in range(N)) + "]"
        pl_cases.append(tup(natlist(nums), natlist(start), pms, zl(PL_MAX),
                            tup(zl(0), flist([float(v) for a_ in NE for v in a_]), blit(bool(res.converged)), zl(int(res.num_iter)))))
        pl_meta.append(({"solver": "polym_lcp_solver", "nums_actions": nums, "polymatrix": {"%d,%d" % k: v.tolist() for k, v in pm.items()},
                         "start": list(start), "max_iter": PL_MAX}, ([x.tolist() for x in NE], bool(res.converged), int(res.num_iter))))
        ctx.count("polym_lcp_solver:coq-case:%s" % ["plain", "backtracking", "flipped-pair"][cls])

    ok = ("fun c => let '(nums, starts, pms, mi, e) := c in "
          "ig_eqb (match polym_lcp_solver piv_TOL_PIV_f piv_TOL_RATIO_DIFF_f nums starts pms 2%float mi with "
          "Some (ne, cv, it) => Some (concat ne, cv, it) | None => None end) e")
    bad = ctx.coq_check("polym_lcp_solver", IMPORTS2, "list nat * list nat * list (list (list (list float))) * Z * (Z * list float * bool * Z)",
                        ok, pl_cases, chunk=15, preamble=PRE)
    for i in bad:
        inp, out = pl_meta[i]
        ctx.mismatch("C15.Model.polym_lcp_solver (PrimFloat instance) vs howson_lcp.polym_lcp_solver", inp, out)

    # ================================================================ hardening audit (classes 1-6): dress/dtype, sequences and
    # fresh-vs-reused objects, non-mutation/aliasing, optional arguments (omitted / explicit default / falsy), boundaries, exceptions
    import io, contextlib
    from quantecon import compute_fixed_point

    def cfp(T, v, *a, **kw):
        buf = io.StringIO()
        with warnings.catch_warnings(record=True) as w, contextlib.redirect_stdout(buf):
            warnings.simplefilter("always")
            try:
                r = compute_fixed_point(T, v, *a, **kw)
            except ValueError:
                return ("err", "ValueError")
            except Exception as e:
                return ("exc", repr(e)[:200])
        return ("ok", [float(x) for x in np.atleast_1d(np.asarray(r, dtype=float))], any("max_iter attained" in str(x.message) for x in w))

    def hcheck(cls, label, canon, got, inp):
        st = got[0] if isinstance(got, tuple) and got and isinstance(got[0], str) else "ok"
        ctx.case(("harden", cls, label), nontrivial=(st == "ok"))
        ctx.count("%s:%s%s" % (cls, label, "" if st == "ok" else ":" + st))
        if st == "exc":
            ctx.fail("unexpected_exception", "exception on a valid call (%s %s): %s" % (cls, label, got[1]), inp, got, canon)
        elif got != canon:
            ctx.fail("harden_result_differs", "%s %s: result differs from the canonical call" % (cls, label), inp, got, canon)

    T1 = lambda v: 0.5 * np.asarray(v, dtype=float) + 1.0                  # contraction, fixed point 2
    T2 = lambda v: np.floor(np.asarray(v, dtype=float) / 2.0) + 3.0        # integer-valued map (exact in every dtype)
    kw0 = dict(error_tol=1e-3, max_iter=50, verbose=0)
    for meth in ("iteration", "imitation_game"):
        canon1 = cfp(T1, np.array([8.0, 4.0]), method=meth, **kw0)
        canon2 = cfp(T2, np.array([40.0, 9.0]), method=meth, **kw0)
        hcheck("dress", "fp:%s:v=list" % meth, canon1, cfp(T1, [8.0, 4.0], method=meth, **kw0), {"method": meth, "v": "list"})
        hcheck("dress", "fp:%s:v=tuple" % meth, canon1, cfp(T1, (8.0, 4.0), method=meth, **kw0), {"method": meth, "v": "tuple"})
        hcheck("dress", "fp:%s:v=int64 array(integer map)" % meth, canon2, cfp(T2, np.array([40, 9]), method=meth, **kw0), {"method": meth, "v": "int64 array"})
        hcheck("dress", "fp:%s:v=int32 array(integer map)" % meth, canon2, cfp(T2, np.array([40, 9], dtype=np.int32), method=meth, **kw0), {"method": meth, "v": "int32 array"})
        hcheck("dress", "fp:%s:v=float32 array(integer map)" % meth, canon2, cfp(T2, np.array([40, 9], dtype=np.float32), method=meth, **kw0), {"method": meth, "v": "float32"})
        hcheck("dress", "fp:%s:v=row of a larger array" % meth, canon1, cfp(T1, np.array([[8.0, 4.0], [0.0, 0.0]])[0], method=meth, **kw0), {"method": meth, "v": "row view"})
        hcheck("dress", "fp:%s:v=non-contiguous view" % meth, canon1, cfp(T1, np.array([[8.0, 0.0], [4.0, 0.0]])[:, 0], method=meth, **kw0), {"method": meth, "v": "column view"})
        cs = cfp(T1, 8.0, method=meth, **kw0)
        for lab, cv in (("int", int), ("np.int64", np.int64), ("np.int32", np.int32), ("np.float64", np.float64), ("np.float32", np.float32)):
            hcheck("dress", "fp:%s:scalar v=%s" % (meth, lab), cs, cfp(T1, cv(8), method=meth, **kw0), {"method": meth, "v": 8, "dress": lab})
        for lab, cv in (("np.int64", np.int64), ("np.int32", np.int32), ("np.intp", np.intp), ("np.uint8", np.uint8)):
            hcheck("dress", "fp:%s:max_iter,print_skip=%s" % (meth, lab), canon1, cfp(T1, np.array([8.0, 4.0]), error_tol=1e-3, max_iter=cv(50), verbose=0, print_skip=cv(5), method=meth),
                   {"method": meth, "max_iter": lab})
        hcheck("dress", "fp:%s:error_tol=np.float32" % meth, cfp(T1, np.array([8.0, 4.0]), error_tol=float(np.float32(1e-3)), max_iter=50, verbose=0, method=meth),
               cfp(T1, np.array([8.0, 4.0]), error_tol=np.float32(1e-3), max_iter=50, verbose=0, method=meth), {"method": meth, "error_tol": "float32"})
        hcheck("dress", "fp:%s:error_tol=int 1" % meth, cfp(T1, np.array([8.0, 4.0]), error_tol=1.0, max_iter=50, verbose=0, method=meth),
               cfp(T1, np.array([8.0, 4.0]), error_tol=1, max_iter=50, verbose=0, method=meth), {"method": meth, "error_tol": 1})
        # optional arguments: omitted / explicit defaults / verbose 0,1,2 / print_skip
        dflt = cfp(T1, np.array([8.0, 4.0]), method=meth)
        hcheck("optional", "fp:%s:explicit defaults" % meth, dflt, cfp(T1, np.array([8.0, 4.0]), error_tol=1e-3, max_iter=50, verbose=2, print_skip=5, method=meth), {"method": meth})
        hcheck("optional", "fp:%s:positional defaults" % meth, dflt, cfp(T1, np.array([8.0, 4.0]), 1e-3, 50, 2, 5, meth), {"method": meth})
        for vb in (0, 1, 2):
            for ps_ in (1, 5, 1000):
                hcheck("optional", "fp:%s:verbose=%d,print_skip=%d" % (meth, vb, ps_), canon1, cfp(T1, np.array([8.0, 4.0]), error_tol=1e-3, max_iter=50, verbose=vb, print_skip=ps_, method=meth),
                       {"method": meth, "verbose": vb, "print_skip": ps_})
        # falsy but valid tolerance: error_tol = 0 must NOT fall back to the default; 20 applications cannot reach the fixed point exactly
        z = cfp(T1, np.array([8.0, 4.0]), error_tol=0, max_iter=20, verbose=1, method=meth)
        ctx.case(("harden", "optional", "fp tol 0", meth), nontrivial=True); ctx.count("optional:fp:%s:error_tol=0(falsy)" % meth)
        if z[0] != "ok" or not z[2]:
            ctx.fail("falsy_tolerance_replaced", "error_tol=0, max_iter=20 on v -> v/2+1 from (8,4): the point reached is not a fixed point, a warning is required",
                     {"method": meth, "error_tol": 0, "max_iter": 20}, z, None)
        hcheck("optional", "fp:%s:verbose=0 never warns" % meth, False, cfp(T1, np.array([8.0, 4.0]), error_tol=1e-12, max_iter=3, verbose=0, method=meth)[2], {"method": meth, "verbose": 0})
        # boundaries and documented errors
        hcheck("boundary", "fp:%s:max_iter=1" % meth, ("ok", [8.0, 4.0] if meth == "imitation_game" else [5.0, 3.0], True),
               cfp(T1, np.array([8.0, 4.0]), error_tol=1e-3, max_iter=1, verbose=1, method=meth), {"method": meth, "max_iter": 1})
        hcheck("boundary", "fp:%s:start at the fixed point" % meth, ("ok", [2.0, 2.0], False), cfp(T1, np.array([2.0, 2.0]), error_tol=0.0, max_iter=5, verbose=1, method=meth), {"method": meth, "v": [2, 2]})
        hcheck("boundary", "fp:%s:size-1 array" % meth, ("ok", cs[1], cs[2]) if cs[0] == "ok" else cs, cfp(T1, np.array([8.0]), method=meth, **kw0), {"method": meth, "v": [8.0]})
        for bad_kw, lab in ((dict(max_iter=0), "max_iter=0"), (dict(verbose=3), "verbose=3"), (dict(max_iter=-1), "max_iter=-1")):
            hcheck("errors", "fp:%s:%s->ValueError" % (meth, lab), ("err", "ValueError"), cfp(T1, np.array([8.0, 4.0]), method=meth, **dict(dict(error_tol=1e-3, max_iter=50, verbose=0), **bad_kw)), {"method": meth, "bad": lab})
        # extra positional / keyword arguments are handed to T
        T3 = lambda v, c, scale=1.0: scale * np.asarray(v, dtype=float) + c
        hcheck("optional", "fp:%s:*args/**kwargs to T" % meth, canon1, cfp(T3, np.array([8.0, 4.0]), 1e-3, 50, 0, 5, meth, 1.0, scale=0.5), {"method": meth, "args": [1.0], "kwargs": {"scale": 0.5}})
        # interleaving and aliasing
        a1 = cfp(T1, np.array([8.0, 4.0]), method=meth, **kw0); cfp(T2, np.array([40.0, 9.0]), method=meth, **kw0)
        hcheck("seq", "fp:%s:A,B,A" % meth, a1, cfp(T1, np.array([8.0, 4.0]), method=meth, **kw0), {"method": meth})
        vin = np.array([8.0, 4.0]); r_ = compute_fixed_point(T1, vin, error_tol=1e-3, max_iter=50, verbose=0, method=meth)
        ctx.case(("harden", "alias", "fp", meth), nontrivial=True); ctx.count("alias:fp:%s" % meth)
        if meth == "imitation_game" and (not np.array_equal(vin, [8.0, 4.0]) or np.shares_memory(r_, vin)):
            ctx.fail("argument_mutated", "imitation_game changed its initial point or returns an alias of it", {"method": meth}, vin.tolist(), [8.0, 4.0])
        if meth == "iteration" and not np.array_equal(np.asarray(r_), vin):
            ctx.fail("result_aliased", "iteration method: the documented in-place update of v and the returned array disagree", {"method": meth}, None, None)
    hcheck("errors", "fp:method='bogus'->ValueError", ("err", "ValueError"), cfp(T1, np.array([8.0, 4.0]), method="bogus", **kw0), {"method": "bogus"})

    # ---------------- mclennan_tourky
    def mt(g_, **kw):
        try:
            r = mclennan_tourky(g_, **kw)
        except (ValueError, TypeError, NotImplementedError) as e:
            return ("err", type(e).__name__)
        except Exception as e:
            return ("exc", repr(e)[:200])
        if isinstance(r, tuple) and len(r) == 2 and hasattr(r[1], "converged"):
            return ("ok", [np.asarray(a, dtype=float).tolist() for a in r[0]], bool(r[1].converged), int(r[1].num_iter))
        return ("ok", [np.asarray(a, dtype=float).tolist() for a in r])
    arrA = np.zeros((2, 3, 2, 3))
    for pr in itertools.product(range(2), range(3), range(2)):
        for i_ in range(3):
            arrA[pr + (i_,)] = ((pr[0] * 7 + pr[1] * 5 + pr[2] * 3 + i_ * 11) % 13) - 6
    arrB = np.array([[[3.0, 3.0], [0.0, 0.0]], [[0.0, 0.0], [2.0, 2.0]]])     # 2x2 coordination game: pure equilibria
    gA, gB = NormalFormGame(arrA), NormalFormGame(arrB)
    snapA = [p_.payoff_array.copy() for p_ in gA.players]
    base = mt(gA, full_output=True)
    hcheck("optional", "mt:full_output=False", ("ok", base[1]), mt(gA), {"solver": "mclennan_tourky"})
    hcheck("optional", "mt:full_output omitted vs False", mt(gA), mt(gA, full_output=False), {"solver": "mclennan_tourky"})
    hcheck("optional", "mt:explicit defaults", base, mt(gA, init=(0, 0, 0), epsilon=1e-3, max_iter=200, full_output=True), {"solver": "mclennan_tourky"})
    hcheck("optional", "mt:init=None", base, mt(gA, init=None, full_output=True), {"solver": "mclennan_tourky"})
    for lab, cv in (("np.int64", np.int64), ("np.int32", np.int32), ("np.intp", np.intp), ("np.uint8", np.uint8)):
        hcheck("dress", "mt:max_iter=%s" % lab, base, mt(gA, max_iter=cv(200), full_output=True), {"solver": "mclennan_tourky", "max_iter": lab})
    hcheck("dress", "mt:epsilon=np.float32", mt(gA, epsilon=float(np.float32(0.25)), full_output=True), mt(gA, epsilon=np.float32(0.25), full_output=True), {"solver": "mclennan_tourky", "epsilon": "float32"})
    hcheck("dress", "mt:epsilon=int 1", mt(gA, epsilon=1.0, full_output=True), mt(gA, epsilon=1, full_output=True), {"solver": "mclennan_tourky", "epsilon": 1})
    hcheck("dress", "mt:payoffs int64 / float32 / nested list", base, mt(NormalFormGame(arrA.astype(np.int64)), full_output=True), {"solver": "mclennan_tourky", "payoffs": "int64"})
    hcheck("dress", "mt:payoffs float32", base, mt(NormalFormGame(arrA.astype(np.float32)), full_output=True), {"solver": "mclennan_tourky", "payoffs": "float32"})
    hcheck("dress", "mt:payoffs nested list", base, mt(NormalFormGame(arrA.tolist()), full_output=True), {"solver": "mclennan_tourky", "payoffs": "list"})
    hcheck("dress", "mt:init mixed as lists", mt(gA, init=(np.array([0.5, 0.5]), np.array([0.25, 0.25, 0.5]), np.array([1.0, 0.0])), full_output=True),
           mt(gA, init=([0.5, 0.5], [0.25, 0.25, 0.5], [1.0, 0.0]), full_output=True), {"solver": "mclennan_tourky", "init": "lists"})
    z = mt(gB, epsilon=0, full_output=True)          # falsy epsilon: convergence means an EXACT equilibrium
    ctx.case(("harden", "optional", "mt eps 0"), nontrivial=True); ctx.count("optional:mt:epsilon=0(falsy)")
    if z[0] != "ok" or (z[2] and max(max(gi) for gi in exact_deviation_gains(arrB, [2, 2], [[F(x) for x in a_] for a_ in z[1]])) > 0):
        ctx.fail("falsy_tolerance_replaced", "mclennan_tourky(epsilon=0) reports convergence at a profile that is not an exact equilibrium", {"solver": "mclennan_tourky", "epsilon": 0}, z, None)
    hcheck("boundary", "mt:max_iter=1", 1, (mt(gA, max_iter=1, full_output=True) + (None,) * 4)[3], {"solver": "mclennan_tourky", "max_iter": 1})
    hcheck("errors", "mt:init of wrong length->ValueError", ("err", "ValueError"), mt(gA, init=(0, 0)), {"solver": "mclennan_tourky", "init": [0, 0]})
    hcheck("errors", "mt:1-player game->NotImplementedError", ("err", "NotImplementedError"), mt(NormalFormGame([Player([1.0, 2.0])])), {"solver": "mclennan_tourky", "N": 1})
    hcheck("errors", "mt:not a game->TypeError", ("err", "TypeError"), mt(arrA), {"solver": "mclennan_tourky", "g": "ndarray"})
    hcheck("seq", "mt:A,B,A on live objects", base, (mt(gB, full_output=True), mt(gA, full_output=True))[1], {"solver": "mclennan_tourky"})
    hcheck("seq", "mt:reused object vs fresh object", base, mt(NormalFormGame(arrA.copy()), full_output=True), {"solver": "mclennan_tourky"})
    ini = (np.array([0.5, 0.5]), np.array([0.25, 0.25, 0.5]), np.array([1.0, 0.0])); ini0 = [a_.copy() for a_ in ini]
    n1, _r1 = mclennan_tourky(gA, init=ini, full_output=True); n2, _r2 = mclennan_tourky(gA, init=ini, full_output=True)
    ctx.case(("harden", "alias", "mt"), nontrivial=True); ctx.count("alias:mt:payoffs,init unchanged; results not aliased")
    if not all(np.array_equal(a_, b_) for a_, b_ in zip(ini, ini0)) or not all(np.array_equal(p_.payoff_array, s_) for p_, s_ in zip(gA.players, snapA)):
        ctx.fail("argument_mutated", "mclennan_tourky changed the game's payoff arrays or the initial profile", {"solver": "mclennan_tourky"}, None, None)
    if any(np.shares_memory(a_, b_) for a_ in n1 for b_ in n2) or any(np.shares_memory(a_, b_) for a_ in n1 for b_ in ini):
        ctx.fail("result_aliased", "mclennan_tourky results alias each other or the initial profile", {"solver": "mclennan_tourky"}, None, None)

    # ---------------- polym_lcp_solver
    def pl(pg_, *a, **kw):
        try:
            r = polym_lcp_solver(pg_, *a, **kw)
        except AssertionError:
            return ("err", "AssertionError")
        except Exception as e:
            return ("exc", repr(e)[:200])
        if isinstance(r, tuple) and len(r) == 2 and hasattr(r[1], "converged"):
            return ("ok", [np.asarray(a_, dtype=float).tolist() for a_ in r[0]], bool(r[1].converged), int(r[1].num_iter))
        return ("ok", [np.asarray(a_, dtype=float).tolist() for a_ in r])
    hn = [3, 2, 3]
    hpm = {(i_, j_): np.array([[float(((a_ * 7 + c_ * 5 + i_ * 3 + j_ * 11) % 17) - 8) + 0.125 * a_ - 0.0625 * c_ for c_ in range(hn[j_])] for a_ in range(hn[i_])])
           for i_ in range(3) for j_ in range(3) if i_ != j_}
    hsnap = {k_: v_.copy() for k_, v_ in hpm.items()}
    hpg = PolymatrixGame(hpm)
    base = pl(hpg, full_output=True)
    hcheck("optional", "polym:full_output=False", ("ok", base[1]), pl(hpg), {"solver": "polym_lcp_solver"})
    hcheck("optional", "polym:explicit defaults", base, pl(hpg, starting_player_actions=None, max_iter=-1, full_output=True), {"solver": "polym_lcp_solver"})
    hcheck("optional", "polym:start=zeros", base, pl(hpg, starting_player_actions=[0, 0, 0], full_output=True), {"solver": "polym_lcp_solver"})
    hcheck("optional", "polym:positional", base, pl(hpg, [0, 0, 0], 10000, True)[:3] + (base[3],) if base[0] == "ok" else base, {"solver": "polym_lcp_solver"})
    for lab, cv in (("np.int64", np.int64), ("np.int32", np.int32), ("np.intp", np.intp)):
        hcheck("dress", "polym:max_iter=%s" % lab, base, pl(hpg, max_iter=cv(10000), full_output=True), {"solver": "polym_lcp_solver", "max_iter": lab})
    hcheck("dress", "polym:payoffs nested lists", base, pl(PolymatrixGame({k_: v_.tolist() for k_, v_ in hpm.items()}), full_output=True), {"solver": "polym_lcp_solver", "payoffs": "list"})
    hcheck("dress", "polym:payoffs float32 (dyadic data)", base, pl(PolymatrixGame({k_: v_.astype(np.float32) for k_, v_ in hpm.items()}), full_output=True), {"solver": "polym_lcp_solver", "payoffs": "float32"})
    hcheck("dress", "polym:payoffs F-ordered / views", base, pl(PolymatrixGame({k_: np.asfortranarray(v_) for k_, v_ in hpm.items()}), full_output=True), {"solver": "polym_lcp_solver", "payoffs": "F"})
    hcheck("dress", "polym:nums_actions given", base, pl(PolymatrixGame(hpm, nums_actions=hn), full_output=True), {"solver": "polym_lcp_solver", "nums_actions": hn})
    hcheck("boundary", "polym:max_iter=0", (False, 0), (pl(hpg, max_iter=0, full_output=True) + (None,) * 4)[2:4], {"solver": "polym_lcp_solver", "max_iter": 0})
    hcheck("errors", "polym:invalid start->AssertionError", ("err", "AssertionError"), pl(hpg, starting_player_actions=[0, 5, 0]), {"solver": "polym_lcp_solver", "start": [0, 5, 0]})
    hcheck("errors", "polym:start of wrong length->AssertionError", ("err", "AssertionError"), pl(hpg, starting_player_actions=[0, 0]), {"solver": "polym_lcp_solver", "start": [0, 0]})
    other = PolymatrixGame({k_: -v_ for k_, v_ in hpm.items()})
    hcheck("seq", "polym:A,B,A on live objects", base, (pl(other, full_output=True), pl(hpg, full_output=True))[1], {"solver": "polym_lcp_solver"})
    hcheck("seq", "polym:reused object vs fresh object", base, pl(PolymatrixGame({k_: v_.copy() for k_, v_ in hpm.items()}), full_output=True), {"solver": "polym_lcp_solver"})
    p1_ = polym_lcp_solver(hpg); p2_ = polym_lcp_solver(hpg)
    ctx.case(("harden", "alias", "polym"), nontrivial=True); ctx.count("alias:polym:payoffs unchanged; results not aliased")
    if not all(np.array_equal(hpm[k_], hsnap[k_]) and np.array_equal(hpg.polymatrix[k_], hsnap[k_]) for k_ in hsnap):
        ctx.fail("argument_mutated", "polym_lcp_solver changed the polymatrix", {"solver": "polym_lcp_solver"}, None, None)
    if any(np.shares_memory(a_, b_) for a_ in p1_ for b_ in p2_):
        ctx.fail("result_aliased", "polym_lcp_solver results of successive calls alias each other", {"solver": "polym_lcp_solver"}, None, None)


def replay(data):
    first = data.get("first") or (data.get("mismatches") or [{}])[0]
    print("replay:", json.dumps(first)[:3000])
    inp = first.get("input", {})
    try:
        if inp.get("map") == "affine":
            A, b = inp["A"], inp["b"]
            T = lambda v: np.array([sum(A[i][j] * v[j] for j in range(len(b))) + b[i] for i in range(len(b))])
            out = run_fp(T, np.array(inp["v0"], dtype=float), inp["error_tol"], inp["max_iter"], inp["method"])
            v = np.array(out[1])
            print("implementation now:", out, "residual:", float(np.max(np.abs(T(v) - v))) if len(v) else None)
        elif inp.get("map") == "min(2x,1)":
            out = run_fp(lambda x: min(2.0 * x, 1.0), inp["v0"], inp["error_tol"], 50, "iteration")
            print("implementation now:", out, "residual:", abs(min(2 * out[1][0], 1.0) - out[1][0]))
        elif inp.get("solver") == "mclennan_tourky":
            from quantecon.game_theory import NormalFormGame, mclennan_tourky
            g = NormalFormGame(np.array(inp["payoffs"]))
            init = inp["init"]
            if init is not None:
                init = tuple(np.array(x) if isinstance(x, list) else x for x in init)
            NE, res = mclennan_tourky(g, init=init, epsilon=inp["epsilon"], max_iter=inp["max_iter"], full_output=True)
            print("implementation now:", [x.tolist() for x in NE], res.converged, "library is_nash(tol=eps):", g.is_nash(NE, tol=inp["epsilon"]))
        elif inp.get("solver") == "polym_lcp_solver":
            from quantecon.game_theory import PolymatrixGame, polym_lcp_solver
            pm = {tuple(int(t) for t in k.split(",")): np.array(v) for k, v in inp["polymatrix"].items()}
            pg = PolymatrixGame(pm)
            NE, res = polym_lcp_solver(pg, starting_player_actions=inp["start"], max_iter=inp.get("max_iter", 20000), full_output=True)
            print("implementation now:", [x.tolist() for x in NE], "converged:", res.converged,
                  "library is_nash:", pg.to_nfg().is_nash(NE))
    except Exception as e:
        print("implementation raised:", repr(e))
    return 0

From Coq Require Import ZArith QArith Qabs List Bool Arith Lia Lqa.
From QE Require Import Base.Num Base.Cases C09.Solve C09.Model C01.Model.
From QE Require Import C09.Proofs1 C09.Proofs2 C09.Proofs3 C09.Proofs4 C09.Proofs6.
Import ListNotations.

(* transition rows are sub-probability... exactly: non-negative, of length n, summing to 1; 0 <= beta < 1 *)
Record stoch (d : ddp Q) : Prop := {
  st_beta : 0 <= d_beta d < 1;
  st_len : forall j, (j < length (d_Q d))%nat -> length (getrow (d_Q d) j) = d_n d;
  st_nonneg : forall j, (j < length (d_Q d))%nat -> Forall (fun q => 0 <= q) (getrow (d_Q d) j);
  st_sum : forall j, (j < length (d_Q d))%nat -> sumQ (getrow (d_Q d) j) == 1 }.

Section Contraction.
Variable d : ddp Q.
Hypothesis Hok : ddp_ok d.
Hypothesis Hst : stoch d.
Local Notation n := (d_n d).
Local Notation beta := (d_beta d).

(* T v (s) - T w (s) <= beta c whenever v - w <= c pointwise *)
Lemma bellman_diff_le v w c : length v = n -> length w = n ->
  (forall i, (i < n)%nat -> nth i v 0 - nth i w 0 <= c) ->
  forall s, (s < n)%nat -> Tv_at d v s - Tv_at d w s <= beta * c.
Proof.
  intros Lv Lw H s Hs.
  destruct (bellman_is_max d v s Hok Hs) as (m & r & Hm & Rm & Ev & _ & _ & _).
  destruct (bellman_is_max d w s Hok Hs) as (_ & _ & _ & _ & _ & _ & Hmax & _).
  specialize (Hmax m Hm). rewrite Rm in Hmax. cbn in Hmax.
  pose proof (seg_in_Q d s m Hok Hs Hm) as HmQ.
  pose proof (dotS_diff_le c (getrow (d_Q d) m) v w (st_nonneg d Hst m HmQ)) as G.
  rewrite (st_len d Hst m HmQ) in G. specialize (G Lv Lw H). rewrite (st_sum d Hst m HmQ) in G.
  destruct (st_beta d Hst) as [Hb0 Hb1]. rewrite Ev. nra.
Qed.

Theorem bellman_monotone v w : length v = n -> length w = n ->
  (forall i, (i < n)%nat -> nth i v 0 <= nth i w 0) ->
  forall s, (s < n)%nat -> Tv_at d v s <= Tv_at d w s.
Proof.
  intros Lv Lw H s Hs.
  assert (G : Tv_at d v s - Tv_at d w s <= beta * 0).
  { apply bellman_diff_le; try assumption. intros i Hi. specialize (H i Hi). lra. }
  lra.
Qed.

(* sup-norm contraction with modulus beta: if |v - w| <= c pointwise then |Tv - Tw| <= beta c pointwise *)
Theorem bellman_contraction v w c : length v = n -> length w = n ->
  (forall i, (i < n)%nat -> Qabs (nth i v 0 - nth i w 0) <= c) ->
  forall s, (s < n)%nat -> Qabs (Tv_at d v s - Tv_at d w s) <= beta * c.
Proof.
  intros Lv Lw H s Hs. apply Qabs_Qle_condition. split.
  - assert (G : Tv_at d w s - Tv_at d v s <= beta * c).
    { apply bellman_diff_le; try assumption. intros i Hi. specialize (H i Hi).
      apply Qabs_Qle_condition in H. lra. }
    lra.
  - apply bellman_diff_le; try assumption. intros i Hi. specialize (H i Hi).
    apply Qabs_Qle_condition in H. lra.
Qed.

(* finite minimum *)
Lemma exists_min (f : nat -> Q) : forall k, (0 < k)%nat -> exists i, (i < k)%nat /\ forall j, (j < k)%nat -> f i <= f j.
Proof.
  induction k as [|k IH]; intro Hk; [lia|]. destruct k as [|k'].
  - exists 0%nat. split; [lia|]. intros j Hj. replace j with 0%nat by lia. lra.
  - destruct IH as (i & Hi & Hmin); [lia|]. destruct (Qlt_le_dec (f (S k')) (f i)) as [Hlt|Hge].
    + exists (S k'). split; [lia|]. intros j Hj. destruct (Nat.eq_dec j (S k')) as [->|Hne]; [lra|].
      specialize (Hmin j ltac:(lia)). lra.
    + exists i. split; [lia|]. intros j Hj. destruct (Nat.eq_dec j (S k')) as [->|Hne]; [lra|].
      apply Hmin. lia.
Qed.

(* the fixed point of T is unique *)
Theorem bellman_fixpoint_unique v w : length v = n -> length w = n ->
  (forall s, (s < n)%nat -> Tv_at d v s == nth s v 0) ->
  (forall s, (s < n)%nat -> Tv_at d w s == nth s w 0) ->
  forall s, (s < n)%nat -> nth s v 0 == nth s w 0.
Proof.
  intros Lv Lw Fv Fw s Hs.
  destruct (exists_min (fun i => - Qabs (nth i v 0 - nth i w 0)) n ltac:(lia)) as (i0 & Hi0 & Hmin).
  set (c := Qabs (nth i0 v 0 - nth i0 w 0)).
  assert (Hc : forall i, (i < n)%nat -> Qabs (nth i v 0 - nth i w 0) <= c).
  { intros i Hi. specialize (Hmin i Hi). cbn beta in Hmin. unfold c. lra. }
  pose proof (bellman_contraction v w c Lv Lw Hc i0 Hi0) as G.
  rewrite (Fv i0 Hi0), (Fw i0 Hi0) in G. fold c in G.
  destruct (st_beta d Hst) as [Hb0 Hb1].
  assert (c0 : 0 <= c) by apply Qabs_nonneg.
  assert (c <= 0) by nra.
  specialize (Hc s Hs). assert (Hz : Qabs (nth s v 0 - nth s w 0) <= 0) by lra.
  apply Qabs_Qle_condition in Hz. lra.
Qed.

(* the value of any stationary policy (a fixed point of its T_sigma) is below a fixed point of T *)
Theorem policy_value_le_fixpoint sigma Rs Qs vs vstar :
  RQ_sigma_fin d sigma = Some (Rs, Qs) ->
  length vs = n -> length vstar = n ->
  (forall s, (s < n)%nat -> nth s vs 0 == nth s (T_sigma_rq beta Rs Qs vs) 0) ->
  (forall s, (s < n)%nat -> Tv_at d vstar s == nth s vstar 0) ->
  forall s, (s < n)%nat -> nth s vs 0 <= nth s vstar 0.
Proof.
  intros HRQ Lvs Lst Fs Fstar.
  (* unpack RQ_sigma_fin *)
  unfold RQ_sigma_fin in HRQ. destruct (RQ_sigma d sigma) as [[Re Qs']|] eqn:ERQ; [|discriminate].
  destruct (fin_list Re) as [Rf|] eqn:EF; [|discriminate]. inversion HRQ; subst Rf Qs'. clear HRQ.
  destruct (RQ_sigma_rows d sigma Re Qs ERQ) as (idx & Eidx & -> & -> & _).
  destruct (sigma_indices_spec d sigma idx Eidx) as (Lidx & Lsig & Hidx).
  unfold fin_list in EF. destruct (sequence_spec 0 _ _ EF) as [LR HR]. rewrite !map_length in LR, HR.
  assert (Hpair : forall s, (s < n)%nat ->
            gete (d_R d) (getn idx s) = Fin (nth s Rs 0) /\ nth s (map (getrow (d_Q d)) idx) [] = getrow (d_Q d) (getn idx s)).
  { intros s Hs. split.
    - specialize (HR s ltac:(lia)).
      rewrite (nth_map_in _ _ _ NegInf) in HR by (rewrite map_length; lia).
      rewrite (nth_map_in _ _ _ 0%nat) in HR by lia. fold (getn idx s) in HR.
      destruct (gete (d_R d) (getn idx s)); [discriminate|]. inversion HR. reflexivity.
    - rewrite (nth_map_in _ _ _ 0%nat) by lia. reflexivity. }
  (* delta = vstar - vs, minimal at s0 *)
  intros s Hs.
  destruct (exists_min (fun i => nth i vstar 0 - nth i vs 0) n ltac:(lia)) as (s0 & Hs0 & Hmin).
  cbn beta in Hmin. set (mu := nth s0 vstar 0 - nth s0 vs 0) in *.
  destruct (Hidx s0 Hs0) as [Hseg _]. fold (seg_lo d s0) in Hseg. fold (seg_hi d s0) in Hseg.
  destruct (Hpair s0 Hs0) as [HRs HQs].
  destruct (bellman_is_max d vstar s0 Hok Hs0) as (_ & _ & _ & _ & _ & _ & Hmax & _).
  specialize (Hmax (getn idx s0) Hseg). rewrite HRs in Hmax. cbn in Hmax. rewrite (Fstar s0 Hs0) in Hmax.
  pose proof (Fs s0 Hs0) as Fs0. rewrite T_sigma_entry in Fs0 by (rewrite ?map_length; lia).
  rewrite HQs in Fs0.
  pose proof (seg_in_Q d s0 _ Hok Hs0 Hseg) as HjQ.
  pose proof (dotS_diff_le (- mu) (getrow (d_Q d) (getn idx s0)) vs vstar (st_nonneg d Hst _ HjQ)) as G.
  rewrite (st_len d Hst _ HjQ) in G. specialize (G Lvs Lst).
  assert (G' : dotS (getrow (d_Q d) (getn idx s0)) vs - dotS (getrow (d_Q d) (getn idx s0)) vstar <= - mu * 1).
  { rewrite <- (st_sum d Hst _ HjQ). apply G. intros i Hi. specialize (Hmin i Hi). lra. }
  destruct (st_beta d Hst) as [Hb0 Hb1].
  assert (Hmu : 0 <= mu) by (unfold mu in *; nra).
  specialize (Hmin s Hs). lra.
Qed.
End Contraction.

From Coq Require Import ZArith QArith Qabs List Bool Arith Lia Lqa.
From QE Require Import Base.Num Base.Cases C09.Solve C09.Model C01.Model C09.Proofs C01.Proofs1 C01.Proofs2 C01.Proofs3 C01.Proofs4.
Import ListNotations.

(* ---------- the affine map of one policy: rows non-negative, of length n, summing to 1 ---------- *)
Section Sigma.
Variables (n : nat) (beta : Q) (Rs : list Q) (Qs : list (list Q)).
Hypothesis Hb : 0 <= beta < 1.
Hypothesis LR : length Rs = n.
Hypothesis LQ : length Qs = n.
Hypothesis Hrow : forall i, (i < n)%nat ->
  length (nth i Qs []) = n /\ Forall (fun q => 0 <= q) (nth i Qs []) /\ sumQ (nth i Qs []) == 1.

Lemma Tsig_diff_le v w c : length v = n -> length w = n ->
  (forall i, (i < n)%nat -> nth i v 0 - nth i w 0 <= c) ->
  forall s, (s < n)%nat -> nth s (T_sigma_rq beta Rs Qs v) 0 - nth s (T_sigma_rq beta Rs Qs w) 0 <= beta * c.
Proof.
  intros Lv Lw H s Hs. rewrite !T_sigma_entry by lia. destruct (Hrow s Hs) as (Ln & Hnn & Hsum).
  pose proof (dotS_diff_le c (nth s Qs []) v w Hnn) as G. rewrite Ln in G. specialize (G Lv Lw H).
  rewrite Hsum in G. nra.
Qed.

Lemma Tsig_length v : length (T_sigma_rq beta Rs Qs v) = n.
Proof. unfold T_sigma_rq. rewrite map2_length. lia. Qed.

(* x <= T_sigma x  implies  x <= v_sigma *)
Lemma Tsig_sub_solution x vs : length x = n -> length vs = n ->
  (forall s, (s < n)%nat -> nth s vs 0 == nth s (T_sigma_rq beta Rs Qs vs) 0) ->
  (forall s, (s < n)%nat -> nth s x 0 <= nth s (T_sigma_rq beta Rs Qs x) 0) ->
  forall s, (s < n)%nat -> nth s x 0 <= nth s vs 0.
Proof.
  intros Lx Lv Fv Hx s Hs.
  destruct (exists_min (fun i => nth i vs 0 - nth i x 0) n ltac:(lia)) as (s0 & Hs0 & Hmin). cbn beta in Hmin.
  set (mu := nth s0 vs 0 - nth s0 x 0) in *.
  assert (G : nth s0 (T_sigma_rq beta Rs Qs x) 0 - nth s0 (T_sigma_rq beta Rs Qs vs) 0 <= beta * (- mu)).
  { apply Tsig_diff_le; try assumption. intros i Hi. specialize (Hmin i Hi). lra. }
  rewrite <- (Fv s0 Hs0) in G. specialize (Hx s0 Hs0).
  assert (0 <= mu) by (unfold mu in *; nra). specialize (Hmin s Hs). lra.
Qed.

Lemma Tsig_shift v c : length v = n -> forall s, (s < n)%nat ->
  nth s (T_sigma_rq beta Rs Qs (map (fun x => x + c) v)) 0 == nth s (T_sigma_rq beta Rs Qs v) 0 + beta * c.
Proof.
  intros Lv s Hs. set (w := map (fun x => x + c) v).
  assert (Lw : length w = n) by (unfold w; rewrite map_length; exact Lv).
  assert (Hw : forall i, (i < n)%nat -> nth i w 0 == nth i v 0 + c).
  { intros i Hi. unfold w. rewrite (nth_map_in _ _ _ 0) by lia. reflexivity. }
  assert (G1 : nth s (T_sigma_rq beta Rs Qs w) 0 - nth s (T_sigma_rq beta Rs Qs v) 0 <= beta * c).
  { apply Tsig_diff_le; try assumption. intros i Hi. rewrite (Hw i Hi). lra. }
  assert (G2 : nth s (T_sigma_rq beta Rs Qs v) 0 - nth s (T_sigma_rq beta Rs Qs w) 0 <= beta * (- c)).
  { apply Tsig_diff_le; try assumption. intros i Hi. rewrite (Hw i Hi). lra. }
  lra.
Qed.

(* if T_sigma v - v >= m pointwise then v_sigma >= v + m/(1-beta), and then v_sigma >= T_sigma v + beta m/(1-beta) *)
Lemma Tsig_lower_bound v vs m : length v = n -> length vs = n ->
  (forall s, (s < n)%nat -> nth s vs 0 == nth s (T_sigma_rq beta Rs Qs vs) 0) ->
  (forall s, (s < n)%nat -> m <= nth s (T_sigma_rq beta Rs Qs v) 0 - nth s v 0) ->
  forall s, (s < n)%nat -> nth s (T_sigma_rq beta Rs Qs v) 0 + beta * (m / (1 - beta)) <= nth s vs 0.
Proof.
  intros Lv Lvs Fv Hm s Hs.
  assert (Hcm : (1 - beta) * (m / (1 - beta)) == m) by (field; lra).
  set (c := m / (1 - beta)) in *. set (x := map (fun y => y + c) v).
  assert (Lx : length x = n) by (unfold x; rewrite map_length; exact Lv).
  assert (Hsub : forall i, (i < n)%nat -> nth i x 0 <= nth i (T_sigma_rq beta Rs Qs x) 0).
  { intros i Hi. unfold x at 1. rewrite (nth_map_in _ _ _ 0) by lia. unfold x. rewrite Tsig_shift by assumption.
    specialize (Hm i Hi). nra. }
  pose proof (Tsig_sub_solution x vs Lx Lvs Fv Hsub) as G.
  (* monotonicity: T_sigma x <= T_sigma vs = vs *)
  assert (M : nth s (T_sigma_rq beta Rs Qs x) 0 - nth s (T_sigma_rq beta Rs Qs vs) 0 <= beta * 0).
  { apply Tsig_diff_le; try assumption. intros i Hi. specialize (G i Hi). lra. }
  rewrite <- (Fv s Hs) in M. unfold x in M. rewrite Tsig_shift in M by assumption. lra.
Qed.
End Sigma.

(* RQ_sigma_fin of a well-formed stochastic ddp has such rows *)
Lemma RQ_rows_ok (d : ddp Q) sigma Rs Qs : ddp_ok d -> stoch d ->
  RQ_sigma_fin d sigma = Some (Rs, Qs) ->
  length Rs = d_n d /\ length Qs = d_n d /\
  forall i, (i < d_n d)%nat ->
    length (nth i Qs []) = d_n d /\ Forall (fun q => 0 <= q) (nth i Qs []) /\ sumQ (nth i Qs []) == 1.
Proof.
  intros Hok Hst HRQ. destruct (RQ_sigma_fin_spec d sigma Rs Qs HRQ) as (idx & Eidx & LR & LQ & Hpair).
  destruct (sigma_indices_spec d sigma idx Eidx) as (_ & _ & Hidx).
  split; [exact LR|]. split; [exact LQ|]. intros i Hi. destruct (Hpair i Hi) as [_ ->].
  destruct (Hidx i Hi) as [Hseg _]. pose proof (seg_in_Q d i _ Hok Hi Hseg) as HjQ.
  split; [apply (st_len d Hst); exact HjQ|]. split; [apply (st_nonneg d Hst); exact HjQ|apply (st_sum d Hst); exact HjQ].
Qed.

Lemma evaluate_policy_spec (d : ddp Q) sigma vs : ddp_ok d -> stoch d ->
  evaluate_policy d sigma = Some vs ->
  exists Rs Qs, RQ_sigma_fin d sigma = Some (Rs, Qs) /\ length vs = d_n d /\
    forall s, (s < d_n d)%nat -> nth s vs 0 == nth s (T_sigma_rq (d_beta d) Rs Qs vs) 0.
Proof.
  intros Hok Hst Hev.
  assert (HRQ : exists Rs Qs, RQ_sigma_fin d sigma = Some (Rs, Qs)).
  { unfold evaluate_policy in Hev. destruct (neqb (d_beta d) none_); [discriminate|].
    destruct (RQ_sigma_fin d sigma) as [[Rs Qs]|]; [eauto|discriminate]. }
  destruct HRQ as (Rs & Qs & HRQ). exists Rs, Qs. split; [exact HRQ|].
  destruct (RQ_rows_ok d sigma Rs Qs Hok Hst HRQ) as (LR & LQ & Hrow).
  assert (Hsq : forall i, (i < length Qs)%nat -> length (nth i Qs []) = length Qs).
  { intros i Hi. rewrite LQ in *. apply Hrow. exact Hi. }
  destruct (evaluate_policy_fixpoint d sigma Rs Qs vs HRQ Hsq Hev) as (Lv & _ & Hfix).
  split; [lia|]. intros s Hs. apply Hfix. lia.
Qed.

Section Policies.
Variable d : ddp Q.
Hypothesis Hok : ddp_ok d.
Hypothesis Hst : stoch d.
Hypothesis Hdis : ddp_distinct d.
Local Notation n := (d_n d).
Local Notation beta := (d_beta d).

(* value of the greedy policy of v from below: with m <= Tv - v pointwise, v_greedy >= Tv + beta m/(1-beta) *)
Lemma greedy_value_lower v vsig m : length v = n ->
  evaluate_policy d (compute_greedy d v) = Some vsig ->
  (forall s, (s < n)%nat -> m <= Tv_at d v s - nth s v 0) ->
  forall s, (s < n)%nat -> Tv_at d v s + beta * (m / (1 - beta)) <= nth s vsig 0.
Proof.
  intros Lv Hev Hm s Hs.
  destruct (evaluate_policy_spec d _ vsig Hok Hst Hev) as (Rs & Qs & HRQ & Lvs & Fv).
  destruct (RQ_rows_ok d _ Rs Qs Hok Hst HRQ) as (LR & LQ & Hrow).
  destruct (greedy_feasible_attains d Hok Hdis v v Lv Lv ltac:(intros i Hi; reflexivity)) as (Rs' & Qs' & HRQ' & Hatt).
  rewrite HRQ in HRQ'. inversion HRQ'; subst Rs' Qs'. clear HRQ'.
  assert (Hatt' : forall i, (i < n)%nat -> nth i (T_sigma_rq beta Rs Qs v) 0 == Tv_at d v i) by (intros i Hi; apply Hatt; exact Hi).
  pose proof (Tsig_lower_bound n beta Rs Qs (st_beta d Hst) LR LQ Hrow v vsig m Lv Lvs Fv) as G.
  rewrite <- (Hatt' s Hs). apply G; [|exact Hs]. intros i Hi. rewrite (Hatt' i Hi). apply Hm. exact Hi.
Qed.

Theorem vi_policy_eps_optimal v_init eps cap vstar vsig :
  0 < eps -> (forall v0, v_init = Some v0 -> length v0 = n) ->
  vi_stopped (value_iteration d v_init eps cap) = true ->
  length vstar = n -> (forall s, (s < n)%nat -> Tv_at d vstar s == nth s vstar 0) ->
  evaluate_policy d (vi_sigma (value_iteration d v_init eps cap)) = Some vsig ->
  forall s, (s < n)%nat ->
    Qabs (nth s (vi_v (value_iteration d v_init eps cap)) 0 - nth s vstar 0) < eps / 2 /\
    0 <= nth s vstar 0 - nth s vsig 0 <= eps.
Proof.
  intros Heps Hinit Hstop Ls Fs Hev s Hs.
  pose proof (vi_value_eps_half d Hok Hst v_init eps cap vstar Heps Hinit Hstop Ls Fs) as Hval.
  split; [apply Hval; exact Hs|].
  (* upper bound vsig <= vstar *)
  destruct (evaluate_policy_spec d _ vsig Hok Hst Hev) as (Rs & Qs & HRQ & Lvs & Fv).
  pose proof (policy_value_le_fixpoint d Hok Hst _ Rs Qs vsig vstar HRQ Lvs Ls Fv Fs s Hs) as Hup.
  split; [lra|].
  (* unpack the run *)
  unfold value_iteration in *.
  set (v0 := match v_init with Some v => v | None => R_max d end) in *.
  assert (Lv0 : length v0 = n).
  { unfold v0. destruct v_init as [x|]; [apply Hinit; reflexivity|apply R_max_length]. }
  destruct (op_iter (bellman_operator d) v0 cap (vi_tol eps beta) 0) as [[v k] st] eqn:E.
  cbn [vi_stopped vi_v vi_sigma] in *. subst st.
  apply op_iter_stopped in E. destruct E as (w & j & Ew & Ev & Hlt).
  assert (Lw : length w = n) by (rewrite Ew; apply iter_bellman_length; exact Lv0).
  assert (Lv : length v = n) by (rewrite Ev; apply bellman_length).
  set (D := sup_dist v w) in *.
  assert (HD : forall i, (i < n)%nat -> Qabs (nth i v 0 - nth i w 0) <= D) by (intros i Hi; apply sup_dist_ge; lia).
  assert (HTv : forall i, (i < n)%nat -> Qabs (Tv_at d v i - nth i v 0) <= beta * D).
  { intros i Hi. pose proof (bellman_contraction d Hok Hst v w D Lv Lw HD i Hi) as G.
    assert (Ei : Tv_at d w i = nth i v 0) by (unfold Tv_at; rewrite Ev; reflexivity). rewrite Ei in G. exact G. }
  destruct (st_beta d Hst) as [Hb0 Hb1].
  assert (D0 : 0 <= D) by (specialize (HD s Hs); pose proof (Qabs_nonneg (nth s v 0 - nth s w 0)); lra).
  assert (Hm : forall i, (i < n)%nat -> - (beta * D) <= Tv_at d v i - nth i v 0).
  { intros i Hi. specialize (HTv i Hi). apply Qabs_Qle_condition in HTv. lra. }
  pose proof (greedy_value_lower v vsig (- (beta * D)) Lv Hev Hm s Hs) as Glow.
  specialize (Hm s Hs). specialize (Hval s Hs). destruct Hval as [Hval Hval0].
  apply Qabs_Qlt_condition in Hval.
  assert (E1 : beta * (- (beta * D) / (1 - beta)) == - (beta * beta * D / (1 - beta))) by (field; lra).
  rewrite E1 in Glow.
  (* vstar - vsig <= (vstar - v) + (v - Tv) + beta^2 D/(1-beta) < eps/2 + beta D + beta^2 D/(1-beta) = eps/2 + beta D/(1-beta) *)
  assert (E2 : beta * D + beta * beta * D / (1 - beta) == beta * D / (1 - beta)) by (field; lra).
  assert (HbD : beta * D / (1 - beta) <= eps / 2).
  { destruct (Qlt_le_dec 0 beta) as [Hpos|Hz].
    - destruct (vi_tol_spec eps beta Hpos) as (t & Et & Ht). rewrite Et in Hlt. cbn [lt_tol nltb NumQ] in Hlt.
      apply Qltb_lt in Hlt. fold D in Hlt. rewrite Ht in Hlt.
      assert (X : beta * D < beta * (eps * (1 - beta) / (2 * beta))) by (apply Qmult_lt_l; assumption).
      assert (Y : beta * (eps * (1 - beta) / (2 * beta)) == eps / 2 * (1 - beta)) by (field; lra).
      rewrite Y in X. apply Qle_shift_div_r; [lra|]. lra.
    - assert (Hz0 : beta == 0) by lra. assert (Z0 : beta * D / (1 - beta) == 0) by (rewrite Hz0; field).
      rewrite Z0. assert (0 < eps / 2) by (apply Qlt_shift_div_l; lra). lra. }
  set (a := beta * beta * D / (1 - beta)) in *. set (b := beta * D / (1 - beta)) in *. set (e2 := eps / 2) in *.
  assert (Heps2 : e2 + e2 == eps) by (unfold e2; field).
  clearbody a b e2. lra.
Qed.

Theorem mpi_policy_eps_optimal v_init eps cap k vout sg it vstar vsig :
  0 < eps -> (forall v0, v_init = Some v0 -> length v0 = n) ->
  modified_policy_iteration d v_init eps cap k = Some (vout, sg, it, true) ->
  length vstar = n -> (forall s, (s < n)%nat -> Tv_at d vstar s == nth s vstar 0) ->
  evaluate_policy d sg = Some vsig ->
  forall s, (s < n)%nat ->
    Qabs (nth s vout 0 - nth s vstar 0) < eps / 2 /\ 0 <= nth s vstar 0 - nth s vsig 0 <= eps.
Proof.
  intros Heps Hinit Hrun Ls Fs Hev s Hs.
  split; [eapply (mpi_value_eps_half d Hok Hst); eauto|].
  destruct (evaluate_policy_spec d _ vsig Hok Hst Hev) as (Rs & Qs & HRQ & Lvs & Fv).
  pose proof (policy_value_le_fixpoint d Hok Hst _ Rs Qs vsig vstar HRQ Lvs Ls Fv Fs s Hs) as Hup.
  split; [lra|].
  unfold modified_policy_iteration in Hrun. apply (mpi_loop_stopped d) in Hrun.
  2:{ destruct v_init as [x|]; [apply Hinit; reflexivity|apply repeat_length]. }
  destruct Hrun as (v & Lv & Hlt & _ & ->).
  set (u := bellman_operator d v) in *. set (diff := vsub u v) in *.
  assert (Lu : length u = n) by apply bellman_length.
  assert (Ld : length diff = n) by (unfold diff, vsub; rewrite map2_length; lia).
  assert (Hdiff : forall i, (i < n)%nat -> nth i diff 0 == Tv_at d v i - nth i v 0).
  { intros i Hi. unfold diff, vsub. rewrite (nth_map2 _ 0 0 0) by lia. rewrite nsub_Q, Qsubr_eq. reflexivity. }
  set (m := lmin diff) in *. set (M := lmax diff) in *.
  assert (Hb : forall i, (i < n)%nat -> m <= Tv_at d v i - nth i v 0 <= M).
  { intros i Hi. rewrite <- (Hdiff i Hi). split; [apply lmin_le|apply lmax_ge]; lia. }
  pose proof (span_bounds d Hok Hst v vstar m M Lv Ls Fs Hb s Hs) as [_ B2].
  pose proof (greedy_value_lower v vsig m Lv Hev (fun i Hi => proj1 (Hb i Hi)) s Hs) as B1.
  destruct (st_beta d Hst) as [Hb0 Hb1].
  assert (Hspan : span diff == M - m) by (unfold span; rewrite nsub_Q, Qsubr_eq; reflexivity).
  assert (HmM : m <= M) by (specialize (Hb s Hs); lra).
  assert (Ediv1 : beta * (m / (1 - beta)) == m * beta / (1 - beta)) by (field; lra).
  assert (Ediv2 : beta * (M / (1 - beta)) == M * beta / (1 - beta)) by (field; lra).
  rewrite Ediv1 in B1. rewrite Ediv2 in B2.
  set (a := m * beta / (1 - beta)) in *. set (b := M * beta / (1 - beta)) in *.
  assert (Hba : b - a == (M - m) * beta / (1 - beta)) by (unfold a, b; field; lra).
  assert (Hlt' : b - a < eps).
  { destruct (Qlt_le_dec 0 beta) as [Hpos|Hz].
    - destruct (mpi_tol_spec eps beta Hpos) as (t & Et & Ht). rewrite Et in Hlt. cbn [lt_tol nltb NumQ] in Hlt.
      apply Qltb_lt in Hlt. rewrite Hspan, Ht in Hlt. rewrite Hba.
      assert (X : (M - m) * beta < eps * (1 - beta) / beta * beta) by (apply Qmult_lt_r; assumption).
      assert (Et2 : eps * (1 - beta) / beta * beta == eps * (1 - beta)) by (field; lra).
      rewrite Et2 in X. apply Qlt_shift_div_r; [lra|]. lra.
    - assert (beta == 0) by (apply Qle_antisym; assumption). rewrite Hba.
      assert ((M - m) * beta / (1 - beta) == 0) by (rewrite H; field). lra. }
  clearbody a b. lra.
Qed.
End Policies.

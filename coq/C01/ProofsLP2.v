(* C01 / lp_optimal, part 2: the linear-programming method of the DiscreteDP model returns the fixed point
   of the Bellman operator and a policy attaining it (tolerance 0; sa-pair formulation, finite rewards). *)
From Coq Require Import ZArith QArith Qabs List Bool Arith Lia Lqa Setoid Morphisms.
From QE Require Import Base.Num Base.Cases C09.Solve C09.Model C01.Model C01.ModelLP C09.Proofs C01.Proofs.
From QE Require Import Base.Pivot Base.PivotProofs C04.Model C04.Proofs C04.Proofs2 C04.Sep C04.ProofsSep C04.ProofsSep2.
From QE Require Import C01.ProofsLP1.
Import ListNotations.
Open Scope Q_scope.

Lemma listsum_sumQ : forall l : list Q, Proofs6.sumQ l == PivotProofs.sumQ (length l) (fun i => nth i l 0).
Proof.
  induction l as [|x l IH]; [reflexivity|]. cbn [Proofs6.sumQ length]. rewrite sumQ_S_front. cbn [nth]. rewrite IH. reflexivity.
Qed.
Lemma dotS_sumQ : forall (q v : list Q), length q = length v ->
  dotS q v == PivotProofs.sumQ (length v) (fun k => nth k q 0 * nth k v 0).
Proof.
  induction q as [|a q IH]; intros [|b v] HL; cbn [length] in HL; try discriminate; [reflexivity|].
  cbn [dotS length]. rewrite sumQ_S_front. cbn [nth]. rewrite IH by lia. reflexivity.
Qed.
Lemma Forall_nth_nonneg (l : list Q) i : Forall (fun q => 0 <= q) l -> 0 <= nth i l 0.
Proof. intro H. revert i. induction H; intros [|i]; cbn; try lra; auto. Qed.
Lemma fin_list_spec (l : list (ext Q)) Rf : fin_list l = Some Rf ->
  length Rf = length l /\ forall j, (j < length l)%nat -> nth j l NegInf = Fin (nth j Rf 0).
Proof.
  unfold fin_list. intro H. destruct (sequence_spec 0 _ _ H) as [L Hn]. rewrite map_length in L, Hn.
  split; [exact L|]. intros j Hj. specialize (Hn j Hj). rewrite (nth_map_in _ _ _ NegInf) in Hn by exact Hj.
  destruct (nth j l NegInf); [discriminate|]. inversion Hn. reflexivity.
Qed.
Lemma mone_Q : @mone Q NumQ == -1.
Proof. unfold mone. change (@nsub Q NumQ) with Qsubr. rewrite Qsubr_eq. reflexivity. Qed.

Section LPOpt.
Variable d : ddp Q.
Hypothesis Hok : ddp_ok d.
Hypothesis Hst : stoch d.
Hypothesis Hsa : d_prod d = None.
Local Notation n := (d_n d).
Local Notation beta := (d_beta d).

(* the linear-programming method (tolerance 0, any max_iter) that reports success returns v = T v and a
   policy whose pair in every state attains the maximum; hence v is the unique fixed point v* of T,
   it dominates the value of every stationary policy, and sigma is optimal *)
Theorem lp_optimal v_init max_iter k v sigma :
  linprog_simplex_ddp d v_init max_iter opts0 = Some (true, k, v, sigma) ->
  length v = n /\
  (forall s, (s < n)%nat -> Tv_at d v s == nth s v 0) /\
  (forall s, (s < n)%nat -> exists j r,
      (seg_lo d s <= j < seg_hi d s)%nat /\ getn (d_aidx d) j = nth s sigma 0%nat /\
      gete (d_R d) j = Fin r /\ nth s v 0 == r + beta * dotS (getrow (d_Q d) j) v) /\
  (forall w, length w = n -> (forall s, (s < n)%nat -> Tv_at d w s == nth s w 0) ->
     forall s, (s < n)%nat -> nth s w 0 == nth s v 0) /\
  (forall sigma' Rs' Qs' v', RQ_sigma_fin d sigma' = Some (Rs', Qs') -> length v' = n ->
     (forall s, (s < n)%nat -> nth s v' 0 == nth s (T_sigma_rq beta Rs' Qs' v') 0) ->
     forall s, (s < n)%nat -> nth s v' 0 <= nth s v 0).
Proof.
  unfold linprog_simplex_ddp, to_sa_pair_form. rewrite Hsa.
  destruct (fin_list (d_R d)) as [Rf|] eqn:ERf; [|discriminate].
  set (sg0 := compute_greedy d (match v_init with Some v0 => v0 | None => R_max d end)).
  destruct (sigma_indices d sg0) as [idx|] eqn:Eidx; [|discriminate].
  destruct (fin_list_spec _ _ ERf) as [LRf HRf].
  destruct (sigma_indices_spec d sg0 idx Eidx) as (Lidx & _ & Hidx0).
  set (Lp := length (d_Q d)).
  assert (LRf' : length Rf = Lp) by (rewrite LRf; apply (ok_len d Hok)).
  assert (Hseg : forall s, (s < n)%nat -> (getn (d_indptr d) s < getn (d_indptr d) (S s) <= Lp)%nat).
  { intros s Hs. pose proof (ok_seg d Hok s Hs) as H. unfold seg_lo, seg_hi in H. unfold Lp. rewrite <- (ok_len d Hok). exact H. }
  assert (Hq0 : forall j i, (j < Lp)%nat -> 0 <= Qe (d_Q d) j i).
  { intros j i Hj. unfold Qe. apply Forall_nth_nonneg. apply (st_nonneg d Hst j Hj). }
  assert (Hq1 : forall j, (j < Lp)%nat -> PivotProofs.sumQ n (Qe (d_Q d) j) == 1).
  { intros j Hj. rewrite <- (st_sum d Hst j Hj), listsum_sumQ. fold (getrow (d_Q d) j). rewrite (st_len d Hst j Hj). reflexivity. }
  assert (Hidx : forall i, (i < n)%nat -> inseg (d_indptr d) i (getn idx i) = true).
  { intros i Hi. destruct (Hidx0 i Hi) as [[A B] _]. unfold inseg. apply andb_true_intro. split; [apply Nat.leb_le; exact A|apply Nat.ltb_lt; exact B]. }
  assert (HinL : forall s0 j0, (s0 < n)%nat -> inseg (d_indptr d) s0 j0 = true -> (j0 < Lp)%nat).
  { intros s0 j0 Hs0 Hj0. unfold inseg in Hj0. apply andb_prop in Hj0. destruct Hj0 as [_ B0]. apply Nat.ltb_lt in B0.
    pose proof (Hseg s0 Hs0). lia. }
  unfold ddp_linprog_simplex. fold Lp. unfold solve_tableau.
  change (fold_left (fun tb i => pivoting tb (getn idx i) i) (seq 0 n) (lp_init_tableau n (d_indptr d) Rf (d_Q d) beta))
    with (tb1 n (d_indptr d) Rf (d_Q d) beta idx).
  destruct (solve_tableau_loop (max_iter - n) (tb1 n (d_indptr d) Rf (d_Q d) beta idx) idx true opts0 0)
    as [[[[T' B'] su] st] ni] eqn:Erun.
  intro H. inversion H; subst su k v sigma. clear H.
  destruct (lp_run_spec n Lp (d_indptr d) Rf (d_Q d) beta LRf' eq_refl (st_beta d Hst) Hseg Hq0 Hq1 idx Lidx Hidx
              _ _ _ _ _ _ Erun eq_refl) as (_ & Hge & Heq).
  set (v := map (fun i => nmul (get T' n (Lp + i)) mone) (seq 0 n)).
  assert (Lv : length v = n) by (unfold v; rewrite map_length, seq_length; reflexivity).
  assert (Hv : forall s, (s < n)%nat -> nth s v 0 == vdual n Lp T' s).
  { intros s Hs. unfold v. rewrite nth_map_lt with (d := 0%nat) by (rewrite seq_length; lia). rewrite seq_nth by lia.
    change (@nmul Q NumQ) with Qmulr. rewrite Qmulr_eq, mone_Q. unfold vdual. cbn [plus]. ring. }
  assert (Hpv : forall j, (j < Lp)%nat -> pairval n Lp Rf (d_Q d) beta T' j == nth j Rf 0 + beta * dotS (getrow (d_Q d) j) v).
  { intros j Hj. unfold pairval. rewrite dotS_sumQ by (rewrite (st_len d Hst j Hj), Lv; reflexivity). rewrite Lv.
    apply Qplus_comp; [reflexivity|]. apply Qmult_comp; [reflexivity|]. apply sumQ_ext. intros t Ht.
    rewrite <- (Hv t Ht). reflexivity. }
  assert (Hfix : forall s, (s < n)%nat -> Tv_at d v s == nth s v 0).
  { intros s Hs. destruct (bellman_is_max d v s Hok Hs) as (m & r & Hm & Rm & Ev & _ & Hmax & _).
    assert (HmL : (m < Lp)%nat) by (pose proof (Hseg s Hs); unfold seg_lo, seg_hi in Hm; lia).
    assert (Rm' : r = nth m Rf 0).
    { unfold gete in Rm. rewrite HRf in Rm by (rewrite <- LRf, LRf'; exact HmL). inversion Rm. reflexivity. }
    assert (Hins : inseg (d_indptr d) s m = true).
    { unfold inseg, seg_lo, seg_hi in *. apply andb_true_intro. split; [apply Nat.leb_le; lia|apply Nat.ltb_lt; lia]. }
    pose proof (Hge s m Hs Hins) as G1. rewrite (Hpv m HmL), <- Rm', <- Ev, <- (Hv s Hs) in G1.
    destruct (Heq s Hs) as [Hb E2]. set (b := nth s B' 0%nat) in *.
    assert (HbL : (b < Lp)%nat) by (eapply HinL; eauto).
    assert (Hbseg : (seg_lo d s <= b < seg_hi d s)%nat).
    { unfold inseg in Hb. apply andb_prop in Hb. destruct Hb as [A B]. apply Nat.leb_le in A. apply Nat.ltb_lt in B. unfold seg_lo, seg_hi. lia. }
    specialize (Hmax b Hbseg). unfold gete in Hmax. rewrite HRf in Hmax by (rewrite <- LRf, LRf'; exact HbL). cbn in Hmax.
    rewrite (Hpv b HbL), <- (Hv s Hs) in E2. lra. }
  split; [exact Lv|]. split; [exact Hfix|]. split; [|split].
  - intros s Hs. destruct (Heq s Hs) as [Hb E2]. set (b := nth s B' 0%nat) in *.
    assert (HbL : (b < Lp)%nat) by (eapply HinL; eauto).
    exists b, (nth b Rf 0). split; [|split; [|split]].
    + unfold inseg in Hb. apply andb_prop in Hb. destruct Hb as [A B]. apply Nat.leb_le in A. apply Nat.ltb_lt in B. unfold seg_lo, seg_hi. lia.
    + rewrite nth_map_lt with (d := 0%nat) by (rewrite seq_length; lia). rewrite seq_nth by lia. reflexivity.
    + unfold gete. apply HRf. rewrite <- LRf, LRf'. exact HbL.
    + change (nth s v 0 == nth b Rf 0 + beta * dotS (getrow (d_Q d) b) v). rewrite (Hv s Hs), E2. apply Hpv. exact HbL.
  - intros w Lw Hw s Hs. apply (bellman_fixpoint_unique d Hok Hst w v Lw Lv Hw Hfix s Hs).
  - intros sigma' Rs' Qs' v' HRQ Lv' Hf' s Hs.
    eapply (policy_value_le_fixpoint d Hok Hst sigma' Rs' Qs' v' v); eauto.
Qed.
End LPOpt.

(* ---------- tolerance irrelevance for the DDP linear programme (uses C04's separation check) ---------- *)
Definition lp_sep (d : ddp Q) (v_init : option (list Q)) (max_iter : nat) (o : @PivOptions Q) : bool :=
  let v0 := match v_init with Some v => v | None => R_max d end in
  let sigma := compute_greedy d v0 in
  match to_sa_pair_form d with
  | COk ds =>
      match fin_list (d_R ds), sigma_indices ds sigma with
      | Some Rf, Some idx =>
          let tb0 := lp_init_tableau (d_n ds) (d_indptr ds) Rf (d_Q ds) (d_beta ds) in
          let tb1 := fold_left (fun tb i => pivoting tb (getn idx i) i) (seq 0 (d_n ds)) tb0 in
          solve_tableau_sep (max_iter - d_n ds) tb1 idx true o
      | _, _ => true
      end
  | _ => true
  end.

Theorem lp_tolerance_irrelevant (d : ddp Q) v_init max_iter (o : @PivOptions Q) :
  0 <= fea_tol o -> 0 <= tol_piv o -> 0 <= tol_ratio_diff o ->
  lp_sep d v_init max_iter o = true ->
  linprog_simplex_ddp d v_init max_iter o = linprog_simplex_ddp d v_init max_iter opts0.
Proof.
  intros H1 H2 H3. unfold lp_sep, linprog_simplex_ddp. cbv zeta.
  destruct (to_sa_pair_form d) as [ds| | |]; try reflexivity.
  destruct (fin_list (d_R ds)) as [Rf|]; [|reflexivity].
  destruct (sigma_indices ds _) as [idx|]; [|reflexivity].
  intro Hsep. unfold ddp_linprog_simplex, solve_tableau. cbv zeta.
  rewrite (solve_tableau_sep_eq o true H1 H2 H3 _ _ _ 0%nat Hsep). reflexivity.
Qed.

(* ---------- all four methods agree with the unique fixed point ---------- *)
Theorem methods_agree (d : ddp Q) :
  ddp_ok d -> stoch d -> ddp_distinct d -> d_prod d = None ->
  forall vi_lp mi_lp k_lp v_lp s_lp,
  linprog_simplex_ddp d vi_lp mi_lp opts0 = Some (true, k_lp, v_lp, s_lp) ->
  (forall vi cap v sg k, policy_iteration d vi cap = Some (v, sg, k, true) ->
     forall s, (s < d_n d)%nat -> nth s v 0 == nth s v_lp 0) /\
  (forall vi eps cap, 0 < eps -> (forall v0, vi = Some v0 -> length v0 = d_n d) ->
     vi_stopped (value_iteration d vi eps cap) = true ->
     forall s, (s < d_n d)%nat -> Qabs (nth s (vi_v (value_iteration d vi eps cap)) 0 - nth s v_lp 0) < eps / 2) /\
  (forall vi eps cap kk v sg it, 0 < eps -> (forall v0, vi = Some v0 -> length v0 = d_n d) ->
     modified_policy_iteration d vi eps cap kk = Some (v, sg, it, true) ->
     forall s, (s < d_n d)%nat -> Qabs (nth s v 0 - nth s v_lp 0) < eps / 2).
Proof.
  intros Hok Hst Hdis Hsa vi_lp mi_lp k_lp v_lp s_lp Hlp.
  destruct (lp_optimal d Hok Hst Hsa _ _ _ _ _ Hlp) as (Lv & Hfix & _ & Huniq & _).
  split; [|split].
  - intros vi cap v sg k Hpi s Hs.
    destruct (pi_optimal d Hok Hst Hdis _ _ _ _ _ Hpi) as (Lpi & _ & _ & Hfpi & _ & _).
    apply (Huniq v Lpi Hfpi s Hs).
  - intros vi eps cap Heps Hinit Hstop s Hs.
    apply (vi_value_eps_half d Hok Hst vi eps cap v_lp Heps Hinit Hstop Lv Hfix s Hs).
  - intros vi eps cap kk v sg it Heps Hinit Hrun s Hs.
    apply (mpi_value_eps_half d Hok Hst vi eps cap kk v sg it v_lp Heps Hinit Hrun Lv Hfix s Hs).
Qed.

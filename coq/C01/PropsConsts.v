(* C01/C15: defaults read from /repo's current source satisfy the theorems' side conditions. *)
From Coq Require Import ZArith QArith Lia Lqa.
From QE Require Import Gen.Consts.
Open Scope Q_scope.

Theorem C01_defaults_admissible :
  0 < ddp_epsilon /\ (1 <= ddp_max_iter_z)%Z /\ (0 <= ddp_mpi_k_z)%Z /\
  0 < fp_error_tol /\ (1 <= fp_max_iter_z)%Z /\ 0 < player_tol.
Proof. vm_compute. repeat split; intro H; discriminate H. Qed.
Print Assumptions C01_defaults_admissible.

(* C01 model: DiscreteDP.value_iteration / policy_iteration /
   modified_policy_iteration (quantecon/markov/ddp.py), on top of the shared
   DiscreteDP model C09/Model.v.  Generic over Num; loops on explicit fuel
   (= max_iter); the code's tolerance expressions in source operation order.
   Executable definitions only. *)
From Coq Require Import ZArith QArith List Bool Arith PrimFloat.
From QE Require Import Base.Num Base.Cases C09.Solve C09.Model.
Import ListNotations.

Section S.
Context {T : Type} {NT : Num T}.

Definition nabs (x : T) : T := if nltb x nzero then nsub nzero x else x.
Definition nmax (a b : T) : T := if nltb a b then b else a.
Definition nmin (a b : T) : T := if nltb b a then b else a.
Definition lmax (l : list T) : T := match l with [] => nzero | x :: r => fold_left nmax r x end.
Definition lmin (l : list T) : T := match l with [] => nzero | x :: r => fold_left nmin r x end.
Definition vsub (a b : list T) : list T := map2 nsub a b.
(* np.abs(new_v - v).max() *)
Definition sup_dist (a b : list T) : T := lmax (map nabs (vsub a b)).
Definition two : T := nadd none_ none_.

(* a tolerance is None when the code's `except ZeroDivisionError: tol = np.inf` fires (beta == 0) *)
Definition lt_tol (x : T) (tol : option T) : bool :=
  match tol with None => true | Some t => nltb x t end.
(* tol = epsilon * (1 - beta) / (2 * beta) *)
Definition vi_tol (eps beta : T) : option T :=
  let den := nmul two beta in
  if neqb den nzero then None else Some (ndiv (nmul eps (nsub none_ beta)) den).
(* tol = epsilon * (1 - beta) / beta *)
Definition mpi_tol (eps beta : T) : option T :=
  if neqb beta nzero then None else Some (ndiv (nmul eps (nsub none_ beta)) beta).

(* operator_iteration(T, v, max_iter, tol): returns (v, num_iter, tolerance test fired) *)
Fixpoint op_iter (Tf : list T -> list T) (v : list T) (fuel : nat) (tol : option T) (cnt : nat)
  : list T * nat * bool :=
  match fuel with
  | O => (v, cnt, false)
  | S f => let nv := Tf v in
           if lt_tol (sup_dist nv v) tol then (nv, S cnt, true)
           else op_iter Tf nv f tol (S cnt)
  end.
(* operator_iteration with tol=None (python None: no test): k applications *)
Fixpoint iter_k (Tf : list T -> list T) (k : nat) (v : list T) : list T :=
  match k with O => v | S k' => iter_k Tf k' (Tf v) end.

Record vi_result := mkVI { vi_v : list T; vi_sigma : list nat; vi_num_iter : nat; vi_stopped : bool }.

(* value_iteration(v_init, epsilon, max_iter); vi_stopped = false means the cap was hit
   without the norm test firing (the code then still returns v, sigma, num_iter = max_iter) *)
Definition value_iteration (d : ddp T) (v_init : option (list T)) (eps : T) (max_iter : nat) : vi_result :=
  let tol := vi_tol eps (d_beta d) in
  let v0 := match v_init with Some v => v | None => R_max d end in
  let '(v, k, st) := op_iter (bellman_operator d) v0 max_iter tol 0 in
  mkVI v (compute_greedy d v) k st.

(* policy_iteration(v_init, max_iter).  None: evaluate_policy failed, or max_iter = 0
   (the code raises NameError).  Flag false: cap hit, returns the value of the previous
   policy together with the new greedy policy, as the code does. *)
Fixpoint pi_loop (d : ddp T) (sigma : list nat) (fuel cnt : nat) (last : option (list T))
  : option (list T * list nat * nat * bool) :=
  match fuel with
  | O => match last with None => None | Some v => Some (v, sigma, cnt, false) end
  | S f =>
      match evaluate_policy d sigma with
      | None => None
      | Some v =>
          let ns := compute_greedy d v in
          if nats_eqb ns sigma then Some (v, sigma, S cnt, true)
          else pi_loop d ns f (S cnt) (Some v)
      end
  end.
Definition policy_iteration (d : ddp T) (v_init : option (list T)) (max_iter : nat)
  : option (list T * list nat * nat * bool) :=
  let v0 := match v_init with Some v => v | None => R_max d end in
  pi_loop d (compute_greedy d v0) max_iter 0 None.

(* modified_policy_iteration(v_init, epsilon, max_iter, k) *)
Definition span (z : list T) : T := nsub (lmax z) (lmin z).
Definition midrange (z : list T) : T := ndiv (nadd (lmin z) (lmax z)) two.
Definition finite_R_min (d : ddp T) : T :=
  lmin (flat_map (fun e => match e with Fin x => [x] | NegInf => [] end) (d_R d)).

Fixpoint mpi_loop (d : ddp T) (v : list T) (sigma : list nat) (fuel cnt k : nat) (tol : option T)
  : option (list T * list nat * nat * bool) :=
  match fuel with
  | O => if (cnt =? 0)%nat then None (* max_iter = 0: the code raises NameError *) else Some (v, sigma, cnt, false)
  | S f =>
      let u := bellman_operator d v in
      let sg := compute_greedy d v in
      let diff := vsub u v in
      if lt_tol (span diff) tol then
        let c := ndiv (nmul (midrange diff) (d_beta d)) (nsub none_ (d_beta d)) in
        Some (map (fun x => nadd x c) u, sg, S cnt, true)
      else
        match RQ_sigma_fin d sg with
        | None => None
        | Some (Rs, Qs) =>
            mpi_loop d (iter_k (T_sigma_rq (d_beta d) Rs Qs) k u) sg f (S cnt) k tol
        end
  end.
Definition modified_policy_iteration (d : ddp T) (v_init : option (list T)) (eps : T) (max_iter k : nat)
  : option (list T * list nat * nat * bool) :=
  let v0 := match v_init with
            | Some v => v
            | None => repeat (ndiv (finite_R_min d) (nsub none_ (d_beta d))) (d_n d)
            end in
  mpi_loop d v0 [] max_iter 0 k (mpi_tol eps (d_beta d)).

End S.

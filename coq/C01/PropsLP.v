(* C01 property theorems about the linear-programming method (C01/ModelLP.v): statements only.
   Built on the tableau invariants of Base/PivotProofs.v and C04/Proofs*.v (solve_tableau_ind, tab_inv_pivot,
   pivoting_rhs_nonneg) and the separation check of C04/Sep.v.  Exact instance (Q), sa-pair formulation
   with finite rewards; spec notions as in C01/Props.v. *)
From Coq Require Import ZArith QArith Qabs List Bool Arith.
From QE Require Import Base.Num Base.Cases C09.Solve C09.Model C01.Model C01.ModelLP C09.Proofs C01.Proofs.
From QE Require Import Base.Pivot C04.Model C04.Proofs C04.ProofsSep2 C01.ProofsLP1 C01.ProofsLP2.
Import ListNotations.

(* the LP method (tolerance 0, any max_iter) that reports success (status 0) returns v with v = T v -- every pair
   satisfies v_s >= r + beta q.v, with equality on the basic pair of each state, which is the pair of the returned
   policy -- hence v is the unique fixed point v*, dominates every stationary policy's value, and sigma is optimal *)
Theorem C01_lp_optimal :
  forall d : ddp Q, ddp_ok d -> stoch d -> d_prod d = None ->
  forall v_init max_iter k v sigma,
  linprog_simplex_ddp d v_init max_iter opts0 = Some (true, k, v, sigma) ->
  length v = d_n d /\
  (forall s, (s < d_n d)%nat -> Tv_at d v s == nth s v 0) /\
  (forall s, (s < d_n d)%nat -> exists j r,
      (seg_lo d s <= j < seg_hi d s)%nat /\ getn (d_aidx d) j = nth s sigma 0%nat /\
      gete (d_R d) j = Fin r /\ nth s v 0 == r + d_beta d * dotS (getrow (d_Q d) j) v) /\
  (forall w, length w = d_n d -> (forall s, (s < d_n d)%nat -> Tv_at d w s == nth s w 0) ->
     forall s, (s < d_n d)%nat -> nth s w 0 == nth s v 0) /\
  (forall sigma' Rs' Qs' v', RQ_sigma_fin d sigma' = Some (Rs', Qs') -> length v' = d_n d ->
     (forall s, (s < d_n d)%nat -> nth s v' 0 == nth s (T_sigma_rq (d_beta d) Rs' Qs' v') 0) ->
     forall s, (s < d_n d)%nat -> nth s v' 0 <= nth s v 0).
Proof. exact lp_optimal. Qed.
Print Assumptions C01_lp_optimal.

(* with the tolerances of the current source (Gen/Consts.v), if the separation check succeeds along the run,
   the run IS the tolerance-0 run *)
Theorem C01_lp_tolerance_irrelevant :
  forall (d : ddp Q) v_init max_iter (o : @PivOptions Q),
  0 <= fea_tol o -> 0 <= tol_piv o -> 0 <= tol_ratio_diff o ->
  lp_sep d v_init max_iter o = true ->
  linprog_simplex_ddp d v_init max_iter o = linprog_simplex_ddp d v_init max_iter opts0.
Proof. exact lp_tolerance_irrelevant. Qed.
Print Assumptions C01_lp_tolerance_irrelevant.

(* all four methods agree with the unique fixed point: pi returns exactly the LP value, vi / mpi are within eps/2 of it *)
Theorem C01_methods_agree :
  forall d : ddp Q, ddp_ok d -> stoch d -> ddp_distinct d -> d_prod d = None ->
  forall vi_lp mi_lp k_lp v_lp s_lp,
  linprog_simplex_ddp d vi_lp mi_lp opts0 = Some (true, k_lp, v_lp, s_lp) ->
  (forall vi cap v sg k, policy_iteration d vi cap = Some (v, sg, k, true) ->
     forall s, (s < d_n d)%nat -> nth s v 0 == nth s v_lp 0) /\
  (forall vi eps cap, 0 < eps -> (forall v0, vi = Some v0 -> length v0 = d_n d) ->
     vi_stopped (value_iteration d vi eps cap) = true ->
     forall s, (s < d_n d)%nat -> Qabs (nth s (vi_v (value_iteration d vi eps cap)) 0 - nth s v_lp 0) < eps / 2) /\
  (forall vi eps cap kk v sg it, 0 < eps -> (forall v0, vi = Some v0 -> length v0 = d_n d) ->
     modified_policy_iteration d vi eps cap kk = Some (v, sg, it, true) ->
     forall s, (s < d_n d)%nat -> Qabs (nth s v 0 - nth s v_lp 0) < eps / 2).
Proof. exact methods_agree. Qed.
Print Assumptions C01_methods_agree.

(* ---- non-vacuity: Puterman's example (beta = 1/2) in sa-pair form ---- *)
Definition ex_lp : ddp Q :=
  mkDDP 2 [0;0;1]%nat [0;1;0]%nat [0;2;3]%nat [Fin 5; Fin 10; Fin (-1)] [[1#2;1#2]; [0;1]; [0;1]] (1#2) None.
Example ex_lp_constructed :
  mk_sa 2 [0;0;1]%nat [0;1;0]%nat [Fin 5; Fin 10; Fin (-1)] [[1#2;1#2]; [0;1]; [0;1]] (1#2) = COk ex_lp.
Proof. vm_compute. reflexivity. Qed.
Example ex_lp_ok : ddp_ok ex_lp.
Proof. exact (proj1 (mk_sa_ok _ _ _ _ _ _ _ ex_lp_constructed)). Qed.
Example ex_lp_stoch : stoch ex_lp.
Proof.
  constructor.
  - cbn. split; [discriminate|reflexivity].
  - intros j Hj. do 3 (destruct j as [|j]; [reflexivity|]). cbn in Hj. inversion Hj as [|? H1]; inversion H1 as [|? H2]; inversion H2 as [|? H3]; inversion H3.
  - intros j Hj. do 3 (destruct j as [|j]; [cbn; repeat constructor; discriminate|]). cbn in Hj. inversion Hj as [|? H1]; inversion H1 as [|? H2]; inversion H2 as [|? H3]; inversion H3.
  - intros j Hj. do 3 (destruct j as [|j]; [reflexivity|]). cbn in Hj. inversion Hj as [|? H1]; inversion H1 as [|? H2]; inversion H2 as [|? H3]; inversion H3.
Qed.
Example ex_lp_runs :
  linprog_simplex_ddp ex_lp None 500 opts0 = Some (true, 3%nat, [9; -2], [1; 0]%nat) /\
  lp_sep ex_lp None 500 opts_src = true /\
  policy_iteration ex_lp None 250 = Some ([9; -2], [1; 0]%nat, 1%nat, true).
Proof. vm_compute. repeat split. Qed.

(* C01 property theorems: statements only, each closed by `exact`, with Print Assumptions.
   Models: C09/Model.v (DiscreteDP) + C01/Model.v (vi / pi / mpi).  Spec-level notions: ddp_ok, Tv_at,
   dotS (C09/Proofs2.v); stoch, sumQ (C01/Proofs1.v); ddp_distinct (C01/Proofs2.v).
   All theorems are about the exact (Q) instance of the model. *)
From Coq Require Import ZArith QArith Qabs List Bool Arith Lia Lqa.
From QE Require Import Base.Num Base.Cases C09.Solve C09.Model C09.Proofs C01.Model C01.Proofs.
Import ListNotations.

Theorem C01_bellman_monotone :
  forall d : ddp Q, ddp_ok d -> stoch d ->
  forall v w, length v = d_n d -> length w = d_n d ->
  (forall i, (i < d_n d)%nat -> nth i v 0 <= nth i w 0) ->
  forall s, (s < d_n d)%nat -> Tv_at d v s <= Tv_at d w s.
Proof. exact bellman_monotone. Qed.
Print Assumptions C01_bellman_monotone.

(* sup-norm contraction with modulus beta *)
Theorem C01_bellman_contraction :
  forall d : ddp Q, ddp_ok d -> stoch d ->
  forall v w c, length v = d_n d -> length w = d_n d ->
  (forall i, (i < d_n d)%nat -> Qabs (nth i v 0 - nth i w 0) <= c) ->
  forall s, (s < d_n d)%nat -> Qabs (Tv_at d v s - Tv_at d w s) <= d_beta d * c.
Proof. exact bellman_contraction. Qed.
Print Assumptions C01_bellman_contraction.

Theorem C01_bellman_fixpoint_unique :
  forall d : ddp Q, ddp_ok d -> stoch d ->
  forall v w, length v = d_n d -> length w = d_n d ->
  (forall s, (s < d_n d)%nat -> Tv_at d v s == nth s v 0) ->
  (forall s, (s < d_n d)%nat -> Tv_at d w s == nth s w 0) ->
  forall s, (s < d_n d)%nat -> nth s v 0 == nth s w 0.
Proof. exact bellman_fixpoint_unique. Qed.
Print Assumptions C01_bellman_fixpoint_unique.

(* the value of every stationary policy lies below a fixed point of T *)
Theorem C01_policy_value_le_fixpoint :
  forall d : ddp Q, ddp_ok d -> stoch d ->
  forall sigma Rs Qs vs vstar,
  RQ_sigma_fin d sigma = Some (Rs, Qs) ->
  length vs = d_n d -> length vstar = d_n d ->
  (forall s, (s < d_n d)%nat -> nth s vs 0 == nth s (T_sigma_rq (d_beta d) Rs Qs vs) 0) ->
  (forall s, (s < d_n d)%nat -> Tv_at d vstar s == nth s vstar 0) ->
  forall s, (s < d_n d)%nat -> nth s vs 0 <= nth s vstar 0.
Proof. exact policy_value_le_fixpoint. Qed.
Print Assumptions C01_policy_value_le_fixpoint.

(* policy iteration that stops before the cap: v = T_sigma v = T v, the unique fixed point,
   dominating the value of every stationary policy *)
Theorem C01_pi_optimal :
  forall d : ddp Q, ddp_ok d -> stoch d -> ddp_distinct d ->
  forall v_init cap v sigma k,
  policy_iteration d v_init cap = Some (v, sigma, k, true) ->
  length v = d_n d /\
  evaluate_policy d sigma = Some v /\
  compute_greedy d v = sigma /\
  (forall s, (s < d_n d)%nat -> Tv_at d v s == nth s v 0) /\
  (forall sigma' Rs' Qs' v', RQ_sigma_fin d sigma' = Some (Rs', Qs') -> length v' = d_n d ->
     (forall s, (s < d_n d)%nat -> nth s v' 0 == nth s (T_sigma_rq (d_beta d) Rs' Qs' v') 0) ->
     forall s, (s < d_n d)%nat -> nth s v' 0 <= nth s v 0) /\
  (forall w, length w = d_n d -> (forall s, (s < d_n d)%nat -> Tv_at d w s == nth s w 0) ->
     forall s, (s < d_n d)%nat -> nth s w 0 == nth s v 0).
Proof. exact pi_optimal. Qed.
Print Assumptions C01_pi_optimal.

(* value iteration that stops on its norm test (with the code's tolerance eps(1-beta)/(2 beta), inf for beta = 0) *)
Theorem C01_vi_eps_optimal_partial :
  forall d : ddp Q, ddp_ok d -> stoch d ->
  forall v_init eps cap vstar,
  0 < eps ->
  (forall v0, v_init = Some v0 -> length v0 = d_n d) ->
  vi_stopped (value_iteration d v_init eps cap) = true ->
  length vstar = d_n d -> (forall s, (s < d_n d)%nat -> Tv_at d vstar s == nth s vstar 0) ->
  forall s, (s < d_n d)%nat ->
    Qabs (nth s (vi_v (value_iteration d v_init eps cap)) 0 - nth s vstar 0) < eps / 2 /\
    (d_beta d == 0 -> nth s (vi_v (value_iteration d v_init eps cap)) 0 == nth s vstar 0).
Proof. exact vi_value_eps_half. Qed.
Print Assumptions C01_vi_eps_optimal_partial.

(* full statement: the value is within eps/2 of v* and the returned greedy policy is eps-optimal
   (its exact value vsig satisfies 0 <= v* - vsig <= eps in every state) *)
Definition C01_vi_eps_optimal_full : Prop :=
  forall d : ddp Q, ddp_ok d -> stoch d -> ddp_distinct d ->
  forall v_init eps cap vstar vsig,
  0 < eps -> (forall v0, v_init = Some v0 -> length v0 = d_n d) ->
  vi_stopped (value_iteration d v_init eps cap) = true ->
  length vstar = d_n d -> (forall s, (s < d_n d)%nat -> Tv_at d vstar s == nth s vstar 0) ->
  evaluate_policy d (vi_sigma (value_iteration d v_init eps cap)) = Some vsig ->
  forall s, (s < d_n d)%nat ->
    Qabs (nth s (vi_v (value_iteration d v_init eps cap)) 0 - nth s vstar 0) < eps / 2 /\
    0 <= nth s vstar 0 - nth s vsig 0 <= eps.
Theorem C01_vi_eps_optimal : C01_vi_eps_optimal_full.
Proof. exact vi_policy_eps_optimal. Qed.
Print Assumptions C01_vi_eps_optimal.

(* modified policy iteration that stops on its span test (tolerance eps(1-beta)/beta, inf for beta = 0),
   with the midrange correction: |v - v*| < eps/2 *)
Theorem C01_mpi_eps_optimal_partial :
  forall d : ddp Q, ddp_ok d -> stoch d ->
  forall v_init eps cap k vout sg it vstar,
  0 < eps ->
  (forall v0, v_init = Some v0 -> length v0 = d_n d) ->
  modified_policy_iteration d v_init eps cap k = Some (vout, sg, it, true) ->
  length vstar = d_n d -> (forall s, (s < d_n d)%nat -> Tv_at d vstar s == nth s vstar 0) ->
  forall s, (s < d_n d)%nat -> Qabs (nth s vout 0 - nth s vstar 0) < eps / 2.
Proof. exact mpi_value_eps_half. Qed.
Print Assumptions C01_mpi_eps_optimal_partial.

Definition C01_mpi_eps_optimal_full : Prop :=
  forall d : ddp Q, ddp_ok d -> stoch d -> ddp_distinct d ->
  forall v_init eps cap k v sigma it vstar vsig,
  0 < eps -> (forall v0, v_init = Some v0 -> length v0 = d_n d) ->
  modified_policy_iteration d v_init eps cap k = Some (v, sigma, it, true) ->
  length vstar = d_n d -> (forall s, (s < d_n d)%nat -> Tv_at d vstar s == nth s vstar 0) ->
  evaluate_policy d sigma = Some vsig ->
  forall s, (s < d_n d)%nat ->
    Qabs (nth s v 0 - nth s vstar 0) < eps / 2 /\ 0 <= nth s vstar 0 - nth s vsig 0 <= eps.
Theorem C01_mpi_eps_optimal : C01_mpi_eps_optimal_full.
Proof. exact mpi_policy_eps_optimal. Qed.
Print Assumptions C01_mpi_eps_optimal.

(* ---- hypotheses are satisfiable: Puterman's example with a duplicated (tied) action and a -inf pair ---- *)
Definition ex_d : ddp Q :=
  mkDDP 2 [0;0;0;1;1]%nat [0;1;2;0;1]%nat [0;3;5]%nat
        [Fin 5; Fin 10; Fin 10; Fin (-1); NegInf]
        [[1#2;1#2]; [0;1]; [0;1]; [0;1]; [1;0]] (1#2) None.
Example ex_d_ok : ddp_ok ex_d.
Proof.
  constructor.
  - reflexivity.
  - intros s Hs. destruct s as [|[|s]]; cbn in *; lia.
  - intros s Hs. destruct s as [|[|s]]; [exists 0%nat, 5|exists 3%nat, (-1)|cbn in Hs; lia]; cbn; (split; [lia|reflexivity]).
Qed.
Example ex_d_stoch : stoch ex_d.
Proof.
  constructor.
  - cbn. lra.
  - intros j Hj. do 5 (destruct j as [|j]; [reflexivity|]). cbn in Hj. lia.
  - intros j Hj. do 5 (destruct j as [|j]; [cbn; repeat constructor; lra|]). cbn in Hj. lia.
  - intros j Hj. do 5 (destruct j as [|j]; [cbn; lra|]). cbn in Hj. lia.
Qed.
Example ex_d_distinct : ddp_distinct ex_d.
Proof.
  intros s i j Hs Hi Hj. destruct s as [|[|s]]; cbn in *; [| |lia].
  - do 3 (destruct i as [|i]; [do 3 (destruct j as [|j]; [cbn; intro; (reflexivity || discriminate)|]); lia|]). lia.
  - do 3 (destruct i as [|i]; [lia|]). do 2 (destruct i as [|i]; [do 3 (destruct j as [|j]; [lia|]); do 2 (destruct j as [|j]; [cbn; intro; (reflexivity || discriminate)|]); lia|]). lia.
Qed.
Example ex_d_pi :
  policy_iteration ex_d (Some [0;100]) 250 = Some ([9; -2], [1;0]%nat, 1%nat, true).
Proof. vm_compute. reflexivity. Qed.
Example ex_d_mpi_stops :
  exists v sg it, modified_policy_iteration ex_d None (1#10) 250 20 = Some (v, sg, it, true).
Proof. vm_compute. eexists _, _, _. reflexivity. Qed.
Example ex_d_vi_policy_value :
  evaluate_policy ex_d (vi_sigma (value_iteration ex_d None (1#10) 250)) = Some [9; -2].
Proof. vm_compute. reflexivity. Qed.
Example ex_d_vi_stops :
  vi_stopped (value_iteration ex_d None (1#10) 250) = true.
Proof. vm_compute. reflexivity. Qed.

(* C01 property theorems: statements only, each closed by `exact`, with Print Assumptions. *)
From Coq Require Import ZArith QArith List Bool Arith.
From QE Require Import Base.Num Base.Cases C09.Solve C09.Model C01.Model C01.Proofs.
Import ListNotations.
Theorem C01_placeholder : True. Proof. exact placeholder. Qed.
Print Assumptions C01_placeholder.

From Coq Require Import ZArith QArith Qabs List Bool Arith Lia Lqa.
From QE Require Import Base.Num Base.Cases C09.Solve C09.Model C01.Model.
From QE Require Import C09.Proofs1 C09.Proofs2 C09.Proofs3 C09.Proofs4 C09.Proofs6 C01.Proofs1 C01.Proofs2.
Import ListNotations.

(* ---------- sup_dist dominates every coordinate difference ---------- *)
Lemma nmax_ge_l (a b : Q) : a <= nmax a b.
Proof. unfold nmax. destruct (nltb a b) eqn:E; [|lra]. cbn [nltb NumQ] in E. apply Qltb_lt in E. lra. Qed.
Lemma nmax_ge_r (a b : Q) : b <= nmax a b.
Proof. unfold nmax. destruct (nltb a b) eqn:E; [lra|]. cbn [nltb NumQ] in E. apply Qltb_false in E. lra. Qed.
Lemma fold_nmax_ge : forall (r : list Q) x, x <= fold_left nmax r x /\ forall i, (i < length r)%nat -> nth i r 0 <= fold_left nmax r x.
Proof.
  induction r as [|y r IH]; intro x; cbn [fold_left length].
  - split; [lra|]. intros i Hi. lia.
  - destruct (IH (nmax x y)) as [H1 H2]. split.
    + pose proof (nmax_ge_l x y). lra.
    + intros i Hi. destruct i; [cbn [nth]; pose proof (nmax_ge_r x y); lra|]. cbn [nth]. apply H2. lia.
Qed.
Lemma lmax_ge (l : list Q) i : (i < length l)%nat -> nth i l 0 <= lmax l.
Proof.
  destruct l as [|x r]; cbn [length lmax]; [lia|]. intro Hi. destruct (fold_nmax_ge r x) as [H1 H2].
  destruct i; [exact H1|]. cbn [nth]. apply H2. lia.
Qed.
Lemma nabs_Q (x : Q) : nabs x == Qabs x.
Proof.
  unfold nabs. destruct (nltb x nzero) eqn:E; cbn [nltb NumQ nzero] in E.
  - apply Qltb_lt in E. rewrite nsub_Q, Qsubr_eq, nzero_Q. rewrite Qabs_neg by lra. lra.
  - apply Qltb_false in E. rewrite Qabs_pos by lra. reflexivity.
Qed.
Lemma sup_dist_ge (a b : list Q) i : (i < length a)%nat -> (i < length b)%nat ->
  Qabs (nth i a 0 - nth i b 0) <= sup_dist a b.
Proof.
  intros Ha Hb. unfold sup_dist, vsub.
  assert (L : (i < length (map nabs (map2 nsub a b)))%nat) by (rewrite map_length, map2_length; lia).
  pose proof (lmax_ge _ i L) as G.
  rewrite (nth_map_in nabs _ _ 0 0) in G by (rewrite map2_length; lia).
  rewrite (nth_map2 _ 0 0 0) in G by assumption.
  rewrite nabs_Q, nsub_Q in G. rewrite Qsubr_eq in G. exact G.
Qed.

Lemma iter_shift {A} (f : A -> A) : forall j x, Nat.iter j f (f x) = Nat.iter (S j) f x.
Proof. induction j; intro x; [reflexivity|]. change (f (Nat.iter j f (f x)) = f (Nat.iter (S j) f x)). rewrite IHj. reflexivity. Qed.

Lemma op_iter_stopped (Tf : list Q -> list Q) tol : forall fuel v cnt nv k,
  op_iter Tf v fuel tol cnt = (nv, k, true) ->
  exists w j, w = Nat.iter j Tf v /\ nv = Tf w /\ lt_tol (sup_dist nv w) tol = true.
Proof.
  induction fuel as [|f IH]; intros v cnt nv k H; cbn [op_iter] in H; [inversion H|].
  destruct (lt_tol (sup_dist (Tf v) v) tol) eqn:E.
  - inversion H; subst. exists v, 0%nat. repeat split; auto.
  - apply IH in H. destruct H as (w & j & -> & -> & Hlt). exists (Nat.iter j Tf (Tf v)), (S j).
    split; [apply iter_shift|split; [reflexivity|exact Hlt]].
Qed.

Lemma vi_tol_spec (eps beta : Q) : 0 < beta ->
  exists t, vi_tol eps beta = Some t /\ t == eps * (1 - beta) / (2 * beta).
Proof.
  intro Hb. unfold vi_tol, two.
  change (@nadd Q NumQ) with Qaddr. change (@nmul Q NumQ) with Qmulr. change (@nsub Q NumQ) with Qsubr.
  change (@ndiv Q NumQ) with Qdivr. change (@none_ Q NumQ) with 1. change (@nzero Q NumQ) with 0.
  change (@neqb Q NumQ) with Qeq_bool.
  destruct (Qeq_bool (Qmulr (Qaddr 1 1) beta) 0) eqn:E.
  - apply Qeq_bool_iff in E. rewrite Qmulr_eq, Qaddr_eq in E. lra.
  - eexists. split; [reflexivity|].
    rewrite Qdivr_eq, !Qmulr_eq, Qsubr_eq, Qaddr_eq. assert (H : 1 + 1 == 2) by lra. rewrite H. reflexivity.
Qed.

Section VI.
Variable d : ddp Q.
Hypothesis Hok : ddp_ok d.
Hypothesis Hst : stoch d.
Local Notation n := (d_n d).
Local Notation beta := (d_beta d).

Lemma iter_bellman_length j v : length v = n -> length (Nat.iter j (bellman_operator d) v) = n.
Proof. intro H. destruct j; cbn; [exact H|apply bellman_length]. Qed.

Lemma R_max_length : length (R_max d) = n.
Proof. unfold R_max, s_wise_max, s_wise_max_argmax. rewrite !map_length, seq_length. reflexivity. Qed.

(* value iteration that stops on its norm test returns v with |v - v*| < eps/2 (sup norm) for the
   fixed point v* of T; with beta = 0 (tolerance inf) it returns v* itself *)
Theorem vi_value_eps_half v_init eps cap vstar :
  0 < eps ->
  (forall v0, v_init = Some v0 -> length v0 = n) ->
  vi_stopped (value_iteration d v_init eps cap) = true ->
  length vstar = n -> (forall s, (s < n)%nat -> Tv_at d vstar s == nth s vstar 0) ->
  forall s, (s < n)%nat ->
    Qabs (nth s (vi_v (value_iteration d v_init eps cap)) 0 - nth s vstar 0) < eps / 2 /\
    (beta == 0 -> nth s (vi_v (value_iteration d v_init eps cap)) 0 == nth s vstar 0).
Proof.
  intros Heps Hinit Hstop Lst Fst.
  unfold value_iteration in *.
  set (v0 := match v_init with Some v => v | None => R_max d end) in *.
  assert (Lv0 : length v0 = n).
  { unfold v0. destruct v_init as [x|]; [apply Hinit; reflexivity|apply R_max_length]. }
  destruct (op_iter (bellman_operator d) v0 cap (vi_tol eps beta) 0) as [[v k] st] eqn:E.
  cbn [vi_stopped vi_v] in *. subst st.
  apply op_iter_stopped in E. destruct E as (w & j & Ew & Ev & Hlt).
  assert (Lw : length w = n) by (rewrite Ew; apply iter_bellman_length; exact Lv0).
  assert (Lv : length v = n) by (rewrite Ev; apply bellman_length).
  (* c = max_i |v_i - vstar_i| *)
  destruct (st_beta d Hst) as [Hb0 Hb1].
  assert (Hn : forall s, (s < n)%nat -> exists i0, (i0 < n)%nat /\
             forall i, (i < n)%nat -> Qabs (nth i v 0 - nth i vstar 0) <= Qabs (nth i0 v 0 - nth i0 vstar 0)).
  { intros s Hs. destruct (exists_min (fun i => - Qabs (nth i v 0 - nth i vstar 0)) n ltac:(lia)) as (i0 & Hi0 & Hmin).
    exists i0. split; [exact Hi0|]. intros i Hi. specialize (Hmin i Hi). cbn beta in Hmin. lra. }
  intros s Hs. destruct (Hn s Hs) as (i0 & Hi0 & Hmax).
  set (c := Qabs (nth i0 v 0 - nth i0 vstar 0)) in *.
  set (D := sup_dist v w) in *.
  assert (HD : forall i, (i < n)%nat -> Qabs (nth i v 0 - nth i w 0) <= D).
  { intros i Hi. apply sup_dist_ge; lia. }
  assert (Hw : forall i, (i < n)%nat -> Qabs (nth i w 0 - nth i vstar 0) <= D + c).
  { intros i Hi. specialize (HD i Hi). specialize (Hmax i Hi).
    apply Qabs_Qle_condition in HD. apply Qabs_Qle_condition in Hmax. apply Qabs_Qle_condition. lra. }
  pose proof (bellman_contraction d Hok Hst w vstar (D + c) Lw Lst Hw i0 Hi0) as G.
  rewrite (Fst i0 Hi0) in G.
  assert (Ei0 : Tv_at d w i0 = nth i0 v 0) by (unfold Tv_at; rewrite Ev; reflexivity).
  rewrite Ei0 in G. fold c in G.
  assert (c0 : 0 <= c) by apply Qabs_nonneg.
  assert (D0 : 0 <= D).
  { specialize (HD i0 Hi0). pose proof (Qabs_nonneg (nth i0 v 0 - nth i0 w 0)). lra. }
  specialize (Hmax s Hs).
  destruct (Qlt_le_dec 0 beta) as [Hbpos|Hbz].
  - destruct (vi_tol_spec eps beta Hbpos) as (t & Et & Ht). rewrite Et in Hlt. cbn [lt_tol] in Hlt.
    cbn [nltb NumQ] in Hlt. apply Qltb_lt in Hlt. fold D in Hlt.
    assert (Hc : (1 - beta) * c <= beta * D) by nra.
    assert (HtD : beta * D < eps * (1 - beta) / 2).
    { rewrite Ht in Hlt. assert (beta * D < beta * (eps * (1 - beta) / (2 * beta))) by nra.
      assert (beta * (eps * (1 - beta) / (2 * beta)) == eps * (1 - beta) / 2) by (field; lra). lra. }
    assert (c < eps / 2).
    { assert ((1 - beta) * c < (1 - beta) * (eps / 2)) by (assert (eps * (1 - beta) / 2 == (1 - beta) * (eps / 2)) by field; lra).
      nra. }
    split; [lra|]. intro Hz. lra.
  - assert (Hbz' : beta == 0) by lra.
    assert (c <= 0) by nra.
    assert (Hz : Qabs (nth s v 0 - nth s vstar 0) <= 0) by lra.
    split.
    + assert (0 < eps / 2) by (apply Qlt_shift_div_l; lra). lra.
    + intros _. apply Qabs_Qle_condition in Hz. lra.
Qed.
End VI.

(* C01 model of the linear-programming method: DiscreteDP.linprog_simplex (markov/ddp.py) and
   ddp_linprog_simplex / _initialize_tableau (markov/_ddp_linprog_simplex.py), on top of the shared
   DiscreteDP model (C09/Model.v), the pivoting kernels (Base/Pivot.v) and solve_tableau of the
   simplex model (C04/Model.v).  Generic over Num; executable definitions only.
   Tableau: (n+1) x (L+n+1); columns: one per state-action pair | one per state (aux) | rhs. *)
From Coq Require Import List Bool Arith.
From QE Require Import Base.Num Base.Cases Base.Pivot C04.Model C09.Solve C09.Model C01.Model.
Import ListNotations.

Section LP.
Context {T : Type} {NT : Num T}.

(* _initialize_tableau(R, Q, beta, a_indptr, tableau):
     tableau[i, j] = Q[j, i] * (-beta);  tableau[i, j] += 1 for j in the segment of state i;
     tableau[:n, L:-1] = 0; tableau[i, L+i] = 1; tableau[i, -1] = 1;
     tableau[-1, j] = R[j]; tableau[-1, L:] = 0 *)
Definition lp_init_tableau (n : nat) (indptr : list nat) (R : list T) (Qm : list (list T)) (beta : T)
  : list (list T) :=
  let L := length Qm in
  let nbeta := nsub nzero beta in
  let row i :=
      map (fun j => let x := nmul (Pivot.vget (nth j Qm []) i) nbeta in
                    if (getn indptr i <=? j)%nat && (j <? getn indptr (S i))%nat then nadd x none_ else x)
          (seq 0 L)
      ++ map (fun k => if (k =? i)%nat then none_ else nzero) (seq 0 n) ++ [none_] in
  map row (seq 0 n) ++ [R ++ repeat nzero (S n)].

(* ddp_linprog_simplex(R, Q, beta, a_indices, a_indptr, sigma, max_iter):
   returns (success, num_iter + n, v, sigma); None: the policy has no pair index (cannot happen for a greedy policy) *)
Definition ddp_linprog_simplex (n : nat) (aidx indptr : list nat) (R : list T) (Qm : list (list T)) (beta : T)
           (basis0 : list nat) (max_iter : nat) (o : PivOptions)
  : bool * nat * list T * list nat :=
  let L := length Qm in
  let tb0 := lp_init_tableau n indptr R Qm beta in
  let tb1 := fold_left (fun tb i => pivoting tb (getn basis0 i) i) (seq 0 n) tb0 in
  let '(tb, basis, success, status, num_iter) := solve_tableau tb1 basis0 (max_iter - n) true o in
  (success, (num_iter + n)%nat,
   map (fun i => nmul (Pivot.get tb n (L + i)) mone) (seq 0 n),
   map (fun i => getn aidx (getn basis i)) (seq 0 n)).

(* DiscreteDP.linprog_simplex(v_init, max_iter): sigma = compute_greedy(v_init or s_wise_max(R));
   ddp_sa = to_sa_pair_form(sparse=False); then the kernel above.  None: -inf reward among the pairs
   of the sa formulation (outside the model), or a conversion failure. *)
Definition linprog_simplex_ddp (d : ddp T) (v_init : option (list T)) (max_iter : nat) (o : PivOptions)
  : option (bool * nat * list T * list nat) :=
  let v0 := match v_init with Some v => v | None => R_max d end in
  let sigma := compute_greedy d v0 in
  match to_sa_pair_form d with
  | COk ds =>
      match fin_list (d_R ds), sigma_indices ds sigma with
      | Some Rf, Some idx =>
          Some (ddp_linprog_simplex (d_n ds) (d_aidx ds) (d_indptr ds) Rf (d_Q ds) (d_beta ds) idx max_iter o)
      | _, _ => None
      end
  | _ => None
  end.

End LP.

(* C01 / lp_optimal, part 1: the DDP tableau of _ddp_linprog_simplex.py::_initialize_tableau satisfies the
   self-certifying invariant of Base/PivotProofs + C04/Proofs (tab_inv), and so does the tableau after the
   n initial pivots on the pairs of the initial policy, whose pivot elements are non-zero and whose
   right-hand side stays non-negative (M-matrix structure of (I - beta Q_sigma)^T). *)
From Coq Require Import ZArith QArith List Bool Arith Lia Lqa Setoid Morphisms.
From QE Require Import Base.Num Base.Cases C09.Solve C09.Model C01.Model C01.ModelLP.
From QE Require Import C09.Proofs5.
From QE Require Import Base.Pivot Base.PivotProofs C04.Model C04.Proofs C04.Proofs2.
Import ListNotations.
Open Scope Q_scope.

Section DDPTableau.
Variables (n Lp : nat) (indptr : list nat) (Rf : list Q) (Qm : list (list Q)) (beta : Q).
Hypothesis LRf : length Rf = Lp.
Hypothesis LQm : length Qm = Lp.
Hypothesis Hb : 0 <= beta < 1.
(* every state has a non-empty segment of pairs [lo_s, hi_s), hi_s = lo_{s+1} *)
Hypothesis Hseg : forall s, (s < n)%nat -> (getn indptr s < getn indptr (S s) <= Lp)%nat.
(* transition rows: length n, non-negative, summing to 1 *)
Definition Qe (j i : nat) : Q := nth i (nth j Qm []) 0.
Hypothesis Hq0 : forall j i, (j < Lp)%nat -> 0 <= Qe j i.
Hypothesis Hq1 : forall j, (j < Lp)%nat -> sumQ n (Qe j) == 1.

Definition inseg (s j : nat) : bool := (getn indptr s <=? j)%nat && (j <? getn indptr (S s))%nat.
Definition nc : nat := (Lp + n + 1)%nat.
Definition tb0 : matQ := lp_init_tableau n indptr Rf Qm beta.
Definition objR (j : nat) : Q := if (j <? Lp)%nat then nth j Rf 0 else 0.

Lemma indptr_mono : forall s t, (s <= t)%nat -> (t <= n)%nat -> (getn indptr s <= getn indptr t)%nat.
Proof.
  intros s t Hst Ht. induction t as [|t IH]; [replace s with 0%nat by lia; lia|].
  destruct (Nat.eq_dec s (S t)) as [->|Hne]; [lia|]. specialize (IH ltac:(lia) ltac:(lia)).
  pose proof (Hseg t ltac:(lia)). lia.
Qed.
Lemma inseg_unique s t j : (s < n)%nat -> (t < n)%nat -> inseg s j = true -> inseg t j = true -> s = t.
Proof.
  unfold inseg. intros Hs Ht H1 H2. apply andb_prop in H1. apply andb_prop in H2.
  destruct H1 as [A1 A2], H2 as [B1 B2]. apply Nat.leb_le in A1. apply Nat.ltb_lt in A2. apply Nat.leb_le in B1. apply Nat.ltb_lt in B2.
  destruct (lt_eq_lt_dec s t) as [[H|H]|H]; [|exact H|].
  - pose proof (indptr_mono (S s) t ltac:(lia) ltac:(lia)). lia.
  - pose proof (indptr_mono (S t) s ltac:(lia) ltac:(lia)). lia.
Qed.
Lemma inseg_lt s j : (s < n)%nat -> inseg s j = true -> (j < Lp)%nat.
Proof. unfold inseg. intros Hs H. apply andb_prop in H. destruct H as [_ H]. apply Nat.ltb_lt in H. pose proof (Hseg s Hs). lia. Qed.

(* ---------- entries of the initial tableau ---------- *)
Definition row0 (i : nat) : list Q :=
  map (fun j => let x := nmul (Pivot.vget (nth j Qm []) i) (nsub nzero beta) in
                if inseg i j then nadd x none_ else x) (seq 0 Lp)
  ++ map (fun k => if (k =? i)%nat then none_ else nzero) (seq 0 n) ++ [none_].
Lemma tb0_eq : tb0 = map row0 (seq 0 n) ++ [Rf ++ repeat 0 (S n)].
Proof. unfold tb0, lp_init_tableau, row0, inseg. rewrite LQm. reflexivity. Qed.
Lemma row0_length i : length (row0 i) = nc.
Proof. unfold row0, nc. rewrite !app_length, !map_length, !seq_length. cbn. lia. Qed.
Lemma wf_tb0 : wf (S n) nc tb0.
Proof.
  rewrite tb0_eq. split.
  - rewrite app_length, map_length, seq_length. cbn. lia.
  - intros i Hi. destruct (Nat.eq_dec i n) as [->|Hne].
    + rewrite app_nth2 by (rewrite map_length, seq_length; lia). rewrite map_length, seq_length, Nat.sub_diag. cbn [nth].
      rewrite app_length, repeat_length, LRf. unfold nc. lia.
    + rewrite app_nth1 by (rewrite map_length, seq_length; lia).
      rewrite nth_map_lt with (d := 0%nat) by (rewrite seq_length; lia). apply row0_length.
Qed.
Lemma tb0_row i : (i < n)%nat -> nth i tb0 [] = row0 i.
Proof.
  intro Hi. rewrite tb0_eq, app_nth1 by (rewrite map_length, seq_length; lia).
  rewrite nth_map_lt with (d := 0%nat) by (rewrite seq_length; lia). rewrite seq_nth by lia. reflexivity.
Qed.
Lemma tb0_pair i j : (i < n)%nat -> (j < Lp)%nat ->
  get tb0 i j == (if inseg i j then 1 else 0) - beta * Qe j i.
Proof.
  intros Hi Hj. unfold get. rewrite tb0_row by exact Hi. unfold row0.
  rewrite app_nth1 by (rewrite map_length, seq_length; lia).
  rewrite nth_map_lt with (d := 0%nat) by (rewrite seq_length; lia). rewrite seq_nth by lia. cbn [plus]. cbv zeta.
  change (Pivot.vget (nth j Qm []) i) with (Qe j i).
  change (@nmul Q NumQ) with Qmulr. change (@nsub Q NumQ) with Qsubr. change (@nadd Q NumQ) with Qaddr.
  change (@nzero Q NumQ) with 0. change (@none_ Q NumQ) with 1.
  destruct (inseg i j); rewrite ?Qaddr_eq, Qmulr_eq, Qsubr_eq; ring.
Qed.
Lemma tb0_aux i k : (i < n)%nat -> (k < n)%nat -> get tb0 i (Lp + k) == if Nat.eqb i k then 1 else 0.
Proof.
  intros Hi Hk. unfold get. rewrite tb0_row by exact Hi. unfold row0.
  rewrite app_nth2 by (rewrite map_length, seq_length; lia). rewrite map_length, seq_length.
  replace (Lp + k - Lp)%nat with k by lia. rewrite app_nth1 by (rewrite map_length, seq_length; lia).
  rewrite nth_map_lt with (d := 0%nat) by (rewrite seq_length; lia). rewrite seq_nth by lia. cbn [plus].
  rewrite (Nat.eqb_sym k i). destruct (Nat.eqb i k); reflexivity.
Qed.
Lemma tb0_rhs i : (i < n)%nat -> get tb0 i (nc - 1) == 1.
Proof.
  intro Hi. unfold get. rewrite tb0_row by exact Hi. unfold row0, nc.
  rewrite app_nth2 by (rewrite map_length, seq_length; lia). rewrite map_length, seq_length.
  rewrite app_nth2 by (rewrite map_length, seq_length; lia). rewrite map_length, seq_length.
  replace (Lp + n + 1 - 1 - Lp - n)%nat with 0%nat by lia. reflexivity.
Qed.
Lemma tb0_crit j : (j < nc)%nat -> get tb0 n j == objR j.
Proof.
  intro Hj. unfold get. rewrite tb0_eq, app_nth2 by (rewrite map_length, seq_length; lia).
  rewrite map_length, seq_length, Nat.sub_diag. cbn [nth]. unfold objR.
  destruct (Nat.ltb_spec j Lp).
  - rewrite app_nth1 by lia. reflexivity.
  - rewrite app_nth2 by lia. change (@nzero Q NumQ) with 0.
    assert (E : forall m k, nth k (repeat 0 m) 0 = 0) by (induction m; destruct k; cbn; auto). rewrite E. reflexivity.
Qed.

(* ---------- the invariant holds initially, with the aux columns as basis ---------- *)
Definition basisAux : list nat := map (fun i => (Lp + i)%nat) (seq 0 n).
Lemma basisAux_nth i : (i < n)%nat -> nth i basisAux 0%nat = (Lp + i)%nat.
Proof. intro Hi. unfold basisAux. rewrite nth_map_lt with (d := 0%nat) by (rewrite seq_length; lia). rewrite seq_nth by lia. reflexivity. Qed.

Lemma tb0_inv : tab_inv n nc Lp tb0 objR tb0 basisAux.
Proof.
  constructor.
  - unfold nc. lia.
  - unfold nc. lia.
  - exact wf_tb0.
  - unfold basisAux. rewrite map_length, seq_length. reflexivity.
  - intros i Hi. rewrite basisAux_nth by exact Hi. unfold nc. lia.
  - intros i Hi. apply comb_lin_init; [exact Hi|]. intros k j Hk Hj. apply tb0_aux; assumption.
  - intros j Hj. unfold rowf. rewrite tb0_crit by exact Hj.
    rewrite sumQ_zero; [ring|]. intros k Hk. rewrite tb0_crit by (unfold nc; lia). unfold objR.
    replace (Lp + k <? Lp)%nat with false by (symmetry; apply Nat.ltb_ge; lia). ring.
  - intros i k Hi Hk. rewrite basisAux_nth by exact Hi.
    destruct (Nat.eq_dec k n) as [->|Hne].
    + rewrite tb0_crit by (unfold nc; lia). unfold objR.
      replace (Lp + i <? Lp)%nat with false by (symmetry; apply Nat.ltb_ge; lia).
      destruct (Nat.eqb_spec n i); [lia|reflexivity].
    + apply tb0_aux; lia.
  - intros u Hu. exact Hu.
Qed.

(* ================= the n initial pivots ================= *)
Variable idx : list nat.
Hypothesis Lidx : length idx = n.
Hypothesis Hidx : forall i, (i < n)%nat -> inseg i (getn idx i) = true.

Local Notation T0 := tb0.
Local Notation NC := nc.
Local Notation cc := (getn idx).

Lemma cc_lt j : (j < n)%nat -> (cc j < Lp)%nat.
Proof. intro Hj. eapply inseg_lt; eauto. Qed.

Record Mst (k : nat) (T : matQ) (B : list nat) : Prop := {
  ms_inv : tab_inv n NC Lp T0 objR T B;
  ms_done : forall i, (i < k)%nat -> nth i B 0%nat = cc i;
  ms_todo : forall i, (k <= i < n)%nat -> nth i B 0%nat = (Lp + i)%nat;
  ms_off : forall i j, (i < n)%nat -> (k <= j < n)%nat -> i <> j -> get T i (cc j) <= 0;
  ms_col : forall j, (k <= j < n)%nat -> 0 < sumQ (n - k) (fun t => get T (k + t) (cc j));
  ms_rhs : forall i, (i < n)%nat -> 0 <= get T i (NC - 1) }.

Lemma Mst_init : Mst 0 T0 basisAux.
Proof.
  constructor.
  - apply tb0_inv; assumption.
  - intros i Hi. lia.
  - intros i Hi. apply basisAux_nth. lia.
  - intros i j Hi Hj Hne. rewrite tb0_pair by (try apply cc_lt; lia).
    destruct (inseg i (cc j)) eqn:E.
    + exfalso. apply Hne. eapply inseg_unique; eauto; try lia. apply Hidx. lia.
    + pose proof (Hq0 (cc j) i (cc_lt j ltac:(lia))). nra.
  - intros j Hj. rewrite Nat.sub_0_r.
    rewrite (sumQ_ext n _ (fun t => 1 * (if Nat.eqb t j then 1 else 0) + (- beta) * Qe (cc j) t)).
    2:{ intros t Ht. cbn [plus]. rewrite tb0_pair by (try apply cc_lt; lia).
        destruct (Nat.eqb_spec t j) as [->|Hne].
        - rewrite Hidx by lia. ring.
        - destruct (inseg t (cc j)) eqn:E; [|ring]. exfalso. apply Hne.
          eapply inseg_unique; eauto; try lia. apply Hidx. lia. }
    rewrite sumQ_lin, (sumQ_delta n j (fun _ => 1)), (Hq1 (cc j) (cc_lt j ltac:(lia))).
    destruct (Nat.ltb_spec j n); [lra|lia].
  - intros i Hi. rewrite tb0_rhs by assumption. lra.
Qed.

Lemma Mst_pivot_pos k T B : (k < n)%nat -> Mst k T B -> 0 < get T k (cc k).
Proof.
  intros Hk M. pose proof (ms_col k T B M k ltac:(lia)) as HS.
  replace (n - k)%nat with (S (n - k - 1)) in HS by lia. rewrite sumQ_S_front in HS. rewrite Nat.add_0_r in HS.
  assert (sumQ (n - k - 1) (fun t => get T (k + S t) (cc k)) <= 0).
  { rewrite <- (sumQ_zero (n - k - 1) (fun _ => 0)) by (intros; reflexivity). apply sumQ_le.
    intros t Ht. apply (ms_off k T B M); lia. }
  lra.
Qed.

Lemma Mst_step k T B : (k < n)%nat -> Mst k T B ->
  Mst (S k) (pivoting T (cc k) k) (set_nth B k (cc k)).
Proof.
  intros Hk M. pose proof (Mst_pivot_pos k T B Hk M) as Hp.
  pose proof (ms_inv k T B M) as Hinv. pose proof (ti_wf _ _ _ _ _ _ _ Hinv) as Hwf.
  assert (Hck : (cc k < NC - 1)%nat) by (pose proof (cc_lt k Hk); unfold nc; lia).
  assert (Hcol : forall j, (j < n)%nat -> (cc j < NC)%nat) by (intros j Hj; pose proof (cc_lt j Hj); unfold nc; lia).
  assert (HLB : length B = n) by (apply (ti_len _ _ _ _ _ _ _ Hinv)).
  constructor.
  - apply tab_inv_pivot; auto. lra.
  - intros i Hi. rewrite nth_set_nth. destruct (Nat.eqb_spec i k) as [->|Hne].
    + replace (k <? length B)%nat with true by (symmetry; apply Nat.ltb_lt; lia). reflexivity.
    + apply (ms_done k T B M). lia.
  - intros i Hi. rewrite nth_set_nth_neq by lia. apply (ms_todo k T B M). lia.
  - intros i j Hi Hj Hne. rewrite (get_pivoting (S n) NC) by (auto; try lia; apply Hcol; lia).
    assert (Hkj : get T k (cc j) <= 0) by (apply (ms_off k T B M); lia).
    assert (Hr : get T k (cc j) / get T k (cc k) <= 0).
    { apply Qle_shift_div_r; [exact Hp|]. lra. }
    destruct (Nat.eqb_spec i k) as [->|Hik]; [exact Hr|].
    assert (get T i (cc j) <= 0) by (apply (ms_off k T B M); lia).
    assert (get T i (cc k) <= 0) by (apply (ms_off k T B M); lia).
    nra.
  - intros j Hj.
    pose proof (ms_col k T B M j ltac:(lia)) as Sj. pose proof (ms_col k T B M k ltac:(lia)) as Sk.
    replace (n - k)%nat with (S (n - S k)) in Sj, Sk by lia. rewrite sumQ_S_front in Sj, Sk. rewrite Nat.add_0_r in Sj, Sk.
    assert (Hkj : get T k (cc j) <= 0) by (apply (ms_off k T B M); lia).
    set (r := get T k (cc j) / get T k (cc k)).
    assert (Hr : r <= 0) by (apply Qle_shift_div_r; [exact Hp|]; lra).
    assert (Hrp : r * get T k (cc k) == get T k (cc j)) by (unfold r; field; lra).
    rewrite (sumQ_ext _ _ (fun t => 1 * get T (k + S t) (cc j) + (- r) * get T (k + S t) (cc k))).
    2:{ intros t Ht. replace (S k + t)%nat with (k + S t)%nat by lia.
        rewrite (get_pivoting (S n) NC) by (auto; try lia; apply Hcol; lia). destruct (Nat.eqb_spec (k + S t) k); [lia|]. fold r. ring. }
    rewrite sumQ_lin.
    set (Aj := sumQ (n - S k) (fun t => get T (k + S t) (cc j))) in *.
    set (Ak := sumQ (n - S k) (fun t => get T (k + S t) (cc k))) in *.
    nra.
  - intros i Hi. rewrite (get_pivoting (S n) NC) by (auto; unfold nc; lia).
    pose proof (ms_rhs k T B M k Hk) as Rk. pose proof (ms_rhs k T B M i Hi) as Ri.
    assert (Hq : 0 <= get T k (NC - 1) / get T k (cc k)) by (apply Qle_shift_div_l; [exact Hp|]; lra).
    destruct (Nat.eqb_spec i k) as [->|Hik]; [exact Hq|].
    assert (get T i (cc k) <= 0) by (apply (ms_off k T B M); lia). nra.
Qed.

Lemma Mst_fold : forall m k T B, (k + m <= n)%nat -> Mst k T B ->
  exists B', Mst (k + m) (fold_left (fun tb i => pivoting tb (cc i) i) (seq k m) T) B'.
Proof.
  induction m as [|m IH]; intros k T B Hkm M; cbn [seq fold_left].
  - rewrite Nat.add_0_r. eauto.
  - replace (k + S m)%nat with (S k + m)%nat by lia. eapply IH; [lia|]. apply Mst_step; [lia|exact M].
Qed.

Definition tb1 : matQ := fold_left (fun tb i => pivoting tb (cc i) i) (seq 0 n) T0.

(* after the n initial pivots: the invariant holds with basis = the pair indices of the initial policy,
   and the right-hand side is non-negative *)
Theorem tb1_inv : tab_inv n NC Lp T0 objR tb1 idx /\ rhs_nonneg n NC tb1.
Proof.
  destruct (Mst_fold n 0 T0 basisAux ltac:(lia) Mst_init) as [B' M]. cbn [plus] in M. fold tb1 in M.
  assert (B' = idx).
  { apply (nth_ext _ _ 0%nat 0%nat).
    - rewrite (ti_len _ _ _ _ _ _ _ (ms_inv _ _ _ M)). symmetry. exact Lidx.
    - intros i Hi. rewrite (ti_len _ _ _ _ _ _ _ (ms_inv _ _ _ M)) in Hi. apply (ms_done _ _ _ M). exact Hi. }
  subst B'. split; [apply (ms_inv _ _ _ M)|]. intros i Hi. apply (ms_rhs _ _ _ M). exact Hi.
Qed.

(* ================= the simplex run from tb1 ================= *)
(* every state has a basic pair, in any tableau with the invariant, a non-negative right-hand side and
   only pair columns in the basis: row s of T0 reads  sum_{j in seg s} x_j - beta sum_j Q[j][s] x_j = 1 *)
Lemma cover T B : tab_inv n NC Lp T0 objR T B -> rhs_nonneg n NC T ->
  (forall i, (i < n)%nat -> (nth i B 0 < Lp)%nat) ->
  forall s, (s < n)%nat -> exists i, (i < n)%nat /\ inseg s (nth i B 0%nat) = true.
Proof.
  intros Hinv Hrhs HB s Hs.
  destruct (bounded_forall_or_exists n (fun i => negb (inseg s (nth i B 0%nat)))) as [Hall|(i & Hi & Hex)].
  2:{ exists i. split; [exact Hi|]. apply negb_false_iff. exact Hex. }
  exfalso.
  set (x := bsol n NC T B).
  assert (Hx : solves n NC T0 x).
  { apply (ti_sol _ _ _ _ _ _ _ Hinv). apply (bsol_solves (S n)); [lia|apply (ti_bas _ _ _ _ _ _ _ Hinv)|apply (ti_unit _ _ _ _ _ _ _ Hinv)]. }
  assert (Hx0 : forall j, 0 <= x j) by (intro j; apply bsol_nonneg; exact Hrhs).
  pose proof (Hx s Hs) as E. rewrite tb0_rhs in E by exact Hs.
  replace (NC - 1)%nat with (Lp + n)%nat in E by (unfold nc; lia). rewrite sumQ_split in E.
  assert (E2 : sumQ n (fun k => get T0 s (Lp + k) * x (Lp + k)%nat) == 0).
  { apply sumQ_zero. intros k Hk. unfold x. rewrite bsol_nonbasic; [ring|]. intros i Hi. specialize (HB i Hi). lia. }
  assert (E1 : sumQ Lp (fun j => get T0 s j * x j) <= 0).
  { rewrite <- (sumQ_zero Lp (fun _ => 0)) by (intros; reflexivity). apply sumQ_le. intros j Hj.
    rewrite tb0_pair by assumption. destruct (inseg s j) eqn:Ej.
    - assert (x j == 0).
      { unfold x. apply bsol_nonbasic. intros i Hi Eq. specialize (Hall i Hi). apply negb_true_iff in Hall. congruence. }
      rewrite H. ring_simplify. lra.
    - pose proof (Hq0 j s Hj). pose proof (Hx0 j). assert (0 <= beta * Qe j s) by nra. nra. }
  lra.
Qed.

Definition goodP (T : matQ) (B : list nat) : Prop :=
  rhs_nonneg n NC T /\ forall i, (i < n)%nat -> inseg i (nth i B 0%nat) = true.

Lemma goodP_step T B c r :
  tab_inv n NC Lp T0 objR T B -> goodP T B ->
  (r < n)%nat -> (c < NC - 1 - n)%nat -> 0 < get T r c -> 0 < get T n c ->
  (forall k, (k < n)%nat -> 0 < get T k c -> ratio T c (NC - 1) r <= ratio T c (NC - 1) k) ->
  goodP (pivoting T c r) (set_nth B r c).
Proof.
  intros Hinv [Hrhs Hmem] Hr Hc Hp _ Hmin.
  assert (HcL : (c < Lp)%nat) by (unfold nc in Hc; lia).
  assert (Hinv' : tab_inv n NC Lp T0 objR (pivoting T c r) (set_nth B r c)).
  { apply tab_inv_pivot; auto; try (unfold nc in *; lia). lra. }
  assert (Hrhs' : rhs_nonneg n NC (pivoting T c r)).
  { intros i Hi. eapply (pivoting_rhs_nonneg (S n) NC n); eauto; try lia; try (apply (ti_wf _ _ _ _ _ _ _ Hinv)); unfold nc; lia. }
  assert (HLB : length B = n) by (apply (ti_len _ _ _ _ _ _ _ Hinv)).
  assert (HB' : forall i, (i < n)%nat -> (nth i (set_nth B r c) 0 < Lp)%nat).
  { intros i Hi. rewrite nth_set_nth. destruct (Nat.eqb_spec i r).
    - destruct (r <? length B)%nat; [exact HcL|]. subst. eapply inseg_lt; [|apply Hmem]; lia.
    - eapply inseg_lt; [|apply Hmem]; lia. }
  split; [exact Hrhs'|]. intros i Hi. rewrite nth_set_nth. destruct (Nat.eqb_spec i r) as [->|Hne]; [|apply Hmem; exact Hi].
  replace (r <? length B)%nat with true by (symmetry; apply Nat.ltb_lt; lia).
  destruct (cover _ _ Hinv' Hrhs' HB' r Hr) as (i' & Hi' & Hin).
  rewrite nth_set_nth in Hin. destruct (Nat.eqb_spec i' r) as [->|Hne].
  - replace (r <? length B)%nat with true in Hin by (symmetry; apply Nat.ltb_lt; lia). exact Hin.
  - exfalso. apply Hne. eapply inseg_unique; [exact Hi'|exact Hr|apply Hmem; exact Hi'|exact Hin].
Qed.

(* the dual values read off the criterion row *)
Definition vdual (T : matQ) (k : nat) : Q := - get T n (Lp + k).
Definition pairval (T : matQ) (j : nat) : Q := nth j Rf 0 + beta * sumQ n (fun k => Qe j k * vdual T k).

Lemma crit_pair T B s j : tab_inv n NC Lp T0 objR T B -> (s < n)%nat -> inseg s j = true ->
  get T n j == pairval T j - vdual T s.
Proof.
  intros Hinv Hs Hj. pose proof (inseg_lt s j Hs Hj) as HjL.
  pose proof (ti_crit _ _ _ _ _ _ _ Hinv j ltac:(unfold nc; lia)) as E. unfold rowf in E. rewrite E. unfold objR at 1.
  replace (j <? Lp)%nat with true by (symmetry; apply Nat.ltb_lt; exact HjL).
  rewrite (sumQ_ext n _ (fun k => (-1) * ((if Nat.eqb k s then vdual T k else 0)) + beta * (Qe j k * vdual T k))).
  2:{ intros k Hk. unfold objR. replace (Lp + k <? Lp)%nat with false by (symmetry; apply Nat.ltb_ge; lia).
      rewrite tb0_pair by assumption. unfold vdual. destruct (Nat.eqb_spec k s) as [->|Hne].
      - rewrite Hj. ring.
      - destruct (inseg k j) eqn:Ek; [|ring]. exfalso. apply Hne. eapply inseg_unique; eauto. }
  rewrite sumQ_lin, (sumQ_delta n s (vdual T)). replace (s <? n)%nat with true by (symmetry; apply Nat.ltb_lt; exact Hs).
  unfold pairval. ring.
Qed.

(* status 0 of the simplex run from the policy tableau (tolerance 0, any fuel): the dual values v satisfy
   v_s >= r_j + beta sum_k q_jk v_k for every pair j of every state s, with equality for the basic pair of s,
   which is a pair of s *)
Theorem lp_run_spec fuel T' B' su st ni :
  solve_tableau_loop fuel tb1 idx true opts0 0 = (T', B', su, st, ni) -> su = true ->
  st = 0%nat /\
  (forall s j, (s < n)%nat -> inseg s j = true -> pairval T' j <= vdual T' s) /\
  (forall s, (s < n)%nat -> inseg s (nth s B' 0%nat) = true /\ vdual T' s == pairval T' (nth s B' 0%nat)).
Proof.
  intros Hrun Hsu1.
  destruct tb1_inv as [Hinv1 Hrhs1].
  pose proof (solve_tableau_ind n NC Lp T0 objR true goodP) as IND.
  specialize (IND ltac:(intros; eapply goodP_step; eauto) fuel tb1 idx 0%nat Hinv1).
  specialize (IND (conj Hrhs1 Hidx)). rewrite Hrun in IND. destruct IND as (Hinv & [Hrhs Hmem] & Hsu & Hopt).
  assert (Hst : st = 0%nat) by (apply Hsu; exact Hsu1).
  split; [exact Hst|]. split.
  - intros s j Hs Hj. pose proof (inseg_lt s j Hs Hj) as HjL.
    specialize (Hopt Hst j ltac:(unfold nc; lia)). rewrite (crit_pair T' B' s j Hinv Hs Hj) in Hopt. lra.
  - intros s Hs. split; [apply Hmem; exact Hs|].
    pose proof (ti_unit _ _ _ _ _ _ _ Hinv s n Hs ltac:(lia)) as U.
    destruct (Nat.eqb_spec n s); [lia|].
    rewrite (crit_pair T' B' s _ Hinv Hs (Hmem s Hs)) in U. lra.
Qed.
End DDPTableau.

From Coq Require Import ZArith QArith Qabs List Bool Arith Lia Lqa.
From QE Require Import Base.Num Base.Cases C09.Solve C09.Model C01.Model.
From QE Require Import C09.Proofs1 C09.Proofs2 C09.Proofs3 C09.Proofs4 C09.Proofs6 C01.Proofs1.
Import ListNotations.

Lemma pi_loop_converged (d : ddp Q) : forall fuel sigma cnt last v sg k,
  pi_loop d sigma fuel cnt last = Some (v, sg, k, true) ->
  evaluate_policy d sg = Some v /\ compute_greedy d v = sg.
Proof.
  induction fuel as [|f IH]; intros sigma cnt last v sg k H; cbn [pi_loop] in H.
  - destruct last; inversion H.
  - destruct (evaluate_policy d sigma) as [w|] eqn:E; [|discriminate].
    destruct (nats_eqb (compute_greedy d w) sigma) eqn:E2.
    + inversion H; subst. split; [exact E|]. apply nats_eqb_eq. exact E2.
    + eapply IH. exact H.
Qed.

Section PI.
Variable d : ddp Q.
Hypothesis Hok : ddp_ok d.
Hypothesis Hst : stoch d.
Hypothesis Hdis : ddp_distinct d.
Local Notation n := (d_n d).

(* a policy that is greedy for its own value: that value is a fixed point of T *)
Lemma greedy_own_value_fixpoint sigma v :
  evaluate_policy d sigma = Some v -> compute_greedy d v = sigma ->
  length v = n /\ forall s, (s < n)%nat -> Tv_at d v s == nth s v 0.
Proof.
  intros Hev Hg.
  assert (HRQ : exists Rs Qs, RQ_sigma_fin d sigma = Some (Rs, Qs)).
  { unfold evaluate_policy in Hev. destruct (neqb (d_beta d) none_); [discriminate|].
    destruct (RQ_sigma_fin d sigma) as [[Rs Qs]|]; [eauto|discriminate]. }
  destruct HRQ as (Rs & Qs & HRQ).
  destruct (RQ_sigma_fin_spec d sigma Rs Qs HRQ) as (idx & Eidx & LR & LQ & Hpair).
  destruct (sigma_indices_spec d sigma idx Eidx) as (Lidx & Lsig & Hidx).
  assert (Hsq : forall i, (i < length Qs)%nat -> length (nth i Qs []) = length Qs).
  { intros i Hi. rewrite LQ in *. destruct (Hpair i Hi) as [_ ->]. destruct (Hidx i Hi) as [Hseg _].
    apply (st_len d Hst). eapply (seg_in_Q d); eauto. }
  destruct (evaluate_policy_fixpoint d sigma Rs Qs v HRQ Hsq Hev) as (Lv & _ & Hfix).
  split; [lia|]. intros s Hs.
  destruct (bellman_is_max d v s Hok Hs) as (m & r & Hm & Rm & Ev & Eg & _ & _).
  destruct (Hidx s Hs) as [Hseg Hact]. fold (seg_lo d s) in Hseg. fold (seg_hi d s) in Hseg.
  assert (m = getn idx s).
  { apply (Hdis s); try assumption. rewrite Hact, <- Eg. unfold greedy_at. rewrite Hg. reflexivity. }
  subst m. destruct (Hpair s Hs) as [HRs HQs]. rewrite HRs in Rm. inversion Rm; subst r.
  rewrite Ev. rewrite (Hfix s ltac:(lia)). rewrite T_sigma_entry by lia. rewrite HQs. reflexivity.
Qed.

(* policy iteration that stops before the cap returns (sigma, v) with v = T_sigma v = T v:
   v is the (unique) fixed point of the Bellman operator, sigma attains it, and no stationary
   policy has a larger value in any state *)
Theorem pi_optimal v_init cap v sigma k :
  policy_iteration d v_init cap = Some (v, sigma, k, true) ->
  length v = n /\
  evaluate_policy d sigma = Some v /\
  compute_greedy d v = sigma /\
  (forall s, (s < n)%nat -> Tv_at d v s == nth s v 0) /\
  (forall sigma' Rs' Qs' v', RQ_sigma_fin d sigma' = Some (Rs', Qs') -> length v' = n ->
     (forall s, (s < n)%nat -> nth s v' 0 == nth s (T_sigma_rq (d_beta d) Rs' Qs' v') 0) ->
     forall s, (s < n)%nat -> nth s v' 0 <= nth s v 0) /\
  (forall w, length w = n -> (forall s, (s < n)%nat -> Tv_at d w s == nth s w 0) ->
     forall s, (s < n)%nat -> nth s w 0 == nth s v 0).
Proof.
  unfold policy_iteration. intro H. apply pi_loop_converged in H. destruct H as [Hev Hg].
  destruct (greedy_own_value_fixpoint sigma v Hev Hg) as [Lv Hfix].
  split; [exact Lv|]. split; [exact Hev|]. split; [exact Hg|]. split; [exact Hfix|]. split.
  - intros sigma' Rs' Qs' v' HRQ Lv' Hf' s Hs.
    eapply (policy_value_le_fixpoint d Hok Hst sigma' Rs' Qs' v' v); eauto.
  - intros w Lw Hw s Hs. apply (bellman_fixpoint_unique d Hok Hst w v Lw Lv Hw Hfix s Hs).
Qed.
End PI.

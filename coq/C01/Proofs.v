(* C01 lemmas: re-export of Proofs1..5 *)
From QE Require Export C01.Proofs1 C01.Proofs2 C01.Proofs3 C01.Proofs4 C01.Proofs5.

From Coq Require Import ZArith QArith List Bool Arith Lia.
From QE Require Import Base.Num Base.Cases C09.Solve C09.Model C01.Model.
Import ListNotations.
Lemma placeholder : True. Proof. exact I. Qed.

From Coq Require Import ZArith QArith Qabs List Bool Arith Lia Lqa.
From QE Require Import Base.Num Base.Cases C09.Solve C09.Model C01.Model.
From QE Require Import C09.Proofs1 C09.Proofs2 C09.Proofs3 C09.Proofs4 C09.Proofs6 C01.Proofs1 C01.Proofs2 C01.Proofs3.
Import ListNotations.

Lemma nmin_le_l (a b : Q) : nmin a b <= a.
Proof. unfold nmin. destruct (nltb b a) eqn:E; [|lra]. cbn [nltb NumQ] in E. apply Qltb_lt in E. lra. Qed.
Lemma nmin_le_r (a b : Q) : nmin a b <= b.
Proof. unfold nmin. destruct (nltb b a) eqn:E; [lra|]. cbn [nltb NumQ] in E. apply Qltb_false in E. lra. Qed.
Lemma fold_nmin_le : forall (r : list Q) x, fold_left nmin r x <= x /\ forall i, (i < length r)%nat -> fold_left nmin r x <= nth i r 0.
Proof.
  induction r as [|y r IH]; intro x; cbn [fold_left length].
  - split; [lra|]. intros i Hi. lia.
  - destruct (IH (nmin x y)) as [H1 H2]. split.
    + pose proof (nmin_le_l x y). lra.
    + intros i Hi. destruct i; [cbn [nth]; pose proof (nmin_le_r x y); lra|]. cbn [nth]. apply H2. lia.
Qed.
Lemma lmin_le (l : list Q) i : (i < length l)%nat -> lmin l <= nth i l 0.
Proof.
  destruct l as [|x r]; cbn [length lmin]; [lia|]. intro Hi. destruct (fold_nmin_le r x) as [H1 H2].
  destruct i; [exact H1|]. cbn [nth]. apply H2. lia.
Qed.

Lemma mpi_tol_spec (eps beta : Q) : 0 < beta ->
  exists t, mpi_tol eps beta = Some t /\ t == eps * (1 - beta) / beta.
Proof.
  intro Hb. unfold mpi_tol.
  change (@nmul Q NumQ) with Qmulr. change (@nsub Q NumQ) with Qsubr.
  change (@ndiv Q NumQ) with Qdivr. change (@none_ Q NumQ) with 1. change (@nzero Q NumQ) with 0.
  change (@neqb Q NumQ) with Qeq_bool.
  destruct (Qeq_bool beta 0) eqn:E.
  - apply Qeq_bool_iff in E. lra.
  - eexists. split; [reflexivity|]. rewrite Qdivr_eq, Qmulr_eq, Qsubr_eq. reflexivity.
Qed.
Lemma mpi_tol_zero (eps beta : Q) : beta == 0 -> mpi_tol eps beta = None.
Proof.
  intro Hb. unfold mpi_tol. change (@neqb Q NumQ) with Qeq_bool. change (@nzero Q NumQ) with 0.
  destruct (Qeq_bool beta 0) eqn:E; [reflexivity|]. apply Qeq_bool_neq in E. contradiction.
Qed.

Section MPI.
Variable d : ddp Q.
Hypothesis Hok : ddp_ok d.
Hypothesis Hst : stoch d.
Local Notation n := (d_n d).
Local Notation beta := (d_beta d).

(* T(v + c 1) = T v + beta c 1 *)
Lemma bellman_shift v c : length v = n -> forall s, (s < n)%nat ->
  Tv_at d (map (fun x => x + c) v) s == Tv_at d v s + beta * c.
Proof.
  intros Lv s Hs. set (w := map (fun x => x + c) v).
  assert (Lw : length w = n) by (unfold w; rewrite map_length; exact Lv).
  assert (Hw : forall i, (i < n)%nat -> nth i w 0 == nth i v 0 + c).
  { intros i Hi. unfold w. rewrite (nth_map_in _ _ _ 0) by lia. reflexivity. }
  assert (G1 : Tv_at d w s - Tv_at d v s <= beta * c).
  { apply (bellman_diff_le d Hok Hst); try assumption. intros i Hi. rewrite (Hw i Hi). lra. }
  assert (G2 : Tv_at d v s - Tv_at d w s <= beta * (- c)).
  { apply (bellman_diff_le d Hok Hst); try assumption. intros i Hi. rewrite (Hw i Hi). lra. }
  lra.
Qed.

(* T w <= w implies v* <= w; T w >= w implies v* >= w *)
Lemma super_solution w vstar : length w = n -> length vstar = n ->
  (forall s, (s < n)%nat -> Tv_at d vstar s == nth s vstar 0) ->
  (forall s, (s < n)%nat -> Tv_at d w s <= nth s w 0) ->
  forall s, (s < n)%nat -> nth s vstar 0 <= nth s w 0.
Proof.
  intros Lw Ls Fs Hw s Hs.
  destruct (exists_min (fun i => nth i w 0 - nth i vstar 0) n ltac:(lia)) as (s0 & Hs0 & Hmin). cbn beta in Hmin.
  set (mu := nth s0 w 0 - nth s0 vstar 0) in *.
  assert (G : Tv_at d vstar s0 - Tv_at d w s0 <= beta * (- mu)).
  { apply (bellman_diff_le d Hok Hst); try assumption. intros i Hi. specialize (Hmin i Hi). lra. }
  rewrite (Fs s0 Hs0) in G. specialize (Hw s0 Hs0). destruct (st_beta d Hst).
  assert (0 <= mu) by (unfold mu in *; nra). specialize (Hmin s Hs). lra.
Qed.
Lemma sub_solution w vstar : length w = n -> length vstar = n ->
  (forall s, (s < n)%nat -> Tv_at d vstar s == nth s vstar 0) ->
  (forall s, (s < n)%nat -> nth s w 0 <= Tv_at d w s) ->
  forall s, (s < n)%nat -> nth s w 0 <= nth s vstar 0.
Proof.
  intros Lw Ls Fs Hw s Hs.
  destruct (exists_min (fun i => nth i vstar 0 - nth i w 0) n ltac:(lia)) as (s0 & Hs0 & Hmin). cbn beta in Hmin.
  set (mu := nth s0 vstar 0 - nth s0 w 0) in *.
  assert (G : Tv_at d w s0 - Tv_at d vstar s0 <= beta * (- mu)).
  { apply (bellman_diff_le d Hok Hst); try assumption. intros i Hi. specialize (Hmin i Hi). lra. }
  rewrite (Fs s0 Hs0) in G. specialize (Hw s0 Hs0). destruct (st_beta d Hst).
  assert (0 <= mu) by (unfold mu in *; nra). specialize (Hmin s Hs). lra.
Qed.

(* span bounds (MacQueen-Porteus): with m <= Tv - v <= M pointwise,
   Tv + beta m/(1-beta) <= v* <= Tv + beta M/(1-beta) *)
Lemma span_bounds v vstar m M : length v = n -> length vstar = n ->
  (forall s, (s < n)%nat -> Tv_at d vstar s == nth s vstar 0) ->
  (forall s, (s < n)%nat -> m <= Tv_at d v s - nth s v 0 <= M) ->
  forall s, (s < n)%nat ->
    Tv_at d v s + beta * (m / (1 - beta)) <= nth s vstar 0 <= Tv_at d v s + beta * (M / (1 - beta)).
Proof.
  intros Lv Ls Fs Hb s Hs. destruct (st_beta d Hst) as [Hb0 Hb1].
  assert (HcM : (1 - beta) * (M / (1 - beta)) == M) by (field; lra).
  assert (Hcm : (1 - beta) * (m / (1 - beta)) == m) by (field; lra).
  split.
  - set (c := m / (1 - beta)) in *. set (w := map (fun x => x + c) v).
    assert (Lw : length w = n) by (unfold w; rewrite map_length; exact Lv).
    assert (Hsub : forall i, (i < n)%nat -> nth i w 0 <= Tv_at d w i).
    { intros i Hi. unfold w at 1. rewrite (nth_map_in _ _ _ 0) by lia. unfold w. rewrite bellman_shift by assumption.
      specialize (Hb i Hi). nra. }
    pose proof (sub_solution w vstar Lw Ls Fs Hsub) as G.
    assert (Tv_at d w s <= Tv_at d vstar s) by (apply (bellman_monotone d Hok Hst); assumption).
    rewrite (Fs s Hs) in H. unfold w in H. rewrite bellman_shift in H by assumption. exact H.
  - set (c := M / (1 - beta)) in *. set (w := map (fun x => x + c) v).
    assert (Lw : length w = n) by (unfold w; rewrite map_length; exact Lv).
    assert (Hsup : forall i, (i < n)%nat -> Tv_at d w i <= nth i w 0).
    { intros i Hi. unfold w at 2. rewrite (nth_map_in _ _ _ 0) by lia. unfold w. rewrite bellman_shift by assumption.
      specialize (Hb i Hi). nra. }
    pose proof (super_solution w vstar Lw Ls Fs Hsup) as G.
    assert (Tv_at d vstar s <= Tv_at d w s) by (apply (bellman_monotone d Hok Hst); assumption).
    rewrite (Fs s Hs) in H. unfold w in H. rewrite bellman_shift in H by assumption. exact H.
Qed.

Lemma iter_k_length Rs Qs : length Rs = n -> length Qs = n -> forall k u, length u = n ->
  length (iter_k (T_sigma_rq beta Rs Qs) k u) = n.
Proof.
  intros LR LQ. induction k as [|k IH]; intros u Lu; cbn [iter_k]; [exact Lu|].
  apply IH. unfold T_sigma_rq. rewrite map2_length. lia.
Qed.

Lemma mpi_loop_stopped tol k : forall fuel v sigma cnt vout sg it,
  length v = n ->
  mpi_loop d v sigma fuel cnt k tol = Some (vout, sg, it, true) ->
  exists v', length v' = n /\
    lt_tol (span (vsub (bellman_operator d v') v')) tol = true /\
    vout = map (fun x => nadd x (ndiv (nmul (midrange (vsub (bellman_operator d v') v')) beta) (nsub none_ beta)))
               (bellman_operator d v') /\
    sg = compute_greedy d v'.
Proof.
  induction fuel as [|f IH]; intros v sigma cnt vout sg it Lv H; cbn [mpi_loop] in H.
  - destruct (cnt =? 0)%nat; inversion H.
  - destruct (lt_tol (span (vsub (bellman_operator d v) v)) tol) eqn:E.
    + inversion H; subst. exists v. repeat split; assumption.
    + destruct (RQ_sigma_fin d (compute_greedy d v)) as [[Rs Qs]|] eqn:ERQ; [|discriminate].
      destruct (RQ_sigma_fin_spec d _ _ _ ERQ) as (_ & _ & LR & LQ & _).
      eapply IH; [|exact H]. apply iter_k_length; try assumption. apply bellman_length.
Qed.

(* modified policy iteration that stops on its span test returns v with |v - v*| < eps/2 *)
Theorem mpi_value_eps_half v_init eps cap k vout sg it vstar :
  0 < eps ->
  (forall v0, v_init = Some v0 -> length v0 = n) ->
  modified_policy_iteration d v_init eps cap k = Some (vout, sg, it, true) ->
  length vstar = n -> (forall s, (s < n)%nat -> Tv_at d vstar s == nth s vstar 0) ->
  forall s, (s < n)%nat -> Qabs (nth s vout 0 - nth s vstar 0) < eps / 2.
Proof.
  intros Heps Hinit Hrun Ls Fs s Hs. unfold modified_policy_iteration in Hrun.
  apply mpi_loop_stopped in Hrun.
  2:{ destruct v_init as [x|]; [apply Hinit; reflexivity|apply repeat_length]. }
  destruct Hrun as (v & Lv & Hlt & -> & _).
  set (u := bellman_operator d v) in *. set (diff := vsub u v) in *.
  assert (Lu : length u = n) by apply bellman_length.
  assert (Ld : length diff = n) by (unfold diff, vsub; rewrite map2_length; lia).
  assert (Hdiff : forall i, (i < n)%nat -> nth i diff 0 == Tv_at d v i - nth i v 0).
  { intros i Hi. unfold diff, vsub. rewrite (nth_map2 _ 0 0 0) by lia. rewrite nsub_Q, Qsubr_eq. reflexivity. }
  set (m := lmin diff) in *. set (M := lmax diff) in *.
  assert (Hb : forall i, (i < n)%nat -> m <= Tv_at d v i - nth i v 0 <= M).
  { intros i Hi. rewrite <- (Hdiff i Hi). split; [apply lmin_le|apply lmax_ge]; lia. }
  pose proof (span_bounds v vstar m M Lv Ls Fs Hb s Hs) as [B1 B2].
  destruct (st_beta d Hst) as [Hb0 Hb1].
  (* the returned entry *)
  assert (Eout : nth s (map (fun x => nadd x (ndiv (nmul (midrange diff) beta) (nsub none_ beta))) u) 0
                 == Tv_at d v s + (m + M) / 2 * beta / (1 - beta)).
  { rewrite (nth_map_in _ _ _ 0) by lia. unfold midrange, two.
    change (@nadd Q NumQ) with Qaddr. change (@nmul Q NumQ) with Qmulr. change (@nsub Q NumQ) with Qsubr.
    change (@ndiv Q NumQ) with Qdivr. change (@none_ Q NumQ) with 1.
    rewrite (Qaddr_eq (nth s u 0) _). rewrite (Qdivr_eq (Qmulr _ _) _). rewrite (Qmulr_eq _ beta), Qsubr_eq.
    rewrite (Qdivr_eq (Qaddr (lmin diff) (lmax diff)) _). rewrite !Qaddr_eq. fold m M. unfold Tv_at, u.
    assert (E2 : 1 + 1 == 2) by lra. rewrite E2. reflexivity. }
  rewrite Eout.
  assert (Hspan : span diff == M - m) by (unfold span; rewrite nsub_Q, Qsubr_eq; reflexivity).
  assert (HmM : m <= M) by (specialize (Hb s Hs); lra).
  assert (Ediv1 : beta * (m / (1 - beta)) == m * beta / (1 - beta)) by (field; lra).
  assert (Ediv2 : beta * (M / (1 - beta)) == M * beta / (1 - beta)) by (field; lra).
  assert (Emid : (m + M) / 2 * beta / (1 - beta) == (m * beta / (1 - beta) + M * beta / (1 - beta)) / 2) by (field; lra).
  rewrite Ediv1 in B1. rewrite Ediv2 in B2. rewrite Emid.
  set (a := m * beta / (1 - beta)) in *. set (b := M * beta / (1 - beta)) in *.
  assert (Hba : b - a == (M - m) * beta / (1 - beta)) by (unfold a, b; field; lra).
  assert (Hlt' : b - a < eps).
  { destruct (Qlt_le_dec 0 beta) as [Hpos|Hz].
    - destruct (mpi_tol_spec eps beta Hpos) as (t & Et & Ht). rewrite Et in Hlt. cbn [lt_tol nltb NumQ] in Hlt.
      apply Qltb_lt in Hlt. rewrite Hspan, Ht in Hlt. rewrite Hba.
      assert (X : (M - m) * beta < eps * (1 - beta) / beta * beta) by (apply Qmult_lt_r; assumption).
      assert (Et2 : eps * (1 - beta) / beta * beta == eps * (1 - beta)) by (field; lra).
      rewrite Et2 in X. apply Qlt_shift_div_r; [lra|]. lra.
    - assert (beta == 0). { apply Qle_antisym; assumption. } rewrite Hba. assert ((M - m) * beta / (1 - beta) == 0) by (rewrite H; field). lra. }
  clearbody a b. clear - B1 B2 Hlt'. apply Qabs_Qlt_condition. assert (E : forall x, x / 2 == x * (1#2)) by (intro; field). rewrite !E. split; lra.
Qed.
End MPI.

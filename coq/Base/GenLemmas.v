(* Generic lemmas about the list / 2-d array helpers of Gen/Kernels.v and Gen/Kernels2.v (upd_nth, inb, widx, row2, get2,
   set2, inb2, fill1/fill2 ...), shared by all tie proofs.  No statement here mentions a generated kernel, so an edit of a
   kernel in /repo cannot break this file. *)
From Coq Require Import ZArith List Bool Arith Lia.
From QE Require Import Base.Num Base.Pivot Gen.Kernels Gen.Kernels2.
Import ListNotations.

(* ------------------------------------------------------------------ lists *)
Definition zs (l : list nat) : list Z := map Z.of_nat l.
Lemma zs_length l : length (zs l) = length l. Proof. apply map_length. Qed.
Lemma zs_app a b : zs (a ++ b) = zs a ++ zs b. Proof. apply map_app. Qed.
Lemma nth_zs l i : nth i (zs l) 0%Z = Z.of_nat (nth i l 0%nat).
Proof. unfold zs. change 0%Z with (Z.of_nat 0). apply map_nth. Qed.

Lemma upd_nth_length {A} : forall (l : list A) i v, length (upd_nth l i v) = length l.
Proof. induction l as [|x l IH]; intros [|i] v; cbn; try reflexivity. rewrite IH. reflexivity. Qed.
Lemma nth_upd_nth_eq {A} (d : A) : forall (l : list A) i v, (i < length l)%nat -> nth i (upd_nth l i v) d = v.
Proof. induction l as [|x l IH]; intros [|i] v Hl; cbn in *; try lia; [reflexivity|]. apply IH. lia. Qed.
Lemma nth_upd_nth_neq {A} (d : A) : forall (l : list A) i k v, k <> i -> nth k (upd_nth l i v) d = nth k l d.
Proof.
  induction l as [|x l IH]; intros [|i] [|k] v Hk; cbn; try reflexivity; try lia.
  apply IH. lia.
Qed.
Lemma upd_nth_zs l p v : upd_nth (zs l) p (Z.of_nat v) = zs (upd_nth l p v).
Proof. revert p. induction l as [|x l IH]; intros [|p]; cbn; try reflexivity. rewrite IH. reflexivity. Qed.
Lemma upd_nth_app_l {A} : forall (pre : list A) c tl p, (p <= length pre)%nat ->
  upd_nth (pre ++ c :: tl) p c = upd_nth (pre ++ [c]) p c ++ tl.
Proof.
  induction pre as [|x pre IH]; intros c tl [|p] Hp; cbn in *; try reflexivity; try lia.
  - rewrite <- app_assoc. reflexivity.
  - rewrite IH by lia. reflexivity.
Qed.
Lemma upd_nth_mid {A} (pre : list A) x v rest : upd_nth (pre ++ x :: rest) (length pre) v = pre ++ v :: rest.
Proof. induction pre as [|p pre IH]; cbn; [reflexivity|]. rewrite IH. reflexivity. Qed.
Lemma firstn_S_upd_nth {A} : forall (l : list A) p v, (p < length l)%nat ->
  firstn (S p) (upd_nth l p v) = firstn p l ++ [v].
Proof.
  induction l as [|x l IH]; intros [|p] v Hp; cbn in *; try lia; [reflexivity|].
  f_equal. apply IH. lia.
Qed.
Lemma firstn_app_le {A} (a b : list A) n : (n <= length a)%nat -> firstn n (a ++ b) = firstn n a.
Proof. intro Hn. rewrite firstn_app. replace (n - length a)%nat with 0%nat by lia. cbn. apply app_nil_r. Qed.

Lemma inb_nat {A} (l : list A) i : (i < length l)%nat -> inb (Z.of_nat i) l = true.
Proof. intro Hl. unfold inb. apply andb_true_intro. split; [apply Z.leb_le|apply Z.ltb_lt]; lia. Qed.

(* ------------------------------------------------------------------ 2-d access *)
Section Tie.
Context {T : Type} {NT : Num T}.
Notation mat := (list (list T)).

Definition rect (nr nc : nat) (M : mat) : Prop := length M = nr /\ forall i, (i < nr)%nat -> length (nth i M []) = nc.

Lemma widx_nat i n : widx (Z.of_nat i) n = Z.of_nat i.
Proof. unfold widx. destruct (Z.of_nat i <? 0)%Z eqn:E; [apply Z.ltb_lt in E; lia|reflexivity]. Qed.
Lemma widx_m1 n : (0 < n)%nat -> widx (-1) n = Z.of_nat (n - 1).
Proof. intro Hn. unfold widx. replace (-1 <? 0)%Z with true by reflexivity. lia. Qed.
Lemma row2_nat (M : mat) i : row2 M (Z.of_nat i) = nth i M [].
Proof. unfold row2. rewrite widx_nat, Nat2Z.id. reflexivity. Qed.
Lemma get2_nat (M : mat) i j : get2 M (Z.of_nat i) (Z.of_nat j) = get M i j.
Proof. unfold get2, get. rewrite row2_nat, widx_nat, Nat2Z.id. reflexivity. Qed.
Lemma get2_m1 (M : mat) i : (0 < length (nth i M []))%nat ->
  get2 M (Z.of_nat i) (-1) = get M i (length (nth i M []) - 1).
Proof. intro Hl. unfold get2, get. rewrite row2_nat, widx_m1, Nat2Z.id by exact Hl. reflexivity. Qed.
Lemma set2_nat (M : mat) i j v :
  set2 M (Z.of_nat i) (Z.of_nat j) v = upd_nth M i (upd_nth (nth i M []) j v).
Proof. unfold set2. rewrite row2_nat, !widx_nat, !Nat2Z.id. reflexivity. Qed.
Lemma inb2_nat (M : mat) i j : (i < length M)%nat -> (j < length (nth i M []))%nat ->
  inb2 (Z.of_nat i) (Z.of_nat j) M = true.
Proof. intros Hi Hj. unfold inb2. rewrite row2_nat, !widx_nat, !inb_nat by assumption. reflexivity. Qed.
Lemma inb2_m1 (M : mat) i : (i < length M)%nat -> (0 < length (nth i M []))%nat ->
  inb2 (Z.of_nat i) (-1) M = true.
Proof.
  intros Hi Hj. unfold inb2. rewrite row2_nat, widx_nat, widx_m1, !inb_nat by (assumption || lia). reflexivity.
Qed.

Lemma rect_upd_row nr nc (M : mat) i row : rect nr nc M -> length row = nc -> rect nr nc (upd_nth M i row).
Proof.
  intros [Hl Hr] Hrow. split; [rewrite upd_nth_length; exact Hl|].
  intros k Hk. destruct (Nat.eq_dec k i) as [->|Hne].
  - rewrite nth_upd_nth_eq by lia. exact Hrow.
  - rewrite nth_upd_nth_neq by exact Hne. apply Hr, Hk.
Qed.

(* ------------------------------------------------------------------ _pivoting *)
(* for j = j0 .. j0+f-1: row[j] := g j row[j] *)
Fixpoint row_loop (g : nat -> T -> T) (f j : nat) (row : list T) : list T :=
  match f with O => row | S f' => row_loop g f' (S j) (upd_nth row j (g j (nth j row nzero))) end.

Lemma row_loop_spec g : forall rest pre, row_loop g (length rest) (length pre) (pre ++ rest) = pre ++ mapi_from g (length pre) rest.
Proof.
  induction rest as [|x rest IH]; intros pre; cbn [length row_loop mapi_from]; [reflexivity|].
  rewrite app_nth2, Nat.sub_diag by lia. cbn [nth]. rewrite upd_nth_mid.
  replace (pre ++ g (length pre) x :: rest) with ((pre ++ [g (length pre) x]) ++ rest) by (rewrite <- app_assoc; reflexivity).
  replace (S (length pre)) with (length (pre ++ [g (length pre) x])) by (rewrite app_length; cbn; lia).
  rewrite IH, <- app_assoc. reflexivity.
Qed.
Lemma row_loop_full g row : row_loop g (length row) 0 row = mapi g row.
Proof. apply (row_loop_spec g row []). Qed.
Lemma row_loop_length g : forall f j row, length (row_loop g f j row) = length row.
Proof. induction f as [|f IH]; intros j row; cbn [row_loop]; [reflexivity|]. rewrite IH. apply upd_nth_length. Qed.

Lemma mapi_from_const {A B} (h : A -> B) : forall l s, mapi_from (fun _ x => h x) s l = map h l.
Proof. induction l as [|x l IH]; intros s; cbn; [reflexivity|]. rewrite IH. reflexivity. Qed.
Lemma mapi_from_map2 (h : T -> T -> T) : forall (row prow : list T) s pre, length pre = s -> length prow = length row ->
  mapi_from (fun j x => h x (nth j (pre ++ prow) nzero)) s row = map2 h row prow.
Proof.
  induction row as [|x row IH]; intros [|y prow] s pre Hs Hl; cbn in *; try reflexivity; try discriminate.
  rewrite app_nth2, <- Hs, Nat.sub_diag by lia. cbn [nth]. f_equal.
  replace (pre ++ y :: prow) with ((pre ++ [y]) ++ prow) by (rewrite <- app_assoc; reflexivity).
  apply IH; [rewrite app_length; cbn; lia|lia].
Qed.

Lemma upd_nth_same (M : mat) : forall r, upd_nth M r (nth r M []) = M.
Proof. induction M as [|x M IHM]; intros [|r]; cbn; try reflexivity. f_equal. apply IHM. Qed.
Lemma upd_nth_twice {A} : forall (l : list A) i a b, upd_nth (upd_nth l i a) i b = upd_nth l i b.
Proof. induction l as [|x l IH]; intros [|i] a b; cbn; try reflexivity. f_equal. apply IH. Qed.
Lemma length_map2 {A B C} (h : A -> B -> C) : forall a b, length (map2 h a b) = Nat.min (length a) (length b).
Proof. induction a as [|x a IH]; intros [|y b]; cbn; try reflexivity. rewrite IH. reflexivity. Qed.

End Tie.

Lemma inb_0 {A} (l : list A) : (0 < length l)%nat -> inb 0 l = true.
Proof. apply (inb_nat l 0). Qed.

Section SliceStores.
Context {T : Type} {NT : Num T}.
(* ------------------------------------------------------------------ slice stores of Gen/Kernels2.v *)
Lemma mapz_from_length {A} (f : Z -> A -> A) : forall l s, length (mapz_from f s l) = length l.
Proof. induction l as [|x l IH]; intros s; cbn; [reflexivity|]. rewrite IH. reflexivity. Qed.
Lemma nth_mapz_from {A} (f : Z -> A -> A) (d : A) : forall l s k, (k < length l)%nat ->
  nth k (mapz_from f s l) d = f (s + Z.of_nat k)%Z (nth k l d).
Proof.
  induction l as [|x l IH]; intros s [|k] Hk; cbn [length mapz_from nth] in *; try lia.
  - rewrite Z.add_0_r. reflexivity.
  - rewrite IH by lia. f_equal. lia.
Qed.
Lemma bnd_val_0 n : bnd_val (Bnd 0) n = 0%Z.
Proof. unfold bnd_val, widx. cbn. lia. Qed.
Lemma bnd_val_nat k n : (k <= n)%nat -> bnd_val (Bnd (Z.of_nat k)) n = Z.of_nat k.
Proof. intro H. unfold bnd_val. rewrite widx_nat. lia. Qed.

Lemma nth_repeat_lt {A} (v d : A) : forall n k, (k < n)%nat -> nth k (repeat v n) d = v.
Proof. induction n as [|n IH]; intros [|k] Hk; cbn; try lia; [reflexivity|]. apply IH. lia. Qed.
Lemma fill1_all (r : list T) v : fill1 r (Sl (Bnd 0) BndEnd) v = repeat v (length r).
Proof.
  apply (nth_ext _ _ nzero nzero); [unfold fill1; rewrite mapz_from_length, repeat_length; reflexivity|].
  intros k Hk. unfold fill1 in *. rewrite mapz_from_length in Hk. rewrite nth_mapz_from by exact Hk.
  cbn [sel_lo sel_hi]. rewrite bnd_val_0. cbn [bnd_val].
  replace (0 <=? 0 + Z.of_nat k)%Z with true by (symmetry; apply Z.leb_le; lia).
  replace (0 + Z.of_nat k <? Z.of_nat (length r))%Z with true by (symmetry; apply Z.ltb_lt; lia).
  cbn [andb]. symmetry. apply nth_repeat_lt, Hk.
Qed.

Lemma mapi_from_length {A B} (f : nat -> A -> B) : forall l s, length (mapi_from f s l) = length l.
Proof. induction l as [|x l IH]; intros s; cbn; [reflexivity|]. rewrite IH. reflexivity. Qed.
Lemma mapi_from_nth {A B} (f : nat -> A -> B) (d : A) (d' : B) : forall l s i, (i < length l)%nat ->
  nth i (mapi_from f s l) d' = f (s + i)%nat (nth i l d).
Proof.
  induction l as [|x l IH]; intros s [|i] Hi; cbn [length mapi_from nth] in *; try lia.
  - rewrite Nat.add_0_r. reflexivity.
  - rewrite IH by lia. f_equal. lia.
Qed.
Lemma tabv_length {A} (g : nat -> A) m : length (tabv m g) = m.
Proof. unfold tabv. rewrite map_length, seq_length. reflexivity. Qed.
Lemma nth_tabv_lt {A} (g : nat -> A) m k d : (k < m)%nat -> nth k (tabv m g) d = g k.
Proof.
  intro Hk. unfold tabv. rewrite (nth_indep _ d (g 0%nat)) by (rewrite map_length, seq_length; exact Hk).
  rewrite map_nth, seq_nth by exact Hk. reflexivity.
Qed.
End SliceStores.

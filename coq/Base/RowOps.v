(* Generic lemmas about row-wise in-place updates of list-of-rows matrices (helpers of Gen/Kernels2.v), shared by the
   tie proofs of several properties.  No statement here mentions a generated kernel. *)
From Coq Require Import ZArith List Bool Arith Lia.
From QE Require Import Base.Num Base.Pivot Gen.Kernels Gen.Kernels2 Base.GenLemmas.
Import ListNotations.

Section RowOps.
Context {T : Type} {NT : Num T}.
Notation mat := (list (list T)).

Lemma nth_row_loop (g : nat -> T -> T) : forall f j row k, (j + f <= length row)%nat ->
  nth k (row_loop g f j row) nzero =
    if Nat.leb j k && Nat.ltb k (j + f) then g k (nth k row nzero) else nth k row nzero.
Proof.
  induction f as [|f IH]; intros j row k Hj; cbn [row_loop].
  - replace (Nat.ltb k (j + 0)) with (Nat.ltb k j) by (f_equal; lia).
    destruct (Nat.leb j k) eqn:E1; cbn [andb]; [|reflexivity].
    apply Nat.leb_le in E1. replace (Nat.ltb k j) with false by (symmetry; apply Nat.ltb_ge; lia). reflexivity.
  - rewrite IH by (rewrite upd_nth_length; lia).
    destruct (Nat.eq_dec k j) as [->|Hne].
    + rewrite nth_upd_nth_eq by lia.
      replace (Nat.leb (S j) j) with false by (symmetry; apply Nat.leb_gt; lia). cbn [andb].
      rewrite Nat.leb_refl. replace (Nat.ltb j (j + S f)) with true by (symmetry; apply Nat.ltb_lt; lia). reflexivity.
    + rewrite nth_upd_nth_neq by exact Hne.
      assert (E : Nat.leb (S j) k && Nat.ltb k (S j + f) = Nat.leb j k && Nat.ltb k (j + S f)).
      { destruct (Nat.leb (S j) k) eqn:A, (Nat.ltb k (S j + f)) eqn:B, (Nat.leb j k) eqn:C, (Nat.ltb k (j + S f)) eqn:D;
          try reflexivity; exfalso;
          repeat match goal with
                 | H : Nat.leb _ _ = true |- _ => apply Nat.leb_le in H
                 | H : Nat.leb _ _ = false |- _ => apply Nat.leb_gt in H
                 | H : Nat.ltb _ _ = true |- _ => apply Nat.ltb_lt in H
                 | H : Nat.ltb _ _ = false |- _ => apply Nat.ltb_ge in H
                 end; lia. }
      rewrite E. reflexivity.
Qed.

(* rows s+i, i in `is`, each rewritten by G i *)
Definition rows_upd (s : nat) (G : nat -> list T -> list T) (is : list nat) (M : mat) : mat :=
  fold_left (fun M i => upd_nth M (s + i) (G i (nth (s + i) M []))) is M.
Lemma rows_upd_cons s G i is M :
  rows_upd s G (i :: is) M = rows_upd s G is (upd_nth M (s + i) (G i (nth (s + i) M []))).
Proof. reflexivity. Qed.
Lemma rows_upd_length s G : forall is M, length (rows_upd s G is M) = length M.
Proof. induction is as [|i is IH]; intros M; [reflexivity|]. rewrite rows_upd_cons, IH. apply upd_nth_length. Qed.
Lemma rows_upd_nth s G : forall f i0 (M : mat) r, (s + i0 + f <= length M)%nat ->
  nth r (rows_upd s G (seq i0 f) M) [] =
    if Nat.leb (s + i0) r && Nat.ltb r (s + i0 + f) then G (r - s)%nat (nth r M []) else nth r M [].
Proof.
  induction f as [|f IH]; intros i0 M r Hl; cbn [seq]; [cbn [rows_upd fold_left]|rewrite rows_upd_cons].
  - destruct (Nat.leb (s + i0) r) eqn:E; cbn [andb]; [|reflexivity]. apply Nat.leb_le in E.
    replace (Nat.ltb r (s + i0 + 0)) with false by (symmetry; apply Nat.ltb_ge; lia). reflexivity.
  - rewrite IH by (rewrite upd_nth_length; lia).
    destruct (Nat.eq_dec r (s + i0)) as [->|Hne].
    + replace (Nat.leb (s + S i0) (s + i0)) with false by (symmetry; apply Nat.leb_gt; lia). cbn [andb].
      rewrite Nat.leb_refl. replace (Nat.ltb (s + i0) (s + i0 + S f)) with true by (symmetry; apply Nat.ltb_lt; lia).
      cbn [andb]. rewrite nth_upd_nth_eq by lia. f_equal. lia.
    + rewrite nth_upd_nth_neq by exact Hne.
      assert (E : Nat.leb (s + S i0) r && Nat.ltb r (s + S i0 + f) = Nat.leb (s + i0) r && Nat.ltb r (s + i0 + S f)).
      { destruct (Nat.leb (s + S i0) r) eqn:A, (Nat.ltb r (s + S i0 + f)) eqn:B, (Nat.leb (s + i0) r) eqn:C,
                 (Nat.ltb r (s + i0 + S f)) eqn:D; try reflexivity; exfalso;
          repeat match goal with
                 | H : Nat.leb _ _ = true |- _ => apply Nat.leb_le in H
                 | H : Nat.leb _ _ = false |- _ => apply Nat.leb_gt in H
                 | H : Nat.ltb _ _ = true |- _ => apply Nat.ltb_lt in H
                 | H : Nat.ltb _ _ = false |- _ => apply Nat.ltb_ge in H
                 end; lia. }
      rewrite E. reflexivity.
Qed.
Lemma rows_upd_rect s G nr nc : (forall i row, length row = nc -> length (G i row) = nc) ->
  forall is M, rect nr nc M -> rect nr nc (rows_upd s G is M).
Proof.
  intros HG. induction is as [|i is IH]; intros M HM; [exact HM|]. rewrite rows_upd_cons. apply IH.
  destruct (Nat.lt_ge_cases (s + i) nr) as [Hi|Hi].
  - apply rect_upd_row; [exact HM|]. apply HG, HM, Hi.
  - destruct HM as [Hl Hr]. replace (upd_nth M (s + i) (G i (nth (s + i) M []))) with M; [split; assumption|].
    clear - Hl Hi. revert Hi. rewrite <- Hl. generalize (s + i)%nat (G i (nth (s + i) M [])). clear.
    induction M as [|x M IH]; intros [|k] v Hk; cbn in *; try reflexivity; try lia. f_equal. apply IH. lia.
Qed.

Lemma nth_upd_nth_if {A} (d : A) (l : list A) i kk v : (i < length l)%nat ->
  nth kk (upd_nth l i v) d = if Nat.eqb kk i then v else nth kk l d.
Proof.
  intro Hi. destruct (Nat.eqb kk i) eqn:E.
  - apply Nat.eqb_eq in E. subst kk. apply nth_upd_nth_eq, Hi.
  - apply Nat.eqb_neq in E. apply nth_upd_nth_neq, E.
Qed.

Lemma fold_left_ext_in {A B} (f g : A -> B -> A) : forall l a, (forall a b, In b l -> f a b = g a b) ->
  fold_left f l a = fold_left g l a.
Proof.
  induction l as [|x l IH]; intros a H; cbn; [reflexivity|]. rewrite H by (left; reflexivity).
  apply IH. intros a' b Hb. apply H. right. exact Hb.
Qed.

Lemma upd_nth_self {B} (d : B) : forall (l : list B) k, upd_nth l k (nth k l d) = l.
Proof. induction l as [|x l IH]; intros [|k]; cbn; try reflexivity. f_equal. apply IH. Qed.
End RowOps.

(* Arithmetic signature shared by every algorithmic model.
   NumQ : exact rationals (theorems of exact mathematics are proved here)
   NumF : IEEE binary64 via PrimFloat (bit-exact runs against Numba kernels) *)
From Coq Require Import ZArith QArith List Bool PrimFloat.
Import ListNotations.

Class Num (T : Type) := {
  nzero : T; none_ : T;
  nadd : T -> T -> T; nmul : T -> T -> T; nsub : T -> T -> T; ndiv : T -> T -> T;
  nltb : T -> T -> bool; nleb : T -> T -> bool; neqb : T -> T -> bool;
}.

Definition Qltb (a b : Q) : bool := negb (Qle_bool b a).

(* Qred after each operation keeps numerators small on long runs; it is
   Qeq-neutral (Qred_correct), so theorems up to == are unaffected. *)
Definition Qaddr (a b : Q) : Q := Qred (a + b).
Definition Qmulr (a b : Q) : Q := Qred (a * b).
Definition Qsubr (a b : Q) : Q := Qred (a - b).
Definition Qdivr (a b : Q) : Q := Qred (a / b).

#[global] Instance NumQ : Num Q := {|
  nzero := 0%Q; none_ := 1%Q;
  nadd := Qaddr; nmul := Qmulr; nsub := Qsubr; ndiv := Qdivr;
  nltb := Qltb; nleb := Qle_bool; neqb := Qeq_bool |}.

#[global] Instance NumF : Num float := {|
  nzero := 0%float; none_ := 1%float;
  nadd := PrimFloat.add; nmul := PrimFloat.mul; nsub := PrimFloat.sub; ndiv := PrimFloat.div;
  nltb := PrimFloat.ltb; nleb := PrimFloat.leb; neqb := PrimFloat.eqb |}.

#[global] Instance NumZ : Num Z := {|
  nzero := 0%Z; none_ := 1%Z;
  nadd := Z.add; nmul := Z.mul; nsub := Z.sub; ndiv := Z.div;
  nltb := Z.ltb; nleb := Z.leb; neqb := Z.eqb |}.

Lemma Qltb_lt a b : Qltb a b = true <-> (a < b)%Q.
Proof.
  unfold Qltb. rewrite negb_true_iff.
  destruct (Qle_bool b a) eqn:E.
  - apply Qle_bool_iff in E. split; [discriminate|]. intro H. exfalso. apply (Qlt_not_le _ _ H E).
  - split; [|reflexivity]. intros _. apply Qnot_le_lt. intro H. apply Qle_bool_iff in H. congruence.
Qed.

Lemma Qaddr_eq a b : (Qaddr a b == a + b)%Q. Proof. apply Qred_correct. Qed.
Lemma Qmulr_eq a b : (Qmulr a b == a * b)%Q. Proof. apply Qred_correct. Qed.
Lemma Qsubr_eq a b : (Qsubr a b == a - b)%Q. Proof. apply Qred_correct. Qed.
Lemma Qdivr_eq a b : (Qdivr a b == a / b)%Q. Proof. apply Qred_correct. Qed.

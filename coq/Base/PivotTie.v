(* Tie lemmas between the pivoting kernels REGENERATED from /repo's current source
   (Gen/Kernels2.v: bounds-checked translation of quantecon/optimize/pivoting.py) and the hand-written
   model Base/Pivot.v, for every Num instance:
     gen_pivoting M c r                       = (pivoting M c r, true)
     gen_min_ratio_test_no_tie_breaking ...   = ((|res|, argmins with prefix res), true),  res = min_ratio_test ...
     gen_lex_min_ratio_test ...               = (((found, row), argmins'), true),          (found,row) = lex_min_ratio_test ...
   for rectangular tableaux and in-range indices.  `true` is the bounds flag: no read or store outside
   the arrays.  The generated code takes np.inf as a parameter inf_; the model represents it by None.  The ratio
   tests agree when inf_ behaves like +infinity on the ratios that are compared with it (inf_like). *)
From Coq Require Import ZArith List Bool Arith Lia.
From QE Require Import Base.Num Base.Pivot Gen.Kernels Gen.Kernels2.
From QE Require Export Base.GenLemmas.
Import ListNotations.


Section Tie.
Context {T : Type} {NT : Num T}.
Notation mat := (list (list T)).

(* ------------------------------------------------------------------ _pivoting *)
Lemma pivoting_loop0_tie r p : forall f j (M : mat) ok,
  (r < length M)%nat -> (j + f <= length (nth r M []))%nat ->
  gen_pivoting_loop0 f (Z.of_nat j) M ok (Z.of_nat r) p =
    (upd_nth M r (row_loop (fun _ x => ndiv x p) f j (nth r M [])), ok).
Proof.
  induction f as [|f IH]; intros j M ok Hr Hj; cbn [gen_pivoting_loop0 row_loop].
  - f_equal. clear Hj. revert r Hr. induction M as [|x M IHM]; intros [|r] Hr; cbn in *; try lia; [reflexivity|].
    f_equal. apply IHM. lia.
  - rewrite inb2_nat by lia. rewrite !andb_true_r, set2_nat, get2_nat.
    replace (Z.of_nat j + 1)%Z with (Z.of_nat (S j)) by lia.
    rewrite IH.
    + rewrite nth_upd_nth_eq by exact Hr. unfold get.
      f_equal. clear. revert r. induction M as [|x M IHM]; intros [|r]; cbn; try reflexivity. f_equal. apply IHM.
    + rewrite upd_nth_length. exact Hr.
    + rewrite nth_upd_nth_eq by exact Hr. rewrite upd_nth_length. lia.
Qed.

Lemma pivoting_loop2_tie r i m : forall f j (M : mat) ok,
  i <> r -> (i < length M)%nat -> (r < length M)%nat ->
  (j + f <= length (nth i M []))%nat -> (j + f <= length (nth r M []))%nat ->
  gen_pivoting_loop2 f (Z.of_nat j) M ok (Z.of_nat r) (Z.of_nat i) m =
    (upd_nth M i (row_loop (fun j x => nsub x (nmul (nth j (nth r M []) nzero) m)) f j (nth i M [])), ok).
Proof.
  induction f as [|f IH]; intros j M ok Hne Hi Hr Hji Hjr; cbn [gen_pivoting_loop2 row_loop].
  - rewrite upd_nth_same. reflexivity.
  - rewrite !inb2_nat by lia. rewrite !andb_true_r, set2_nat, !get2_nat.
    replace (Z.of_nat j + 1)%Z with (Z.of_nat (S j)) by lia.
    rewrite IH.
    + rewrite nth_upd_nth_eq by exact Hi. rewrite nth_upd_nth_neq by (intro E; apply Hne; symmetry; exact E).
      rewrite upd_nth_twice. unfold get. reflexivity.
    + exact Hne.
    + rewrite upd_nth_length. exact Hi.
    + rewrite upd_nth_length. exact Hr.
    + rewrite nth_upd_nth_eq by exact Hi. rewrite upd_nth_length. lia.
    + rewrite nth_upd_nth_neq by (intro E; apply Hne; symmetry; exact E). lia.
Qed.

(* the row transformation of the elimination loop; prow' is the already normalised pivot row *)
Definition piv_row (prow' : list T) (c r : nat) (i : nat) (row : list T) : list T :=
  if Nat.eqb i r then row
  else let m := vget row c in
       if neqb m nzero then row else map2 (fun x y => nsub x (nmul y m)) row prow'.

Lemma Zeqb_nat a b : (Z.of_nat a =? Z.of_nat b)%Z = Nat.eqb a b.
Proof.
  destruct (Nat.eqb a b) eqn:E.
  - apply Nat.eqb_eq in E. subst. apply Z.eqb_refl.
  - apply Nat.eqb_neq in E. apply Z.eqb_neq. lia.
Qed.

Lemma pivoting_loop1_tie nc c r prow' : length prow' = nc -> (c < nc)%nat ->
  forall rest pre ok,
   (r < length (pre ++ rest))%nat -> nth r (pre ++ rest) [] = prow' ->
   (forall row, In row (pre ++ rest) -> length row = nc) ->
   gen_pivoting_loop1 (length rest) (Z.of_nat (length pre)) (pre ++ rest) ok (Z.of_nat c) (Z.of_nat r) (Z.of_nat nc)
   = (pre ++ mapi_from (piv_row prow' c r) (length pre) rest, ok).
Proof.
  intros Hp Hc. induction rest as [|x rest IH]; intros pre ok Hr Hpr Hrows; cbn [length gen_pivoting_loop1 mapi_from].
  - reflexivity.
  - assert (Hstep : forall x', length x' = nc -> (length pre = r -> x' = x) ->
      gen_pivoting_loop1 (length rest) (Z.of_nat (length pre) + 1) (pre ++ x' :: rest) ok (Z.of_nat c) (Z.of_nat r) (Z.of_nat nc)
      = (pre ++ x' :: mapi_from (piv_row prow' c r) (S (length pre)) rest, ok)).
    { intros x' Hx' Hsame.
      replace (Z.of_nat (length pre) + 1)%Z with (Z.of_nat (length (pre ++ [x']))) by (rewrite app_length; cbn; lia).
      replace (pre ++ x' :: rest) with ((pre ++ [x']) ++ rest) by (rewrite <- app_assoc; reflexivity).
      rewrite IH.
      - rewrite <- app_assoc. cbn [app]. rewrite app_length. cbn [length]. rewrite Nat.add_1_r. reflexivity.
      - rewrite <- app_assoc. cbn [app]. rewrite app_length in *. cbn [length] in *. exact Hr.
      - rewrite <- app_assoc. cbn [app]. rewrite <- Hpr.
        destruct (Nat.eq_dec (length pre) r) as [E|E].
        + rewrite (Hsame E). reflexivity.
        + destruct (Nat.lt_ge_cases r (length pre)) as [Hlt|Hge].
          * rewrite !app_nth1 by exact Hlt. reflexivity.
          * rewrite !app_nth2 by lia. destruct (r - length pre)%nat eqn:Er; [lia|]. reflexivity.
      - intros row Hin. rewrite <- app_assoc in Hin. cbn [app] in Hin. apply in_app_or in Hin.
        destruct Hin as [Hin|[Hin|Hin]].
        + apply Hrows. apply in_or_app. left. exact Hin.
        + subst row. exact Hx'.
        + apply Hrows. apply in_or_app. right. right. exact Hin. }
    assert (Hx : length x = nc) by (apply Hrows, in_or_app; right; left; reflexivity).
    rewrite Zeqb_nat. unfold piv_row at 1.
    destruct (Nat.eqb (length pre) r) eqn:Eir.
    + apply Hstep; [exact Hx|reflexivity].
    + apply Nat.eqb_neq in Eir.
      assert (Hnth : nth (length pre) (pre ++ x :: rest) [] = x) by (rewrite app_nth2, Nat.sub_diag by lia; reflexivity).
      assert (Hlen : (length pre < length (pre ++ x :: rest))%nat) by (rewrite app_length; cbn; lia).
      rewrite inb2_nat by (rewrite ?Hnth; lia). rewrite andb_true_r, get2_nat.
      unfold get. rewrite Hnth. fold (vget x c). cbv zeta.
      destruct (neqb (vget x c) nzero) eqn:Em.
      * apply Hstep; [exact Hx|reflexivity].
      * replace (Z.to_nat (Z.of_nat nc - 0)) with nc by lia.
        rewrite (pivoting_loop2_tie r (length pre) (vget x c) nc 0 (pre ++ x :: rest) ok Eir Hlen Hr)
          by (rewrite ?Hnth, ?Hpr; lia).
        rewrite Hnth, Hpr, upd_nth_mid. rewrite <- Hx at 1. rewrite row_loop_full. unfold mapi.
        rewrite (mapi_from_map2 (fun a b => nsub a (nmul b (vget x c))) x prow' 0 [] eq_refl) by lia.
        apply Hstep.
        -- rewrite length_map2. lia.
        -- intro E. exfalso. apply Eir. exact E.
Qed.

Lemma mapi_from_ext_nth {A B C} (F : nat -> A -> C) (G : nat -> B -> C) (da : A) (db : B) : forall l1 l2 s,
  length l1 = length l2 ->
  (forall k, (k < length l1)%nat -> F (s + k)%nat (nth k l1 da) = G (s + k)%nat (nth k l2 db)) ->
  mapi_from F s l1 = mapi_from G s l2.
Proof.
  induction l1 as [|x l1 IH]; intros [|y l2] s Hl Hk; cbn in *; try reflexivity; try discriminate.
  f_equal.
  - specialize (Hk 0%nat ltac:(lia)). rewrite Nat.add_0_r in Hk. exact Hk.
  - apply IH; [lia|]. intros k Hlt. specialize (Hk (S k) ltac:(lia)). rewrite Nat.add_succ_r in Hk. exact Hk.
Qed.

Theorem gen_pivoting_tie nr nc (M : mat) c r : rect nr nc M -> (r < nr)%nat -> (c < nc)%nat ->
  gen_pivoting M (Z.of_nat c) (Z.of_nat r) = (pivoting M c r, true).
Proof.
  intros [Hl Hrows] Hr Hc. unfold gen_pivoting. cbv zeta.
  assert (Hnc : ncols2 M = Z.of_nat nc) by (unfold ncols2; rewrite Hrows by lia; reflexivity).
  assert (Hnr : nrows2 M = Z.of_nat nr) by (unfold nrows2; rewrite Hl; reflexivity).
  rewrite Hnc, Hnr. rewrite inb2_nat by (rewrite ?Hrows; lia). rewrite get2_nat.
  replace (Z.to_nat (Z.of_nat nc - 0)) with nc by lia. replace (Z.to_nat (Z.of_nat nr - 0)) with nr by lia.
  cbn [andb].
  rewrite (pivoting_loop0_tie r (get M r c) nc 0 M true) by (rewrite ?Hrows; lia).
  rewrite <- (Hrows r Hr) at 1. rewrite row_loop_full. unfold mapi. rewrite mapi_from_const.
  set (prow' := map (fun x => ndiv x (get M r c)) (nth r M [])).
  assert (Hp' : length prow' = nc) by (unfold prow'; rewrite map_length; apply Hrows, Hr).
  pose proof (pivoting_loop1_tie nc c r prow' Hp' Hc (upd_nth M r prow') [] true) as L1.
  cbn [app length] in L1. rewrite upd_nth_length, Hl in L1. change (Z.of_nat 0) with 0%Z in L1.
  rewrite L1.
  - f_equal. unfold pivoting, mapi. cbv zeta. fold (get M r c). fold prow'.
    apply (mapi_from_ext_nth _ _ [] []); [apply upd_nth_length|].
    intros k Hk. rewrite upd_nth_length in Hk. cbn [Nat.add]. unfold piv_row.
    destruct (Nat.eqb k r) eqn:E.
    + apply Nat.eqb_eq in E. subst k. apply nth_upd_nth_eq. lia.
    + apply Nat.eqb_neq in E. rewrite nth_upd_nth_neq by exact E. reflexivity.
  - lia.
  - apply nth_upd_nth_eq. lia.
  - intros row Hin. apply (In_nth _ _ []) in Hin. destruct Hin as (k & Hk & <-). rewrite upd_nth_length in Hk.
    destruct (Nat.eq_dec k r) as [->|E].
    + rewrite nth_upd_nth_eq by lia. exact Hp'.
    + rewrite nth_upd_nth_neq by exact E. apply Hrows. lia.
Qed.
End Tie.

Section Mrt.
Context {T : Type} {NT : Num T}.
Notation mat := (list (list T)).

(* ------------------------------------------------------------------ facts about the model's ratio test (any Num) *)
Lemma mrt_loop_acc_nonempty (M : mat) pv tc tolp tolr : forall cands rmin acc,
  acc <> [] -> mrt_loop M pv tc tolp tolr cands rmin acc <> [].
Proof.
  induction cands as [|i cands IH]; intros rmin acc Ha; cbn [mrt_loop].
  - intro E. apply Ha. destruct acc; [reflexivity|]. cbn in E. destruct (rev acc); discriminate.
  - cbv zeta. destruct (nleb _ _); [apply IH, Ha|].
    destruct rmin as [rm|]; [|apply IH; discriminate].
    destruct (nltb (nadd rm tolr) _); [apply IH, Ha|].
    destruct (nltb _ (nsub rm tolr)); apply IH; discriminate.
Qed.

Lemma mrt_loop_In (M : mat) pv tc tolp tolr x : forall cands rmin acc,
  In x (mrt_loop M pv tc tolp tolr cands rmin acc) ->
  In x acc \/ (In x cands /\ nleb (get M x pv) tolp = false).
Proof.
  induction cands as [|i cands IH]; intros rmin acc Hx; cbn [mrt_loop] in Hx.
  - left. apply in_rev. exact Hx.
  - cbv zeta in Hx. destruct (nleb (get M i pv) tolp) eqn:E1.
    + destruct (IH _ _ Hx) as [H|[H1 H2]]; [left; exact H|right; split; [right; exact H1|exact H2]].
    + assert (Hgen : forall rmin' acc', (forall y, In y acc' -> In y acc \/ y = i) ->
                In x (mrt_loop M pv tc tolp tolr cands rmin' acc') ->
                In x acc \/ In x (i :: cands) /\ nleb (get M x pv) tolp = false).
      { intros rmin' acc' Hsub Hx'. destruct (IH _ _ Hx') as [H|[H1 H2]].
        - destruct (Hsub _ H) as [H' | ->]; [left; exact H'|right; split; [left; reflexivity|exact E1]].
        - right; split; [right; exact H1|exact H2]. }
      destruct rmin as [rm|].
      * destruct (nltb (nadd rm tolr) _).
        -- apply (Hgen _ _ (fun y Hy => or_introl Hy) Hx).
        -- destruct (nltb _ (nsub rm tolr)); apply (Hgen _ _) in Hx; try exact Hx.
           ++ intros y [<- | []]. right. reflexivity.
           ++ intros y [<- | Hy]; [right; reflexivity|left; exact Hy].
      * apply (Hgen _ _) in Hx; [exact Hx|]. intros y [<- | []]. right. reflexivity.
Qed.

Lemma mrt_loop_nonempty (M : mat) pv tc tolp tolr : forall cands rmin acc,
  (rmin <> None -> acc <> []) ->
  (exists i, In i cands /\ nleb (get M i pv) tolp = false) ->
  mrt_loop M pv tc tolp tolr cands rmin acc <> [].
Proof.
  induction cands as [|i cands IH]; intros rmin acc Hst (j & Hj & Hp); [destruct Hj|].
  cbn [mrt_loop]. cbv zeta. destruct (nleb (get M i pv) tolp) eqn:E1.
  - apply IH; [exact Hst|]. destruct Hj as [<- | Hj]; [congruence|]. exists j. split; assumption.
  - destruct rmin as [rm|].
    + assert (Ha : acc <> []) by (apply Hst; discriminate).
      destruct (nltb (nadd rm tolr) _); [apply mrt_loop_acc_nonempty, Ha|].
      destruct (nltb _ (nsub rm tolr)); apply mrt_loop_acc_nonempty; discriminate.
    + apply mrt_loop_acc_nonempty. discriminate.
Qed.

(* np.inf: the generated code receives it as inf_; what is needed of it on a ratio x *)
Definition inf_like (inf_ tolr x : T) : Prop :=
  nltb (nadd inf_ tolr) x = false /\ nltb x (nsub inf_ tolr) = true.
Definition st_rel (inf_ : T) (rmin : option T) (ratio_min : T) (acc : list nat) : Prop :=
  match rmin with None => ratio_min = inf_ /\ acc = [] | Some rm => ratio_min = rm end.

Section Loop.
Variables (M : mat) (nr nc pv tc : nat) (tcZ : Z) (inf_ tolp tolr : T).
Hypothesis HM : rect nr nc M.
Hypothesis Hpv : (pv < nc)%nat.
Hypothesis Htc : forall i, (i < nr)%nat -> get2 M (Z.of_nat i) tcZ = get M i tc /\ inb2 (Z.of_nat i) tcZ M = true.

Lemma mrt_loop0_tie : forall cands pre post rmin acc ratio_min ok,
  (length acc <= length pre)%nat -> firstn (length acc) pre = rev acc -> st_rel inf_ rmin ratio_min acc ->
  (forall i, In i cands -> (i < nr)%nat) ->
  (forall i, In i cands -> nleb (get M i pv) tolp = false -> inf_like inf_ tolr (ndiv (get M i tc) (get M i pv))) ->
  exists pre' rm',
    gen_min_ratio_test_no_tie_breaking_loop0 (length cands) (Z.of_nat (length pre)) ratio_min (Z.of_nat (length acc))
        (zs (pre ++ cands ++ post)) ok M (Z.of_nat pv) tcZ tolp tolr
      = (rm', Z.of_nat (length (mrt_loop M pv tc tolp tolr cands rmin acc)), zs (pre' ++ post), ok)
    /\ length pre' = (length pre + length cands)%nat
    /\ firstn (length (mrt_loop M pv tc tolp tolr cands rmin acc)) pre' = mrt_loop M pv tc tolp tolr cands rmin acc
    /\ (acc = [] -> mrt_loop M pv tc tolp tolr cands rmin acc = [] -> pre' = pre ++ cands).
Proof.
  induction cands as [|c cs IH]; intros pre post rmin acc ratio_min ok Hlen Hfst Hst Hin Hinf.
  - exists pre, ratio_min. cbn [length gen_min_ratio_test_no_tie_breaking_loop0 mrt_loop app].
    rewrite rev_length, Nat.add_0_r, app_nil_r. repeat split; try assumption.
  - destruct HM as [HMl HMr].
    assert (Hc : (c < nr)%nat) by (apply Hin; left; reflexivity).
    assert (Hk : (length pre < length (zs (pre ++ c :: cs ++ post)))%nat)
      by (rewrite zs_length, app_length; cbn; lia).
    cbn [length gen_min_ratio_test_no_tie_breaking_loop0 mrt_loop app]. cbv zeta.
    rewrite inb_nat by exact Hk. rewrite Nat2Z.id, nth_zs, app_nth2, Nat.sub_diag by lia. cbn [nth].
    rewrite inb2_nat by (rewrite ?HMr; lia). rewrite get2_nat, !andb_true_r.
    (* skipping the candidate *)
    assert (Hskip : exists pre' rm',
      gen_min_ratio_test_no_tie_breaking_loop0 (length cs) (Z.of_nat (length pre) + 1) ratio_min (Z.of_nat (length acc))
        (zs (pre ++ c :: cs ++ post)) ok M (Z.of_nat pv) tcZ tolp tolr
      = (rm', Z.of_nat (length (mrt_loop M pv tc tolp tolr cs rmin acc)), zs (pre' ++ post), ok)
      /\ length pre' = (length pre + S (length cs))%nat
      /\ firstn (length (mrt_loop M pv tc tolp tolr cs rmin acc)) pre' = mrt_loop M pv tc tolp tolr cs rmin acc
      /\ (acc = [] -> mrt_loop M pv tc tolp tolr cs rmin acc = [] -> pre' = pre ++ c :: cs)).
    { destruct (IH (pre ++ [c]) post rmin acc ratio_min ok) as (pre' & rm' & E & L & F & U).
      - rewrite app_length. lia.
      - rewrite firstn_app_le by exact Hlen. exact Hfst.
      - exact Hst.
      - intros i Hi. apply Hin. right. exact Hi.
      - intros i Hi. apply Hinf. right. exact Hi.
      - exists pre', rm'. rewrite app_length in E, L. cbn [length] in E, L.
        rewrite <- app_assoc in E, U. cbn [app] in E, U.
        replace (Z.of_nat (length pre) + 1)%Z with (Z.of_nat (length pre + 1)) by lia.
        repeat split; [exact E|lia|exact F|exact U]. }
    (* accepting the candidate: acc' = [c] (new minimum) or c :: acc (tie) *)
    assert (Hacc : forall acc' rmin' rmv, (acc' = [c] \/ acc' = c :: acc) -> st_rel inf_ rmin' rmv acc' ->
      exists pre' rm',
      gen_min_ratio_test_no_tie_breaking_loop0 (length cs) (Z.of_nat (length pre) + 1) rmv (Z.of_nat (length acc'))
        (upd_nth (zs (pre ++ c :: cs ++ post)) (length acc' - 1) (Z.of_nat c)) ok M (Z.of_nat pv) tcZ tolp tolr
      = (rm', Z.of_nat (length (mrt_loop M pv tc tolp tolr cs rmin' acc')), zs (pre' ++ post), ok)
      /\ length pre' = (length pre + S (length cs))%nat
      /\ firstn (length (mrt_loop M pv tc tolp tolr cs rmin' acc')) pre' = mrt_loop M pv tc tolp tolr cs rmin' acc'
      /\ (acc = [] -> mrt_loop M pv tc tolp tolr cs rmin' acc' = [] -> pre' = pre ++ c :: cs)).
    { intros acc' rmin' rmv Hacc' Hst'.
      assert (Hp : (length acc' - 1 <= length pre)%nat) by (destruct Hacc' as [->| ->]; cbn; lia).
      assert (Hla : length acc' = S (length acc' - 1)) by (destruct Hacc' as [->| ->]; cbn; lia).
      rewrite upd_nth_zs, upd_nth_app_l by exact Hp.
      destruct (IH (upd_nth (pre ++ [c]) (length acc' - 1) c) post rmin' acc' rmv ok) as (pre' & rm' & E & L & F & U).
      - rewrite upd_nth_length, app_length. cbn [length]. lia.
      - rewrite Hla at 1. rewrite firstn_S_upd_nth by (rewrite app_length; cbn [length]; lia).
        rewrite firstn_app_le by exact Hp.
        destruct Hacc' as [->| ->]; cbn [length rev app Nat.sub]; [reflexivity|].
        rewrite Nat.sub_0_r, Hfst. reflexivity.
      - exact Hst'.
      - intros i Hi. apply Hin. right. exact Hi.
      - intros i Hi. apply Hinf. right. exact Hi.
      - exists pre', rm'. rewrite upd_nth_length, app_length in E, L. cbn [length] in E, L.
        replace (Z.of_nat (length pre) + 1)%Z with (Z.of_nat (length pre + 1)) by lia.
        repeat split; [exact E|lia|exact F|].
        intros _ Hnil. exfalso. revert Hnil. apply mrt_loop_acc_nonempty.
        destruct Hacc' as [->| ->]; discriminate. }
    destruct (nleb (get M c pv) tolp) eqn:E1; [exact Hskip|].
    destruct (Htc c Hc) as [Hg Hb]. rewrite Hg, Hb, !andb_true_r.
    specialize (Hinf c (or_introl eq_refl) E1). destruct Hinf as [I1 I2].
    set (ratio := ndiv (get M c tc) (get M c pv)) in *.
    destruct rmin as [rm|]; cbn [st_rel] in Hst.
    + subst ratio_min. destruct (nltb (nadd rm tolr) ratio) eqn:E2; [exact Hskip|].
      destruct (nltb ratio (nsub rm tolr)) eqn:E3; cbv beta iota zeta.
      * change (1 - 1)%Z with (Z.of_nat 0).
        rewrite inb_nat by (rewrite zs_length, app_length; cbn; lia). rewrite andb_true_r, Nat2Z.id.
        apply (Hacc [c] (Some ratio) ratio); [left; reflexivity|reflexivity].
      * replace (Z.of_nat (length acc) + 1 - 1)%Z with (Z.of_nat (length acc)) by lia.
        rewrite inb_nat by (rewrite zs_length, app_length; cbn; lia). rewrite andb_true_r, Nat2Z.id.
        replace (Z.of_nat (length acc) + 1)%Z with (Z.of_nat (length (c :: acc))) by (cbn [length]; lia).
        pose proof (Hacc (c :: acc) (Some rm) rm (or_intror eq_refl) eq_refl) as HA.
        replace (length (c :: acc) - 1)%nat with (length acc) in HA by (cbn [length]; lia). exact HA.
    + destruct Hst as [-> ->]. rewrite I1, I2. cbv beta iota zeta. change (1 - 1)%Z with (Z.of_nat 0).
      rewrite inb_nat by (rewrite zs_length, app_length; cbn; lia). rewrite andb_true_r, Nat2Z.id.
      apply (Hacc [c] (Some ratio) ratio); [left; reflexivity|reflexivity].
Qed.

Theorem gen_min_ratio_test_tie cands post :
  (forall i, In i cands -> (i < nr)%nat) ->
  (forall i, In i cands -> nleb (get M i pv) tolp = false -> inf_like inf_ tolr (ndiv (get M i tc) (get M i pv))) ->
  exists pre',
    gen_min_ratio_test_no_tie_breaking inf_ M (Z.of_nat pv) tcZ (zs (cands ++ post)) (Z.of_nat (length cands)) tolp tolr
      = ((Z.of_nat (length (min_ratio_test M pv tc tolp tolr cands)), zs (pre' ++ post)), true)
    /\ length pre' = length cands
    /\ firstn (length (min_ratio_test M pv tc tolp tolr cands)) pre' = min_ratio_test M pv tc tolp tolr cands
    /\ (min_ratio_test M pv tc tolp tolr cands = [] -> pre' = cands).
Proof.
  intros Hin Hinf. unfold gen_min_ratio_test_no_tie_breaking, min_ratio_test. cbv zeta.
  replace (Z.to_nat (Z.of_nat (length cands) - 0)) with (length cands) by lia.
  destruct (mrt_loop0_tie cands [] post None [] inf_ true (Nat.le_refl _) eq_refl (conj eq_refl eq_refl) Hin Hinf)
    as (pre' & rm' & E & L & F & U).
  cbn [app length] in E. change (Z.of_nat 0) with 0%Z in E. rewrite E.
  exists pre'. repeat split; [exact L|exact F|]. intro Hn. apply U; [reflexivity|exact Hn].
Qed.
End Loop.

(* ------------------------------------------------------------------ _lex_min_ratio_test *)
Lemma lex_loop0_tie : forall f i rest ok, (f <= length rest)%nat ->
  @gen_lex_min_ratio_test_loop0 T NT f (Z.of_nat i) (zs (seq 0 i) ++ rest) ok = (zs (seq 0 (i + f)) ++ skipn f rest, ok).
Proof.
  induction f as [|f IH]; intros i rest ok Hf; cbn [gen_lex_min_ratio_test_loop0 skipn].
  - rewrite Nat.add_0_r. reflexivity.
  - destruct rest as [|x rest]; [cbn in Hf; lia|]. cbn [length] in Hf.
    rewrite inb_nat by (rewrite app_length, zs_length, seq_length; cbn; lia). rewrite andb_true_r, Nat2Z.id.
    replace i with (length (zs (seq 0 i))) at 3 by (rewrite zs_length, seq_length; reflexivity).
    rewrite upd_nth_mid.
    replace (zs (seq 0 i) ++ Z.of_nat i :: rest) with (zs (seq 0 (S i)) ++ rest)
      by (rewrite seq_S, zs_app, <- app_assoc; reflexivity).
    replace (Z.of_nat i + 1)%Z with (Z.of_nat (S i)) by lia.
    rewrite IH by lia. rewrite Nat.add_succ_r. reflexivity.
Qed.

Section Lex.
Variables (M : mat) (nr nc pv : nat) (inf_ tolp tolr : T).
Hypothesis HM : rect nr nc M.
Hypothesis Hnr : (0 < nr)%nat.
Hypothesis Hpv : (pv < nc)%nat.
Hypothesis Hinf : forall i j, (i < nr)%nat -> (j < nc)%nat -> nleb (get M i pv) tolp = false ->
  inf_like inf_ tolr (ndiv (get M i j) (get M i pv)).

Definition cand_ok (am : list nat) : Prop :=
  forall i, In i am -> (i < nr)%nat /\ nleb (get M i pv) tolp = false.

Lemma mrt_cand_ok tc am : cand_ok am -> cand_ok (min_ratio_test M pv tc tolp tolr am).
Proof.
  intros Ham i Hi. unfold min_ratio_test in Hi. apply mrt_loop_In in Hi. destruct Hi as [[]|[Hi _]]. apply Ham, Hi.
Qed.
Lemma mrt_nonempty tc am : cand_ok am -> am <> [] -> min_ratio_test M pv tc tolp tolr am <> [].
Proof.
  intros Ham Hne. apply mrt_loop_nonempty; [intro H; exfalso; apply H; reflexivity|].
  destruct am as [|i am]; [exfalso; apply Hne; reflexivity|]. exists i. split; [left; reflexivity|apply Ham; left; reflexivity].
Qed.

Lemma Htc_nat j : (j < nc)%nat ->
  forall i, (i < nr)%nat -> get2 M (Z.of_nat i) (Z.of_nat j) = get M i j /\ inb2 (Z.of_nat i) (Z.of_nat j) M = true.
Proof.
  intros Hj i Hi. destruct HM as [Hl Hr]. split; [apply get2_nat|apply inb2_nat; rewrite ?Hr; lia].
Qed.
Lemma Htc_m1 : forall i, (i < nr)%nat -> get2 M (Z.of_nat i) (-1) = get M i (ncols M - 1) /\ inb2 (Z.of_nat i) (-1) M = true.
Proof.
  intros i Hi. destruct HM as [Hl Hr]. unfold ncols. rewrite (Hr 0%nat Hnr), <- (Hr i Hi).
  split; [apply get2_m1|apply inb2_m1]; rewrite ?Hr; lia.
Qed.

Lemma lex_loop1_tie : forall f j am post ok,
  (j + f <= nc)%nat -> am <> [] -> cand_ok am ->
  exists n' am' post',
    gen_lex_min_ratio_test_loop1 f (Z.of_nat j) (Z.of_nat (length am)) (zs (am ++ post)) false ok M (Z.of_nat pv) tolp tolr inf_
      = (n', zs (am' ++ post'), fst (lex_loop M pv tolp tolr (seq j f) am), ok)
    /\ snd (lex_loop M pv tolp tolr (seq j f) am) = am' /\ am' <> []
    /\ length (am' ++ post') = length (am ++ post).
Proof.
  induction f as [|f IH]; intros j am post ok Hj Hne Ham; cbn [gen_lex_min_ratio_test_loop1 seq lex_loop].
  - exists (Z.of_nat (length am)), am, post. repeat split. exact Hne.
  - rewrite Zeqb_nat. replace (Z.of_nat j + 1)%Z with (Z.of_nat (S j)) by lia.
    destruct (Nat.eqb j pv) eqn:Ej; [apply IH; [lia|exact Hne|exact Ham]|].
    destruct (gen_min_ratio_test_tie M nr nc pv j (Z.of_nat j) inf_ tolp tolr HM Hpv (Htc_nat j ltac:(lia)) am post)
      as (pre' & E & L & F & _).
    { intros i Hi. apply Ham, Hi. }
    { intros i Hi Hp. apply Hinf; [apply Ham, Hi|lia|exact Hp]. }
    rewrite E. cbv beta iota zeta. rewrite andb_true_r.
    pose proof (mrt_nonempty j am Ham Hne) as Hres. pose proof (mrt_cand_ok j am Ham) as Hcok.
    set (res := min_ratio_test M pv j tolp tolr am) in *.
    assert (Hpre : pre' = res ++ skipn (length res) pre') by (rewrite <- F at 1; symmetry; apply firstn_skipn).
    change 1%Z with (Z.of_nat 1). rewrite Zeqb_nat.
    destruct res as [|r0 [|r1 res']] eqn:Eres; [exfalso; apply Hres; reflexivity| |].
    + cbn [length Nat.eqb fst snd]. exists (Z.of_nat 1), [r0], (skipn 1 pre' ++ post).
      cbn [length] in Hpre. rewrite app_assoc, <- Hpre. repeat split; [discriminate|]. rewrite !app_length. lia.
    + cbn [length Nat.eqb]. rewrite Hpre, <- app_assoc.
      destruct (IH (S j) (r0 :: r1 :: res') (skipn (length (r0 :: r1 :: res')) pre' ++ post) ok)
        as (n' & am' & post' & E' & S' & N' & L'); [lia|discriminate|exact Hcok|].
      change (Z.of_nat (S (S (length res')))) with (Z.of_nat (length (r0 :: r1 :: res'))). rewrite E'. exists n', am', post'. repeat split; [exact S'|exact N'|].
      rewrite L', app_assoc, <- Hpre, !app_length. lia.
Qed.

Theorem gen_lex_min_ratio_test_tie ss argmins :
  (ss + nr <= nc)%nat -> length argmins = nr ->
  let r := gen_lex_min_ratio_test inf_ M (Z.of_nat pv) (Z.of_nat ss) argmins tolp tolr in
  let m := lex_min_ratio_test M pv ss tolp tolr in
  fst (fst r) = (fst m, Z.of_nat (snd m)) /\ snd r = true /\ length (snd (fst r)) = nr.
Proof.
  intros Hss Hlen. cbv zeta. unfold gen_lex_min_ratio_test, lex_min_ratio_test, lex_min_ratio_test_n. cbv zeta.
  destruct HM as [HMl HMr]. unfold nrows2, nrows. rewrite HMl.
  replace (Z.to_nat (Z.of_nat nr - 0)) with nr by lia.
  pose proof (lex_loop0_tie nr 0 argmins true ltac:(lia)) as E0.
  change (zs (seq 0 0) ++ argmins) with argmins in E0. change (0 + nr)%nat with nr in E0.
  change (Z.of_nat 0) with 0%Z in E0. rewrite E0. clear E0.
  rewrite skipn_all2 by lia.
  destruct (gen_min_ratio_test_tie M nr nc pv (ncols M - 1) (-1) inf_ tolp tolr (conj HMl HMr) Hpv Htc_m1 (seq 0 nr) [])
    as (pre' & E & L & F & U).
  { intros i Hi. apply in_seq in Hi. lia. }
  { intros i Hi Hp. apply in_seq in Hi. apply Hinf; [lia| |exact Hp]. unfold ncols. rewrite HMr by lia. lia. }
  rewrite seq_length in E, L. change (- (1))%Z with (-1)%Z. rewrite !app_nil_r in *. rewrite E. clear E.
  cbv beta iota zeta. cbn [andb].
  set (res := min_ratio_test M pv (ncols M - 1) tolp tolr (seq 0 nr)) in *.
  assert (Hcok : cand_ok res).
  { intros i Hi. unfold res, min_ratio_test in Hi. apply mrt_loop_In in Hi. destruct Hi as [[]|[Hi Hp]].
    apply in_seq in Hi. split; [lia|exact Hp]. }
  assert (Hpre : pre' = res ++ skipn (length res) pre') by (rewrite <- F at 1; symmetry; apply firstn_skipn).
  change 1%Z with (Z.of_nat 1). change 2%Z with (Z.of_nat 2). rewrite Zeqb_nat.
  destruct res as [|r0 [|r1 res']] eqn:Eres.
  - cbn [length Nat.eqb]. rewrite (U eq_refl). cbn [fst snd].
    replace (Z.of_nat 0 >=? Z.of_nat 2)%Z with false by (symmetry; rewrite Z.geb_leb; apply Z.leb_gt; lia).
    cbn [fst snd]. rewrite inb_0 by (rewrite zs_length, seq_length; lia).
    change (Z.to_nat 0) with 0%nat. rewrite nth_zs, seq_nth by lia. rewrite zs_length, seq_length. repeat split.
  - cbn [length Nat.eqb fst snd]. rewrite inb_0 by (rewrite zs_length; lia).
    assert (H0 : nth 0 pre' 0%nat = r0) by (rewrite Hpre; reflexivity).
    change (Z.to_nat 0) with 0%nat. rewrite nth_zs, zs_length, H0. repeat split. exact L.
  - cbn [length Nat.eqb].
    replace (Z.of_nat (S (S (length res'))) >=? Z.of_nat 2)%Z with true by (symmetry; rewrite Z.geb_leb; apply Z.leb_le; lia).
    replace (Z.to_nat (Z.of_nat ss + Z.of_nat nr - Z.of_nat ss)) with nr by lia.
    rewrite Hpre.
    destruct (lex_loop1_tie nr ss (r0 :: r1 :: res') (skipn (length (r0 :: r1 :: res')) pre') true)
      as (n' & am' & post' & E' & S' & N' & L'); [lia|discriminate|exact Hcok|].
    change (Z.of_nat (S (S (length res')))) with (Z.of_nat (length (r0 :: r1 :: res'))). rewrite E'. cbv beta iota zeta. cbn [fst snd].
    destruct (lex_loop M pv tolp tolr (seq ss nr) (r0 :: r1 :: res')) as [found am''] eqn:El. cbn [fst snd] in *. subst am''.
    rewrite inb_0 by (rewrite zs_length, L', <- Hpre; lia). change (Z.to_nat 0) with 0%nat.
    rewrite nth_zs, zs_length, L', <- Hpre. destruct am' as [|a0 am']; [exfalso; apply N'; reflexivity|].
    repeat split. exact L.
Qed.
End Lex.
End Mrt.

(* ------------------------------------------------------------------ statements in terms of the results *)
Section Corollaries.
Context {T : Type} {NT : Num T}.
Notation mat := (list (list T)).

Lemma firstn_zs n l : firstn n (zs l) = zs (firstn n l).
Proof. revert l. induction n as [|n IH]; intros [|x l]; cbn; try reflexivity. rewrite <- IH. reflexivity. Qed.

(* argmins = zs a; the candidates are a[:ncand]; tcZ is the test column as the code receives it (an index >= 0, or -1
   for the last column) *)
Theorem gen_min_ratio_test_result (M : mat) nr nc pv tc tcZ (inf_ tolp tolr : T) (a : list nat) (ncand : nat) :
  rect nr nc M -> (pv < nc)%nat -> (tc < nc)%nat -> (tcZ = Z.of_nat tc \/ (tcZ = (-1)%Z /\ tc = (nc - 1)%nat)) ->
  (ncand <= length a)%nat -> (forall i, In i (firstn ncand a) -> (i < nr)%nat) ->
  (forall i, In i (firstn ncand a) -> nleb (get M i pv) tolp = false ->
             inf_like inf_ tolr (ndiv (get M i tc) (get M i pv))) ->
  let r := gen_min_ratio_test_no_tie_breaking inf_ M (Z.of_nat pv) tcZ (zs a) (Z.of_nat ncand) tolp tolr in
  let res := min_ratio_test M pv tc tolp tolr (firstn ncand a) in
  fst (fst r) = Z.of_nat (length res) /\ firstn (length res) (snd (fst r)) = zs res /\
  length (snd (fst r)) = length a /\ snd r = true.
Proof.
  intros HM Hpv Htc HtcZ Hn Hin Hinf. cbv zeta.
  assert (Hget : forall i, (i < nr)%nat -> get2 M (Z.of_nat i) tcZ = get M i tc /\ inb2 (Z.of_nat i) tcZ M = true).
  { intros i Hi. destruct HM as [Hl Hr]. destruct HtcZ as [->|[-> ->]].
    - split; [apply get2_nat|apply inb2_nat; rewrite ?Hr; lia].
    - rewrite <- (Hr i Hi). split; [apply get2_m1|apply inb2_m1]; rewrite ?Hr; lia. }
  destruct (gen_min_ratio_test_tie M nr nc pv tc tcZ inf_ tolp tolr HM Hpv Hget (firstn ncand a) (skipn ncand a) Hin Hinf)
    as (pre' & E & L & F & _).
  rewrite firstn_skipn, firstn_length_le in E by exact Hn. rewrite E. cbn [fst snd].
  assert (Hle : (length (min_ratio_test M pv tc tolp tolr (firstn ncand a)) <= length pre')%nat).
  { rewrite <- F at 1. rewrite firstn_length. lia. }
  repeat split.
  - rewrite firstn_zs, firstn_app_le by exact Hle. rewrite F. reflexivity.
  - rewrite zs_length, app_length, L, <- app_length, firstn_skipn. reflexivity.
Qed.
End Corollaries.

(* ------------------------------------------------------------------ more facts about the model (any Num),
   used by the ties of the callers (C04/TieGen.v) *)
Section ModelFacts.
Context {T : Type} {NT : Num T}.
Notation mat := (list (list T)).

Lemma rect_pivoting nr nc (M : mat) c r : rect nr nc M -> (r < nr)%nat -> rect nr nc (pivoting M c r).
Proof.
  intros [Hl Hr] Hlt. unfold pivoting, mapi. cbv zeta.
  assert (Hlen : forall (F : nat -> list T -> list T) l s, length (mapi_from F s l) = length l).
  { intros F l. induction l as [|x l IH]; intros s; cbn; [reflexivity|]. rewrite IH. reflexivity. }
  assert (Hnth : forall (F : nat -> list T -> list T) l s i, (i < length l)%nat ->
            nth i (mapi_from F s l) [] = F (s + i)%nat (nth i l [])).
  { intros F l. induction l as [|x l IH]; intros s [|i] Hi; cbn in *; try lia.
    - rewrite Nat.add_0_r. reflexivity.
    - rewrite IH by lia. rewrite Nat.add_succ_r. reflexivity. }
  split; [rewrite Hlen; exact Hl|]. intros i Hi. rewrite Hnth by lia. cbn [Nat.add].
  destruct (Nat.eqb i r); [rewrite map_length; apply Hr, Hlt|].
  destruct (neqb _ _); [apply Hr, Hi|]. rewrite length_map2, map_length, !Hr by assumption. apply Nat.min_id.
Qed.

Lemma mrt_loop_ext (M M' : mat) pv tc tolp tolr : forall cands rmin acc,
  (forall i, In i cands -> nth i M [] = nth i M' []) ->
  mrt_loop M pv tc tolp tolr cands rmin acc = mrt_loop M' pv tc tolp tolr cands rmin acc.
Proof.
  induction cands as [|i cands IH]; intros rmin acc Hrows; cbn [mrt_loop]; [reflexivity|].
  unfold get. rewrite (Hrows i (or_introl eq_refl)). cbv zeta.
  assert (Hr : forall k, In k cands -> nth k M [] = nth k M' []) by (intros k Hk; apply Hrows; right; exact Hk).
  destruct (nleb _ _); [apply IH, Hr|]. destruct rmin as [rm|]; [|apply IH, Hr].
  destruct (nltb (nadd rm tolr) _); [apply IH, Hr|]. destruct (nltb _ (nsub rm tolr)); apply IH, Hr.
Qed.

Lemma lex_loop_ext (M M' : mat) pv tolp tolr : forall cols am,
  (forall i, In i am -> nth i M [] = nth i M' []) ->
  lex_loop M pv tolp tolr cols am = lex_loop M' pv tolp tolr cols am.
Proof.
  induction cols as [|j cols IH]; intros am Hrows; cbn [lex_loop]; [reflexivity|].
  destruct (Nat.eqb j pv); [apply IH, Hrows|]. cbv zeta. unfold min_ratio_test.
  rewrite (mrt_loop_ext M M' pv j tolp tolr am None [] Hrows).
  destruct (mrt_loop M' pv j tolp tolr am None []) as [|r0 [|r1 res]] eqn:E; try reflexivity;
    apply IH; intros i Hi; apply Hrows;
    (assert (Hin : In i (mrt_loop M' pv j tolp tolr am None [])) by (rewrite E; exact Hi));
    apply mrt_loop_In in Hin; destruct Hin as [[]|[Hin _]]; exact Hin.
Qed.

Lemma nth_firstn_lt {A} (d : A) : forall n (l : list A) i, (i < n)%nat -> nth i (firstn n l) d = nth i l d.
Proof. induction n as [|n IH]; intros [|x l] [|i] Hi; cbn; try reflexivity; try lia. apply IH. lia. Qed.

(* the simplex code passes the view tableau[:-1, :] *)
Lemma lex_min_ratio_test_n_firstn (M : mat) nr pv ss tolp tolr : (0 < nr <= length M)%nat ->
  lex_min_ratio_test_n nr M pv ss tolp tolr = lex_min_ratio_test (firstn nr M) pv ss tolp tolr.
Proof.
  intros Hnr. unfold lex_min_ratio_test, lex_min_ratio_test_n, nrows, ncols.
  rewrite firstn_length_le by lia. rewrite (nth_firstn_lt [] nr M 0) by lia. cbv zeta. unfold min_ratio_test.
  assert (Hrows : forall i, In i (seq 0 nr) -> nth i M [] = nth i (firstn nr M) []).
  { intros i Hi. apply in_seq in Hi. symmetry. apply nth_firstn_lt. lia. }
  rewrite (mrt_loop_ext M (firstn nr M) _ _ _ _ _ None [] Hrows).
  destruct (mrt_loop (firstn nr M) pv _ tolp tolr (seq 0 nr) None []) as [|r0 [|r1 res]] eqn:E; try reflexivity.
  rewrite (lex_loop_ext M (firstn nr M)); [reflexivity|].
  intros i Hi. apply Hrows. rewrite <- E in Hi. apply mrt_loop_In in Hi. destruct Hi as [[]|[Hi _]]. exact Hi.
Qed.

Lemma lex_loop_subset (M : mat) pv tolp tolr : forall cols am i,
  In i (snd (lex_loop M pv tolp tolr cols am)) -> In i am.
Proof.
  induction cols as [|j cols IH]; intros am i Hi; cbn [lex_loop] in Hi; [exact Hi|].
  destruct (Nat.eqb j pv); [apply IH, Hi|]. cbv zeta in Hi.
  assert (Hsub : forall k, In k (min_ratio_test M pv j tolp tolr am) -> In k am).
  { intros k Hk. unfold min_ratio_test in Hk. apply mrt_loop_In in Hk. destruct Hk as [[]|[Hk _]]. exact Hk. }
  destruct (min_ratio_test M pv j tolp tolr am) as [|r0 [|r1 res]] eqn:E.
  - apply IH in Hi. destruct Hi.
  - cbn [snd] in Hi. apply Hsub, Hi.
  - apply IH in Hi. apply Hsub, Hi.
Qed.

Lemma lex_min_ratio_test_n_range (M : mat) nr pv ss tolp tolr r :
  lex_min_ratio_test_n nr M pv ss tolp tolr = (true, r) -> (r < nr)%nat.
Proof.
  unfold lex_min_ratio_test_n. cbv zeta.
  assert (Hsub : forall k, In k (min_ratio_test M pv (ncols M - 1) tolp tolr (seq 0 nr)) -> (k < nr)%nat).
  { intros k Hk. unfold min_ratio_test in Hk. apply mrt_loop_In in Hk. destruct Hk as [[]|[Hk _]]. apply in_seq in Hk. lia. }
  destruct (min_ratio_test M pv (ncols M - 1) tolp tolr (seq 0 nr)) as [|r0 [|r1 res]] eqn:E; intro H.
  - discriminate.
  - injection H as <-. apply Hsub. left. reflexivity.
  - destruct (lex_loop M pv tolp tolr (seq ss nr) (r0 :: r1 :: res)) as [found am'] eqn:El.
    injection H as -> <-.
    pose proof (lex_loop_subset M pv tolp tolr (seq ss nr) (r0 :: r1 :: res)) as Hs. rewrite El in Hs. cbn [snd] in Hs.
    destruct am' as [|a0 am'].
    + exfalso. revert El. clear. generalize (seq ss nr), (r0 :: r1 :: res).
      induction l as [|j cols IH]; intros am; cbn [lex_loop]; [discriminate|].
      destruct (Nat.eqb j pv); [apply IH|]. cbv zeta.
      destruct (min_ratio_test M pv j tolp tolr am) as [|q0 [|q1 qs]]; try apply IH. discriminate.
    + cbn [hd]. apply Hsub, Hs. left. reflexivity.
Qed.
End ModelFacts.


(* Small executable matrix library, generic over Base.Num.Num, with explicit
   dimensions (tabulate style).  A matrix is a `list (list T)` (rows); every
   operation takes the dimensions of its arguments and is `mk n m (closed
   formula over get)`, so `get (op ...) i j` is one rewrite (`get_mk`).
   Vectors are `list T` (`vmk`/`vget`) or, in algebraic theorems, n x 1 matrices.

   Second half: the NumQ instance up to pointwise Qeq (`meq n m`), with the
   laws needed to prove matrix identities in general dimension:
   associativity, distributivity, transposition of products, identity laws,
   scaling, powers, finite sums, bilinear forms. *)
From Coq Require Import ZArith QArith List Bool Lia Lqa Setoid Morphisms.
From QE Require Import Base.Num.
Import ListNotations.

Local Open Scope nat_scope.

Section Generic.
Context {T : Type} `{Num T}.

Definition vmk (n : nat) (f : nat -> T) : list T := map f (seq 0 n).
Definition vget (v : list T) (i : nat) : T := nth i v nzero.
Definition mk (n m : nat) (f : nat -> nat -> T) : list (list T) :=
  map (fun i => vmk m (f i)) (seq 0 n).
Definition get (A : list (list T)) (i j : nat) : T := nth j (nth i A []) nzero.

(* ((0 + f 0) + f 1) + ... + f (k-1) : left-to-right summation *)
Fixpoint nsum (k : nat) (f : nat -> T) : T :=
  match k with O => nzero | S k' => nadd (nsum k' f) (f k') end.

Definition nneg (x : T) : T := nsub nzero x.
Definition nabs (x : T) : T := if nltb x nzero then nsub nzero x else x.
(* max that propagates NaN like np.max (NaN is the only x with x <> x) *)
Definition nmaxp (a b : T) : T :=
  if neqb b b then (if nltb a b then b else a) else b.

(* ---- matrices *)
Definition mzero (n m : nat) := mk n m (fun _ _ => nzero).
Definition mid (n : nat) := mk n n (fun i j => if Nat.eqb i j then none_ else nzero).
Definition madd (n m : nat) (A B : list (list T)) := mk n m (fun i j => nadd (get A i j) (get B i j)).
Definition msub (n m : nat) (A B : list (list T)) := mk n m (fun i j => nsub (get A i j) (get B i j)).
Definition mneg (n m : nat) (A : list (list T)) := mk n m (fun i j => nneg (get A i j)).
Definition mscale (n m : nat) (c : T) (A : list (list T)) := mk n m (fun i j => nmul c (get A i j)).
(* A : n x m  ->  A' : m x n *)
Definition mtr (n m : nat) (A : list (list T)) := mk m n (fun i j => get A j i).
(* A : n x k, B : k x m *)
Definition mmul (n k m : nat) (A B : list (list T)) :=
  mk n m (fun i j => nsum k (fun l => nmul (get A i l) (get B l j))).
Definition mtrace (n : nat) (A : list (list T)) : T := nsum n (fun i => get A i i).
Fixpoint mpow (n : nat) (A : list (list T)) (p : nat) : list (list T) :=
  match p with O => mid n | S p' => mmul n n n A (mpow n A p') end.
(* sum_{l<k} F l *)
Fixpoint msum (n m k : nat) (F : nat -> list (list T)) : list (list T) :=
  match k with O => mzero n m | S k' => madd n m (msum n m k' F) (F k') end.
(* re-tabulation: normalises shape (pads/truncates to n x m) *)
Definition mnorm (n m : nat) (A : list (list T)) := mk n m (fun i j => get A i j).
(* max_{ij} |A_ij - B_ij|  (np.max(np.abs(A - B))), NaN-propagating; n*m >= 1 *)
Definition mmaxabsdiff (n m : nat) (A B : list (list T)) : T :=
  fold_left nmaxp
    (concat (mk n m (fun i j => nabs (nsub (get A i j) (get B i j)))))
    nzero.
Definition mall2 (n m : nat) (p : T -> T -> bool) (A B : list (list T)) : bool :=
  forallb (fun i => forallb (fun j => p (get A i j) (get B i j)) (seq 0 m)) (seq 0 n).

(* ---- vectors *)
Definition vzero (n : nat) := vmk n (fun _ => nzero).
Definition vadd (n : nat) (u v : list T) := vmk n (fun i => nadd (vget u i) (vget v i)).
Definition vsub (n : nat) (u v : list T) := vmk n (fun i => nsub (vget u i) (vget v i)).
Definition vneg (n : nat) (u : list T) := vmk n (fun i => nneg (vget u i)).
Definition vscale (n : nat) (c : T) (u : list T) := vmk n (fun i => nmul c (vget u i)).
Definition vdot (n : nat) (u v : list T) : T := nsum n (fun i => nmul (vget u i) (vget v i)).
(* A : n x m, v : m *)
Definition mvmul (n m : nat) (A : list (list T)) (v : list T) :=
  vmk n (fun i => nsum m (fun l => nmul (get A i l) (vget v l))).
(* x' A x, A : n x n *)
Definition qform (n : nat) (x : list T) (A : list (list T)) : T := vdot n x (mvmul n n A x).
(* x' A y, A : n x m *)
Definition bform (n m : nat) (x : list T) (A : list (list T)) (y : list T) : T := vdot n x (mvmul n m A y).
Definition colmat (n : nat) (v : list T) := mk n 1 (fun i _ => vget v i).
Definition rowmat (n : nat) (v : list T) := mk 1 n (fun _ j => vget v j).
Definition matcol (n : nat) (A : list (list T)) (j : nat) := vmk n (fun i => get A i j).
Definition matrow (m : nat) (A : list (list T)) (i : nat) := vmk m (fun j => get A i j).
(* block matrices: [A B] (n x (m1+m2)) and [A; B] ((n1+n2) x m) *)
Definition mhcat (n m1 m2 : nat) (A B : list (list T)) :=
  mk n (m1 + m2) (fun i j => if Nat.ltb j m1 then get A i j else get B i (j - m1)).
Definition mvcat (n1 n2 m : nat) (A B : list (list T)) :=
  mk (n1 + n2) m (fun i j => if Nat.ltb i n1 then get A i j else get B (i - n1) j).
(* sub-block rows [r0, r0+n), cols [c0, c0+m) *)
Definition mblock (r0 c0 n m : nat) (A : list (list T)) := mk n m (fun i j => get A (r0 + i) (c0 + j)).

(* ---- shape and entry lemmas (any Num instance) *)
Lemma length_vmk n f : length (vmk n f) = n.
Proof. unfold vmk. now rewrite map_length, seq_length. Qed.

Lemma vget_vmk n f i : i < n -> vget (vmk n f) i = f i.
Proof.
  intros Hi. unfold vget, vmk.
  rewrite (nth_indep _ nzero (f 0)) by (now rewrite map_length, seq_length).
  rewrite map_nth. now rewrite seq_nth.
Qed.

Lemma length_mk n m f : length (mk n m f) = n.
Proof. unfold mk. now rewrite map_length, seq_length. Qed.

Lemma nth_mk n m f i : i < n -> nth i (mk n m f) [] = vmk m (f i).
Proof.
  intros Hi. unfold mk.
  rewrite (nth_indep _ [] (vmk m (f 0))) by (now rewrite map_length, seq_length).
  rewrite (map_nth (fun i => vmk m (f i))). now rewrite seq_nth.
Qed.

Lemma get_mk n m f i j : i < n -> j < m -> get (mk n m f) i j = f i j.
Proof.
  intros Hi Hj. unfold get. rewrite nth_mk by assumption. now apply vget_vmk.
Qed.

Lemma row_length_mk n m f r : In r (mk n m f) -> length r = m.
Proof.
  unfold mk. intros Hin. apply in_map_iff in Hin. destruct Hin as [i [<- _]]. apply length_vmk.
Qed.

Lemma vmk_ext n f g : (forall i, i < n -> f i = g i) -> vmk n f = vmk n g.
Proof.
  intros E. unfold vmk. apply map_ext_in. intros a Ha. apply in_seq in Ha. apply E. lia.
Qed.

Lemma mk_ext n m f g : (forall i j, i < n -> j < m -> f i j = g i j) -> mk n m f = mk n m g.
Proof.
  intros E. unfold mk. apply map_ext_in. intros a Ha. apply in_seq in Ha.
  apply vmk_ext. intros j Hj. apply E; lia.
Qed.

End Generic.

(* ====================================================================== *)
(* NumQ instance up to Qeq                                                 *)
(* ====================================================================== *)
Local Open Scope Q_scope.

Notation Qmat := (list (list Q)).

Lemma nadd_Q (a b : Q) : nadd a b == a + b. Proof. apply Qaddr_eq. Qed.
Lemma nmul_Q (a b : Q) : nmul a b == a * b. Proof. apply Qmulr_eq. Qed.
Lemma nsub_Q (a b : Q) : nsub a b == a - b. Proof. apply Qsubr_eq. Qed.
Lemma ndiv_Q (a b : Q) : ndiv a b == a / b. Proof. apply Qdivr_eq. Qed.
Lemma nneg_Q (a : Q) : nneg a == - a.
Proof. unfold nneg. rewrite nsub_Q. change (@nzero Q NumQ) with 0. ring. Qed.
Lemma nzero_Q : @nzero Q NumQ = 0. Proof. reflexivity. Qed.
Lemma none_Q : @none_ Q NumQ = 1. Proof. reflexivity. Qed.

#[global] Instance nadd_Q_proper : Proper (Qeq ==> Qeq ==> Qeq) (@nadd Q NumQ).
Proof. intros a b E c d F. now rewrite !nadd_Q, E, F. Qed.
#[global] Instance nmul_Q_proper : Proper (Qeq ==> Qeq ==> Qeq) (@nmul Q NumQ).
Proof. intros a b E c d F. now rewrite !nmul_Q, E, F. Qed.
#[global] Instance nsub_Q_proper : Proper (Qeq ==> Qeq ==> Qeq) (@nsub Q NumQ).
Proof. intros a b E c d F. now rewrite !nsub_Q, E, F. Qed.
#[global] Instance ndiv_Q_proper : Proper (Qeq ==> Qeq ==> Qeq) (@ndiv Q NumQ).
Proof. intros a b E c d F. now rewrite !ndiv_Q, E, F. Qed.

(* ---- finite sums over Q *)
Fixpoint sumQ (k : nat) (f : nat -> Q) : Q :=
  match k with O => 0 | S k' => sumQ k' f + f k' end.

Lemma nsum_sumQ k (f : nat -> Q) : nsum k f == sumQ k f.
Proof. induction k; simpl; [reflexivity|]. now rewrite nadd_Q, IHk. Qed.

Lemma sumQ_ext k f g : (forall l, (l < k)%nat -> f l == g l) -> sumQ k f == sumQ k g.
Proof.
  induction k; intros E; simpl; [reflexivity|].
  rewrite IHk by (intros; apply E; lia). rewrite (E k) by lia. reflexivity.
Qed.

Lemma sumQ_zero k : sumQ k (fun _ => 0) == 0.
Proof. induction k; simpl; [reflexivity|]. rewrite IHk. ring. Qed.

Lemma sumQ_add k f g : sumQ k (fun l => f l + g l) == sumQ k f + sumQ k g.
Proof. induction k; simpl; [ring|]. rewrite IHk. ring. Qed.

Lemma sumQ_sub k f g : sumQ k (fun l => f l - g l) == sumQ k f - sumQ k g.
Proof. induction k; simpl; [ring|]. rewrite IHk. ring. Qed.

Lemma sumQ_opp k f : sumQ k (fun l => - f l) == - sumQ k f.
Proof. induction k; simpl; [ring|]. rewrite IHk. ring. Qed.

Lemma sumQ_scale_l k c f : sumQ k (fun l => c * f l) == c * sumQ k f.
Proof. induction k; simpl; [ring|]. rewrite IHk. ring. Qed.

Lemma sumQ_scale_r k c f : sumQ k (fun l => f l * c) == sumQ k f * c.
Proof. induction k; simpl; [ring|]. rewrite IHk. ring. Qed.

Lemma sumQ_exchange n m (f : nat -> nat -> Q) :
  sumQ n (fun i => sumQ m (fun j => f i j)) == sumQ m (fun j => sumQ n (fun i => f i j)).
Proof.
  induction n; simpl.
  - now rewrite sumQ_zero.
  - rewrite IHn. now rewrite <- sumQ_add.
Qed.

Lemma sumQ_delta_l k i f : (i < k)%nat ->
  sumQ k (fun l => (if Nat.eqb i l then 1 else 0) * f l) == f i.
Proof.
  induction k; intros Hi; [lia|]. simpl.
  destruct (Nat.eqb i k) eqn:E.
  - apply Nat.eqb_eq in E. subst k.
    rewrite (sumQ_ext i _ (fun _ => 0)).
    + rewrite sumQ_zero. ring.
    + intros l Hl. destruct (Nat.eqb i l) eqn:E2; [apply Nat.eqb_eq in E2; lia|ring].
  - apply Nat.eqb_neq in E. rewrite IHk by lia. ring.
Qed.

Lemma sumQ_delta_r k j f : (j < k)%nat ->
  sumQ k (fun l => f l * (if Nat.eqb l j then 1 else 0)) == f j.
Proof.
  intros Hj. rewrite (sumQ_ext k _ (fun l => (if Nat.eqb j l then 1 else 0) * f l)).
  - now apply sumQ_delta_l.
  - intros l _. rewrite (Nat.eqb_sym l j). ring.
Qed.

Lemma sumQ_nonneg k f : (forall l, (l < k)%nat -> 0 <= f l) -> 0 <= sumQ k f.
Proof.
  induction k; intros Hf; simpl; [apply Qle_refl|].
  assert (0 <= sumQ k f) by (apply IHk; intros; apply Hf; lia).
  assert (0 <= f k) by (apply Hf; lia). lra.
Qed.

(* ---- pointwise equality of n x m matrices *)
Definition meq (n m : nat) (A B : Qmat) : Prop :=
  forall i j, (i < n)%nat -> (j < m)%nat -> get A i j == get B i j.

#[global] Instance meq_equiv n m : Equivalence (meq n m).
Proof.
  split.
  - intros A i j _ _. reflexivity.
  - intros A B E i j Hi Hj. symmetry. now apply E.
  - intros A B C E F i j Hi Hj. rewrite (E i j Hi Hj). now apply F.
Qed.

(* entry lemmas over Q *)
Section QEntries.
Variables (n m : nat).
Variables (i j : nat).
Hypothesis Hi : (i < n)%nat.
Hypothesis Hj : (j < m)%nat.

Lemma get_mzero : get (@mzero Q _ n m) i j == 0.
Proof. unfold mzero. rewrite get_mk by assumption. reflexivity. Qed.
Lemma get_madd A B : get (madd n m A B) i j == get A i j + get B i j.
Proof. unfold madd. rewrite get_mk by assumption. apply nadd_Q. Qed.
Lemma get_msub A B : get (msub n m A B) i j == get A i j - get B i j.
Proof. unfold msub. rewrite get_mk by assumption. apply nsub_Q. Qed.
Lemma get_mneg (A : Qmat) : get (mneg n m A) i j == - get A i j.
Proof. unfold mneg. rewrite get_mk by assumption. apply nneg_Q. Qed.
Lemma get_mscale c (A : Qmat) : get (mscale n m c A) i j == c * get A i j.
Proof. unfold mscale. rewrite get_mk by assumption. apply nmul_Q. Qed.
Lemma get_mnorm (A : Qmat) : get (mnorm n m A) i j == get A i j.
Proof. unfold mnorm. rewrite get_mk by assumption. reflexivity. Qed.
Lemma get_mmul k (A B : Qmat) :
  get (mmul n k m A B) i j == sumQ k (fun l => get A i l * get B l j).
Proof.
  unfold mmul. rewrite get_mk by assumption. rewrite nsum_sumQ.
  apply sumQ_ext. intros. apply nmul_Q.
Qed.
Lemma get_msum k (F : nat -> Qmat) :
  get (msum n m k F) i j == sumQ k (fun l => get (F l) i j).
Proof.
  induction k; simpl.
  - apply get_mzero.
  - rewrite get_madd, IHk. reflexivity.
Qed.
End QEntries.

Lemma get_mtr n m (A : Qmat) i j : (i < m)%nat -> (j < n)%nat -> get (mtr n m A) i j == get A j i.
Proof. intros. unfold mtr. rewrite get_mk by assumption. reflexivity. Qed.

Lemma get_mid n i j : (i < n)%nat -> (j < n)%nat ->
  get (@mid Q _ n) i j == (if Nat.eqb i j then 1 else 0).
Proof. intros. unfold mid. rewrite get_mk by assumption. destruct (Nat.eqb i j); reflexivity. Qed.

(* ---- morphisms *)
#[global] Instance madd_proper n m : Proper (meq n m ==> meq n m ==> meq n m) (madd n m).
Proof. intros A B E C D F i j Hi Hj. rewrite !get_madd by assumption. now rewrite (E i j), (F i j). Qed.
#[global] Instance msub_proper n m : Proper (meq n m ==> meq n m ==> meq n m) (msub n m).
Proof. intros A B E C D F i j Hi Hj. rewrite !get_msub by assumption. now rewrite (E i j), (F i j). Qed.
#[global] Instance mneg_proper n m : Proper (meq n m ==> meq n m) (mneg n m).
Proof. intros A B E i j Hi Hj. rewrite !get_mneg by assumption. now rewrite (E i j). Qed.
#[global] Instance mscale_proper n m : Proper (Qeq ==> meq n m ==> meq n m) (mscale n m).
Proof. intros c d Ec A B E i j Hi Hj. rewrite !get_mscale by assumption. now rewrite Ec, (E i j). Qed.
#[global] Instance mtr_proper n m : Proper (meq n m ==> meq m n) (mtr n m).
Proof. intros A B E i j Hi Hj. rewrite !get_mtr by assumption. now apply E. Qed.
#[global] Instance mmul_proper n k m : Proper (meq n k ==> meq k m ==> meq n m) (mmul n k m).
Proof.
  intros A B E C D F i j Hi Hj. rewrite !get_mmul by assumption.
  apply sumQ_ext. intros l Hl. now rewrite (E i l), (F l j).
Qed.
#[global] Instance mnorm_proper n m : Proper (meq n m ==> meq n m) (mnorm n m).
Proof. intros A B E i j Hi Hj. rewrite !get_mnorm by assumption. now apply E. Qed.

Lemma mnorm_eq n m (A : Qmat) : meq n m (mnorm n m A) A.
Proof. intros i j Hi Hj. now apply get_mnorm. Qed.

Lemma msum_ext n m k F G : (forall l, (l < k)%nat -> meq n m (F l) (G l)) ->
  meq n m (msum n m k F) (msum n m k G).
Proof.
  induction k; intros E; simpl; [reflexivity|].
  rewrite IHk by (intros; apply E; lia). rewrite (E k) by lia. reflexivity.
Qed.

(* entrywise (linear) identities: products are atoms *)
Ltac mat_entries :=
  repeat first
    [ rewrite get_madd by assumption | rewrite get_msub by assumption
    | rewrite get_mneg by assumption | rewrite get_mscale by assumption
    | rewrite get_mzero by assumption | rewrite get_mnorm by assumption
    | rewrite get_mtr by assumption ].
Ltac mlin := let i := fresh "i" in let j := fresh "j" in
  let Hi := fresh "Hi" in let Hj := fresh "Hj" in
  intros i j Hi Hj; mat_entries; try ring.

(* ---- additive laws *)
Lemma madd_comm n m A B : meq n m (madd n m A B) (madd n m B A). Proof. mlin. Qed.
Lemma madd_assoc n m A B C : meq n m (madd n m (madd n m A B) C) (madd n m A (madd n m B C)).
Proof. mlin. Qed.
Lemma madd_zero_l n m A : meq n m (madd n m (mzero n m) A) A. Proof. mlin. Qed.
Lemma madd_zero_r n m A : meq n m (madd n m A (mzero n m)) A. Proof. mlin. Qed.
Lemma msub_self n m A : meq n m (msub n m A A) (mzero n m). Proof. mlin. Qed.
Lemma msub_madd_neg n m A B : meq n m (msub n m A B) (madd n m A (mneg n m B)). Proof. mlin. Qed.
Lemma mneg_mscale n m A : meq n m (mneg n m A) (mscale n m (-1#1) A). Proof. mlin. Qed.
Lemma mscale_one n m A : meq n m (mscale n m 1 A) A. Proof. mlin. Qed.
Lemma mscale_mscale n m c d A : meq n m (mscale n m c (mscale n m d A)) (mscale n m (c * d) A).
Proof. mlin. Qed.
Lemma mscale_madd n m c A B :
  meq n m (mscale n m c (madd n m A B)) (madd n m (mscale n m c A) (mscale n m c B)).
Proof. mlin. Qed.
Lemma mscale_msub n m c A B :
  meq n m (mscale n m c (msub n m A B)) (msub n m (mscale n m c A) (mscale n m c B)).
Proof. mlin. Qed.

(* ---- transposition *)
Lemma mtr_mtr n m A : meq n m (mtr m n (mtr n m A)) A. Proof. mlin. Qed.
Lemma mtr_madd n m A B : meq m n (mtr n m (madd n m A B)) (madd m n (mtr n m A) (mtr n m B)).
Proof. mlin. Qed.
Lemma mtr_msub n m A B : meq m n (mtr n m (msub n m A B)) (msub m n (mtr n m A) (mtr n m B)).
Proof. mlin. Qed.
Lemma mtr_mneg n m A : meq m n (mtr n m (mneg n m A)) (mneg m n (mtr n m A)).
Proof. mlin. Qed.
Lemma mtr_mscale n m c A : meq m n (mtr n m (mscale n m c A)) (mscale m n c (mtr n m A)).
Proof. mlin. Qed.
Lemma mtr_mzero n m : meq m n (mtr n m (mzero n m)) (mzero m n).
Proof. mlin. Qed.
Lemma mtr_mid n : meq n n (mtr n n (mid n)) (mid n).
Proof.
  intros i j Hi Hj. rewrite get_mtr, !get_mid by assumption.
  now rewrite Nat.eqb_sym.
Qed.
Lemma mtr_mmul n k m A B :
  meq m n (mtr n m (mmul n k m A B)) (mmul m k n (mtr k m B) (mtr n k A)).
Proof.
  intros i j Hi Hj. rewrite get_mtr, !get_mmul by assumption.
  apply sumQ_ext. intros l Hl. rewrite !get_mtr by assumption. ring.
Qed.

(* ---- multiplicative laws *)
Lemma mmul_assoc n k m p A B C :
  meq n p (mmul n m p (mmul n k m A B) C) (mmul n k p A (mmul k m p B C)).
Proof.
  intros i j Hi Hj. rewrite !get_mmul by assumption.
  rewrite (sumQ_ext m _ (fun l => sumQ k (fun l0 => get A i l0 * get B l0 l * get C l j))).
  2:{ intros l Hl. rewrite get_mmul by assumption. now rewrite sumQ_scale_r. }
  rewrite sumQ_exchange. apply sumQ_ext. intros l Hl.
  rewrite get_mmul by assumption. rewrite <- sumQ_scale_l.
  apply sumQ_ext. intros. ring.
Qed.

Lemma mmul_madd_distr_l n k m A B C :
  meq n m (mmul n k m A (madd k m B C)) (madd n m (mmul n k m A B) (mmul n k m A C)).
Proof.
  intros i j Hi Hj. rewrite get_madd, !get_mmul by assumption. rewrite <- sumQ_add.
  apply sumQ_ext. intros l Hl. rewrite get_madd by assumption. ring.
Qed.
Lemma mmul_madd_distr_r n k m A B C :
  meq n m (mmul n k m (madd n k A B) C) (madd n m (mmul n k m A C) (mmul n k m B C)).
Proof.
  intros i j Hi Hj. rewrite get_madd, !get_mmul by assumption. rewrite <- sumQ_add.
  apply sumQ_ext. intros l Hl. rewrite get_madd by assumption. ring.
Qed.
Lemma mmul_msub_distr_l n k m A B C :
  meq n m (mmul n k m A (msub k m B C)) (msub n m (mmul n k m A B) (mmul n k m A C)).
Proof.
  intros i j Hi Hj. rewrite get_msub, !get_mmul by assumption. rewrite <- sumQ_sub.
  apply sumQ_ext. intros l Hl. rewrite get_msub by assumption. ring.
Qed.
Lemma mmul_msub_distr_r n k m A B C :
  meq n m (mmul n k m (msub n k A B) C) (msub n m (mmul n k m A C) (mmul n k m B C)).
Proof.
  intros i j Hi Hj. rewrite get_msub, !get_mmul by assumption. rewrite <- sumQ_sub.
  apply sumQ_ext. intros l Hl. rewrite get_msub by assumption. ring.
Qed.
Lemma mmul_mneg_l n k m A B :
  meq n m (mmul n k m (mneg n k A) B) (mneg n m (mmul n k m A B)).
Proof.
  intros i j Hi Hj. rewrite get_mneg, !get_mmul by assumption. rewrite <- sumQ_opp.
  apply sumQ_ext. intros l Hl. rewrite get_mneg by assumption. ring.
Qed.
Lemma mmul_mneg_r n k m A B :
  meq n m (mmul n k m A (mneg k m B)) (mneg n m (mmul n k m A B)).
Proof.
  intros i j Hi Hj. rewrite get_mneg, !get_mmul by assumption. rewrite <- sumQ_opp.
  apply sumQ_ext. intros l Hl. rewrite get_mneg by assumption. ring.
Qed.
Lemma mmul_mscale_l n k m c A B :
  meq n m (mmul n k m (mscale n k c A) B) (mscale n m c (mmul n k m A B)).
Proof.
  intros i j Hi Hj. rewrite get_mscale, !get_mmul by assumption. rewrite <- sumQ_scale_l.
  apply sumQ_ext. intros l Hl. rewrite get_mscale by assumption. ring.
Qed.
Lemma mmul_mscale_r n k m c A B :
  meq n m (mmul n k m A (mscale k m c B)) (mscale n m c (mmul n k m A B)).
Proof.
  intros i j Hi Hj. rewrite get_mscale, !get_mmul by assumption. rewrite <- sumQ_scale_l.
  apply sumQ_ext. intros l Hl. rewrite get_mscale by assumption. ring.
Qed.
Lemma mmul_mzero_l n k m B : meq n m (mmul n k m (mzero n k) B) (mzero n m).
Proof.
  intros i j Hi Hj. rewrite get_mzero, get_mmul by assumption.
  rewrite (sumQ_ext k _ (fun _ => 0)); [apply sumQ_zero|].
  intros l Hl. rewrite get_mzero by assumption. ring.
Qed.
Lemma mmul_mzero_r n k m A : meq n m (mmul n k m A (mzero k m)) (mzero n m).
Proof.
  intros i j Hi Hj. rewrite get_mzero, get_mmul by assumption.
  rewrite (sumQ_ext k _ (fun _ => 0)); [apply sumQ_zero|].
  intros l Hl. rewrite get_mzero by assumption. ring.
Qed.
Lemma mmul_id_l n m A : meq n m (mmul n n m (mid n) A) A.
Proof.
  intros i j Hi Hj. rewrite get_mmul by assumption.
  rewrite (sumQ_ext n _ (fun l => (if Nat.eqb i l then 1 else 0) * get A l j)).
  - now apply (sumQ_delta_l n i (fun l => get A l j)).
  - intros l Hl. now rewrite get_mid by assumption.
Qed.
Lemma mmul_id_r n m A : meq n m (mmul n m m A (mid m)) A.
Proof.
  intros i j Hi Hj. rewrite get_mmul by assumption.
  rewrite (sumQ_ext m _ (fun l => get A i l * (if Nat.eqb l j then 1 else 0))).
  - now apply (sumQ_delta_r m j (fun l => get A i l)).
  - intros l Hl. now rewrite get_mid by assumption.
Qed.

(* ---- finite sums of matrices *)
Lemma mmul_msum_distr_l n k m p A F :
  meq n m (mmul n k m A (msum k m p F)) (msum n m p (fun l => mmul n k m A (F l))).
Proof.
  induction p; simpl.
  - apply mmul_mzero_r.
  - rewrite mmul_madd_distr_l, IHp. reflexivity.
Qed.
Lemma mmul_msum_distr_r n k m p F C :
  meq n m (mmul n k m (msum n k p F) C) (msum n m p (fun l => mmul n k m (F l) C)).
Proof.
  induction p; simpl.
  - apply mmul_mzero_l.
  - rewrite mmul_madd_distr_r, IHp. reflexivity.
Qed.
Lemma msum_split n m p q F :
  meq n m (msum n m (p + q) F) (madd n m (msum n m p F) (msum n m q (fun l => F (p + l)%nat))).
Proof.
  induction q.
  - rewrite Nat.add_0_r. simpl. now rewrite madd_zero_r.
  - rewrite Nat.add_succ_r. simpl. rewrite IHq. now rewrite madd_assoc.
Qed.
Lemma mtr_msum n m p F :
  meq m n (mtr n m (msum n m p F)) (msum m n p (fun l => mtr n m (F l))).
Proof.
  induction p; simpl.
  - apply mtr_mzero.
  - rewrite mtr_madd, IHp. reflexivity.
Qed.

(* ---- powers *)
#[global] Instance mpow_proper n : Proper (meq n n ==> eq ==> meq n n) (mpow n).
Proof.
  intros A B E p q <-. induction p; simpl; [reflexivity|]. now apply mmul_proper.
Qed.
Lemma mpow_add n A p q : meq n n (mpow n A (p + q)) (mmul n n n (mpow n A p) (mpow n A q)).
Proof.
  induction p; simpl.
  - now rewrite mmul_id_l.
  - rewrite IHp. now rewrite mmul_assoc.
Qed.
Lemma mpow_1 n A : meq n n (mpow n A 1) A.
Proof. simpl. apply mmul_id_r. Qed.
Lemma mpow_succ_r n A p : meq n n (mpow n A (S p)) (mmul n n n (mpow n A p) A).
Proof.
  replace (S p) with (p + 1)%nat by lia. rewrite mpow_add. now rewrite mpow_1.
Qed.
Lemma mtr_mpow n A p : meq n n (mtr n n (mpow n A p)) (mpow n (mtr n n A) p).
Proof.
  induction p.
  - simpl. apply mtr_mid.
  - rewrite mpow_succ_r. simpl. rewrite mtr_mmul. now rewrite IHp.
Qed.

(* ---- symmetry, trace, 1x1 matrices *)
Definition msym (n : nat) (A : Qmat) : Prop := meq n n (mtr n n A) A.

Lemma msym_get n A i j : msym n A -> (i < n)%nat -> (j < n)%nat -> get A i j == get A j i.
Proof. intros S Hi Hj. rewrite <- (S i j Hi Hj). now rewrite get_mtr. Qed.

Lemma mtr_1x1 (A : Qmat) : meq 1 1 (mtr 1 1 A) A.
Proof.
  intros i j Hi Hj. rewrite get_mtr by assumption.
  assert (i = 0%nat) by lia. assert (j = 0%nat) by lia. subst. reflexivity.
Qed.

Lemma mtrace_Q n (A : Qmat) : mtrace n A == sumQ n (fun i => get A i i).
Proof. unfold mtrace. apply nsum_sumQ. Qed.

#[global] Instance mtrace_proper n : Proper (meq n n ==> Qeq) (mtrace n).
Proof. intros A B E. rewrite !mtrace_Q. apply sumQ_ext. intros. now apply E. Qed.

Lemma mtrace_mmul_comm n m A B :
  mtrace n (mmul n m n A B) == mtrace m (mmul m n m B A).
Proof.
  rewrite !mtrace_Q.
  rewrite (sumQ_ext n _ (fun i => sumQ m (fun l => get A i l * get B l i)))
    by (intros; now rewrite get_mmul).
  rewrite (sumQ_ext m _ (fun l => sumQ n (fun i => get A i l * get B l i))).
  - apply sumQ_exchange.
  - intros l Hl. rewrite get_mmul by assumption. apply sumQ_ext. intros. ring.
Qed.

(* ---- vectors over Q and their matrix counterparts *)
Definition veq (n : nat) (u v : list Q) : Prop := forall i, (i < n)%nat -> vget u i == vget v i.

#[global] Instance veq_equiv n : Equivalence (veq n).
Proof.
  split.
  - intros u i _. reflexivity.
  - intros u v E i Hi. symmetry. now apply E.
  - intros u v w E F i Hi. rewrite (E i Hi). now apply F.
Qed.

Lemma vget_vadd n u v i : (i < n)%nat -> vget (vadd n u v) i == vget u i + vget v i.
Proof. intros. unfold vadd. rewrite vget_vmk by assumption. apply nadd_Q. Qed.
Lemma vget_vsub n u v i : (i < n)%nat -> vget (vsub n u v) i == vget u i - vget v i.
Proof. intros. unfold vsub. rewrite vget_vmk by assumption. apply nsub_Q. Qed.
Lemma vget_vneg n (u : list Q) i : (i < n)%nat -> vget (vneg n u) i == - vget u i.
Proof. intros. unfold vneg. rewrite vget_vmk by assumption. apply nneg_Q. Qed.
Lemma vget_vscale n c (u : list Q) i : (i < n)%nat -> vget (vscale n c u) i == c * vget u i.
Proof. intros. unfold vscale. rewrite vget_vmk by assumption. apply nmul_Q. Qed.
Lemma vget_mvmul n m (A : Qmat) v i : (i < n)%nat ->
  vget (mvmul n m A v) i == sumQ m (fun l => get A i l * vget v l).
Proof.
  intros. unfold mvmul. rewrite vget_vmk by assumption. rewrite nsum_sumQ.
  apply sumQ_ext. intros. apply nmul_Q.
Qed.
Lemma vdot_Q n (u v : list Q) : vdot n u v == sumQ n (fun i => vget u i * vget v i).
Proof. unfold vdot. rewrite nsum_sumQ. apply sumQ_ext. intros. apply nmul_Q. Qed.

Lemma get_colmat n (v : list Q) i : (i < n)%nat -> get (colmat n v) i 0 = vget v i.
Proof. intros. unfold colmat. now rewrite get_mk by lia. Qed.

Lemma colmat_mvmul n m (A : Qmat) v :
  meq n 1 (colmat n (mvmul n m A v)) (mmul n m 1 A (colmat m v)).
Proof.
  intros i j Hi Hj. assert (j = 0%nat) by lia. subst j.
  rewrite get_colmat, get_mmul, vget_mvmul by assumption.
  apply sumQ_ext. intros l Hl. now rewrite get_colmat.
Qed.

(* x' A y as the single entry of a 1 x 1 product *)
Lemma bform_as_mmul n m x (A : Qmat) y :
  bform n m x A y == get (mmul 1 n 1 (mtr n 1 (colmat n x)) (mmul n m 1 A (colmat m y))) 0 0.
Proof.
  unfold bform. rewrite vdot_Q, get_mmul by lia.
  apply sumQ_ext. intros l Hl.
  rewrite get_mtr, get_colmat by lia.
  rewrite vget_mvmul, get_mmul by lia.
  apply Qmult_comp; [reflexivity|]. apply sumQ_ext. intros. now rewrite get_colmat.
Qed.

Lemma qform_bform n x (A : Qmat) : qform n x A = bform n n x A x.
Proof. reflexivity. Qed.

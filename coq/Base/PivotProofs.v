(* Lemmas about Base/Pivot.v at the exact instance NumQ (all equalities are Qeq):
   entry formula of _pivoting, well-formedness, finite sums, the self-certifying row invariant
   (row i = sum_k T[i,aux_k] * T0[k], affine version for a criterion row), unit columns of the
   basic variables, inclusion of solution sets, specification of the (lexicographic) min-ratio
   test at tolerance 0 and preservation of a non-negative right-hand side. *)
From Coq Require Import ZArith QArith List Bool Arith Lia Lqa Setoid Morphisms.
From QE Require Import Base.Num Base.Pivot.
Import ListNotations.
Open Scope Q_scope.

Notation matQ := (list (list Q)).

(* ------------------------------------------------------------------ lists *)
Lemma nth_tabv {A} n (f : nat -> A) d i : (i < n)%nat -> nth i (tabv n f) d = f i.
Proof.
  intros Hi. unfold tabv. rewrite nth_indep with (d' := f 0%nat) by (rewrite map_length, seq_length; auto).
  rewrite map_nth. rewrite seq_nth by auto. reflexivity.
Qed.
Lemma length_tabv {A} n (f : nat -> A) : length (tabv n f) = n.
Proof. unfold tabv. now rewrite map_length, seq_length. Qed.

Lemma get_tab nr nc (f : nat -> nat -> Q) i j : (i < nr)%nat -> (j < nc)%nat -> get (tab nr nc f) i j = f i j.
Proof. intros. unfold get, tab. rewrite nth_tabv by auto. apply nth_tabv; auto. Qed.

Lemma nth_map_lt {A B} (f : A -> B) l i d d' : (i < length l)%nat -> nth i (map f l) d' = f (nth i l d).
Proof. intros. rewrite nth_indep with (d' := f d) by (now rewrite map_length). apply map_nth. Qed.

Lemma length_mapi_from {A B} (f : nat -> A -> B) s l : length (mapi_from f s l) = length l.
Proof. revert s; induction l; intros; cbn; auto. Qed.
Lemma nth_mapi_from {A B} (f : nat -> A -> B) s l i d d' :
  (i < length l)%nat -> nth i (mapi_from f s l) d' = f (s + i)%nat (nth i l d).
Proof.
  revert s i; induction l; intros s i Hi; cbn in *; [lia|].
  destruct i; [now rewrite Nat.add_0_r|]. rewrite IHl by lia. f_equal. lia.
Qed.
Lemma length_map2 {A B C} (f : A -> B -> C) a b : length (map2 f a b) = Nat.min (length a) (length b).
Proof. revert b; induction a; intros [|y b]; cbn; auto. Qed.
Lemma nth_map2 {A B C} (f : A -> B -> C) a b i da db dc :
  (i < length a)%nat -> (i < length b)%nat -> nth i (map2 f a b) dc = f (nth i a da) (nth i b db).
Proof.
  revert b i; induction a; intros [|y b] i Ha Hb; cbn in *; try lia.
  destruct i; auto. apply IHa; lia.
Qed.
Lemma length_set_nth {A} (l : list A) i v : length (set_nth l i v) = length l.
Proof. revert i; induction l; intros [|i]; cbn; auto. Qed.
Lemma nth_set_nth {A} (l : list A) i v k d :
  nth k (set_nth l i v) d = if Nat.eqb k i then (if Nat.ltb i (length l) then v else nth k l d) else nth k l d.
Proof.
  revert i k; induction l; intros i k; cbn.
  - destruct (Nat.eqb k i); destruct k, i; reflexivity.
  - destruct i, k; cbn; auto. rewrite IHl. destruct (Nat.eqb k i); auto.
Qed.
Lemma nth_set_nth_eq {A} (l : list A) i v d : (i < length l)%nat -> nth i (set_nth l i v) d = v.
Proof. intros. rewrite nth_set_nth, Nat.eqb_refl. destruct (Nat.ltb_spec i (length l)); auto; lia. Qed.
Lemma nth_set_nth_neq {A} (l : list A) i v k d : k <> i -> nth k (set_nth l i v) d = nth k l d.
Proof. intros. rewrite nth_set_nth. destruct (Nat.eqb_spec k i); auto; contradiction. Qed.

(* ------------------------------------------------------------------ well-formed tableaux *)
Definition wf (nr nc : nat) (M : matQ) : Prop := length M = nr /\ forall i, (i < nr)%nat -> length (nth i M []) = nc.

Lemma wf_tab nr nc f : wf nr nc (tab nr nc f).
Proof. split; [apply length_tabv|]. intros. unfold tab. rewrite nth_tabv by auto. apply length_tabv. Qed.

Lemma wf_ncols nr nc M : wf nr nc M -> (0 < nr)%nat -> ncols M = nc.
Proof. intros [_ H] Hp. apply H; auto. Qed.

(* ------------------------------------------------------------------ _pivoting *)
Lemma wf_pivoting nr nc M c r : wf nr nc M -> (r < nr)%nat -> wf nr nc (pivoting M c r).
Proof.
  intros [Hl Hr] Hrn. unfold pivoting, mapi. split; [now rewrite length_mapi_from|].
  intros i Hi. rewrite nth_mapi_from with (d := []) by lia. cbn.
  destruct (Nat.eqb i r); [rewrite map_length; auto|].
  match goal with |- context [if ?b then _ else _] => destruct b end; auto.
  rewrite length_map2, map_length, !Hr by auto. apply Nat.min_id.
Qed.

Lemma get_pivoting nr nc M c r i j :
  wf nr nc M -> (r < nr)%nat -> (i < nr)%nat -> (j < nc)%nat ->
  get (pivoting M c r) i j ==
    if Nat.eqb i r then get M r j / get M r c
    else get M i j - get M r j / get M r c * get M i c.
Proof.
  intros [Hl Hr] Hrn Hi Hj. unfold pivoting, mapi, get at 1.
  rewrite nth_mapi_from with (d := []) by lia. cbn [plus].
  destruct (Nat.eqb i r).
  - change (nth j (map (fun x => ndiv x (vget (nth r M []) c)) (nth r M [])) nzero)
      with (nth j (map (fun x => Qdivr x (get M r c)) (nth r M [])) 0).
    rewrite nth_map_lt with (d := 0) by (rewrite Hr; auto).
    rewrite Qdivr_eq. reflexivity.
  - change (vget (nth i M []) c) with (get M i c).
    change (neqb (get M i c) nzero) with (Qeq_bool (get M i c) 0).
    destruct (Qeq_bool (get M i c) 0) eqn:E.
    + apply Qeq_bool_iff in E. unfold get at 1. rewrite E. change (nth j (nth i M []) nzero) with (get M i j). ring.
    + rewrite nth_map2 with (da := 0) (db := 0) by (rewrite ?map_length, ?Hr; auto).
      change (nsub ?a (nmul ?b ?m)) with (Qsubr a (Qmulr b m)).
      rewrite Qsubr_eq, Qmulr_eq.
      change (vget (nth r M []) c) with (get M r c).
      rewrite nth_map_lt with (d := 0) by (rewrite Hr; auto).
      change (ndiv ?a ?b) with (Qdivr a b). rewrite Qdivr_eq. reflexivity.
Qed.

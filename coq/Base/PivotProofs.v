(* Lemmas about Base/Pivot.v at the exact instance NumQ (all equalities are Qeq):
   entry formula of _pivoting, well-formedness, finite sums, the self-certifying row invariant
   (row i = sum_k T[i,aux_k] * T0[k], affine version for a criterion row), unit columns of the
   basic variables, inclusion of solution sets, specification of the (lexicographic) min-ratio
   test at tolerance 0 and preservation of a non-negative right-hand side. *)
From Coq Require Import ZArith QArith List Bool Arith Lia Lqa Setoid Morphisms.
From QE Require Import Base.Num Base.Pivot.
Import ListNotations.
Open Scope Q_scope.

Notation matQ := (list (list Q)).

(* ------------------------------------------------------------------ lists *)
Lemma nth_tabv {A} n (f : nat -> A) d i : (i < n)%nat -> nth i (tabv n f) d = f i.
Proof.
  intros Hi. unfold tabv. rewrite nth_indep with (d' := f 0%nat) by (rewrite map_length, seq_length; auto).
  rewrite map_nth. rewrite seq_nth by auto. reflexivity.
Qed.
Lemma length_tabv {A} n (f : nat -> A) : length (tabv n f) = n.
Proof. unfold tabv. now rewrite map_length, seq_length. Qed.

Lemma get_tab nr nc (f : nat -> nat -> Q) i j : (i < nr)%nat -> (j < nc)%nat -> get (tab nr nc f) i j = f i j.
Proof. intros. unfold get, tab. rewrite nth_tabv by auto. apply nth_tabv; auto. Qed.

Lemma nth_map_lt {A B} (f : A -> B) l i d d' : (i < length l)%nat -> nth i (map f l) d' = f (nth i l d).
Proof. intros. rewrite nth_indep with (d' := f d) by (now rewrite map_length). apply map_nth. Qed.

Lemma length_mapi_from {A B} (f : nat -> A -> B) s l : length (mapi_from f s l) = length l.
Proof. revert s; induction l; intros; cbn; auto. Qed.
Lemma nth_mapi_from {A B} (f : nat -> A -> B) s l i d d' :
  (i < length l)%nat -> nth i (mapi_from f s l) d' = f (s + i)%nat (nth i l d).
Proof.
  revert s i; induction l; intros s i Hi; cbn in *; [lia|].
  destruct i; [now rewrite Nat.add_0_r|]. rewrite IHl by lia. f_equal. lia.
Qed.
Lemma length_map2 {A B C} (f : A -> B -> C) a b : length (map2 f a b) = Nat.min (length a) (length b).
Proof. revert b; induction a; intros [|y b]; cbn; auto. Qed.
Lemma nth_map2 {A B C} (f : A -> B -> C) a b i da db dc :
  (i < length a)%nat -> (i < length b)%nat -> nth i (map2 f a b) dc = f (nth i a da) (nth i b db).
Proof.
  revert b i; induction a; intros [|y b] i Ha Hb; cbn in *; try lia.
  destruct i; auto. apply IHa; lia.
Qed.
Lemma length_set_nth {A} (l : list A) i v : length (set_nth l i v) = length l.
Proof. revert i; induction l; intros [|i]; cbn; auto. Qed.
Lemma nth_set_nth {A} (l : list A) i v k d :
  nth k (set_nth l i v) d = if Nat.eqb k i then (if Nat.ltb i (length l) then v else nth k l d) else nth k l d.
Proof.
  revert i k; induction l; intros i k; cbn.
  - destruct (Nat.eqb k i); destruct k, i; reflexivity.
  - destruct i, k; cbn; auto. rewrite IHl. destruct (Nat.eqb k i); auto.
Qed.
Lemma nth_set_nth_eq {A} (l : list A) i v d : (i < length l)%nat -> nth i (set_nth l i v) d = v.
Proof. intros. rewrite nth_set_nth, Nat.eqb_refl. destruct (Nat.ltb_spec i (length l)); auto; lia. Qed.
Lemma nth_set_nth_neq {A} (l : list A) i v k d : k <> i -> nth k (set_nth l i v) d = nth k l d.
Proof. intros. rewrite nth_set_nth. destruct (Nat.eqb_spec k i); auto; contradiction. Qed.

(* ------------------------------------------------------------------ well-formed tableaux *)
Definition wf (nr nc : nat) (M : matQ) : Prop := length M = nr /\ forall i, (i < nr)%nat -> length (nth i M []) = nc.

Lemma wf_tab nr nc f : wf nr nc (tab nr nc f).
Proof. split; [apply length_tabv|]. intros. unfold tab. rewrite nth_tabv by auto. apply length_tabv. Qed.

Lemma wf_ncols nr nc M : wf nr nc M -> (0 < nr)%nat -> ncols M = nc.
Proof. intros [_ H] Hp. apply H; auto. Qed.

(* ------------------------------------------------------------------ _pivoting *)
Lemma wf_pivoting nr nc M c r : wf nr nc M -> (r < nr)%nat -> wf nr nc (pivoting M c r).
Proof.
  intros [Hl Hr] Hrn. unfold pivoting, mapi. split; [now rewrite length_mapi_from|].
  intros i Hi. rewrite nth_mapi_from with (d := []) by lia. cbn.
  destruct (Nat.eqb i r); [rewrite map_length; auto|].
  match goal with |- context [if ?b then _ else _] => destruct b end; auto.
  rewrite length_map2, map_length, !Hr by auto. apply Nat.min_id.
Qed.

Lemma get_pivoting nr nc M c r i j :
  wf nr nc M -> (r < nr)%nat -> (i < nr)%nat -> (j < nc)%nat ->
  get (pivoting M c r) i j ==
    if Nat.eqb i r then get M r j / get M r c
    else get M i j - get M r j / get M r c * get M i c.
Proof.
  intros [Hl Hr] Hrn Hi Hj. unfold pivoting, mapi, get at 1.
  rewrite nth_mapi_from with (d := []) by lia. cbn [plus].
  destruct (Nat.eqb i r).
  - change (nth j (map (fun x => ndiv x (vget (nth r M []) c)) (nth r M [])) nzero)
      with (nth j (map (fun x => Qdivr x (get M r c)) (nth r M [])) 0).
    rewrite nth_map_lt with (d := 0) by (rewrite Hr; auto).
    rewrite Qdivr_eq. reflexivity.
  - change (vget (nth i M []) c) with (get M i c).
    change (neqb (get M i c) nzero) with (Qeq_bool (get M i c) 0).
    destruct (Qeq_bool (get M i c) 0) eqn:E.
    + apply Qeq_bool_iff in E. unfold get at 1. rewrite E. change (nth j (nth i M []) nzero) with (get M i j). ring.
    + rewrite nth_map2 with (da := 0) (db := 0) by (rewrite ?map_length, ?Hr; auto).
      change (nsub ?a (nmul ?b ?m)) with (Qsubr a (Qmulr b m)).
      rewrite Qsubr_eq, Qmulr_eq.
      change (vget (nth r M []) c) with (get M r c).
      rewrite nth_map_lt with (d := 0) by (rewrite Hr; auto).
      change (ndiv ?a ?b) with (Qdivr a b). rewrite Qdivr_eq. reflexivity.
Qed.
(* ------------------------------------------------------------------ finite sums *)
Fixpoint sumQ (n : nat) (f : nat -> Q) : Q := match n with O => 0 | S k => sumQ k f + f k end.

Lemma sumQ_ext n f g : (forall k, (k < n)%nat -> f k == g k) -> sumQ n f == sumQ n g.
Proof. induction n; intros Hfg; cbn; [reflexivity|]. rewrite IHn, Hfg by (intros; try apply Hfg; lia). reflexivity. Qed.
Lemma sumQ_lin n f g a b : sumQ n (fun k => a * f k + b * g k) == a * sumQ n f + b * sumQ n g.
Proof. induction n; cbn; [ring|]. rewrite IHn. ring. Qed.
Lemma sumQ_scale n f a : sumQ n (fun k => a * f k) == a * sumQ n f.
Proof. induction n; cbn; [ring|]. rewrite IHn. ring. Qed.
Lemma sumQ_plus n f g : sumQ n (fun k => f k + g k) == sumQ n f + sumQ n g.
Proof. induction n; cbn; [ring|]. rewrite IHn. ring. Qed.
Lemma sumQ_zero n f : (forall k, (k < n)%nat -> f k == 0) -> sumQ n f == 0.
Proof. induction n; intros Hf; cbn; [reflexivity|]. rewrite IHn, Hf by (intros; try apply Hf; lia). ring. Qed.
Lemma sumQ_nonneg n f : (forall k, (k < n)%nat -> 0 <= f k) -> 0 <= sumQ n f.
Proof. induction n; intros Hf; cbn; [lra|]. assert (0 <= f n) by (apply Hf; lia). assert (0 <= sumQ n f) by (apply IHn; intros; apply Hf; lia). lra. Qed.
Lemma sumQ_le n f g : (forall k, (k < n)%nat -> f k <= g k) -> sumQ n f <= sumQ n g.
Proof. induction n; intros Hf; cbn; [lra|]. assert (f n <= g n) by (apply Hf; lia). assert (sumQ n f <= sumQ n g) by (apply IHn; intros; apply Hf; lia). lra. Qed.
Lemma sumQ_swap n m (f : nat -> nat -> Q) :
  sumQ n (fun i => sumQ m (fun j => f i j)) == sumQ m (fun j => sumQ n (fun i => f i j)).
Proof.
  induction n; cbn.
  - symmetry. apply sumQ_zero. reflexivity.
  - rewrite IHn. rewrite <- sumQ_plus. reflexivity.
Qed.
Lemma sumQ_delta n a (f : nat -> Q) :
  sumQ n (fun j => if Nat.eqb j a then f j else 0) == if Nat.ltb a n then f a else 0.
Proof.
  induction n; cbn [sumQ]; [reflexivity|]. rewrite IHn.
  destruct (Nat.eqb_spec n a) as [->|Hne].
  - rewrite Nat.ltb_irrefl. destruct (Nat.ltb_spec a (S a)); [ring|lia].
  - destruct (Nat.ltb_spec a n), (Nat.ltb_spec a (S n)); try lia; ring.
Qed.
Lemma sumQ_delta' n a (f : nat -> Q) :
  sumQ n (fun j => if Nat.eqb a j then f j else 0) == if Nat.ltb a n then f a else 0.
Proof. rewrite <- sumQ_delta. apply sumQ_ext. intros. rewrite Nat.eqb_sym. reflexivity. Qed.
Lemma sumQ_split a b f : sumQ (a + b) f == sumQ a f + sumQ b (fun j => f (a + j)%nat).
Proof. induction b; cbn; [rewrite Nat.add_0_r; ring|]. rewrite Nat.add_succ_r. cbn. rewrite IHb. ring. Qed.
Lemma sumQ_nonneg_zero n f : (forall k, (k < n)%nat -> 0 <= f k) -> sumQ n f <= 0 -> forall k, (k < n)%nat -> f k == 0.
Proof.
  induction n; intros Hf Hs k Hk; [lia|]. cbn in Hs.
  assert (0 <= f n) by (apply Hf; lia). assert (0 <= sumQ n f) by (apply sumQ_nonneg; intros; apply Hf; lia).
  destruct (Nat.eq_dec k n) as [->|]; [lra|]. apply IHn; auto; try lia; try lra. 
Qed.

(* ------------------------------------------------------------------ self-certifying row invariant
   A row (as a function of the column) is the affine combination
       row = obj + sum_k (row[a+k] - obj[a+k]) * T0[k]
   of the L rows of T0, the multipliers being read off the columns a..a+L (identity block of T0).
   obj = 0: constraint rows.  obj = objective: criterion row. *)
Definition comb_aff (L a nc : nat) (T0 : matQ) (obj row : nat -> Q) : Prop :=
  forall j, (j < nc)%nat -> row j == obj j + sumQ L (fun k => (row (a + k)%nat - obj (a + k)%nat) * get T0 k j).
Definition comb_lin L a nc T0 row := comb_aff L a nc T0 (fun _ => 0) row.

Lemma comb_aff_ext L a nc T0 obj r1 r2 :
  (a + L <= nc)%nat -> (forall j, (j < nc)%nat -> r1 j == r2 j) -> comb_aff L a nc T0 obj r1 -> comb_aff L a nc T0 obj r2.
Proof.
  intros Ha He H1 j Hj. rewrite <- He by auto. rewrite (H1 j Hj). apply Qplus_comp; [reflexivity|].
  apply sumQ_ext. intros k Hk. rewrite He by lia. reflexivity.
Qed.

Lemma comb_aff_sub L a nc T0 obj ri rr mu :
  comb_aff L a nc T0 obj ri -> comb_lin L a nc T0 rr -> comb_aff L a nc T0 obj (fun j => ri j - mu * rr j).
Proof.
  intros Hi Hr j Hj. cbv beta. rewrite (Hi j Hj), (Hr j Hj).
  transitivity (obj j + sumQ L (fun k => 1 * ((ri (a + k)%nat - obj (a + k)%nat) * get T0 k j)
                                        + (- mu) * ((rr (a + k)%nat - 0) * get T0 k j))).
  - rewrite sumQ_lin. ring.
  - apply Qplus_comp; [reflexivity|]. apply sumQ_ext. intros. ring.
Qed.

Lemma comb_lin_scale L a nc T0 rr s :
  comb_lin L a nc T0 rr -> comb_lin L a nc T0 (fun j => s * rr j).
Proof.
  intros Hr j Hj. cbv beta. rewrite (Hr j Hj).
  transitivity (0 + sumQ L (fun k => s * ((rr (a + k)%nat - 0) * get T0 k j))).
  - rewrite sumQ_scale. ring.
  - apply Qplus_comp; [reflexivity|]. apply sumQ_ext. intros. ring.
Qed.

(* rows of a tableau *)
Definition rowf (T : matQ) (i : nat) : nat -> Q := fun j => get T i j.

(* T0's own rows satisfy the invariant when T0 has an identity block at columns a..a+L *)
Lemma comb_lin_init L a nc T0 i :
  (i < L)%nat ->
  (forall k j, (k < L)%nat -> (j < L)%nat -> get T0 k (a + j)%nat == if Nat.eqb k j then 1 else 0) ->
  comb_lin L a nc T0 (rowf T0 i).
Proof.
  intros Hi Hid j Hj. unfold rowf.
  rewrite (sumQ_ext L _ (fun k => if Nat.eqb k i then get T0 k j else 0)).
  - rewrite sumQ_delta. destruct (Nat.ltb_spec i L); [ring|lia].
  - intros k Hk. rewrite (Hid i k Hi Hk). destruct (Nat.eqb_spec k i), (Nat.eqb_spec i k); try (exfalso; lia); ring.
Qed.

(* _pivoting preserves the invariant: pivot row (linear) ... *)
Lemma pivoting_comb_lin_pivrow nr nc L a T0 T c r :
  wf nr nc T -> (r < nr)%nat -> (a + L <= nc)%nat ->
  comb_lin L a nc T0 (rowf T r) -> comb_lin L a nc T0 (rowf (pivoting T c r) r).
Proof.
  intros Hwf Hr Ha Hlin.
  apply comb_aff_ext with (r1 := fun j => (/ get T r c) * rowf T r j); auto.
  - intros j Hj. unfold rowf. rewrite (get_pivoting nr nc) by auto. rewrite Nat.eqb_refl. unfold Qdiv. ring.
  - apply comb_lin_scale; auto.
Qed.
(* ... and every other row, linear or affine (criterion row) *)
Lemma pivoting_comb_aff_other nr nc L a T0 obj T c r i :
  wf nr nc T -> (r < nr)%nat -> (i < nr)%nat -> i <> r -> (a + L <= nc)%nat ->
  comb_lin L a nc T0 (rowf T r) -> comb_aff L a nc T0 obj (rowf T i) ->
  comb_aff L a nc T0 obj (rowf (pivoting T c r) i).
Proof.
  intros Hwf Hr Hi Hne Ha Hlin Haff.
  apply comb_aff_ext with (r1 := fun j => rowf T i j - (get T i c / get T r c) * rowf T r j); auto.
  - intros j Hj. unfold rowf. rewrite (get_pivoting nr nc) by auto.
    destruct (Nat.eqb_spec i r); [contradiction|]. unfold Qdiv. ring.
  - apply comb_aff_sub; auto.
Qed.

(* ------------------------------------------------------------------ unit columns of the basic variables *)
Definition unit_cols (nr L : nat) (T : matQ) (basis : list nat) : Prop :=
  forall i k, (i < L)%nat -> (k < nr)%nat -> get T k (nth i basis 0%nat) == if Nat.eqb k i then 1 else 0.

Lemma unit_cols_pivoting nr nc L T basis c r :
  wf nr nc T -> (L <= nr)%nat -> length basis = L -> (r < L)%nat -> (c < nc)%nat ->
  (forall i, (i < L)%nat -> (nth i basis 0 < nc)%nat) ->
  ~ get T r c == 0 ->
  unit_cols nr L T basis -> unit_cols nr L (pivoting T c r) (set_nth basis r c).
Proof.
  intros Hwf HL Hlen Hr Hc Hb Hp Hu i k Hi Hk.
  assert (Hrn : (r < nr)%nat) by lia.
  destruct (Nat.eq_dec i r) as [->|Hir].
  - rewrite nth_set_nth_eq by lia. rewrite (get_pivoting nr nc) by auto.
    destruct (Nat.eqb k r); field; auto.
  - rewrite nth_set_nth_neq by auto. rewrite (get_pivoting nr nc) by auto.
    pose proof (Hu i r Hi Hrn) as Hz. destruct (Nat.eqb_spec r i); [congruence|].
    pose proof (Hu i k Hi Hk) as Hk'.
    destruct (Nat.eqb_spec k r) as [->|Hkr].
    + destruct (Nat.eqb_spec r i); [congruence|]. rewrite Hz. field; auto.
    + rewrite Hz, Hk'. field; auto.
Qed.

(* ------------------------------------------------------------------ solutions of the row equations *)
Definition solves (L nc : nat) (T : matQ) (u : nat -> Q) : Prop :=
  forall i, (i < L)%nat -> sumQ (nc - 1) (fun j => get T i j * u j) == get T i (nc - 1)%nat.

(* a solution of the pivoted system solves the system before the pivot *)
Lemma solves_pivoting_back nr nc L T c r u :
  wf nr nc T -> (L <= nr)%nat -> (r < L)%nat -> (0 < nc)%nat -> ~ get T r c == 0 ->
  solves L nc (pivoting T c r) u -> solves L nc T u.
Proof.
  intros Hwf HL Hr Hnc Hp Hs i Hi.
  assert (Hrn : (r < nr)%nat) by lia. assert (Hin : (i < nr)%nat) by lia.
  pose proof (Hs r Hr) as Er.
  rewrite (get_pivoting nr nc) in Er by (auto; lia). rewrite Nat.eqb_refl in Er.
  rewrite (sumQ_ext _ _ (fun j => (/ get T r c) * (get T r j * u j))) in Er.
  2:{ intros j Hj. rewrite (get_pivoting nr nc) by (auto; lia). rewrite Nat.eqb_refl. field; auto. }
  rewrite sumQ_scale in Er.
  assert (Err : sumQ (nc - 1) (fun j => get T r j * u j) == get T r (nc - 1)%nat).
  { setoid_replace (sumQ (nc - 1) (fun j => get T r j * u j))
      with (get T r c * (/ get T r c * sumQ (nc - 1) (fun j => get T r j * u j))) by (field; auto).
    rewrite Er. field; auto. }
  destruct (Nat.eq_dec i r) as [->|Hne]; auto.
  pose proof (Hs i Hi) as Ei.
  rewrite (get_pivoting nr nc) in Ei by (auto; lia).
  destruct (Nat.eqb_spec i r); [contradiction|].
  rewrite (sumQ_ext _ _ (fun j => 1 * (get T i j * u j) + (- (get T i c / get T r c)) * (get T r j * u j))) in Ei.
  2:{ intros j Hj. rewrite (get_pivoting nr nc) by (auto; lia). destruct (Nat.eqb_spec i r); [contradiction|]. field; auto. }
  rewrite sumQ_lin, Err in Ei.
  setoid_replace (sumQ (nc - 1) (fun j => get T i j * u j))
    with ((1 * sumQ (nc - 1) (fun j => get T i j * u j) + - (get T i c / get T r c) * get T r (nc - 1)%nat)
          + (get T i c / get T r c) * get T r (nc - 1)%nat) by (field; auto).
  rewrite Ei. field; auto.
Qed.

(* basic solution read from the tableau: u_j = rhs of the row whose basic variable is j, else 0 *)
Definition bsol (L nc : nat) (T : matQ) (basis : list nat) (j : nat) : Q :=
  sumQ L (fun i => if Nat.eqb (nth i basis 0%nat) j then get T i (nc - 1)%nat else 0).

Lemma bsol_dot nc L T basis k :
  (forall i, (i < L)%nat -> (nth i basis 0 < nc - 1)%nat) ->
  sumQ (nc - 1) (fun j => get T k j * bsol L nc T basis j)
  == sumQ L (fun i => get T k (nth i basis 0%nat) * get T i (nc - 1)%nat).
Proof.
  intros Hb. unfold bsol.
  rewrite (sumQ_ext _ _ (fun j => sumQ L (fun i => if Nat.eqb (nth i basis 0%nat) j then get T k j * get T i (nc - 1)%nat else 0))).
  2:{ intros j Hj. rewrite <- sumQ_scale. apply sumQ_ext. intros i Hi. destruct (Nat.eqb _ _); ring. }
  rewrite sumQ_swap. apply sumQ_ext. intros i Hi.
  rewrite (sumQ_delta' (nc - 1) (nth i basis 0%nat) (fun j => get T k j * get T i (nc - 1)%nat)).
  destruct (Nat.ltb_spec (nth i basis 0%nat) (nc - 1)); [reflexivity|]. specialize (Hb i Hi). lia.
Qed.

Lemma bsol_solves nr nc L T basis :
  (L <= nr)%nat -> (forall i, (i < L)%nat -> (nth i basis 0 < nc - 1)%nat) ->
  unit_cols nr L T basis -> solves L nc T (bsol L nc T basis).
Proof.
  intros HL Hb Hu k Hk. rewrite bsol_dot by auto.
  rewrite (sumQ_ext _ _ (fun i => if Nat.eqb i k then get T i (nc - 1)%nat else 0)).
  - rewrite sumQ_delta. destruct (Nat.ltb_spec k L); [reflexivity|lia].
  - intros i Hi. rewrite (Hu i k Hi) by lia. destruct (Nat.eqb_spec k i), (Nat.eqb_spec i k); try (exfalso; lia); ring.
Qed.

(* a row outside the constraint rows (criterion row) has zero product with the basic solution *)
Lemma bsol_dot_crit nr nc L T basis k :
  (L <= k)%nat -> (k < nr)%nat -> (forall i, (i < L)%nat -> (nth i basis 0 < nc - 1)%nat) ->
  unit_cols nr L T basis -> sumQ (nc - 1) (fun j => get T k j * bsol L nc T basis j) == 0.
Proof.
  intros HL Hk Hb Hu. rewrite bsol_dot by auto. apply sumQ_zero. intros i Hi.
  rewrite (Hu i k Hi Hk). destruct (Nat.eqb_spec k i); [lia|ring].
Qed.

Lemma bsol_basic nr nc L T basis i :
  (L <= nr)%nat -> (i < L)%nat -> unit_cols nr L T basis ->
  bsol L nc T basis (nth i basis 0%nat) == get T i (nc - 1)%nat.
Proof.
  intros HL Hi Hu. unfold bsol.
  rewrite (sumQ_ext _ _ (fun i' => if Nat.eqb i' i then get T i' (nc - 1)%nat else 0)).
  - rewrite sumQ_delta. destruct (Nat.ltb_spec i L); [reflexivity|lia].
  - intros i' Hi'. destruct (Nat.eqb_spec (nth i' basis 0%nat) (nth i basis 0%nat)) as [E|E];
      destruct (Nat.eqb_spec i' i) as [E'|E']; try reflexivity.
    + exfalso. pose proof (Hu i' i' Hi' ltac:(lia)) as H1. pose proof (Hu i i' Hi ltac:(lia)) as H2.
      rewrite E in H1. rewrite H1 in H2. rewrite Nat.eqb_refl in H2. destruct (Nat.eqb_spec i' i); [contradiction|]. lra.
    + subst. contradiction.
Qed.

Lemma bsol_nonbasic L nc T basis j :
  (forall i, (i < L)%nat -> nth i basis 0%nat <> j) -> bsol L nc T basis j == 0.
Proof. intros H. apply sumQ_zero. intros i Hi. destruct (Nat.eqb_spec (nth i basis 0%nat) j); [exfalso; eapply H; eauto|reflexivity]. Qed.

Lemma bsol_nonneg L nc T basis j :
  (forall i, (i < L)%nat -> 0 <= get T i (nc - 1)%nat) -> 0 <= bsol L nc T basis j.
Proof. intros H. apply sumQ_nonneg. intros i Hi. destruct (Nat.eqb _ _); [auto|lra]. Qed.
(* ------------------------------------------------------------------ min-ratio test *)
(* boolean comparisons of NumQ *)
Lemma nleb_le (a b : Q) : nleb a b = true <-> a <= b.
Proof. apply Qle_bool_iff. Qed.
Lemma nltb_lt (a b : Q) : nltb a b = true <-> a < b.
Proof. apply Qltb_lt. Qed.
Lemma nleb_false (a b : Q) : nleb a b = false <-> b < a.
Proof.
  change (nleb a b) with (Qle_bool a b). split; intros H.
  - apply Qnot_le_lt. intro H'. apply Qle_bool_iff in H'. congruence.
  - destruct (Qle_bool a b) eqn:E; auto. apply Qle_bool_iff in E. lra.
Qed.
Lemma nltb_false (a b : Q) : nltb a b = false <-> b <= a.
Proof.
  split; intros H.
  - apply Qnot_lt_le. intro H'. apply nltb_lt in H'. congruence.
  - destruct (nltb a b) eqn:E; auto. apply nltb_lt in E. lra.
Qed.

(* every tolerance: rows returned are candidates whose pivot-column entry exceeds tol_piv *)
Lemma mrt_loop_in M pv tc tolp tolr cands rmin acc r :
  In r (mrt_loop M pv tc tolp tolr cands rmin acc) ->
  In r acc \/ (In r cands /\ tolp < get M r pv).
Proof.
  revert rmin acc. induction cands as [|i rest IH]; intros rmin acc Hin; cbn [mrt_loop] in Hin.
  - left. now apply in_rev.
  - destruct (nleb (get M i pv) tolp) eqn:E1.
    + destruct (IH _ _ Hin) as [|[? ?]]; auto. right; split; auto. now right.
    + apply nleb_false in E1.
      assert (Hcase : forall rm' acc', In r (mrt_loop M pv tc tolp tolr rest rm' acc') ->
                (forall x, In x acc' -> x = i \/ In x acc) ->
                In r acc \/ In r (i :: rest) /\ tolp < get M r pv).
      { intros rm' acc' H1 H2. destruct (IH _ _ H1) as [Ha|[Ha Hb]].
        - destruct (H2 _ Ha) as [->|]; auto. right; split; auto. now left.
        - right; split; auto. now right. }
      destruct rmin as [rm|].
      * destruct (nltb _ _); [|destruct (nltb _ _)].
        -- apply (Hcase _ _ Hin). auto.
        -- apply (Hcase _ _ Hin). intros x [<-|[]]; auto.
        -- apply (Hcase _ _ Hin). intros x [<-|]; auto.
      * apply (Hcase _ _ Hin). intros x [<-|[]]; auto.
Qed.

Lemma min_ratio_test_in M pv tc tolp tolr cands r :
  In r (min_ratio_test M pv tc tolp tolr cands) -> In r cands /\ tolp < get M r pv.
Proof. intros H. destruct (mrt_loop_in _ _ _ _ _ _ _ _ _ H) as [[]|]; auto. Qed.

(* tolerance 0: rows returned attain the minimum ratio among the candidates with positive entry *)
Definition ratio (M : matQ) (pv tc i : nat) : Q := get M i tc / get M i pv.

Lemma mrt_loop_min M pv tc cands rmin acc r :
  match rmin with
  | None => acc = []
  | Some rm => forall x, In x acc -> ratio M pv tc x == rm
  end ->
  In r (mrt_loop M pv tc 0 0 cands rmin acc) ->
  (forall k, In k cands -> 0 < get M k pv -> ratio M pv tc r <= ratio M pv tc k) /\
  match rmin with Some rm => ratio M pv tc r <= rm | None => True end.
Proof.
  revert rmin acc. induction cands as [|i rest IH]; intros rmin acc Hinv Hin; cbn [mrt_loop] in Hin.
  - split; [intros k []|]. destruct rmin as [rm|]; auto. apply in_rev in Hin. rewrite (Hinv _ Hin). lra.
  - change (@nzero Q NumQ) with 0 in *.
    destruct (nleb (get M i pv) 0) eqn:E1.
    + apply nleb_le in E1. destruct (IH _ _ Hinv Hin) as [H1 H2]. split; auto.
      intros k [<-|Hk] Hpos; [lra|auto].
    + apply nleb_false in E1.
      change (ndiv (get M i tc) (get M i pv)) with (Qdivr (get M i tc) (get M i pv)) in Hin.
      assert (Er : Qdivr (get M i tc) (get M i pv) == ratio M pv tc i) by apply Qdivr_eq.
      destruct rmin as [rm|].
      * change (nadd rm 0) with (Qaddr rm 0) in Hin. change (nsub rm 0) with (Qsubr rm 0) in Hin.
        destruct (nltb (Qaddr rm 0) _) eqn:E2.
        -- apply nltb_lt in E2. rewrite Qaddr_eq, Er in E2.
           destruct (IH (Some rm) acc Hinv Hin) as [H1 H2]. split; auto.
           intros k [<-|Hk] Hpos; [lra|auto].
        -- apply nltb_false in E2. rewrite Qaddr_eq, Er in E2.
           destruct (nltb _ (Qsubr rm 0)) eqn:E3.
           ++ apply nltb_lt in E3. rewrite Qsubr_eq, Er in E3.
              destruct (IH (Some (Qdivr (get M i tc) (get M i pv))) [i]) as [H1 H2]; auto.
              { intros x [<-|[]]. now rewrite Er. }
              rewrite Er in H2. split; [|lra].
              intros k [<-|Hk] Hpos; auto.
           ++ apply nltb_false in E3. rewrite Qsubr_eq, Er in E3.
              destruct (IH (Some rm) (i :: acc)) as [H1 H2]; auto.
              { intros x [<-|Hx]; auto. lra. }
              split; auto. intros k [<-|Hk] Hpos; auto. lra.
      * destruct (IH (Some (Qdivr (get M i tc) (get M i pv))) [i]) as [H1 H2]; auto.
        { intros x [<-|[]]. now rewrite Er. }
        rewrite Er in H2. split; auto.
        intros k [<-|Hk] Hpos; auto.
Qed.

Lemma min_ratio_test_min M pv tc cands r :
  In r (min_ratio_test M pv tc 0 0 cands) ->
  forall k, In k cands -> 0 < get M k pv -> ratio M pv tc r <= ratio M pv tc k.
Proof. intros H. apply (mrt_loop_min M pv tc cands None [] r); auto. Qed.

(* the tie-breaking rounds only discard rows *)
Lemma lex_loop_subset (M : matQ) pv tolp tolr cols am found am' :
  lex_loop M pv tolp tolr cols am = (found, am') -> forall r, In r am' -> In r am.
Proof.
  revert am. induction cols as [|j rest IH]; intros am H r Hr; cbn in H.
  - inversion H; subst; auto.
  - destruct (Nat.eqb j pv); [eauto|].
    assert (Hs : forall x, In x (min_ratio_test M pv j tolp tolr am) -> In x am)
      by (intros x Hx; apply min_ratio_test_in in Hx; tauto).
    destruct (min_ratio_test M pv j tolp tolr am) as [|a [|b l]] eqn:E.
    + apply Hs. eapply IH; eauto.
    + inversion H; subst. auto.
    + apply Hs. eapply IH; eauto.
Qed.
Lemma lex_loop_found (M : matQ) pv tolp tolr cols am am' :
  lex_loop M pv tolp tolr cols am = (true, am') -> exists r, am' = [r].
Proof.
  revert am. induction cols as [|j rest IH]; intros am H; cbn in H; [discriminate|].
  destruct (Nat.eqb j pv); [eauto|].
  destruct (min_ratio_test M pv j tolp tolr am) as [|a [|b l]] eqn:E; eauto.
  inversion H; subst. eauto.
Qed.

(* _lex_min_ratio_test: a found row is a row of the tableau part tested, has a pivot-column entry
   above tol_piv, and (tolerance 0) attains the minimum ratio rhs/entry *)
Lemma lex_min_ratio_test_n_in nr (M : matQ) pv ss tolp tolr r :
  lex_min_ratio_test_n nr M pv ss tolp tolr = (true, r) ->
  In r (min_ratio_test M pv (ncols M - 1) tolp tolr (seq 0 nr)).
Proof.
  unfold lex_min_ratio_test_n. intros H.
  destruct (min_ratio_test M pv (ncols M - 1) tolp tolr (seq 0 nr)) as [|a [|b l]] eqn:E.
  - discriminate.
  - inversion H; subst. now left.
  - destruct (lex_loop M pv tolp tolr (seq ss nr) (a :: b :: l)) as [found am'] eqn:E2.
    inversion H; subst found. destruct (lex_loop_found _ _ _ _ _ _ _ E2) as [r' ->].
    apply (lex_loop_subset _ _ _ _ _ _ _ _ E2). now left.
Qed.

Lemma lex_min_ratio_test_n_spec nr (M : matQ) pv ss tolp tolr r :
  lex_min_ratio_test_n nr M pv ss tolp tolr = (true, r) -> (r < nr)%nat /\ tolp < get M r pv.
Proof.
  intros H. apply lex_min_ratio_test_n_in in H. apply min_ratio_test_in in H. destruct H as [H1 H2].
  apply in_seq in H1. split; auto; lia.
Qed.

Lemma lex_min_ratio_test_n_min nr (M : matQ) pv ss r :
  lex_min_ratio_test_n nr M pv ss 0 0 = (true, r) ->
  forall k, (k < nr)%nat -> 0 < get M k pv ->
            ratio M pv (ncols M - 1) r <= ratio M pv (ncols M - 1) k.
Proof.
  intros H k Hk Hpos. apply lex_min_ratio_test_n_in in H.
  apply (min_ratio_test_min _ _ _ _ _ H); auto. apply in_seq. lia.
Qed.

(* no row with an entry above tol_piv: not found *)
Lemma lex_min_ratio_test_n_none nr (M : matQ) pv ss tolp tolr :
  (forall k, (k < nr)%nat -> get M k pv <= tolp) -> fst (lex_min_ratio_test_n nr M pv ss tolp tolr) = false.
Proof.
  intros Hall. destruct (lex_min_ratio_test_n nr M pv ss tolp tolr) as [[|] r] eqn:E; auto.
  apply lex_min_ratio_test_n_spec in E. destruct E as [E1 E2]. specialize (Hall r E1). lra.
Qed.

(* ------------------------------------------------------------------ right-hand side stays >= 0 *)
Lemma pivoting_rhs_nonneg nr nc L T c r :
  wf nr nc T -> (L <= nr)%nat -> (r < L)%nat -> (0 < nc)%nat ->
  0 < get T r c ->
  (forall k, (k < L)%nat -> 0 < get T k c -> ratio T c (nc - 1) r <= ratio T c (nc - 1) k) ->
  (forall i, (i < L)%nat -> 0 <= get T i (nc - 1)%nat) ->
  forall i, (i < L)%nat -> 0 <= get (pivoting T c r) i (nc - 1)%nat.
Proof.
  intros Hwf HL Hr Hnc Hp Hmin Hrhs i Hi.
  rewrite (get_pivoting nr nc) by (auto; lia).
  pose proof (Hrhs r Hr) as Hrr. pose proof (Hrhs i Hi) as Hri.
  assert (Hq : 0 <= get T r (nc - 1)%nat / get T r c).
  { apply Qle_shift_div_l; auto. lra. }
  destruct (Nat.eqb i r); auto.
  destruct (Qlt_le_dec 0 (get T i c)) as [Hpos|Hneg].
  - specialize (Hmin i Hi Hpos). unfold ratio in Hmin.
    assert (get T r (nc - 1)%nat / get T r c * get T i c <= get T i (nc - 1)%nat).
    { assert (E : get T i (nc - 1)%nat == get T i (nc - 1)%nat / get T i c * get T i c) by (field; lra).
      rewrite E. apply Qmult_le_compat_r; lra. }
    lra.
  - assert (get T r (nc - 1)%nat / get T r c * get T i c <= 0) by nra. lra.
Qed.
(* ------------------------------------------------------------------ generalisation: the certifying
   columns need not be contiguous -- multiplier k is read off column `ac k` (T0[k', ac k] = delta);
   comb_aff L a ... is the instance ac k = a + k.  Used for the minmax tableau, whose normalisation row
   has its unit entry in the right-hand-side column. *)
Definition comb_affG (L : nat) (ac : nat -> nat) (nc : nat) (T0 : matQ) (obj row : nat -> Q) : Prop :=
  forall j, (j < nc)%nat -> row j == obj j + sumQ L (fun k => (row (ac k) - obj (ac k)) * get T0 k j).
Definition comb_linG L ac nc T0 row := comb_affG L ac nc T0 (fun _ => 0) row.

Lemma comb_aff_G L a nc T0 obj row : comb_aff L a nc T0 obj row <-> comb_affG L (fun k => (a + k)%nat) nc T0 obj row.
Proof. reflexivity. Qed.

Lemma comb_affG_ext L ac nc T0 obj r1 r2 :
  (forall k, (k < L)%nat -> (ac k < nc)%nat) -> (forall j, (j < nc)%nat -> r1 j == r2 j) ->
  comb_affG L ac nc T0 obj r1 -> comb_affG L ac nc T0 obj r2.
Proof.
  intros Ha He H1 j Hj. rewrite <- He by auto. rewrite (H1 j Hj). apply Qplus_comp; [reflexivity|].
  apply sumQ_ext. intros k Hk. rewrite He by auto. reflexivity.
Qed.
Lemma comb_affG_sub L ac nc T0 obj ri rr mu :
  comb_affG L ac nc T0 obj ri -> comb_linG L ac nc T0 rr -> comb_affG L ac nc T0 obj (fun j => ri j - mu * rr j).
Proof.
  intros Hi Hr j Hj. cbv beta. rewrite (Hi j Hj), (Hr j Hj).
  transitivity (obj j + sumQ L (fun k => 1 * ((ri (ac k) - obj (ac k)) * get T0 k j)
                                        + (- mu) * ((rr (ac k) - 0) * get T0 k j))).
  - rewrite sumQ_lin. ring.
  - apply Qplus_comp; [reflexivity|]. apply sumQ_ext. intros. ring.
Qed.
Lemma comb_linG_scale L ac nc T0 rr s :
  comb_linG L ac nc T0 rr -> comb_linG L ac nc T0 (fun j => s * rr j).
Proof.
  intros Hr j Hj. cbv beta. rewrite (Hr j Hj).
  transitivity (0 + sumQ L (fun k => s * ((rr (ac k) - 0) * get T0 k j))).
  - rewrite sumQ_scale. ring.
  - apply Qplus_comp; [reflexivity|]. apply sumQ_ext. intros. ring.
Qed.
Lemma comb_linG_init L ac nc T0 i :
  (i < L)%nat ->
  (forall k j, (k < L)%nat -> (j < L)%nat -> get T0 k (ac j) == if Nat.eqb k j then 1 else 0) ->
  comb_linG L ac nc T0 (rowf T0 i).
Proof.
  intros Hi Hid j Hj. unfold rowf.
  rewrite (sumQ_ext L _ (fun k => if Nat.eqb k i then get T0 k j else 0)).
  - rewrite sumQ_delta. destruct (Nat.ltb_spec i L); [ring|lia].
  - intros k Hk. rewrite (Hid i k Hi Hk). destruct (Nat.eqb_spec k i), (Nat.eqb_spec i k); try (exfalso; lia); ring.
Qed.
Lemma pivoting_comb_linG_pivrow nr nc L ac T0 T c r :
  wf nr nc T -> (r < nr)%nat -> (forall k, (k < L)%nat -> (ac k < nc)%nat) ->
  comb_linG L ac nc T0 (rowf T r) -> comb_linG L ac nc T0 (rowf (pivoting T c r) r).
Proof.
  intros Hwf Hr Ha Hlin.
  apply comb_affG_ext with (r1 := fun j => (/ get T r c) * rowf T r j); auto.
  - intros j Hj. unfold rowf. rewrite (get_pivoting nr nc) by auto. rewrite Nat.eqb_refl. unfold Qdiv. ring.
  - apply comb_linG_scale; auto.
Qed.
Lemma pivoting_comb_affG_other nr nc L ac T0 obj T c r i :
  wf nr nc T -> (r < nr)%nat -> (i < nr)%nat -> i <> r -> (forall k, (k < L)%nat -> (ac k < nc)%nat) ->
  comb_linG L ac nc T0 (rowf T r) -> comb_affG L ac nc T0 obj (rowf T i) ->
  comb_affG L ac nc T0 obj (rowf (pivoting T c r) i).
Proof.
  intros Hwf Hr Hi Hne Ha Hlin Haff.
  apply comb_affG_ext with (r1 := fun j => rowf T i j - (get T i c / get T r c) * rowf T r j); auto.
  - intros j Hj. unfold rowf. rewrite (get_pivoting nr nc) by auto.
    destruct (Nat.eqb_spec i r); [contradiction|]. unfold Qdiv. ring.
  - apply comb_affG_sub; auto.
Qed.

(* unit columns for a subset S of the rows (scripted initial pivots build a basis row by row) *)
Definition unit_colsP (nr L : nat) (S : nat -> Prop) (T : matQ) (basis : list nat) : Prop :=
  forall i k, (i < L)%nat -> S i -> (k < nr)%nat -> get T k (nth i basis 0%nat) == if Nat.eqb k i then 1 else 0.

Lemma unit_colsP_all nr L (S : nat -> Prop) T basis :
  (forall i, (i < L)%nat -> S i) -> unit_colsP nr L S T basis -> unit_cols nr L T basis.
Proof. intros HS Hu i k Hi Hk. apply Hu; auto. Qed.

Lemma unit_colsP_pivoting nr nc L (S : nat -> Prop) T basis c r :
  wf nr nc T -> (L <= nr)%nat -> length basis = L -> (r < L)%nat -> (c < nc)%nat ->
  (forall i, (i < L)%nat -> (nth i basis 0 < nc)%nat) ->
  ~ get T r c == 0 ->
  unit_colsP nr L S T basis ->
  (forall i, (i < L)%nat -> S i -> i <> r -> get T r (nth i basis 0%nat) == 0) ->
  unit_colsP nr L (fun i => S i \/ i = r) (pivoting T c r) (set_nth basis r c).
Proof.
  intros Hwf HL Hlen Hr Hc Hb Hp Hu Hz i k Hi HS Hk.
  assert (Hrn : (r < nr)%nat) by lia.
  destruct (Nat.eq_dec i r) as [->|Hir].
  - rewrite nth_set_nth_eq by lia. rewrite (get_pivoting nr nc) by auto.
    destruct (Nat.eqb k r); field; auto.
  - destruct HS as [HS|HS]; [|contradiction].
    rewrite nth_set_nth_neq by auto. rewrite (get_pivoting nr nc) by auto.
    pose proof (Hz i Hi HS Hir) as Hzz.
    pose proof (Hu i k Hi HS Hk) as Hk'.
    destruct (Nat.eqb_spec k r) as [->|Hkr].
    + destruct (Nat.eqb_spec r i); [congruence|]. rewrite Hzz. field; auto.
    + rewrite Hzz, Hk'. field; auto.
Qed.
(* ------------------------------------------------------------------ min-ratio test: more structure
   (tolerance 0): the rows returned are distinct, non-empty when a candidate with a positive entry exists,
   and have pairwise equal ratios *)
Lemma NoDup_app_r {A} (l1 l2 : list A) : NoDup (l1 ++ l2) -> NoDup l2.
Proof. induction l1; cbn; auto. intros H. inversion H; auto. Qed.

Lemma mrt_loop_nodup (M : matQ) pv tc tolp tolr cands rmin acc :
  NoDup (acc ++ cands) -> NoDup (mrt_loop M pv tc tolp tolr cands rmin acc).
Proof.
  revert rmin acc. induction cands as [|i rest IH]; intros rmin acc Hnd; cbn [mrt_loop].
  - rewrite app_nil_r in Hnd. now apply NoDup_rev.
  - assert (H1 : NoDup (acc ++ rest)) by (eapply NoDup_remove_1; eauto).
    assert (H2 : NoDup ([i] ++ rest)) by (apply (NoDup_app_r acc); auto).
    assert (H3 : NoDup ((i :: acc) ++ rest)).
    { cbn. constructor; auto. eapply NoDup_remove_2; eauto. }
    destruct (nleb _ _); [auto|]. destruct rmin as [rm|]; [|auto].
    destruct (nltb _ _); [auto|]. destruct (nltb _ _); auto.
Qed.
Lemma min_ratio_test_nodup (M : matQ) pv tc tolp tolr cands :
  NoDup cands -> NoDup (min_ratio_test M pv tc tolp tolr cands).
Proof. intros. apply mrt_loop_nodup. auto. Qed.

Lemma mrt_loop_nonempty (M : matQ) pv tc tolp tolr cands rmin acc :
  match rmin with
  | Some _ => acc <> []
  | None => exists k, In k cands /\ tolp < get M k pv
  end ->
  mrt_loop M pv tc tolp tolr cands rmin acc <> [].
Proof.
  revert rmin acc. induction cands as [|i rest IH]; intros rmin acc H; cbn [mrt_loop].
  - destruct rmin; [|destruct H as (k & [] & _)]. intro E. apply H. destruct acc; auto.
    cbn in E. apply app_eq_nil in E. destruct E; discriminate.
  - destruct (nleb (get M i pv) tolp) eqn:E1.
    + apply nleb_le in E1. apply IH. destruct rmin; auto.
      destruct H as (k & [<-|Hk] & Hp); [lra|eauto].
    + destruct rmin as [rm|].
      * destruct (nltb _ _); [apply IH; auto|]. destruct (nltb _ _); apply IH; discriminate.
      * apply IH. discriminate.
Qed.
Lemma min_ratio_test_nonempty (M : matQ) pv tc tolp tolr cands :
  (exists k, In k cands /\ tolp < get M k pv) -> min_ratio_test M pv tc tolp tolr cands <> [].
Proof. intros. apply mrt_loop_nonempty. auto. Qed.

Lemma min_ratio_test_eq_ratio (M : matQ) pv tc cands r r' :
  In r (min_ratio_test M pv tc 0 0 cands) -> In r' (min_ratio_test M pv tc 0 0 cands) ->
  ratio M pv tc r == ratio M pv tc r'.
Proof.
  intros H H'. pose proof (min_ratio_test_in _ _ _ _ _ _ _ H) as [Hc Hp].
  pose proof (min_ratio_test_in _ _ _ _ _ _ _ H') as [Hc' Hp'].
  pose proof (min_ratio_test_min _ _ _ _ _ H r' Hc' Hp'). pose proof (min_ratio_test_min _ _ _ _ _ H' r Hc Hp). lra.
Qed.

(* when the tie-breaking loop gives up, at least two distinct rows are left, and all rows left have equal
   ratios on every tested column *)
Lemma lex_loop_false (M : matQ) pv cols am am' :
  lex_loop M pv 0 0 cols am = (false, am') ->
  NoDup am -> (2 <= length am)%nat -> (forall r, In r am -> 0 < get M r pv) ->
  NoDup am' /\ (2 <= length am')%nat /\ (forall r, In r am' -> In r am) /\
  forall j, In j cols -> j <> pv -> forall r r', In r am' -> In r' am' -> ratio M pv j r == ratio M pv j r'.
Proof.
  revert am. induction cols as [|j rest IH]; intros am H Hnd Hlen Hpos; cbn [lex_loop] in H.
  - inversion H; subst. split; [auto|split; [auto|split; [auto|intros j []]]].
  - destruct (Nat.eqb_spec j pv) as [->|Hne].
    + destruct (IH _ H Hnd Hlen Hpos) as (H1 & H2 & H3 & H4). split; [auto|split; [auto|split; [auto|]]].
      intros j' [<-|Hj'] Hne'; [contradiction|auto].
    + set (am1 := min_ratio_test M pv j 0 0 am) in *.
      assert (Hsub : forall r, In r am1 -> In r am) by (intros r Hr; apply min_ratio_test_in in Hr; tauto).
      assert (Hnd1 : NoDup am1) by (apply min_ratio_test_nodup; auto).
      assert (Hne1 : am1 <> []).
      { apply min_ratio_test_nonempty. destruct am as [|a0 am]; [cbn in Hlen; lia|]. exists a0. split; [now left|apply Hpos; now left]. }
      assert (Hlen1 : (2 <= length am1)%nat).
      { destruct am1 as [|a1 [|b1 l1]] eqn:E; [congruence|discriminate|cbn; lia]. }
      assert (Hcont : lex_loop M pv 0 0 rest am1 = (false, am')).
      { destruct am1 as [|a1 [|b1 l1]]; [auto|cbn in Hlen1; lia|auto]. }
      destruct (IH _ Hcont Hnd1 Hlen1 ltac:(intros r Hr; apply Hpos; auto)) as (H1 & H2 & H3 & H4).
      split; [auto|split; [auto|split; [auto|]]].
      intros j' [<-|Hj'] Hne' r r' Hr Hr'; [|eauto].
      apply (min_ratio_test_eq_ratio M pv j am); fold am1; auto.
Qed.

(* _lex_min_ratio_test finds a row whenever some row has a positive entry, provided no two distinct rows
   with positive entries have equal ratios on all tie-breaking columns (true when those columns hold a
   non-singular block) *)
Lemma lex_min_ratio_test_n_complete nr (M : matQ) pv ss :
  (forall r r', (r < nr)%nat -> (r' < nr)%nat -> r <> r' -> 0 < get M r pv -> 0 < get M r' pv ->
     ~ (forall j, (ss <= j < ss + nr)%nat -> j <> pv -> ratio M pv j r == ratio M pv j r')) ->
  fst (lex_min_ratio_test_n nr M pv ss 0 0) = false -> forall k, (k < nr)%nat -> get M k pv <= 0.
Proof.
  intros Hns Hf k Hk. apply Qnot_lt_le. intro Hpos.
  unfold lex_min_ratio_test_n in Hf.
  set (am := min_ratio_test M pv (ncols M - 1) 0 0 (seq 0 nr)) in *.
  assert (Hne : am <> []) by (apply min_ratio_test_nonempty; exists k; split; [apply in_seq; lia|auto]).
  assert (Hnd : NoDup am) by (apply min_ratio_test_nodup, seq_NoDup).
  assert (Hin : forall r, In r am -> (r < nr)%nat /\ 0 < get M r pv).
  { intros r Hr. apply min_ratio_test_in in Hr. destruct Hr as [H1 H2]. apply in_seq in H1. split; [lia|auto]. }
  destruct am as [|a0 [|b0 l0]] eqn:E; [congruence|discriminate|].
  destruct (lex_loop M pv 0 0 (seq ss nr) (a0 :: b0 :: l0)) as [found am'] eqn:El. cbn [fst] in Hf. subst found.
  destruct (lex_loop_false _ _ _ _ _ El Hnd ltac:(cbn; lia) ltac:(intros r Hr; apply Hin; auto)) as (H1 & H2 & H3 & H4).
  destruct am' as [|r [|r' l']]; [cbn in H2; lia|cbn in H2; lia|].
  assert (Hrr : r <> r') by (inversion H1; subst; intro; subst; apply H5; now left).
  destruct (Hin r ltac:(apply H3; now left)) as [Hr1 Hr2].
  destruct (Hin r' ltac:(apply H3; right; now left)) as [Hr1' Hr2'].
  apply (Hns r r' Hr1 Hr1' Hrr Hr2 Hr2'). intros j Hj Hne'. apply H4; auto.
  - apply in_seq. lia.
  - now left.
  - right; now left.
Qed.

(* basic direction read from a column `col` of the tableau (bsol is the case col = nc - 1) *)
Definition bsolc (L : nat) (T : matQ) (basis : list nat) (col j : nat) : Q :=
  sumQ L (fun i => if Nat.eqb (nth i basis 0%nat) j then get T i col else 0).

Lemma bsolc_dot N L T basis col k :
  (forall i, (i < L)%nat -> (nth i basis 0 < N)%nat) ->
  sumQ N (fun j => get T k j * bsolc L T basis col j)
  == sumQ L (fun i => get T k (nth i basis 0%nat) * get T i col).
Proof.
  intros Hb. unfold bsolc.
  rewrite (sumQ_ext _ _ (fun j => sumQ L (fun i => if Nat.eqb (nth i basis 0%nat) j then get T k j * get T i col else 0))).
  2:{ intros j Hj. rewrite <- sumQ_scale. apply sumQ_ext. intros i Hi. destruct (Nat.eqb _ _); ring. }
  rewrite sumQ_swap. apply sumQ_ext. intros i Hi.
  rewrite (sumQ_delta' N (nth i basis 0%nat) (fun j => get T k j * get T i col)).
  destruct (Nat.ltb_spec (nth i basis 0%nat) N); [reflexivity|]. specialize (Hb i Hi). lia.
Qed.
Lemma bsolc_row nr N L T basis col k :
  (L <= nr)%nat -> (forall i, (i < L)%nat -> (nth i basis 0 < N)%nat) -> unit_cols nr L T basis -> (k < nr)%nat ->
  sumQ N (fun j => get T k j * bsolc L T basis col j) == if Nat.ltb k L then get T k col else 0.
Proof.
  intros HL Hb Hu Hk. rewrite bsolc_dot by auto.
  rewrite (sumQ_ext _ _ (fun i => if Nat.eqb i k then get T i col else 0)).
  - rewrite sumQ_delta. reflexivity.
  - intros i Hi. rewrite (Hu i k Hi Hk). destruct (Nat.eqb_spec k i), (Nat.eqb_spec i k); try (exfalso; lia); ring.
Qed.
Lemma bsolc_zero L T basis col j :
  (forall i, (i < L)%nat -> nth i basis 0%nat = j -> get T i col == 0) -> bsolc L T basis col j == 0.
Proof. intros H. apply sumQ_zero. intros i Hi. destruct (Nat.eqb_spec (nth i basis 0%nat) j); [auto|reflexivity]. Qed.
Lemma bsolc_nonpos L T basis col j :
  (forall i, (i < L)%nat -> get T i col <= 0) -> bsolc L T basis col j <= 0.
Proof.
  intros H. unfold bsolc. apply Qle_trans with (sumQ L (fun _ => 0)).
  - apply sumQ_le. intros i Hi. destruct (Nat.eqb _ _); [auto|lra].
  - rewrite sumQ_zero; [lra|reflexivity].
Qed.
(* variant: the rows left by an unsuccessful test also tie on the right-hand-side column of the first round *)
Lemma lex_min_ratio_test_n_complete_rhs nr (M : matQ) pv ss :
  (forall r r', (r < nr)%nat -> (r' < nr)%nat -> r <> r' -> 0 < get M r pv -> 0 < get M r' pv ->
     ~ (forall j, ((ss <= j < ss + nr)%nat \/ j = (ncols M - 1)%nat) -> j <> pv -> ratio M pv j r == ratio M pv j r')) ->
  fst (lex_min_ratio_test_n nr M pv ss 0 0) = false -> forall k, (k < nr)%nat -> get M k pv <= 0.
Proof.
  intros Hns Hf k Hk. apply Qnot_lt_le. intro Hpos.
  unfold lex_min_ratio_test_n in Hf.
  pose proof (min_ratio_test_eq_ratio M pv (ncols M - 1) (seq 0 nr)) as Heq0.
  set (am := min_ratio_test M pv (ncols M - 1) 0 0 (seq 0 nr)) in *.
  assert (Hne : am <> []) by (apply min_ratio_test_nonempty; exists k; split; [apply in_seq; lia|auto]).
  assert (Hnd : NoDup am) by (apply min_ratio_test_nodup, seq_NoDup).
  assert (Hin : forall r, In r am -> (r < nr)%nat /\ 0 < get M r pv).
  { intros r Hr. apply min_ratio_test_in in Hr. destruct Hr as [H1 H2]. apply in_seq in H1. split; [lia|auto]. }
  destruct am as [|a0 [|b0 l0]] eqn:E; [congruence|discriminate|].
  destruct (lex_loop M pv 0 0 (seq ss nr) (a0 :: b0 :: l0)) as [found am'] eqn:El. cbn [fst] in Hf. subst found.
  destruct (lex_loop_false _ _ _ _ _ El Hnd ltac:(cbn; lia) ltac:(intros r Hr; apply Hin; auto)) as (H1 & H2 & H3 & H4).
  destruct am' as [|r [|r' l']]; [cbn in H2; lia|cbn in H2; lia|].
  assert (Hrr : r <> r') by (inversion H1; subst; intro; subst; apply H5; now left).
  assert (Ir : In r (a0 :: b0 :: l0)) by (apply H3; now left).
  assert (Ir' : In r' (a0 :: b0 :: l0)) by (apply H3; right; now left).
  destruct (Hin r Ir) as [Hr1 Hr2]. destruct (Hin r' Ir') as [Hr1' Hr2'].
  apply (Hns r r' Hr1 Hr1' Hrr Hr2 Hr2'). intros j [Hj|Hj] Hne'.
  - apply H4; auto; [apply in_seq; lia|now left|right; now left].
  - subst j. apply Heq0; auto.
Qed.

(* Helpers used by harness-generated cases files: the comparison between the
   model's output and the implementation's output is computed inside Coq and
   only the indices of disagreeing cases are printed. *)
From Coq Require Import ZArith QArith Qabs List Bool PrimFloat.
Import ListNotations.

Fixpoint failing_from {A} (ok : A -> bool) (i : nat) (l : list A) : list nat :=
  match l with
  | [] => []
  | x :: r => if ok x then failing_from ok (S i) r else i :: failing_from ok (S i) r
  end.
Definition failing {A} (ok : A -> bool) (l : list A) : list nat := failing_from ok 0 l.

Fixpoint list_eqb {A} (eqb : A -> A -> bool) (a b : list A) : bool :=
  match a, b with
  | [], [] => true
  | x :: a', y :: b' => eqb x y && list_eqb eqb a' b'
  | _, _ => false
  end.

Definition Zs_eqb := list_eqb Z.eqb.
Definition Zss_eqb := list_eqb Zs_eqb.
Definition nats_eqb := list_eqb Nat.eqb.
Definition natss_eqb := list_eqb nats_eqb.
Definition Qs_eqb := list_eqb Qeq_bool.
Definition Qss_eqb := list_eqb Qs_eqb.
(* bit-level equality of floats except that it identifies +0/-0 and rejects nan=nan;
   harness inputs avoid both *)
Definition Fs_eqb := list_eqb PrimFloat.eqb.
Definition Fss_eqb := list_eqb Fs_eqb.

Definition opt_eqb {A} (eqb : A -> A -> bool) (a b : option A) : bool :=
  match a, b with
  | None, None => true
  | Some x, Some y => eqb x y
  | _, _ => false
  end.

(* |a-b| <= tol * (1 + |b|) : mixed absolute/relative closeness, in exact arithmetic *)
Definition Qclose (tol a b : Q) : bool :=
  Qle_bool (Qabs (a - b)) (tol * (1 + Qabs b)).
Definition Qs_close (tol : Q) := list_eqb (Qclose tol).
Definition Qss_close (tol : Q) := list_eqb (Qs_close tol).
(* purely relative closeness (component-wise accuracy claims) *)
Definition Qrelclose (tol a b : Q) : bool :=
  Qle_bool (Qabs (a - b)) (tol * Qabs b).
Definition Qs_relclose (tol : Q) := list_eqb (Qrelclose tol).

(* Gauss-Jordan elimination with partial pivoting, generic over Base.Num.Num.
   `solve n m A B` : A is n x n, B is n x m; returns `Some X` (n x m) with
   A X = B when every pivot met is non-zero, `None` when a zero pivot column is
   met (singular A; numpy/scipy `solve` raise LinAlgError there).
   The pivot is the entry of largest absolute value in the column (as LAPACK
   gesv chooses it); over Q any non-zero pivot gives the exact answer.

   `solve_checked` is the certifying variant: it returns `Some X` only after
   checking A X = B entry by entry with `neqb`, so over Q its correctness
   (`solve_checked_correct`) does not depend on the elimination at all.
   `solve_correct` is the direct proof for `solve` itself over Q. *)
From Coq Require Import ZArith QArith List Bool Lia Lqa Setoid Morphisms.
From QE Require Import Base.Num Base.LinAlg.
Import ListNotations.
Local Open Scope nat_scope.

Section Generic.
Context {T : Type} `{Num T}.

(* row in [c, c+cnt) whose entry in column c has the largest |.|; first one on ties *)
Fixpoint pivot_scan (M : list (list T)) (c best i cnt : nat) : nat :=
  match cnt with
  | O => best
  | S r => let best' := if nltb (nabs (get M best c)) (nabs (get M i c)) then i else best in
           pivot_scan M c best' (S i) r
  end.
Definition pivot_row (n : nat) (M : list (list T)) (c : nat) : nat :=
  pivot_scan M c c (S c) (n - S c).

Definition swap_rows (n w a b : nat) (M : list (list T)) :=
  mk n w (fun i j => get M (if Nat.eqb i a then b else if Nat.eqb i b then a else i) j).
Definition scale_row (n w c : nat) (piv : T) (M : list (list T)) :=
  mk n w (fun i j => if Nat.eqb i c then ndiv (get M i j) piv else get M i j).
Definition elim_col (n w c : nat) (M : list (list T)) :=
  mk n w (fun i j => if Nat.eqb i c then get M i j
                     else nsub (get M i j) (nmul (get M i c) (get M c j))).

(* one Gauss-Jordan step on column c of the n x w augmented matrix *)
Definition gj_step (n w c : nat) (M : list (list T)) : option (list (list T)) :=
  let p := pivot_row n M c in
  let piv := get M p c in
  if neqb piv nzero then None
  else Some (elim_col n w c (scale_row n w c piv (swap_rows n w c p M))).

(* columns c, c+1, ..., c+cnt-1 *)
Fixpoint gj_loop (n w c cnt : nat) (M : list (list T)) : option (list (list T)) :=
  match cnt with
  | O => Some M
  | S r => match gj_step n w c M with
           | None => None
           | Some M' => gj_loop n w (S c) r M'
           end
  end.

Definition solve (n m : nat) (A B : list (list T)) : option (list (list T)) :=
  match gj_loop n (n + m) 0 n (mhcat n n m A B) with
  | None => None
  | Some M => Some (mblock 0 n n m M)
  end.

Definition inverse (n : nat) (A : list (list T)) : option (list (list T)) := solve n n A (mid n).

(* certifying variant *)
Definition solve_checked (n m : nat) (A B : list (list T)) : option (list (list T)) :=
  match solve n m A B with
  | None => None
  | Some X => if mall2 n m neqb (mmul n n m A X) B then Some X else None
  end.

(* vector right-hand side *)
Definition solve_vec (n : nat) (A : list (list T)) (b : list T) : option (list T) :=
  match solve n 1 A (colmat n b) with
  | None => None
  | Some X => Some (matcol n X 0)
  end.

Lemma solve_shape n m A B X : solve n m A B = Some X ->
  length X = n /\ forall r, In r X -> length r = m.
Proof.
  unfold solve. destruct (gj_loop _ _ _ _ _); [|discriminate].
  intros E. injection E as <-. split; [apply length_mk|]. intros r. apply row_length_mk.
Qed.

End Generic.

(* ---------------------------------------------------------------------- *)
(* Correctness over Q                                                      *)
(* ---------------------------------------------------------------------- *)
Local Open Scope Q_scope.

Lemma mall2_meq n m (A B : Qmat) : mall2 n m neqb A B = true -> meq n m A B.
Proof.
  unfold mall2. intros Hall i j Hi Hj.
  rewrite forallb_forall in Hall.
  assert (Hin : In i (seq 0 n)) by (apply in_seq; lia).
  specialize (Hall i Hin). rewrite forallb_forall in Hall.
  apply Qeq_bool_iff. apply (Hall j). apply in_seq. lia.
Qed.

Theorem solve_checked_correct n m (A B X : Qmat) :
  solve_checked n m A B = Some X -> meq n m (mmul n n m A X) B.
Proof.
  unfold solve_checked. destruct (solve n m A B) as [X0|]; [|discriminate].
  destruct (mall2 n m neqb (mmul n n m A X0) B) eqn:E; [|discriminate].
  intros E2. injection E2 as <-. now apply mall2_meq.
Qed.

Lemma solve_checked_solve n m (A B X : Qmat) :
  solve_checked n m A B = Some X -> solve n m A B = Some X.
Proof.
  unfold solve_checked. destruct (solve n m A B) as [X0|]; [|discriminate].
  destruct (mall2 _ _ _ _ _); [|discriminate]. auto.
Qed.

(* Gauss-Jordan elimination with partial pivoting, generic over Base.Num.Num.
   `solve n m A B` : A is n x n, B is n x m; returns `Some X` (n x m) with
   A X = B when every pivot met is non-zero, `None` when a zero pivot column is
   met (singular A; numpy/scipy `solve` raise LinAlgError there).
   The pivot is the entry of largest absolute value in the column (as LAPACK
   gesv chooses it); over Q any non-zero pivot gives the exact answer.

   `solve_checked` is the certifying variant: it returns `Some X` only after
   checking A X = B entry by entry with `neqb`, so over Q its correctness
   (`solve_checked_correct`) does not depend on the elimination at all.
   `solve_correct` is the direct proof for `solve` itself over Q. *)
From Coq Require Import ZArith QArith List Bool Lia Lqa Setoid Morphisms.
From QE Require Import Base.Num Base.LinAlg.
Import ListNotations.
Local Open Scope nat_scope.

Section Generic.
Context {T : Type} `{Num T}.

(* row in [c, c+cnt) whose entry in column c has the largest |.|; first one on ties *)
Fixpoint pivot_scan (M : list (list T)) (c best i cnt : nat) : nat :=
  match cnt with
  | O => best
  | S r => let best' := if nltb (nabs (get M best c)) (nabs (get M i c)) then i else best in
           pivot_scan M c best' (S i) r
  end.
Definition pivot_row (n : nat) (M : list (list T)) (c : nat) : nat :=
  pivot_scan M c c (S c) (n - S c).

Definition swap_rows (n w a b : nat) (M : list (list T)) :=
  mk n w (fun i j => get M (if Nat.eqb i a then b else if Nat.eqb i b then a else i) j).
Definition scale_row (n w c : nat) (piv : T) (M : list (list T)) :=
  mk n w (fun i j => if Nat.eqb i c then ndiv (get M i j) piv else get M i j).
Definition elim_col (n w c : nat) (M : list (list T)) :=
  mk n w (fun i j => if Nat.eqb i c then get M i j
                     else nsub (get M i j) (nmul (get M i c) (get M c j))).

(* one Gauss-Jordan step on column c of the n x w augmented matrix *)
Definition gj_step (n w c : nat) (M : list (list T)) : option (list (list T)) :=
  let p := pivot_row n M c in
  let piv := get M p c in
  if neqb piv nzero then None
  else Some (elim_col n w c (scale_row n w c piv (swap_rows n w c p M))).

(* columns c, c+1, ..., c+cnt-1 *)
Fixpoint gj_loop (n w c cnt : nat) (M : list (list T)) : option (list (list T)) :=
  match cnt with
  | O => Some M
  | S r => match gj_step n w c M with
           | None => None
           | Some M' => gj_loop n w (S c) r M'
           end
  end.

Definition solve (n m : nat) (A B : list (list T)) : option (list (list T)) :=
  match gj_loop n (n + m) 0 n (mhcat n n m A B) with
  | None => None
  | Some M => Some (mblock 0 n n m M)
  end.

Definition inverse (n : nat) (A : list (list T)) : option (list (list T)) := solve n n A (mid n).

(* certifying variant *)
Definition solve_checked (n m : nat) (A B : list (list T)) : option (list (list T)) :=
  match solve n m A B with
  | None => None
  | Some X => if mall2 n m neqb (mmul n n m A X) B then Some X else None
  end.

(* vector right-hand side *)
Definition solve_vec (n : nat) (A : list (list T)) (b : list T) : option (list T) :=
  match solve n 1 A (colmat n b) with
  | None => None
  | Some X => Some (matcol n X 0)
  end.

Lemma solve_shape n m A B X : solve n m A B = Some X ->
  length X = n /\ forall r, In r X -> length r = m.
Proof.
  unfold solve. destruct (gj_loop _ _ _ _ _); [|discriminate].
  intros E. injection E as <-. split; [apply length_mk|]. intros r. apply row_length_mk.
Qed.

End Generic.

(* ---------------------------------------------------------------------- *)
(* Correctness over Q                                                      *)
(* ---------------------------------------------------------------------- *)
Local Open Scope Q_scope.

Lemma mall2_meq n m (A B : Qmat) : mall2 n m neqb A B = true -> meq n m A B.
Proof.
  unfold mall2. intros Hall i j Hi Hj.
  rewrite forallb_forall in Hall.
  assert (Hin : In i (seq 0 n)) by (apply in_seq; lia).
  specialize (Hall i Hin). rewrite forallb_forall in Hall.
  apply Qeq_bool_iff. apply (Hall j). apply in_seq. lia.
Qed.

Theorem solve_checked_correct n m (A B X : Qmat) :
  solve_checked n m A B = Some X -> meq n m (mmul n n m A X) B.
Proof.
  unfold solve_checked. destruct (solve n m A B) as [X0|]; [|discriminate].
  destruct (mall2 n m neqb (mmul n n m A X0) B) eqn:E; [|discriminate].
  intros E2. injection E2 as <-. now apply mall2_meq.
Qed.

Lemma solve_checked_solve n m (A B X : Qmat) :
  solve_checked n m A B = Some X -> solve n m A B = Some X.
Proof.
  unfold solve_checked. destruct (solve n m A B) as [X0|]; [|discriminate].
  destruct (mall2 _ _ _ _ _); [|discriminate]. auto.
Qed.

(* ---------------------------------------------------------------------- *)
(* Direct correctness of `solve` over Q: Some X -> A X == B                *)
(* ---------------------------------------------------------------------- *)
Section SolveCorrect.
Variables (n m : nat).
Let w := (n + m)%nat.

(* a row r (as a function of the column index) of the augmented system is satisfied by X *)
Definition rsat (r : nat -> Q) (X : Qmat) : Prop :=
  forall j, (j < m)%nat -> sumQ n (fun l => r l * get X l j) == r (n + j)%nat.
Definition sat (M X : Qmat) : Prop := forall i, (i < n)%nat -> rsat (fun l => get M i l) X.

Lemma rsat_ext r r' X : (forall l, (l < w)%nat -> r l == r' l) -> rsat r X -> rsat r' X.
Proof.
  intros E Hs j Hj. rewrite <- (E (n + j)%nat) by (unfold w; lia). rewrite <- (Hs j Hj).
  apply sumQ_ext. intros l Hl. rewrite (E l) by (unfold w; lia). reflexivity.
Qed.

Lemma rsat_lin r1 r2 f X : rsat r1 X -> rsat r2 X -> rsat (fun l => r1 l + f * r2 l) X.
Proof.
  intros H1 H2 j Hj.
  rewrite (sumQ_ext n _ (fun l => r1 l * get X l j + f * (r2 l * get X l j))) by (intros; ring).
  rewrite sumQ_add, sumQ_scale_l. rewrite (H1 j Hj), (H2 j Hj). reflexivity.
Qed.

Lemma rsat_scale r f X : rsat r X -> rsat (fun l => f * r l) X.
Proof.
  intros H1 j Hj.
  rewrite (sumQ_ext n _ (fun l => f * (r l * get X l j))) by (intros; ring).
  rewrite sumQ_scale_l. rewrite (H1 j Hj). reflexivity.
Qed.

(* pivot search stays in range *)
Lemma pivot_scan_range (M : Qmat) c best i cnt :
  (c <= best < i)%nat -> (c <= pivot_scan M c best i cnt < i + cnt)%nat.
Proof.
  revert best i. induction cnt; intros best i Hb; simpl; [lia|].
  match goal with |- context [if ?b then _ else _] => destruct b end.
  - specialize (IHcnt i (S i)). lia.
  - specialize (IHcnt best (S i)). lia.
Qed.

Lemma pivot_row_range (M : Qmat) c : (c < n)%nat -> (c <= pivot_row n M c < n)%nat.
Proof.
  intros Hc. unfold pivot_row.
  pose proof (pivot_scan_range M c c (S c) (n - S c)). lia.
Qed.

Definition delta (i j : nat) : Q := if Nat.eqb i j then 1 else 0.
(* columns < c of M are those of the identity *)
Definition idcols (c : nat) (M : Qmat) : Prop :=
  forall i c', (i < n)%nat -> (c' < c)%nat -> get M i c' == delta i c'.

Lemma gj_step_spec c (M M' : Qmat) X :
  (c < n)%nat -> gj_step n w c M = Some M' -> idcols c M ->
  idcols (S c) M' /\ (sat M' X -> sat M X).
Proof.
  intros Hc Hstep Hid. unfold gj_step in Hstep.
  destruct (pivot_row_range M c Hc) as [Hp1 Hp2].
  set (p := pivot_row n M c) in *.
  set (piv := get M p c) in *.
  destruct (neqb piv nzero) eqn:Epiv; [discriminate|].
  injection Hstep as <-.
  assert (Hpiv : ~ piv == 0).
  { intro Hz. apply Qeq_bool_iff in Hz. change (neqb piv nzero) with (Qeq_bool piv 0) in Epiv. congruence. }
  set (sg := fun i : nat => if Nat.eqb i c then p else if Nat.eqb i p then c else i).
  set (M1 := swap_rows n w c p M).
  set (M2 := scale_row n w c piv M1).
  assert (G1 : forall i j, (i < n)%nat -> (j < w)%nat -> get M1 i j = get M (sg i) j).
  { intros. unfold M1, swap_rows. now rewrite get_mk. }
  assert (G2 : forall i j, (i < n)%nat -> (j < w)%nat ->
               get M2 i j == if Nat.eqb i c then get M1 i j / piv else get M1 i j).
  { intros. unfold M2, scale_row. rewrite get_mk by assumption.
    destruct (Nat.eqb i c); [apply ndiv_Q|reflexivity]. }
  assert (G3 : forall i j, (i < n)%nat -> (j < w)%nat ->
               get (elim_col n w c M2) i j ==
               if Nat.eqb i c then get M2 i j else get M2 i j - get M2 i c * get M2 c j).
  { intros. unfold elim_col. rewrite get_mk by assumption.
    destruct (Nat.eqb i c); [reflexivity|]. rewrite nsub_Q, nmul_Q. reflexivity. }
  assert (Hcw : (c < w)%nat) by (unfold w; lia).
  assert (Hsg : forall i, (i < n)%nat -> (sg i < n)%nat).
  { intros i Hi. unfold sg. destruct (Nat.eqb i c); [lia|]. destruct (Nat.eqb i p); lia. }
  assert (Hcc : get M2 c c == 1).
  { rewrite G2 by assumption. rewrite Nat.eqb_refl. rewrite G1 by assumption.
    unfold sg. rewrite Nat.eqb_refl. fold piv. field. exact Hpiv. }
  split.
  - (* identity columns *)
    intros i c' Hi Hc'. assert (Hc'w : (c' < w)%nat) by (unfold w; lia).
    rewrite G3 by assumption.
    assert (Hrow_c : forall c'', (c'' < c)%nat -> get M2 c c'' == 0).
    { intros c'' Hc''. rewrite G2 by (unfold w; lia). rewrite Nat.eqb_refl.
      rewrite G1 by (unfold w; lia). unfold sg. rewrite Nat.eqb_refl.
      rewrite (Hid p c'') by lia. unfold delta.
      destruct (Nat.eqb p c'') eqn:E; [apply Nat.eqb_eq in E; lia|]. field. exact Hpiv. }
    destruct (Nat.eqb i c) eqn:Eic.
    + apply Nat.eqb_eq in Eic. subst i.
      destruct (Nat.eq_dec c' c) as [->|Hne].
      * rewrite Hcc. unfold delta. now rewrite Nat.eqb_refl.
      * rewrite Hrow_c by lia. unfold delta.
        destruct (Nat.eqb c c') eqn:E; [apply Nat.eqb_eq in E; lia|reflexivity].
    + apply Nat.eqb_neq in Eic.
      destruct (Nat.eq_dec c' c) as [->|Hne].
      * rewrite Hcc. unfold delta.
        destruct (Nat.eqb i c) eqn:E; [apply Nat.eqb_eq in E; lia|ring].
      * rewrite Hrow_c by lia.
        rewrite G2 by assumption.
        destruct (Nat.eqb i c) eqn:E; [apply Nat.eqb_eq in E; lia|].
        rewrite G1 by assumption.
        rewrite (Hid (sg i) c') by (try apply Hsg; lia).
        unfold delta, sg. rewrite E.
        destruct (Nat.eqb i p) eqn:E2.
        -- apply Nat.eqb_eq in E2.
           destruct (Nat.eqb c c') eqn:E3; [apply Nat.eqb_eq in E3; lia|].
           destruct (Nat.eqb i c') eqn:E4; [apply Nat.eqb_eq in E4; lia|ring].
        -- ring.
  - (* the new system implies the old one *)
    intros Hsat.
    assert (S2 : sat M2 X).
    { intros i Hi. destruct (Nat.eqb i c) eqn:Eic.
      - apply Nat.eqb_eq in Eic. subst i.
        apply (rsat_ext (fun l => get (elim_col n w c M2) c l)); [|apply Hsat; assumption].
        intros l Hl. rewrite G3 by assumption. now rewrite Nat.eqb_refl.
      - apply (rsat_ext (fun l => get (elim_col n w c M2) i l + get M2 i c * get (elim_col n w c M2) c l)).
        + intros l Hl. rewrite !G3 by assumption. rewrite Eic, Nat.eqb_refl. ring.
        + apply rsat_lin; apply Hsat; assumption. }
    assert (S1 : sat M1 X).
    { intros i Hi. destruct (Nat.eqb i c) eqn:Eic.
      - apply (rsat_ext (fun l => piv * get M2 i l)); [|apply rsat_scale; apply S2; assumption].
        intros l Hl. rewrite G2 by assumption. rewrite Eic. field. exact Hpiv.
      - apply (rsat_ext (fun l => get M2 i l)); [|apply S2; assumption].
        intros l Hl. rewrite G2 by assumption. now rewrite Eic. }
    intros i Hi.
    assert (Hinv : sg (sg i) = i).
    { unfold sg. destruct (Nat.eqb i c) eqn:E1.
      - apply Nat.eqb_eq in E1. subst i.
        destruct (Nat.eqb p c) eqn:E2; [apply Nat.eqb_eq in E2; lia|]. now rewrite Nat.eqb_refl.
      - destruct (Nat.eqb i p) eqn:E2.
        + apply Nat.eqb_eq in E2. now rewrite Nat.eqb_refl.
        + now rewrite E1, E2. }
    apply (rsat_ext (fun l => get M1 (sg i) l)); [|apply S1; apply Hsg; assumption].
    intros l Hl. rewrite G1 by (try apply Hsg; assumption). now rewrite Hinv.
Qed.

Lemma gj_loop_spec cnt : forall c (M M' : Qmat) X,
  (c + cnt <= n)%nat -> gj_loop n w c cnt M = Some M' -> idcols c M ->
  idcols (c + cnt) M' /\ (sat M' X -> sat M X).
Proof.
  induction cnt; intros c M M' X Hle Hl Hid; simpl in Hl.
  - injection Hl as <-. rewrite Nat.add_0_r. auto.
  - destruct (gj_step n w c M) as [M1|] eqn:Es; [|discriminate].
    destruct (gj_step_spec c M M1 X ltac:(lia) Es Hid) as [Hid1 Hs1].
    destruct (IHcnt (S c) M1 M' X ltac:(lia) Hl Hid1) as [Hid2 Hs2].
    replace (c + S cnt)%nat with (S c + cnt)%nat by lia. auto.
Qed.

Theorem solve_correct (A B X : Qmat) :
  solve n m A B = Some X -> meq n m (mmul n n m A X) B.
Proof.
  unfold solve. fold w.
  destruct (gj_loop n w 0 n (mhcat n n m A B)) as [Mf|] eqn:El; [|discriminate].
  intros E. injection E as <-.
  assert (Hid0 : idcols 0 (mhcat n n m A B)) by (intros i c' _ Hc'; lia).
  destruct (gj_loop_spec n 0 _ Mf (mblock 0 n n m Mf) ltac:(lia) El Hid0) as [Hid Hs].
  simpl in Hid.
  assert (Hsat : sat Mf (mblock 0 n n m Mf)).
  { intros i Hi j Hj.
    rewrite (sumQ_ext n _ (fun l => (if Nat.eqb i l then 1 else 0) * get Mf l (n + j))).
    - now apply (sumQ_delta_l n i (fun l => get Mf l (n + j)%nat)).
    - intros l Hl. rewrite (Hid i l Hi Hl). unfold mblock. rewrite get_mk by assumption.
      unfold delta. simpl. reflexivity. }
  specialize (Hs Hsat).
  intros i j Hi Hj. rewrite get_mmul by assumption.
  specialize (Hs i Hi j Hj). cbv beta in Hs.
  unfold mhcat in Hs. rewrite get_mk in Hs by lia.
  assert (Hlt : Nat.ltb (n + j) n = false) by (apply Nat.ltb_ge; lia).
  rewrite Hlt in Hs. replace (n + j - n)%nat with j in Hs by lia.
  rewrite <- Hs. apply sumQ_ext. intros l Hl.
  rewrite get_mk by lia.
  assert (Hlt2 : Nat.ltb l n = true) by (apply Nat.ltb_lt; lia).
  now rewrite Hlt2.
Qed.
End SolveCorrect.

(* Shared executable model of quantecon/optimize/pivoting.py, generic over Base.Num.Num:
     _pivoting, _min_ratio_test_no_tie_breaking, _lex_min_ratio_test.
   Tableaux are `list (list T)` (row major).  Definitions only; lemmas over Q are in
   Base/PivotProofs.v.

   Interface (stable):
     get M i j                      entry (default nzero outside the array)
     tabv n f / tab nr nc f         tabulated vector / matrix
     nrows M / ncols M              length M / length of the first row
     pivoting M pivcol pivrow       _pivoting(tableau, pivot_col, pivot_row)      (new tableau)
     min_ratio_test M pivot test_col tol_piv tol_ratio_diff cands
                                    _min_ratio_test_no_tie_breaking: `cands` = argmins[:num_candidates],
                                    result = argmins[:num_argmins] after the call
     lex_min_ratio_test_n nr M pivot slack_start tol_piv tol_ratio_diff : bool * nat
                                    _lex_min_ratio_test on the first `nr` rows of M (the simplex code passes
                                    tableau[:-1, :]); test column -1 is the last column `ncols M - 1`
     lex_min_ratio_test M ...       the same with nr = nrows M
   Arguments keep the order of the Python source. *)
From Coq Require Import List Bool Arith.
From QE Require Import Base.Num.
Import ListNotations.

Section Pivot.
Context {T : Type} `{Num T}.

Definition get (M : list (list T)) (i j : nat) : T := nth j (nth i M []) nzero.
Definition vget (v : list T) (i : nat) : T := nth i v nzero.

Definition tabv {A} (n : nat) (f : nat -> A) : list A := map f (seq 0 n).
Definition tab (nr nc : nat) (f : nat -> nat -> T) : list (list T) :=
  tabv nr (fun i => tabv nc (f i)).

Definition nrows (M : list (list T)) : nat := length M.
Definition ncols (M : list (list T)) : nat := length (nth 0 M []).

(* map with the running index *)
Fixpoint mapi_from {A B} (f : nat -> A -> B) (i : nat) (l : list A) : list B :=
  match l with [] => [] | x :: r => f i x :: mapi_from f (S i) r end.
Definition mapi {A B} (f : nat -> A -> B) (l : list A) : list B := mapi_from f 0 l.

Fixpoint map2 {A B C} (f : A -> B -> C) (a : list A) (b : list B) : list C :=
  match a, b with
  | x :: a', y :: b' => f x y :: map2 f a' b'
  | _, _ => []
  end.

(* _pivoting(tableau, pivot_col, pivot_row):
     pivot_elt = tableau[pivot_row, pivot_col]
     tableau[pivot_row, :] /= pivot_elt
     for i != pivot_row: multiplier = tableau[i, pivot_col];
        if multiplier == 0: continue
        tableau[i, :] -= tableau[pivot_row, :] * multiplier           (new pivot row) *)
Definition pivoting (M : list (list T)) (pivcol pivrow : nat) : list (list T) :=
  let prow := nth pivrow M [] in
  let p := vget prow pivcol in
  let prow' := map (fun x => ndiv x p) prow in
  mapi (fun i row =>
          if Nat.eqb i pivrow then prow'
          else let m := vget row pivcol in
               if neqb m nzero then row
               else map2 (fun x y => nsub x (nmul y m)) row prow') M.

(* _min_ratio_test_no_tie_breaking.  ratio_min = np.inf is `None` (every finite ratio is
   below it).  `acc` is argmins[:num_argmins] in reverse order. *)
Fixpoint mrt_loop (M : list (list T)) (pivot test_col : nat) (tol_piv tol_ratio_diff : T)
         (cands : list nat) (rmin : option T) (acc : list nat) : list nat :=
  match cands with
  | [] => rev acc
  | i :: rest =>
    let a := get M i pivot in
    if nleb a tol_piv then mrt_loop M pivot test_col tol_piv tol_ratio_diff rest rmin acc
    else
      let ratio := ndiv (get M i test_col) a in
      match rmin with
      | None => mrt_loop M pivot test_col tol_piv tol_ratio_diff rest (Some ratio) [i]
      | Some rm =>
        if nltb (nadd rm tol_ratio_diff) ratio
        then mrt_loop M pivot test_col tol_piv tol_ratio_diff rest rmin acc
        else if nltb ratio (nsub rm tol_ratio_diff)
        then mrt_loop M pivot test_col tol_piv tol_ratio_diff rest (Some ratio) [i]
        else mrt_loop M pivot test_col tol_piv tol_ratio_diff rest rmin (i :: acc)
      end
  end.

Definition min_ratio_test (M : list (list T)) (pivot test_col : nat) (tol_piv tol_ratio_diff : T)
           (cands : list nat) : list nat :=
  mrt_loop M pivot test_col tol_piv tol_ratio_diff cands None [].

(* the tie-breaking loop `for j in range(slack_start, slack_start + nrows)` with at least two
   candidates left in `am`; stops (found) as soon as one candidate is left *)
Fixpoint lex_loop (M : list (list T)) (pivot : nat) (tol_piv tol_ratio_diff : T)
         (cols : list nat) (am : list nat) : bool * list nat :=
  match cols with
  | [] => (false, am)
  | j :: rest =>
    if Nat.eqb j pivot then lex_loop M pivot tol_piv tol_ratio_diff rest am
    else
      let am' := min_ratio_test M pivot j tol_piv tol_ratio_diff am in
      match am' with
      | [_] => (true, am')
      | _ => lex_loop M pivot tol_piv tol_ratio_diff rest am'
      end
  end.

(* returns (found, argmins[0]); argmins[0] is 0 when no candidate row exists (argmins was
   initialised to 0..nrows-1 and never written) *)
Definition lex_min_ratio_test_n (nr : nat) (M : list (list T)) (pivot slack_start : nat)
           (tol_piv tol_ratio_diff : T) : bool * nat :=
  let am := min_ratio_test M pivot (ncols M - 1) tol_piv tol_ratio_diff (seq 0 nr) in
  match am with
  | [] => (false, 0)
  | [i] => (true, i)
  | i :: _ =>
    let '(found, am') := lex_loop M pivot tol_piv tol_ratio_diff (seq slack_start nr) am in
    (found, hd 0 am')
  end.

Definition lex_min_ratio_test (M : list (list T)) (pivot slack_start : nat)
           (tol_piv tol_ratio_diff : T) : bool * nat :=
  lex_min_ratio_test_n (nrows M) M pivot slack_start tol_piv tol_ratio_diff.

(* functional update of a vector entry (basis[i] = j, x[basis[i]] = ...) *)
Fixpoint set_nth {A} (l : list A) (i : nat) (v : A) : list A :=
  match l, i with
  | [], _ => []
  | _ :: r, O => v :: r
  | x :: r, S k => x :: set_nth r k v
  end.

End Pivot.

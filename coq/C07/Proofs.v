(* C07 lemmas *)
From Coq Require Import ZArith QArith List Bool Lia Lqa Setoid Morphisms.
From QE Require Import Base.Num Base.LinAlg Base.Gauss C06.Model C07.Model.
Import ListNotations.

(* C07 lemmas: bilinear forms over Q; completion of the square (general dimension);
   finite-horizon optimality by induction on the horizon; stationary fixed point;
   dynamics / policy order of compute_sequence (any Num instance). *)
From Coq Require Import ZArith QArith List Bool Lia Lqa Setoid Morphisms.
From QE Require Import Base.Num Base.LinAlg Base.Gauss C06.Model C07.Model.
Import ListNotations.

(* ====================================================================== *)
(* compute_sequence: dynamics and order of the policies (every Num instance, binary64 included) *)
Section Simulate.
Context {T : Type} `{Num T}.
Variables (n k j : nat).
Variables (A B C : list (list T)).

Lemma pop_spec {X} (l : list X) x r : pop l = Some (x, r) -> l = r ++ [x].
Proof.
  unfold pop. destruct (rev l) as [|y r0] eqn:E; [discriminate|].
  intros E2. injection E2 as <- <-.
  rewrite <- (rev_involutive l), E. reflexivity.
Qed.

(* x_0 = x; u_t = -F_t x_t with F_t = policies[len-1-t] (the policy appended LAST is used FIRST);
   x_{t+1} = (A x_t + B u_t) + C w_{t+1} *)
Lemma lq_simulate_spec steps : forall (policies : list (list (list T))) ws x xs us,
  lq_simulate n k j A B C steps policies ws x = Some (xs, us) ->
  (steps <= length policies)%nat /\ (steps <= length ws)%nat /\
  length xs = S steps /\ length us = steps /\ nth 0 xs [] = x /\
  forall t, (t < steps)%nat ->
    nth t us [] = vneg k (mvmul k n (nth (length policies - 1 - t) policies []) (nth t xs [])) /\
    nth (S t) xs [] = vadd n (vadd n (mvmul n n A (nth t xs [])) (mvmul n k B (nth t us [])))
                             (mvmul n j C (nth t ws [])).
Proof.
  induction steps as [|s IH]; intros policies ws x xs us Hs; simpl in Hs.
  - injection Hs as <- <-. simpl. split; [lia|]. split; [lia|]. split; [reflexivity|]. split; [reflexivity|].
    split; [reflexivity|]. intros t Hlt. lia.
  - destruct (pop policies) as [[F rest]|] eqn:Ep; [|discriminate].
    destruct ws as [|w ws']; [discriminate|].
    destruct (lq_simulate n k j A B C s rest ws' _) as [[xs' us']|] eqn:Er; [|discriminate].
    injection Hs as <- <-.
    apply pop_spec in Ep. subst policies.
    destruct (IH _ _ _ _ _ Er) as [Hl1 [Hl2 [Hx [Hu [H0 Ht]]]]].
    rewrite app_length. simpl length.
    split; [lia|]. split; [lia|]. split; [lia|]. split; [lia|]. split; [reflexivity|].
    intros t Hlt. destruct t as [|t'].
    + replace (length rest + 1 - 1 - 0)%nat with (length rest) by lia.
      rewrite nth_middle. simpl. rewrite H0. split; reflexivity.
    + replace (length rest + 1 - 1 - S t')%nat with (length rest - 1 - t')%nat by lia.
      rewrite app_nth1 by lia. simpl. apply Ht. lia.
Qed.
End Simulate.

(* ====================================================================== *)
(* bilinear forms over Q *)
Local Open Scope Q_scope.

Lemma bform_Q n m x (A : Qmat) y :
  bform n m x A y == sumQ n (fun i => vget x i * sumQ m (fun l => get A i l * vget y l)).
Proof.
  unfold bform. rewrite vdot_Q. apply sumQ_ext. intros i Hi.
  rewrite vget_mvmul by assumption. reflexivity.
Qed.

#[global] Instance bform_proper n m : Proper (veq n ==> meq n m ==> veq m ==> Qeq) (bform n m).
Proof.
  intros x x' Ex A A' EA y y' Ey. rewrite !bform_Q. apply sumQ_ext; intros i Hi.
  rewrite (Ex i Hi). apply Qmult_comp; [reflexivity|]. apply sumQ_ext; intros l Hl.
  rewrite (EA i l Hi Hl), (Ey l Hl). reflexivity.
Qed.

#[global] Instance mvmul_proper n m : Proper (meq n m ==> veq m ==> veq n) (mvmul n m).
Proof.
  intros A A' EA y y' Ey i Hi. rewrite !vget_mvmul by assumption.
  apply sumQ_ext; intros l Hl. rewrite (EA i l Hi Hl), (Ey l Hl). reflexivity.
Qed.

#[global] Instance vadd_proper n : Proper (veq n ==> veq n ==> veq n) (vadd n).
Proof. intros x x' Ex y y' Ey i Hi. rewrite !vget_vadd by assumption. now rewrite (Ex i Hi), (Ey i Hi). Qed.

Lemma bform_vadd_l n m x x' (A : Qmat) y :
  bform n m (vadd n x x') A y == bform n m x A y + bform n m x' A y.
Proof.
  rewrite !bform_Q, <- sumQ_add. apply sumQ_ext; intros i Hi.
  rewrite vget_vadd by assumption. ring.
Qed.

Lemma bform_vadd_r n m x (A : Qmat) y y' :
  bform n m x A (vadd m y y') == bform n m x A y + bform n m x A y'.
Proof.
  rewrite !bform_Q, <- sumQ_add. apply sumQ_ext; intros i Hi.
  rewrite (sumQ_ext m _ (fun l => get A i l * vget y l + get A i l * vget y' l))
    by (intros l Hl; rewrite vget_vadd by assumption; ring).
  rewrite sumQ_add. ring.
Qed.

Lemma bform_madd n m x (A B : Qmat) y :
  bform n m x (madd n m A B) y == bform n m x A y + bform n m x B y.
Proof.
  rewrite !bform_Q, <- sumQ_add. apply sumQ_ext; intros i Hi.
  rewrite (sumQ_ext m _ (fun l => get A i l * vget y l + get B i l * vget y l))
    by (intros l Hl; rewrite get_madd by assumption; ring).
  rewrite sumQ_add. ring.
Qed.

Lemma bform_msub n m x (A B : Qmat) y :
  bform n m x (msub n m A B) y == bform n m x A y - bform n m x B y.
Proof.
  rewrite !bform_Q, <- sumQ_sub. apply sumQ_ext; intros i Hi.
  rewrite (sumQ_ext m _ (fun l => get A i l * vget y l - get B i l * vget y l))
    by (intros l Hl; rewrite get_msub by assumption; ring).
  rewrite sumQ_sub. ring.
Qed.

Lemma bform_mscale n m c x (A : Qmat) y :
  bform n m x (mscale n m c A) y == c * bform n m x A y.
Proof.
  rewrite !bform_Q, <- sumQ_scale_l. apply sumQ_ext; intros i Hi.
  rewrite (sumQ_ext m _ (fun l => c * (get A i l * vget y l)))
    by (intros l Hl; rewrite get_mscale by assumption; ring).
  rewrite sumQ_scale_l. ring.
Qed.

Lemma bform_tr n m x (A : Qmat) y :
  bform n m x A y == bform m n y (mtr n m A) x.
Proof.
  rewrite !bform_Q.
  rewrite (sumQ_ext n _ (fun i => sumQ m (fun l => vget x i * get A i l * vget y l)))
    by (intros i Hi; rewrite <- sumQ_scale_l; apply sumQ_ext; intros; ring).
  rewrite sumQ_exchange. apply sumQ_ext; intros l Hl.
  rewrite <- sumQ_scale_l. apply sumQ_ext; intros i Hi.
  rewrite get_mtr by assumption. ring.
Qed.

Lemma bform_mvmul_r n m p x (M B : Qmat) y :
  bform n m x M (mvmul m p B y) == bform n p x (mmul n m p M B) y.
Proof.
  rewrite !bform_Q. apply sumQ_ext; intros i Hi.
  apply Qmult_comp; [reflexivity|].
  rewrite (sumQ_ext m _ (fun l => sumQ p (fun a => get M i l * get B l a * vget y a))).
  2:{ intros l Hl. rewrite vget_mvmul by assumption. rewrite <- sumQ_scale_l.
      apply sumQ_ext; intros; ring. }
  rewrite sumQ_exchange. apply sumQ_ext; intros a Ha.
  rewrite get_mmul by assumption. rewrite <- sumQ_scale_r. apply sumQ_ext; intros; ring.
Qed.

Lemma bform_mvmul_l n m p (A : Qmat) x (M : Qmat) y :
  bform n m (mvmul n p A x) M y == bform p m x (mmul p n m (mtr n p A) M) y.
Proof.
  rewrite (bform_tr n m). rewrite bform_mvmul_r. rewrite (bform_tr m p).
  apply bform_proper; try reflexivity.
  rewrite mtr_mmul. rewrite mtr_mtr. reflexivity.
Qed.

Lemma bform_vzero_l n m (A : Qmat) y : bform n m (vzero n) A y == 0.
Proof.
  rewrite bform_Q. rewrite (sumQ_ext n _ (fun _ => 0)); [apply sumQ_zero|].
  intros i Hi. unfold vzero. rewrite vget_vmk by assumption. change (@nzero Q NumQ) with 0. ring.
Qed.

Lemma bform_vzero_r n m x (A : Qmat) : bform n m x A (vzero m) == 0.
Proof. rewrite bform_tr. apply bform_vzero_l. Qed.

(* symmetric matrix: x' A y = y' A x *)
Lemma bform_sym n x (A : Qmat) y : msym n A -> bform n n x A y == bform n n y A x.
Proof. intros S. unfold msym in S. rewrite (bform_tr n n x A y). rewrite S. reflexivity. Qed.

Lemma bform_mv2 n p q (A : Qmat) x (P B : Qmat) y :
  bform n n (mvmul n p A x) P (mvmul n q B y)
  == bform p q x (mmul p n q (mtr n p A) (mmul n n q P B)) y.
Proof.
  rewrite bform_mvmul_l, bform_mvmul_r. apply bform_proper; try reflexivity. apply mmul_assoc.
Qed.

(* ====================================================================== *)
(* completion of the square, general dimension *)
Section CompleteSquare.
Variables (n k : nat) (beta : Q) (Qm Rm A B N P F : Qmat).
Hypothesis HQ : msym k Qm.
Hypothesis HP : msym n P.
Hypothesis HF : meq k n (mmul k k n (lq_S1 n k beta Qm B P) F) (lq_S2 n k beta A B N P).

Let MAA := mmul n n n (mtr n n A) (mmul n n n P A).
Let MAB := mmul n n k (mtr n n A) (mmul n n k P B).
Let MBA := mmul k n n (mtr n k B) (mmul n n n P A).
Let MBB := mmul k n k (mtr n k B) (mmul n n k P B).
Let S1 := lq_S1 n k beta Qm B P.
Let S2 := lq_S2 n k beta A B N P.

Lemma MAB_tr : meq k n (mtr n k MAB) MBA.
Proof.
  unfold MAB, MBA. unfold msym in HP.
  rewrite (mtr_mmul n n k (mtr n n A) (mmul n n k P B)).
  rewrite (mtr_mmul n n k P B). rewrite (mtr_mtr n n A). rewrite HP.
  apply mmul_assoc.
Qed.

Lemma MBB_sym : msym k MBB.
Proof.
  unfold msym, MBB. unfold msym in HP.
  rewrite (mtr_mmul k n k (mtr n k B) (mmul n n k P B)).
  rewrite (mtr_mmul n n k P B). rewrite (mtr_mtr n k B). rewrite HP.
  apply mmul_assoc.
Qed.

Lemma S1_sym : msym k S1.
Proof.
  pose proof MBB_sym as Hs. unfold msym in *. unfold S1, lq_S1. fold MBB.
  rewrite mtr_madd, mtr_mscale. rewrite HQ, Hs. reflexivity.
Qed.

Definition lq_newP : Qmat :=
  madd n n (msub n n Rm (mmul n k n (mtr k n S2) F)) (lq_S3 n beta A P).

Theorem lq_complete_square_vec (x u : list Q) :
  stage_cost n k Qm Rm N x u
  + beta * qform n (vadd n (mvmul n n A x) (mvmul n k B u)) P
  == qform n x lq_newP + qform k (vadd k u (mvmul k n F x)) S1.
Proof.
  unfold stage_cost, qform.
  change (vdot n ?a (mvmul n n ?M ?b)) with (bform n n a M b).
  change (vdot k ?a (mvmul k k ?M ?b)) with (bform k k a M b).
  rewrite !nadd_Q, nmul_Q. change (@none_ Q NumQ) with 1.
  (* left: expand (Ax+Bu)'P(Ax+Bu) *)
  rewrite !bform_vadd_l, !bform_vadd_r. rewrite !(bform_mv2 n _ _ _ _ P).
  fold MAA MAB MBA MBB.
  assert (Ecross : bform n k x MAB u == bform k n u MBA x).
  { rewrite (bform_tr n k x MAB u). apply bform_proper; try reflexivity. apply MAB_tr. }
  rewrite Ecross.
  (* right: x' P+ x *)
  unfold lq_newP. rewrite bform_madd, bform_msub. unfold lq_S3. rewrite bform_mscale. fold MAA.
  (* right: (u+Fx)' S1 (u+Fx) *)
  assert (E1 : bform k k u S1 (mvmul k n F x) == bform k n u S2 x).
  { rewrite bform_mvmul_r. apply bform_proper; try reflexivity. exact HF. }
  assert (E2 : bform k k (mvmul k n F x) S1 u == bform k n u S2 x).
  { rewrite (bform_sym k _ S1 u S1_sym). exact E1. }
  assert (E3 : bform k k (mvmul k n F x) S1 (mvmul k n F x)
               == bform n n x (mmul n k n (mtr k n S2) F) x).
  { rewrite bform_mvmul_r.
    assert (HF' : meq k n (mmul k k n S1 F) S2) by exact HF.
    rewrite HF'.
    rewrite bform_mvmul_l.
    rewrite (bform_tr n n x (mmul n k n (mtr k n S2) F) x).
    apply bform_proper; try reflexivity.
    rewrite mtr_mmul, mtr_mtr. reflexivity. }
  rewrite E1, E2, E3.
  assert (E4 : bform k k u S1 u == bform k k u Qm u + beta * bform k k u MBB u).
  { unfold S1, lq_S1. fold MBB. rewrite bform_madd, bform_mscale. reflexivity. }
  assert (E5 : bform k n u S2 x == beta * bform k n u MBA x + bform k n u N x).
  { unfold S2, lq_S2. fold MBA. rewrite bform_madd, bform_mscale. reflexivity. }
  rewrite E4, E5. ring.
Qed.
End CompleteSquare.

Section NewPSym.
Variables (n k : nat) (beta : Q) (Qm Rm A B N P F : Qmat).
Hypothesis HQ : msym k Qm.
Hypothesis HR : msym n Rm.
Hypothesis HP : msym n P.
Hypothesis HF : meq k n (mmul k k n (lq_S1 n k beta Qm B P) F) (lq_S2 n k beta A B N P).

Lemma S2F_sym : msym n (mmul n k n (mtr k n (lq_S2 n k beta A B N P)) F).
Proof.
  pose proof (S1_sym n k beta Qm B P HQ HP) as HS1. unfold msym in HS1.
  set (S1 := lq_S1 n k beta Qm B P) in *. set (S2 := lq_S2 n k beta A B N P) in *.
  assert (E : meq n n (mmul n k n (mtr k n S2) F) (mmul n k n (mmul n k k (mtr k n F) S1) F)).
  { rewrite <- HF. rewrite (mtr_mmul k k n S1 F). rewrite HS1. reflexivity. }
  unfold msym. rewrite E.
  rewrite (mtr_mmul n k n (mmul n k k (mtr k n F) S1) F).
  rewrite (mtr_mmul n k k (mtr k n F) S1). rewrite (mtr_mtr k n F). rewrite HS1.
  symmetry. apply mmul_assoc.
Qed.

Lemma S3_sym : msym n (lq_S3 n beta A P).
Proof.
  unfold msym, lq_S3. unfold msym in HP.
  rewrite mtr_mscale.
  rewrite (mtr_mmul n n n (mtr n n A) (mmul n n n P A)).
  rewrite (mtr_mmul n n n P A). rewrite (mtr_mtr n n A). rewrite HP.
  rewrite mmul_assoc. reflexivity.
Qed.

Lemma lq_newP_sym : msym n (lq_newP n k beta Rm A B N P F).
Proof.
  pose proof S2F_sym as H1. pose proof S3_sym as H2. unfold msym in *.
  unfold lq_newP. rewrite mtr_madd, mtr_msub. rewrite HR, H1, H2. reflexivity.
Qed.
End NewPSym.

(* ====================================================================== *)
(* structure of the backward recursion (every Num instance) *)
Section Recursion.
Context {T : Type} `{Num T}.
Variables (n k j : nat) (beta : T) (Qm Rm A B C N : list (list T)).
Notation upd := (update_values n k j beta Qm Rm A B C N).
Notation recur := (lq_recursion n k j beta Qm Rm A B C N).

Lemma lq_recursion_S T_ P d pols :
  recur (S T_) P d pols =
  match upd P d with None => None | Some (F, P', d') => recur T_ P' d' (pols ++ [F]) end.
Proof. reflexivity. Qed.

(* the LAST update (the one that produces the period-0 policy) peeled off *)
Lemma lq_recursion_last T_ : forall P d pols,
  recur (S T_) P d pols =
  match recur T_ P d pols with
  | None => None
  | Some (pols', P', d') =>
    match upd P' d' with None => None | Some (F, P'', d'') => Some (pols' ++ [F], P'', d'') end
  end.
Proof.
  induction T_; intros P d pols.
  - rewrite lq_recursion_S. simpl. destruct (upd P d) as [[[F P'] d']|]; reflexivity.
  - rewrite lq_recursion_S. rewrite (lq_recursion_S T_).
    destruct (upd P d) as [[[F P'] d']|]; [|reflexivity]. apply IHT_.
Qed.
End Recursion.

(* ====================================================================== *)
(* finite horizon: the recursion returns the exact minimum of the T-period programme (deterministic part) *)
Section FiniteHorizon.
Variables (n k j : nat) (beta : Q) (Qm Rm A B C N : Qmat).
Hypothesis HQ : msym k Qm.
Hypothesis HR : msym n Rm.
Hypothesis Hbeta : 0 <= beta.
Notation upd := (update_values n k j beta Qm Rm A B C N).
Notation recur := (lq_recursion n k j beta Qm Rm A B C N).
Notation hcost := (horizon_cost n k beta Qm Rm A B N).

Lemma update_values_spec P d F P' d' :
  upd P d = Some (F, P', d') ->
  meq k n (mmul k k n (lq_S1 n k beta Qm B P) F) (lq_S2 n k beta A B N P) /\
  P' = lq_newP n k beta Rm A B N P F /\
  d' == beta * (d + mtrace n (mmul n n n P (mmul n j n C (mtr n j C)))).
Proof.
  unfold update_values. destruct (solve k n _ _) as [F0|] eqn:Es; [|discriminate].
  intros E. injection E as <- <- <-.
  split; [apply (solve_correct _ _ _ _ _ Es)|]. split; [reflexivity|].
  rewrite nmul_Q, nadd_Q. reflexivity.
Qed.

Notation cl_controls := (closed_loop_controls n k A B).

Lemma hcost_cons Rf x u us :
  hcost Rf x (u :: us)
  == stage_cost n k Qm Rm N x u + beta * hcost Rf (vadd n (mvmul n n A x) (mvmul n k B u)) us.
Proof.
  change (hcost Rf x (u :: us))
    with (nadd (stage_cost n k Qm Rm N x u)
               (nmul beta (hcost Rf (vadd n (mvmul n n A x) (mvmul n k B u)) us))).
  rewrite nadd_Q, nmul_Q. reflexivity.
Qed.

Lemma feedback_cancels F x : veq k (vadd k (vneg k (mvmul k n F x)) (mvmul k n F x)) (vzero k).
Proof.
  intros i Hi. rewrite vget_vadd, vget_vneg by assumption.
  unfold vzero. rewrite vget_vmk by assumption. change (@nzero Q NumQ) with 0. ring.
Qed.

Theorem lq_finite_horizon T_ : forall Rf pols P d,
  msym n Rf ->
  recur T_ Rf 0 [] = Some (pols, P, d) ->
  (forall t polst Pt dt, (t < T_)%nat -> recur t Rf 0 [] = Some (polst, Pt, dt) ->
      forall v, 0 <= qform k v (lq_S1 n k beta Qm B Pt)) ->
  msym n P /\ length pols = T_ /\
  (forall x us, length us = T_ -> qform n x P <= hcost Rf x us) /\
  (forall x, hcost Rf x (cl_controls (rev pols) x) == qform n x P).
Proof.
  induction T_ as [|T' IH]; intros Rf pols P d HRf Hrec Hpsd.
  - simpl in Hrec. injection Hrec as <- <- <-.
    split; [exact HRf|]. split; [reflexivity|]. split.
    + intros x us Hlen. destruct us; [|discriminate]. simpl. apply Qle_refl.
    + intros x. simpl. reflexivity.
  - rewrite lq_recursion_last in Hrec.
    destruct (recur T' Rf 0 []) as [[[pols' P'] d']|] eqn:Er; [|discriminate].
    destruct (upd P' d') as [[[F P''] d'']|] eqn:Eu; [|discriminate].
    injection Hrec as <- <- <-.
    assert (Hpsd' : forall t polst Pt dt, (t < T')%nat -> recur t Rf 0 [] = Some (polst, Pt, dt) ->
                    forall v, 0 <= qform k v (lq_S1 n k beta Qm B Pt)).
    { intros t polst Pt dt Ht. apply Hpsd. lia. }
    destruct (IH Rf pols' P' d' HRf Er Hpsd') as [HsymP' [Hlen [Hlow Heq]]].
    destruct (update_values_spec _ _ _ _ _ Eu) as [HF [HP'' _]]. subst P''.
    pose proof (Hpsd T' pols' P' d' ltac:(lia) Er) as HS1psd.
    split; [apply (lq_newP_sym n k beta Qm Rm A B N P' F HQ HR HsymP' HF)|].
    split; [rewrite app_length; simpl; lia|]. split.
    + intros x us Hl. destruct us as [|u us']; [discriminate|].
      rewrite hcost_cons.
      pose proof (lq_complete_square_vec n k beta Qm Rm A B N P' F HQ HsymP' HF x u) as Sq.
      pose proof (Hlow (vadd n (mvmul n n A x) (mvmul n k B u)) us' ltac:(simpl in Hl; lia)) as L.
      pose proof (HS1psd (vadd k u (mvmul k n F x))) as Pos.
      nra.
    + intros x. rewrite rev_app_distr. simpl rev. simpl app. simpl closed_loop_controls.
      rewrite hcost_cons.
      set (u := vneg k (mvmul k n F x)).
      rewrite (Heq (vadd n (mvmul n n A x) (mvmul n k B u))).
      pose proof (lq_complete_square_vec n k beta Qm Rm A B N P' F HQ HsymP' HF x u) as Sq.
      assert (Z : qform k (vadd k u (mvmul k n F x)) (lq_S1 n k beta Qm B P') == 0).
      { change (qform k ?a ?M) with (bform k k a M a).
        unfold u. rewrite (feedback_cancels F x). apply bform_vzero_l. }
      rewrite Z in Sq. lra.
Qed.
End FiniteHorizon.

(* ====================================================================== *)
(* stationary values: a solution of the (discounted) Riccati equation is a fixed point of update_values *)
Section Stationary.
Variables (n k j : nat) (beta : Q) (Qm Rm A B C N : Qmat).
Hypothesis HQ : msym k Qm.

Lemma S2F_unique P F0 F :
  msym n P ->
  meq k n (mmul k k n (lq_S1 n k beta Qm B P) F0) (lq_S2 n k beta A B N P) ->
  meq k n (mmul k k n (lq_S1 n k beta Qm B P) F) (lq_S2 n k beta A B N P) ->
  meq n n (mmul n k n (mtr k n (lq_S2 n k beta A B N P)) F)
          (mmul n k n (mtr k n (lq_S2 n k beta A B N P)) F0).
Proof.
  intros HP HF0 HF.
  pose proof (S1_sym n k beta Qm B P HQ HP) as HS1. unfold msym in HS1.
  pose proof (S2F_sym n k beta Qm A B N P F0 HQ HP HF0) as Hsym. unfold msym in Hsym.
  set (S1 := lq_S1 n k beta Qm B P) in *. set (S2 := lq_S2 n k beta A B N P) in *.
  (* S2'F = (F0'S1)F = F0'(S1 F) = F0'S2 = (S2'F0)' = S2'F0 *)
  transitivity (mmul n k n (mtr k n F0) S2).
  - rewrite <- HF0 at 1. rewrite (mtr_mmul k k n S1 F0). rewrite HS1.
    rewrite mmul_assoc. rewrite HF. reflexivity.
  - rewrite <- Hsym. rewrite (mtr_mmul n k n (mtr k n S2) F0). rewrite (mtr_mtr k n S2). reflexivity.
Qed.

Theorem lq_stationary_fixed_point P F0 F d :
  msym n P ->
  meq k n (mmul k k n (lq_S1 n k beta Qm B P) F0) (lq_S2 n k beta A B N P) ->
  meq n n P (lq_newP n k beta Rm A B N P F0) ->
  stationary_from_P n k j beta Qm A B C N P = Some (F, d) ->
  (~ beta == 1 \/ mtrace n (mmul n n n P (mmul n j n C (mtr n j C))) == 0) ->
  meq k n (mmul k k n (lq_S1 n k beta Qm B P) F) (lq_S2 n k beta A B N P) /\
  exists P' d', update_values n k j beta Qm Rm A B C N P d = Some (F, P', d') /\
                meq n n P' P /\ d' == d.
Proof.
  intros HP HF0 Hric Hst Hd.
  unfold stationary_from_P in Hst.
  destruct (solve k n (lq_S1 n k beta Qm B P) (lq_S2 n k beta A B N P)) as [F1|] eqn:Es; [|discriminate].
  injection Hst as -> Hdv.
  pose proof (solve_correct _ _ _ _ _ Es) as HF.
  split; [exact HF|].
  unfold update_values. rewrite Es. eexists. eexists. split; [reflexivity|]. split.
  - rewrite Hric at 3. unfold lq_newP.
    rewrite (S2F_unique P F0 F HP HF0 HF). reflexivity.
  - set (tr := mtrace n (mmul n n n P (mmul n j n C (mtr n j C)))) in *.
    rewrite nmul_Q, nadd_Q. subst d.
    change (neqb beta none_) with (Qeq_bool beta 1).
    destruct (Qeq_bool beta 1) eqn:Eb.
    + apply Qeq_bool_iff in Eb. destruct Hd as [Hd|Hd]; [contradiction|].
      change (@nzero Q NumQ) with 0. rewrite Hd. ring.
    + apply Qeq_bool_neq in Eb. rewrite ndiv_Q, nmul_Q, nsub_Q. change (@none_ Q NumQ) with 1.
      field. intro Hz. apply Eb. lra.
Qed.
End Stationary.

(* ====================================================================== *)
(* which policy sits where in the list, and the whole of compute_sequence (every Num instance) *)
Section PolicyOrder.
Context {T : Type} `{Num T}.
Variables (n k j : nat) (beta : T) (Qm Rm A B C N : list (list T)).
Notation upd := (update_values n k j beta Qm Rm A B C N).
Notation recur := (lq_recursion n k j beta Qm Rm A B C N).

(* policies[i] is the F produced by update number i+1, i.e. from the value matrix after i updates *)
Lemma lq_recursion_policies T_ : forall P0 d0 pols P d,
  recur T_ P0 d0 [] = Some (pols, P, d) ->
  length pols = T_ /\
  forall i, (i < T_)%nat ->
    exists polsi Pi di Pn dn, recur i P0 d0 [] = Some (polsi, Pi, di) /\
                              upd Pi di = Some (nth i pols [], Pn, dn).
Proof.
  induction T_ as [|T' IH]; intros P0 d0 pols P d Hr.
  - simpl in Hr. injection Hr as <- <- <-. split; [reflexivity|]. intros i Hi. lia.
  - rewrite lq_recursion_last in Hr.
    destruct (recur T' P0 d0 []) as [[[pols' P'] d']|] eqn:Er; [|discriminate].
    destruct (upd P' d') as [[[F P''] d'']|] eqn:Eu; [|discriminate].
    injection Hr as <- <- <-.
    destruct (IH _ _ _ _ _ Er) as [Hlen Hnth].
    split; [rewrite app_length; simpl; lia|].
    intros i Hi. destruct (Nat.eq_dec i T') as [->|Hne].
    + exists pols', P', d', P'', d''. split; [exact Er|].
      rewrite <- Hlen. rewrite nth_middle. exact Eu.
    + destruct (Hnth i ltac:(lia)) as [polsi [Pi [di [Pn [dn [E1 E2]]]]]].
      exists polsi, Pi, di, Pn, dn. split; [exact E1|].
      rewrite app_nth1 by lia. exact E2.
Qed.

Theorem compute_sequence_finite_spec T_ Rf x0 ws xs us :
  compute_sequence_finite n k j beta Qm Rm A B C N T_ Rf x0 ws = Some (xs, us) ->
  exists pols P d,
    recur T_ Rf nzero [] = Some (pols, P, d) /\ length pols = T_ /\
    length xs = S T_ /\ length us = T_ /\ nth 0 xs [] = x0 /\
    forall t, (t < T_)%nat ->
      (* the rule of period t is the one produced by update number T - t *)
      (exists polsi Pi di Pn dn, recur (T_ - 1 - t) Rf nzero [] = Some (polsi, Pi, di) /\
                                 upd Pi di = Some (nth (T_ - 1 - t) pols [], Pn, dn)) /\
      nth t us [] = vneg k (mvmul k n (nth (T_ - 1 - t) pols []) (nth t xs [])) /\
      nth (S t) xs [] = vadd n (vadd n (mvmul n n A (nth t xs [])) (mvmul n k B (nth t us [])))
                               (mvmul n j C (nth t ws [])).
Proof.
  unfold compute_sequence_finite.
  destruct (recur T_ Rf nzero []) as [[[pols P] d]|] eqn:Er; [|discriminate].
  intros Hs. exists pols, P, d.
  destruct (lq_recursion_policies T_ _ _ _ _ _ Er) as [Hlen Hpol].
  destruct (lq_simulate_spec n k j A B C T_ pols ws x0 xs us Hs) as [_ [_ [Hx [Hu [H0 Ht]]]]].
  split; [reflexivity|]. split; [exact Hlen|]. split; [exact Hx|]. split; [exact Hu|].
  split; [exact H0|].
  intros t Hlt. rewrite Hlen in Ht. destruct (Ht t Hlt) as [E1 E2].
  split; [apply Hpol; lia|]. split; assumption.
Qed.
End PolicyOrder.

Lemma qform_1 (v : list Q) (M : Qmat) : (qform 1 v M == get M 0 0 * (vget v 0 * vget v 0))%Q.
Proof.
  change (qform 1 v M) with (bform 1 1 v M v). rewrite bform_Q. simpl. ring.
Qed.

(* ====================================================================== *)
(* infinite horizon, the algebraic core: with the stationary P as terminal value, NO control sequence of
   any length does better than x'Px, and the stationary rule attains it for every T *)
Section StationaryBound.
Local Open Scope Q_scope.
Variables (n k : nat) (beta : Q) (Qm Rm A B N P F : Qmat).
Hypothesis HQ : msym k Qm.
Hypothesis HP : msym n P.
Hypothesis Hbeta : 0 <= beta.
Hypothesis HF : meq k n (mmul k k n (lq_S1 n k beta Qm B P) F) (lq_S2 n k beta A B N P).
Hypothesis Hric : meq n n P (lq_newP n k beta Rm A B N P F).
Hypothesis Hpsd : forall v, 0 <= qform k v (lq_S1 n k beta Qm B P).
Notation hcost := (horizon_cost n k beta Qm Rm A B N).

Lemma qform_newP x : qform n x (lq_newP n k beta Rm A B N P F) == qform n x P.
Proof.
  change (qform n x ?M) with (bform n n x M x).
  apply bform_proper; try reflexivity. symmetry. exact Hric.
Qed.

Theorem lq_stationary_lower_bound us : forall x, qform n x P <= hcost P x us.
Proof.
  induction us as [|u us IH]; intros x.
  - simpl. apply Qle_refl.
  - rewrite (hcost_cons n k beta Qm Rm A B N).
    pose proof (lq_complete_square_vec n k beta Qm Rm A B N P F HQ HP HF x u) as Sq.
    rewrite qform_newP in Sq.
    pose proof (IH (vadd n (mvmul n n A x) (mvmul n k B u))) as L.
    pose proof (Hpsd (vadd k u (mvmul k n F x))) as Pos.
    nra.
Qed.

Theorem lq_stationary_rule_attains T_ : forall x,
  hcost P x (closed_loop_controls n k A B (repeat F T_) x) == qform n x P.
Proof.
  induction T_ as [|T' IH]; intros x.
  - simpl. reflexivity.
  - simpl repeat. simpl closed_loop_controls.
    rewrite (hcost_cons n k beta Qm Rm A B N).
    set (u := vneg k (mvmul k n F x)).
    rewrite (IH (vadd n (mvmul n n A x) (mvmul n k B u))).
    pose proof (lq_complete_square_vec n k beta Qm Rm A B N P F HQ HP HF x u) as Sq.
    rewrite qform_newP in Sq.
    assert (Z : qform k (vadd k u (mvmul k n F x)) (lq_S1 n k beta Qm B P) == 0).
    { change (qform k ?a ?M) with (bform k k a M a).
      unfold u. rewrite (feedback_cancels n k F x). apply bform_vzero_l. }
    rewrite Z in Sq. lra.
Qed.
End StationaryBound.

(* consequence with terminal value 0: whenever the discounted terminal value under a rule G vanishes
   (stabilising G), its long-horizon cost is at least x'Px up to any eps *)
Theorem lq_infinite_horizon_optimal (n k : nat) (beta : Q) (Qm Rm A B N P F G : Qmat) (x : list Q) :
  msym k Qm -> msym n P -> (0 <= beta)%Q ->
  meq k n (mmul k k n (lq_S1 n k beta Qm B P) F) (lq_S2 n k beta A B N P) ->
  meq n n P (lq_newP n k beta Rm A B N P F) ->
  (forall v, (0 <= qform k v (lq_S1 n k beta Qm B P))%Q) ->
  (forall eps, (0 < eps)%Q -> exists T0, forall T_, (T0 <= T_)%nat ->
     (horizon_cost n k beta Qm Rm A B N P x (closed_loop_controls n k A B (repeat G T_) x)
      - horizon_cost n k beta Qm Rm A B N (mzero n n) x (closed_loop_controls n k A B (repeat G T_) x) <= eps)%Q) ->
  forall eps, (0 < eps)%Q -> exists T0, forall T_, (T0 <= T_)%nat ->
     (qform n x P - eps
      <= horizon_cost n k beta Qm Rm A B N (mzero n n) x (closed_loop_controls n k A B (repeat G T_) x))%Q.
Proof.
  intros HQ HP Hb HF Hric Hpsd Hterm eps Heps.
  destruct (Hterm eps Heps) as [T0 HT0]. exists T0. intros T_ HT.
  specialize (HT0 T_ HT).
  pose proof (lq_stationary_lower_bound n k beta Qm Rm A B N P F HQ HP Hb HF Hric Hpsd
                (closed_loop_controls n k A B (repeat G T_) x) x) as L.
  lra.
Qed.

(* compute_sequence on a finite-horizon object does not depend on what earlier operations left on the object
   (every Num instance): it restarts from (Rf, 0) *)
Theorem lq_sequence_resets {T : Type} `{Num T} (n k j : nat) (beta : T) (Qm Rm A B C N Rf : list (list T))
        tol max_iter gamma sb (st st' : lq_state) Teff x0 ws :
  (1 <= Teff)%nat ->
  lq_apply n k j beta Qm Rm A B C N (Some Rf) tol max_iter gamma sb st (OpSequence Teff x0 ws)
  = lq_apply n k j beta Qm Rm A B C N (Some Rf) tol max_iter gamma sb st' (OpSequence Teff x0 ws).
Proof.
  intros HT. destruct st as [[P d] F], st' as [[P' d'] F']. simpl.
  destruct (lq_recursion n k j beta Qm Rm A B C N Teff Rf nzero []) as [[[pols P1] d1]|] eqn:Er; [|reflexivity].
  destruct (lq_recursion_policies n k j beta Qm Rm A B C N Teff _ _ _ _ _ Er) as [Hlen _].
  destruct (rev pols) as [|Fl r] eqn:Erev.
  - exfalso. assert (length (rev pols) = 0%nat) by (now rewrite Erev). rewrite rev_length in *. lia.
  - reflexivity.
Qed.

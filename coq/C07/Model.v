(* C07 model: quantecon/_lqcontrol.py class LQ
     update_values, the finite-horizon recursion, the policy list built backwards and
     popped from the end, compute_sequence as a function of the drawn shocks,
     stationary_values (given the Riccati solution / through the C06 doubling model).
   Generic over Base.Num.Num.  Dimensions: n states, k controls, j shocks;
   Q k x k (controls), R n x n (states), A n x n, B n x k, C n x j, N k x n.
   scipy.linalg.solve is Base.Gauss.solve (None <-> LinAlgError). Executable definitions only. *)
From Coq Require Import ZArith QArith List Bool PrimFloat.
From QE Require Import Base.Num Base.LinAlg Base.Gauss C06.Model.
Import ListNotations.

Section LQ.
Context {T : Type} `{Num T}.
Variables (n k j : nat).
Variable beta : T.
Variables (Q R A B C N : list (list T)).

Definition lq_S1 (P : list (list T)) :=
  madd k k Q (mscale k k beta (mmul k n k (mtr n k B) (mmul n n k P B))).
Definition lq_S2 (P : list (list T)) :=
  madd k n (mscale k n beta (mmul k n n (mtr n k B) (mmul n n n P A))) N.
Definition lq_S3 (P : list (list T)) :=
  mscale n n beta (mmul n n n (mtr n n A) (mmul n n n P A)).

(* LQ.update_values: (P, d) -> (F, new_P, new_d); None = LinAlgError (singular S1) *)
Definition update_values (P : list (list T)) (d : T) : option (list (list T) * list (list T) * T) :=
  let S2 := lq_S2 P in
  match solve k n (lq_S1 P) S2 with
  | None => None
  | Some F =>
    let new_P := madd n n (msub n n R (mmul n k n (mtr k n S2) F)) (lq_S3 P) in
    let new_d := nmul beta (nadd d (mtrace n (mmul n n n P (mmul n j n C (mtr n j C))))) in
    Some (F, new_P, new_d)
  end.

(* for t in range(T): self.update_values(); policies.append(self.F)
   returns (policies in append order, P, d) *)
Fixpoint lq_recursion (T_ : nat) (P : list (list T)) (d : T) (policies : list (list (list T)))
  : option (list (list (list T)) * list (list T) * T) :=
  match T_ with
  | O => Some (policies, P, d)
  | S T' => match update_values P d with
            | None => None
            | Some (F, P', d') => lq_recursion T' P' d' (policies ++ [F])
            end
  end.

(* list.pop(): last element and the rest *)
Definition pop {X} (l : list X) : option (X * list X) :=
  match rev l with
  | [] => None
  | x :: r => Some (x, rev r)
  end.

(* the simulation part of compute_sequence.  `policies` is the list as built (append order) and is
   consumed with pop(); ws = [w_1; ...; w_T] are the shock columns actually used (w_0 is drawn but unused).
   F = policies.pop(); x_0 = x0; u_0 = -F x_0
   for t in 1..T-1: F = policies.pop(); x_t = (A x_{t-1} + B u_{t-1}) + C w_t; u_t = -F x_t
   x_T = (A x_{T-1} + B u_{T-1}) + C w_T
   Result: Some (x_path (T+1 vectors), u_path (T vectors)); None = IndexError (pop from empty list / missing shock) *)
Fixpoint lq_simulate (steps : nat) (policies : list (list (list T))) (ws : list (list T)) (x : list T)
  : option (list (list T) * list (list T)) :=
  match steps with
  | O => Some ([x], [])
  | S s =>
    match pop policies, ws with
    | Some (F, rest), w :: ws' =>
      let u := vneg k (mvmul k n F x) in
      let x' := vadd n (vadd n (mvmul n n A x) (mvmul n k B u)) (mvmul n j C w) in
      match lq_simulate s rest ws' x' with
      | None => None
      | Some (xs, us) => Some (x :: xs, u :: us)
      end
    | _, _ => None
    end
  end.

(* finite horizon: self.P, self.d = Rf, 0; T updates; simulate T periods *)
Definition compute_sequence_finite (T_ : nat) (Rf : list (list T)) (x0 : list T) (ws : list (list T)) :=
  match lq_recursion T_ Rf nzero [] with
  | None => None
  | Some (policies, _, _) => lq_simulate T_ policies ws x0
  end.

(* infinite horizon: policies = [F] * T *)
Definition compute_sequence_stationary (T_ : nat) (F : list (list T)) (x0 : list T) (ws : list (list T)) :=
  lq_simulate T_ (repeat F T_) ws x0.

(* stationary_values after P = solve_discrete_riccati(sqrt(beta) A, sqrt(beta) B, R, Q, N):
   F = solve(S1, S2); d = 0 if beta == 1 else beta tr(P C C') / (1 - beta) *)
Definition stationary_from_P (P : list (list T)) : option (list (list T) * T) :=
  match solve k n (lq_S1 P) (lq_S2 P) with
  | None => None
  | Some F =>
    let d := if neqb beta none_ then nzero
             else ndiv (nmul beta (mtrace n (mmul n n n P (mmul n j n C (mtr n j C))))) (nsub none_ beta) in
    Some (F, d)
  end.

(* the whole of stationary_values(method='doubling'); sqrtbeta = np.sqrt(beta) and the Riccati gamma are inputs *)
Definition stationary_values (tol : T) (max_iter : Z) (gamma sqrtbeta : T) :=
  match solve_discrete_riccati tol max_iter n k gamma (mscale n n sqrtbeta A) (mscale n k sqrtbeta B) R Q N with
  | RiccOk _ P => match stationary_from_P P with
                  | Some (F, d) => Some (P, F, d)
                  | None => None
                  end
  | _ => None
  end.

(* specification side: stage cost and T-period cost of an open-loop control sequence, deterministic part *)
Definition stage_cost (x u : list T) : T :=
  nadd (nadd (qform n x R) (qform k u Q)) (nmul (nadd none_ none_) (bform k n u N x)).
Fixpoint horizon_cost (Rf : list (list T)) (x : list T) (us : list (list T)) : T :=
  match us with
  | [] => qform n x Rf
  | u :: us' => nadd (stage_cost x u)
                     (nmul beta (horizon_cost Rf (vadd n (mvmul n n A x) (mvmul n k B u)) us'))
  end.
(* controls generated without noise by the feedback rules Fs (given in time order) from state x *)
Fixpoint closed_loop_controls (Fs : list (list (list T))) (x : list T) : list (list T) :=
  match Fs with
  | [] => []
  | F :: Fs' => let u := vneg k (mvmul k n F x) in
                u :: closed_loop_controls Fs' (vadd n (mvmul n n A x) (mvmul n k B u))
  end.
(* ---- operation sequences on ONE LQ object: the object's state is (P, d, F); P = None before the first
   stationary_values of an infinite-horizon object.  horizon = Some Rf for a finite-horizon object (T given), None otherwise.
   compute_sequence on a finite-horizon object first RESETS (P, d) to (Rf, 0), performs Teff = min(ts_length, T) updates
   and leaves (P_0, d_0, F_0) on the object; on an infinite-horizon object it calls stationary_values only if P is None
   and then uses the object's current F in every period. *)
Inductive lq_op :=
| OpUpdate
| OpStationary
| OpSequence (Teff : nat) (x0 : list T) (ws : list (list T)).
Inductive lq_out := OutNone | OutPaths (xs us : list (list T)).
Definition lq_state := (option (list (list T)) * T * option (list (list T)))%type.

Definition lq_apply (horizon : option (list (list T))) (tol : T) (max_iter : Z) (gamma sqrtbeta : T)
           (st : lq_state) (op : lq_op) : option (lq_state * lq_out) :=
  let '(P, d, F) := st in
  match op with
  | OpUpdate =>
    match P with
    | None => None                                   (* TypeError: P is None *)
    | Some P0 => match update_values P0 d with
                 | None => None
                 | Some (F', P', d') => Some ((Some P', d', Some F'), OutNone)
                 end
    end
  | OpStationary =>
    match stationary_values tol max_iter gamma sqrtbeta with
    | None => None
    | Some (P', F', d') => Some ((Some P', d', Some F'), OutNone)
    end
  | OpSequence Teff x0 ws =>
    match horizon with
    | Some Rf =>
      match lq_recursion Teff Rf nzero [] with
      | None => None
      | Some (policies, P', d') =>
        match lq_simulate Teff policies ws x0 with
        | None => None
        | Some (xs, us) => Some ((Some P', d', match rev policies with [] => F | Fl :: _ => Some Fl end), OutPaths xs us)
        end
      end
    | None =>
      let st' := match P with
                 | Some _ => Some st
                 | None => match stationary_values tol max_iter gamma sqrtbeta with
                           | None => None
                           | Some (P', F', d') => Some (Some P', d', Some F')
                           end
                 end in
      match st' with
      | Some (P1, d1, Some F1) =>
        match lq_simulate Teff (repeat F1 Teff) ws x0 with
        | None => None
        | Some (xs, us) => Some ((P1, d1, Some F1), OutPaths xs us)
        end
      | _ => None
      end
    end
  end.

Fixpoint lq_run (horizon : option (list (list T))) (tol : T) (max_iter : Z) (gamma sqrtbeta : T)
         (st : lq_state) (ops : list lq_op) : option (list (lq_state * lq_out)) :=
  match ops with
  | [] => Some []
  | op :: ops' =>
    match lq_apply horizon tol max_iter gamma sqrtbeta st op with
    | None => None
    | Some (st', out) =>
      match lq_run horizon tol max_iter gamma sqrtbeta st' ops' with
      | None => None
      | Some l => Some ((st', out) :: l)
      end
    end
  end.
End LQ.

(* C07 model, derived solvers (executable definitions only):
     _matrix_eqn.py solve_discrete_riccati_system + _lqcontrol.py LQMarkov.stationary_values,
     _lqnash.py nnash (one sweep and the loop), _robustlq.py RBLQ d_operator / b_operator / robust_rule.
   Generic over Base.Num.Num.  n states, k controls, j shocks, m regimes. *)
From Coq Require Import ZArith QArith List Bool PrimFloat.
From QE Require Import Base.Num Base.LinAlg Base.Gauss C06.Model C07.Model.
Import ListNotations.

Section Derived.
Context {T : Type} `{Num T}.

(* sum_{l<cnt} F l with failure propagation (sum[:, :] = 0; sum += ... in source order) *)
Fixpoint omsum (r c cnt : nat) (F : nat -> option (list (list T))) : option (list (list T)) :=
  match cnt with
  | O => Some (mzero r c)
  | S c' => match omsum r c c' F, F c' with
            | Some a, Some b => Some (madd r c a b)
            | _, _ => None
            end
  end.
(* [f 0; ...; f (cnt-1)] with failure propagation *)
Fixpoint otab {X} (cnt : nat) (f : nat -> option X) : option (list X) :=
  match cnt with
  | O => Some []
  | S c' => match otab c' f, f c' with
            | Some l, Some x => Some (l ++ [x])
            | _, _ => None
            end
  end.

(* ------------------------------------------------------------------ LQMarkov *)
Section Markov.
Variables (m n k jj : nat) (beta : T).
Variable Pi : list (list T).
Variables (As Bs Cs Qs Rs Ns : list (list (list T))).
Definition reg (Xs : list (list (list T))) (i : nat) := nth i Xs [].

(* beta * Pi[i,j] * As[i].T @ Ps[j] @ As[i] *)
Definition mk_sum1_term (Ps : list (list (list T))) (i j : nat) :=
  mmul n n n (mmul n n n (mscale n n (nmul beta (get Pi i j)) (mtr n n (reg As i))) (reg Ps j)) (reg As i).
(* Pi[i,j] * (beta * As[i].T @ Ps[j] @ Bs[i] + Ns[i].T) @ solve(Qs[i] + beta * Bs[i].T @ Ps[j] @ Bs[i],
                                                              beta * Bs[i].T @ Ps[j] @ As[i] + Ns[i]) *)
Definition mk_M (Ps : list (list (list T))) (i j : nat) :=
  madd k k (reg Qs i) (mmul k n k (mmul k n n (mscale k n beta (mtr n k (reg Bs i))) (reg Ps j)) (reg Bs i)).
Definition mk_rhs (Ps : list (list (list T))) (i j : nat) :=
  madd k n (mmul k n n (mmul k n n (mscale k n beta (mtr n k (reg Bs i))) (reg Ps j)) (reg As i)) (reg Ns i).
Definition mk_L (Ps : list (list (list T))) (i j : nat) :=
  madd n k (mmul n n k (mmul n n n (mscale n n beta (mtr n n (reg As i))) (reg Ps j)) (reg Bs i))
       (mtr k n (reg Ns i)).
Definition mk_sum2_term (Ps : list (list (list T))) (i j : nat) : option (list (list T)) :=
  match solve k n (mk_M Ps i j) (mk_rhs Ps i j) with
  | None => None
  | Some X => Some (mmul n k n (mscale n k (get Pi i j) (mk_L Ps i j)) X)
  end.
(* Ps1[i] = Rs[i] + sum1 - sum2 *)
Definition mk_update_regime (Ps : list (list (list T))) (i : nat) : option (list (list T)) :=
  match omsum n n m (mk_sum2_term Ps i) with
  | None => None
  | Some sum2 => Some (msub n n (madd n n (reg Rs i) (msum n n m (mk_sum1_term Ps i))) sum2)
  end.
(* one pass over the regimes: (Ps1, error = sum_i max|Ps1[i] - Ps[i]|) *)
Definition mk_sweep (Ps : list (list (list T))) : option (list (list (list T)) * T) :=
  match otab m (mk_update_regime Ps) with
  | None => None
  | Some Ps1 => Some (Ps1, nsum m (fun i => mmaxabsdiff n n (reg Ps1 i) (reg Ps i)))
  end.

Inductive mk_result :=
| MkOk (its : nat) (Ps : list (list (list T)))
| MkMaxIter | MkSingular.

(* iteration = 0; error = tol + 1
   while error > tol: if iteration > max_iter: raise ValueError else: sweep; iteration += 1 *)
Fixpoint mk_loop (fuel : nat) (tol : T) (max_iter iteration : Z) (error : T)
         (Ps : list (list (list T))) (its : nat) : mk_result :=
  match fuel with
  | O => MkMaxIter
  | S f =>
    if nltb tol error then
      if (max_iter <? iteration)%Z then MkMaxIter
      else match mk_sweep Ps with
           | None => MkSingular
           | Some (Ps1, err) => mk_loop f tol max_iter (iteration + 1)%Z err Ps1 (S its)
           end
    else MkOk its Ps
  end.
Definition solve_discrete_riccati_system (tol : T) (max_iter : Z) : mk_result :=
  mk_loop (Z.to_nat max_iter + 3) tol max_iter 0 (nadd tol none_) (repeat (mid n) m) 0.

(* LQMarkov.stationary_values after Ps: Fs[i] = solve(Qs[i] + sum_j beta Pi[i,j] Bs[i]'Ps[j]Bs[i],
                                                    sum_j beta Pi[i,j] Bs[i]'Ps[j]As[i] + Ns[i]) *)
Definition mk_F (Ps : list (list (list T))) (i : nat) : option (list (list T)) :=
  let s1 := msum k k m (fun j => mmul k n k (mmul k n n (mscale k n (nmul beta (get Pi i j)) (mtr n k (reg Bs i)))
                                                  (reg Ps j)) (reg Bs i)) in
  let s2 := msum k n m (fun j => mmul k n n (mmul k n n (mscale k n (nmul beta (get Pi i j)) (mtr n k (reg Bs i)))
                                                  (reg Ps j)) (reg As i)) in
  solve k n (madd k k (reg Qs i) s1) (madd k n s2 (reg Ns i)).
(* X[j,i] = trace(Ps[j] @ Cs[i] Cs[i]'); ds = solve(I - beta Pi, diag(beta Pi @ X)) *)
Definition mk_ds (Ps : list (list (list T))) : option (list T) :=
  let X := fun j i => mtrace n (mmul n n n (reg Ps j) (mmul n jj n (reg Cs i) (mtr n jj (reg Cs i)))) in
  let bPi := mscale m m beta Pi in
  let rhs := mk m 1 (fun i _ => nsum m (fun j => nmul (get bPi i j) (X j i))) in
  match solve m 1 (msub m m (mid m) bPi) rhs with
  | None => None
  | Some D => Some (matcol m D 0)
  end.
End Markov.

(* ------------------------------------------------------------------ nnash (A, B1, B2 already scaled by sqrt(beta)) *)
Section NNash.
Variables (n k1 k2 : nat).
Variables (A B1 B2 R1 R2 Q1 Q2 S1 S2 W1 W2 M1 M2 : list (list T)).
(* sizes: B_i n x k_i, R_i n x n, Q_i k_i x k_i, S1 k2 x k2, S2 k1 x k1, W_i n x k_i, M1 k2 x k1, M2 k1 x k2 *)

Definition nn_G1 (P1 : list (list T)) := solve k1 k1 (madd k1 k1 (mmul k1 n k1 (mtr n k1 B1) (mmul n n k1 P1 B1)) Q1) (mid k1).
Definition nn_G2 (P2 : list (list T)) := solve k2 k2 (madd k2 k2 (mmul k2 n k2 (mtr n k2 B2) (mmul n n k2 P2 B2)) Q2) (mid k2).

Definition nnash_sweep (P1 P2 : list (list T))
  : option (list (list T) * list (list T) * list (list T) * list (list T)) :=
  match nn_G2 P2, nn_G1 P1 with
  | Some G2, Some G1 =>
    let H2 := mmul k2 k2 n G2 (mmul k2 n n (mtr n k2 B2) P2) in
    let H1 := mmul k1 k1 n G1 (mmul k1 n n (mtr n k1 B1) P1) in
    let E1 := madd k1 k2 (mmul k1 n k2 H1 B2) (mmul k1 k1 k2 G1 (mtr k2 k1 M1)) in
    let E2 := madd k2 k1 (mmul k2 n k1 H2 B1) (mmul k2 k2 k1 G2 (mtr k1 k2 M2)) in
    let J1 := madd k1 n (mmul k1 n n H1 A) (mmul k1 k1 n G1 (mtr n k1 W1)) in
    let J2 := madd k2 n (mmul k2 n n H2 A) (mmul k2 k2 n G2 (mtr n k2 W2)) in
    let F1_left := msub k1 k1 (mid k1) (mmul k1 k2 k1 E1 E2) in
    let F1_right := msub k1 n J1 (mmul k1 k2 n E1 J2) in
    match solve k1 n F1_left F1_right with
    | None => None
    | Some F1 =>
      let F2 := msub k2 n J2 (mmul k2 k1 n E2 F1) in
      let L1 := msub n n A (mmul n k2 n B2 F2) in
      let L2 := msub n n A (mmul n k1 n B1 F1) in
      let Pi1 := madd n n R1 (mmul n k2 n (mtr k2 n F2) (mmul k2 k2 n S1 F2)) in
      let Pi2 := madd n n R2 (mmul n k1 n (mtr k1 n F1) (mmul k1 k1 n S2 F1)) in
      let P1' := msub n n (madd n n (mmul n n n (mtr n n L1) (mmul n n n P1 L1)) Pi1)
                      (mmul n k1 n (msub n k1 (madd n k1 (mmul n n k1 (mtr n n L1) (mmul n n k1 P1 B1)) W1)
                                          (mmul n k2 k1 (mtr k2 n F2) M1)) F1) in
      let P2' := msub n n (madd n n (mmul n n n (mtr n n L2) (mmul n n n P2 L2)) Pi2)
                      (mmul n k2 n (msub n k2 (madd n k2 (mmul n n k2 (mtr n n L2) (mmul n n k2 P2 B2)) W2)
                                          (mmul n k1 k2 (mtr k1 n F1) M2)) F2) in
      Some (F1, F2, P1', P2')
    end
  | _, _ => None
  end.

(* for it in range(max_iter): sweep; dd = max|F10 - F1| + max|F20 - F2|; if dd < tol: break
   else: raise ValueError.   None = LinAlgError, Some None = no convergence *)
Fixpoint nnash_loop (fuel : nat) (tol : T) (F1 F2 P1 P2 : list (list T))
  : option (option (list (list T) * list (list T) * list (list T) * list (list T))) :=
  match fuel with
  | O => Some None
  | S f =>
    match nnash_sweep P1 P2 with
    | None => None
    | Some (F1', F2', P1', P2') =>
      let dd := nadd (mmaxabsdiff k1 n F1 F1') (mmaxabsdiff k2 n F2 F2') in
      if nltb dd tol then Some (Some (F1', F2', P1', P2'))
      else nnash_loop f tol F1' F2' P1' P2'
    end
  end.
End NNash.

(* ------------------------------------------------------------------ RBLQ *)
Section Robust.
Variables (n k j : nat) (beta theta : T).
Variables (Q R A B C : list (list T)).

(* S1 = P C; S2 = C' S1; dP = P + S1 solve(theta I - S2, S1') *)
Definition d_operator (P : list (list T)) : option (list (list T)) :=
  let S1 := mmul n n j P C in
  let S2 := mmul j n j (mtr n j C) S1 in
  match solve j n (msub j j (mscale j j theta (mid j)) S2) (mtr n j S1) with
  | None => None
  | Some X => Some (madd n n P (mmul n j n S1 X))
  end.

(* b_operator (not pure forecasting): the LQ update without cross term *)
Definition b_operator (P : list (list T)) : option (list (list T) * list (list T)) :=
  let S1 := madd k k Q (mscale k k beta (mmul k n k (mtr n k B) (mmul n n k P B))) in
  let S2 := mscale k n beta (mmul k n n (mtr n k B) (mmul n n n P A)) in
  let S3 := mscale n n beta (mmul n n n (mtr n n A) (mmul n n n P A)) in
  match solve k n S1 S2 with
  | None => None
  | Some F => Some (F, madd n n (msub n n R (mmul n k n (mtr k n S2) F)) S3)
  end.

(* robust_rule (not pure forecasting): LQ on Ba = [B C], Qa = [[Q, 0], [0, -beta I theta]] *)
Definition rb_Ba := mhcat n k j B C.
Definition rb_Qa := mvcat k j (k + j) (mhcat k k j Q (mzero k j))
                          (mhcat j k j (mzero j k) (mscale j j theta (mscale j j (nneg beta) (mid j)))).
Definition robust_rule (tol : T) (max_iter : Z) (gamma sqrtbeta : T) :=
  match stationary_values n (k + j) 1 beta rb_Qa R A rb_Ba (mzero n 1) (mzero (k + j) n) tol max_iter gamma sqrtbeta with
  | None => None
  | Some (P, f, _) => Some (mblock 0 0 k n f, mneg j n (mblock k 0 j n f), P)
  end.
End Robust.
End Derived.

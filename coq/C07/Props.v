(* C07 property theorems: statements only, each closed by `exact`, with Print Assumptions. *)
From Coq Require Import ZArith QArith List Bool Lia Lqa.
From QE Require Import Base.Num Base.LinAlg Base.Gauss C06.Model C07.Model C07.ModelDerived C07.Proofs C07.ProofsDerived.
Import ListNotations.
Local Open Scope Q_scope.

(* Conventions: n states, k controls, j shocks; Qm k x k (control cost), Rm n x n (state cost),
   N k x n; vectors are lists; qform n x M = x'Mx, bform k n u N x = u'Nx. *)

(* completion of the square, every dimension: for symmetric Q, P and ANY F with S1 F = S2
   (S1 = Q + beta B'PB, S2 = beta B'PA + N), for all x and u:
   x'Rx + u'Qu + 2u'Nx + beta (Ax+Bu)'P(Ax+Bu) = x'P+x + (u+Fx)'S1(u+Fx), P+ = R - S2'F + beta A'PA *)
Theorem C07_lq_complete_square : forall (n k : nat) (beta : Q) (Qm Rm A B N P F : list (list Q)),
  msym k Qm -> msym n P ->
  meq k n (mmul k k n (lq_S1 n k beta Qm B P) F) (lq_S2 n k beta A B N P) ->
  forall x u : list Q,
  stage_cost n k Qm Rm N x u + beta * qform n (vadd n (mvmul n n A x) (mvmul n k B u)) P
  == qform n x (madd n n (msub n n Rm (mmul n k n (mtr k n (lq_S2 n k beta A B N P)) F)) (lq_S3 n beta A P))
     + qform k (vadd k u (mvmul k n F x)) (lq_S1 n k beta Qm B P).
Proof. exact lq_complete_square_vec. Qed.
Print Assumptions C07_lq_complete_square.

(* finite horizon (deterministic part), by induction on T: if T updates from Rf succeed and every
   S1_t met is positive semidefinite, then P_0 is symmetric, x'P_0 x is a lower bound of the T-period
   cost of EVERY control sequence from EVERY x, attained by u_t = -F_t x_t with the policies consumed
   from the end of the list *)
Theorem C07_lq_finite_horizon_optimal :
  forall (n k j : nat) (beta : Q) (Qm Rm A B C N : list (list Q)),
  msym k Qm -> msym n Rm -> 0 <= beta ->
  forall T_ Rf pols P d,
  msym n Rf ->
  lq_recursion n k j beta Qm Rm A B C N T_ Rf 0 [] = Some (pols, P, d) ->
  (forall t polst Pt dt, (t < T_)%nat ->
      lq_recursion n k j beta Qm Rm A B C N t Rf 0 [] = Some (polst, Pt, dt) ->
      forall v, 0 <= qform k v (lq_S1 n k beta Qm B Pt)) ->
  msym n P /\ length pols = T_ /\
  (forall x us, length us = T_ -> qform n x P <= horizon_cost n k beta Qm Rm A B N Rf x us) /\
  (forall x, horizon_cost n k beta Qm Rm A B N Rf x (closed_loop_controls n k A B (rev pols) x)
             == qform n x P).
Proof. exact lq_finite_horizon. Qed.
Print Assumptions C07_lq_finite_horizon_optimal.

(* stationary values: if P (symmetric) solves the Riccati equation of the discounted problem
   -- P = R - S2'F0 + beta A'PA for some F0 with S1 F0 = S2 -- then what stationary_values computes from
   it, (F, d), is a fixed point of update_values: same F, P+ = P, d+ = d *)
Theorem C07_lq_stationary_fixed_point :
  forall (n k j : nat) (beta : Q) (Qm Rm A B C N : list (list Q)),
  msym k Qm ->
  forall P F0 F d,
  msym n P ->
  meq k n (mmul k k n (lq_S1 n k beta Qm B P) F0) (lq_S2 n k beta A B N P) ->
  meq n n P (madd n n (msub n n Rm (mmul n k n (mtr k n (lq_S2 n k beta A B N P)) F0)) (lq_S3 n beta A P)) ->
  stationary_from_P n k j beta Qm A B C N P = Some (F, d) ->
  (~ beta == 1 \/ mtrace n (mmul n n n P (mmul n j n C (mtr n j C))) == 0) ->
  meq k n (mmul k k n (lq_S1 n k beta Qm B P) F) (lq_S2 n k beta A B N P) /\
  exists P' d', update_values n k j beta Qm Rm A B C N P d = Some (F, P', d') /\
                meq n n P' P /\ d' == d.
Proof. exact lq_stationary_fixed_point. Qed.
Print Assumptions C07_lq_stationary_fixed_point.

(* compute_sequence (finite horizon) as a function of the shocks, EVERY arithmetic instance (binary64
   included): x_0 = x0, u_t = -F_t x_t, x_{t+1} = (A x_t + B u_t) + C w_{t+1}, where F_t is the element
   T-1-t of the list as built, i.e. the rule produced by update number T-t *)
Theorem C07_compute_sequence_dynamics :
  forall (T : Type) (NT : Num T) (n k j : nat) (beta : T) (Qm Rm A B C N : list (list T))
         T_ Rf x0 ws xs us,
  compute_sequence_finite n k j beta Qm Rm A B C N T_ Rf x0 ws = Some (xs, us) ->
  exists pols P d,
    lq_recursion n k j beta Qm Rm A B C N T_ Rf nzero [] = Some (pols, P, d) /\ length pols = T_ /\
    length xs = S T_ /\ length us = T_ /\ nth 0 xs [] = x0 /\
    forall t, (t < T_)%nat ->
      (exists polsi Pi di Pn dn,
          lq_recursion n k j beta Qm Rm A B C N (T_ - 1 - t) Rf nzero [] = Some (polsi, Pi, di) /\
          update_values n k j beta Qm Rm A B C N Pi di = Some (nth (T_ - 1 - t) pols [], Pn, dn)) /\
      nth t us [] = vneg k (mvmul k n (nth (T_ - 1 - t) pols []) (nth t xs [])) /\
      nth (S t) xs [] = vadd n (vadd n (mvmul n n A (nth t xs [])) (mvmul n k B (nth t us [])))
                               (mvmul n j C (nth t ws [])).
Proof. exact (@compute_sequence_finite_spec). Qed.
Print Assumptions C07_compute_sequence_dynamics.

(* operations on one LQ object (update_values / stationary_values / compute_sequence in any order): a
   compute_sequence on a finite-horizon object restarts from (Rf, 0) whatever earlier calls left on the object *)
Theorem C07_compute_sequence_resets_state :
  forall (T : Type) (NT : Num T) (n k j : nat) (beta : T) (Qm Rm A B C N Rf : list (list T))
         tol max_iter gamma sb (st st' : lq_state) Teff x0 ws,
  (1 <= Teff)%nat ->
  lq_apply n k j beta Qm Rm A B C N (Some Rf) tol max_iter gamma sb st (OpSequence Teff x0 ws)
  = lq_apply n k j beta Qm Rm A B C N (Some Rf) tol max_iter gamma sb st' (OpSequence Teff x0 ws).
Proof. exact (@lq_sequence_resets). Qed.
Print Assumptions C07_compute_sequence_resets_state.

(* the simulation loop itself (also the infinite-horizon branch, policies = [F]*T) *)
Theorem C07_lq_simulate_dynamics :
  forall (T : Type) (NT : Num T) (n k j : nat) (A B C : list (list T)) steps policies ws x xs us,
  lq_simulate n k j A B C steps policies ws x = Some (xs, us) ->
  (steps <= length policies)%nat /\ (steps <= length ws)%nat /\
  length xs = S steps /\ length us = steps /\ nth 0 xs [] = x /\
  forall t, (t < steps)%nat ->
    nth t us [] = vneg k (mvmul k n (nth (length policies - 1 - t) policies []) (nth t xs [])) /\
    nth (S t) xs [] = vadd n (vadd n (mvmul n n A (nth t xs [])) (mvmul n k B (nth t us [])))
                             (mvmul n j C (nth t ws [])).
Proof. exact (@lq_simulate_spec). Qed.
Print Assumptions C07_lq_simulate_dynamics.

(* Gauss-Jordan `solve` (the model's scipy.linalg.solve) is correct over Q: used by the theorems above *)
Theorem C07_solve_correct : forall n m (A B X : list (list Q)),
  solve n m A B = Some X -> meq n m (mmul n n m A X) B.
Proof. exact solve_correct. Qed.
Print Assumptions C07_solve_correct.

(* ---- derived solvers (models in ModelDerived.v, tied to the code by correspondence) ---- *)

(* LQMarkov with m identical regimes: if all current value matrices equal a symmetric P (up to ==) and row i of
   Pi sums to 1, the regime-i update of solve_discrete_riccati_system equals the LQ update of P, and the
   regime-i policy of LQMarkov.stationary_values satisfies the LQ policy equation S1 F_i = S2 *)
Theorem C07_lqmarkov_identical_regimes :
  forall (m n k : nat) (beta : Q) (Pi Qm Rm A B N P F : list (list Q)) (Ps : list (list (list Q))),
  msym k Qm -> msym n P ->
  (forall l, (l < m)%nat -> meq n n (nth l Ps []) P) ->
  meq k n (mmul k k n (lq_S1 n k beta Qm B P) F) (lq_S2 n k beta A B N P) ->
  forall i, (i < m)%nat ->
  forall d d' P' C jj Pi1,
  sumQ m (fun l => get Pi i l) == 1 ->
  update_values n k jj beta Qm Rm A B C N P d = Some (F, P', d') ->
  mk_update_regime m n k beta Pi (repeat A m) (repeat B m) (repeat Qm m) (repeat Rm m) (repeat N m) Ps i = Some Pi1 ->
  meq n n Pi1 P'.
Proof. exact lqmarkov_identical_update. Qed.
Print Assumptions C07_lqmarkov_identical_regimes.

Theorem C07_lqmarkov_identical_policy :
  forall (m n k : nat) (beta : Q) (Pi Qm A B N P : list (list Q)) (Ps : list (list (list Q))),
  (forall l, (l < m)%nat -> meq n n (nth l Ps []) P) ->
  forall i, (i < m)%nat -> forall Fi,
  sumQ m (fun l => get Pi i l) == 1 ->
  mk_F m n k beta Pi (repeat A m) (repeat B m) (repeat Qm m) (repeat N m) Ps i = Some Fi ->
  meq k n (mmul k k n (lq_S1 n k beta Qm B P) Fi) (lq_S2 n k beta A B N P).
Proof. exact lqmarkov_identical_policy. Qed.
Print Assumptions C07_lqmarkov_identical_policy.

(* one sweep of nnash (A, B1, B2 already scaled by sqrt(beta)): the new F_i satisfies the first-order condition
   S1 F_i = S2 of player i's induced LQ problem  (Q_i, R_i + F_o'S_iF_o, A - B_oF_o, B_i, N = (W_i - F_o'M_i)')
   at the current P_i, and the new P_i is that problem's update of P_i under F_i.  Hence at a fixed point of the
   sweep P_i solves the induced Riccati equation with policy F_i, and C07_lq_stationary_no_better_sequence_partial
   applies: F_i is the LQ best response to F_o *)
Theorem C07_nnash_sweep_best_response :
  forall n k1 k2 (A B1 B2 R1 R2 Q1 Q2 S1 S2 W1 W2 M1 M2 P1 P2 F1 F2 P1' P2' : list (list Q)),
  nnash_sweep n k1 k2 A B1 B2 R1 R2 Q1 Q2 S1 S2 W1 W2 M1 M2 P1 P2 = Some (F1, F2, P1', P2') ->
  let A1 := msub n n A (mmul n k2 n B2 F2) in
  let N1 := mtr n k1 (msub n k1 W1 (mmul n k2 k1 (mtr k2 n F2) M1)) in
  let Rb1 := madd n n R1 (mmul n k2 n (mtr k2 n F2) (mmul k2 k2 n S1 F2)) in
  let A2 := msub n n A (mmul n k1 n B1 F1) in
  let N2 := mtr n k2 (msub n k2 W2 (mmul n k1 k2 (mtr k1 n F1) M2)) in
  let Rb2 := madd n n R2 (mmul n k1 n (mtr k1 n F1) (mmul k1 k1 n S2 F1)) in
  meq k1 n (mmul k1 k1 n (lq_S1 n k1 1 Q1 B1 P1) F1) (lq_S2 n k1 1 A1 B1 N1 P1) /\
  meq k2 n (mmul k2 k2 n (lq_S1 n k2 1 Q2 B2 P2) F2) (lq_S2 n k2 1 A2 B2 N2 P2) /\
  (msym n P1 -> meq n n P1' (madd n n (msub n n Rb1 (mmul n k1 n (mtr k1 n (lq_S2 n k1 1 A1 B1 N1 P1)) F1)) (lq_S3 n 1 A1 P1))) /\
  (msym n P2 -> meq n n P2' (madd n n (msub n n Rb2 (mmul n k2 n (mtr k2 n (lq_S2 n k2 1 A2 B2 N2 P2)) F2)) (lq_S3 n 1 A2 P2))).
Proof. exact nnash_sweep_best_response. Qed.
Print Assumptions C07_nnash_sweep_best_response.

(* RBLQ: b_operator is the LQ update without cross term; d_operator returns P + PC X with (theta I - C'PC) X = (PC)' *)
Theorem C07_rblq_b_operator_is_lq_update : forall n k (beta : Q) (Qm Rm A B P F P' : list (list Q)),
  b_operator n k beta Qm Rm A B P = Some (F, P') ->
  meq k n (mmul k k n (lq_S1 n k beta Qm B P) F) (lq_S2 n k beta A B (mzero k n) P) /\
  meq n n P' (madd n n (msub n n Rm (mmul n k n (mtr k n (lq_S2 n k beta A B (mzero k n) P)) F)) (lq_S3 n beta A P)).
Proof. exact rblq_b_operator_is_lq_update. Qed.
Print Assumptions C07_rblq_b_operator_is_lq_update.

Theorem C07_rblq_d_operator_formula : forall n j (theta : Q) (C P D : list (list Q)),
  d_operator n j theta C P = Some D ->
  exists X, meq j n (mmul j j n (msub j j (mscale j j theta (mid j))
                                      (mmul j n j (mtr n j C) (mmul n n j P C))) X)
                    (mtr n j (mmul n n j P C)) /\
            D = madd n n P (mmul n j n (mmul n n j P C) X).
Proof. exact rblq_d_operator_formula. Qed.
Print Assumptions C07_rblq_d_operator_formula.

(* robust_rule = LQ rule on D(P): if f is the stacked LQ policy computed (by the model's solve) at the value matrix
   P for Ba = [B C], Qa = diag(Q, -beta theta I), and theta I - C'PC has a left inverse, then the top block F of f
   satisfies (Q + beta B'D(P)B) F = beta B'D(P)A with D(P) the d_operator of P.  (That D(P) -> P as theta -> infinity
   is a limit: not proved, oracle only.) *)
Theorem C07_rblq_robust_rule_is_lq_on_DP :
  forall n k j (beta theta : Q) (Qm A B C P f D Tinv : list (list Q)) (d : Q),
  ~ beta == 0 -> msym n P ->
  stationary_from_P n (k + j) 1 beta (rb_Qa k j beta theta Qm) A (rb_Ba n k j B C)
                    (mzero n 1) (mzero (k + j) n) P = Some (f, d) ->
  d_operator n j theta C P = Some D ->
  meq j j (mmul j j j Tinv (msub j j (mscale j j theta (mid j))
                                 (mmul j n j (mtr n j C) (mmul n n j P C)))) (mid j) ->
  meq k n (mmul k k n (lq_S1 n k beta Qm B D) (mblock 0 0 k n f))
          (lq_S2 n k beta A B (mzero k n) D).
Proof. exact rblq_robust_rule_is_lq_on_DP. Qed.
Print Assumptions C07_rblq_robust_rule_is_lq_on_DP.

(* ---- the hypotheses are satisfiable: scalar problem Q = R = A = B = Rf = 1, beta = 1/2, T = 2 *)
Lemma msym_1 (M : list (list Q)) : msym 1 M.
Proof. apply mtr_1x1. Qed.

Example lq_finite_example :
  (exists pols P d, lq_recursion 1 1 1 (1#2) [[1]] [[1]] [[1]] [[1]] [[0]] [[0]] 2 [[1]] 0 [] = Some (pols, P, d)) /\
  (forall t polst Pt dt, (t < 2)%nat ->
      lq_recursion 1 1 1 (1#2) [[1]] [[1]] [[1]] [[1]] [[0]] [[0]] t [[1]] 0 [] = Some (polst, Pt, dt) ->
      forall v, 0 <= qform 1 v (lq_S1 1 1 (1#2) [[1]] [[1]] Pt)).
Proof.
  split.
  - eexists. eexists. eexists. vm_compute. reflexivity.
  - intros t polst Pt dt Ht Hrec v. rewrite qform_1.
    assert (Hsq : 0 <= vget v 0 * vget v 0) by nra.
    destruct t as [|[|t]]; [| |lia]; vm_compute in Hrec; injection Hrec as <- <- <-.
    + assert (E : get (lq_S1 1 1 (1#2) [[1]] [[1]] [[1]]) 0 0 == 3#2) by (vm_compute; reflexivity).
      rewrite E. nra.
    + assert (E : get (lq_S1 1 1 (1#2) [[1]] [[1]] [[4#3]]) 0 0 == 5#3) by (vm_compute; reflexivity).
      rewrite E. nra.
Qed.

(* a stationary example: beta = 1/2, A = B = Q = 1, R = 1/2, N = 0, C = 1: P = 1 solves P = R + beta P - (beta P)^2/(1 + beta P) *)
Example lq_stationary_example :
  let P := [[1]] in let F0 := [[1#3]] in
  meq 1 1 (mmul 1 1 1 (lq_S1 1 1 (1#2) [[1]] [[1]] P) F0) (lq_S2 1 1 (1#2) [[1]] [[1]] [[0]] P) /\
  meq 1 1 P (madd 1 1 (msub 1 1 [[2#3]] (mmul 1 1 1 (mtr 1 1 (lq_S2 1 1 (1#2) [[1]] [[1]] [[0]] P)) F0)) (lq_S3 1 (1#2) [[1]] P)) /\
  stationary_from_P 1 1 1 (1#2) [[1]] [[1]] [[1]] [[1]] [[0]] P <> None.
Proof.
  split; [|split].
  - intros i j Hi Hj. assert (i = 0%nat) by lia. assert (j = 0%nat) by lia. subst. vm_compute. reflexivity.
  - intros i j Hi Hj. assert (i = 0%nat) by lia. assert (j = 0%nat) by lia. subst. vm_compute. reflexivity.
  - vm_compute. discriminate.
Qed.

(* infinite horizon, algebraic core (every dimension): with the stationary P as terminal value no control
   sequence of any length, from any state, costs less than x'Px, and u = -Fx attains x'Px for every T *)
Theorem C07_lq_stationary_no_better_sequence_partial :
  forall (n k : nat) (beta : Q) (Qm Rm A B N P F : list (list Q)),
  msym k Qm -> msym n P -> 0 <= beta ->
  meq k n (mmul k k n (lq_S1 n k beta Qm B P) F) (lq_S2 n k beta A B N P) ->
  meq n n P (madd n n (msub n n Rm (mmul n k n (mtr k n (lq_S2 n k beta A B N P)) F)) (lq_S3 n beta A P)) ->
  (forall v, 0 <= qform k v (lq_S1 n k beta Qm B P)) ->
  (forall us x, qform n x P <= horizon_cost n k beta Qm Rm A B N P x us) /\
  (forall T_ x, horizon_cost n k beta Qm Rm A B N P x (closed_loop_controls n k A B (repeat F T_) x)
                == qform n x P).
Proof.
  intros n k beta Qm Rm A B N P F HQ HP Hb HF Hric Hpsd. split.
  - intros us x. exact (lq_stationary_lower_bound n k beta Qm Rm A B N P F HQ HP Hb HF Hric Hpsd us x).
  - intros T_ x. exact (lq_stationary_rule_attains n k beta Qm Rm A B N P F HQ HP HF Hric T_ x).
Qed.
Print Assumptions C07_lq_stationary_no_better_sequence_partial.

(* infinite horizon with terminal value 0: for any rule G under which the discounted terminal value
   beta^T x_T'P x_T vanishes (true for stabilising G; that implication needs spectral radii and is NOT
   proved -- the oracle checks P_G - P >= 0 on sampled stabilising perturbations), the long-horizon cost
   of G is at least x'Px up to any eps *)
Theorem C07_lq_infinite_horizon_optimal_partial :
  forall (n k : nat) (beta : Q) (Qm Rm A B N P F G : list (list Q)) (x : list Q),
  msym k Qm -> msym n P -> 0 <= beta ->
  meq k n (mmul k k n (lq_S1 n k beta Qm B P) F) (lq_S2 n k beta A B N P) ->
  meq n n P (madd n n (msub n n Rm (mmul n k n (mtr k n (lq_S2 n k beta A B N P)) F)) (lq_S3 n beta A P)) ->
  (forall v, 0 <= qform k v (lq_S1 n k beta Qm B P)) ->
  (forall eps, 0 < eps -> exists T0, forall T_, (T0 <= T_)%nat ->
     horizon_cost n k beta Qm Rm A B N P x (closed_loop_controls n k A B (repeat G T_) x)
     - horizon_cost n k beta Qm Rm A B N (mzero n n) x (closed_loop_controls n k A B (repeat G T_) x) <= eps) ->
  forall eps, 0 < eps -> exists T0, forall T_, (T0 <= T_)%nat ->
     qform n x P - eps
     <= horizon_cost n k beta Qm Rm A B N (mzero n n) x (closed_loop_controls n k A B (repeat G T_) x).
Proof. exact lq_infinite_horizon_optimal. Qed.
Print Assumptions C07_lq_infinite_horizon_optimal_partial.

(* Full infinite-horizon statement, NOT proved: every rule G whose discounted closed loop is stable
   (formulated without eigenvalues: the state it generates is discounted to zero) has vanishing terminal
   value, hence (by the theorem above) cost >= x'Px.  Oracle only; also oracle only: the expectation
   semantics of d under noise and the RBLQ / nnash / LQMarkov statements. *)
Definition C07_lq_stabilising_terminal_vanishes_full : Prop :=
  forall (n k : nat) (beta : Q) (Qm Rm A B N P G : list (list Q)) (x : list Q),
  0 <= beta -> msym n P ->
  (forall eps, 0 < eps -> exists T0, forall T_, (T0 <= T_)%nat ->
     horizon_cost n k beta (mzero k k) (mid n) A B (mzero k n) (mid n) x (closed_loop_controls n k A B (repeat G T_) x)
     - horizon_cost n k beta (mzero k k) (mid n) A B (mzero k n) (mzero n n) x (closed_loop_controls n k A B (repeat G T_) x) <= eps) ->
  forall eps, 0 < eps -> exists T0, forall T_, (T0 <= T_)%nat ->
     horizon_cost n k beta Qm Rm A B N P x (closed_loop_controls n k A B (repeat G T_) x)
     - horizon_cost n k beta Qm Rm A B N (mzero n n) x (closed_loop_controls n k A B (repeat G T_) x) <= eps.

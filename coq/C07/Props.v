(* C07 property theorems: statements only. *)
From Coq Require Import ZArith QArith List Bool.
From QE Require Import Base.Num Base.LinAlg Base.Gauss C07.Model C07.Proofs.
Import ListNotations.

Theorem C07_solve_checked_correct : forall n m (A B X : list (list Q)),
  solve_checked n m A B = Some X -> meq n m (mmul n n m A X) B.
Proof. exact solve_checked_correct. Qed.
Print Assumptions C07_solve_checked_correct.

(* C07 lemmas about the derived solvers (exact over Q, every dimension):
   LQMarkov with identical regimes = LQ update; one nnash sweep = first-order condition and policy-evaluation
   step of each player's induced LQ problem; RBLQ b_operator = LQ update without cross term, d_operator formula. *)
From Coq Require Import ZArith QArith List Bool Lia Lqa Setoid Morphisms.
From QE Require Import Base.Num Base.LinAlg Base.Gauss C06.Model C07.Model C07.ModelDerived C07.Proofs.
Import ListNotations.
Local Open Scope Q_scope.

(* ---------------------------------------------------------------- helpers *)
Lemma omsum_spec r c cnt (F : nat -> option Qmat) S :
  omsum r c cnt F = Some S ->
  exists G, (forall l, (l < cnt)%nat -> F l = Some (G l)) /\ S = msum r c cnt G.
Proof.
  revert S. induction cnt; intros S Hs; simpl in Hs.
  - injection Hs as <-. exists (fun _ => []). split; [intros; lia|reflexivity].
  - destruct (omsum r c cnt F) as [a|] eqn:Ea; [|discriminate].
    destruct (F cnt) as [b|] eqn:Eb; [|discriminate]. injection Hs as <-.
    destruct (IHcnt a eq_refl) as [G [HG ->]].
    exists (fun l => if Nat.eqb l cnt then b else G l). split.
    + intros l Hl. destruct (Nat.eqb l cnt) eqn:E.
      * apply Nat.eqb_eq in E. now subst.
      * apply Nat.eqb_neq in E. apply HG. lia.
    + simpl. rewrite Nat.eqb_refl. f_equal.
      assert (E : forall cnt', (cnt' <= cnt)%nat ->
                  msum r c cnt' G = msum r c cnt' (fun l => if Nat.eqb l cnt then b else G l)).
      { induction cnt'; intros Hle; simpl; [reflexivity|].
        rewrite IHcnt' by lia. destruct (Nat.eqb cnt' cnt) eqn:E; [apply Nat.eqb_eq in E; lia|reflexivity]. }
      apply E. lia.
Qed.

Lemma msum_mscale n m cnt (c : nat -> Q) (M : Qmat) :
  meq n m (msum n m cnt (fun l => mscale n m (c l) M)) (mscale n m (sumQ cnt c) M).
Proof.
  intros i j Hi Hj. rewrite get_msum, get_mscale by assumption.
  rewrite (sumQ_ext cnt _ (fun l => c l * get M i j)) by (intros; now rewrite get_mscale).
  apply sumQ_scale_r.
Qed.

Lemma nth_repeat {X} (x d : X) m i : (i < m)%nat -> nth i (repeat x m) d = x.
Proof. revert i. induction m; intros i Hi; [lia|]. destruct i; simpl; [reflexivity|]. apply IHm. lia. Qed.

(* ================================================================ LQMarkov, identical regimes *)
Section MarkovIdentical.
Variables (m n k : nat) (beta : Q) (Pi Qm Rm A B N P F : Qmat) (Ps : list Qmat).
Hypothesis HQ : msym k Qm.
Hypothesis HP : msym n P.
Hypothesis HPs : forall l, (l < m)%nat -> meq n n (nth l Ps []) P.
Hypothesis HF : meq k n (mmul k k n (lq_S1 n k beta Qm B P) F) (lq_S2 n k beta A B N P).
Notation As := (repeat A m). Notation Bs := (repeat B m). Notation Qs := (repeat Qm m).
Notation Rs := (repeat Rm m). Notation Ns := (repeat N m).
Variable i : nat.
Hypothesis Hi : (i < m)%nat.

Lemma mkM_eq l : (l < m)%nat -> meq k k (mk_M n k beta Bs Qs Ps i l) (lq_S1 n k beta Qm B P).
Proof.
  intros Hl. unfold mk_M, lq_S1, reg. rewrite !nth_repeat by assumption.
  rewrite (HPs l Hl). rewrite mmul_mscale_l, mmul_mscale_l. rewrite mmul_assoc. reflexivity.
Qed.
Lemma mkrhs_eq l : (l < m)%nat -> meq k n (mk_rhs n k beta As Bs Ns Ps i l) (lq_S2 n k beta A B N P).
Proof.
  intros Hl. unfold mk_rhs, lq_S2, reg. rewrite !nth_repeat by assumption.
  rewrite (HPs l Hl). rewrite mmul_mscale_l, mmul_mscale_l. rewrite mmul_assoc. reflexivity.
Qed.
Lemma mkL_eq l : (l < m)%nat -> meq n k (mk_L n k beta As Bs Ns Ps i l) (mtr k n (lq_S2 n k beta A B N P)).
Proof.
  intros Hl. unfold mk_L, lq_S2, reg. rewrite !nth_repeat by assumption.
  rewrite (HPs l Hl). unfold msym in HP.
  rewrite mtr_madd, mtr_mscale.
  rewrite (mtr_mmul k n n (mtr n k B) (mmul n n n P A)). rewrite (mtr_mmul n n n P A).
  rewrite (mtr_mtr n k B). rewrite HP.
  rewrite mmul_mscale_l, mmul_mscale_l. reflexivity.
Qed.

Lemma mk_sum1_eq l : (l < m)%nat ->
  meq n n (mk_sum1_term n beta Pi As Ps i l) (mscale n n (get Pi i l) (lq_S3 n beta A P)).
Proof.
  intros Hl. unfold mk_sum1_term, lq_S3, reg. rewrite !nth_repeat by assumption.
  rewrite (HPs l Hl). rewrite mmul_mscale_l, mmul_mscale_l. rewrite mmul_assoc.
  intros a b Ha Hb. rewrite !get_mscale by assumption. rewrite nmul_Q. ring.
Qed.

Lemma mk_sum2_eq l G : (l < m)%nat ->
  mk_sum2_term n k beta Pi As Bs Qs Ns Ps i l = Some G ->
  meq n n G (mscale n n (get Pi i l) (mmul n k n (mtr k n (lq_S2 n k beta A B N P)) F)).
Proof.
  intros Hl. unfold mk_sum2_term.
  destruct (solve k n _ _) as [X|] eqn:Es; [|discriminate]. intros E. injection E as <-.
  pose proof (solve_correct _ _ _ _ _ Es) as HX.
  rewrite (mkM_eq l Hl), (mkrhs_eq l Hl) in HX.
  rewrite (mkL_eq l Hl). rewrite mmul_mscale_l.
  rewrite (S2F_unique n k beta Qm A B N HQ P F X HP HF HX). reflexivity.
Qed.

Theorem lqmarkov_identical_update d d' P' C jj Pi1 :
  sumQ m (fun l => get Pi i l) == 1 ->
  update_values n k jj beta Qm Rm A B C N P d = Some (F, P', d') ->
  mk_update_regime m n k beta Pi As Bs Qs Rs Ns Ps i = Some Pi1 ->
  meq n n Pi1 P'.
Proof.
  intros Hrow Hupd Hmk.
  unfold update_values in Hupd.
  destruct (solve k n _ _) as [F0|]; [|discriminate]. injection Hupd as -> <- _.
  unfold mk_update_regime in Hmk.
  destruct (omsum n n m _) as [sum2|] eqn:Eo; [|discriminate]. injection Hmk as <-.
  destruct (omsum_spec _ _ _ _ _ Eo) as [G [HG ->]].
  rewrite (msum_ext n n m G (fun l => mscale n n (get Pi i l) (mmul n k n (mtr k n (lq_S2 n k beta A B N P)) F)))
    by (intros l Hl; apply (mk_sum2_eq l (G l) Hl (HG l Hl))).
  rewrite (msum_ext n n m _ (fun l => mscale n n (get Pi i l) (lq_S3 n beta A P)))
    by (intros l Hl; apply (mk_sum1_eq l Hl)).
  rewrite !msum_mscale. rewrite Hrow. rewrite !mscale_one.
  unfold reg. rewrite nth_repeat by assumption. mlin.
Qed.

(* the regime's policy satisfies the LQ policy equation S1 F_i = S2 (row of Pi summing to 1) *)
Theorem lqmarkov_identical_policy Fi :
  sumQ m (fun l => get Pi i l) == 1 ->
  mk_F m n k beta Pi As Bs Qs Ns Ps i = Some Fi ->
  meq k n (mmul k k n (lq_S1 n k beta Qm B P) Fi) (lq_S2 n k beta A B N P).
Proof.
  intros Hrow Hs. unfold mk_F in Hs. pose proof (solve_correct _ _ _ _ _ Hs) as HX.
  unfold reg in HX. rewrite !nth_repeat in HX by assumption.
  assert (E1 : meq k k (msum k k m (fun j => mmul k n k (mmul k n n (mscale k n (nmul beta (get Pi i j)) (mtr n k B))
                                                    (nth j Ps [])) B))
                       (mscale k k beta (mmul k n k (mtr n k B) (mmul n n k P B)))).
  { rewrite (msum_ext k k m _ (fun l => mscale k k (get Pi i l) (mscale k k beta (mmul k n k (mtr n k B) (mmul n n k P B))))).
    - rewrite msum_mscale, Hrow, mscale_one. reflexivity.
    - intros l Hl. rewrite (HPs l Hl). rewrite mmul_mscale_l, mmul_mscale_l, mmul_assoc.
      intros a b Ha Hb. rewrite !get_mscale by assumption. rewrite nmul_Q. ring. }
  assert (E2 : meq k n (msum k n m (fun j => mmul k n n (mmul k n n (mscale k n (nmul beta (get Pi i j)) (mtr n k B))
                                                    (nth j Ps [])) A))
                       (mscale k n beta (mmul k n n (mtr n k B) (mmul n n n P A)))).
  { rewrite (msum_ext k n m _ (fun l => mscale k n (get Pi i l) (mscale k n beta (mmul k n n (mtr n k B) (mmul n n n P A))))).
    - rewrite msum_mscale, Hrow, mscale_one. reflexivity.
    - intros l Hl. rewrite (HPs l Hl). rewrite mmul_mscale_l, mmul_mscale_l, mmul_assoc.
      intros a b Ha Hb. rewrite !get_mscale by assumption. rewrite nmul_Q. ring. }
  rewrite E1, E2 in HX. exact HX.
Qed.
End MarkovIdentical.

(* ================================================================ nnash: one sweep *)
Section NNashPlayer.
(* own control B (n x k), other player's control Bo (n x ko) and rule Fo (ko x n) *)
Variables (n k ko : nat) (A B Bo P Qm W Mx G F Fo : Qmat).
(* Mx : ko x k (the M_i of the code), W : n x k *)
Let Mm := madd k k (mmul k n k (mtr n k B) (mmul n n k P B)) Qm.
Let BP := mmul k n n (mtr n k B) P.
Let Hm := mmul k k n G BP.
Let E := madd k ko (mmul k n ko Hm Bo) (mmul k k ko G (mtr ko k Mx)).
Let J := madd k n (mmul k n n Hm A) (mmul k k n G (mtr n k W)).
Hypothesis HG : meq k k (mmul k k k Mm G) (mid k).
Hypothesis HFeq : meq k n F (msub k n J (mmul k ko n E Fo)).

Lemma nn_MG c (X : Qmat) : meq k c (mmul k k c Mm (mmul k k c G X)) X.
Proof. rewrite <- mmul_assoc. rewrite HG. apply mmul_id_l. Qed.

Lemma nn_ME : meq k ko (mmul k k ko Mm E) (madd k ko (mmul k n ko BP Bo) (mtr ko k Mx)).
Proof.
  unfold E, Hm. rewrite mmul_madd_distr_l.
  rewrite (mmul_assoc k k n ko G BP Bo). rewrite !nn_MG. reflexivity.
Qed.
Lemma nn_MJ : meq k n (mmul k k n Mm J) (madd k n (mmul k n n BP A) (mtr n k W)).
Proof.
  unfold J, Hm. rewrite mmul_madd_distr_l.
  rewrite (mmul_assoc k k n n G BP A). rewrite !nn_MG. reflexivity.
Qed.

Definition nn_Abr := msub n n A (mmul n ko n Bo Fo).
Definition nn_Nbr := mtr n k (msub n k W (mmul n ko k (mtr ko n Fo) Mx)).

(* first-order condition of the induced LQ problem (beta = 1 on the scaled matrices) *)
Lemma nn_foc :
  meq k n (mmul k k n (lq_S1 n k 1 Qm B P) F) (lq_S2 n k 1 nn_Abr B nn_Nbr P).
Proof.
  assert (E1 : meq k k (lq_S1 n k 1 Qm B P) Mm).
  { unfold lq_S1, Mm. rewrite mscale_one. apply madd_comm. }
  rewrite E1. rewrite HFeq. rewrite mmul_msub_distr_l.
  rewrite <- (mmul_assoc k k ko n Mm E Fo). rewrite nn_ME, nn_MJ.
  unfold lq_S2, nn_Abr, nn_Nbr. rewrite mscale_one.
  rewrite <- (mmul_assoc k n n n (mtr n k B) P (msub n n A (mmul n ko n Bo Fo))). fold BP.
  rewrite mmul_msub_distr_l. rewrite <- (mmul_assoc k n ko n BP Bo Fo).
  rewrite mmul_madd_distr_r.
  rewrite (mtr_msub n k W (mmul n ko k (mtr ko n Fo) Mx)).
  rewrite (mtr_mmul n ko k (mtr ko n Fo) Mx). rewrite (mtr_mtr ko n Fo).
  mlin.
Qed.

(* the P update of the sweep is the LQ update of the induced problem evaluated at (P, F) *)
Lemma nn_Pupdate (Rbr : Qmat) :
  msym n P ->
  meq n n
    (msub n n (madd n n (mmul n n n (mtr n n nn_Abr) (mmul n n n P nn_Abr)) Rbr)
          (mmul n k n (msub n k (madd n k (mmul n n k (mtr n n nn_Abr) (mmul n n k P B)) W)
                            (mmul n ko k (mtr ko n Fo) Mx)) F))
    (lq_newP n k 1 Rbr nn_Abr B nn_Nbr P F).
Proof.
  intros HP. unfold msym in HP. unfold lq_newP, lq_S2, lq_S3. rewrite !mscale_one.
  assert (E1 : meq n k (mtr k n (madd k n (mmul k n n (mtr n k B) (mmul n n n P nn_Abr)) nn_Nbr))
                       (msub n k (madd n k (mmul n n k (mtr n n nn_Abr) (mmul n n k P B)) W)
                             (mmul n ko k (mtr ko n Fo) Mx))).
  { rewrite mtr_madd. unfold nn_Nbr. rewrite (mtr_mtr n k (msub n k W (mmul n ko k (mtr ko n Fo) Mx))).
    rewrite (mtr_mmul k n n (mtr n k B) (mmul n n n P nn_Abr)).
    rewrite (mtr_mmul n n n P nn_Abr). rewrite (mtr_mtr n k B). rewrite HP.
    rewrite (mmul_assoc n n n k (mtr n n nn_Abr) P B). mlin. }
  rewrite E1. mlin.
Qed.
End NNashPlayer.

Theorem nnash_sweep_best_response n k1 k2 (A B1 B2 R1 R2 Q1 Q2 S1 S2 W1 W2 M1 M2 P1 P2 F1 F2 P1' P2' : Qmat) :
  nnash_sweep n k1 k2 A B1 B2 R1 R2 Q1 Q2 S1 S2 W1 W2 M1 M2 P1 P2 = Some (F1, F2, P1', P2') ->
  let A1 := nn_Abr n k2 A B2 F2 in let N1 := nn_Nbr n k1 k2 W1 M1 F2 in
  let Rb1 := madd n n R1 (mmul n k2 n (mtr k2 n F2) (mmul k2 k2 n S1 F2)) in
  let A2 := nn_Abr n k1 A B1 F1 in let N2 := nn_Nbr n k2 k1 W2 M2 F1 in
  let Rb2 := madd n n R2 (mmul n k1 n (mtr k1 n F1) (mmul k1 k1 n S2 F1)) in
  meq k1 n (mmul k1 k1 n (lq_S1 n k1 1 Q1 B1 P1) F1) (lq_S2 n k1 1 A1 B1 N1 P1) /\
  meq k2 n (mmul k2 k2 n (lq_S1 n k2 1 Q2 B2 P2) F2) (lq_S2 n k2 1 A2 B2 N2 P2) /\
  (msym n P1 -> meq n n P1' (lq_newP n k1 1 Rb1 A1 B1 N1 P1 F1)) /\
  (msym n P2 -> meq n n P2' (lq_newP n k2 1 Rb2 A2 B2 N2 P2 F2)).
Proof.
  unfold nnash_sweep, nn_G1, nn_G2.
  destruct (solve k2 k2 _ _) as [G2|] eqn:EG2; [|discriminate].
  destruct (solve k1 k1 _ _) as [G1|] eqn:EG1; [|discriminate].
  pose proof (solve_correct _ _ _ _ _ EG2) as HG2. pose proof (solve_correct _ _ _ _ _ EG1) as HG1.
  cbv zeta.
  destruct (solve k1 n _ _) as [F1s|] eqn:EF1; [|discriminate].
  pose proof (solve_correct _ _ _ _ _ EF1) as HF1.
  intros E. injection E as -> <- <- <-.
  set (H2 := mmul k2 k2 n G2 (mmul k2 n n (mtr n k2 B2) P2)) in *.
  set (H1 := mmul k1 k1 n G1 (mmul k1 n n (mtr n k1 B1) P1)) in *.
  set (E1 := madd k1 k2 (mmul k1 n k2 H1 B2) (mmul k1 k1 k2 G1 (mtr k2 k1 M1))) in *.
  set (E2 := madd k2 k1 (mmul k2 n k1 H2 B1) (mmul k2 k2 k1 G2 (mtr k1 k2 M2))) in *.
  set (J1 := madd k1 n (mmul k1 n n H1 A) (mmul k1 k1 n G1 (mtr n k1 W1))) in *.
  set (J2 := madd k2 n (mmul k2 n n H2 A) (mmul k2 k2 n G2 (mtr n k2 W2))) in *.
  set (F2 := msub k2 n J2 (mmul k2 k1 n E2 F1)) in *.
  (* player 1's rule in the form F1 = J1 - E1 F2 *)
  assert (HF1' : meq k1 n F1 (msub k1 n J1 (mmul k1 k2 n E1 F2))).
  { rewrite mmul_msub_distr_r in HF1. rewrite mmul_id_l in HF1.
    unfold F2. rewrite mmul_msub_distr_l. rewrite <- (mmul_assoc k1 k2 k1 n E1 E2 F1).
    intros a b Ha Hb. specialize (HF1 a b Ha Hb).
    rewrite !get_msub in * by assumption. lra. }
  assert (HF2' : meq k2 n F2 (msub k2 n J2 (mmul k2 k1 n E2 F1))) by reflexivity.
  cbv zeta. split; [|split; [|split]].
  - exact (nn_foc n k1 k2 A B1 B2 P1 Q1 W1 M1 G1 F1 F2 HG1 HF1').
  - exact (nn_foc n k2 k1 A B2 B1 P2 Q2 W2 M2 G2 F2 F1 HG2 HF2').
  - intros HP. apply (nn_Pupdate n k1 k2 A B1 B2 P1 W1 M1 F1 F2 _ HP).
  - intros HP. apply (nn_Pupdate n k2 k1 A B2 B1 P2 W2 M2 F2 F1 _ HP).
Qed.

(* ================================================================ RBLQ operators *)
(* b_operator is the LQ update without cross term *)
Theorem rblq_b_operator_is_lq_update n k (beta : Q) (Qm Rm A B P F P' : Qmat) :
  b_operator n k beta Qm Rm A B P = Some (F, P') ->
  meq k n (mmul k k n (lq_S1 n k beta Qm B P) F) (lq_S2 n k beta A B (mzero k n) P) /\
  meq n n P' (lq_newP n k beta Rm A B (mzero k n) P F).
Proof.
  unfold b_operator. destruct (solve k n _ _) as [F0|] eqn:Es; [|discriminate].
  intros E. injection E as -> <-. pose proof (solve_correct _ _ _ _ _ Es) as HX.
  assert (E2 : meq k n (lq_S2 n k beta A B (mzero k n) P)
                       (mscale k n beta (mmul k n n (mtr n k B) (mmul n n n P A)))).
  { unfold lq_S2. apply madd_zero_r. }
  split.
  - rewrite E2. exact HX.
  - unfold lq_newP. rewrite E2. reflexivity.
Qed.

(* D(P) = P + P C X with (theta I - C'PC) X = (P C)' : D(P) = P + PC (theta I - C'PC)^-1 C'P *)
Theorem rblq_d_operator_formula n j (theta : Q) (C P D : Qmat) :
  d_operator n j theta C P = Some D ->
  exists X, meq j n (mmul j j n (msub j j (mscale j j theta (mid j))
                                      (mmul j n j (mtr n j C) (mmul n n j P C))) X)
                    (mtr n j (mmul n n j P C)) /\
            D = madd n n P (mmul n j n (mmul n n j P C) X).
Proof.
  unfold d_operator. destruct (solve j n _ _) as [X|] eqn:Es; [|discriminate].
  intros E. injection E as <-. exists X. split; [apply (solve_correct _ _ _ _ _ Es)|reflexivity].
Qed.

(* ================================================================ RBLQ: the robust rule is the LQ rule on D(P) *)
Ltac mexp2 := repeat (rewrite mmul_madd_distr_l || rewrite mmul_madd_distr_r
                      || rewrite mmul_msub_distr_l || rewrite mmul_msub_distr_r
                      || rewrite mmul_mscale_l || rewrite mmul_mscale_r
                      || rewrite mmul_mneg_l || rewrite mmul_mneg_r
                      || rewrite mmul_assoc || rewrite mmul_id_l || rewrite mmul_id_r).

Section RobustSchur.
Variables (n k j : nat) (beta theta : Q) (Qm A B C P F K X Tinv : Qmat).
Let Ct := mtr n j C.
Let Bt := mtr n k B.
Let PC := mmul n n j P C.
Let Tm := msub j j (mscale j j theta (mid j)) (mmul j n j Ct PC).
Hypothesis HP : msym n P.
Hypothesis HX : meq j n (mmul j j n Tm X) (mtr n j PC).          (* d_operator's solve *)
Hypothesis HTinv : meq j j (mmul j j j Tinv Tm) (mid j).           (* theta I - C'PC is invertible *)
(* the two block rows of the stacked first-order condition (bottom row divided by beta) *)
Hypothesis E1 : meq k n (msub k n (mmul k k n (madd k k Qm (mscale k k beta (mmul k n k Bt (mmul n n k P B)))) F)
                              (mscale k n beta (mmul k j n (mmul k n j Bt PC) K)))
                        (mscale k n beta (mmul k n n Bt (mmul n n n P A))).
Hypothesis E2 : meq j n (mmul j j n Tm K) (mmul j n n Ct (mmul n n n P (msub n n A (mmul n k n B F)))).
Let D := madd n n P (mmul n j n PC X).

Lemma rb_K : meq j n K (mmul j n n X (msub n n A (mmul n k n B F))).
Proof.
  assert (E : meq j n (mmul j j n Tm (mmul j n n X (msub n n A (mmul n k n B F)))) (mmul j j n Tm K)).
  { rewrite <- (mmul_assoc j j n n Tm X). rewrite HX. rewrite E2.
    unfold PC. rewrite (mtr_mmul n n j P C). unfold msym in HP. rewrite HP. fold Ct.
    apply mmul_assoc. }
  transitivity (mmul j j n (mmul j j j Tinv Tm) K).
  - rewrite HTinv. now rewrite mmul_id_l.
  - rewrite (mmul_assoc j j j n Tinv Tm K). rewrite <- E.
    rewrite <- (mmul_assoc j j j n Tinv Tm). rewrite HTinv. now rewrite mmul_id_l.
Qed.

Theorem rblq_rule_is_lq_on_DP :
  meq k n (mmul k k n (lq_S1 n k beta Qm B D) F) (lq_S2 n k beta A B (mzero k n) D).
Proof.
  unfold lq_S1, lq_S2. fold Bt.
  assert (EK : meq k n (mmul k j n (mmul k n j Bt PC) K)
                       (msub k n (mmul k n n Bt (mmul n j n PC (mmul j n n X A)))
                                 (mmul k n n Bt (mmul n j n PC (mmul j n n X (mmul n k n B F)))))).
  { rewrite rb_K. mexp2. reflexivity. }
  rewrite EK in E1. revert E1. unfold D. mexp2. intros E.
  intros a b Ha Hb. specialize (E a b Ha Hb). revert E. mat_entries. intros E. lra.
Qed.
End RobustSchur.

(* ---- block structure of the stacked problem of robust_rule *)
Lemma sumQ_split a b f : sumQ (a + b) f == sumQ a f + sumQ b (fun l => f (a + l)%nat).
Proof.
  induction b.
  - rewrite Nat.add_0_r. simpl. ring.
  - rewrite Nat.add_succ_r. simpl. rewrite IHb. ring.
Qed.

Lemma get_mblock r0 c0 n m (A : Qmat) i j : (i < n)%nat -> (j < m)%nat ->
  get (mblock r0 c0 n m A) i j = get A (r0 + i) (c0 + j).
Proof. intros. unfold mblock. now rewrite get_mk. Qed.

(* rows [r0, r0+a) of M f, M : (r x (a1+b1)), f : ((a1+b1) x c) *)
Lemma mmul_block_rows r0 a a1 b1 c r (M f : Qmat) : (r0 + a <= r)%nat ->
  meq a c (mblock r0 0 a c (mmul r (a1 + b1) c M f))
          (madd a c (mmul a a1 c (mblock r0 0 a a1 M) (mblock 0 0 a1 c f))
                    (mmul a b1 c (mblock r0 a1 a b1 M) (mblock a1 0 b1 c f))).
Proof.
  intros Hr i j Hi Hj. rewrite get_mblock by assumption. rewrite get_mmul by lia.
  rewrite get_madd, !get_mmul by assumption. rewrite sumQ_split.
  apply Qplus_comp; apply sumQ_ext; intros l Hl; rewrite !get_mblock by assumption; simpl; reflexivity.
Qed.

Section RobustBlocks.
Variables (n k j : nat) (beta theta : Q) (Qm A B C P f : Qmat).
Let Ba := rb_Ba n k j B C.
Let Qa := rb_Qa k j beta theta Qm.
Let Ct := mtr n j C.
Let Bt := mtr n k B.
Let S1a := lq_S1 n (k + j) beta Qa Ba P.
Let S2a := lq_S2 n (k + j) beta A Ba (mzero (k + j) n) P.

Lemma get_Ba_l a i : (a < n)%nat -> (i < k)%nat -> get Ba a i = get B a i.
Proof.
  intros. unfold Ba, rb_Ba, mhcat. rewrite get_mk by lia.
  assert (E : Nat.ltb i k = true) by (apply Nat.ltb_lt; lia). now rewrite E.
Qed.
Lemma get_Ba_r a i : (a < n)%nat -> (i < j)%nat -> get Ba a (k + i) = get C a i.
Proof.
  intros. unfold Ba, rb_Ba, mhcat. rewrite get_mk by lia.
  assert (E : Nat.ltb (k + i) k = false) by (apply Nat.ltb_ge; lia). rewrite E. f_equal. lia.
Qed.

(* (Ba' (P M))_{il} by blocks of rows of Ba' *)
Lemma BaPM_top m (M : Qmat) i l : (i < k)%nat -> (l < m)%nat ->
  get (mmul (k + j) n m (mtr n (k + j) Ba) M) i l == get (mmul k n m Bt M) i l.
Proof.
  intros. rewrite !get_mmul by lia. apply sumQ_ext; intros a Ha.
  unfold Bt. rewrite !get_mtr by lia. now rewrite get_Ba_l.
Qed.
Lemma BaPM_bot m (M : Qmat) i l : (i < j)%nat -> (l < m)%nat ->
  get (mmul (k + j) n m (mtr n (k + j) Ba) M) (k + i) l == get (mmul j n m Ct M) i l.
Proof.
  intros. rewrite !get_mmul by lia. apply sumQ_ext; intros a Ha.
  unfold Ct. rewrite !get_mtr by lia. now rewrite get_Ba_r.
Qed.
Lemma PBa_l a l : (a < n)%nat -> (l < k)%nat ->
  get (mmul n n (k + j) P Ba) a l == get (mmul n n k P B) a l.
Proof. intros. rewrite !get_mmul by lia. apply sumQ_ext; intros b Hb. now rewrite get_Ba_l. Qed.
Lemma PBa_r a l : (a < n)%nat -> (l < j)%nat ->
  get (mmul n n (k + j) P Ba) a (k + l) == get (mmul n n j P C) a l.
Proof. intros. rewrite !get_mmul by lia. apply sumQ_ext; intros b Hb. now rewrite get_Ba_r. Qed.

Lemma get_Qa_tl i l : (i < k)%nat -> (l < k)%nat -> get Qa i l == get Qm i l.
Proof.
  intros. unfold Qa, rb_Qa, mvcat, mhcat. rewrite get_mk by lia.
  assert (E : Nat.ltb i k = true) by (apply Nat.ltb_lt; lia). rewrite E. rewrite get_mk by lia.
  assert (E2 : Nat.ltb l k = true) by (apply Nat.ltb_lt; lia). now rewrite E2.
Qed.
Lemma get_Qa_tr i l : (i < k)%nat -> (l < j)%nat -> get Qa i (k + l) == 0.
Proof.
  intros. unfold Qa, rb_Qa, mvcat, mhcat. rewrite get_mk by lia.
  assert (E : Nat.ltb i k = true) by (apply Nat.ltb_lt; lia). rewrite E. rewrite get_mk by lia.
  assert (E2 : Nat.ltb (k + l) k = false) by (apply Nat.ltb_ge; lia). rewrite E2.
  apply get_mzero; lia.
Qed.
Lemma get_Qa_bl i l : (i < j)%nat -> (l < k)%nat -> get Qa (k + i) l == 0.
Proof.
  intros. unfold Qa, rb_Qa, mvcat, mhcat. rewrite get_mk by lia.
  assert (E : Nat.ltb (k + i) k = false) by (apply Nat.ltb_ge; lia). rewrite E. rewrite get_mk by lia.
  assert (E2 : Nat.ltb l k = true) by (apply Nat.ltb_lt; lia). rewrite E2.
  apply get_mzero; lia.
Qed.
Lemma get_Qa_br i l : (i < j)%nat -> (l < j)%nat ->
  get Qa (k + i) (k + l) == - (beta * theta) * (if Nat.eqb i l then 1 else 0).
Proof.
  intros. unfold Qa, rb_Qa, mvcat, mhcat. rewrite get_mk by lia.
  assert (E : Nat.ltb (k + i) k = false) by (apply Nat.ltb_ge; lia). rewrite E. rewrite get_mk by lia.
  assert (E2 : Nat.ltb (k + l) k = false) by (apply Nat.ltb_ge; lia). rewrite E2.
  replace (k + i - k)%nat with i by lia. replace (k + l - k)%nat with l by lia.
  rewrite !get_mscale, get_mid by assumption. rewrite nneg_Q. ring.
Qed.

Hypothesis Hst : meq (k + j) n (mmul (k + j) (k + j) n S1a f) S2a.
Let F := mblock 0 0 k n f.
Let K := mneg j n (mblock k 0 j n f).
Let PC := mmul n n j P C.
Let Tm := msub j j (mscale j j theta (mid j)) (mmul j n j Ct PC).

(* top block row: (Q + beta B'PB) F - beta B'PC K = beta B'PA *)
Lemma rb_top :
  meq k n (msub k n (mmul k k n (madd k k Qm (mscale k k beta (mmul k n k Bt (mmul n n k P B)))) F)
                    (mscale k n beta (mmul k j n (mmul k n j Bt PC) K)))
          (mscale k n beta (mmul k n n Bt (mmul n n n P A))).
Proof.
  pose proof (mmul_block_rows 0 k k j n (k + j) S1a f ltac:(lia)) as Hb.
  intros i c Hi Hc. specialize (Hb i c Hi Hc).
  rewrite get_mblock in Hb by assumption. simpl plus in Hb. rewrite (Hst i c ltac:(lia) Hc) in Hb.
  (* right-hand side *)
  assert (ER : get S2a i c == get (mscale k n beta (mmul k n n Bt (mmul n n n P A))) i c).
  { unfold S2a, lq_S2. rewrite get_madd, get_mzero, !get_mscale by lia.
    rewrite (BaPM_top n (mmul n n n P A) i c Hi Hc). ring. }
  rewrite ER in Hb. rewrite Hb. clear Hb ER.
  rewrite get_msub, get_madd, get_mscale, !get_mmul by assumption.
  assert (T1 : sumQ k (fun l => get (mblock 0 0 k k S1a) i l * get (mblock 0 0 k n f) l c)
               == sumQ k (fun l => get (madd k k Qm (mscale k k beta (mmul k n k Bt (mmul n n k P B)))) i l * get F l c)).
  { apply sumQ_ext; intros l Hl. apply Qmult_comp; [|reflexivity].
    rewrite get_mblock by assumption. simpl plus. unfold S1a, lq_S1.
    rewrite !get_madd, !get_mscale by lia. rewrite (get_Qa_tl i l Hi Hl).
    rewrite (BaPM_top (k + j) (mmul n n (k + j) P Ba) i l Hi ltac:(lia)).
    rewrite !get_mmul by lia.
    apply Qplus_comp; [reflexivity|]. apply Qmult_comp; [reflexivity|].
    apply sumQ_ext; intros a Ha. now rewrite (PBa_l a l Ha Hl). }
  assert (T2 : sumQ j (fun l => get (mblock 0 k k j S1a) i l * get (mblock k 0 j n f) l c)
               == - (beta * sumQ j (fun l => get (mmul k n j Bt PC) i l * get K l c))).
  { rewrite <- sumQ_scale_l, <- sumQ_opp. apply sumQ_ext; intros l Hl.
    rewrite get_mblock by assumption. simpl plus. unfold S1a, lq_S1.
    rewrite get_madd, get_mscale by lia. rewrite (get_Qa_tr i l Hi Hl).
    rewrite (BaPM_top (k + j) (mmul n n (k + j) P Ba) i (k + l) Hi ltac:(lia)).
    unfold K. rewrite get_mneg by assumption.
    assert (E : get (mmul k n (k + j) Bt (mmul n n (k + j) P Ba)) i (k + l) == get (mmul k n j Bt PC) i l).
    { rewrite !get_mmul by lia. apply sumQ_ext; intros a Ha. unfold PC. now rewrite (PBa_r a l Ha Hl). }
    rewrite E. ring. }
  rewrite T1, T2. ring.
Qed.

(* bottom block row, a common factor beta left in: beta (theta I - C'PC) K = beta C'P(A - BF) *)
Lemma rb_bottom :
  meq j n (mscale j n beta (mmul j j n Tm K))
          (mscale j n beta (mmul j n n Ct (mmul n n n P (msub n n A (mmul n k n B F))))).
Proof.
  pose proof (mmul_block_rows k j k j n (k + j) S1a f ltac:(lia)) as Hb.
  intros i c Hi Hc. specialize (Hb i c Hi Hc).
  rewrite get_mblock in Hb by assumption. replace (0 + c)%nat with c in Hb by lia.
  rewrite (Hst (k + i)%nat c ltac:(lia) Hc) in Hb.
  assert (ER : get S2a (k + i) c == beta * get (mmul j n n Ct (mmul n n n P A)) i c).
  { unfold S2a, lq_S2. rewrite get_madd, get_mzero, !get_mscale by lia.
    rewrite (BaPM_bot n (mmul n n n P A) i c Hi Hc). ring. }
  rewrite ER in Hb. clear ER.
  rewrite get_madd, !get_mmul in Hb by assumption.
  assert (T1 : sumQ k (fun l => get (mblock k 0 j k S1a) i l * get (mblock 0 0 k n f) l c)
               == beta * get (mmul j n n Ct (mmul n n n P (mmul n k n B F))) i c).
  { rewrite (sumQ_ext k _ (fun l => beta * (get (mmul j n k Ct (mmul n n k P B)) i l * get F l c))).
    - rewrite sumQ_scale_l. apply Qmult_comp; [reflexivity|].
      assert (EM : meq j n (mmul j k n (mmul j n k Ct (mmul n n k P B)) F)
                           (mmul j n n Ct (mmul n n n P (mmul n k n B F))))
        by (rewrite mmul_assoc, mmul_assoc; reflexivity).
      rewrite <- (EM i c Hi Hc). rewrite get_mmul by assumption. reflexivity.
    - intros l Hl. rewrite get_mblock by assumption. replace (0 + l)%nat with l by lia.
      unfold S1a, lq_S1. rewrite get_madd, get_mscale by lia. rewrite (get_Qa_bl i l Hi Hl).
      rewrite (BaPM_bot (k + j) (mmul n n (k + j) P Ba) i l Hi ltac:(lia)).
      assert (E : get (mmul j n (k + j) Ct (mmul n n (k + j) P Ba)) i l == get (mmul j n k Ct (mmul n n k P B)) i l).
      { rewrite !get_mmul by lia. apply sumQ_ext; intros a Ha. now rewrite (PBa_l a l Ha Hl). }
      rewrite E. unfold F. ring. }
  assert (T2 : sumQ j (fun l => get (mblock k k j j S1a) i l * get (mblock k 0 j n f) l c)
               == beta * get (mmul j j n Tm K) i c).
  { rewrite get_mmul by assumption. rewrite <- sumQ_scale_l. apply sumQ_ext; intros l Hl.
    rewrite get_mblock by assumption.
    unfold S1a, lq_S1. rewrite get_madd, get_mscale by lia. rewrite (get_Qa_br i l Hi Hl).
    rewrite (BaPM_bot (k + j) (mmul n n (k + j) P Ba) i (k + l) Hi ltac:(lia)).
    assert (E : get (mmul j n (k + j) Ct (mmul n n (k + j) P Ba)) i (k + l) == get (mmul j n j Ct PC) i l).
    { rewrite !get_mmul by lia. apply sumQ_ext; intros a Ha. unfold PC. now rewrite (PBa_r a l Ha Hl). }
    rewrite E. unfold Tm, K. rewrite get_msub, get_mscale, get_mid, get_mneg by assumption. ring. }
  rewrite T1, T2 in Hb.
  rewrite !get_mscale by assumption.
  assert (EAm : meq j n (mmul j n n Ct (mmul n n n P (msub n n A (mmul n k n B F))))
                        (msub j n (mmul j n n Ct (mmul n n n P A)) (mmul j n n Ct (mmul n n n P (mmul n k n B F)))))
    by (rewrite mmul_msub_distr_l, mmul_msub_distr_l; reflexivity).
  pose proof (EAm i c Hi Hc) as EA. rewrite get_msub in EA by assumption.
  rewrite EA.
  assert (Ey : sumQ n (fun l => get Ct i l * get (mmul n n n P A) l c) == get (mmul j n n Ct (mmul n n n P A)) i c)
    by (symmetry; apply get_mmul; assumption).
  rewrite Ey in Hb.
  setoid_replace (beta * (get (mmul j n n Ct (mmul n n n P A)) i c - get (mmul j n n Ct (mmul n n n P (mmul n k n B F))) i c))
    with (beta * get (mmul j n n Ct (mmul n n n P A)) i c - beta * get (mmul j n n Ct (mmul n n n P (mmul n k n B F))) i c) by ring.
  lra.
Qed.
End RobustBlocks.

(* robust_rule's F (top block of the stacked LQ policy at the value matrix P) is the LQ rule on D(P) *)
Theorem rblq_robust_rule_is_lq_on_DP n k j (beta theta : Q) (Qm A B C P f D Tinv : Qmat) (d : Q) :
  ~ beta == 0 -> msym n P ->
  stationary_from_P n (k + j) 1 beta (rb_Qa k j beta theta Qm) A (rb_Ba n k j B C)
                    (mzero n 1) (mzero (k + j) n) P = Some (f, d) ->
  d_operator n j theta C P = Some D ->
  meq j j (mmul j j j Tinv (msub j j (mscale j j theta (mid j))
                                 (mmul j n j (mtr n j C) (mmul n n j P C)))) (mid j) ->
  meq k n (mmul k k n (lq_S1 n k beta Qm B D) (mblock 0 0 k n f))
          (lq_S2 n k beta A B (mzero k n) D).
Proof.
  intros Hb HP Hst Hd HT.
  unfold stationary_from_P in Hst.
  destruct (solve (k + j) n _ _) as [f0|] eqn:Es; [|discriminate]. injection Hst as -> _.
  pose proof (solve_correct _ _ _ _ _ Es) as Hfoc.
  unfold d_operator in Hd. destruct (solve j n _ _) as [X|] eqn:Ed; [|discriminate]. injection Hd as <-.
  pose proof (solve_correct _ _ _ _ _ Ed) as HX.
  pose proof (rb_top n k j beta theta Qm A B C P f Hfoc) as E1.
  pose proof (rb_bottom n k j beta theta Qm A B C P f Hfoc) as E2b.
  assert (E2 : meq j n (mmul j j n (msub j j (mscale j j theta (mid j)) (mmul j n j (mtr n j C) (mmul n n j P C)))
                             (mneg j n (mblock k 0 j n f)))
                       (mmul j n n (mtr n j C) (mmul n n n P (msub n n A (mmul n k n B (mblock 0 0 k n f)))))).
  { intros a b Ha Hb'. specialize (E2b a b Ha Hb'). rewrite !get_mscale in E2b by assumption.
    apply (Qmult_inj_l _ _ beta); assumption. }
  exact (rblq_rule_is_lq_on_DP n k j beta theta Qm A B C P (mblock 0 0 k n f) (mneg j n (mblock k 0 j n f)) X Tinv
           HP HX HT E1 E2).
Qed.

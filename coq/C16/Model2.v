(* C16 model, part 2 (separate file so that the many importers of C16/Model.v are not rebuilt):
   numpy.linspace (endpoint=True, scalar start/stop) and quantecon._gridtools.mlinspace.
   Executable definitions only, generic over Num (Q: theorems; float: bit-exact runs). *)
From Coq Require Import ZArith List Bool.
From QE Require Import Base.Num C16.Model.
Import ListNotations.
Open Scope Z_scope.

Section Linspace.
Context {T : Type} `{Num T}.

(* the float/rational value of a small non-negative integer (exact in binary64 below 2^53) *)
Fixpoint nofnat (j : nat) : T :=
  match j with O => nzero | S j' => nadd (nofnat j') none_ end.

(* np.linspace(a, b, n): div = n-1; step = (b-a)/div; y = arange(n)*step + a; y[-1] = b.
   (numpy's step == 0 branch computes arange(n)/div*(b-a) + a, the same values: all equal to a.)
   n = 1: [a]; n = 0: empty (negative n raises in numpy; modelled as empty, excluded by the theorems' guard) *)
Definition linspace (a b : T) (n : Z) : list T :=
  if n <=? 0 then []
  else if n =? 1 then [a]
  else let step := ndiv (nsub b a) (nofnat (Z.to_nat (n - 1))) in
       map (fun j => nadd (nmul (nofnat (Z.to_nat j)) step) a) (zrange (n - 1)) ++ [b].

(* nodes = [np.linspace(a[i], b[i], nums[i]) for i in range(len(nums))]; return cartesian(nodes, order) *)
Definition linspace_nodes (a b : list T) (nums : list Z) : list (list T) :=
  map (fun abn => linspace (fst (fst abn)) (snd (fst abn)) (snd abn)) (combine (combine a b) nums).

Definition mlinspace (orderF : bool) (a b : list T) (nums : list Z) : list (list T) :=
  cartesian nzero orderF (linspace_nodes a b nums).
End Linspace.

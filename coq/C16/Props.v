(* C16 property theorems: statements only, each closed by `exact`, with Print Assumptions. *)
From Coq Require Import ZArith QArith Qabs List Bool Lia.
From QE Require Import Base.Num C16.Model C16.Model2 C16.Proofs C16.Proofs2 C16.Proofs3 C16.Proofs4 C16.Proofs5 C16.Proofs6 C16.Proofs7 C16.Proofs8.
Import ListNotations.
Open Scope Z_scope.

Theorem C16_comb_jit_spec : forall N k,
  0 <= N <= INTP_MAX -> 0 <= k <= N ->
  (k = 0 -> comb_jit N k = 1) /\
  (k = 1 -> comb_jit N k = N) /\
  (2 <= k -> N = INTP_MAX -> comb_jit N k = 0) /\
  (2 <= k -> N < INTP_MAX ->
     (comb_overflows N k /\ comb_jit N k = 0) \/
     (~ comb_overflows N k /\ comb_jit N k = binomZ N k)).
Proof. exact comb_jit_spec. Qed.
Print Assumptions C16_comb_jit_spec.

Theorem C16_comb_jit_exact : forall N k,
  0 <= N <= INTP_MAX -> 0 <= k <= N -> comb_jit N k <> 0 -> comb_jit N k = binomZ N k.
Proof. exact comb_jit_exact. Qed.
Print Assumptions C16_comb_jit_exact.

(* ================= combinatorial number system (Proofs2.v) =================
   sincr a        : a is strictly increasing
   k_array k a    : length a = k, 1 <= k, sincr a, 0 <= a[0]   (the arrays next_k_array / k_array_rank are defined for) *)

(* next_k_array is the successor in the combinatorial number system *)
Theorem C16_next_k_array_succ : forall k a, k_array k a ->
  k_array k (next_k_array a) /\ k_array_rank (next_k_array a) = k_array_rank a + 1.
Proof. exact next_k_array_succ. Qed.
Print Assumptions C16_next_k_array_succ.

(* C(a[k-1], k) <= rank a < C(a[k-1]+1, k) *)
Theorem C16_rank_bounds : forall k a, k_array k a ->
  binomZ (last a 0) (Z.of_nat k) <= k_array_rank a < binomZ (last a 0 + 1) (Z.of_nat k).
Proof. exact rank_bounds. Qed.
Print Assumptions C16_rank_bounds.

Theorem C16_rank_lt_iff : forall k a n, k_array k a ->
  (k_array_rank a < binomZ n (Z.of_nat k) <-> last a 0 < n).
Proof. exact rank_lt_iff. Qed.
Print Assumptions C16_rank_lt_iff.

Theorem C16_rank_injective : forall k a b, k_array k a -> k_array k b ->
  k_array_rank a = k_array_rank b -> a = b.
Proof. exact rank_injective. Qed.
Print Assumptions C16_rank_injective.

(* a = arange(k); while a[k-1] < n: visit a; next_k_array(a)   -- with fuel > C(n,k) the model's walk
   stops by its own test; it lists exactly the k-subsets of {0..n-1}, once each, the i-th having rank i *)
Theorem C16_k_walk_enumerates : forall k n fuel, (1 <= k)%nat ->
  (Z.to_nat (binomZ n (Z.of_nat k)) < fuel)%nat ->
  let w := k_walk fuel n (zrange (Z.of_nat k)) in
  map k_array_rank w = zrange (binomZ n (Z.of_nat k)) /\
  (forall a, In a w <-> k_array k a /\ last a 0 < n) /\
  NoDup w.
Proof. exact k_walk_enumerates. Qed.
Print Assumptions C16_k_walk_enumerates.

(* rank_jit_guard i l : every entry x at position j >= i satisfies x < INTP_MAX and, when j+1 <= x,
   ~ comb_overflows x (j+1)  (no product formed by comb_jit(x, j+1) exceeds INTP_MAX) *)
Theorem C16_k_array_rank_jit_eq : forall a,
  rank_jit_guard 1 (tl a) -> k_array_rank_jit a = k_array_rank a.
Proof. exact k_array_rank_jit_eq. Qed.
Print Assumptions C16_k_array_rank_jit_eq.

Example C16_k_array_example : k_array 3 [0; 2; 5] /\ next_k_array [0; 2; 5] = [1; 2; 5] /\
  k_array 3 [1; 2; 5] /\ next_k_array [1; 2; 5] = [0; 3; 5].
Proof. unfold k_array. cbn. repeat split; lia. Qed.

Example C16_rank_jit_guard_example : rank_jit_guard 1 (tl [0; 2; 5]).
Proof.
  cbn. unfold INTP_MAX. repeat split; try lia; intros _ (j & Hj & H); cbn in Hj;
    assert (D : (j = 1 \/ j = 2)%nat) by lia; destruct D; subst j; vm_compute in H; discriminate.
Qed.

(* ================= cartesian products (Proofs3.v) =================
   shapes_of nodes   : the grid sizes;   in_range is ns : 0 <= is[j] < ns[j] for all j (same length)
   mixed_radix is ns : sum_j is[j] * prod(ns[j+1..])  (most significant digit first)
   digits ns l       : [(l / prod(ns[j+1..])) mod ns[j]]_j;   pick d nodes is : [nodes[j][is[j]]]_j *)

Theorem C16_cartesian_index_spec : forall is ns, length is = length ns ->
  cartesian_index is ns = mixed_radix is ns.
Proof. exact cartesian_index_spec. Qed.
Print Assumptions C16_cartesian_index_spec.

Theorem C16_cartesian_index_digits : forall ns l, Forall (fun n => 0 < n) ns -> 0 <= l < prodZ ns ->
  cartesian_index (digits ns l) ns = l.
Proof. exact cartesian_index_digits. Qed.
Print Assumptions C16_cartesian_index_digits.

Theorem C16_digits_cartesian_index : forall is ns, in_range is ns ->
  digits ns (cartesian_index is ns) = is /\ 0 <= cartesian_index is ns < prodZ ns.
Proof. exact digits_cartesian_index. Qed.
Print Assumptions C16_digits_cartesian_index.

(* C order: row l is the grid point whose index vector is the mixed-radix digit vector of l *)
Theorem C16_cartesian_C_spec : forall (T : Type) (d : T) (nodes : list (list T)),
  Forall (fun x => x <> []) nodes ->
  cartesian d false nodes =
  map (fun l => pick d nodes (digits (shapes_of nodes) l)) (zrange (prodZ (shapes_of nodes))).
Proof. exact @cartesian_C_spec. Qed.
Print Assumptions C16_cartesian_C_spec.

(* F order: the C-order table of the reversed node list with every row reversed *)
Theorem C16_cartesian_F_spec : forall (T : Type) (d : T) (nodes : list (list T)),
  cartesian d true nodes = map (@rev T) (cartesian d false (rev nodes)).
Proof. exact @cartesian_F_spec. Qed.
Print Assumptions C16_cartesian_F_spec.

(* every grid point appears: at the row numbered by _cartesian_index of its index vector
   (together with C16_cartesian_index_digits: exactly once) *)
Theorem C16_cartesian_C_row_of_index : forall (T : Type) (d : T) (nodes : list (list T)) (is : list Z),
  in_range is (shapes_of nodes) ->
  let l := cartesian_index is (shapes_of nodes) in
  0 <= l < prodZ (shapes_of nodes) /\
  nth (Z.to_nat l) (cartesian d false nodes) [] = pick d nodes is.
Proof. exact @cartesian_C_row_of_index. Qed.
Print Assumptions C16_cartesian_C_row_of_index.

Example C16_in_range_example : in_range [1; 0; 2] (shapes_of [[10; 20]; [30]; [40; 50; 60]]).
Proof. repeat constructor; cbn; lia. Qed.

(* ================= nearest index over exact rationals (Proofs4.v) =================
   qsorted g : forall i < j < length g, g[i] < g[j] *)
Theorem C16_nearest_1d_argmin : forall (grid : list Q) (x : Q),
  grid <> [] -> qsorted grid ->
  let r := nearest_1d grid x in
  (0 <= r < Z.of_nat (length grid)) /\
  forall j, (j < length grid)%nat ->
    (Qabs (nth (Z.to_nat r) grid 0 - x) <= Qabs (nth j grid 0 - x))%Q /\
    ((Qabs (nth j grid 0 - x) == Qabs (nth (Z.to_nat r) grid 0 - x))%Q -> r <= Z.of_nat j).
Proof. exact nearest_1d_argmin. Qed.
Print Assumptions C16_nearest_1d_argmin.

(* the flat index addresses, in the enumeration `cartesian` with the same order flag, the grid point
   made of the per-coordinate nearest nodes (nearest_ind = map nearest_1d) *)
Theorem C16_cartesian_nearest_index_row : forall (orderF : bool) (nodes : list (list Q)) (x : list Q),
  Forall (fun g => g <> [] /\ qsorted g) nodes -> length x = length nodes ->
  let l := cartesian_nearest_index orderF nodes x in
  (0 <= l < prodZ (shapes_of nodes)) /\
  nth (Z.to_nat l) (cartesian 0%Q orderF nodes) [] = pick 0%Q nodes (nearest_ind nodes x).
Proof. exact cartesian_nearest_index_row. Qed.
Print Assumptions C16_cartesian_nearest_index_row.

Example C16_qsorted_example : qsorted [(-1)%Q; (1#2)%Q; 3%Q] /\ nearest_1d [(-1)%Q; (1#2)%Q; 3%Q] (7#4)%Q = 1.
Proof.
  split; [|reflexivity]. intros i j H. cbn [length] in H.
  assert (D : ((i = 0 /\ j = 1) \/ (i = 0 /\ j = 2) \/ (i = 1 /\ j = 2))%nat) by lia.
  destruct D as [[-> ->]|[[-> ->]|[-> ->]]]; reflexivity.
Qed.

(* ================= simplex grid (Proofs5.v, Proofs6.v) =================
   sumZ, nonneg; lex_lt : lexicographic order;
   sg_inv m (x,h)      : loop invariant: length x = m, 1<=h<=m, x nonneg, x[h-1]>=1, x[j]=0 for j>=h
   composition m n x   : length m, nonneg, sum n
   lex_succ m n x y    : x <lex y and no m-part composition of n lies strictly between *)

(* one pass of the loop body of simplex_grid *)
Theorem C16_sg_step_succ : forall m x h, sg_inv m (x, h) -> 2 <= h ->
  let x' := fst (sg_step m (x, h)) in
  sg_inv m (sg_step m (x, h)) /\
  sumZ x' = sumZ x /\
  lex_lt x x' /\
  (forall y, length y = length x -> nonneg y -> sumZ y = sumZ x -> ~ (lex_lt x y /\ lex_lt y x')).
Proof. exact sg_step_succ. Qed.
Print Assumptions C16_sg_step_succ.

(* whenever simplex_grid does not raise (L <> 0): L = C(n+m-1,m-1) rows, first row (0,..,0,n), every row a
   composition, simplex_index (row j) = j, consecutive rows are immediate lexicographic successors *)
Theorem C16_simplex_grid_spec : forall m n rows, 1 <= m -> 0 <= n -> n + m - 1 <= INTP_MAX ->
  simplex_grid m n = Some rows ->
  Z.of_nat (length rows) = num_compositions m n /\
  nth 0 rows [] = repeat 0 (Z.to_nat (m - 1)) ++ [n] /\
  forall j, (j < length rows)%nat ->
    composition m n (nth j rows []) /\
    simplex_index (nth j rows []) m n = Z.of_nat j /\
    ((S j < length rows)%nat -> lex_succ m n (nth j rows []) (nth (S j) rows [])).
Proof. exact simplex_grid_spec. Qed.
Print Assumptions C16_simplex_grid_spec.

(* every composition exactly once *)
Theorem C16_simplex_grid_complete : forall m n rows, 1 <= m -> 0 <= n -> n + m - 1 <= INTP_MAX ->
  simplex_grid m n = Some rows ->
  (forall y, In y rows <-> composition m n y) /\ NoDup rows.
Proof. exact simplex_grid_complete. Qed.
Print Assumptions C16_simplex_grid_complete.

Example C16_sg_inv_example : sg_inv 3 ([0; 1; 2], 3) /\ sg_step 3 ([0; 1; 2], 3) = ([0; 2; 1], 3) /\
  sg_inv 4 ([1; 1; 0; 0], 2) /\ sg_step 4 ([1; 1; 0; 0], 2) = ([2; 0; 0; 0], 1).
Proof.
  assert (Z2 : zget [0; 1; 2] (3 - 1) = 2) by reflexivity.
  assert (Z1 : zget [1; 1; 0; 0] (2 - 1) = 1) by reflexivity.
  unfold sg_inv, nonneg. rewrite Z1, Z2. cbn [length].
  repeat split; try lia; try (repeat constructor; lia); intros j Hj;
    assert (D : j = 2 \/ j = 3) by lia; destruct D; subst j; reflexivity.
Qed.

Example C16_simplex_grid_example :
  simplex_grid 3 2 = Some [[0;0;2]; [0;1;1]; [0;2;0]; [1;0;1]; [1;1;0]; [2;0;0]].
Proof. reflexivity. Qed.

(* ================= int64 rank sum (Proofs7.v) =================
   every value taken by the accumulator of k_array_rank_jit (after 1, 2, ..., k terms) is the exact partial rank
   and lies in [0, C(n,k)): no int64 overflow in the sum whenever C(n,k) <= INTP_MAX (the terms themselves are
   exact under rank_jit_guard) *)
Theorem C16_k_array_rank_jit_no_overflow : forall k a n, k_array k a -> last a 0 < n ->
  binomZ n (Z.of_nat k) <= INTP_MAX -> rank_jit_guard 1 (tl a) ->
  forall j, (1 <= j <= k)%nat ->
    k_array_rank_jit (firstn j a) = k_array_rank (firstn j a) /\
    0 <= k_array_rank (firstn j a) <= k_array_rank a /\ k_array_rank a < binomZ n (Z.of_nat k) <= INTP_MAX.
Proof. exact k_array_rank_jit_no_overflow. Qed.
Print Assumptions C16_k_array_rank_jit_no_overflow.

(* ================= linspace / mlinspace (Model2.v, Proofs7.v) =================
   lin_point a b n j = a if n = 1, else a + j*(b-a)/(n-1) *)
Theorem C16_linspace_Q_spec : forall (a b : Q) n, 1 <= n ->
  Z.of_nat (length (linspace a b n)) = n /\
  (forall j, 0 <= j < n -> (nth (Z.to_nat j) (linspace a b n) 0 == lin_point a b n j)%Q) /\
  (nth 0 (linspace a b n) 0 == a)%Q /\
  (2 <= n -> nth (Z.to_nat (n - 1)) (linspace a b n) 0%Q = b).
Proof. exact linspace_Q_spec. Qed.
Print Assumptions C16_linspace_Q_spec.

(* every Num instance: the rows of mlinspace are the product grid of the per-dimension linspace nodes *)
Theorem C16_mlinspace_spec : forall (T : Type) (H : Num T) (a b : list T) nums,
  Forall (fun n => 1 <= n) nums -> length a = length nums -> length b = length nums ->
  mlinspace false a b nums =
    map (fun l => pick nzero (linspace_nodes a b nums) (digits nums l)) (zrange (prodZ nums)) /\
  mlinspace true a b nums = map (@rev T) (mlinspace false (rev a) (rev b) (rev nums)).
Proof. exact @mlinspace_spec. Qed.
Print Assumptions C16_mlinspace_spec.

Example C16_linspace_example : linspace 1%Q 3%Q 5 = [1; (3#2); 2; (5#2); 3]%Q /\ linspace 4%Q 9%Q 1 = [4%Q].
Proof. split; reflexivity. Qed.

(* ================= nearest index, every Num instance (Proofs8.v) =================
   nle a b := nleb a b = true;  dist g x := if nleb x g then nsub g x else nsub x g
   sorted_grid F g: every g[i] satisfies F and g is weakly increasing for nle.
   Hypotheses (explicit): F = admissible inputs, C = comparable values *)
Theorem C16_nearest_1d_argmin_gen : forall (T : Type) (H : Num T) (F C : T -> Prop),
  (forall a, F a -> C a) ->
  (forall a b, F a -> F b -> C (nsub a b)) ->
  (forall a b, C a -> C b -> nle a b \/ nle b a) ->
  (forall a b c, C a -> C b -> C c -> nle a b -> nle b c -> nle a c) ->
  (forall a b, C a -> C b -> nltb a b = negb (nleb b a)) ->
  (forall a b c, F a -> F b -> F c -> nle a b -> nle (nsub a c) (nsub b c)) ->
  (forall a b c, F a -> F b -> F c -> nle a b -> nle (nsub c b) (nsub c a)) ->
  forall (grid : list T) (x : T),
  grid <> [] -> sorted_grid F grid -> F x ->
  let r := nearest_1d grid x in
  (0 <= r < Z.of_nat (length grid)) /\
  forall j, (j < length grid)%nat ->
    nle (dist (nth (Z.to_nat r) grid nzero) x) (dist (nth j grid nzero) x).
Proof. exact @nearest_1d_argmin_gen. Qed.
Print Assumptions C16_nearest_1d_argmin_gen.

(* the hypotheses are satisfiable: the instance Q (F = C = everything) *)
Theorem C16_nearest_1d_argmin_Q_gen : forall (grid : list Q) (x : Q),
  grid <> [] -> (forall i j, (i <= j < length grid)%nat -> (nth i grid 0 <= nth j grid 0)%Q) ->
  let r := nearest_1d grid x in
  (0 <= r < Z.of_nat (length grid)) /\
  forall j, (j < length grid)%nat ->
    (dist (nth (Z.to_nat r) grid 0%Q) x <= dist (nth j grid 0%Q) x)%Q.
Proof. exact nearest_1d_argmin_Q_gen. Qed.
Print Assumptions C16_nearest_1d_argmin_Q_gen.

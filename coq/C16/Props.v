(* C16 property theorems: statements only, each closed by `exact`, with Print Assumptions. *)
From Coq Require Import ZArith List Bool.
From QE Require Import Base.Num C16.Model C16.Proofs.
Import ListNotations.
Open Scope Z_scope.

Theorem C16_comb_jit_spec : forall N k,
  0 <= N <= INTP_MAX -> 0 <= k <= N ->
  (k = 0 -> comb_jit N k = 1) /\
  (k = 1 -> comb_jit N k = N) /\
  (2 <= k -> N = INTP_MAX -> comb_jit N k = 0) /\
  (2 <= k -> N < INTP_MAX ->
     (comb_overflows N k /\ comb_jit N k = 0) \/
     (~ comb_overflows N k /\ comb_jit N k = binomZ N k)).
Proof. exact comb_jit_spec. Qed.
Print Assumptions C16_comb_jit_spec.

Theorem C16_comb_jit_exact : forall N k,
  0 <= N <= INTP_MAX -> 0 <= k <= N -> comb_jit N k <> 0 -> comb_jit N k = binomZ N k.
Proof. exact comb_jit_exact. Qed.
Print Assumptions C16_comb_jit_exact.

(* C16: the kernels regenerated from /repo's current source (Gen/Kernels.v, written by
   harness/py2coq.py on every run) coincide with the hand-written model on every input.
   Statements only. *)
From Coq Require Import ZArith List Bool.
From QE Require Import Base.Num Gen.Kernels C16.Model C16.Tie C16.Proofs.
Import ListNotations.
Open Scope Z_scope.

Theorem C16_tie_comb_jit : forall N k, gen_comb_jit N k = comb_jit N k.
Proof. exact gen_comb_jit_eq. Qed.
Print Assumptions C16_tie_comb_jit.

Theorem C16_tie_cartesian_index : forall indices nums,
  length indices = length nums -> gen_cartesian_index indices nums = cartesian_index indices nums.
Proof. exact gen_cartesian_index_eq. Qed.
Print Assumptions C16_tie_cartesian_index.

Theorem C16_tie_k_array_rank_jit : forall a, a <> [] ->
  gen_k_array_rank_jit a = k_array_rank_jit a.
Proof. exact gen_k_array_rank_jit_eq. Qed.
Print Assumptions C16_tie_k_array_rank_jit.

(* consequence: the specification theorem holds of the code as translated now *)
Theorem C16_gen_comb_jit_exact : forall N k,
  0 <= N <= INTP_MAX -> 0 <= k <= N -> gen_comb_jit N k <> 0 -> gen_comb_jit N k = binomZ N k.
Proof. intros N k. rewrite gen_comb_jit_eq. exact (comb_jit_exact N k). Qed.
Print Assumptions C16_gen_comb_jit_exact.

Theorem C16_tie_next_k_array : forall a, gen_next_k_array a = next_k_array a.
Proof. exact gen_next_k_array_eq. Qed.
Print Assumptions C16_tie_next_k_array.

(* ---------------------------------------------------------------------------------------------
   simplex_grid and num_compositions_jit (_gridtools.py) as REGENERATED from the current source (Gen/Kernels4.v):
   the generated kernel returns exactly the grid of the hand-written model C16/Model.v, or the ValueError that the
   model reports as None (proof in C16/TieGen4.v).  Hence simplex_grid_spec / simplex_grid_complete of C16/Props.v
   speak about the current text.  The value tie holds for all m >= 0 and n; it is stated for the returned array
   (the bounds flag of the generated kernel is not characterised here).
   --------------------------------------------------------------------------------------------- *)
From Coq Require Import String.
From QE Require Import Gen.Kernels4 C16.TieGen4.
Theorem C16_tie_num_compositions_jit : forall m n, gen_num_compositions_jit m n = (num_compositions_jit m n, true).
Proof. exact gen_num_compositions_jit_tie. Qed.
Print Assumptions C16_tie_num_compositions_jit.

Theorem C16_tie_simplex_grid : forall (mN : nat) (n : Z), 0 <= num_compositions_jit (Z.of_nat mN) n ->
  fst (gen_simplex_grid (Z.of_nat mN) n) =
    match simplex_grid (Z.of_nat mN) n with
    | None => inl "ValueError: Maximum allowed size exceeded"%string
    | Some rows => inr rows
    end.
Proof. exact gen_simplex_grid_tie. Qed.
Print Assumptions C16_tie_simplex_grid.

Example C16_tie_simplex_grid_example :
  gen_simplex_grid 3 2 = (inr [[0;0;2];[0;1;1];[0;2;0];[1;0;1];[1;1;0];[2;0;0]], true) /\
  simplex_grid 3 2 = Some [[0;0;2];[0;1;1];[0;2;0];[1;0;1];[1;1;0];[2;0;0]].
Proof. vm_compute. split; reflexivity. Qed.

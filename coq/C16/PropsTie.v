(* C16: the kernels regenerated from /repo's current source (Gen/Kernels.v, written by
   harness/py2coq.py on every run) coincide with the hand-written model on every input.
   Statements only. *)
From Coq Require Import ZArith List Bool.
From QE Require Import Base.Num Gen.Kernels C16.Model C16.Tie C16.Proofs.
Import ListNotations.
Open Scope Z_scope.

Theorem C16_tie_comb_jit : forall N k, gen_comb_jit N k = comb_jit N k.
Proof. exact gen_comb_jit_eq. Qed.
Print Assumptions C16_tie_comb_jit.

Theorem C16_tie_cartesian_index : forall indices nums,
  length indices = length nums -> gen_cartesian_index indices nums = cartesian_index indices nums.
Proof. exact gen_cartesian_index_eq. Qed.
Print Assumptions C16_tie_cartesian_index.

Theorem C16_tie_k_array_rank_jit : forall a, a <> [] ->
  gen_k_array_rank_jit a = k_array_rank_jit a.
Proof. exact gen_k_array_rank_jit_eq. Qed.
Print Assumptions C16_tie_k_array_rank_jit.

(* consequence: the specification theorem holds of the code as translated now *)
Theorem C16_gen_comb_jit_exact : forall N k,
  0 <= N <= INTP_MAX -> 0 <= k <= N -> gen_comb_jit N k <> 0 -> gen_comb_jit N k = binomZ N k.
Proof. intros N k. rewrite gen_comb_jit_eq. exact (comb_jit_exact N k). Qed.
Print Assumptions C16_gen_comb_jit_exact.

Theorem C16_tie_next_k_array : forall a, gen_next_k_array a = next_k_array a.
Proof. exact gen_next_k_array_eq. Qed.
Print Assumptions C16_tie_next_k_array.

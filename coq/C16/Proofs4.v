(* C16, part 4: the per-coordinate nearest index over exact rationals. *)
From Coq Require Import ZArith QArith Qabs List Bool Lia Lqa.
From QE Require Import Base.Num C16.Model C16.Proofs3.
Import ListNotations.
Open Scope Q_scope.

(* strictly increasing grid *)
Definition qsorted (g : list Q) : Prop :=
  forall i j, (i < j < length g)%nat -> nth i g 0 < nth j g 0.

Lemma qsorted_le g i j : qsorted g -> (i <= j < length g)%nat -> nth i g 0 <= nth j g 0.
Proof.
  intros S H. destruct (Nat.eq_dec i j) as [->|Hne]; [apply Qle_refl|].
  apply Qlt_le_weak. apply S. lia.
Qed.

Lemma Qabs_cases t : (0 <= t /\ Qabs t == t) \/ (t <= 0 /\ Qabs t == - t).
Proof.
  destruct (Qlt_le_dec t 0) as [H|H].
  - right. split; [lra|]. apply Qabs_neg. lra.
  - left. split; [exact H|]. apply Qabs_pos. exact H.
Qed.

Ltac qabs t := let E := fresh "E" in let S := fresh "S" in
  destruct (Qabs_cases t) as [[S E]|[S E]].

(* np.searchsorted(a, v, side='left') as modelled: first k with v <= a[k] *)
Lemma searchsorted_spec (a : list Q) (v : Q) :
  let k := np_searchsorted_left a v in
  (0 <= k <= Z.of_nat (length a))%Z /\
  (forall i, (i < Z.to_nat k)%nat -> nth i a 0 < v) /\
  ((k < Z.of_nat (length a))%Z -> v <= nth (Z.to_nat k) a 0).
Proof.
  induction a as [|x r IH]; cbn zeta.
  - cbn. split; [lia|]. split; [intros; lia|lia].
  - cbn [np_searchsorted_left nleb NumQ]. destruct (Qle_bool v x) eqn:E.
    + split; [cbn [length]; lia|]. split; [intros; lia|].
      intros _. cbn. apply Qle_bool_iff. exact E.
    + cbn zeta in IH. destruct IH as (R & Lo & Hi).
      set (k := np_searchsorted_left r v) in *.
      replace (Z.to_nat (1 + k)) with (S (Z.to_nat k)) by lia.
      split; [cbn [length]; lia|]. split.
      * intros [|i] Hi'; cbn [nth].
        -- apply Qnot_le_lt. intros H. apply Qle_bool_iff in H. congruence.
        -- apply Lo. lia.
      * intros Hk. cbn [nth]. apply Hi. cbn [length] in Hk. lia.
Qed.

Theorem nearest_1d_argmin (grid : list Q) (x : Q) :
  grid <> [] -> qsorted grid ->
  let r := nearest_1d grid x in
  (0 <= r < Z.of_nat (length grid))%Z /\
  forall j, (j < length grid)%nat ->
    Qabs (nth (Z.to_nat r) grid 0 - x) <= Qabs (nth j grid 0 - x) /\
    (Qabs (nth j grid 0 - x) == Qabs (nth (Z.to_nat r) grid 0 - x) -> (r <= Z.of_nat j)%Z).
Proof.
  intros Hne S. cbn zeta.
  assert (Hlen : (0 < length grid)%nat) by (destruct grid; [congruence|cbn; lia]).
  unfold nearest_1d. cbn [nleb nltb nsub nzero NumQ].
  set (n := Z.of_nat (length grid)).
  change (Z.to_nat 0) with 0%nat.
  destruct (Qle_bool x (nth 0 grid 0)) eqn:E0.
  { (* left clamp *)
    apply Qle_bool_iff in E0. split; [lia|]. intros j Hj. change (Z.to_nat 0) with 0%nat.
    pose proof (qsorted_le grid 0 j S ltac:(lia)) as M.
    split; [|lia]. qabs (nth 0 grid 0 - x); qabs (nth j grid 0 - x); lra. }
  assert (L0 : nth 0 grid 0 < x).
  { apply Qnot_le_lt. intros H. apply Qle_bool_iff in H. congruence. }
  replace (Z.to_nat (n - 1)) with (length grid - 1)%nat by lia.
  destruct (Qle_bool (nth (length grid - 1) grid 0) x) eqn:E1.
  { (* right clamp *)
    apply Qle_bool_iff in E1. split; [lia|]. intros j Hj.
    replace (Z.to_nat (n - 1)) with (length grid - 1)%nat by lia.
    pose proof (qsorted_le grid j (length grid - 1) S ltac:(lia)) as M.
    split.
    - qabs (nth (length grid - 1) grid 0 - x); qabs (nth j grid 0 - x); lra.
    - intros T. destruct (Nat.eq_dec j (length grid - 1)) as [->|Hne']; [lia|].
      pose proof (S j (length grid - 1)%nat ltac:(lia)) as M'.
      exfalso. qabs (nth (length grid - 1) grid 0 - x); qabs (nth j grid 0 - x); lra. }
  assert (L1 : x < nth (length grid - 1) grid 0).
  { apply Qnot_le_lt. intros H. apply Qle_bool_iff in H. congruence. }
  (* interior: g[k-1] < x <= g[k] *)
  pose proof (searchsorted_spec grid x) as SS. cbn zeta in SS.
  set (k := np_searchsorted_left grid x) in *. fold n in SS.
  destruct SS as (Rk & Lo & Hi).
  assert (K1 : (1 <= k)%Z).
  { destruct (Z.eq_dec k 0) as [Ek|]; [|lia]. exfalso.
    specialize (Hi ltac:(lia)). rewrite Ek in Hi. change (Z.to_nat 0) with 0%nat in Hi. lra. }
  assert (K2 : (k <= n - 1)%Z).
  { destruct (Z.eq_dec k n) as [Ek|]; [|lia]. exfalso.
    specialize (Lo (length grid - 1)%nat ltac:(lia)). lra. }
  specialize (Hi ltac:(lia)).
  specialize (Lo (Z.to_nat (k - 1)) ltac:(lia)).
  set (kn := Z.to_nat k) in *.
  replace (Z.to_nat (k - 1)) with (kn - 1)%nat in * by lia.
  assert (below : forall j, (j <= kn - 1)%nat -> nth j grid 0 <= nth (kn - 1) grid 0).
  { intros j Hj. apply qsorted_le; [exact S|lia]. }
  assert (above : forall j, (kn <= j < length grid)%nat -> nth kn grid 0 <= nth j grid 0).
  { intros j Hj. apply qsorted_le; [exact S|lia]. }
  destruct (Qltb (Qsubr (nth kn grid 0) x) (Qsubr x (nth (kn - 1) grid 0))) eqn:ET.
  - apply Qltb_lt in ET. rewrite !Qsubr_eq in ET.
    split; [lia|]. intros j Hj. fold kn.
    destruct (Nat.le_gt_cases kn j) as [C|C].
    + pose proof (above j ltac:(lia)). split; [|lia].
      qabs (nth kn grid 0 - x); qabs (nth j grid 0 - x); lra.
    + pose proof (below j ltac:(lia)). split.
      * qabs (nth kn grid 0 - x); qabs (nth j grid 0 - x); lra.
      * intros T. exfalso. qabs (nth kn grid 0 - x); qabs (nth j grid 0 - x); lra.
  - assert (ET' : ~ (nth kn grid 0 - x < x - nth (kn - 1) grid 0)).
    { intros H. rewrite <- !Qsubr_eq in H. apply Qltb_lt in H. congruence. }
    split; [lia|]. intros j Hj.
    replace (Z.to_nat (k - 1)) with (kn - 1)%nat by lia.
    destruct (Nat.le_gt_cases kn j) as [C|C].
    + pose proof (above j ltac:(lia)). split; [|lia].
      qabs (nth (kn - 1)%nat grid 0 - x); qabs (nth j grid 0 - x); lra.
    + pose proof (below j ltac:(lia)). split.
      * qabs (nth (kn - 1)%nat grid 0 - x); qabs (nth j grid 0 - x); lra.
      * intros T. destruct (Nat.eq_dec j (kn - 1)) as [->|Hne']; [lia|].
        pose proof (S j (kn - 1)%nat ltac:(lia)) as M'.
        exfalso. qabs (nth (kn - 1)%nat grid 0 - x); qabs (nth j grid 0 - x); lra.
Qed.

(* ---------- the flat index returned by cartesian_nearest_index addresses, in the enumeration of
   `cartesian` with the same order flag, the grid point made of the per-coordinate nearest nodes ---------- *)
Definition nearest_ind (nodes : list (list Q)) (x : list Q) : list Z :=
  map (fun gx => nearest_1d (fst gx) (snd gx)) (combine nodes x).

Lemma nearest_ind_in_range nodes : Forall (fun g => g <> [] /\ qsorted g) nodes ->
  forall x, length x = length nodes -> in_range (nearest_ind nodes x) (shapes_of nodes).
Proof.
  induction 1 as [|g r [Hg Sg] _ IH]; intros [|x0 x] Hl; cbn in Hl; try lia; [constructor|].
  unfold nearest_ind, shapes_of. cbn [combine map fst snd]. constructor.
  - apply (nearest_1d_argmin g x0 Hg Sg).
  - apply IH. lia.
Qed.

Lemma in_range_app a : forall b a' b', in_range a b -> in_range a' b' -> in_range (a ++ a') (b ++ b').
Proof. intros b a' b' H H'. induction H; cbn [app]; [exact H'|constructor; assumption]. Qed.

Lemma in_range_rev a b : in_range a b -> in_range (rev a) (rev b).
Proof.
  induction 1 as [|i n a b Hi _ IH]; [constructor|]. cbn [rev].
  apply in_range_app; [exact IH|]. constructor; [exact Hi|constructor].
Qed.

Lemma pick_app {T} (d : T) (a : list (list T)) : forall b a' b', length a = length b ->
  pick d (a ++ a') (b ++ b') = pick d a b ++ pick d a' b'.
Proof.
  induction a as [|x a IH]; intros [|y b] a' b' Hl; cbn in Hl; try lia; [reflexivity|].
  cbn [app pick]. f_equal. apply IH. lia.
Qed.

Lemma pick_rev {T} (d : T) (a : list (list T)) : forall b, length a = length b ->
  pick d (rev a) (rev b) = rev (pick d a b).
Proof.
  induction a as [|x a IH]; intros [|y b] Hl; cbn in Hl; try lia; [reflexivity|].
  cbn [rev pick]. rewrite pick_app by (rewrite !rev_length; lia). rewrite IH by lia. reflexivity.
Qed.

Theorem cartesian_nearest_index_row (orderF : bool) (nodes : list (list Q)) (x : list Q) :
  Forall (fun g => g <> [] /\ qsorted g) nodes -> length x = length nodes ->
  let l := cartesian_nearest_index orderF nodes x in
  (0 <= l < prodZ (shapes_of nodes))%Z /\
  nth (Z.to_nat l) (cartesian 0 orderF nodes) [] = pick 0 nodes (nearest_ind nodes x).
Proof.
  intros Hn Hl. pose proof (nearest_ind_in_range nodes Hn x Hl) as R.
  unfold cartesian_nearest_index. fold (nearest_ind nodes x). fold (shapes_of nodes).
  destruct orderF; cbn zeta.
  - pose proof (in_range_rev _ _ R) as R'.
    assert (E : rev (shapes_of nodes) = shapes_of (rev nodes)) by (unfold shapes_of; rewrite map_rev; reflexivity).
    rewrite E in *.
    destruct (cartesian_C_row_of_index 0 (rev nodes) _ R') as [B Row].
    assert (EP : prodZ (shapes_of (rev nodes)) = prodZ (shapes_of nodes)) by (rewrite <- E; apply prodZ_rev).
    rewrite EP in B.
    split; [exact B|].
    rewrite cartesian_F_spec.
    change (@nil Q) with (rev (@nil Q)). rewrite map_nth. cbn [rev].
    rewrite Row. rewrite pick_rev, rev_involutive; [reflexivity|].
    apply in_range_length in R. unfold shapes_of in R. rewrite map_length in R. lia.
  - apply (cartesian_C_row_of_index 0 nodes _ R).
Qed.

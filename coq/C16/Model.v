(* C16 model: quantecon/util/numba.py::comb_jit, util/combinatorics.py,
   _gridtools.py (simplex_grid, simplex_index, num_compositions, cartesian,
   _cartesian_index, _cartesian_nearest_indices).
   Executable definitions only; proofs live in Proofs.v. *)
From Coq Require Import ZArith List Bool.
From QE Require Import Base.Num.
Import ListNotations.
Open Scope Z_scope.

Definition INTP_MAX : Z := 9223372036854775807.

Definition zget (a : list Z) (i : Z) : Z := nth (Z.to_nat i) a 0.

(* for j in range(1, nterms+1): if val > INTP_MAX // (M-j): return 0; val *= M-j; val //= j *)
Fixpoint comb_loop (fuel : nat) (M j val : Z) : Z :=
  match fuel with
  | O => val
  | S f => if val >? INTP_MAX / (M - j) then 0
           else comb_loop f M (j + 1) ((val * (M - j)) / j)
  end.

Definition comb_jit (N k : Z) : Z :=
  if (N <? 0) || (k <? 0) || (k >? N) then 0
  else if k =? 0 then 1
  else if k =? 1 then N
  else if N =? INTP_MAX then 0
  else comb_loop (Z.to_nat (Z.min k (N - k))) (N + 1) 1 1.

(* exact binomial (scipy.special.comb(..., exact=True)): Pascal's rule on nat *)
Fixpoint binom (n k : nat) : Z :=
  match k with
  | O => 1
  | S k' => match n with
            | O => 0
            | S n' => binom n' k' + binom n' k
            end
  end.
Definition binomZ (n k : Z) : Z :=
  if (n <? 0) || (k <? 0) then 0 else binom (Z.to_nat n) (Z.to_nat k).

(* k_array_rank: idx = a[0] + sum_{i>=1} comb(a[i], i+1) *)
Fixpoint rank_from (comb : Z -> Z -> Z) (i : Z) (l : list Z) : Z :=
  match l with
  | [] => 0
  | x :: r => comb x (i + 1) + rank_from comb (i + 1) r
  end.
Definition k_array_rank_gen (comb : Z -> Z -> Z) (a : list Z) : Z :=
  match a with
  | [] => 0
  | x :: r => x + rank_from comb 1 r
  end.
Definition k_array_rank := k_array_rank_gen binomZ.
Definition k_array_rank_jit := k_array_rank_gen comb_jit.

(* next_k_array (Knuth 7.2.1.3 Algorithm T step), functional form *)
Fixpoint nk_aux (i : Z) (l : list Z) : list Z :=
  match l with
  | [] => []
  | [x] => [x + 1]
  | x :: ((y :: _) as r) => if x + 1 =? y then i :: nk_aux (i + 1) r else (x + 1) :: r
  end.
Definition next_k_array (a : list Z) : list Z :=
  match a with
  | [] => []
  | [x] => [x + 1]
  | x :: ((y :: _) as r) => if x + 1 <? y then (x + 1) :: r else 0 :: nk_aux 1 r
  end.

(* walk used by support enumeration / tournament games:
   a = [0..k-1]; while a[k-1] < n: visit a; next_k_array a *)
Fixpoint k_walk (fuel : nat) (n : Z) (a : list Z) : list (list Z) :=
  match fuel with
  | O => []
  | S f => if last a 0 <? n then a :: k_walk f n (next_k_array a) else []
  end.

(* ---- simplex grid ---- *)
Fixpoint upd (a : list Z) (i : nat) (v : Z) : list Z :=
  match a, i with
  | [], _ => []
  | _ :: r, O => v :: r
  | x :: r, S i' => x :: upd r i' v
  end.
Definition zupd (a : list Z) (i v : Z) : list Z := upd a (Z.to_nat i) v.

Definition num_compositions (m n : Z) : Z := binomZ (n + m - 1) (m - 1).
Definition num_compositions_jit (m n : Z) : Z := comb_jit (n + m - 1) (m - 1).

(* one pass of the loop body of simplex_grid; state (x, h) *)
Definition sg_step (m : Z) (st : list Z * Z) : list Z * Z :=
  let '(x, h) := st in
  let h := h - 1 in
  let val := zget x h in
  let x := zupd x h 0 in
  let x := zupd x (m - 1) (val - 1) in
  let x := zupd x (h - 1) (zget x (h - 1) + 1) in
  (x, if val =? 1 then h else m).

Fixpoint sg_rows (fuel : nat) (m : Z) (st : list Z * Z) : list (list Z) :=
  match fuel with
  | O => []
  | S f => let st' := sg_step m st in fst st' :: sg_rows f m st'
  end.

Definition simplex_grid (m n : Z) : option (list (list Z)) :=
  let L := num_compositions_jit m n in
  if L =? 0 then None
  else let x0 := zupd (repeat 0 (Z.to_nat m)) (m - 1) n in
       Some (x0 :: sg_rows (Z.to_nat (L - 1)) m (x0, m)).

(* simplex_index: decumsum[i] = x[i+1] + ... + x[m-1] *)
Fixpoint suffix_sums (l : list Z) : list Z :=
  match l with
  | [] => []
  | x :: r => match suffix_sums r with
              | [] => [x]
              | (s :: _) as t => (x + s) :: t
              end
  end.
Fixpoint si_loop (m i : Z) (dec : list Z) (idx : Z) : Z :=
  match dec with
  | [] => idx
  | d :: r => if d =? 0 then idx
              else si_loop m (i + 1) r (idx - num_compositions (m - i) (d - 1))
  end.
Definition simplex_index (x : list Z) (m n : Z) : Z :=
  if m =? 1 then 0
  else si_loop m 0 (suffix_sums (tl x)) (num_compositions m n - 1).

(* ---- cartesian products ---- *)
Definition prodZ (l : list Z) : Z := fold_right Z.mul 1 l.
Fixpoint cumprod_from (acc : Z) (l : list Z) : list Z :=
  match l with [] => [] | x :: r => (acc * x) :: cumprod_from (acc * x) r end.
Definition cumprod (l : list Z) : list Z := cumprod_from 1 l.

(* repetitions: C order cumprod([1]+shapes[:-1]); F order the reversed analogue *)
Definition repetitions_C (shapes : list Z) : list Z := cumprod (1 :: removelast shapes).
Definition repetitions_F (shapes : list Z) : list Z :=
  rev (cumprod (1 :: removelast (rev shapes))).

(* _repeat_1d(x, K, out): out[k*N*L + n*L + l] = x[n], L = len(out)//(K*N).
   Entry at position ind is therefore x[(ind / L) mod N]. *)
Definition repeat_1d_entry {T} (d : T) (x : list T) (K total ind : Z) : T :=
  let N := Z.of_nat (length x) in
  let L := total / (K * N) in
  nth (Z.to_nat ((ind / L) mod N)) x d.

Fixpoint zrange_from (s : Z) (n : nat) : list Z :=
  match n with O => [] | S n' => s :: zrange_from (s + 1) n' end.
Definition zrange (n : Z) : list Z := zrange_from 0 (Z.to_nat n).

Definition cartesian {T} (d : T) (orderF : bool) (nodes : list (list T)) : list (list T) :=
  let shapes := map (fun e => Z.of_nat (length e)) nodes in
  let total := prodZ shapes in
  let reps := if orderF then repetitions_F shapes else repetitions_C shapes in
  map (fun ind => map (fun xk => repeat_1d_entry d (fst xk) (snd xk) total ind)
                      (combine nodes reps))
      (zrange total).

(* _cartesian_index(indices, nums_grids) *)
Fixpoint ci_loop (ri rn : list Z) (idx dec : Z) : Z :=
  match ri, rn with
  | i :: ri', n :: rn' => ci_loop ri' rn' (idx + dec * i) (dec * n)
  | _, _ => idx
  end.
Definition cartesian_index (indices nums : list Z) : Z :=
  ci_loop (rev indices) (rev nums) 0 1.

Section Nearest.
Context {T : Type} `{Num T}.

(* np.searchsorted(a, v) (side='left'): first index k with v <= a[k] *)
Fixpoint np_searchsorted_left (a : list T) (v : T) : Z :=
  match a with
  | [] => 0
  | x :: r => if nleb v x then 0 else 1 + np_searchsorted_left r v
  end.

Definition nearest_1d (grid : list T) (x : T) : Z :=
  let n := Z.of_nat (length grid) in
  let g := fun i : Z => nth (Z.to_nat i) grid nzero in
  if nleb x (g 0) then 0
  else if nleb (g (n - 1)) x then n - 1
  else let k := np_searchsorted_left grid x in
       if nltb (nsub (g k) x) (nsub x (g (k - 1))) then k else k - 1.

Definition cartesian_nearest_index (orderF : bool) (nodes : list (list T)) (x : list T) : Z :=
  let ind := map (fun gx => nearest_1d (fst gx) (snd gx)) (combine nodes x) in
  let nums := map (fun e => Z.of_nat (length e)) nodes in
  if orderF then cartesian_index (rev ind) (rev nums) else cartesian_index ind nums.
End Nearest.

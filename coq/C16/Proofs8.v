(* C16, part 8: the per-coordinate nearest index for EVERY Num instance whose comparisons are a total
   preorder on the comparable values and whose subtraction is monotone (Section hypotheses, stated
   explicitly; instantiated for Q below; see harness/meta/C16.json for binary64). *)
From Coq Require Import ZArith QArith List Bool Lia Lqa.
From QE Require Import Base.Num C16.Model C16.Proofs4.
Import ListNotations.
Open Scope Z_scope.

Section NearestGeneric.
Context {T : Type} `{Num T}.

Definition nle (a b : T) : Prop := nleb a b = true.

(* distance from grid value g to the query x, computed with the instance's own subtraction *)
Definition dist (g x : T) : T := if nleb x g then nsub g x else nsub x g.

(* F: the admissible inputs (grid values and query points);  C: the comparable values (inputs and
   their differences).  binary64: F = finite numbers, C = non-NaN numbers. *)
Variable F C : T -> Prop.
Hypothesis F_C : forall a, F a -> C a.
Hypothesis sub_C : forall a b, F a -> F b -> C (nsub a b).
Hypothesis le_total : forall a b, C a -> C b -> nle a b \/ nle b a.
Hypothesis le_trans : forall a b c, C a -> C b -> C c -> nle a b -> nle b c -> nle a c.
Hypothesis ltb_leb : forall a b, C a -> C b -> nltb a b = negb (nleb b a).
Hypothesis sub_mono_l : forall a b c, F a -> F b -> F c -> nle a b -> nle (nsub a c) (nsub b c).
Hypothesis sub_mono_r : forall a b c, F a -> F b -> F c -> nle a b -> nle (nsub c b) (nsub c a).

Lemma le_refl a : C a -> nle a a.
Proof. intros Ca. destruct (le_total a a Ca Ca); assumption. Qed.

Lemma not_le a b : C a -> C b -> nleb a b = false -> nle b a.
Proof. intros Ca Cb E. destruct (le_total a b Ca Cb) as [L|L]; [unfold nle in L; congruence|exact L]. Qed.

Lemma dist_C g x : F g -> F x -> C (dist g x).
Proof. intros Fg Fx. unfold dist. destruct (nleb x g); apply sub_C; assumption. Qed.

(* moving a grid value away from x on the right increases the distance *)
Lemma dist_right x a b : F x -> F a -> F b -> nle x a -> nle a b -> nle (dist a x) (dist b x).
Proof.
  intros Fx Fa Fb Hxa Hab.
  assert (Hxb : nle x b) by (apply (le_trans x a b); auto).
  unfold dist. unfold nle in Hxa, Hxb. rewrite Hxa, Hxb. apply sub_mono_l; assumption.
Qed.

(* ... and on the left *)
Lemma dist_left x a b : F x -> F a -> F b -> nle a b -> nle b x -> nle (dist b x) (dist a x).
Proof.
  intros Fx Fa Fb Hab Hbx.
  assert (Hax : nle a x) by (apply (le_trans a b x); auto).
  unfold dist. destruct (nleb x b) eqn:Exb; destruct (nleb x a) eqn:Exa.
  - apply sub_mono_l; try assumption. apply (le_trans b x a); auto.
  - apply (le_trans (nsub b x) (nsub x x) (nsub x a)); auto.
  - exfalso. assert (nle x b) by (apply (le_trans x a b); auto). unfold nle in *. congruence.
  - apply sub_mono_r; assumption.
Qed.

(* np.searchsorted(a, v, 'left') as modelled: first k with v <= a[k] (no order facts needed) *)
Lemma searchsorted_spec_gen (a : list T) (v : T) :
  let k := np_searchsorted_left a v in
  (0 <= k <= Z.of_nat (length a)) /\
  (forall i, (i < Z.to_nat k)%nat -> nleb v (nth i a nzero) = false) /\
  (k < Z.of_nat (length a) -> nleb v (nth (Z.to_nat k) a nzero) = true).
Proof.
  induction a as [|x r IH]; cbn zeta.
  - cbn. split; [lia|]. split; [intros; lia|lia].
  - cbn [np_searchsorted_left]. destruct (nleb v x) eqn:E.
    + split; [cbn [length]; lia|]. split; [intros; lia|]. intros _. exact E.
    + cbn zeta in IH. destruct IH as (R & Lo & Hi).
      set (k := np_searchsorted_left r v) in *.
      replace (Z.to_nat (1 + k)) with (S (Z.to_nat k)) by lia.
      split; [cbn [length]; lia|]. split.
      * intros [|i] Hi'; cbn [nth]; [exact E|apply Lo; lia].
      * intros Hk. cbn [nth]. apply Hi. cbn [length] in Hk. lia.
Qed.

(* weakly increasing grid of admissible values *)
Definition sorted_grid (g : list T) : Prop :=
  (forall i, (i < length g)%nat -> F (nth i g nzero)) /\
  (forall i j, (i <= j < length g)%nat -> nle (nth i g nzero) (nth j g nzero)).

Theorem nearest_1d_argmin_gen (grid : list T) (x : T) :
  grid <> [] -> sorted_grid grid -> F x ->
  let r := nearest_1d grid x in
  (0 <= r < Z.of_nat (length grid)) /\
  forall j, (j < length grid)%nat ->
    nle (dist (nth (Z.to_nat r) grid nzero) x) (dist (nth j grid nzero) x).
Proof.
  intros Hne [FG S] Fx. cbn zeta.
  assert (Hlen : (0 < length grid)%nat) by (destruct grid; [congruence|cbn; lia]).
  unfold nearest_1d. set (n := Z.of_nat (length grid)). change (Z.to_nat 0) with 0%nat.
  pose proof (FG 0%nat ltac:(lia)) as F0.
  destruct (nleb x (nth 0 grid nzero)) eqn:E0.
  { split; [lia|]. intros j Hj. change (Z.to_nat 0) with 0%nat.
    apply dist_right; auto. apply S. lia. }
  replace (Z.to_nat (n - 1)) with (length grid - 1)%nat by lia.
  pose proof (FG (length grid - 1)%nat ltac:(lia)) as Fl.
  destruct (nleb (nth (length grid - 1) grid nzero) x) eqn:E1.
  { split; [lia|]. intros j Hj. replace (Z.to_nat (n - 1)) with (length grid - 1)%nat by lia.
    apply dist_left; auto. apply S. lia. }
  (* interior *)
  pose proof (searchsorted_spec_gen grid x) as SS. cbn zeta in SS.
  set (k := np_searchsorted_left grid x) in *. fold n in SS. destruct SS as (Rk & Lo & Hi).
  assert (K1 : 1 <= k).
  { destruct (Z.eq_dec k 0) as [Ek|]; [|lia]. exfalso. specialize (Hi ltac:(lia)). rewrite Ek in Hi.
    change (Z.to_nat 0) with 0%nat in Hi. congruence. }
  assert (K2 : k <= n - 1).
  { destruct (Z.eq_dec k n) as [Ek|]; [|lia]. exfalso.
    specialize (Lo (length grid - 1)%nat ltac:(lia)).
    pose proof (not_le _ _ (F_C _ Fl) (F_C _ Fx) E1) as L. unfold nle in L. congruence. }
  specialize (Hi ltac:(lia)). specialize (Lo (Z.to_nat (k - 1)) ltac:(lia)).
  set (kn := Z.to_nat k) in *. replace (Z.to_nat (k - 1)) with (kn - 1)%nat in * by lia.
  pose proof (FG kn ltac:(lia)) as Fk. pose proof (FG (kn - 1)%nat ltac:(lia)) as Fk1.
  assert (Lk1 : nle (nth (kn - 1) grid nzero) x) by (apply not_le; auto).
  (* the test of the source compares exactly the two distances *)
  assert (Dk : dist (nth kn grid nzero) x = nsub (nth kn grid nzero) x) by (unfold dist; rewrite Hi; reflexivity).
  assert (Dk1 : dist (nth (kn - 1) grid nzero) x = nsub x (nth (kn - 1) grid nzero)) by (unfold dist; rewrite Lo; reflexivity).
  rewrite <- Dk, <- Dk1.
  pose proof (dist_C _ _ Fk Fx) as Ck. pose proof (dist_C _ _ Fk1 Fx) as Ck1.
  rewrite ltb_leb by assumption.
  assert (above : forall j, (kn <= j < length grid)%nat -> nle (dist (nth kn grid nzero) x) (dist (nth j grid nzero) x)).
  { intros j Hj. apply dist_right; try (apply FG; lia); try (apply S; lia); auto. }
  assert (below : forall j, (j <= kn - 1)%nat -> nle (dist (nth (kn - 1) grid nzero) x) (dist (nth j grid nzero) x)).
  { intros j Hj. apply dist_left; try (apply FG; lia); try (apply S; lia); auto. }
  destruct (nleb (dist (nth (kn - 1) grid nzero) x) (dist (nth kn grid nzero) x)) eqn:ET; cbn [negb].
  - (* lower neighbour at most as far: k-1 *)
    split; [lia|]. intros j Hj. replace (Z.to_nat (k - 1)) with (kn - 1)%nat by lia.
    destruct (Nat.le_gt_cases kn j) as [Cj|Cj].
    + apply (le_trans _ (dist (nth kn grid nzero) x)); auto. apply dist_C; auto.
    + apply below. lia.
  - split; [lia|]. intros j Hj. fold kn.
    pose proof (not_le _ _ Ck1 Ck ET) as L.
    destruct (Nat.le_gt_cases kn j) as [Cj|Cj].
    + apply above. lia.
    + apply (le_trans _ (dist (nth (kn - 1) grid nzero) x)); auto. apply dist_C; auto. apply below. lia.
Qed.
End NearestGeneric.

(* ---------- instance: exact rationals (every value admissible and comparable) ---------- *)
Lemma Qle_bool_total a b : Qle_bool a b = true \/ Qle_bool b a = true.
Proof. destruct (Qlt_le_dec b a) as [L|L]; [right|left]; apply Qle_bool_iff; lra. Qed.

Theorem nearest_1d_argmin_Q_gen (grid : list Q) (x : Q) :
  grid <> [] -> (forall i j, (i <= j < length grid)%nat -> (nth i grid 0 <= nth j grid 0)%Q) ->
  let r := nearest_1d grid x in
  (0 <= r < Z.of_nat (length grid)) /\
  forall j, (j < length grid)%nat ->
    (dist (nth (Z.to_nat r) grid 0%Q) x <= dist (nth j grid 0%Q) x)%Q.
Proof.
  intros Hne S.
  pose proof (@nearest_1d_argmin_gen Q NumQ (fun _ => True) (fun _ => True)) as G.
  cbn zeta in *. 
  assert (G' := G (fun _ _ => I) (fun _ _ _ _ => I)). clear G.
  specialize (G' (fun a b _ _ => Qle_bool_total a b)).
  assert (Tr : forall a b c : Q, True -> True -> True -> nle a b -> nle b c -> nle a c).
  { unfold nle. cbn [nleb NumQ]. intros a b c _ _ _ H1 H2. apply Qle_bool_iff in H1, H2. apply Qle_bool_iff. lra. }
  assert (LB : forall a b : Q, True -> True -> nltb a b = negb (nleb b a)) by (intros; reflexivity).
  assert (ML : forall a b c : Q, True -> True -> True -> nle a b -> nle (nsub a c) (nsub b c)).
  { unfold nle. cbn [nleb nsub NumQ]. intros a b c _ _ _ H1. apply Qle_bool_iff in H1. apply Qle_bool_iff. rewrite !Qsubr_eq. lra. }
  assert (MR : forall a b c : Q, True -> True -> True -> nle a b -> nle (nsub c b) (nsub c a)).
  { unfold nle. cbn [nleb nsub NumQ]. intros a b c _ _ _ H1. apply Qle_bool_iff in H1. apply Qle_bool_iff. rewrite !Qsubr_eq. lra. }
  specialize (G' Tr LB ML MR grid x Hne).
  assert (SG : sorted_grid (fun _ : Q => True) grid).
  { split; [intros; exact I|]. intros i j Hij. unfold nle. cbn [nleb NumQ]. apply Qle_bool_iff. apply S. exact Hij. }
  destruct (G' SG I) as [R M]. split; [exact R|]. intros j Hj. specialize (M j Hj).
  unfold nle in M. cbn [nleb NumQ] in M. apply Qle_bool_iff in M. exact M.
Qed.

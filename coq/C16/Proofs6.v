(* C16, part 6: simplex_index is the position in simplex_grid; the grid lists every composition
   exactly once in lexicographic order. *)
From Coq Require Import ZArith List Bool Lia ZifyBool.
From QE Require Import Base.Num C16.Model C16.Proofs C16.Proofs2 C16.Proofs5.
Import ListNotations.
Open Scope Z_scope.

(* ---------- specification vocabulary ---------- *)
Definition composition (m n : Z) (x : list Z) : Prop :=
  Z.of_nat (length x) = m /\ nonneg x /\ sumZ x = n.

(* y is the immediate lexicographic successor of x among the m-part compositions of n *)
Definition lex_succ (m n : Z) (x y : list Z) : Prop :=
  lex_lt x y /\ forall z, composition m n z -> ~ (lex_lt x z /\ lex_lt z y).

(* rows i, i+1, ... of a table: compositions, simplex_index = row number, consecutive rows are successors *)
Fixpoint sg_chain (m n i : Z) (l : list (list Z)) : Prop :=
  match l with
  | [] => True
  | x :: r => composition m n x /\ simplex_index x m n = i /\
              match r with [] => True | y :: _ => lex_succ m n x y end /\
              sg_chain m n (i + 1) r
  end.

(* ---------- closed form of simplex_index ---------- *)
Fixpoint Ssum (l : list Z) : Z :=
  match l with
  | [] => 0
  | _ :: r => binomZ (sumZ l + Z.of_nat (length l) - 1) (Z.of_nat (length l)) + Ssum r
  end.

Lemma Ssum_cons y r : Ssum (y :: r) =
  binomZ (sumZ (y :: r) + Z.of_nat (length (y :: r)) - 1) (Z.of_nat (length (y :: r))) + Ssum r.
Proof. reflexivity. Qed.

Lemma suffix_sums_form l :
  suffix_sums l = match l with [] => [] | _ :: r => sumZ l :: suffix_sums r end.
Proof.
  induction l as [|y r IH]; [reflexivity|].
  cbn [suffix_sums]. rewrite IH. destruct r as [|z r'].
  - rewrite sumZ_cons. change (sumZ []) with 0. rewrite Z.add_0_r. reflexivity.
  - rewrite (sumZ_cons y). rewrite <- IH. reflexivity.
Qed.

Lemma nonneg_sum0_tail y r : nonneg (y :: r) -> sumZ (y :: r) = 0 -> y = 0 /\ sumZ r = 0.
Proof.
  intros Hn Hs. pose proof (Forall_inv Hn) as Hy. cbn beta in Hy.
  pose proof (sumZ_nonneg r (Forall_inv_tail Hn)). rewrite sumZ_cons in Hs. lia.
Qed.

Lemma Ssum_zero l : nonneg l -> sumZ l = 0 -> Ssum l = 0.
Proof.
  induction l as [|y r IH]; intros Hn Hs; [reflexivity|].
  destruct (nonneg_sum0_tail y r Hn Hs) as [_ Hr].
  cbn [Ssum]. rewrite IH by (try apply (Forall_inv_tail Hn); exact Hr).
  rewrite Hs. rewrite binomZ_gt; [reflexivity|]. cbn [length]. lia.
Qed.

Lemma Ssum_nonneg l : 0 <= Ssum l.
Proof.
  induction l as [|y r IH]; cbn [Ssum]; [lia|].
  pose proof (binomZ_nonneg (sumZ (y :: r) + Z.of_nat (length (y :: r)) - 1) (Z.of_nat (length (y :: r)))). lia.
Qed.

Lemma si_loop_Ssum m : forall l i idx, nonneg l -> m - i - 1 = Z.of_nat (length l) ->
  si_loop m i (suffix_sums l) idx = idx - Ssum l.
Proof.
  induction l as [|y r IH]; intros i idx Hn Hl; [cbn; lia|].
  rewrite suffix_sums_form. cbn [si_loop].
  destruct (Z.eqb_spec (sumZ (y :: r)) 0) as [E|E].
  - rewrite Ssum_zero by assumption. lia.
  - rewrite IH; [|apply (Forall_inv_tail Hn)|cbn [length] in Hl; lia].
    cbn [Ssum]. unfold num_compositions.
    replace (sumZ (y :: r) - 1 + (m - i) - 1) with (sumZ (y :: r) + Z.of_nat (length (y :: r)) - 1) by lia.
    replace (m - i - 1) with (Z.of_nat (length (y :: r))) by lia. lia.
Qed.

Lemma simplex_index_closed x m n : 2 <= m -> Z.of_nat (length x) = m -> nonneg x ->
  simplex_index x m n = num_compositions m n - 1 - Ssum (tl x).
Proof.
  intros Hm Hl Hn. unfold simplex_index. replace (m =? 1) with false by lia.
  apply si_loop_Ssum.
  - destruct x; [constructor|apply (Forall_inv_tail Hn)].
  - destruct x; cbn [length tl] in *; lia.
Qed.

(* ---------- Ssum on the shapes occurring in the walk ---------- *)
Lemma Ssum_app_pre pre : forall s s', sumZ s = sumZ s' -> length s = length s' ->
  Ssum (pre ++ s) - Ssum (pre ++ s') = Ssum s - Ssum s'.
Proof.
  induction pre as [|p pre IH]; intros s s' Hs Hl; [reflexivity|].
  cbn [app Ssum]. specialize (IH s s' Hs Hl).
  rewrite !sumZ_cons, !sumZ_app. cbn [length]. rewrite !app_length, Hs, Hl. lia.
Qed.

Lemma Ssum_repeat0 q : Ssum (repeat 0 q) = 0.
Proof. apply Ssum_zero; [apply nonneg_repeat0|apply sumZ_repeat0]. Qed.

(* hockey stick *)
Lemma Ssum_zeros_last w : 0 <= w -> forall q,
  Ssum (repeat 0 q ++ [w]) = binomZ (w + Z.of_nat q + 1) (Z.of_nat q + 1) - 1.
Proof.
  intros Hw. induction q as [|q IH].
  - cbn [repeat app Ssum length]. rewrite sumZ_cons. change (sumZ []) with 0.
    replace (w + 0 + Z.of_nat 1 - 1) with w by lia. change (Z.of_nat 1) with 1.
    change (Z.of_nat 0 + 1) with 1. rewrite !binomZ_1_r by lia. lia.
  - cbn [repeat app Ssum]. rewrite IH. rewrite sumZ_cons, sumZ_app, sumZ_repeat0, sumZ_cons.
    change (sumZ []) with 0. cbn [length]. rewrite app_length, repeat_length. cbn [length].
    replace (0 + (0 + (w + 0)) + Z.of_nat (S (q + 1)) - 1) with (w + Z.of_nat q + 1) by lia.
    replace (Z.of_nat (S (q + 1))) with (Z.of_nat q + 1 + 1) by lia.
    replace (w + Z.of_nat (S q) + 1) with (w + Z.of_nat q + 1 + 1) by lia.
    replace (Z.of_nat (S q) + 1) with (Z.of_nat q + 1 + 1) by lia.
    rewrite (binomZ_pascal (w + Z.of_nat q + 1) (Z.of_nat q + 1)) by lia. lia.
Qed.

Lemma Ssum_head_zeros v q : Ssum (v :: repeat 0 q) = binomZ (v + Z.of_nat q) (Z.of_nat q + 1).
Proof.
  cbn [Ssum]. rewrite Ssum_repeat0, sumZ_cons, sumZ_repeat0. cbn [length]. rewrite repeat_length.
  replace (v + 0 + Z.of_nat (S q) - 1) with (v + Z.of_nat q) by lia.
  replace (Z.of_nat (S q)) with (Z.of_nat q + 1) by lia. lia.
Qed.

Lemma Ssum_step_core v q : 1 <= v -> Ssum (v :: repeat 0 q) = Ssum (repeat 0 q ++ [v - 1]) + 1.
Proof.
  intros Hv. rewrite Ssum_head_zeros, Ssum_zeros_last by lia.
  replace (v - 1 + Z.of_nat q + 1) with (v + Z.of_nat q) by lia. lia.
Qed.

(* the loop body increases simplex_index by one *)
Lemma simplex_index_step pre a v q m n :
  2 <= m -> m = Z.of_nat (length pre) + 2 + Z.of_nat q -> 1 <= v -> 0 <= a -> nonneg pre ->
  simplex_index (pre ++ (a + 1) :: repeat 0 q ++ [v - 1]) m n =
  simplex_index (pre ++ a :: v :: repeat 0 q) m n + 1.
Proof.
  intros Hm Em Hv Ha Hp.
  rewrite !simplex_index_closed; try assumption.
  - assert (D : Ssum (tl (pre ++ a :: v :: repeat 0 q)) - Ssum (tl (pre ++ a + 1 :: repeat 0 q ++ [v - 1])) = 1).
    { destruct pre as [|p pre]; cbn [app tl].
      - rewrite Ssum_step_core by lia. lia.
      - rewrite Ssum_app_pre.
        + rewrite (Ssum_cons a), (Ssum_cons (a + 1)).
          rewrite !sumZ_cons, sumZ_app, sumZ_repeat0, sumZ_cons. change (sumZ []) with 0.
          rewrite Ssum_step_core by lia.
          cbn [length]. rewrite app_length, !repeat_length. cbn [length].
          replace (S (q + 1)) with (S (S q)) by lia.
          replace (a + 1 + (0 + (v - 1 + 0))) with (a + (v + 0)) by lia. lia.
        + rewrite !sumZ_cons, sumZ_app, sumZ_repeat0, sumZ_cons. change (sumZ []) with 0. lia.
        + cbn [length]. rewrite app_length, !repeat_length. cbn [length]. lia. }
    lia.
  - rewrite app_length. cbn [length]. rewrite repeat_length. lia.
  - apply nonneg_app. split; [exact Hp|]. constructor; [lia|]. constructor; [lia|apply nonneg_repeat0].
  - rewrite app_length. cbn [length]. rewrite app_length, repeat_length. cbn [length]. lia.
  - apply nonneg_app. split; [exact Hp|]. constructor; [lia|].
    apply nonneg_app. split; [apply nonneg_repeat0|constructor; [lia|constructor]].
Qed.

(* in the last composition (n,0,...,0) the index is L-1; so index < L-1 forces h >= 2 *)
Lemma simplex_index_last m n x : 2 <= m -> sg_inv m (x, 1) ->
  simplex_index x m n = num_compositions m n - 1.
Proof.
  intros Hm (Hl & _ & Hn & _ & Hz).
  rewrite simplex_index_closed by assumption.
  replace (tl x) with (repeat 0 (length (tl x))); [rewrite Ssum_repeat0; lia|].
  symmetry. apply all_zero. intros j Hj.
  destruct x as [|x0 x]; [cbn in Hj; lia|]. cbn [tl length] in *.
  specialize (Hz (Z.of_nat (S j)) ltac:(lia)). unfold zget in Hz. rewrite Nat2Z.id in Hz. exact Hz.
Qed.

(* ---------- the rows produced by the loop ---------- *)
Lemma sg_inv_composition m x h : sg_inv m (x, h) -> composition m (sumZ x) x.
Proof. intros (Hl & _ & Hn & _). repeat split; assumption. Qed.

Lemma sg_rows_chain m n : 2 <= m -> forall fuel x h,
  sg_inv m (x, h) -> sumZ x = n ->
  simplex_index x m n + Z.of_nat fuel <= num_compositions m n - 1 ->
  sg_chain m n (simplex_index x m n) (x :: sg_rows fuel m (x, h)) /\
  length (sg_rows fuel m (x, h)) = fuel.
Proof.
  intros Hm. induction fuel as [|f IH]; intros x h Inv Hs Hf.
  - cbn [sg_rows sg_chain length]. repeat split; try tauto; try apply Inv.
  - assert (H2 : 2 <= h).
    { destruct Inv as (I1 & I2 & I3). destruct (Z.eq_dec h 1) as [->|]; [|lia].
      pose proof (simplex_index_last m n x Hm (conj I1 (conj I2 I3))). lia. }
    pose proof (sg_step_succ m x h Inv H2) as Sx. cbn zeta in Sx.
    destruct Sx as (Inv' & Sum' & Lt & Btw).
    (* index of the new row *)
    assert (Idx : simplex_index (fst (sg_step m (x, h))) m n = simplex_index x m n + 1).
    { destruct (sg_inv_struct m x h Inv H2) as (pre & a & v & q & -> & -> & Em & Hv & Ha & Hp).
      pose proof (sg_step_struct pre a v q) as St. cbn zeta in St.
      replace (Z.of_nat (length pre) + 2 + Z.of_nat q) with m in St by lia.
      rewrite St. cbn [fst]. apply simplex_index_step; try assumption; lia. }
    cbn [sg_rows]. cbv zeta.
    destruct (sg_step m (x, h)) as [x' h'] eqn:Est. cbn [fst] in *.
    destruct (IH x' h' Inv' ltac:(lia) ltac:(lia)) as [Ch Len].
    split; [|cbn [length]; lia].
    cbn [sg_chain]. split; [|split; [reflexivity|split]].
    + rewrite <- Hs. apply (sg_inv_composition m x h Inv).
    + split; [exact Lt|]. intros z (Zl & Zn & Zs).
      apply Btw; try assumption; try lia. destruct Inv as (I1 & _). lia.
    + rewrite Idx in Ch. exact Ch.
Qed.

Lemma first_row_index m n : 2 <= m -> 0 <= n ->
  simplex_index (repeat 0 (Z.to_nat (m - 1)) ++ [n]) m n = 0.
Proof.
  intros Hm Hn. rewrite simplex_index_closed; try lia.
  - replace (Z.to_nat (m - 1)) with (S (Z.to_nat (m - 2))) by lia. cbn [repeat app tl].
    rewrite Ssum_zeros_last by lia. unfold num_compositions.
    replace (n + Z.of_nat (Z.to_nat (m - 2)) + 1) with (n + m - 1) by lia.
    replace (Z.of_nat (Z.to_nat (m - 2)) + 1) with (m - 1) by lia. lia.
  - rewrite app_length, repeat_length. cbn [length]. lia.
  - apply nonneg_app. split; [apply nonneg_repeat0|constructor; [lia|constructor]].
Qed.

(* generic consequences of a chain *)
Lemma sg_chain_nth m n : forall l i j, sg_chain m n i l -> (j < length l)%nat ->
  composition m n (nth j l []) /\ simplex_index (nth j l []) m n = i + Z.of_nat j /\
  ((S j < length l)%nat -> lex_succ m n (nth j l []) (nth (S j) l [])).
Proof.
  induction l as [|x r IH]; intros i j Ch Hj; [cbn in Hj; lia|].
  destruct Ch as (C & I & Sx & Ch). destruct j as [|j].
  - cbn [nth]. split; [exact C|]. split; [lia|]. intros H. destruct r; [cbn in H; lia|exact Sx].
  - cbn [length] in Hj. destruct (IH (i + 1) j Ch ltac:(lia)) as (C' & I' & S').
    change (nth (S j) (x :: r) []) with (nth j r []).
    change (nth (S (S j)) (x :: r) []) with (nth (S j) r []).
    split; [exact C'|]. split; [lia|]. intros H. apply S'. cbn [length] in H. lia.
Qed.

Lemma simplex_grid_chain m n rows : 1 <= m -> 0 <= n -> n + m - 1 <= INTP_MAX ->
  simplex_grid m n = Some rows ->
  sg_chain m n 0 rows /\ Z.of_nat (length rows) = num_compositions m n /\
  exists rest, rows = (repeat 0 (Z.to_nat (m - 1)) ++ [n]) :: rest.
Proof.
  intros Hm Hn Hmax. unfold simplex_grid.
  destruct (Z.eqb_spec (num_compositions_jit m n) 0) as [E|E]; [discriminate|].
  intros R. inversion R as [R']. clear R.
  assert (EL : num_compositions_jit m n = num_compositions m n).
  { unfold num_compositions_jit, num_compositions in *. apply comb_jit_exact; try lia; exact E. }
  rewrite EL in *. clear EL.
  rewrite zupd_last_repeat0 by lia.
  set (x0 := repeat 0 (Z.to_nat (m - 1)) ++ [n]).
  assert (C0 : composition m n x0).
  { unfold x0. repeat split.
    - rewrite app_length, repeat_length. cbn [length]. lia.
    - apply nonneg_app. split; [apply nonneg_repeat0|constructor; [lia|constructor]].
    - rewrite sumZ_app, sumZ_repeat0. cbn. lia. }
  assert (Lpos : 1 <= num_compositions m n).
  { unfold num_compositions, binomZ. replace ((n + m - 1 <? 0) || (m - 1 <? 0)) with false by lia.
    pose proof (binom_pos (Z.to_nat (n + m - 1)) (Z.to_nat (m - 1)) ltac:(lia)). lia. }
  destruct (Z.eq_dec m 1) as [->|Hm1].
  { (* a single part: L = 1 *)
    assert (L1 : num_compositions 1 n = 1).
    { unfold num_compositions. replace (1 - 1) with 0 by lia. apply binomZ_0_r. lia. }
    rewrite L1. change (Z.to_nat (1 - 1)) with 0%nat. cbn [sg_rows length sg_chain].
    split; [|split; [lia|eexists; reflexivity]]. split; [exact C0|]. split; [reflexivity|tauto]. }
  destruct (Z.eq_dec n 0) as [->|Hn0].
  { (* n = 0: L = 1, the loop does not run *)
    assert (L1 : num_compositions m 0 = 1).
    { unfold num_compositions. replace (0 + m - 1) with (m - 1) by lia. apply binomZ_diag. lia. }
    rewrite L1. change (Z.to_nat (1 - 1)) with 0%nat. cbn [sg_rows length sg_chain].
    split; [|split; [lia|eexists; reflexivity]]. split; [exact C0|].
    split; [apply first_row_index; lia|tauto]. }
  (* general case *)
  assert (Inv0 : sg_inv m (x0, m)).
  { destruct C0 as (Cl & Cn & Cs). unfold sg_inv. repeat split; try assumption; try lia.
    unfold zget, x0. replace (Z.to_nat (m - 1)) with (length (repeat 0 (Z.to_nat (m - 1)))) at 1
      by (rewrite repeat_length; reflexivity).
    rewrite nth_at. lia. }
  pose proof (first_row_index m n ltac:(lia) Hn) as I0. fold x0 in I0.
  destruct (sg_rows_chain m n ltac:(lia) (Z.to_nat (num_compositions m n - 1)) x0 m Inv0 (proj2 (proj2 C0)) ltac:(lia))
    as [Ch Len].
  rewrite I0 in Ch. cbn [length]. rewrite Len.
  split; [exact Ch|]. split; [lia|eexists; reflexivity].
Qed.

Theorem simplex_grid_spec m n rows : 1 <= m -> 0 <= n -> n + m - 1 <= INTP_MAX ->
  simplex_grid m n = Some rows ->
  Z.of_nat (length rows) = num_compositions m n /\
  nth 0 rows [] = repeat 0 (Z.to_nat (m - 1)) ++ [n] /\
  forall j, (j < length rows)%nat ->
    composition m n (nth j rows []) /\
    simplex_index (nth j rows []) m n = Z.of_nat j /\
    ((S j < length rows)%nat -> lex_succ m n (nth j rows []) (nth (S j) rows [])).
Proof.
  intros Hm Hn Hmax R. destruct (simplex_grid_chain m n rows Hm Hn Hmax R) as (Ch & Len & rest & E).
  split; [exact Len|]. split; [rewrite E; reflexivity|].
  intros j Hj. destruct (sg_chain_nth m n rows 0 j Ch Hj) as (A & B & C).
  split; [exact A|]. split; [lia|exact C].
Qed.

(* ---------- completeness: every composition is a row, no row is repeated ---------- *)
Lemma lex_trichotomy : forall a b : list Z, length a = length b -> lex_lt a b \/ a = b \/ lex_lt b a.
Proof.
  induction a as [|x a IH]; intros [|y b] Hl; cbn in Hl; try lia; [right; left; reflexivity|].
  cbn [lex_lt]. destruct (Z.lt_trichotomy x y) as [H|[->|H]]; [left; lia| |right; right; lia].
  destruct (IH b ltac:(lia)) as [H|[->|H]]; [left|right; left|right; right]; auto.
Qed.

Lemma sg_chain_cover m n : forall l i, sg_chain m n i l -> l <> [] ->
  forall y, composition m n y -> lex_lt (hd [] l) y -> In y l \/ lex_lt (last l []) y.
Proof.
  induction l as [|x r IH]; intros i Ch Hne y Cy Hy; [congruence|].
  destruct r as [|x' r]; [right; exact Hy|].
  destruct Ch as (Cx & _ & [Lt Btw] & Ch).
  change (last (x :: x' :: r) []) with (last (x' :: r) []).
  assert (Cx' : composition m n x') by apply Ch.
  destruct (lex_trichotomy y x') as [H|[->|H]].
  - destruct Cy as (Ly & _). destruct Cx' as (Lx' & _). lia.
  - exfalso. apply (Btw y Cy). split; assumption.
  - left. right. left. reflexivity.
  - destruct (IH (i + 1) Ch ltac:(discriminate) y Cy H) as [Hin|Hl]; [left; right; exact Hin|right; exact Hl].
Qed.

Lemma binomZ_zero_lt N K : 0 <= K -> binomZ N K = 0 -> N < K.
Proof.
  intros HK E. destruct (Z.lt_ge_cases N K) as [|Hge]; [assumption|]. exfalso.
  unfold binomZ in E. replace ((N <? 0) || (K <? 0)) with false in E by lia.
  pose proof (binom_pos (Z.to_nat N) (Z.to_nat K) ltac:(lia)). lia.
Qed.

Lemma top_index_is_last m n x : 2 <= m -> composition m n x ->
  simplex_index x m n = num_compositions m n - 1 -> x = n :: repeat 0 (Z.to_nat (m - 1)).
Proof.
  intros Hm (Hl & Hn & Hs) E. rewrite simplex_index_closed in E by assumption.
  destruct x as [|x0 t]; [cbn in Hl; lia|]. cbn [tl length] in *.
  destruct t as [|t0 t]; [cbn in Hl; lia|].
  pose proof (Ssum_nonneg t) as St. rewrite Ssum_cons in E.
  pose proof (binomZ_nonneg (sumZ (t0 :: t) + Z.of_nat (length (t0 :: t)) - 1) (Z.of_nat (length (t0 :: t)))) as Bn.
  assert (B0 : binomZ (sumZ (t0 :: t) + Z.of_nat (length (t0 :: t)) - 1) (Z.of_nat (length (t0 :: t))) = 0) by lia.
  apply binomZ_zero_lt in B0; [|lia].
  pose proof (Forall_inv_tail Hn) as Ht. pose proof (sumZ_nonneg _ Ht) as S0.
  assert (Z0 : sumZ (t0 :: t) = 0) by lia.
  rewrite sumZ_cons in Hs. f_equal; [lia|].
  replace (Z.to_nat (m - 1)) with (length (t0 :: t)) by lia.
  apply all_zero.
  clear -Ht Z0. revert Ht Z0. generalize (t0 :: t) as l. clear.
  induction l as [|y r IH]; intros Hn Hs j Hj; [cbn in Hj; lia|].
  destruct (nonneg_sum0_tail y r Hn Hs) as [-> Hr].
  destruct j as [|j]; [reflexivity|]. cbn [nth]. apply IH; [apply (Forall_inv_tail Hn)|exact Hr|cbn in Hj; lia].
Qed.

Theorem simplex_grid_complete m n rows : 1 <= m -> 0 <= n -> n + m - 1 <= INTP_MAX ->
  simplex_grid m n = Some rows ->
  (forall y, In y rows <-> composition m n y) /\ NoDup rows.
Proof.
  intros Hm Hn Hmax R.
  destruct (simplex_grid_chain m n rows Hm Hn Hmax R) as (Ch & Len & rest & E).
  destruct (simplex_grid_spec m n rows Hm Hn Hmax R) as (_ & _ & Nth).
  split.
  - intros y. split.
    + intros Hin. destruct (In_nth _ _ [] Hin) as (j & Hj & <-). apply Nth. exact Hj.
    + intros Cy.
      set (x0 := repeat 0 (Z.to_nat (m - 1)) ++ [n]) in *.
      assert (Ly : length y = S (Z.to_nat (m - 1))) by (destruct Cy as (L & _); lia).
      destruct (lex_trichotomy y x0) as [H|[->|H]].
      * unfold x0. rewrite app_length, repeat_length. cbn [length]. lia.
      * exfalso. destruct Cy as (_ & Ny & Sy).
        apply (no_lex_below_tail n (Z.to_nat (m - 1)) y Ny Sy Ly H).
      * rewrite E. left. reflexivity.
      * assert (Hne : rows <> []) by (rewrite E; discriminate).
        assert (Hhd : hd [] rows = x0) by (rewrite E; reflexivity).
        destruct (sg_chain_cover m n rows 0 Ch Hne y Cy ltac:(rewrite Hhd; exact H)) as [Hin|Hl]; [exact Hin|].
        exfalso.
        (* the last row has index L-1, hence is (n,0,...,0), the lexicographic maximum *)
        assert (Hlast : last rows [] = nth (length rows - 1) rows []).
        { clear -Hne. induction rows as [|a [|b r] IH]; [congruence|reflexivity|].
          change (last (a :: b :: r) []) with (last (b :: r) []). rewrite IH by discriminate.
          cbn [length]. replace (S (S (length r)) - 1)%nat with (S (S (length r) - 1)) by lia. reflexivity. }
        assert (Hlen : (0 < length rows)%nat) by (destruct rows; [congruence|cbn; lia]).
        destruct (Nth (length rows - 1)%nat ltac:(lia)) as (Cl & Il & _).
        rewrite <- Hlast in Cl, Il.
        destruct (Z.eq_dec m 1) as [->|Hm1].
        { (* one part: the only composition is [n] *)
          change (Z.to_nat (1 - 1)) with 0%nat in *. cbn [repeat app] in x0.
          destruct y as [|y0 [|? ?]]; cbn in Ly; try lia.
          destruct Cy as (_ & _ & Sy). cbn in Sy. unfold x0 in H. cbn in H. lia. }
        pose proof (top_index_is_last m n (last rows []) ltac:(lia) Cl ltac:(lia)) as EL.
        rewrite EL in Hl. destruct Cy as (_ & Ny & Sy).
        apply (no_lex_above_head n (Z.to_nat (m - 1)) y Ny Sy Hl).
  - (* distinct indices *)
    apply (NoDup_nth rows []). intros i j Hi Hj Eij.
    destruct (Nth i Hi) as (_ & Ii & _). destruct (Nth j Hj) as (_ & Ij & _).
    rewrite Eij in Ii. lia.
Qed.
